//go:build verif

// Harness c16: SLH-DSA (internal/signature/slhdsa + signature/slhdsa) against the independent
// FIPS 205 implementation in Lean (property C16).
//
//   - key generation from seeds: byte-identical secret/public keys            (G slhkeygen)
//   - deterministic and explicitly hedged signatures: byte-identical          (G slhsign)
//   - Go-made signatures (Sign, SignDeterministic, tink Signer, TINK prefix)  (G slhverify = 1)
//   - mutation streams in every structural region / lengths / message / key   (G slhverify = 0)
//   - toInt / toByte / base_2^b and the digest split of sign and verify       (G slhtoint ...)
//   - over-long contexts with crafted signatures (ctxwrap.go)                 (G slhfmt = err)
//   - large messages, 64 KiB .. 1 MiB as @len:seed tokens (large.go)          (G slhdigestx, slhhmsgx, slhverifyx, slhsignx)
//
// Every line is a deterministic function of the seed: crypto/rand is replaced by hlib's tape and is
// only read from the main goroutine; the worker pool only runs randomness-free signing calls.
package main

import (
	"bufio"
	"bytes"
	"crypto/rand"
	"fmt"
	"os"
	"runtime"
	"runtime/debug"
	"strconv"
	"strings"
	"sync"
	"time"

	"github.com/tink-crypto/tink-go/v2/insecuresecretdataaccess"
	islh "github.com/tink-crypto/tink-go/v2/internal/signature/slhdsa"
	"github.com/tink-crypto/tink-go/v2/internal/verifharness/hlib"
	"github.com/tink-crypto/tink-go/v2/keyset"
	"github.com/tink-crypto/tink-go/v2/signature"
	slhkey "github.com/tink-crypto/tink-go/v2/signature/slhdsa"
	"github.com/tink-crypto/tink-go/v2/tink"
)

// ---------- parameter table (FIPS 205 Table 2), written independently of the library ----------

type pset struct {
	name                 string
	p                    *islh.Params
	shake, fast          bool
	n, h, d, hp, a, k, m int
}

func (s *pset) wlen() int     { return 2*s.n + 3 } // len = len1 + len2 for lg w = 4
func (s *pset) forsSize() int { return s.k * (1 + s.a) * s.n }
func (s *pset) htOff() int    { return s.n + s.forsSize() }
func (s *pset) xmssSize() int { return (s.wlen() + s.hp) * s.n }
func (s *pset) sigLen() int   { return s.htOff() + s.d*s.xmssSize() }
func (s *pset) mdLen() int    { return (s.k*s.a + 7) / 8 }
func (s *pset) short() string { return strings.TrimPrefix(s.name, "SLH-DSA-") }
func (s *pset) hashType() slhkey.HashType {
	if s.shake {
		return slhkey.SHAKE
	}
	return slhkey.SHA2
}
func (s *pset) sigType() slhkey.SignatureType {
	if s.fast {
		return slhkey.FastSigning
	}
	return slhkey.SmallSignature
}

var sets = []*pset{
	{"SLH-DSA-SHA2-128s", islh.SLH_DSA_SHA2_128s, false, false, 16, 63, 7, 9, 12, 14, 30},
	{"SLH-DSA-SHAKE-128s", islh.SLH_DSA_SHAKE_128s, true, false, 16, 63, 7, 9, 12, 14, 30},
	{"SLH-DSA-SHA2-128f", islh.SLH_DSA_SHA2_128f, false, true, 16, 66, 22, 3, 6, 33, 34},
	{"SLH-DSA-SHAKE-128f", islh.SLH_DSA_SHAKE_128f, true, true, 16, 66, 22, 3, 6, 33, 34},
	{"SLH-DSA-SHA2-192s", islh.SLH_DSA_SHA2_192s, false, false, 24, 63, 7, 9, 14, 17, 39},
	{"SLH-DSA-SHAKE-192s", islh.SLH_DSA_SHAKE_192s, true, false, 24, 63, 7, 9, 14, 17, 39},
	{"SLH-DSA-SHA2-192f", islh.SLH_DSA_SHA2_192f, false, true, 24, 66, 22, 3, 8, 33, 42},
	{"SLH-DSA-SHAKE-192f", islh.SLH_DSA_SHAKE_192f, true, true, 24, 66, 22, 3, 8, 33, 42},
	{"SLH-DSA-SHA2-256s", islh.SLH_DSA_SHA2_256s, false, false, 32, 64, 8, 8, 14, 22, 47},
	{"SLH-DSA-SHAKE-256s", islh.SLH_DSA_SHAKE_256s, true, false, 32, 64, 8, 8, 14, 22, 47},
	{"SLH-DSA-SHA2-256f", islh.SLH_DSA_SHA2_256f, false, true, 32, 68, 17, 4, 9, 35, 49},
	{"SLH-DSA-SHAKE-256f", islh.SLH_DSA_SHAKE_256f, true, true, 32, 68, 17, 4, 9, 35, 49},
}

// sibling returns the set with the same sizes and the other hash family.
func sibling(i int) *pset { return sets[i^1] }

// ---------- keys ----------

type keyMat struct {
	set      *pset
	sk       *islh.SecretKey
	pk       *islh.PublicKey
	skB, pkB []byte
	origin   string // "seeds" (slhKeygenInternal hook) or "keyset" (KeyGen through keyset.Manager)
}

func fmtMsg(ctx, msg []byte) []byte {
	out := []byte{0, byte(len(ctx))}
	out = append(out, ctx...)
	return append(out, msg...)
}

func b01(err error) string {
	if err != nil {
		return "0"
	}
	return "1"
}

// ---------- signing jobs ----------

type sigJob struct {
	set      *pset
	key      *keyMat
	msg, ctx []byte
	mode     string // api-hedged | api-det | hook-hedged | tink-T | tink-R
	addrnd   []byte // hook-hedged
	id       uint32 // tink-T
	raw      []byte // signature without the tink prefix
	full     []byte // what the tink Signer returned
	verifier tink.Verifier
	signer   tink.Signer
	prefix   []byte
	err      error
	byteEq   bool // also compare byte for byte with G slhsign
	mutate   bool // run the mutation stream on this signature
}

func (j *sigJob) needsRand() bool { return j.mode == "api-hedged" || strings.HasPrefix(j.mode, "tink") }

func tinkParams(s *pset, v slhkey.Variant) *slhkey.Parameters {
	ps, err := slhkey.NewParameters(s.hashType(), 4*s.n, s.sigType(), v)
	if err != nil {
		panic(fmt.Sprintf("slhdsa.NewParameters(%s): %v", s.name, err))
	}
	return ps
}

// prepare builds the key objects of a tink job (main goroutine: HandleOf may draw a key id).
func (j *sigJob) prepare() {
	if !strings.HasPrefix(j.mode, "tink") {
		return
	}
	v := slhkey.VariantTink
	if j.mode == "tink-R" {
		v = slhkey.VariantNoPrefix
		j.id = 0
	}
	priv, err := slhkey.NewPrivateKey(hlib.Secret(j.key.skB), j.id, tinkParams(j.set, v))
	if err != nil {
		j.err = err
		return
	}
	kh, err := hlib.HandleOf(priv)
	if err != nil {
		j.err = err
		return
	}
	if j.signer, err = signature.NewSigner(kh); err != nil {
		j.err = err
		return
	}
	pub, err := kh.Public()
	if err != nil {
		j.err = err
		return
	}
	if j.verifier, err = signature.NewVerifier(pub); err != nil {
		j.err = err
		return
	}
	j.prefix = priv.OutputPrefix()
}

// run makes the signature; the rand-consuming modes read crypto/rand exactly once, first thing.
func (j *sigJob) run() {
	if j.err != nil {
		return
	}
	switch j.mode {
	case "api-hedged":
		j.raw, j.err = j.key.sk.Sign(j.msg, j.ctx)
	case "api-det":
		j.raw, j.err = j.key.sk.SignDeterministic(j.msg, j.ctx)
	case "hook-hedged":
		j.raw = j.key.sk.VerifSignInternal(fmtMsg(j.ctx, j.msg), j.addrnd)
	case "tink-T", "tink-R":
		j.full, j.err = j.signer.Sign(j.msg)
		if j.err != nil {
			return
		}
		if !bytes.HasPrefix(j.full, j.prefix) {
			j.err = fmt.Errorf("signature does not start with the key's output prefix")
			return
		}
		j.raw = j.full[len(j.prefix):]
	}
}

// seqReader replaces crypto/rand.Reader. Reads are served from the seeded stream; every read is
// signalled so that the scheduler can start the next rand-consuming job only after the previous one
// has drawn its bytes: the assignment of random bytes to jobs is then independent of scheduling.
type seqReader struct {
	mu    sync.Mutex
	rng   *hlib.Rng
	reads int
	sig   chan struct{}
}

func (r *seqReader) count() int {
	r.mu.Lock()
	defer r.mu.Unlock()
	return r.reads
}

func (r *seqReader) Read(p []byte) (int, error) {
	r.mu.Lock()
	copy(p, r.rng.Bytes(len(p)))
	r.reads++
	r.mu.Unlock()
	select {
	case r.sig <- struct{}{}:
	default:
	}
	return len(p), nil
}

// ---------- replay: re-evaluate op lines of an earlier run against the current tree ----------

func evalLine(l string) (res string) {
	defer func() {
		if r := recover(); r != nil {
			res = "harness-cannot-evaluate: " + fmt.Sprint(r)
		}
	}()
	t := strings.Fields(strings.TrimPrefix(l, "!"))
	if len(t) < 2 || t[0] != "G" {
		return "bad-op"
	}
	set := func(name string) *pset {
		for _, s := range sets {
			if s.name == name {
				return s
			}
		}
		panic("parameter set " + name)
	}
	num := func(x string) uint64 {
		v, err := strconv.ParseUint(x, 10, 64)
		if err != nil {
			panic(err)
		}
		return v
	}
	switch t[1] {
	case "slhkeygen":
		sk, pk := set(t[2]).p.VerifKeygenInternal(hlib.FromTok(t[3]), hlib.FromTok(t[4]), hlib.FromTok(t[5]))
		return "ok " + hlib.Tok(sk.Encode()) + " " + hlib.Tok(pk.Encode())
	case "slhsign":
		s := set(t[2])
		sk, err := s.p.DecodeSecretKey(hlib.FromTok(t[3]))
		if err != nil || len(hlib.FromTok(t[5])) != s.n {
			return "err"
		}
		return "ok " + hlib.Tok(sk.VerifSignInternal(hlib.FromTok(t[4]), hlib.FromTok(t[5])))
	case "slhverify":
		pk, err := set(t[2]).p.DecodePublicKey(hlib.FromTok(t[3]))
		if err != nil {
			return "0"
		}
		return b01(pk.VerifVerifyInternal(hlib.FromTok(t[4]), hlib.FromTok(t[5])))
	case "slhfmt":
		// the library formats inside Sign/Verify; what can be replayed is its refusal of long contexts
		ctx, msg := hlib.FromTok(t[2]), hlib.FromTok(t[3])
		k := sets[2]
		sk, _ := k.p.VerifKeygenInternal(make([]byte, k.n), make([]byte, k.n), make([]byte, k.n))
		pk := sk.PublicKey()
		km := &keyMat{k, sk, pk, sk.Encode(), pk.Encode(), "seeds"}
		_, errDet := sk.SignDeterministic(msg, ctx)
		_, errHedged := sk.Sign(msg, ctx)
		if len(ctx) <= 255 {
			if errDet != nil || errHedged != nil {
				return "err"
			}
			return "ok " + hlib.Tok(fmtMsg(ctx, msg))
		}
		// an over-long context: every entry point must refuse, Verify also when the signature is a genuine one for
		// an encoding that a missing length check could arrive at (see ctxwrap.go)
		if errDet == nil || errHedged == nil {
			return "ok accepted-a-long-context"
		}
		if pk.Verify(msg, make([]byte, k.sigLen()), ctx) == nil {
			return "ok accepted-a-long-context"
		}
		for _, cr := range longCtxEncodings(ctx, msg) {
			cr.make(km)
			if cr.signErr == nil && pk.Verify(msg, cr.sig, ctx) == nil {
				return "ok accepted-a-long-context"
			}
		}
		return "err"
	case "slhtoint":
		x := hlib.FromTok(t[2])
		return strconv.FormatUint(islh.VerifToInt(x, uint32(len(x))), 10)
	case "slhtobyte":
		return hlib.Tok(islh.VerifToByte(uint32(num(t[2])), uint32(num(t[3]))))
	case "slhbase2b":
		return u32s(islh.VerifBase2b(hlib.FromTok(t[2]), uint32(num(t[3])), uint32(num(t[4]))))
	case "slhsplit":
		s := set(t[2])
		dg := hlib.FromTok(t[3])
		r := s.p.VerifSplitVerify(dg)
		r2 := s.p.VerifSplitSign(dg)
		if !r.Complete || !r2.Complete || r.IdxTree != r2.IdxTree || r.IdxLeaf != r2.IdxLeaf {
			return fmt.Sprintf("sign-and-verify-split-differ %+v %+v", r, r2)
		}
		return fmt.Sprintf("%s %d %d", hlib.Tok(dg[:s.mdLen()]), r.IdxTree, r.IdxLeaf)
	}
	if r, ok := evalLarge(t, set); ok { // the ...x ops of the LARGE MESSAGES section (large.go)
		return r
	}
	return "bad-op"
}

func replay(o *hlib.Out, path string) {
	f, err := os.Open(path)
	if err != nil {
		panic(err)
	}
	defer f.Close()
	sc := bufio.NewScanner(f)
	sc.Buffer(make([]byte, 1<<20), 1<<28)
	for sc.Scan() {
		l := strings.TrimSpace(sc.Text())
		if l == "" {
			continue
		}
		if strings.HasPrefix(l, "#") {
			if strings.HasPrefix(l, "# case") {
				o.Case()
			}
			continue
		}
		o.Emit(l, evalLine(l), true)
		o.Count("replay")
	}
}

func main() {
	o := hlib.Open("C16")
	defer o.Close()
	if *hlib.FlagReplay != "" {
		replay(o, *hlib.FlagReplay)
		return
	}
	seed := *hlib.FlagSeed
	rng := hlib.NewRng(seed, "c16")
	rd := &seqReader{rng: hlib.NewRng(seed, "c16-rand"), sig: make(chan struct{}, 1)}
	rand.Reader = rd
	debug.SetGCPercent(400)
	t0 := time.Now()
	lap := func(what string) {
		if os.Getenv("VERIF_TIMING") != "" {
			fmt.Fprintf(os.Stderr, "c16: %-28s %6.2fs\n", what, time.Since(t0).Seconds())
		}
	}

	// ---------- 0. the library's parameter table vs FIPS 205 Table 2 ----------
	for _, s := range sets {
		want := [9]uint32{uint32(s.n), uint32(s.h), uint32(s.d), uint32(s.hp), uint32(s.a), uint32(s.k), 4, uint32(s.m), uint32(s.wlen())}
		if got := s.p.VerifDims(); got != want {
			o.Violate("%s: parameters n,h,d,h',a,k,lgw,m,len = %v, FIPS 205 Table 2 says %v", s.name, got, want)
		}
		if s.p.PublicKeyLength() != 2*s.n || s.p.SecretKeyLength() != 4*s.n {
			o.Violate("%s: key lengths %d/%d", s.name, s.p.PublicKeyLength(), s.p.SecretKeyLength())
		}
	}

	// ---------- 1. support functions ----------
	support(o, rng)
	lap("support functions")

	// ---------- 2. keys ----------
	keys := make([][]*keyMat, len(sets))
	for si, s := range sets {
		nSeeds := hlib.N(1, 4)
		if s.fast {
			nSeeds = hlib.N(2, 12)
		}
		o.Case()
		for i := 0; i < nSeeds; i++ {
			skSeed, skPrf, pkSeed := rng.Bytes(s.n), rng.Bytes(s.n), rng.Bytes(s.n)
			if i == 3 { // degenerate seeds
				skSeed, skPrf, pkSeed = make([]byte, s.n), bytes.Repeat([]byte{0xff}, s.n), make([]byte, s.n)
			}
			sk, pk := s.p.VerifKeygenInternal(skSeed, skPrf, pkSeed)
			km := &keyMat{s, sk, pk, sk.Encode(), pk.Encode(), "seeds"}
			keys[si] = append(keys[si], km)
			o.Count("keygen/seeds/" + s.short())
			o.Emit(fmt.Sprintf("!G slhkeygen %s %s %s %s", s.name, hlib.Tok(skSeed), hlib.Tok(skPrf), hlib.Tok(pkSeed)),
				"ok "+hlib.Tok(km.skB)+" "+hlib.Tok(km.pkB), true)
			if !bytes.Equal(km.skB[:3*s.n], append(append(append([]byte{}, skSeed...), skPrf...), pkSeed...)) || !bytes.Equal(km.skB[2*s.n:], km.pkB) {
				o.Violate("%s: secret key is not skSeed|skPrf|pkSeed|pkRoot or public key is not pkSeed|pkRoot", s.name)
			}
		}
		// a key made by the public key-generation path (KeyGen via keyset.Manager, randomness from the tape)
		nKs := hlib.N(1, 2)
		for i := 0; i < nKs; i++ {
			variant := slhkey.VariantTink
			if (si+i)%2 == 1 {
				variant = slhkey.VariantNoPrefix
			}
			mgr := keyset.NewManager()
			id, err := mgr.AddNewKeyFromParameters(tinkParams(s, variant))
			if err != nil {
				panic(err)
			}
			if err := mgr.SetPrimary(id); err != nil {
				panic(err)
			}
			kh, err := mgr.Handle()
			if err != nil {
				panic(err)
			}
			e, err := kh.Primary()
			if err != nil {
				panic(err)
			}
			priv, ok := e.Key().(*slhkey.PrivateKey)
			if !ok {
				panic("keyset entry is not an SLH-DSA private key")
			}
			skB := priv.PrivateKeyBytes().Data(insecuresecretdataaccess.Token{})
			pubK, _ := priv.PublicKey()
			pkB := pubK.(*slhkey.PublicKey).KeyBytes()
			sk, err := s.p.DecodeSecretKey(skB)
			if err != nil {
				panic(err)
			}
			pk, err := s.p.DecodePublicKey(pkB)
			if err != nil {
				panic(err)
			}
			km := &keyMat{s, sk, pk, skB, pkB, "keyset"}
			keys[si] = append(keys[si], km)
			o.Count("keygen/keyset/" + s.short())
			// the reference recomputes the root from the three seeds the library drew
			if s.fast || hlib.Thorough() {
				o.Emit(fmt.Sprintf("!G slhkeygen %s %s %s %s", s.name, hlib.Tok(skB[:s.n]), hlib.Tok(skB[s.n:2*s.n]), hlib.Tok(skB[2*s.n:3*s.n])),
					"ok "+hlib.Tok(skB)+" "+hlib.Tok(pkB), true)
			}
		}
	}
	lap("keys")

	// ---------- 3. signatures ----------
	nSig := hlib.N(12, 120)
	nMut := hlib.N(4, 30)
	var jobs []*sigJob
	perSet := make([][]*sigJob, len(sets))
	// one s-set gets a byte-for-byte signature comparison in the quick tier (2.5-4.5 s in the reference)
	slowEq := []int{0, 1, 4, 5, 8, 9}[rng.Intn(6)]
	for si, s := range sets {
		nEq := 0
		if s.fast {
			nEq = hlib.N(2, 12)
		} else if hlib.Thorough() {
			nEq = 2
		} else if si == slowEq {
			nEq = 1
		}
		for i := 0; i < nSig; i++ {
			j := &sigJob{set: s, key: keys[si][rng.Intn(len(keys[si]))]}
			switch {
			case i == 0:
				j.msg = []byte{}
			case i == 1:
				j.msg = rng.Bytes(200)
			case i == 2:
				j.msg = rng.Bytes(1)
			default:
				j.msg = rng.Bytes(rng.Intn(201))
			}
			switch rng.Intn(6) {
			case 0, 1:
				j.ctx = []byte{}
			case 2:
				j.ctx = rng.Bytes(1)
			case 3:
				j.ctx = rng.Bytes(255)
			case 4:
				j.ctx = rng.Bytes(1 + rng.Intn(32))
			default:
				j.ctx = rng.Bytes(rng.Intn(256))
			}
			// modes: the rand-consuming ones run on the main goroutine; s-sets get few of them
			switch {
			case i%12 == 0:
				j.mode, j.ctx, j.id = "tink-T", []byte{}, rng.KeyID()
			case i%12 == 6:
				j.mode, j.ctx = "tink-R", []byte{}
			case i%12 == 3 || (s.fast && i%3 == 1):
				j.mode = "api-hedged"
			case i%2 == 0:
				j.mode = "api-det"
			default:
				j.mode, j.addrnd = "hook-hedged", rng.Bytes(s.n)
			}
			if (j.mode == "api-det" || j.mode == "hook-hedged") && nEq > 0 {
				j.byteEq = true
				nEq--
			}
			j.mutate = i < nMut
			jobs = append(jobs, j)
			perSet[si] = append(perSet[si], j)
		}
	}
	// slow sets first; a rand-consuming job is started only after its predecessor has drawn its bytes
	var order []*sigJob
	for _, fast := range []bool{false, true} {
		for _, j := range jobs {
			if j.set.fast == fast {
				order = append(order, j)
			}
		}
	}
	nw := runtime.NumCPU()
	readsBefore, nRandy, prepReads := rd.count(), 0, 0
	sem := make(chan struct{}, nw)
	var wg sync.WaitGroup
	for _, j := range order {
		r0 := rd.count()
		j.prepare()
		prepReads += rd.count() - r0
		sem <- struct{}{}
		wg.Add(1)
		done := make(chan struct{})
		select {
		case <-rd.sig:
		default:
		}
		go func() {
			defer wg.Done()
			j.run()
			close(done)
			<-sem
		}()
		if j.needsRand() {
			nRandy++
			select {
			case <-rd.sig:
			case <-done:
			}
		}
	}
	wg.Wait()
	if got := rd.count() - readsBefore - prepReads; got != nRandy {
		o.Violate("hedged signing is expected to read crypto/rand once per signature: %d reads, %d signatures", got, nRandy)
	}
	lap("all signatures")

	// ---------- 4. emit ----------
	for si, s := range sets {
		for ji, j := range perSet[si] {
			o.Case()
			cat := s.short() + "/" + j.mode
			if j.err != nil {
				o.Violate("%s: signing failed (%s): %v", s.name, j.mode, j.err)
				continue
			}
			mp := fmtMsg(j.ctx, j.msg)
			o.Emit(fmt.Sprintf("!G slhfmt %s %s", hlib.Tok(j.ctx), hlib.Tok(j.msg)), "ok "+hlib.Tok(mp), false)
			if len(j.raw) != s.sigLen() {
				o.Violate("%s: signature has %d bytes, FIPS 205 says %d", s.name, len(j.raw), s.sigLen())
			}
			// Go's own verdicts
			goV := j.key.pk.Verify(j.msg, j.raw, j.ctx)
			if goV != nil {
				o.Violate("%s: Verify rejects the output of %s (msg=%s ctx=%s)", s.name, j.mode, hlib.Tok(j.msg), hlib.Tok(j.ctx))
			}
			if e := j.key.pk.VerifVerifyInternal(mp, j.raw); (e == nil) != (goV == nil) {
				o.Violate("%s: Verify and verifyInternal on 00|len(ctx)|ctx|msg disagree", s.name)
			}
			if j.verifier != nil {
				if e := j.verifier.Verify(j.full, j.msg); e != nil {
					o.Violate("%s: tink Verifier rejects the tink Signer's output (%s)", s.name, j.mode)
				}
				want := []byte{}
				if j.mode == "tink-T" {
					want = []byte{1, byte(j.id >> 24), byte(j.id >> 16), byte(j.id >> 8), byte(j.id)}
				}
				if !bytes.Equal(j.full[:len(j.full)-len(j.raw)], want) {
					o.Violate("%s: %s signature prefix is %x, want %x", s.name, j.mode, j.full[:len(j.full)-len(j.raw)], want)
				}
			}
			o.Count("sig/" + cat)
			o.Count(fmt.Sprintf("sig/msglen/%03d-%03d", len(j.msg)/50*50, len(j.msg)/50*50+49))
			switch {
			case len(j.ctx) == 0:
				o.Count("sig/ctx/empty")
			case len(j.ctx) == 255:
				o.Count("sig/ctx/255")
			default:
				o.Count("sig/ctx/1..254")
			}
			o.Emit(fmt.Sprintf("!G slhverify %s %s %s %s", s.name, hlib.Tok(j.key.pkB), hlib.Tok(mp), hlib.Tok(j.raw)), b01(goV), true)
			o.Count("verify/genuine/" + map[bool]string{true: "accept", false: "REJECT"}[goV == nil])
			if j.byteEq {
				addrnd := j.addrnd
				if j.mode == "api-det" {
					addrnd = j.key.pkB[:s.n]
				}
				o.Count("sign-bytes-equal/" + cat)
				o.Emit(fmt.Sprintf("!G slhsign %s %s %s %s", s.name, hlib.Tok(j.key.skB), hlib.Tok(mp), hlib.Tok(addrnd)), "ok "+hlib.Tok(j.raw), true)
			}
			if j.mode == "api-det" && ji%4 == 0 {
				// determinism of the deterministic variant (cheap sets only)
				if s.fast {
					again, _ := j.key.sk.SignDeterministic(j.msg, j.ctx)
					if !bytes.Equal(again, j.raw) {
						o.Violate("%s: SignDeterministic is not deterministic", s.name)
					}
				}
			}
			if j.mutate {
				other := perSet[si][(ji+1)%len(perSet[si])]
				mutations(o, rng, si, j, other, keys[si])
			}
		}
		// contexts longer than 255 bytes are refused on both sides
		o.Case()
		long := rng.Bytes(256 + rng.Intn(3))
		msg := rng.Bytes(rng.Intn(40))
		k0 := keys[si][0]
		_, e1 := k0.sk.SignDeterministic(msg, long)
		e2 := k0.pk.Verify(msg, make([]byte, s.sigLen()), long)
		if s.fast {
			if _, e3 := k0.sk.Sign(msg, long); e3 == nil {
				e1 = nil
			}
		}
		res := "err"
		if e1 == nil || e2 == nil {
			res = "ok accepted-a-long-context"
		}
		o.Count("ctx-too-long")
		o.Emit(fmt.Sprintf("!G slhfmt %s %s", hlib.Tok(long), hlib.Tok(msg)), res, true)
	}
	lap("emit")

	// ---------- 5. over-long contexts with crafted signatures, the 255-byte boundary ----------
	ctxWrap(o, seed, keys)
	lap("context-length boundary")

	// ---------- 6. large messages (k*2^16+d, 100000, 1 MiB): digests, signatures, mutations, crafted signatures ----------
	largeMessages(o, seed, keys)
	lap("large messages")
}

// ---------- mutation stream ----------

type mut struct {
	kind string
	pk   []byte
	set  *pset
	msg  []byte
	ctx  []byte
	sig  []byte
}

func flipAt(rng *hlib.Rng, sig []byte, off int) []byte {
	c := append([]byte(nil), sig...)
	c[off] ^= byte(1 + rng.Intn(255))
	return c
}

func pickEdge(rng *hlib.Rng, n int, edges ...int) int {
	if rng.Chance(50) {
		return edges[rng.Intn(len(edges))]
	}
	return rng.Intn(n)
}

func mutations(o *hlib.Out, rng *hlib.Rng, si int, j, other *sigJob, ks []*keyMat) {
	s := j.set
	n, a, k, d, hp, wl := s.n, s.a, s.k, s.d, s.hp, s.wlen()
	sig := j.raw
	var ms []mut
	add := func(kind string, sg []byte) { ms = append(ms, mut{kind, j.key.pkB, s, j.msg, j.ctx, sg}) }
	if len(sig) == s.sigLen() {
		add("R", flipAt(rng, sig, rng.Intn(n)))
		for r := 0; r < 2; r++ {
			i := pickEdge(rng, k, 0, k-1)
			add("fors-secret", flipAt(rng, sig, n+i*(1+a)*n+rng.Intn(n)))
			i = pickEdge(rng, k, 0, k-1)
			ja := pickEdge(rng, a, 0, a-1)
			add("fors-auth", flipAt(rng, sig, n+i*(1+a)*n+(1+ja)*n+rng.Intn(n)))
			layer := pickEdge(rng, d, 0, d-1)
			chain := pickEdge(rng, wl, 0, 2*n-1, 2*n, wl-1)
			add(fmt.Sprintf("wots-chain/%s", layerName(layer, d)), flipAt(rng, sig, s.htOff()+layer*s.xmssSize()+chain*n+rng.Intn(n)))
			layer = pickEdge(rng, d, 0, d-1)
			jx := pickEdge(rng, hp, 0, hp-1)
			add(fmt.Sprintf("xmss-auth/%s", layerName(layer, d)), flipAt(rng, sig, s.htOff()+layer*s.xmssSize()+wl*n+jx*n+rng.Intn(n)))
		}
		add("last-byte", flipAt(rng, sig, len(sig)-1))
		c := append([]byte(nil), sig...)
		c[rng.Intn(len(c))] ^= 1 << uint(rng.Intn(8))
		add("bit-anywhere", c)
		// two XMSS layers exchanged
		if d >= 2 {
			c = append([]byte(nil), sig...)
			l1 := rng.Intn(d - 1)
			x := s.xmssSize()
			tmp := append([]byte(nil), c[s.htOff()+l1*x:s.htOff()+(l1+1)*x]...)
			copy(c[s.htOff()+l1*x:], c[s.htOff()+(l1+1)*x:s.htOff()+(l1+2)*x])
			copy(c[s.htOff()+(l1+1)*x:], tmp)
			add("swap-layers", c)
		}
	}
	add("truncate-1", append([]byte(nil), sig[:len(sig)-1]...))
	add("extend-1", append(append([]byte(nil), sig...), byte(rng.Intn(256))))
	add("drop-first", append([]byte(nil), sig[1:]...))
	add("truncate-n", append([]byte(nil), sig[:len(sig)-n]...))
	add("empty", []byte{})
	if other.err == nil && !bytes.Equal(other.raw, sig) && other.key == j.key {
		add("signature-of-other-message", other.raw)
	}
	// message / context
	m2 := append([]byte(nil), j.msg...)
	if len(m2) == 0 || rng.Chance(30) {
		m2 = append(m2, byte(rng.Intn(256)))
	} else {
		m2[rng.Intn(len(m2))] ^= 1 << uint(rng.Intn(8))
	}
	ms = append(ms, mut{"other-message", j.key.pkB, s, m2, j.ctx, sig})
	c2 := append([]byte(nil), j.ctx...)
	if len(c2) == 0 || (rng.Chance(30) && len(c2) < 255) {
		c2 = append(c2, byte(rng.Intn(256)))
	} else {
		c2[rng.Intn(len(c2))] ^= 1 << uint(rng.Intn(8))
	}
	ms = append(ms, mut{"other-context", j.key.pkB, s, j.msg, c2, sig})
	if len(j.ctx) > 0 && len(j.msg) > 0 {
		// same concatenation ctx|msg, split elsewhere
		ms = append(ms, mut{"context-boundary-moved", j.key.pkB, s, append(append([]byte{}, j.ctx[len(j.ctx)-1:]...), j.msg...), j.ctx[:len(j.ctx)-1], sig})
	}
	// keys
	pkSeedFlip := flipAt(rng, j.key.pkB, rng.Intn(n))
	ms = append(ms, mut{"pk-seed-flipped", pkSeedFlip, s, j.msg, j.ctx, sig})
	pkRootFlip := flipAt(rng, j.key.pkB, n+rng.Intn(n))
	ms = append(ms, mut{"pk-root-flipped", pkRootFlip, s, j.msg, j.ctx, sig})
	for _, ok := range ks {
		if ok != j.key {
			ms = append(ms, mut{"other-key", ok.pkB, s, j.msg, j.ctx, sig})
			break
		}
	}
	ms = append(ms, mut{"other-hash-family", j.key.pkB, sibling(si), j.msg, j.ctx, sig})

	for _, m := range ms {
		pk, err := m.set.p.DecodePublicKey(m.pk)
		if err != nil {
			panic(err)
		}
		var e error
		if p := hlib.Recover(func() { e = pk.Verify(m.msg, m.sig, m.ctx) }); p != "" {
			o.Violate("%s: Verify panics on a %s mutation: %s", s.name, m.kind, p)
			e = fmt.Errorf("panic")
		}
		if e == nil {
			o.Violate("%s: Verify ACCEPTS a %s mutation (pk=%s msg=%s ctx=%s sig=%s...)", m.set.name, m.kind, hlib.Tok(m.pk), hlib.Tok(m.msg), hlib.Tok(m.ctx), hlib.Tok(m.sig[:min(len(m.sig), 48)]))
		}
		o.Count("mut/" + m.kind + "/" + map[bool]string{true: "ACCEPT", false: "reject"}[e == nil])
		o.Count("mut-per-set/" + s.short())
		o.Emit(fmt.Sprintf("!G slhverify %s %s %s %s", m.set.name, hlib.Tok(m.pk), hlib.Tok(fmtMsg(m.ctx, m.msg)), hlib.Tok(m.sig)), b01(e), true)
	}

	// the tink layer: prefix handling of the Verifier obtained from the keyset
	if j.verifier != nil {
		type tm struct {
			kind string
			sig  []byte
		}
		var ts []tm
		if j.mode == "tink-T" {
			for b := 0; b < 5; b++ {
				c := append([]byte(nil), j.full...)
				c[b] ^= 1 << uint(rng.Intn(8))
				ts = append(ts, tm{"tink/prefix-byte-flipped", c})
			}
			ts = append(ts, tm{"tink/prefix-missing", j.raw})
			c := append([]byte(nil), j.full...)
			c[0] = 0
			ts = append(ts, tm{"tink/crunchy-prefix", c})
		} else {
			ts = append(ts, tm{"tink/prefix-added-to-raw", append([]byte{1, 0, 0, 0, byte(rng.Intn(256))}, j.raw...)})
		}
		ts = append(ts, tm{"tink/body-flipped", flipAt(rng, j.full, len(j.full)-1-rng.Intn(len(j.raw)))})
		ts = append(ts, tm{"tink/truncate-1", j.full[:len(j.full)-1]})
		ts = append(ts, tm{"tink/empty", []byte{}})
		for _, t := range ts {
			var e error
			if p := hlib.Recover(func() { e = j.verifier.Verify(t.sig, j.msg) }); p != "" {
				o.Violate("%s: tink Verifier panics on %s: %s", s.name, t.kind, p)
				continue
			}
			o.Count("mut/" + t.kind + "/" + map[bool]string{true: "ACCEPT", false: "reject"}[e == nil])
			if e == nil {
				o.Violate("%s: tink Verifier ACCEPTS %s", s.name, t.kind)
			}
			// what the reference says about the bytes after the key's prefix length, as a raw signature
			pl := len(j.full) - len(j.raw)
			if len(t.sig) >= pl && bytes.Equal(t.sig[:pl], j.full[:pl]) {
				o.Emit(fmt.Sprintf("!G slhverify %s %s %s %s", s.name, hlib.Tok(j.key.pkB), hlib.Tok(fmtMsg(nil, j.msg)), hlib.Tok(t.sig[pl:])), b01(e), true)
			}
		}
		if e := j.verifier.Verify(j.full, append(append([]byte{}, j.msg...), 0)); e == nil {
			o.Violate("%s: tink Verifier accepts message|00", s.name)
		}
	}
}

func layerName(l, d int) string {
	switch l {
	case 0:
		return "bottom"
	case d - 1:
		return "top"
	}
	return "middle"
}

// ---------- support functions through the export hooks ----------

func u32s(xs []uint32) string {
	ss := make([]string, len(xs))
	for i, x := range xs {
		ss[i] = strconv.FormatUint(uint64(x), 10)
	}
	return strings.Join(ss, ",")
}

func pattern(rng *hlib.Rng, n int) []byte {
	switch rng.Intn(8) {
	case 0:
		return make([]byte, n)
	case 1:
		return bytes.Repeat([]byte{0xff}, n)
	case 2:
		b := make([]byte, n)
		if n > 0 {
			b[0] = 0x80
		}
		return b
	case 3:
		b := make([]byte, n)
		if n > 0 {
			b[n-1] = 1
		}
		return b
	case 4:
		return bytes.Repeat([]byte{0xaa}, n)
	}
	return rng.Bytes(n)
}

func support(o *hlib.Out, rng *hlib.Rng) {
	// toInt: all lengths the uint64 result can hold; the library reads the first n bytes of x
	o.Case()
	for i := 0; i < hlib.N(150, 3000); i++ {
		n := rng.Intn(9)
		if rng.Chance(50) {
			n = rng.Pick(1, 2, 7, 8) // the lengths the twelve sets use for leaf and tree index
		}
		x := pattern(rng, n)
		extra := 0
		if rng.Chance(25) {
			extra = 1 + rng.Intn(4)
		}
		var v uint64
		if p := hlib.Recover(func() { v = islh.VerifToInt(append(append([]byte{}, x...), rng.Bytes(extra)...), uint32(n)) }); p != "" {
			o.Violate("toInt panics on %x, n=%d: %s", x, n, p)
			continue
		}
		o.Count(fmt.Sprintf("toInt/n=%d", n))
		o.Emit("!G slhtoint "+hlib.Tok(x), strconv.FormatUint(v, 10), true)
	}
	// toByte
	o.Case()
	for i := 0; i < hlib.N(150, 3000); i++ {
		var x uint32
		switch rng.Intn(6) {
		case 0:
			x = uint32(rng.Pick(0, 1, 255, 256, 65535, 65536, 1<<24-1, 1<<24))
		case 1:
			x = 0xffffffff - uint32(rng.Intn(2))
		case 2:
			x = uint32(rng.Intn(15 * 64 * 2)) // WOTS+ checksums (before the shift) are below len1*(w-1)
		case 3:
			x = uint32(rng.Intn(15*64*2)) << 4 // and shifted by 4 for len2*lgw = 12 bits
		default:
			x = uint32(rng.U64())
		}
		n := rng.Pick(0, 1, 2, 2, 2, 3, 4, 5, 8, 12, 32)
		var b []byte
		if p := hlib.Recover(func() { b = islh.VerifToByte(x, uint32(n)) }); p != "" {
			o.Violate("toByte panics on %d, n=%d: %s", x, n, p)
			continue
		}
		o.Count(fmt.Sprintf("toByte/n=%d", n))
		o.Emit(fmt.Sprintf("!G slhtobyte %d %d", x, n), hlib.Tok(b), true)
	}
	// base_2^b for every (b, outLen) of the twelve sets, then other widths
	type bo struct{ b, out int }
	var used []bo
	seen := map[bo]bool{}
	for _, s := range sets {
		for _, p := range []bo{{4, 2 * s.n}, {4, 3}, {s.a, s.k}} {
			if !seen[p] {
				seen[p] = true
				used = append(used, p)
			}
		}
	}
	o.Case()
	for _, p := range used {
		for i := 0; i < hlib.N(14, 250); i++ {
			need := (p.out*p.b + 7) / 8
			x := pattern(rng, need)
			if rng.Chance(20) {
				x = append(x, rng.Bytes(1+rng.Intn(3))...) // longer inputs: the tail is ignored
			}
			var r []uint32
			if pn := hlib.Recover(func() { r = islh.VerifBase2b(x, uint32(p.b), uint32(p.out)) }); pn != "" {
				o.Violate("base2b panics on %x, b=%d, outLen=%d: %s", x, p.b, p.out, pn)
				continue
			}
			o.Count(fmt.Sprintf("base2b/b=%d,out=%d", p.b, p.out))
			o.Emit(fmt.Sprintf("!G slhbase2b %s %d %d", hlib.Tok(x), p.b, p.out), u32s(r), true)
		}
	}
	for i := 0; i < hlib.N(60, 1500); i++ {
		b := 1 + rng.Intn(16)
		out := 1 + rng.Intn(40)
		x := pattern(rng, (out*b+7)/8)
		var r []uint32
		if pn := hlib.Recover(func() { r = islh.VerifBase2b(x, uint32(b), uint32(out)) }); pn != "" {
			o.Violate("base2b panics on %x, b=%d, outLen=%d: %s", x, b, out, pn)
			continue
		}
		o.Count("base2b/other-widths")
		o.Emit(fmt.Sprintf("!G slhbase2b %s %d %d", hlib.Tok(x), b, out), u32s(r), true)
	}
	// the digest split as performed inside verifyInternal and signInternal: the message hash is
	// replaced by a function returning the chosen digest and the ADRS handed to the FORS code is read
	for _, s := range sets {
		o.Case()
		for i := 0; i < hlib.N(16, 300); i++ {
			dg := pattern(rng, s.m)
			if i >= 4 {
				dg = rng.Bytes(s.m)
				if rng.Chance(30) { // extreme index bytes, random md
					copy(dg[s.mdLen():], pattern(rng, s.m-s.mdLen()))
				}
			}
			side := "verify"
			var r islh.VerifSplit
			var pn string
			if i%2 == 1 && (s.fast || i%8 == 1) {
				side = "sign"
				pn = hlib.Recover(func() { r = s.p.VerifSplitSign(dg) })
			} else {
				pn = hlib.Recover(func() { r = s.p.VerifSplitVerify(dg) })
			}
			if pn != "" {
				o.Violate("%s: %sInternal panics with digest %x: %s", s.name, side, dg, pn)
				continue
			}
			if !r.Complete || r.TreeHi != 0 {
				o.Violate("%s: %sInternal with digest %x: FORS addresses inconsistent (%+v)", s.name, side, dg, r)
				continue
			}
			o.Count("split/" + side + "/" + s.short())
			md := dg[:s.mdLen()]
			o.Emit(fmt.Sprintf("!G slhsplit %s %s", s.name, hlib.Tok(dg)), fmt.Sprintf("%s %d %d", hlib.Tok(md), r.IdxTree, r.IdxLeaf), true)
			o.Emit(fmt.Sprintf("!G slhbase2b %s %d %d", hlib.Tok(md), s.a, s.k), u32s(r.Indices), true)
		}
	}
}
