//go:build verif

// placeholder: harness c16 is being written
package main

import "github.com/tink-crypto/tink-go/v2/internal/verifharness/hlib"

func main() {
	o := hlib.Open("c16")
	defer o.Close()
	o.Emit("G slhtoint 0102", "258", true)
	o.Emit("G derenc 5 300", "30070201050202012c", true)
}
