//go:build verif

// LARGE MESSAGES for slh_sign / slh_verify (section 6 of main, own rng stream "c16-large").
//
// The message enters SLH-DSA only through R = PRF_msg(SK.prf, opt_rand, M') and digest = H_msg(R, PK.seed, PK.root, M')
// with M' = 0 | len(ctx) | ctx | M. Everything above a few KiB was untested: an implementation can take a different
// path for large inputs (incremental absorbing, a 16-bit length, a cut concatenation) and still pass its own
// sign-then-verify round trip, because both sides share the function. Only the reference sees it.
//
// Sizes: message lengths k*2^16+d around 65536 and 131072 (exactly 65533..65537), 100000, and the lengths at which
// len(M') = 2+len(ctx)+len(M) crosses 2^16 / 2^17 for contexts of 0, 1 and 255 bytes; 3*2^16, 1 MiB, 1 MiB+1 in the
// thorough tier. Messages travel as `@<len>:<seedhex>` (byte i = seed[i mod |seed|] + i + (i>>8), the convention of
// the X ...gen ops of c04/c08/c15), mutated ones as `@len:seed^pos:xor`.
//
//   - G slhdigestx / slhhmsgx: R, digest, md, idx_tree, idx_leaf and FORS indices as computed INSIDE the library's
//     signInternal / verifyInternal (observed through the hooks of export_verif_msgdigest.go) vs the reference, every
//     hash family (SHAKE, SHA2 category 1, SHA2 categories 3/5) at every size, parameter sets rotating over all twelve
//   - G slhverifyx = 1: signatures made by SignDeterministic / Sign / signInternal with explicit randomness verify in
//     the reference (f-sets quick, all sets thorough); G slhsignx: deterministic / hedged signatures byte-identical
//   - rejected on both sides: one byte of the message flipped (first, last, positions 65535 / 65536 of M and of M'),
//     message one byte longer / shorter / shortened by 2^16 with the same signature
//   - CRAFTED signatures that are genuine only under a wrong digest (H_msg without PK.root, over M' cut to 65535 bytes,
//     over M' cut to len mod 2^16; a signature of the cut M' itself) must be rejected by Verify
package main

import (
	"bytes"
	"crypto/sha256"
	"crypto/sha3"
	"crypto/sha512"
	"encoding/binary"
	"fmt"
	"os"
	"runtime"
	"strconv"
	"strings"
	"sync"
	"time"

	islh "github.com/tink-crypto/tink-go/v2/internal/signature/slhdsa"
	"github.com/tink-crypto/tink-go/v2/internal/verifharness/hlib"
)

// genMsg: the bytes the driver's `@<n>:<seed>` token stands for (same sum as c04/c08/c15).
func genMsg(seed []byte, n int) []byte {
	b := make([]byte, n)
	m := len(seed)
	for i := range b {
		s := 0
		if m > 0 {
			s = int(seed[i%m])
		}
		b[i] = byte(s + i + i>>8)
	}
	return b
}

// bigMsg describes a generated message, optionally with bytes xored in.
type bigMsg struct {
	seed []byte
	n    int
	pos  []int
	xor  []byte
}

func (m bigMsg) tok() string {
	s := fmt.Sprintf("@%d:%s", m.n, hlib.Tok(m.seed))
	for i, p := range m.pos {
		s += fmt.Sprintf("^%d:%02x", p, m.xor[i])
	}
	return s
}

func (m bigMsg) bytes() []byte {
	b := genMsg(m.seed, m.n)
	for i, p := range m.pos {
		b[p] ^= m.xor[i]
	}
	return b
}

func (m bigMsg) withLen(n int) bigMsg { return bigMsg{seed: m.seed, n: n} }
func (m bigMsg) flipped(pos int, x byte) bigMsg {
	return bigMsg{seed: m.seed, n: m.n, pos: []int{pos}, xor: []byte{x}}
}

// parseMsgTok: the inverse of tok (also accepts ordinary tokens); used by replays.
func parseMsgTok(s string) []byte {
	if !strings.HasPrefix(s, "@") {
		return hlib.FromTok(s)
	}
	parts := strings.Split(s[1:], "^")
	ls := strings.SplitN(parts[0], ":", 2)
	if len(ls) != 2 {
		panic("message token " + s)
	}
	n, err := strconv.Atoi(ls[0])
	if err != nil {
		panic(err)
	}
	b := genMsg(hlib.FromTok(ls[1]), n)
	for _, mu := range parts[1:] {
		px := strings.SplitN(mu, ":", 2)
		if len(px) != 2 {
			panic("message token " + s)
		}
		p, err := strconv.Atoi(px[0])
		x := hlib.FromTok(px[1])
		if err != nil || len(x) != 1 || p >= len(b) {
			panic("message token " + s)
		}
		b[p] ^= x[0]
	}
	return b
}

// ---------- hash families ----------

type hashFam struct {
	name string
	f, s []int // indices into sets: fast / small parameter sets sharing PRF_msg and H_msg
}

var hashFams = []hashFam{
	{"SHAKE", []int{3, 7, 11}, []int{1, 5, 9}},
	{"SHA2-cat1", []int{2}, []int{0}},
	{"SHA2-cat35", []int{6, 10}, []int{4, 8}},
}

// ---------- wrong digests (written with the standard library, independent of the package under test) ----------

func mgf1Std(seed []byte, n int, h func([]byte) []byte) []byte {
	var out []byte
	for c := uint32(0); len(out) < n; c++ {
		var cb [4]byte
		binary.BigEndian.PutUint32(cb[:], c)
		out = append(out, h(append(append([]byte{}, seed...), cb[:]...))...)
	}
	return out[:n]
}

// hmsgNoRoot is H_msg with PK.root left out.
func hmsgNoRoot(s *pset) islh.VerifHMsgFunc {
	return func(r, pkSeed, pkRoot, msg []byte, m uint32) []byte {
		in := bytes.Join([][]byte{r, pkSeed, msg}, nil)
		switch {
		case s.shake:
			return sha3.SumSHAKE256(in, int(m))
		case s.n == 16:
			d := sha256.Sum256(in)
			return mgf1Std(bytes.Join([][]byte{r, pkSeed, d[:]}, nil), int(m), func(b []byte) []byte { x := sha256.Sum256(b); return x[:] })
		}
		d := sha512.Sum512(in)
		return mgf1Std(bytes.Join([][]byte{r, pkSeed, d[:]}, nil), int(m), func(b []byte) []byte { x := sha512.Sum512(b); return x[:] })
	}
}

// hmsgCut is the library's own H_msg over the first cut(len) bytes of M'.
func hmsgCut(s *pset, cut func(int) int) islh.VerifHMsgFunc {
	return func(r, pkSeed, pkRoot, msg []byte, m uint32) []byte {
		return s.p.VerifHMsg(r, pkSeed, pkRoot, msg[:cut(len(msg))])
	}
}

// ---------- library side of the digest lines ----------

func digestText(s *pset, d islh.VerifMsgDigest, wantLen int, withR bool) string {
	if d.Calls != 1 || d.HMsgLen != wantLen || !d.Split.Complete || d.Split.TreeHi != 0 || len(d.Digest) < s.mdLen() {
		return fmt.Sprintf("library-hashed-%d-of-%d-bytes-in-%d-calls-complete=%v", d.HMsgLen, wantLen, d.Calls, d.Split.Complete)
	}
	t := fmt.Sprintf("%s %s %d %d %s", hlib.Tok(d.Digest), hlib.Tok(d.Digest[:s.mdLen()]), d.Split.IdxTree, d.Split.IdxLeaf, u32s(d.Split.Indices))
	if withR {
		return "ok " + hlib.Tok(d.R) + " " + t
	}
	return "ok " + t
}

func libDigestSign(s *pset, sk *islh.SecretKey, ctx, msg, addrnd []byte) string {
	if len(ctx) > 255 || len(addrnd) != s.n {
		return "err"
	}
	mp := fmtMsg(ctx, msg)
	d := sk.VerifMsgDigestSign(mp, addrnd)
	if d.PrfLen != len(mp) {
		return fmt.Sprintf("library-PRF_msg-got-%d-of-%d-bytes", d.PrfLen, len(mp))
	}
	return digestText(s, d, len(mp), true)
}

func libDigestVerify(s *pset, pk *islh.PublicKey, ctx, msg, r []byte) string {
	if len(ctx) > 255 || len(r) != s.n {
		return "err"
	}
	mp := fmtMsg(ctx, msg)
	sig := make([]byte, s.sigLen())
	copy(sig, r)
	d := pk.VerifMsgDigestVerify(mp, sig)
	if !bytes.Equal(d.R, r) {
		return "library-H_msg-got-another-R"
	}
	return digestText(s, d, len(mp), false)
}

// evalLarge re-evaluates the ...x op lines on the current tree (replays).
func evalLarge(t []string, set func(string) *pset) (string, bool) {
	switch t[1] {
	case "slhverifyx":
		pk, err := set(t[2]).p.DecodePublicKey(hlib.FromTok(t[3]))
		if err != nil {
			return "0", true
		}
		return b01(pk.Verify(parseMsgTok(t[5]), hlib.FromTok(t[6]), hlib.FromTok(t[4]))), true
	case "slhsignx":
		s := set(t[2])
		sk, err := s.p.DecodeSecretKey(hlib.FromTok(t[3]))
		ctx, addrnd := hlib.FromTok(t[4]), hlib.FromTok(t[6])
		if err != nil || len(addrnd) != s.n || len(ctx) > 255 {
			return "err", true
		}
		msg := parseMsgTok(t[5])
		if bytes.Equal(addrnd, sk.Encode()[2*s.n:3*s.n]) {
			sig, err := sk.SignDeterministic(msg, ctx)
			if err != nil {
				return "err", true
			}
			return "ok " + hlib.Tok(sig), true
		}
		return "ok " + hlib.Tok(sk.VerifSignInternal(fmtMsg(ctx, msg), addrnd)), true
	case "slhdigestx":
		s := set(t[2])
		sk, err := s.p.DecodeSecretKey(hlib.FromTok(t[3]))
		if err != nil {
			return "err", true
		}
		return libDigestSign(s, sk, hlib.FromTok(t[5]), parseMsgTok(t[6]), hlib.FromTok(t[4])), true
	case "slhhmsgx":
		s := set(t[2])
		pk, err := s.p.DecodePublicKey(hlib.FromTok(t[3]))
		if err != nil {
			return "err", true
		}
		return libDigestVerify(s, pk, hlib.FromTok(t[5]), parseMsgTok(t[6]), hlib.FromTok(t[4])), true
	}
	return "", false
}

// ---------- the size grid ----------

type sizeCtx struct {
	n, c  int  // message length, context length
	exact bool // a threshold of M or M' itself and its two neighbours: all f-sets in the quick tier
	big   bool // >= 1 MiB
}

func largeGrid() []sizeCtx {
	var g []sizeCtx
	seen := map[[2]int]bool{}
	add := func(n, c int, exact bool) {
		if n < 0 || seen[[2]int{n, c}] {
			return
		}
		seen[[2]int{n, c}] = true
		g = append(g, sizeCtx{n, c, exact, n >= 1<<20})
	}
	// empty context: message lengths around 2^16 (M' crosses at 65534) and 2^17 (M' crosses at 131070)
	for _, n := range []int{65533, 65534, 65535, 65536, 65537} {
		add(n, 0, true)
	}
	for _, n := range []int{65516, 65526, 65532, 65546, 65556, 100000, 131052, 131069, 131070, 131071, 131072, 131073, 131092} {
		add(n, 0, false)
	}
	// contexts of 1 and 255 bytes: len(M') = 2^16 - 1, 2^16, 2^16 + 1, 2^17 and len(M) = 2^16 - 1, 2^16, 2^17
	for _, c := range []int{1, 255} {
		for _, L := range []int{65535, 65536, 65537} {
			add(L-2-c, c, c == 255)
		}
		add(131072-2-c, c, false)
		add(131073-2-c, c, false)
		add(65535, c, false)
		add(65536, c, false)
		add(131072, c, false)
	}
	add(65536-2-17, 17, false)
	if hlib.Thorough() {
		for _, c := range []int{0, 1, 255} {
			for _, L := range []int{3<<16 - 1, 3 << 16, 3<<16 + 1, 1<<20 - 1, 1 << 20, 1<<20 + 1} {
				add(L-2-c, c, false)
				add(L, c, false)
			}
		}
		add(1<<20+1<<16, 0, false)
		add(200000, 100, false)
	}
	return g
}

// ---------- full signatures ----------

type bigSig struct {
	set    *pset
	key    *keyMat
	gc     sizeCtx
	ctx    []byte
	msg    bigMsg
	mode   string // det | hook-hedged | api-hedged
	addrnd []byte
	sig    []byte
	err    error
	byteEq bool
	muts   bool
	crafts []*bigCraft
}

type bigCraft struct {
	kind   string
	hmsg   islh.VerifHMsgFunc // wrong digest; nil: the signature of the cut M' itself
	cut    int                // hmsg == nil: length of the signed prefix of M'
	sig    []byte
	selfOK bool // the crafted signature is genuine under the wrong digest / for the cut message
}

func (j *bigSig) run() {
	msg := j.msg.bytes()
	switch j.mode {
	case "det":
		j.sig, j.err = j.key.sk.SignDeterministic(msg, j.ctx)
	case "hook-hedged":
		j.sig = j.key.sk.VerifSignInternal(fmtMsg(j.ctx, msg), j.addrnd)
	case "api-hedged":
		j.sig, j.err = j.key.sk.Sign(msg, j.ctx) // main goroutine only
	}
}

func (c *bigCraft) make(j *bigSig) {
	mp := fmtMsg(j.ctx, j.msg.bytes())
	pkSeed := j.key.pkB[:j.set.n]
	if c.hmsg != nil {
		c.sig = j.key.sk.VerifSignInternalHMsg(mp, pkSeed, c.hmsg)
		c.selfOK = j.key.pk.VerifVerifyInternalHMsg(mp, c.sig, c.hmsg) == nil
		return
	}
	c.sig = j.key.sk.VerifSignInternal(mp[:c.cut], pkSeed)
	c.selfOK = j.key.pk.VerifVerifyInternal(mp[:c.cut], c.sig) == nil
}

func largeMessages(o *hlib.Out, seed uint64, keys [][]*keyMat) {
	rng := hlib.NewRng(seed, "c16-large") // own stream: the lines of the earlier sections do not move
	grid := largeGrid()
	newMsg := func(n int) bigMsg { return bigMsg{seed: rng.Bytes(1 + rng.Intn(6)), n: n} }
	pickKey := func(si int) *keyMat { return keys[si][rng.Intn(len(keys[si]))] }
	ctxOf := func(c int) []byte { return rng.Bytes(c) }
	sizeCat := func(g sizeCtx) string { return fmt.Sprintf("large/size/%07d+ctx%d", g.n, g.c) }
	t0 := time.Now()
	lap := func(what string) {
		if os.Getenv("VERIF_TIMING") != "" {
			fmt.Fprintf(os.Stderr, "c16:   large/%-21s %6.2fs\n", what, time.Since(t0).Seconds())
		}
	}

	// ---------- 6a. the message-dependent part, all hash families at every size ----------
	for gi, g := range grid {
		o.Case()
		for fi, fam := range hashFams {
			all := append(append([]int{}, fam.f...), fam.s...)
			si := all[(gi+fi)%len(all)]
			s, k := sets[si], pickKey(si)
			ctx, m := ctxOf(g.c), newMsg(g.n)
			msg := m.bytes()
			addrnd := k.pkB[:s.n]
			if gi%2 == 1 {
				addrnd = rng.Bytes(s.n)
			}
			var res string
			if p := hlib.Recover(func() { res = libDigestSign(s, k.sk, ctx, msg, addrnd) }); p != "" {
				o.Violate("%s: signInternal panics on a %d-byte message (ctx %d bytes): %s", s.name, g.n, g.c, p)
				res = "panic"
			}
			o.Emit(fmt.Sprintf("!G slhdigestx %s %s %s %s %s", s.name, hlib.Tok(k.skB), hlib.Tok(addrnd), hlib.Tok(ctx), m.tok()), res, true)
			o.Count("large/digest/sign/" + fam.name)
			r := rng.Bytes(s.n)
			if p := hlib.Recover(func() { res = libDigestVerify(s, k.pk, ctx, msg, r) }); p != "" {
				o.Violate("%s: verifyInternal panics on a %d-byte message (ctx %d bytes): %s", s.name, g.n, g.c, p)
				res = "panic"
			}
			o.Emit(fmt.Sprintf("!G slhhmsgx %s %s %s %s %s", s.name, hlib.Tok(k.pkB), hlib.Tok(r), hlib.Tok(ctx), m.tok()), res, true)
			o.Count("large/digest/verify/" + fam.name)
			o.Count("large/digest-per-set/" + s.short())
			// the other sets of the family (same functions, other digest lengths m): the verification side is cheap
			// enough for all of them at every size, the signing side joins in the thorough tier
			for _, si2 := range all {
				if si2 == si || g.big {
					continue
				}
				s2, k2 := sets[si2], pickKey(si2)
				r2 := rng.Bytes(s2.n)
				if p := hlib.Recover(func() { res = libDigestVerify(s2, k2.pk, ctx, msg, r2) }); p != "" {
					o.Violate("%s: verifyInternal panics on a %d-byte message (ctx %d bytes): %s", s2.name, g.n, g.c, p)
					res = "panic"
				}
				o.Emit(fmt.Sprintf("!G slhhmsgx %s %s %s %s %s", s2.name, hlib.Tok(k2.pkB), hlib.Tok(r2), hlib.Tok(ctx), m.tok()), res, true)
				o.Count("large/digest/verify/" + fam.name)
				o.Count("large/digest-per-set/" + s2.short())
				if hlib.Thorough() {
					a2 := rng.Bytes(s2.n)
					if p := hlib.Recover(func() { res = libDigestSign(s2, k2.sk, ctx, msg, a2) }); p != "" {
						o.Violate("%s: signInternal panics on a %d-byte message (ctx %d bytes): %s", s2.name, g.n, g.c, p)
						res = "panic"
					}
					o.Emit(fmt.Sprintf("!G slhdigestx %s %s %s %s %s", s2.name, hlib.Tok(k2.skB), hlib.Tok(a2), hlib.Tok(ctx), m.tok()), res, true)
					o.Count("large/digest/sign/" + fam.name)
				}
			}
		}
		o.Count(sizeCat(g))
	}

	lap("digests")

	// ---------- 6b. full signatures ----------
	var jobs []*bigSig
	eqLeft := map[int]int{} // byte-for-byte comparisons with the reference's own signature, per set
	for gi, g := range grid {
		var sis []int
		for fi, fam := range hashFams {
			switch {
			case hlib.Thorough() && !g.big:
				sis = append(sis, fam.f...)
				sis = append(sis, fam.s...)
			case hlib.Thorough():
				sis = append(sis, fam.f...)
				sis = append(sis, fam.s[gi%len(fam.s)])
			case g.exact && g.c == 0:
				sis = append(sis, fam.f...)
			default:
				sis = append(sis, fam.f[(gi+fi)%len(fam.f)])
			}
		}
		for xi, si := range sis {
			s := sets[si]
			j := &bigSig{set: s, key: pickKey(si), gc: g, ctx: ctxOf(g.c), msg: newMsg(g.n)}
			switch (gi + gi/3 + xi) % 3 { // every set meets every mode
			case 0:
				j.mode, j.addrnd = "det", j.key.pkB[:s.n]
			case 1:
				j.mode, j.addrnd = "hook-hedged", rng.Bytes(s.n)
			default:
				j.mode = "api-hedged"
				if !s.fast { // the slow sets stay off the main goroutine
					j.mode, j.addrnd = "det", j.key.pkB[:s.n]
				}
			}
			// byte-identical signatures: at the thresholds of M' (and one size well above) per set
			mpLen := 2 + g.c + g.n
			atThreshold := mpLen == 65536 || mpLen == 65537 || mpLen == 131072 || g.n == 100000 || g.n == 1<<20
			budget := 0
			if s.fast {
				budget = hlib.N(2, 1000)
			} else if hlib.Thorough() {
				budget = 3
			}
			if j.mode != "api-hedged" && eqLeft[si] < budget && (atThreshold || hlib.Thorough() && s.fast) {
				j.byteEq = true
				eqLeft[si]++
			}
			jobs = append(jobs, j)
		}
	}
	// mutations and crafted signatures: per hash family the first deterministic job with len(M') just above 2^16
	// and one above 2^17 (quick: one f-set per family; thorough: every set)
	marked := map[string]bool{}
	for _, j := range jobs {
		mpLen := 2 + j.gc.c + j.gc.n
		if j.mode != "det" || j.gc.big || mpLen < 65536 {
			continue
		}
		key := fmt.Sprintf("%v/%v/%d", j.set.shake, j.set.n == 16, mpLen>>16)
		if hlib.Thorough() {
			key = fmt.Sprintf("%s/%d", j.set.name, mpLen>>16)
		}
		if marked[key] {
			continue
		}
		marked[key] = true
		j.muts = true
		if j.set.fast || mpLen>>16 == 1 {
			cutMod := func(n int) int { return n % 65536 }
			j.crafts = []*bigCraft{
				{kind: "H_msg-without-PK.root", hmsg: hmsgNoRoot(j.set)},
				{kind: "H_msg-of-first-65535-bytes", hmsg: hmsgCut(j.set, func(int) int { return 65535 })},
				{kind: "H_msg-of-first-len-mod-65536-bytes", hmsg: hmsgCut(j.set, cutMod)},
				{kind: "signature-of-first-65535-bytes", cut: 65535},
			}
			if mpLen > 65536 {
				j.crafts = append(j.crafts, &bigCraft{kind: "signature-of-first-65536-bytes", cut: 65536})
			}
			if cm := mpLen % 65536; cm >= 2+j.gc.c {
				j.crafts = append(j.crafts, &bigCraft{kind: "signature-of-first-len-mod-65536-bytes", cut: cm})
			}
		}
	}

	var wg sync.WaitGroup
	sem := make(chan struct{}, runtime.NumCPU())
	spawn := func(f func()) {
		wg.Add(1)
		sem <- struct{}{}
		go func() { defer wg.Done(); f(); <-sem }()
	}
	fed := make(chan struct{})
	go func() { // the randomness-free signatures fill the pool while the main goroutine makes the hedged ones
		defer close(fed)
		for _, slow := range []bool{true, false} {
			for _, j := range jobs {
				if j.set.fast == slow || j.mode == "api-hedged" {
					continue
				}
				spawn(j.run)
				for _, c := range j.crafts {
					spawn(func() { c.make(j) })
				}
			}
		}
	}()
	for _, j := range jobs {
		if j.mode == "api-hedged" {
			j.run() // one read of crypto/rand each, in a fixed order
		}
	}
	<-fed
	wg.Wait()
	lap("signatures made")

	for _, j := range jobs {
		s, k, g := j.set, j.key, j.gc
		o.Case()
		if j.err != nil {
			o.Violate("%s: %s refuses a %d-byte message (ctx %d bytes): %v", s.name, j.mode, g.n, g.c, j.err)
			continue
		}
		msg := j.msg.bytes()
		if len(j.sig) != s.sigLen() {
			o.Violate("%s: signature of a %d-byte message has %d bytes, FIPS 205 says %d", s.name, g.n, len(j.sig), s.sigLen())
		}
		verify := func(what string, m bigMsg, sig []byte, wantOK bool) {
			var e error
			if p := hlib.Recover(func() { e = k.pk.Verify(m.bytes(), sig, j.ctx) }); p != "" {
				o.Violate("%s: Verify panics on %s (%d-byte message, ctx %d bytes): %s", s.name, what, m.n, g.c, p)
				e = fmt.Errorf("panic")
			}
			if (e == nil) != wantOK {
				verb := map[bool]string{true: "REJECTS", false: "ACCEPTS"}[wantOK]
				o.Violate("%s: Verify %s %s (pk=%s ctx=%s msg=%s sig=%s...)", s.name, verb, what, hlib.Tok(k.pkB), hlib.Tok(j.ctx), m.tok(), hlib.Tok(sig[:min(len(sig), 32)]))
			}
			o.Emit(fmt.Sprintf("!G slhverifyx %s %s %s %s %s", s.name, hlib.Tok(k.pkB), hlib.Tok(j.ctx), m.tok(), hlib.Tok(sig)), b01(e), true)
		}
		verify(fmt.Sprintf("the output of %s", j.mode), j.msg, j.sig, true)
		o.Count("large/sig/" + s.short() + "/" + j.mode)
		o.Count(sizeCat(g))
		if e := k.pk.VerifVerifyInternal(fmtMsg(j.ctx, msg), j.sig); e != nil {
			o.Violate("%s: verifyInternal rejects the %s signature of a %d-byte message over 00|len(ctx)|ctx|msg", s.name, j.mode, g.n)
		}
		if j.byteEq {
			o.Emit(fmt.Sprintf("!G slhsignx %s %s %s %s %s", s.name, hlib.Tok(k.skB), hlib.Tok(j.ctx), j.msg.tok(), hlib.Tok(j.addrnd)), "ok "+hlib.Tok(j.sig), true)
			o.Count("large/sign-bytes-equal/" + s.short() + "/" + j.mode)
		}
		if j.muts {
			x := func() byte { return byte(1 + rng.Intn(255)) }
			pos := []int{0, g.n - 1, 65535, 65536, 65535 - 2 - g.c, 65536 - 2 - g.c, g.n - 65536, rng.Intn(g.n)}
			done := map[int]bool{}
			for _, p := range pos {
				if p < 0 || p >= g.n || done[p] {
					continue
				}
				done[p] = true
				verify(fmt.Sprintf("a message with byte %d flipped", p), j.msg.flipped(p, x()), j.sig, false)
				o.Count("large/mut/message-byte-flipped")
			}
			for _, n2 := range []int{g.n - 1, g.n + 1, g.n - 65536, g.n + 65536, 65535 - 2 - g.c, 65536 - 2 - g.c} {
				if n2 < 0 || n2 == g.n {
					continue
				}
				verify(fmt.Sprintf("the signature of the %d-byte message for its %d-byte prefix/extension", g.n, n2), j.msg.withLen(n2), j.sig, false)
				o.Count("large/mut/message-length-changed")
			}
			verify("a signature with its last byte flipped", j.msg, flipAt(rng, j.sig, len(j.sig)-1), false)
			verify("a signature with R flipped", j.msg, flipAt(rng, j.sig, rng.Intn(s.n)), false)
			o.Count("large/mut/signature-flipped")
		}
		for _, c := range j.crafts {
			if !c.selfOK {
				panic("harness: crafted signature (" + c.kind + ") is not genuine under its own digest")
			}
			if c.hmsg == nil {
				// genuine for the admissible pair (ctx, first bytes of the message) ...
				verify("a genuine signature ("+c.kind+" of M')", j.msg.withLen(c.cut-2-g.c), c.sig, true)
			}
			// ... and must not count for the whole message
			verify("a signature crafted with "+c.kind, j.msg, c.sig, false)
			o.Count("large/crafted/" + c.kind)
			o.Count("large/crafted-per-set/" + s.short())
		}
	}
}
