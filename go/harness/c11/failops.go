//go:build verif

// Round 4 additions to harness c11 (sections appended after the original histories, own rng streams):
//
//   (a) FAILING OPERATIONS OF EVERY KIND IN HISTORIES.  Add / AddNewKeyFromParameters with templates and
//       parameters objects that fail at each stage of Manager.Add (nil, UNKNOWN_PREFIX, serializer missing,
//       unknown type URL, garbage value, parses-but-cannot-generate, legacy registry makes key data that the
//       key parser refuses) under EVERY output prefix type, interleaved with fixed-id adds (keys with an id
//       requirement, WithFixedID) that aim at ids in use - with 0 and 0xffffffff made likely - and with the
//       ordinary operations.  Whether key generation succeeds for a template is decided OUTSIDE the manager
//       (parameters parser / key creator / legacy registry called directly); the Lean model (`M add m tmplOk
//       genOk ...`) decides the outcome of the manager call and the state afterwards.  After EVERY failing
//       operation: entries unchanged, no reservation released, nothing but the drawn id newly reserved, a
//       fresh Handle() observes the same, and a fixed-id add of every id in use / still reserved is refused
//       (the refusals are history ops the model decides too).
//
//   (b) KEYS WITHOUT A REGISTERED PARSER (custom type URLs, KMS AEAD / KMS envelope AEAD keys, private key
//       material of a custom type: protoserialization.FallbackProtoKey / FallbackProtoPrivateKey) with every
//       prefix and special ids, taken from a parsed keyset (insecurecleartextkeyset.Read /
//       keyset.NewHandleWithNoSecrets -> Entry(i).Key()) and moved into other managers with AddKey /
//       AddKeyWithOpts (with and without WithFixedID equal / different).  The id requirement handed to the
//       model is the one of the serialized keyset (prefix != RAW => key_id), not what the key object says;
//       the key object is checked against it.  Handles of the receiving managers are serialized, re-read and
//       compared entry by entry.
package main

import (
	"bytes"
	"encoding/hex"
	"fmt"
	"sort"
	"strings"

	"github.com/tink-crypto/tink-go/v2/aead"
	"github.com/tink-crypto/tink-go/v2/aead/aesgcm"
	"github.com/tink-crypto/tink-go/v2/core/registry"
	"github.com/tink-crypto/tink-go/v2/daead"
	"github.com/tink-crypto/tink-go/v2/insecurecleartextkeyset"
	"github.com/tink-crypto/tink-go/v2/internal/internalapi"
	"github.com/tink-crypto/tink-go/v2/internal/keygenregistry"
	"github.com/tink-crypto/tink-go/v2/internal/protoserialization"
	"github.com/tink-crypto/tink-go/v2/internal/verifharness/hlib"
	"github.com/tink-crypto/tink-go/v2/jwt/jwthmac"
	"github.com/tink-crypto/tink-go/v2/key"
	"github.com/tink-crypto/tink-go/v2/keyderivation"
	"github.com/tink-crypto/tink-go/v2/keyset"
	"github.com/tink-crypto/tink-go/v2/mac"
	"github.com/tink-crypto/tink-go/v2/prf"
	"github.com/tink-crypto/tink-go/v2/signature/mldsa"
	"github.com/tink-crypto/tink-go/v2/streamingaead"
	"google.golang.org/protobuf/encoding/protowire"
	"google.golang.org/protobuf/proto"

	kmsaeadpb "github.com/tink-crypto/tink-go/v2/proto/kms_aead_go_proto"
	kmsenvpb "github.com/tink-crypto/tink-go/v2/proto/kms_envelope_go_proto"
	prfderpb "github.com/tink-crypto/tink-go/v2/proto/prf_based_deriver_go_proto"
	tinkpb "github.com/tink-crypto/tink-go/v2/proto/tink_go_proto"
)

var _ = keyderivation.New // registers the PRF-based deriver key type

// ---------- full observable state of a manager, and the error => unchanged oracle ----------

type mstate struct {
	entries string
	un      []uint32 // sorted
	handle  string   // what a fresh Handle() shows ("" when not taken)
}

func (w *world) fullState(m int) mstate {
	es, un := keyset.VerifManagerDump(w.mgrs[m])
	return mstate{entries: w.showEntries(es), un: hlib.SortedU32(un)}
}

// fullStateH also observes a fresh handle (only used by the extra sections: observing allocates key tokens).
func (w *world) fullStateH(m int) mstate {
	s := w.fullState(m)
	if hd, err := w.mgrs[m].Handle(); err != nil {
		s.handle = "err"
	} else {
		s.handle = w.observe(hd)
	}
	return s
}

func hasOpt(ot []string, x string) bool {
	for _, o := range ot {
		if o == x {
			return true
		}
	}
	return false
}

func hasU32(xs []uint32, x uint32) bool {
	for _, y := range xs {
		if y == x {
			return true
		}
	}
	return false
}

// errKeeps: an operation that returned an error left the entries as they were, released no reserved
// id and reserved nothing except (for Add) an id it drew.  entriesExempt: the internal-API corner in
// which AsPrimary clears the primaries before the collision is noticed.
func (w *world) errKeeps(m int, op string, err error, before mstate, draws []uint32, entriesExempt bool) {
	if err == nil {
		return
	}
	w.o.Count("errkeeps/checked")
	after := w.fullState(m)
	if !entriesExempt && after.entries != before.entries {
		w.o.Violate("%s returned an error but changed the keyset: %s -> %s", op, before.entries, after.entries)
	}
	for _, id := range before.un {
		if !hasU32(after.un, id) {
			w.o.Violate("%s returned an error but released the reservation of key id %d (keyset %s): the id can be handed out again", op, id, before.entries)
		}
	}
	for _, id := range after.un {
		if !hasU32(before.un, id) && !hasU32(draws, id) {
			w.o.Violate("%s returned an error but reserved key id %d, which it did not draw (keyset %s)", op, id, before.entries)
		}
	}
}

func (w *world) errKeepsH(m int, op string, err error, before mstate, draws []uint32, entriesExempt bool) {
	w.errKeeps(m, op, err, before, draws, entriesExempt)
	if err == nil || entriesExempt || before.handle == "" {
		return
	}
	after := "err"
	if hd, e := w.mgrs[m].Handle(); e == nil {
		after = w.observe(hd)
	}
	if after != before.handle {
		w.o.Violate("%s returned an error but a fresh Handle() differs: %s", op, fieldDiff(before.handle, after))
	}
}

// finishOp is the tail of step() for the ops of the extra sections.
func (w *world) finishOp(m int) {
	w.curOp = w.o.LastOp
	w.noteIDs(m)
	w.dump(m)
	w.postOracle(m, w.curOp)
}

// ---------- templates: does key generation succeed? (decided outside the manager) ----------

type tclass struct {
	tmplOk, genOk bool
	stage         string
}

var allPrefixes = []tinkpb.OutputPrefixType{
	tinkpb.OutputPrefixType_TINK, tinkpb.OutputPrefixType_LEGACY, tinkpb.OutputPrefixType_CRUNCHY,
	tinkpb.OutputPrefixType_RAW, tinkpb.OutputPrefixType_WITH_ID_REQUIREMENT,
}

func prefixName(p tinkpb.OutputPrefixType) string {
	switch p {
	case tinkpb.OutputPrefixType_TINK:
		return "TINK"
	case tinkpb.OutputPrefixType_LEGACY:
		return "LEGACY"
	case tinkpb.OutputPrefixType_CRUNCHY:
		return "CRUNCHY"
	case tinkpb.OutputPrefixType_RAW:
		return "RAW"
	case tinkpb.OutputPrefixType_WITH_ID_REQUIREMENT:
		return "WITHIDREQ"
	case tinkpb.OutputPrefixType_UNKNOWN_PREFIX:
		return "UNKNOWN"
	}
	return fmt.Sprintf("P%d", int32(p))
}

// classify says at which stage of Manager.Add's key creation the template fails, by calling the
// parameters parser, the key creator and the legacy registry directly.  Key generation is opaque to
// the model: only tmplOk (the call gets as far as drawing an id) and genOk enter.
func (w *world) classify(kt *tinkpb.KeyTemplate) tclass {
	if kt == nil {
		return tclass{false, false, "nil"}
	}
	if kt.GetOutputPrefixType() == tinkpb.OutputPrefixType_UNKNOWN_PREFIX {
		return tclass{false, false, "unknown-prefix"}
	}
	ck := fmt.Sprintf("%d|%s|%x", kt.GetOutputPrefixType(), kt.GetTypeUrl(), kt.GetValue())
	if c, ok := w.tcache[ck]; ok {
		return c
	}
	idr := uint32(0x5eed0b1d)
	if kt.GetOutputPrefixType() == tinkpb.OutputPrefixType_RAW {
		idr = 0
	}
	c := tclass{tmplOk: true}
	p := hlib.Recover(func() {
		if params, err := protoserialization.ParseParameters(kt); err == nil {
			if _, err := keygenregistry.CreateKey(params, idr); err != nil {
				c.stage = "create-fails"
			} else {
				c.genOk, c.stage = true, "ok"
			}
			return
		}
		kd, err := registry.NewKeyData(kt)
		if err != nil {
			c.stage = "legacy-keydata-fails"
			return
		}
		ks, err := protoserialization.NewKeySerialization(kd, kt.GetOutputPrefixType(), idr)
		if err != nil {
			c.stage = "legacy-serialization-fails"
			return
		}
		if _, err := protoserialization.ParseKey(ks); err != nil {
			c.stage = "legacy-parsekey-fails"
			return
		}
		c.genOk, c.stage = true, "ok-legacy"
	})
	if p != "" {
		c.genOk, c.stage = false, "panic"
	}
	w.tcache[ck] = c
	return c
}

func withPrefix(kt *tinkpb.KeyTemplate, p tinkpb.OutputPrefixType) *tinkpb.KeyTemplate {
	c := proto.Clone(kt).(*tinkpb.KeyTemplate)
	c.OutputPrefixType = p
	return c
}

func mustMarshal(m proto.Message) []byte {
	b, err := proto.Marshal(m)
	if err != nil {
		panic(err)
	}
	return b
}

func deriverTemplate(prfT, derived *tinkpb.KeyTemplate, p tinkpb.OutputPrefixType) *tinkpb.KeyTemplate {
	return &tinkpb.KeyTemplate{
		TypeUrl:          "type.googleapis.com/google.crypto.tink.PrfBasedDeriverKey",
		OutputPrefixType: p,
		Value: mustMarshal(&prfderpb.PrfBasedDeriverKeyFormat{PrfKeyTemplate: prfT,
			Params: &prfderpb.PrfBasedDeriverParams{DerivedKeyTemplate: derived}}),
	}
}

func mldsaTemplate() *tinkpb.KeyTemplate {
	ps, err := mldsa.NewParameters(mldsa.MLDSA65, mldsa.VariantTink)
	if err != nil {
		panic(err)
	}
	kt, err := protoserialization.SerializeParameters(ps)
	if err != nil {
		panic(err)
	}
	return kt
}

// baseTemplates: key types whose generation is cheap and reads the random tape deterministically.
func baseTemplates() []*tinkpb.KeyTemplate {
	return []*tinkpb.KeyTemplate{
		aead.AES128GCMKeyTemplate(), aead.AES128GCMSIVKeyTemplate(), aead.AES128CTRHMACSHA256KeyTemplate(),
		aead.ChaCha20Poly1305KeyTemplate(), aead.XChaCha20Poly1305KeyTemplate(), aead.XAES256GCM192BitNonceKeyTemplate(),
		daead.AESSIVKeyTemplate(), mac.HMACSHA256Tag128KeyTemplate(), mac.AESCMACTag128KeyTemplate(),
		prf.HKDFSHA256PRFKeyTemplate(), prf.HMACSHA256PRFKeyTemplate(), prf.AESCMACPRFKeyTemplate(),
		streamingaead.AES128GCMHKDF4KBKeyTemplate(), streamingaead.AES128CTRHMACSHA256Segment4KBKeyTemplate(),
		mldsaTemplate(),
		{TypeUrl: "type.googleapis.com/google.crypto.tink.KmsAeadKey", Value: mustMarshal(&kmsaeadpb.KmsAeadKeyFormat{KeyUri: "fake-kms://c11"})},
		{TypeUrl: "type.googleapis.com/google.crypto.tink.KmsEnvelopeAeadKey", Value: mustMarshal(&kmsenvpb.KmsEnvelopeAeadKeyFormat{KekUri: "fake-kms://c11", DekTemplate: aead.AES128GCMKeyTemplate()})},
		{TypeUrl: "type.googleapis.com/verif.c11.NoSuchKey", Value: []byte{1, 2}},
	}
}

var mutVals = []uint64{0, 1, 2, 3, 4, 5, 8, 10, 12, 15, 16, 17, 20, 24, 31, 32, 33, 48, 64, 65, 128, 1 << 20}

// varintMutations replaces (or drops) every varint field of a serialized key format, recursively.
func varintMutations(b []byte, depth int) [][]byte {
	var out [][]byte
	pos := 0
	for pos < len(b) {
		num, typ, n := protowire.ConsumeTag(b[pos:])
		if n < 0 {
			return out
		}
		start := pos
		pos += n
		switch typ {
		case protowire.VarintType:
			_, m := protowire.ConsumeVarint(b[pos:])
			if m < 0 {
				return out
			}
			for _, v := range mutVals {
				nb := append([]byte{}, b[:start]...)
				nb = protowire.AppendVarint(protowire.AppendTag(nb, num, typ), v)
				out = append(out, append(nb, b[pos+m:]...))
			}
			out = append(out, append(append([]byte{}, b[:start]...), b[pos+m:]...))
			pos += m
		case protowire.BytesType:
			v, m := protowire.ConsumeBytes(b[pos:])
			if m < 0 {
				return out
			}
			if depth < 3 {
				for _, sub := range varintMutations(v, depth+1) {
					nb := append([]byte{}, b[:start]...)
					nb = protowire.AppendBytes(protowire.AppendTag(nb, num, typ), sub)
					out = append(out, append(nb, b[pos+m:]...))
				}
			}
			pos += m
		default:
			m := protowire.ConsumeFieldValue(num, typ, b[pos:])
			if m < 0 {
				return out
			}
			pos += m
		}
	}
	return out
}

// buildPool: the named failing / succeeding templates found by enumerating the registered key types
// with out-of-range sizes, plus every single-varint mutation of the base formats, plus truncations.
func (w *world) buildPool() {
	add := func(url string, val []byte) {
		w.pool = append(w.pool, &tinkpb.KeyTemplate{TypeUrl: url, Value: val})
	}
	gcm := aead.AES128GCMKeyTemplate().TypeUrl
	// parse-ok / generate-fail (sizes the parameters accept and the creator refuses)
	add(gcm, []byte{0x10, 0x18})                                  // AES-GCM, 24-byte key
	add(aead.AES128CTRHMACSHA256KeyTemplate().TypeUrl, unhex("0a060a020810101812080a04080310101020")) // AES-CTR-HMAC, 24-byte AES key
	add(daead.AESSIVKeyTemplate().TypeUrl, []byte{0x08, 0x20})    // AES-SIV 32
	add(daead.AESSIVKeyTemplate().TypeUrl, []byte{0x08, 0x30})    // AES-SIV 48
	add(mac.AESCMACTag128KeyTemplate().TypeUrl, unhex("081012020810")) // AES-CMAC 16
	add(prf.AESCMACPRFKeyTemplate().TypeUrl, []byte{0x08, 0x10})  // AES-CMAC-PRF 16
	add(prf.HKDFSHA256PRFKeyTemplate().TypeUrl, unhex("0a0208031010")) // HKDF-PRF 16-byte key
	add(prf.HKDFSHA256PRFKeyTemplate().TypeUrl, unhex("0a0208011020")) // HKDF-PRF SHA1
	add(streamingaead.AES128GCMHKDF4KBKeyTemplate().TypeUrl, unhex("0a07088020101018031011"))
	add(streamingaead.AES128CTRHMACSHA256Segment4KBKeyTemplate().TypeUrl, unhex("0a0d088020101018012204080310201010"))
	// the legacy registry makes key data, the key parser refuses it for every prefix but RAW
	add(prf.HMACSHA256PRFKeyTemplate().TypeUrl, prf.HMACSHA256PRFKeyTemplate().Value)
	add(prf.HKDFSHA256PRFKeyTemplate().TypeUrl, prf.HKDFSHA256PRFKeyTemplate().Value)
	add(prf.AESCMACPRFKeyTemplate().TypeUrl, prf.AESCMACPRFKeyTemplate().Value)
	// parse-fail (garbage, truncated, out-of-range) and unknown type URLs
	add(gcm, []byte{0x10, 0x05})
	add(gcm, []byte{0xff})
	add(gcm, []byte{0x10})
	add(gcm, nil)
	add("type.googleapis.com/verif.c11.NoSuchKey", []byte{1, 2})
	add("", nil)
	for _, b := range baseTemplates() {
		w.pool = append(w.pool, &tinkpb.KeyTemplate{TypeUrl: b.TypeUrl, Value: b.Value})
		for _, v := range varintMutations(b.Value, 0) {
			add(b.TypeUrl, v)
		}
		for cut := 1; cut < len(b.Value) && cut < 4; cut++ {
			add(b.TypeUrl, b.Value[:len(b.Value)-cut])
		}
	}
}

func unhex(s string) []byte {
	b, err := hex.DecodeString(s)
	if err != nil {
		panic(err)
	}
	return b
}

const nNamed = 19 // the hand-named head of the pool

// pickXTemplate: a template for Add in the extra sections (any prefix; RAW and the failing ones likely).
func (w *world) pickXTemplate() (*tinkpb.KeyTemplate, string) {
	p := allPrefixes[w.rng.Intn(len(allPrefixes))]
	switch r := w.rng.Intn(100); {
	case r < 3:
		return nil, "nil"
	case r < 7:
		p = tinkpb.OutputPrefixType_UNKNOWN_PREFIX
	case r < 10:
		p = tinkpb.OutputPrefixType(w.rng.Pick(6, 7, 99, -1)) // enum numbers without a name
	case r < 40:
		p = tinkpb.OutputPrefixType_RAW
	}
	switch r := w.rng.Intn(100); {
	case r < 30:
		// PRF-based deriver: parses, but only HKDF PRF keys can be generated / only some keys derived
		prfT := []*tinkpb.KeyTemplate{prf.HMACSHA256PRFKeyTemplate(), prf.AESCMACPRFKeyTemplate(), prf.HKDFSHA256PRFKeyTemplate()}[w.rng.Intn(3)]
		var derived *tinkpb.KeyTemplate
		name := "deriver"
		switch w.rng.Intn(6) {
		case 0:
			derived, name = withPrefix(mldsaTemplate(), p), "deriver-mldsa"
		case 1:
			derived, name = withPrefix(mac.HMACSHA256Tag128KeyTemplate(), p), "deriver-hmac"
		case 2:
			derived, name = aead.AES128GCMKeyTemplate(), "deriver-prefix-mismatch"
		default:
			derived = withPrefix(aead.AES256GCMNoPrefixKeyTemplate(), p)
		}
		return deriverTemplate(prfT, derived, p), name
	case r < 65:
		t := w.pool[w.rng.Intn(nNamed)]
		return &tinkpb.KeyTemplate{TypeUrl: t.TypeUrl, Value: t.Value, OutputPrefixType: p}, "named"
	default:
		t := w.pool[w.rng.Intn(len(w.pool))]
		return &tinkpb.KeyTemplate{TypeUrl: t.TypeUrl, Value: t.Value, OutputPrefixType: p}, "mutated"
	}
}

// forceSpecial queues draws that collide with ids in use and then (sometimes) land on 0 / 0xffffffff.
func (w *world) forceSpecial(m int) {
	if !w.rng.Chance(45) {
		return
	}
	_, un := keyset.VerifManagerDump(w.mgrs[m])
	un = hlib.SortedU32(un)
	var ws []uint32
	for i, n := 0, w.rng.Intn(3); i < n && len(un) > 0; i++ {
		ws = append(ws, un[w.rng.Intn(len(un))])
	}
	if w.rng.Chance(60) {
		ws = append(ws, uint32(w.rng.Pick(0, 0, 0xFFFFFFFF, 0xFFFFFFFF, 1, 0x7FFFFFFF)))
	}
	w.tape.ForceU32(ws...)
	if len(ws) > 0 {
		w.o.Count("forced_draw_sequences")
	}
}

// xAdd: Add / AddNewKeyFromParameters with a template of any class.
func (w *world) xAdd(m int) {
	kt, name := w.pickXTemplate()
	var ps key.Parameters
	viaParams := false
	if w.rng.Chance(35) {
		// the same through a parameters object (when there is one), or a parameters object that
		// has no serializer / no template
		viaParams = true
		switch r := w.rng.Intn(10); {
		case r == 0:
			ps, kt, name = nil, nil, "params-nil"
		case r == 1 && len(w.srcs) > 0:
			// parameters of a parser-less key: no serializer
			s := w.srcs[w.rng.Intn(len(w.srcs))]
			ps, kt, name = s.keys[w.rng.Intn(len(s.keys))].Parameters(), nil, "params-fallback"
			if _, err := protoserialization.SerializeParameters(ps); err == nil {
				viaParams = false // (a typed key's parameters: use the template path)
				kt, name = w.pickXTemplate()
			}
		case r == 2:
			// custom-kid JWT parameters: no key can be generated for them through a template
			jp, err := jwthmac.NewParameters(32, jwthmac.CustomKID, jwthmac.HS256)
			if err != nil {
				panic(err)
			}
			ps, name = jp, "params-jwt-customkid"
			kt, _ = protoserialization.SerializeParameters(ps)
		default:
			var err error
			if kt != nil {
				ps, err = protoserialization.ParseParameters(kt)
			}
			if kt == nil || err != nil {
				viaParams = false
			} else {
				// what AddNewKeyFromParameters will hand to Add
				kt, err = protoserialization.SerializeParameters(ps)
				if err != nil {
					kt = nil
				}
			}
		}
	}
	w.forceSpecial(m)
	w.doAdd(m, kt, ps, viaParams, name)
}

// doAdd runs Add(kt) / AddNewKeyFromParameters(ps) (kt = the template Add is handed in the end), emits the
// model line and applies the oracles.
func (w *world) doAdd(m int, kt *tinkpb.KeyTemplate, ps key.Parameters, viaParams bool, name string) {
	km := w.mgrs[m]
	what := "Add"
	if viaParams {
		what = "AddNewKeyFromParameters"
	}
	forced := w.tape.Forced
	w.tape.Forced = nil
	c := w.classify(kt) // (generates a key on the side: not from the forced draws)
	w.tape.Forced = forced
	before := w.fullStateH(m)
	w.tape.Reset()
	var id uint32
	var err error
	if viaParams {
		id, err = km.AddNewKeyFromParameters(ps)
	} else {
		id, err = km.Add(kt)
	}
	draws := w.tape.DrawnU32()
	w.tape.Forced = nil
	ktok := 0
	if err == nil {
		es, _ := keyset.VerifManagerDump(km)
		ktok = w.tok(es[len(es)-1].Key)
	} else {
		w.nextK++
		ktok = w.nextK
	}
	pn := "nil"
	if kt != nil {
		pn = prefixName(kt.GetOutputPrefixType())
	}
	w.o.Count("xadd/" + c.stage + "/" + pn)
	w.o.Count("xadd-kind/" + name)
	if err != nil && hasU32(before.un, 0) {
		w.o.Count("xadd/failing_with_id0_reserved")
	}
	w.errKeepsH(m, fmt.Sprintf("%s(%s template, prefix %s, fails at: %s)", what, name, pn, c.stage), err, before, draws, false)
	if err == nil {
		// keys with an id requirement keep that id: a new key that has a requirement, or a non-empty output
		// prefix, names the id it is listed under (key types that ignore the prefix type - streaming AEAD -
		// have neither)
		es, _ := keyset.VerifManagerDump(km)
		nk := es[len(es)-1].Key
		req, ok := nk.IDRequirement()
		var pfx []byte
		if op, has := nk.(interface{ OutputPrefix() []byte }); has {
			pfx = op.OutputPrefix()
		}
		if (ok && req != id) || (len(pfx) > 0 && (!ok || len(pfx) != 5 || pfx[1] != byte(id>>24) || pfx[2] != byte(id>>16) || pfx[3] != byte(id>>8) || pfx[4] != byte(id))) {
			w.o.Violate("%s(%s template %s value %x, prefix %s) returned id %d but the new key (%T) says IDRequirement() = (%d,%v), output prefix %x", what, name, kt.GetTypeUrl(), kt.GetValue(), pn, id, nk, req, ok, pfx)
		}
	}
	w.o.Emit(fmt.Sprintf("M add %d %s %s %d %s", m, hlib.B01(c.tmplOk), hlib.B01(c.genOk), ktok, hlib.U32List(draws)), res(id, err), true)
	w.finishOp(m)
	if err != nil {
		w.probeRefusals(m)
	}
}

// targetID: an id for a fixed-id add - in use, reserved but not in use, or special.
func (w *world) targetID(m int) uint32 {
	es, un := keyset.VerifManagerDump(w.mgrs[m])
	un = hlib.SortedU32(un)
	switch r := w.rng.Intn(100); {
	case r < 45 && len(es) > 0:
		return es[w.rng.Intn(len(es))].ID
	case r < 60 && len(un) > 0:
		return un[w.rng.Intn(len(un))]
	case r < 85:
		return uint32(w.rng.Pick(0, 0, 0xFFFFFFFF, 0xFFFFFFFF, 1, 0xFFFFFFFE))
	}
	return w.pickID()
}

// xFixed: AddKey of a key with an id requirement / AddKeyWithOpts WithFixedID aimed at ids in use.
func (w *world) xFixed(m int) {
	id := w.targetID(m)
	w.forceSpecial(m)
	var k key.Key
	idReq := "-"
	var opts []keyset.KeyOpts
	var ot []string
	public := false
	switch r := w.rng.Intn(10); {
	case r < 4: // public AddKey of a TINK / CRUNCHY key requiring the id
		v := aesgcm.VariantTink
		if w.rng.Chance(30) {
			v = aesgcm.VariantCrunchy
		}
		k, idReq, public = w.newAESKey(id, v), fmt.Sprint(id), true
	case r < 7: // a key without requirement, fixed id
		k = w.newAESKey(0, aesgcm.VariantNoPrefix)
		opts, ot = append(opts, keyset.WithFixedID(id)), append(ot, fmt.Sprintf("f%d", id))
	case r < 9: // requirement and equal fixed id
		k, idReq = w.newAESKey(id, aesgcm.VariantTink), fmt.Sprint(id)
		opts, ot = append(opts, keyset.WithFixedID(id)), append(ot, fmt.Sprintf("f%d", id))
	default: // requirement and a different fixed id (refused whatever the ids are)
		other := w.targetID(m)
		if other == id {
			other = id ^ 1
		}
		k, idReq = w.newAESKey(id, aesgcm.VariantTink), fmt.Sprint(id)
		opts, ot = append(opts, keyset.WithFixedID(other)), append(ot, fmt.Sprintf("f%d", other))
	}
	if !public && w.rng.Chance(30) {
		st := []keyset.KeyStatus{keyset.Unknown, keyset.Enabled, keyset.Disabled, keyset.Destroyed}[w.rng.Intn(4)]
		opts, ot = append(opts, keyset.WithStatus(st)), append(ot, "s"+statusCode(st))
	}
	if !public && w.rng.Chance(15) {
		opts, ot = append(opts, keyset.AsPrimary()), append(ot, "p")
	}
	w.addKeyOp(m, k, idReq, public, opts, ot, "fixed")
}

// addKeyOp runs AddKey / AddKeyWithOpts, emits the model line and applies the oracles.
func (w *world) addKeyOp(m int, k key.Key, idReq string, public bool, opts []keyset.KeyOpts, ot []string, kind string) (uint32, error) {
	km := w.mgrs[m]
	before := w.fullStateH(m)
	w.tape.Reset()
	var id uint32
	var err error
	if public {
		id, err = km.AddKey(k)
	} else {
		id, err = km.AddKeyWithOpts(k, internalapi.Token{}, opts...)
		w.usedInternalAPI[m] = true
		if err == nil && hasOpt(ot, "p") {
			w.everPrimary[m] = true
		}
	}
	draws := w.tape.DrawnU32()
	w.tape.Forced = nil
	name := "AddKey"
	if !public {
		name = "AddKeyWithOpts(" + strings.Join(ot, ",") + ")"
	}
	w.errKeepsH(m, fmt.Sprintf("%s of a %T with id requirement %s", name, k, idReq), err, before, nil, hasOpt(ot, "p"))
	if idReq != "-" && err == nil && fmt.Sprint(id) != idReq {
		w.o.Violate("%s returned id %d for a %T that requires id %s", name, id, k, idReq)
	}
	if err == nil {
		w.o.Count("x" + kind + "/ok")
	} else {
		w.o.Count("x" + kind + "/err")
	}
	if public {
		w.o.Emit(fmt.Sprintf("M addkey %d 0 %d %s %s", m, w.tok(k), idReq, hlib.U32List(draws)), res(id, err), true)
	} else {
		os := "-"
		if len(ot) > 0 {
			os = strings.Join(ot, ",")
		}
		w.o.Emit(fmt.Sprintf("M addopts %d 0 %d %s %s %s", m, w.tok(k), idReq, os, hlib.U32List(draws)), res(id, err), true)
	}
	w.finishOp(m)
	if err != nil {
		w.probeRefusals(m)
	}
	return id, err
}

// probeRefusals: after a failing operation every id in use, and every id that is still reserved, is
// still refused as a fixed id.  The attempts are ordinary history ops (the model decides them too); a
// refused attempt changes nothing.
func (w *world) probeRefusals(m int) {
	km := w.mgrs[m]
	failed := w.curOp
	es, un := keyset.VerifManagerDump(km)
	un = hlib.SortedU32(un)
	var ids []uint32
	inUse := map[uint32]bool{}
	for _, e := range es {
		if !inUse[e.ID] {
			ids = append(ids, e.ID)
		}
		inUse[e.ID] = true
	}
	// reserved but not in use (deleted keys, ids burned by failed Adds): the special ones always, a few others
	var rest []uint32
	for _, id := range un {
		if inUse[id] {
			continue
		}
		if id == 0 || id == 0xFFFFFFFF {
			ids = append(ids, id)
		} else {
			rest = append(rest, id)
		}
	}
	for i := 0; i < 3 && len(rest) > 0; i++ {
		j := w.rng.Intn(len(rest))
		ids = append(ids, rest[j])
		rest = append(rest[:j], rest[j+1:]...)
	}
	if len(ids) > 12 {
		ids = ids[:12]
	}
	for _, id := range ids {
		var err error
		var got uint32
		how := ""
		if w.rng.Chance(50) {
			k := w.newAESKey(id, aesgcm.VariantTink)
			how = "AddKey(TINK key requiring the id)"
			w.tape.Reset()
			got, err = km.AddKey(k)
			w.o.Emit(fmt.Sprintf("M addkey %d 0 %d %d %s", m, w.tok(k), id, hlib.U32List(w.tape.DrawnU32())), res(got, err), true)
		} else {
			k := w.newAESKey(0, aesgcm.VariantNoPrefix)
			how = "AddKeyWithOpts(RAW key, WithFixedID)"
			w.tape.Reset()
			got, err = km.AddKeyWithOpts(k, internalapi.Token{}, keyset.WithFixedID(id))
			w.usedInternalAPI[m] = true
			w.o.Emit(fmt.Sprintf("M addopts %d 0 %d - f%d %s", m, w.tok(k), id, hlib.U32List(w.tape.DrawnU32())), res(got, err), true)
		}
		w.o.Count("probe/refusals")
		if err == nil {
			state := "still reserved"
			if inUse[id] {
				state = "in use"
			}
			w.o.Violate("after the failing operation %q, %s with id %d was accepted although the id is %s", failed, how, id, state)
		}
	}
	w.noteIDs(m)
	w.dump(m)
	w.postOracle(m, failed)
}

// ---------- (b) parser-less keys from parsed keysets ----------

type srcKey struct {
	id     uint32
	prefix tinkpb.OutputPrefixType
	kind   string
}

type srcHandle struct {
	hd       *keyset.Handle
	slot     int
	via      string
	truth    []srcKey
	keys     []key.Key
	entryIDs []uint32
	checked  []bool
}

// checkSrcKey: what key i of a parsed keyset says about its id (once per key; after the key was moved, so
// that a replay shows the move as well, or at the end of the history).
func (w *world) checkSrcKey(src *srcHandle, i int) {
	if src.checked[i] {
		return
	}
	src.checked[i] = true
	w.checkKeyID(src.keys[i], src.truth[i], src.entryIDs[i], src.via)
}

var fbKinds = []string{"kmsaead", "kmsenvelope", "custom-symmetric", "custom-private", "custom-public", "custom-remote", "custom-unknownmaterial", "aesgcm"}

func (w *world) fbKeyData(kind string) *tinkpb.KeyData {
	custom := func(mt tinkpb.KeyData_KeyMaterialType) *tinkpb.KeyData {
		url := "type.googleapis.com/verif.c11.Custom" + string(rune('A'+w.rng.Intn(2)))
		return &tinkpb.KeyData{TypeUrl: url, Value: w.rng.Bytes(1 + w.rng.Intn(20)), KeyMaterialType: mt}
	}
	switch kind {
	case "kmsaead":
		return &tinkpb.KeyData{TypeUrl: "type.googleapis.com/google.crypto.tink.KmsAeadKey", KeyMaterialType: tinkpb.KeyData_REMOTE,
			Value: mustMarshal(&kmsaeadpb.KmsAeadKey{Params: &kmsaeadpb.KmsAeadKeyFormat{KeyUri: fmt.Sprintf("fake-kms://c11/%d", w.rng.Intn(1000))}})}
	case "kmsenvelope":
		return &tinkpb.KeyData{TypeUrl: "type.googleapis.com/google.crypto.tink.KmsEnvelopeAeadKey", KeyMaterialType: tinkpb.KeyData_REMOTE,
			Value: mustMarshal(&kmsenvpb.KmsEnvelopeAeadKey{Params: &kmsenvpb.KmsEnvelopeAeadKeyFormat{KekUri: fmt.Sprintf("fake-kms://c11/%d", w.rng.Intn(1000)), DekTemplate: aead.AES128GCMKeyTemplate()}})}
	case "custom-symmetric":
		return custom(tinkpb.KeyData_SYMMETRIC)
	case "custom-private":
		return custom(tinkpb.KeyData_ASYMMETRIC_PRIVATE)
	case "custom-public":
		return custom(tinkpb.KeyData_ASYMMETRIC_PUBLIC)
	case "custom-remote":
		return custom(tinkpb.KeyData_REMOTE)
	case "custom-unknownmaterial":
		return custom(tinkpb.KeyData_UNKNOWN_KEYMATERIAL)
	}
	kh, err := keyset.NewHandle(aead.AES128GCMKeyTemplate())
	if err != nil {
		panic(err)
	}
	return insecurecleartextkeyset.KeysetMaterial(kh).Key[0].KeyData
}

// specialOrLive: ids for source keysets - special values, ids living in some manager, random.
func (w *world) specialOrLive() uint32 {
	switch r := w.rng.Intn(100); {
	case r < 45:
		return uint32(w.rng.Pick(0, 0, 0, 0xFFFFFFFF, 0xFFFFFFFF, 1, 0x7FFFFFFF, 0x80000000))
	case r < 75 && len(w.ids) > 0:
		return w.ids[w.rng.Intn(len(w.ids))]
	}
	return uint32(w.rng.U64())
}

// newSource builds a keyset proto by hand (mostly keys without a registered parser), reads it and
// checks what the parsed keys say about their id requirement.
func (w *world) newSource() *srcHandle {
	n := 1 + w.rng.Intn(4)
	ks := &tinkpb.Keyset{}
	prim := w.rng.Intn(n)
	used := map[uint32]bool{}
	src := &srcHandle{slot: 8 + w.rng.Intn(3)}
	secrets := false
	for i := 0; i < n; i++ {
		kind := fbKinds[w.rng.Intn(len(fbKinds))]
		kd := w.fbKeyData(kind)
		if mt := kd.KeyMaterialType; mt != tinkpb.KeyData_REMOTE && mt != tinkpb.KeyData_ASYMMETRIC_PUBLIC {
			secrets = true
		}
		id := w.specialOrLive()
		for used[id] {
			id++
		}
		used[id] = true
		k := &tinkpb.Keyset_Key{KeyData: kd, KeyId: id}
		k.Status = []tinkpb.KeyStatusType{tinkpb.KeyStatusType_ENABLED, tinkpb.KeyStatusType_DISABLED, tinkpb.KeyStatusType_DESTROYED}[w.rng.Intn(3)]
		k.OutputPrefixType = []tinkpb.OutputPrefixType{tinkpb.OutputPrefixType_TINK, tinkpb.OutputPrefixType_TINK, tinkpb.OutputPrefixType_RAW, tinkpb.OutputPrefixType_CRUNCHY, tinkpb.OutputPrefixType_LEGACY}[w.rng.Intn(5)]
		if i == prim {
			k.Status = tinkpb.KeyStatusType_ENABLED
			ks.PrimaryKeyId = id
		}
		ks.Key = append(ks.Key, k)
		src.truth = append(src.truth, srcKey{id: id, prefix: k.OutputPrefixType, kind: kind})
	}
	var hd *keyset.Handle
	var err error
	via := "insecurecleartextkeyset.Read"
	if !secrets && w.rng.Chance(60) {
		via = "keyset.NewHandleWithNoSecrets"
		hd, err = keyset.NewHandleWithNoSecrets(ks)
	} else {
		hd, err = insecurecleartextkeyset.Read(&keyset.MemReaderWriter{Keyset: ks})
	}
	if err != nil {
		panic(fmt.Sprintf("c11: cannot read the hand-made source keyset: %v", err))
	}
	src.hd = hd
	w.hands[src.slot] = hd
	es := keyset.VerifHandleDump(hd)
	w.o.Count("source_handle/" + via)
	w.o.Emit(fmt.Sprintf("M defhandle %d %s", src.slot, w.showEntries(es)), "ok", true)
	w.record(hd, fmt.Sprintf("source handle %q", w.o.LastOp), true)
	for i, t := range src.truth {
		e, err := hd.Entry(i)
		if err != nil {
			panic(err)
		}
		k := e.Key()
		src.keys = append(src.keys, k)
		w.o.Count(fmt.Sprintf("source_key/%s/%s/%s", t.kind, prefixName(t.prefix), strings.TrimPrefix(fmt.Sprintf("%T", k), "*")))
		src.entryIDs = append(src.entryIDs, e.KeyID())
	}
	src.via = via
	src.checked = make([]bool, len(src.keys))
	w.srcs = append(w.srcs, src)
	return src
}

// checkKeyID: a key parsed from a keyset entry (prefix, key_id) reports (key_id, true) for every
// prefix but RAW and (0, false) for RAW, and its output prefix spells the same id.
func (w *world) checkKeyID(k key.Key, t srcKey, entryID uint32, via string) {
	if entryID != t.id {
		w.o.Violate("%s: entry of a %s key lists id %d, the serialized keyset says %d", via, t.kind, entryID, t.id)
	}
	wantID, wantReq := t.id, true
	if t.prefix == tinkpb.OutputPrefixType_RAW {
		wantID, wantReq = 0, false
	}
	w.o.Count("idreq/checked")
	if id, req := k.IDRequirement(); id != wantID || req != wantReq {
		w.o.Violate("%s: a %s key (%T) serialized with prefix %s and key id %d says IDRequirement() = (%d,%v), want (%d,%v)", via, t.kind, k, prefixName(t.prefix), t.id, id, req, wantID, wantReq)
	}
	if op, ok := k.(interface{ OutputPrefix() []byte }); ok {
		want := []byte{}
		b := []byte{byte(t.id >> 24), byte(t.id >> 16), byte(t.id >> 8), byte(t.id)}
		switch t.prefix {
		case tinkpb.OutputPrefixType_TINK:
			want = append([]byte{1}, b...)
		case tinkpb.OutputPrefixType_LEGACY, tinkpb.OutputPrefixType_CRUNCHY:
			want = append([]byte{0}, b...)
		}
		if got := op.OutputPrefix(); !bytes.Equal(got, want) {
			w.o.Violate("%s: a %s key (%T) with prefix %s and key id %d has output prefix %x, want %x", via, t.kind, k, prefixName(t.prefix), t.id, got, want)
		}
	}
	if has := k.Parameters().HasIDRequirement(); has != wantReq {
		w.o.Violate("%s: parameters of a %s key (%T) with prefix %s say HasIDRequirement() = %v", via, t.kind, k, prefixName(t.prefix), has)
	}
}

// xMove moves one key of a parsed keyset into manager m.
func (w *world) xMove(m int) {
	var src *srcHandle
	if len(w.srcs) == 0 || w.rng.Chance(35) {
		src = w.newSource()
	} else {
		src = w.srcs[w.rng.Intn(len(w.srcs))]
	}
	i := w.rng.Intn(len(src.keys))
	k, t := src.keys[i], src.truth[i]
	// the id requirement the model is given comes from the serialized keyset, not from the key object
	idReq := "-"
	if t.prefix != tinkpb.OutputPrefixType_RAW {
		idReq = fmt.Sprint(t.id)
	}
	w.forceSpecial(m)
	var opts []keyset.KeyOpts
	var ot []string
	public := false
	switch r := w.rng.Intn(10); {
	case r < 4:
		public = true
	case r < 5:
	case r < 8: // WithFixedID equal to the key's id (for RAW keys: the id it had in the source keyset)
		opts, ot = append(opts, keyset.WithFixedID(t.id)), append(ot, fmt.Sprintf("f%d", t.id))
	default: // a different fixed id: refused for keys with a requirement
		other := w.targetID(m)
		if other == t.id {
			other = t.id + 1
		}
		opts, ot = append(opts, keyset.WithFixedID(other)), append(ot, fmt.Sprintf("f%d", other))
	}
	if !public && w.rng.Chance(30) {
		st := []keyset.KeyStatus{keyset.Enabled, keyset.Enabled, keyset.Disabled, keyset.Destroyed, keyset.Unknown}[w.rng.Intn(5)]
		opts, ot = append(opts, keyset.WithStatus(st)), append(ot, "s"+statusCode(st))
	}
	if !public && w.rng.Chance(20) {
		opts, ot = append(opts, keyset.AsPrimary()), append(ot, "p")
	}
	w.o.Count(fmt.Sprintf("move/%s/%s", t.kind, prefixName(t.prefix)))
	if t.prefix != tinkpb.OutputPrefixType_RAW && (t.id == 0 || t.id == 0xFFFFFFFF) {
		w.o.Count("move/parserless_or_typed_key_requiring_special_id")
	}
	id, err := w.addKeyOp(m, k, idReq, public, opts, ot, "move")
	w.checkSrcKey(src, i)
	if err == nil {
		es, _ := keyset.VerifManagerDump(w.mgrs[m])
		last := es[len(es)-1]
		if last.Key != k || last.ID != id {
			w.o.Violate("moved %s key: the manager's new entry is (%d, key %d), want (%d, key %d)", t.kind, last.ID, w.tok(last.Key), id, w.tok(k))
		}
		if w.rng.Chance(50) {
			w.roundTrip(m)
		}
	}
}

// roundTrip: Handle() of manager m, serialized and re-read, lists every key under the same id, with
// the same status / primary, and an equal key (same id requirement, same output prefix).
func (w *world) roundTrip(m int) {
	hd, err := w.mgrs[m].Handle()
	if err != nil {
		return
	}
	last := w.curOp
	var buf bytes.Buffer
	if err := insecurecleartextkeyset.Write(hd, keyset.NewBinaryWriter(&buf)); err != nil {
		w.o.Violate("Handle() of manager %d cannot be serialized after %q: %v", m, last, err)
		return
	}
	ser := &tinkpb.Keyset{}
	if err := proto.Unmarshal(buf.Bytes(), ser); err != nil {
		panic(err)
	}
	back, err := insecurecleartextkeyset.Read(keyset.NewBinaryReader(bytes.NewReader(buf.Bytes())))
	if err != nil {
		w.o.Violate("Handle() of manager %d, serialized, cannot be re-read after %q: %v", m, last, err)
		return
	}
	w.o.Count("roundtrip/handles")
	a, b := keyset.VerifHandleDump(hd), keyset.VerifHandleDump(back)
	if len(a) != len(b) || len(a) != len(ser.Key) {
		w.o.Violate("manager %d after %q: handle has %d entries, serialized %d, re-read %d", m, last, len(a), len(ser.Key), len(b))
		return
	}
	for i := range a {
		sk := ser.Key[i]
		if sk.KeyId != a[i].ID || b[i].ID != a[i].ID || b[i].Status != a[i].Status || b[i].IsPrimary != a[i].IsPrimary {
			w.o.Violate("manager %d after %q: entry %d is %d:%s:%s, serialized under key_id %d, re-read as %d:%s:%s", m, last, i,
				a[i].ID, statusCode(a[i].Status), hlib01(a[i].IsPrimary), sk.KeyId, b[i].ID, statusCode(b[i].Status), hlib01(b[i].IsPrimary))
			continue
		}
		// the serialized key's prefix type and key_id are what a reader derives the id requirement from
		t := srcKey{id: sk.KeyId, prefix: sk.OutputPrefixType, kind: "re-read"}
		w.checkKeyID(b[i].Key, t, b[i].ID, fmt.Sprintf("manager %d Handle() after %q, serialized and re-read, entry %d", m, last, i))
		ida, reqa := a[i].Key.IDRequirement()
		idb, reqb := b[i].Key.IDRequirement()
		if !a[i].Key.Equal(b[i].Key) || ida != idb || reqa != reqb {
			w.o.Violate("manager %d after %q: entry %d (id %d, %T, IDRequirement (%d,%v)) changes identity when the keyset is serialized and re-read (%T, IDRequirement (%d,%v), listed under key_id %d prefix %s)",
				m, last, i, a[i].ID, a[i].Key, ida, reqa, b[i].Key, idb, reqb, sk.KeyId, prefixName(sk.OutputPrefixType))
		}
	}
	// the re-read handle becomes a handle of the history (later NewManagerFromHandle may use it)
	h := w.rng.Intn(8)
	w.hands[h] = back
	w.o.Emit(fmt.Sprintf("M defhandle %d %s", h, w.showEntries(b)), "ok", true)
	w.record(back, fmt.Sprintf("re-read handle %q", w.o.LastOp), true)
}

// ---------- the extra histories ----------

// seedSpecial makes ids 0 and 0xffffffff likely to be present right from the start, through every way an
// id can be taken: key with requirement, WithFixedID, a forced random draw.
func (w *world) seedSpecial(m int) {
	km := w.mgrs[m]
	for _, id := range []uint32{0, 0xFFFFFFFF} {
		if !w.rng.Chance(65) {
			continue
		}
		switch w.rng.Intn(4) {
		case 0:
			w.addKeyOp(m, w.newAESKey(id, aesgcm.VariantTink), fmt.Sprint(id), true, nil, nil, "seed")
		case 1:
			w.addKeyOp(m, w.newAESKey(0, aesgcm.VariantNoPrefix), "-", false, []keyset.KeyOpts{keyset.WithFixedID(id)}, []string{fmt.Sprintf("f%d", id)}, "seed")
		case 2:
			// a random draw that lands on the special id
			kt := []*tinkpb.KeyTemplate{aead.AES128GCMKeyTemplate(), aead.AES256GCMNoPrefixKeyTemplate()}[w.rng.Intn(2)]
			w.tape.ForceU32(id)
			w.o.Count("xseed/drawn")
			w.doAdd(m, kt, nil, false, "seed-drawn")
		default:
			// burned: a failing Add that drew the special id (reserved, not in use)
			kt := &tinkpb.KeyTemplate{TypeUrl: aead.AES128GCMKeyTemplate().TypeUrl, Value: []byte{0x10, 0x18}, OutputPrefixType: tinkpb.OutputPrefixType_TINK}
			w.tape.ForceU32(id)
			w.o.Count("xseed/burned")
			w.doAdd(m, kt, nil, false, "seed-burned")
		}
		w.afterOp(w.curOp)
	}
	if w.rng.Chance(70) {
		// a primary, so that every later op is followed by a successful Handle()
		es, _ := keyset.VerifManagerDump(km)
		var en []uint32
		for _, e := range es {
			if e.Status == keyset.Enabled {
				en = append(en, e.ID)
			}
		}
		if len(en) == 0 {
			w.doAdd(m, aead.AES128GCMKeyTemplate(), nil, false, "seed-primary")
			es, _ = keyset.VerifManagerDump(km)
			if len(es) == 0 {
				return
			}
			en = append(en, es[len(es)-1].ID)
		}
		id := en[w.rng.Intn(len(en))]
		err := km.SetPrimary(id)
		if err == nil {
			w.everPrimary[m] = true
		}
		w.o.Emit(fmt.Sprintf("M setprimary %d %d", m, id), res0(err), true)
		w.finishOp(m)
		w.afterOp(w.curOp)
	}
}

// xhistory: one history of an extra section.  mode "fail": failing operations dominate;
// mode "move": keys of parsed keysets are moved between managers.
func (w *world) xhistory(mode string, maxOps int) {
	w.resetWorld()
	w.annP = 3
	w.seedSpecial(0)
	nm := 1
	n := 1 + w.rng.Intn(maxOps)
	pFail, pFixed, pMove := 30, 20, 10
	if mode == "move" {
		pFail, pFixed, pMove = 12, 12, 40
	}
	for i := 0; i < n; i++ {
		m := w.rng.Intn(nm)
		if w.rng.Chance(7) && nm < 4 {
			// NewManagerFromHandle on a handle of the history: source keysets, re-read handles, Handle() results
			h := w.rng.Intn(11)
			if mode == "move" && w.rng.Chance(50) {
				h = w.newSource().slot
			}
			if hd := w.hands[h]; hd != nil {
				w.mgrs[nm] = keyset.NewManagerFromHandle(hd)
				w.wantAnn[nm] = "-"
				w.everPrimary[nm] = true
				w.o.Count("fromhandle")
				w.o.Emit(fmt.Sprintf("M fromhandle %d %d", h, nm), "ok", true)
				w.curOp = w.o.LastOp
				w.noteIDs(nm)
				w.dump(nm)
				nm++
				w.afterOp(w.curOp)
				continue
			}
		}
		switch r := w.rng.Intn(100); {
		case r < pFail:
			w.xAdd(m)
		case r < pFail+pFixed:
			w.xFixed(m)
		case r < pFail+pFixed+pMove:
			w.xMove(m)
		case r < pFail+pFixed+pMove+4:
			w.roundTrip(m)
		default:
			w.step(m)
		}
		w.afterOp(w.curOp)
		if w.rng.Chance(10) {
			w.hdump(w.rng.Intn(11))
		}
	}
	for h := 0; h < 11; h++ {
		if w.hands[h] != nil {
			w.hdump(h)
		}
	}
	for _, src := range w.srcs {
		for i := range src.keys {
			w.checkSrcKey(src, i)
		}
	}
	ms := make([]int, 0, len(w.mgrs))
	for m := range w.mgrs {
		ms = append(ms, m)
	}
	sort.Ints(ms)
	for _, m := range ms {
		w.roundTrip(m)
	}
	for _, r := range w.recs {
		w.primCheck(r, "end of history")
	}
}

// runExtra: the round-4 sections.
func (w *world) runExtra() {
	seed := *hlib.FlagSeed
	for _, sec := range []struct {
		name, mode string
		n          int
	}{
		{"c11-failops", "fail", hlib.N(800, 20000)},
		{"c11-fallback", "move", hlib.N(500, 12000)},
	} {
		w.rng = hlib.NewRng(seed, sec.name)
		w.sec = sec.name
		if w.pool == nil {
			w.tcache = map[string]tclass{}
			w.buildPool()
		}
		for i := 0; i < sec.n; i++ {
			maxOps := 10
			if i%4 == 0 {
				maxOps = 40
			}
			w.xhistory(sec.mode, maxOps)
		}
		w.o.Hist["histories/"+sec.name] = sec.n
		w.o.Hist["template_pool"] = len(w.pool)
	}
}
