//go:build verif

// Harness c11: operation-history differential for keyset.Manager (property C11).
// Drives the real Manager with generated histories and prints, for every op, the line the Lean
// model (TinkVerif/Model/Manager.lean) is given and the real implementation's answer.
package main

import (
	"fmt"
	"strings"

	"github.com/tink-crypto/tink-go/v2/aead"
	"github.com/tink-crypto/tink-go/v2/aead/aesgcm"
	"github.com/tink-crypto/tink-go/v2/insecurecleartextkeyset"
	"github.com/tink-crypto/tink-go/v2/insecuresecretdataaccess"
	"github.com/tink-crypto/tink-go/v2/internal/internalapi"
	"github.com/tink-crypto/tink-go/v2/internal/verifharness/hlib"
	"github.com/tink-crypto/tink-go/v2/key"
	"github.com/tink-crypto/tink-go/v2/keyset"
	"github.com/tink-crypto/tink-go/v2/mac"
	"github.com/tink-crypto/tink-go/v2/monitoring"
	"github.com/tink-crypto/tink-go/v2/secretdata"
	"google.golang.org/protobuf/proto"

	tinkpb "github.com/tink-crypto/tink-go/v2/proto/tink_go_proto"
)

type world struct {
	o               *hlib.Out
	rng             *hlib.Rng
	tape            *hlib.Tape
	keyTok          map[key.Key]int
	nextK           int
	mgrs            map[int]*keyset.Manager
	hands           map[int]*keyset.Handle
	ids             []uint32 // ids ever seen in this history (live or deleted)
	everPrimary     map[int]bool
	usedInternalAPI map[int]bool

	// round 3b (ann.go): annotations, snapshots of every handle obtained, monitoring contexts
	wantAnn   map[int]string // reference: canonical annotations of each manager
	cmaps     []*callerMap   // maps the caller passed to SetAnnotations
	recs      []*hrec        // handles obtained by history ops (all kept, also after their slot is reused)
	tmpRecs   []*hrec        // ring of handles taken by the post-op oracle
	tmpNext   int
	ctxs      []*ctxRec
	capturing bool
	capCtx    []*monitoring.Context
	capLog    []string
	annP      int    // chance (percent) that a step is an annotation operation
	curOp     string // the most recent manager operation (not the dump lines that follow it)

	// round 4 (failops.go)
	srcs   []*srcHandle       // parsed keysets whose keys are moved into managers
	tcache map[string]tclass  // template -> does key generation succeed (decided outside the manager)
	pool   []*tinkpb.KeyTemplate
	sec    string // name of the extra section being generated ("" in the original histories)
}

func statusCode(s keyset.KeyStatus) string {
	switch s {
	case keyset.Enabled:
		return "E"
	case keyset.Disabled:
		return "D"
	case keyset.Destroyed:
		return "X"
	}
	return "U"
}

func (w *world) tok(k key.Key) int {
	if t, ok := w.keyTok[k]; ok {
		return t
	}
	w.nextK++
	w.keyTok[k] = w.nextK
	return w.nextK
}

func (w *world) showEntries(es []keyset.VerifEntry) string {
	if len(es) == 0 {
		return "-"
	}
	ss := make([]string, len(es))
	for i, e := range es {
		ss[i] = fmt.Sprintf("%d:%s:%s:%d", e.ID, statusCode(e.Status), hlib.B01(e.IsPrimary), w.tok(e.Key))
	}
	return strings.Join(ss, ";")
}

func (w *world) dump(m int) {
	es, un := keyset.VerifManagerDump(w.mgrs[m])
	w.o.Emit(fmt.Sprintf("M dump %d", m), w.showEntries(es)+" | "+hlib.U32List(hlib.SortedU32(un)), len(es) > 1)
}

// hdump prints a handle through its *public* API (Len/Entry/Primary).
func (w *world) hdump(h int) {
	hd := w.hands[h]
	if hd == nil {
		w.o.Emit(fmt.Sprintf("M hdump %d", h), "nohandle", false)
		return
	}
	es := make([]keyset.VerifEntry, hd.Len())
	raw := keyset.VerifHandleDump(hd)
	for i := 0; i < hd.Len(); i++ {
		e, err := hd.Entry(i)
		if err != nil {
			panic(err)
		}
		es[i] = keyset.VerifEntry{Key: raw[i].Key, ID: e.KeyID(), Status: e.KeyStatus(), IsPrimary: e.IsPrimary()}
	}
	p := "-"
	if pe, err := hd.Primary(); err == nil {
		p = fmt.Sprint(pe.KeyID())
		// property oracle: the primary of every handle is ENABLED and flagged primary
		if pe.KeyStatus() != keyset.Enabled || !pe.IsPrimary() {
			w.o.Violate("handle %d: Primary() is not an ENABLED primary entry (id %d)", h, pe.KeyID())
		}
	}
	seen := map[uint32]bool{}
	np := 0
	for _, e := range es {
		if seen[e.ID] {
			w.o.Violate("handle %d: duplicate key id %d", h, e.ID)
		}
		seen[e.ID] = true
		if e.IsPrimary {
			np++
		}
	}
	if np != 1 {
		w.o.Violate("handle %d: %d primary entries", h, np)
	}
	w.o.Emit(fmt.Sprintf("M hdump %d", h), w.showEntries(es)+" | "+p, len(es) > 1)
	w.hann(h)
}

func (w *world) pickID() uint32 {
	r := w.rng.Intn(100)
	switch {
	case r < 70 && len(w.ids) > 0:
		return w.ids[w.rng.Intn(len(w.ids))]
	case r < 80:
		return uint32(w.rng.Pick(0, 1, 0xFFFFFFFF, 0x7FFFFFFF))
	default:
		return uint32(w.rng.U64())
	}
}

func res(id uint32, err error) string {
	if err != nil {
		return "err"
	}
	return fmt.Sprintf("ok %d", id)
}

func res0(err error) string {
	if err != nil {
		return "err"
	}
	return "ok"
}

// maybeForce makes the next random draws collide with existing ids (exercises the redraw loop).
func (w *world) maybeForce(m int) {
	if !w.rng.Chance(35) {
		return
	}
	_, un := keyset.VerifManagerDump(w.mgrs[m])
	un = hlib.SortedU32(un) // map order is random: keep the generation reproducible
	n := w.rng.Intn(3)
	var ws []uint32
	for i := 0; i < n && len(un) > 0; i++ {
		ws = append(ws, un[w.rng.Intn(len(un))])
	}
	if w.rng.Chance(50) {
		ws = append(ws, uint32(w.rng.Pick(0, 1, 0xFFFFFFFF, 5, 6, 7)))
	}
	w.tape.ForceU32(ws...)
	if len(ws) > 0 {
		w.o.Count("forced_draw_sequences")
	}
}

func (w *world) newAESKey(idReq uint32, variant aesgcm.Variant) key.Key {
	p, err := aesgcm.NewParameters(aesgcm.ParametersOpts{KeySizeInBytes: 16, IVSizeInBytes: 12, TagSizeInBytes: 16, Variant: variant})
	if err != nil {
		panic(err)
	}
	k, err := aesgcm.NewKey(secretdata.NewBytesFromData(w.rng.Bytes(16), insecuresecretdataaccess.Token{}), idReq, p)
	if err != nil {
		panic(err)
	}
	return k
}

type tmpl struct {
	kt     *tinkpb.KeyTemplate
	tmplOk bool
	genOk  bool
	name   string
}

func (w *world) pickTemplate() tmpl {
	switch w.rng.Intn(12) {
	case 0:
		return tmpl{nil, false, false, "nil"}
	case 1:
		kt := proto.Clone(aead.AES128GCMKeyTemplate()).(*tinkpb.KeyTemplate)
		kt.OutputPrefixType = tinkpb.OutputPrefixType_UNKNOWN_PREFIX
		return tmpl{kt, false, false, "unknown-prefix"}
	case 2:
		return tmpl{&tinkpb.KeyTemplate{TypeUrl: "type.googleapis.com/verif.NoSuchKey", OutputPrefixType: tinkpb.OutputPrefixType_TINK, Value: []byte{1, 2}}, true, false, "unregistered"}
	case 3:
		kt := proto.Clone(aead.AES128GCMKeyTemplate()).(*tinkpb.KeyTemplate)
		kt.Value = []byte{0x10, 0x05} // key_size = 5: rejected at key creation
		return tmpl{kt, true, false, "bad-size"}
	case 4:
		return tmpl{aead.AES256GCMNoPrefixKeyTemplate(), true, true, "raw"}
	case 5:
		return tmpl{mac.HMACSHA256Tag128KeyTemplate(), true, true, "hmac"}
	case 6:
		kt := proto.Clone(aead.AES128GCMKeyTemplate()).(*tinkpb.KeyTemplate)
		kt.OutputPrefixType = tinkpb.OutputPrefixType_CRUNCHY
		return tmpl{kt, true, true, "crunchy"}
	case 7:
		kt := proto.Clone(mac.HMACSHA256Tag128KeyTemplate()).(*tinkpb.KeyTemplate)
		kt.OutputPrefixType = tinkpb.OutputPrefixType_LEGACY
		return tmpl{kt, true, true, "legacy"}
	default:
		return tmpl{aead.AES128GCMKeyTemplate(), true, true, "tink"}
	}
}

func (w *world) noteIDs(m int) {
	es, _ := keyset.VerifManagerDump(w.mgrs[m])
	for _, e := range es {
		found := false
		for _, x := range w.ids {
			if x == e.ID {
				found = true
			}
		}
		if !found {
			w.ids = append(w.ids, e.ID)
		}
	}
}

func (w *world) step(m int) {
	km := w.mgrs[m]
	o := w.o
	if w.rng.Chance(w.annP) {
		// SetAnnotations (the Lean side keeps the annotations next to the manager model)
		w.annStep(m)
		w.postOracle(m, w.curOp)
		w.afterOp(w.curOp)
		if w.rng.Chance(40) {
			w.annMutate()
		}
		return
	}
	switch r := w.rng.Intn(100); {
	case r < 18: // Add(template) or AddNewKeyFromParameters
		t := w.pickTemplate()
		var id uint32
		var err error
		viaParams := t.kt != nil && t.genOk && w.rng.Chance(30) && t.name != "legacy"
		var ps key.Parameters
		if viaParams {
			switch t.name {
			case "hmac":
				ps = mustParams(mac.HMACSHA256Tag128KeyTemplate())
			default:
				ps = mustParams(t.kt)
			}
		}
		w.maybeForce(m)
		before := w.fullState(m)
		w.tape.Reset()
		if viaParams {
			id, err = km.AddNewKeyFromParameters(ps)
		} else {
			id, err = km.Add(t.kt)
		}
		draws := w.tape.DrawnU32()
		w.tape.Forced = nil
		w.errKeeps(m, "Add("+t.name+")", err, before, draws, false)
		kt := 0
		if err == nil {
			es, _ := keyset.VerifManagerDump(km)
			kt = w.tok(es[len(es)-1].Key)
		} else {
			w.nextK++
			kt = w.nextK
		}
		o.Count("add/" + t.name)
		o.Emit(fmt.Sprintf("M add %d %s %s %d %s", m, hlib.B01(t.tmplOk), hlib.B01(t.genOk), kt, hlib.U32List(draws)), res(id, err), true)
	case r < 36: // AddKey(key)
		w.maybeForce(m)
		var k key.Key
		idReq := "-"
		keyNil := false
		switch w.rng.Intn(10) {
		case 0:
			keyNil = true
		case 1, 2, 3:
			k = w.newAESKey(0, aesgcm.VariantNoPrefix)
		default:
			id := w.pickID()
			v := aesgcm.VariantTink
			if w.rng.Chance(30) {
				v = aesgcm.VariantCrunchy
			}
			k = w.newAESKey(id, v)
			idReq = fmt.Sprint(id)
		}
		before := w.fullState(m)
		w.tape.Reset()
		var id uint32
		var err error
		kt := 0
		if keyNil {
			id, err = km.AddKey(nil)
		} else {
			kt = w.tok(k)
			id, err = km.AddKey(k)
		}
		draws := w.tape.DrawnU32()
		w.tape.Forced = nil
		w.errKeeps(m, "AddKey", err, before, nil, false)
		if idReq != "-" && err == nil && fmt.Sprint(id) != idReq {
			o.Violate("AddKey returned id %d for a key requiring id %s", id, idReq)
		}
		o.Count("addkey")
		o.Emit(fmt.Sprintf("M addkey %d %s %d %s %s", m, hlib.B01(keyNil), kt, idReq, hlib.U32List(draws)), res(id, err), true)
	case r < 46: // AddKeyWithOpts (internal API)
		w.maybeForce(m)
		var k key.Key
		idReq := "-"
		var req uint32
		if w.rng.Chance(50) {
			k = w.newAESKey(0, aesgcm.VariantNoPrefix)
		} else {
			req = w.pickID()
			k = w.newAESKey(req, aesgcm.VariantTink)
			idReq = fmt.Sprint(req)
		}
		var opts []keyset.KeyOpts
		var ot []string
		for i, n := 0, w.rng.Intn(4); i < n; i++ {
			switch w.rng.Intn(3) {
			case 0:
				st := []keyset.KeyStatus{keyset.Unknown, keyset.Enabled, keyset.Disabled, keyset.Destroyed}[w.rng.Intn(4)]
				opts = append(opts, keyset.WithStatus(st))
				ot = append(ot, "s"+statusCode(st))
			case 1:
				id := w.pickID()
				if idReq != "-" && w.rng.Chance(70) {
					id = req
				}
				opts = append(opts, keyset.WithFixedID(id))
				ot = append(ot, fmt.Sprintf("f%d", id))
			case 2:
				opts = append(opts, keyset.AsPrimary())
				ot = append(ot, "p")
			}
		}
		os := "-"
		if len(ot) > 0 {
			os = strings.Join(ot, ",")
		}
		before := w.fullState(m)
		w.tape.Reset()
		id, err := km.AddKeyWithOpts(k, internalapi.Token{}, opts...)
		w.usedInternalAPI[m] = true
		// the internal API clears the other primaries before it reports an id collision (DESIGN §6 H4,
		// reproduced by the model): with AsPrimary only the reservations are required to be kept
		w.errKeeps(m, "AddKeyWithOpts("+strings.Join(ot, ",")+")", err, before, nil, hasOpt(ot, "p"))
		if err == nil {
			for _, x := range ot {
				if x == "p" {
					w.everPrimary[m] = true
				}
			}
		}
		draws := w.tape.DrawnU32()
		w.tape.Forced = nil
		o.Count("addopts")
		o.Emit(fmt.Sprintf("M addopts %d 0 %d %s %s %s", m, w.tok(k), idReq, os, hlib.U32List(draws)), res(id, err), true)
	case r < 58:
		id := w.pickID()
		before := w.snapshot(m)
		st, isP, found := w.lookup(m, id)
		err := km.SetPrimary(id)
		w.errUnchanged(m, "SetPrimary", err, before)
		if err == nil && (!found || st != keyset.Enabled) {
			o.Violate("SetPrimary(%d) succeeded on a missing or non-ENABLED key (found=%v status=%s) in %s", id, found, statusCode(st), before)
		}
		if err == nil {
			w.everPrimary[m] = true
		}
		_ = isP
		o.Count("setprimary")
		o.Emit(fmt.Sprintf("M setprimary %d %d", m, id), res0(err), true)
	case r < 68:
		id := w.pickID()
		before := w.snapshot(m)
		err := km.Enable(id)
		w.errUnchanged(m, "Enable", err, before)
		o.Count("enable")
		o.Emit(fmt.Sprintf("M enable %d %d", m, id), res0(err), true)
	case r < 80:
		id := w.pickID()
		before := w.snapshot(m)
		_, isP, found := w.lookup(m, id)
		err := km.Disable(id)
		w.errUnchanged(m, "Disable", err, before)
		if err == nil && (!found || isP) {
			o.Violate("Disable(%d) succeeded on a missing or primary key in %s", id, before)
		}
		o.Count("disable")
		o.Emit(fmt.Sprintf("M disable %d %d", m, id), res0(err), true)
	case r < 90:
		id := w.pickID()
		before := w.snapshot(m)
		_, isP, found := w.lookup(m, id)
		err := km.Delete(id)
		w.errUnchanged(m, "Delete", err, before)
		if err == nil && (!found || isP) {
			o.Violate("Delete(%d) succeeded on a missing or primary key in %s", id, before)
		}
		o.Count("delete")
		o.Emit(fmt.Sprintf("M delete %d %d", m, id), res0(err), true)
	default: // Handle()
		h := w.rng.Intn(8)
		hd, err := km.Handle()
		if err != nil {
			hd = nil
			o.Count("handle/err")
		} else {
			o.Count("handle/ok")
		}
		w.hands[h] = hd
		o.Emit(fmt.Sprintf("M handle %d %d", m, h), res0(err), true)
		last := o.LastOp
		w.curOp = last
		w.hdump(h)
		if hd != nil {
			w.primCheck(w.record(hd, fmt.Sprintf("%q", last), true), last)
		}
		return
	}
	w.curOp = w.o.LastOp
	w.noteIDs(m)
	w.dump(m)
	w.postOracle(m, w.curOp)
}

func (w *world) lookup(m int, id uint32) (keyset.KeyStatus, bool, bool) {
	es, _ := keyset.VerifManagerDump(w.mgrs[m])
	for _, e := range es {
		if e.ID == id {
			return e.Status, e.IsPrimary, true
		}
	}
	return keyset.Unknown, false, false
}

// postOracle applies the property statement directly to the real manager after an op:
// Handle() fails only if no primary was ever set, and otherwise returns a keyset with pairwise
// distinct ids and exactly one primary, which is ENABLED.
func (w *world) postOracle(m int, last string) {
	hd, err := w.mgrs[m].Handle()
	if err != nil {
		if w.everPrimary[m] && !w.usedInternalAPI[m] {
			w.o.Violate("Handle() fails although a primary was set earlier (after %s): %v", last, err)
		}
		return
	}
	seen := map[uint32]bool{}
	np := 0
	for i := 0; i < hd.Len(); i++ {
		e, _ := hd.Entry(i)
		if seen[e.KeyID()] {
			w.o.Violate("Handle() has duplicate key id %d (after %s)", e.KeyID(), last)
		}
		seen[e.KeyID()] = true
		if e.IsPrimary() {
			np++
			if e.KeyStatus() != keyset.Enabled {
				w.o.Violate("Handle() has a non-ENABLED primary %d (after %s)", e.KeyID(), last)
			}
		}
	}
	if np != 1 {
		w.o.Violate("Handle() has %d primaries (after %s)", np, last)
	}
}

func (w *world) snapshot(m int) string {
	es, _ := keyset.VerifManagerDump(w.mgrs[m])
	return w.showEntries(es)
}

// errUnchanged is the property oracle "an operation that returns an error leaves the keyset unchanged".
func (w *world) errUnchanged(m int, op string, err error, before string) {
	if err != nil && w.snapshot(m) != before {
		w.o.Violate("%s returned an error but changed the keyset: %s -> %s", op, before, w.snapshot(m))
	}
}

func mustParams(kt *tinkpb.KeyTemplate) key.Parameters {
	h, err := keyset.NewHandle(kt)
	if err != nil {
		panic(err)
	}
	e, _ := h.Primary()
	return e.Key().Parameters()
}

// readerHandle builds a proto keyset by hand, reads it through insecurecleartextkeyset and defines
// the resulting handle in the model (from the public Entry API).
func (w *world) readerHandle(h int) {
	n := 1 + w.rng.Intn(4)
	ks := &tinkpb.Keyset{}
	prim := w.rng.Intn(n)
	used := map[uint32]bool{}
	for i := 0; i < n; i++ {
		kh, err := keyset.NewHandle(aead.AES128GCMKeyTemplate())
		if err != nil {
			panic(err)
		}
		k := insecurecleartextkeyset.KeysetMaterial(kh).Key[0]
		id := w.pickID()
		for used[id] {
			id++
		}
		used[id] = true
		k.KeyId = id
		k.Status = []tinkpb.KeyStatusType{tinkpb.KeyStatusType_ENABLED, tinkpb.KeyStatusType_DISABLED, tinkpb.KeyStatusType_DESTROYED}[w.rng.Intn(3)]
		k.OutputPrefixType = []tinkpb.OutputPrefixType{tinkpb.OutputPrefixType_TINK, tinkpb.OutputPrefixType_RAW, tinkpb.OutputPrefixType_CRUNCHY, tinkpb.OutputPrefixType_LEGACY}[w.rng.Intn(4)]
		if i == prim {
			k.Status = tinkpb.KeyStatusType_ENABLED
			ks.PrimaryKeyId = id
		}
		ks.Key = append(ks.Key, k)
	}
	hd, err := insecurecleartextkeyset.Read(&keyset.MemReaderWriter{Keyset: ks})
	if err != nil {
		panic(err)
	}
	w.hands[h] = hd
	es := keyset.VerifHandleDump(hd)
	w.o.Count("reader_handle")
	w.o.Emit(fmt.Sprintf("M defhandle %d %s", h, w.showEntries(es)), "ok", true)
	w.record(hd, fmt.Sprintf("reader handle %q", w.o.LastOp), true)
}

// prologue gives manager 0 an ENABLED primary right away, so that every later op is followed by a
// successful Handle() whose result is kept and re-observed.
func (w *world) prologue() {
	km := w.mgrs[0]
	if w.rng.Chance(60) {
		w.annStep(0)
	}
	w.tape.Reset()
	id, err := km.Add(aead.AES128GCMKeyTemplate())
	draws := w.tape.DrawnU32()
	if err != nil {
		panic(err)
	}
	es, _ := keyset.VerifManagerDump(km)
	w.o.Count("add/tink")
	w.o.Emit(fmt.Sprintf("M add 0 1 1 %d %s", w.tok(es[len(es)-1].Key), hlib.U32List(draws)), res(id, err), true)
	w.noteIDs(0)
	w.dump(0)
	err = km.SetPrimary(id)
	if err == nil {
		w.everPrimary[0] = true
	}
	w.o.Count("setprimary")
	w.o.Emit(fmt.Sprintf("M setprimary 0 %d", id), res0(err), true)
	w.curOp = w.o.LastOp
	w.dump(0)
	w.afterOp(w.curOp)
}

// resetWorld starts a new independent history: one empty manager, no handles.
func (w *world) resetWorld() {
	w.wantAnn = map[int]string{0: "-"}
	w.cmaps, w.recs, w.tmpRecs, w.tmpNext, w.ctxs = nil, nil, nil, 0, nil
	w.annP = 6
	w.keyTok = map[key.Key]int{}
	w.nextK = 0
	w.mgrs = map[int]*keyset.Manager{0: keyset.NewManager()}
	w.hands = map[int]*keyset.Handle{}
	w.ids = nil
	w.everPrimary = map[int]bool{}
	w.usedInternalAPI = map[int]bool{}
	w.srcs = nil
	w.o.Case()
	w.o.Emit("M reset", "ok", false)
	w.o.Emit("M new 0", "ok", false)
}

func (w *world) history(maxOps int, annBias bool) {
	w.resetWorld()
	if annBias {
		w.annP = 22
	}
	nm := 1
	n := 1 + w.rng.Intn(maxOps)
	if annBias && w.rng.Chance(70) {
		w.prologue()
	}
	for i := 0; i < n; i++ {
		m := w.rng.Intn(nm)
		if w.rng.Chance(6) && nm < 4 {
			// NewManagerFromHandle on an earlier handle or on a handle from a reader
			h := w.rng.Intn(8)
			if w.rng.Chance(40) {
				w.readerHandle(h)
			}
			if hd := w.hands[h]; hd != nil {
				w.mgrs[nm] = keyset.NewManagerFromHandle(hd)
				w.wantAnn[nm] = "-" // a manager made from a handle starts without annotations
				w.everPrimary[nm] = true
				w.o.Count("fromhandle")
				w.o.Emit(fmt.Sprintf("M fromhandle %d %d", h, nm), "ok", true)
				w.curOp = w.o.LastOp
				w.noteIDs(nm)
				w.dump(nm)
				nm++
				w.afterOp(w.curOp)
				continue
			}
		}
		w.step(m)
		if len(w.cmaps) > 0 && w.rng.Chance(10) {
			w.annMutate()
		}
		// handles obtained earlier are unaffected by later manager operations: all of them are
		// re-observed against their snapshots, one is also compared with the model
		w.afterOp(w.curOp)
		if w.rng.Chance(10) {
			w.hdump(w.rng.Intn(8))
		}
	}
	for h := 0; h < 8; h++ {
		if w.hands[h] != nil {
			w.hdump(h)
		}
	}
	for _, r := range w.recs {
		w.primCheck(r, "end of history")
	}
}

func main() {
	o := hlib.Open("C11")
	defer o.Close()
	w := &world{o: o, rng: hlib.NewRng(*hlib.FlagSeed, "c11"), tape: hlib.InstallTape(*hlib.FlagSeed)}
	w.installMonitoring()
	nh := hlib.N(1500, 40000)
	for i := 0; i < nh; i++ {
		maxOps := 12
		if i%4 == 0 {
			maxOps = 80
		}
		w.history(maxOps, i%3 == 1)
	}
	o.Hist["histories"] = nh
	// round 4 (failops.go): appended last with their own rng streams, the lines above are unchanged
	w.runExtra()
}
