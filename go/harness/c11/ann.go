//go:build verif

// Round 3b additions to harness c11:
//   - annotation operations in manager histories (SetAnnotations with nil / empty / non-empty / re-used /
//     handle-derived maps, caller-side mutation of maps after they were passed in),
//   - a snapshot oracle: EVERY handle obtained during a history (Handle() results, the handles taken by
//     the post-op oracle, reader handles) is re-observed after EVERY later manager operation on
//     everything that is observable on it (entries, ids, statuses, primary, key identity and key
//     material, KeysetInfo, annotations, monitoring contexts) and compared with the observation made
//     when it was obtained,
//   - the monitoring contexts handed to a recording monitoring client (at handle creation and by
//     primitives built from a handle) must agree with the handle's snapshot and must never change.
package main

import (
	"crypto/sha256"
	"fmt"
	"maps"
	"sort"
	"strings"

	"github.com/tink-crypto/tink-go/v2/aead"
	"github.com/tink-crypto/tink-go/v2/insecurecleartextkeyset"
	"github.com/tink-crypto/tink-go/v2/internal/internalapi"
	"github.com/tink-crypto/tink-go/v2/internal/internalregistry"
	"github.com/tink-crypto/tink-go/v2/key"
	"github.com/tink-crypto/tink-go/v2/keyset"
	"github.com/tink-crypto/tink-go/v2/mac"
	"github.com/tink-crypto/tink-go/v2/monitoring"
	"google.golang.org/protobuf/proto"
)

// ---------- canonical text of an annotation map ----------

func encAnn(m map[string]string) string {
	if len(m) == 0 {
		return "-"
	}
	ks := make([]string, 0, len(m))
	for k := range m {
		ks = append(ks, k)
	}
	sort.Strings(ks)
	for i, k := range ks {
		ks[i] = k + "=" + m[k]
	}
	return strings.Join(ks, ",")
}

// ---------- recording monitoring client ----------

type ctxRec struct {
	ctx  *monitoring.Context
	snap string // rendering at the time the context was handed to the client
	born string // op after which it was created
}

type recClient struct{ w *world }

type recLogger struct {
	w   *world
	rec *ctxRec
}

func monStatus(s monitoring.KeyStatus) string {
	switch s {
	case monitoring.Enabled:
		return "E"
	case monitoring.Disabled:
		return "D"
	case monitoring.Destroyed:
		return "X"
	}
	return "U"
}

func showInfo(ki *monitoring.KeysetInfo) string {
	if ki == nil {
		return "noinfo"
	}
	es := make([]string, len(ki.Entries))
	for i, e := range ki.Entries {
		if e == nil {
			es[i] = "nil"
			continue
		}
		es[i] = fmt.Sprintf("%d:%s:%s:%s", e.KeyID, monStatus(e.Status), e.KeyType, e.KeyPrefix)
	}
	return fmt.Sprintf("ann=%s primary=%d entries=%s", encAnn(ki.Annotations), ki.PrimaryKeyID, strings.Join(es, ";"))
}

func showCtx(c *monitoring.Context) string {
	return c.Primitive + "/" + c.APIFunction + " " + showInfo(c.KeysetInfo)
}

func (c *recClient) NewLogger(ctx *monitoring.Context) (monitoring.Logger, error) {
	w := c.w
	var rec *ctxRec
	// the loggers of one handle / one primitive share their KeysetInfo: keep one record per (info, api)
	for i := len(w.ctxs) - 1; i >= 0 && i >= len(w.ctxs)-4; i-- {
		if r := w.ctxs[i]; r.ctx.KeysetInfo == ctx.KeysetInfo && r.ctx.Primitive == ctx.Primitive && r.ctx.APIFunction == ctx.APIFunction {
			rec = r
			break
		}
	}
	if rec == nil {
		rec = &ctxRec{ctx: ctx, snap: showCtx(ctx), born: w.curOp}
		w.ctxs = append(w.ctxs, rec)
		w.o.Count("mon/contexts")
	}
	if w.capturing {
		w.capCtx = append(w.capCtx, ctx)
	}
	return &recLogger{w: w, rec: rec}, nil
}

func (l *recLogger) note(s string) {
	if l.w.capturing {
		l.w.capLog = append(l.w.capLog, s+" @ "+showInfo(l.rec.ctx.KeysetInfo))
	}
}
func (l *recLogger) Log(keyID uint32, numBytes int) {
	l.note(fmt.Sprintf("log %s/%s %d", l.rec.ctx.Primitive, l.rec.ctx.APIFunction, keyID))
}
func (l *recLogger) LogFailure() {
	l.note(fmt.Sprintf("fail %s/%s", l.rec.ctx.Primitive, l.rec.ctx.APIFunction))
}
func (l *recLogger) LogKeyExport(keyID uint32) { l.note(fmt.Sprintf("export %d", keyID)) }

func (w *world) installMonitoring() {
	if err := internalregistry.RegisterMonitoringClient(&recClient{w: w}); err != nil {
		panic(err)
	}
}

// ---------- handle snapshots ----------

type hrec struct {
	hd      *keyset.Handle
	born    string // how and when it was obtained
	snap    string // observe() at that time
	ann     string
	primary string
	enabled string // ids of ENABLED entries in order (what a primitive's monitoring context lists)
	keys    []key.Key
	slot    bool // obtained through a history op (kept for the whole history)
	dead    bool // already reported
}

// observe renders everything that can be observed on a handle without building primitives.
func (w *world) observe(hd *keyset.Handle) (out string) {
	// a broken handle (e.g. one without a primary) must show up as an oracle message with the
	// history as replay, not as a harness crash
	defer func() {
		if r := recover(); r != nil {
			out = fmt.Sprintf("panic while observing the handle: %v", r)
			w.o.Violate("panic while observing a handle obtained after %q: %v", w.curOp, r)
		}
	}()
	var b strings.Builder
	n := hd.Len()
	raw := keyset.VerifHandleDump(hd)
	fmt.Fprintf(&b, "len=%d/%d | entries=", n, len(raw))
	for i := 0; i < n; i++ {
		e, err := hd.Entry(i)
		if err != nil {
			fmt.Fprintf(&b, "entry(%d)=err;", i)
			continue
		}
		fmt.Fprintf(&b, "%d:%s:%s", e.KeyID(), statusCode(e.KeyStatus()), hlib01(e.IsPrimary()))
		if i < len(raw) {
			r := raw[i]
			fmt.Fprintf(&b, ":k%d", w.tok(r.Key))
			if r.ID != e.KeyID() || r.Status != e.KeyStatus() || r.IsPrimary != e.IsPrimary() {
				fmt.Fprintf(&b, "!raw(%d:%s:%s)", r.ID, statusCode(r.Status), hlib01(r.IsPrimary))
			}
			if req, ok := r.Key.IDRequirement(); ok {
				fmt.Fprintf(&b, ":req%d", req)
			}
		}
		b.WriteByte(';')
	}
	b.WriteString(" | primary=")
	if pe, err := hd.Primary(); err == nil {
		fmt.Fprintf(&b, "%d:%s:%s", pe.KeyID(), statusCode(pe.KeyStatus()), hlib01(pe.IsPrimary()))
	} else {
		b.WriteString("err")
	}
	_, e1 := hd.Entry(-1)
	_, e2 := hd.Entry(n)
	fmt.Fprintf(&b, " | oob=%s,%s", res0(e1), res0(e2))
	fmt.Fprintf(&b, " | ann=%s", encAnn(hd.Annotations(internalapi.Token{})))
	p := hlibRecover(func() {
		ki := hd.KeysetInfo()
		fmt.Fprintf(&b, " | info=%d[", ki.GetPrimaryKeyId())
		for _, k := range ki.GetKeyInfo() {
			fmt.Fprintf(&b, "%d:%s:%s:%s;", k.GetKeyId(), k.GetStatus(), k.GetOutputPrefixType(), strings.TrimPrefix(k.GetTypeUrl(), "type.googleapis.com/google.crypto.tink."))
		}
		b.WriteString("]")
	})
	if p != "" {
		b.WriteString(" | info=panic")
	}
	ks := insecurecleartextkeyset.KeysetMaterial(hd)
	if ks == nil {
		b.WriteString(" | material=nil")
	} else {
		bs, err := proto.MarshalOptions{Deterministic: true}.Marshal(ks)
		if err != nil {
			b.WriteString(" | material=err")
		} else {
			s := sha256.Sum256(bs)
			fmt.Fprintf(&b, " | material=%x", s[:8])
		}
	}
	return b.String()
}

// fieldDiff names the " | "-separated fields in which two observations differ.
func fieldDiff(was, now string) string {
	a, b := strings.Split(was, " | "), strings.Split(now, " | ")
	if len(a) != len(b) {
		return "was " + was + " now " + now
	}
	var d []string
	for i := range a {
		if a[i] != b[i] {
			d = append(d, "was "+a[i]+" now "+b[i])
		}
	}
	return strings.Join(d, "; ")
}

func hlib01(b bool) string {
	if b {
		return "1"
	}
	return "0"
}

func hlibRecover(f func()) (p string) {
	defer func() {
		if r := recover(); r != nil {
			p = fmt.Sprint(r)
		}
	}()
	f()
	return ""
}

// record takes the snapshot of a freshly obtained handle.
func (w *world) record(hd *keyset.Handle, born string, slot bool) *hrec {
	r := &hrec{hd: hd, born: born, slot: slot, snap: w.observe(hd)}
	r.ann = encAnn(hd.Annotations(internalapi.Token{}))
	r.primary = "-"
	var en []string
	for _, e := range keyset.VerifHandleDump(hd) {
		r.keys = append(r.keys, e.Key)
		if e.IsPrimary {
			r.primary = fmt.Sprint(e.ID)
		}
		if e.Status == keyset.Enabled {
			en = append(en, fmt.Sprint(e.ID))
		}
	}
	r.enabled = strings.Join(en, ",")
	if slot {
		w.recs = append(w.recs, r)
	} else {
		// ring of the most recent oracle handles
		const ring = 12
		if len(w.tmpRecs) < ring {
			w.tmpRecs = append(w.tmpRecs, r)
		} else {
			w.tmpRecs[w.tmpNext%ring] = r
		}
		w.tmpNext++
	}
	w.o.Count("snap/handles")
	return r
}

// recheckOne re-observes one earlier handle.
func (w *world) recheckOne(r *hrec, last string) {
	if r.dead {
		return
	}
	cur := w.observe(r.hd)
	w.o.Count("snap/reobservations")
	if cur != r.snap {
		r.dead = true
		w.o.Violate("handle obtained earlier (%s) changed after the later operation %q: %s", r.born, last, fieldDiff(r.snap, cur))
		return
	}
	for i, e := range keyset.VerifHandleDump(r.hd) {
		if i >= len(r.keys) || e.Key != r.keys[i] || !e.Key.Equal(r.keys[i]) {
			r.dead = true
			w.o.Violate("handle obtained earlier (%s): key object of entry %d replaced after %q", r.born, i, last)
			return
		}
	}
}

// afterOp is run after every operation of a history: all handles obtained earlier are unaffected,
// every manager (not only the one operated on) still yields what the reference says, and no
// monitoring context handed out earlier has changed.
func (w *world) afterOp(last string) {
	for _, r := range w.recs {
		w.recheckOne(r, last)
	}
	for _, r := range w.tmpRecs {
		w.recheckOne(r, last)
	}
	for _, c := range w.ctxs {
		if c.snap == "" {
			continue
		}
		if cur := showCtx(c.ctx); cur != c.snap {
			w.o.Violate("monitoring context created after %q changed after the later operation %q: was %s now %s", c.born, last, c.snap, cur)
			c.snap = ""
		}
	}
	for m := 0; m < len(w.mgrs); m++ {
		w.mgrOracle(m, last)
	}
	if len(w.recs) > 0 && w.rng.Chance(8) {
		w.primCheck(w.recs[w.rng.Intn(len(w.recs))], last)
	}
}

// mgrOracle: a fresh handle of manager m carries exactly the manager's entries and the annotations
// of the most recent SetAnnotations call on m (none for a new manager or one made from a handle).
func (w *world) mgrOracle(m int, last string) {
	km := w.mgrs[m]
	if km == nil {
		return
	}
	hd, err := km.Handle()
	if err != nil {
		return
	}
	es, _ := keyset.VerifManagerDump(km)
	hs := keyset.VerifHandleDump(hd)
	if a, b := w.showEntries(es), w.showEntries(hs); a != b {
		w.o.Violate("Handle() of manager %d differs from the manager's entries after %q: manager %s handle %s", m, last, a, b)
	}
	if got := encAnn(hd.Annotations(internalapi.Token{})); got != w.wantAnn[m] {
		w.o.Violate("Handle() of manager %d carries annotations %s after %q, want %s (last SetAnnotations)", m, got, last, w.wantAnn[m])
		w.wantAnn[m] = got // reported once
	}
	r := w.record(hd, fmt.Sprintf("manager %d Handle() after %q", m, last), false)
	if w.rng.Chance(6) {
		w.primCheck(r, last)
	}
}

// primCheck builds a primitive from the handle and exports its keys: the monitoring contexts and
// log records must describe the handle as it was when it was obtained.
func (w *world) primCheck(r *hrec, last string) {
	if r.dead {
		return
	}
	defer func() {
		if p := recover(); p != nil {
			w.capturing = false
			r.dead = true
			w.o.Violate("panic while building/using a primitive of the handle (%s) after %q: %v", r.born, last, p)
		}
	}()
	want := fmt.Sprintf("ann=%s primary=%s enabled=%s", r.ann, r.primary, r.enabled)
	render := func(ki *monitoring.KeysetInfo) string {
		if ki == nil {
			return "noinfo"
		}
		ids := make([]string, len(ki.Entries))
		for i, e := range ki.Entries {
			ids[i] = fmt.Sprint(e.KeyID)
			if e.Status != monitoring.Enabled {
				ids[i] += "!" + monStatus(e.Status)
			}
		}
		return fmt.Sprintf("ann=%s primary=%d enabled=%s", encAnn(ki.Annotations), ki.PrimaryKeyID, strings.Join(ids, ","))
	}
	w.capCtx, w.capLog = nil, nil
	w.capturing = true
	a, errA := aead.New(r.hd)
	var errM error = fmt.Errorf("not tried")
	if errA != nil {
		w.capCtx = nil
		_, errM = mac.New(r.hd)
	}
	w.capturing = false
	ctxs := w.capCtx
	switch {
	case errA == nil:
		w.o.Count("prim/aead")
	case errM == nil:
		w.o.Count("prim/mac")
	default:
		w.o.Count("prim/none")
		ctxs = nil
	}
	if errA == nil || errM == nil {
		if r.ann == "-" && len(ctxs) != 0 {
			w.o.Violate("primitive of a handle without annotations (%s) created %d monitoring contexts (after %q)", r.born, len(ctxs), last)
		}
		if r.ann != "-" && len(ctxs) == 0 {
			w.o.Violate("primitive of an annotated handle (%s, %s) created no monitoring context (after %q)", r.born, r.ann, last)
		}
		for _, c := range ctxs {
			if got := render(c.KeysetInfo); got != want {
				r.dead = true
				w.o.Violate("monitoring context %s/%s of a primitive built from an earlier handle (%s) after %q: %s, want %s", c.Primitive, c.APIFunction, r.born, last, got, want)
				break
			}
		}
	}
	if errA == nil {
		w.capLog = nil
		w.capturing = true
		ct, err := a.Encrypt([]byte("c11"), []byte("ad"))
		if err == nil {
			_, err = a.Decrypt(ct, []byte("ad"))
		}
		w.capturing = false
		if err != nil {
			w.o.Violate("AEAD of handle (%s) failed a round trip after %q: %v", r.born, last, err)
		}
		if r.ann != "-" {
			wantLog := []string{"log aead/encrypt " + r.primary, "log aead/decrypt " + r.primary}
			if len(w.capLog) != 2 || !strings.HasPrefix(w.capLog[0], wantLog[0]+" @") || !strings.HasPrefix(w.capLog[1], wantLog[1]+" @") {
				w.o.Violate("AEAD of an earlier handle (%s) logged %q after %q, want %q", r.born, w.capLog, last, wantLog)
			}
		} else if len(w.capLog) != 0 {
			w.o.Violate("AEAD of an unannotated handle (%s) logged %q after %q", r.born, w.capLog, last)
		}
	}
	// key export through the public Entry API is logged with the handle's own context
	w.capLog = nil
	w.capturing = true
	var wantExp []string
	for i := 0; i < r.hd.Len(); i++ {
		e, err := r.hd.Entry(i)
		if err != nil {
			continue
		}
		if k := e.Key(); i < len(r.keys) && k != r.keys[i] {
			w.o.Violate("Entry(%d).Key() of an earlier handle (%s) is a different key object after %q", i, r.born, last)
		}
		if r.ann != "-" {
			wantExp = append(wantExp, fmt.Sprintf("export %d", e.KeyID()))
		}
	}
	w.capturing = false
	ok := len(w.capLog) == len(wantExp)
	for i := 0; ok && i < len(wantExp); i++ {
		pre := wantExp[i] + " @ ann=" + r.ann + " primary=" + r.primary + " "
		ok = strings.HasPrefix(w.capLog[i], pre)
	}
	if !ok {
		r.dead = true
		w.o.Violate("key exports of an earlier handle (%s) were logged as %q after %q, want %q with annotations %s", r.born, w.capLog, last, wantExp, r.ann)
	}
	w.o.Count("prim/checks")
}

// ---------- annotation operations ----------

type callerMap struct {
	m map[string]string
}

var annKeys = []string{"owner", "env", "ticket", "k0", "k1", ""}

func (w *world) freshAnn() map[string]string {
	n := 1 + w.rng.Intn(3)
	m := map[string]string{}
	for i := 0; i < n; i++ {
		v := fmt.Sprintf("v%d", w.rng.Intn(50))
		if w.rng.Chance(5) {
			v = ""
		}
		m[annKeys[w.rng.Intn(len(annKeys))]] = v
	}
	return m
}

// annStep: SetAnnotations on manager m.
func (w *world) annStep(m int) {
	km := w.mgrs[m]
	var mp map[string]string
	src := "fresh"
	caller := true
	switch r := w.rng.Intn(100); {
	case r < 10:
		mp, src = nil, "nil"
	case r < 20:
		mp, src = map[string]string{}, "empty"
	case r < 35 && len(w.cmaps) > 0:
		// the caller passes a map it used before (possibly mutated since)
		i := w.rng.Intn(len(w.cmaps))
		mp, src = w.cmaps[i].m, fmt.Sprintf("caller%d", i)
	case r < 50 && len(w.recs)+len(w.tmpRecs) > 0:
		// the caller passes the annotations it read from an earlier handle
		all := append(append([]*hrec{}, w.recs...), w.tmpRecs...)
		i := w.rng.Intn(len(all))
		mp, src = all[i].hd.Annotations(internalapi.Token{}), fmt.Sprintf("ofhandle%d", i)
		caller = false
	default:
		mp = w.freshAnn()
	}
	enc := encAnn(mp)
	if w.wantAnn[m] != "-" && enc != "-" {
		w.o.Count("ann/set_nonempty_over_nonempty")
		if len(w.recs) > 0 {
			w.o.Count("ann/set_nonempty_over_nonempty_with_older_handles")
		}
	}
	err := km.SetAnnotations(mp)
	if err == nil {
		w.wantAnn[m] = enc
	}
	if caller && mp != nil && !strings.HasPrefix(src, "caller") {
		src = fmt.Sprintf("%s:caller%d", src, len(w.cmaps))
		w.cmaps = append(w.cmaps, &callerMap{m: mp})
	}
	w.o.Count("setann/" + strings.TrimRight(strings.SplitN(src, ":", 2)[0], "0123456789"))
	w.o.Emit(fmt.Sprintf("M setann %d %s %s", m, enc, src), res0(err), true)
	w.curOp = w.o.LastOp
}

// annMutate changes a map the caller passed to SetAnnotations earlier: neither the managers nor
// any handle may see the change.
func (w *world) annMutate() {
	if len(w.cmaps) == 0 {
		return
	}
	i := w.rng.Intn(len(w.cmaps))
	mp := w.cmaps[i].m
	kind := "add"
	var ks []string
	for k := range mp {
		ks = append(ks, k)
	}
	sort.Strings(ks)
	switch r := w.rng.Intn(4); {
	case r == 0 && len(ks) > 0:
		kind = "set"
		mp[ks[w.rng.Intn(len(ks))]] = fmt.Sprintf("m%d", w.rng.Intn(1000))
	case r == 1 && len(ks) > 0:
		kind = "del"
		delete(mp, ks[w.rng.Intn(len(ks))])
	case r == 2 && len(ks) > 0:
		kind = "clear"
		clear(mp)
	default:
		mp[fmt.Sprintf("x%d", w.rng.Intn(1000))] = "added"
	}
	w.o.Count("annmut/" + kind)
	w.o.Emit(fmt.Sprintf("M annmut %d %s", i, kind), "ok", true)
	w.curOp = w.o.LastOp
}

// hann compares the annotations of the handle in slot h with the model's.
func (w *world) hann(h int) {
	hd := w.hands[h]
	if hd == nil {
		return
	}
	a := hd.Annotations(internalapi.Token{})
	w.o.Emit(fmt.Sprintf("M hann %d", h), encAnn(maps.Clone(a)), len(a) > 0)
}
