//go:build verif

package main

// Key material, the JWT key objects built from it, and — independently of the jwt package — the
// single-key RAW primitives (HMAC with full-size tag, ECDSA IEEE-P1363, RSA-SSA-PKCS1, RSA-SSA-PSS
// with salt = digest length, ML-DSA; all NO_PREFIX) that measure the signature bits sent to the model.

import (
	"crypto/ecdh"
	"encoding/base64"
	"encoding/binary"
	"fmt"
	"math/big"

	"github.com/tink-crypto/tink-go/v2/internal/internalapi"
	"github.com/tink-crypto/tink-go/v2/internal/verifharness/hlib"
	"github.com/tink-crypto/tink-go/v2/jwt/jwtecdsa"
	"github.com/tink-crypto/tink-go/v2/jwt/jwthmac"
	"github.com/tink-crypto/tink-go/v2/jwt/jwtmldsa"
	"github.com/tink-crypto/tink-go/v2/jwt/jwtrsassapkcs1"
	"github.com/tink-crypto/tink-go/v2/jwt/jwtrsassapss"
	"github.com/tink-crypto/tink-go/v2/key"
	"github.com/tink-crypto/tink-go/v2/keyset"
	"github.com/tink-crypto/tink-go/v2/signature/ecdsa"
	"github.com/tink-crypto/tink-go/v2/signature/mldsa"
	"github.com/tink-crypto/tink-go/v2/signature/rsassapkcs1"
	"github.com/tink-crypto/tink-go/v2/signature/rsassapss"
	"github.com/tink-crypto/tink-go/v2/tink"
)

const (
	stratTink = iota
	stratCustom
	stratIgnored
)

var stratName = []string{"TINK", "CUSTOM", "IGNORED"}

// algorithms by family; the names are the JWS "alg" values written out here, not taken from the library
var famAlgs = map[string][]string{
	"HS": {"HS256", "HS384", "HS512"},
	"ES": {"ES256", "ES384", "ES512"},
	"RS": {"RS256", "RS384", "RS512"},
	"PS": {"PS256", "PS384", "PS512"},
	"ML": {"ML-DSA-44", "ML-DSA-65", "ML-DSA-87"},
}

func famOf(alg string) string { return alg[:2] }

func algIndex(alg string) int {
	for i, a := range famAlgs[famOf(alg)] {
		if a == alg {
			return i
		}
	}
	panic("unknown alg " + alg)
}

var digestLen = []int{32, 48, 64}
var hashName = []string{"SHA256", "SHA384", "SHA512"}

type rsaMat struct {
	bits       int // bit length of the modulus (2048, or a size that is not a multiple of 8: see rsasizes.go)
	n, p, q, d []byte
}

// mat is one piece of key material with its raw primitives.
type mat struct {
	serial int // identity (twins share it)
	alg    string
	hmac   []byte
	ecPriv []byte
	ecPub  []byte
	rsa    *rsaMat
	mlSeed []byte
	mlPub  []byte

	mac      tink.MAC
	signer   tink.Signer
	verifier tink.Verifier
}

func (m *mat) sign(data []byte) []byte {
	var out []byte
	var err error
	if m.mac != nil {
		out, err = m.mac.ComputeMAC(data)
	} else {
		out, err = m.signer.Sign(data)
	}
	if err != nil {
		panic(fmt.Sprintf("c09: raw %s signing failed: %v", m.alg, err))
	}
	return out
}

func (m *mat) verify(sig, data []byte) bool {
	if m.mac != nil {
		return m.mac.VerifyMAC(sig, data) == nil
	}
	return m.verifier.Verify(sig, data) == nil
}

// jkey is one keyset entry.
type jkey struct {
	m       *mat
	strat   int
	id      uint32
	custom  string
	status  keyset.KeyStatus
	primary bool
	priv    key.Key // MAC key or private key
	pub     key.Key // nil for MAC keys
}

func kidOfID(id uint32) string {
	var b [4]byte
	binary.BigEndian.PutUint32(b[:], id)
	return base64.RawURLEncoding.EncodeToString(b[:])
}

// tinkKid / customKid: what the model is told about the key (DESIGN: J key line).
func (k *jkey) tinkKid() *string {
	if k.strat == stratTink {
		s := kidOfID(k.id)
		return &s
	}
	return nil
}

func (k *jkey) customKid() *string {
	if k.strat == stratCustom {
		s := k.custom
		return &s
	}
	return nil
}

// headerKid: the kid a well-formed header for this key carries (nil: none).
func (k *jkey) headerKid() *string {
	if t := k.tinkKid(); t != nil {
		return t
	}
	return k.customKid()
}

// ---------- material ----------

type pool struct {
	rng    *hlib.Rng
	serial int
	rsa    []*rsaMat
	nStd   int             // the first nStd moduli are the 2048-bit ones
	rsaRaw map[string]*mat // "<rsa index>/<alg>" → raw primitives (construction self-tests are slow)
}

// newPool: nRSA 2048-bit moduli made by this file's own generator, then one modulus per entry of
// extraBits made by crypto/rsa.GenerateKey reading the tape (sizes that are not a multiple of 8 bits,
// 3072 in the thorough tier).
func newPool(rng *hlib.Rng, nRSA int, extraBits []int) *pool {
	p := &pool{rng: rng, rsaRaw: map[string]*mat{}}
	for i := 0; i < nRSA; i++ {
		p.rsa = append(p.rsa, genRSA(rng, 2048))
	}
	p.nStd = nRSA
	for _, bits := range extraBits {
		p.rsa = append(p.rsa, stdlibRSA(bits))
	}
	return p
}

func genPrime(rng *hlib.Rng, bits int) *big.Int {
	for {
		b := rng.Bytes(bits / 8)
		b[0] |= 0xC0
		b[len(b)-1] |= 1
		c := new(big.Int).SetBytes(b)
		if c.ProbablyPrime(20) {
			return c
		}
	}
}

func genRSA(rng *hlib.Rng, bits int) *rsaMat {
	e := big.NewInt(65537)
	one := big.NewInt(1)
	for {
		p, q := genPrime(rng, bits/2), genPrime(rng, bits/2)
		if p.Cmp(q) == 0 {
			continue
		}
		n := new(big.Int).Mul(p, q)
		if n.BitLen() != bits {
			continue
		}
		phi := new(big.Int).Mul(new(big.Int).Sub(p, one), new(big.Int).Sub(q, one))
		d := new(big.Int).ModInverse(e, phi)
		if d == nil {
			continue
		}
		return &rsaMat{bits: bits, n: n.Bytes(), p: p.Bytes(), q: q.Bytes(), d: d.Bytes()}
	}
}

func must[T any](v T, err error) T {
	if err != nil {
		panic(fmt.Sprintf("c09: setup failed: %v", err))
	}
	return v
}

var ecCurves = []ecdh.Curve{ecdh.P256(), ecdh.P384(), ecdh.P521()}
var ecCurveTypes = []ecdsa.CurveType{ecdsa.NistP256, ecdsa.NistP384, ecdsa.NistP521}
var ecHashes = []ecdsa.HashType{ecdsa.SHA256, ecdsa.SHA384, ecdsa.SHA512}
var ecScalarLen = []int{32, 48, 66}
var pkcs1Hashes = []rsassapkcs1.HashType{rsassapkcs1.SHA256, rsassapkcs1.SHA384, rsassapkcs1.SHA512}
var pssHashes = []rsassapss.HashType{rsassapss.SHA256, rsassapss.SHA384, rsassapss.SHA512}
var mlInstances = []mldsa.Instance{mldsa.MLDSA44, mldsa.MLDSA65, mldsa.MLDSA87}

// newMat draws fresh material for alg and builds the raw primitives.
func (p *pool) newMat(alg string) *mat {
	ai := algIndex(alg)
	p.serial++
	m := &mat{serial: p.serial, alg: alg}
	switch famOf(alg) {
	case "HS":
		// minimum key size = digest size; sometimes longer than the block size
		n := digestLen[ai] + p.rng.Pick(0, 0, 1, 16, 100)
		m.hmac = p.rng.Bytes(n)
		m.mac = must(hlib.SubtleHMAC(hashName[ai], m.hmac, digestLen[ai]))
	case "ES":
		for {
			b := p.rng.Bytes(ecScalarLen[ai])
			if ai == 2 {
				b[0] &= 1
			}
			priv, err := ecCurves[ai].NewPrivateKey(b)
			if err != nil {
				continue
			}
			m.ecPriv, m.ecPub = b, priv.PublicKey().Bytes()
			break
		}
		params := must(ecdsa.NewParameters(ecCurveTypes[ai], ecHashes[ai], ecdsa.IEEEP1363, ecdsa.VariantNoPrefix))
		pub := must(ecdsa.NewPublicKey(m.ecPub, 0, params))
		priv := must(ecdsa.NewPrivateKeyFromPublicKey(pub, hlib.Secret(m.ecPriv)))
		m.signer = must(ecdsa.NewSigner(priv, internalapi.Token{}))
		m.verifier = must(ecdsa.NewVerifier(pub, internalapi.Token{}))
	case "RS", "PS":
		ri := p.rng.Intn(p.nStd)
		if len(p.rsa) > p.nStd && p.rng.Chance(40) {
			ri = p.nStd + p.rng.Intn(len(p.rsa)-p.nStd) // a modulus of unusual size
		}
		return p.rsaMatFor(ri, alg)
	case "ML":
		m.mlSeed = p.rng.Bytes(32)
		params := must(mldsa.NewParameters(mlInstances[ai], mldsa.VariantNoPrefix))
		priv := must(mldsa.NewPrivateKey(hlib.Secret(m.mlSeed), 0, params))
		pub := must(priv.PublicKey()).(*mldsa.PublicKey)
		m.mlPub = pub.KeyBytes()
		m.signer = must(mldsa.NewSigner(priv, internalapi.Token{}))
		m.verifier = must(mldsa.NewVerifier(pub, internalapi.Token{}))
	}
	return m
}

// rsaMatFor: the raw primitives for modulus ri of the pool under alg (RS* / PS*).
func (p *pool) rsaMatFor(ri int, alg string) *mat {
	ai := algIndex(alg)
	ck := fmt.Sprintf("%d/%s", ri, alg)
	if c, ok := p.rsaRaw[ck]; ok {
		return c // same modulus + same algorithm = the same material (serial kept)
	}
	p.serial++
	m := &mat{serial: p.serial, alg: alg, rsa: p.rsa[ri]}
	p.rsaRaw[ck] = m
	m.buildRSARaw(ai)
	return m
}

func (m *mat) buildRSARaw(ai int) {
	bits := m.rsa.bits
	if famOf(m.alg) == "RS" {
		params := must(rsassapkcs1.NewParameters(bits, pkcs1Hashes[ai], 65537, rsassapkcs1.VariantNoPrefix))
		pub := must(rsassapkcs1.NewPublicKey(m.rsa.n, 0, params))
		priv := must(rsassapkcs1.NewPrivateKey(pub, rsassapkcs1.PrivateKeyValues{P: hlib.Secret(m.rsa.p), Q: hlib.Secret(m.rsa.q), D: hlib.Secret(m.rsa.d)}))
		m.signer = must(rsassapkcs1.NewSigner(priv, internalapi.Token{}))
		m.verifier = must(rsassapkcs1.NewVerifier(pub, internalapi.Token{}))
	} else {
		params := must(rsassapss.NewParameters(rsassapss.ParametersValues{ModulusSizeBits: bits, SigHashType: pssHashes[ai],
			MGF1HashType: pssHashes[ai], PublicExponent: 65537, SaltLengthBytes: digestLen[ai]}, rsassapss.VariantNoPrefix))
		pub := must(rsassapss.NewPublicKey(m.rsa.n, 0, params))
		priv := must(rsassapss.NewPrivateKey(pub, rsassapss.PrivateKeyValues{P: hlib.Secret(m.rsa.p), Q: hlib.Secret(m.rsa.q), D: hlib.Secret(m.rsa.d)}))
		m.signer = must(rsassapss.NewSigner(priv, internalapi.Token{}))
		m.verifier = must(rsassapss.NewVerifier(pub, internalapi.Token{}))
	}
}

// ---------- JWT keys ----------

// build creates the jwt key objects for k (material, strategy, id, custom kid already set).
func (k *jkey) build() error {
	ai := algIndex(k.m.alg)
	idReq := uint32(0)
	if k.strat == stratTink {
		idReq = k.id
	}
	hasCustom := k.strat == stratCustom
	switch famOf(k.m.alg) {
	case "HS":
		st := []jwthmac.KIDStrategy{jwthmac.Base64EncodedKeyIDAsKID, jwthmac.CustomKID, jwthmac.IgnoredKID}[k.strat]
		alg := []jwthmac.Algorithm{jwthmac.HS256, jwthmac.HS384, jwthmac.HS512}[ai]
		params, err := jwthmac.NewParameters(len(k.m.hmac), st, alg)
		if err != nil {
			return err
		}
		kk, err := jwthmac.NewKey(jwthmac.KeyOpts{KeyBytes: hlib.Secret(k.m.hmac), IDRequirement: idReq, CustomKID: k.custom, HasCustomKID: hasCustom, Parameters: params})
		if err != nil {
			return err
		}
		k.priv = kk
	case "ES":
		st := []jwtecdsa.KIDStrategy{jwtecdsa.Base64EncodedKeyIDAsKID, jwtecdsa.CustomKID, jwtecdsa.IgnoredKID}[k.strat]
		alg := []jwtecdsa.Algorithm{jwtecdsa.ES256, jwtecdsa.ES384, jwtecdsa.ES512}[ai]
		params, err := jwtecdsa.NewParameters(st, alg)
		if err != nil {
			return err
		}
		pub, err := jwtecdsa.NewPublicKey(jwtecdsa.PublicKeyOpts{PublicPoint: k.m.ecPub, IDRequirement: idReq, CustomKID: k.custom, HasCustomKID: hasCustom, Parameters: params})
		if err != nil {
			return err
		}
		priv, err := jwtecdsa.NewPrivateKeyFromPublicKey(hlib.Secret(k.m.ecPriv), pub)
		if err != nil {
			return err
		}
		k.priv, k.pub = priv, pub
	case "RS":
		st := []jwtrsassapkcs1.KIDStrategy{jwtrsassapkcs1.Base64EncodedKeyIDAsKID, jwtrsassapkcs1.CustomKID, jwtrsassapkcs1.IgnoredKID}[k.strat]
		alg := []jwtrsassapkcs1.Algorithm{jwtrsassapkcs1.RS256, jwtrsassapkcs1.RS384, jwtrsassapkcs1.RS512}[ai]
		params, err := jwtrsassapkcs1.NewParameters(jwtrsassapkcs1.ParametersOpts{ModulusSizeInBits: k.m.rsa.bits, PublicExponent: 65537, Algorithm: alg, KidStrategy: st})
		if err != nil {
			return err
		}
		pub, err := jwtrsassapkcs1.NewPublicKey(jwtrsassapkcs1.PublicKeyOpts{Modulus: k.m.rsa.n, IDRequirement: idReq, CustomKID: k.custom, HasCustomKID: hasCustom, Parameters: params})
		if err != nil {
			return err
		}
		priv, err := jwtrsassapkcs1.NewPrivateKey(jwtrsassapkcs1.PrivateKeyOpts{PublicKey: pub, D: hlib.Secret(k.m.rsa.d), P: hlib.Secret(k.m.rsa.p), Q: hlib.Secret(k.m.rsa.q)})
		if err != nil {
			return err
		}
		k.priv, k.pub = priv, pub
	case "PS":
		st := []jwtrsassapss.KIDStrategy{jwtrsassapss.Base64EncodedKeyIDAsKID, jwtrsassapss.CustomKID, jwtrsassapss.IgnoredKID}[k.strat]
		alg := []jwtrsassapss.Algorithm{jwtrsassapss.PS256, jwtrsassapss.PS384, jwtrsassapss.PS512}[ai]
		params, err := jwtrsassapss.NewParameters(jwtrsassapss.ParametersOpts{ModulusSizeInBits: k.m.rsa.bits, PublicExponent: 65537, Algorithm: alg, KidStrategy: st})
		if err != nil {
			return err
		}
		pub, err := jwtrsassapss.NewPublicKey(jwtrsassapss.PublicKeyOpts{Modulus: k.m.rsa.n, IDRequirement: idReq, CustomKID: k.custom, HasCustomKID: hasCustom, Parameters: params})
		if err != nil {
			return err
		}
		priv, err := jwtrsassapss.NewPrivateKey(jwtrsassapss.PrivateKeyOpts{PublicKey: pub, D: hlib.Secret(k.m.rsa.d), P: hlib.Secret(k.m.rsa.p), Q: hlib.Secret(k.m.rsa.q)})
		if err != nil {
			return err
		}
		k.priv, k.pub = priv, pub
	case "ML":
		st := []jwtmldsa.KIDStrategy{jwtmldsa.Base64EncodedKeyIDAsKID, jwtmldsa.CustomKID, jwtmldsa.IgnoredKID}[k.strat]
		alg := []jwtmldsa.Algorithm{jwtmldsa.MLDSA44, jwtmldsa.MLDSA65, jwtmldsa.MLDSA87}[ai]
		params, err := jwtmldsa.NewParameters(st, alg)
		if err != nil {
			return err
		}
		pub, err := jwtmldsa.NewPublicKey(jwtmldsa.PublicKeyOpts{KeyBytes: k.m.mlPub, IDRequirement: idReq, CustomKID: k.custom, HasCustomKID: hasCustom, Parameters: params})
		if err != nil {
			return err
		}
		priv, err := jwtmldsa.NewPrivateKeyFromPublicKey(hlib.Secret(k.m.mlSeed), pub)
		if err != nil {
			return err
		}
		k.priv, k.pub = priv, pub
	}
	return nil
}

// handle builds an annotated keyset handle (annotations switch monitoring on) from the entries'
// private/MAC keys (public=false) or public keys.
func handleFor(keys []*jkey, public bool) (*keyset.Handle, error) {
	km := keyset.NewManager()
	for _, k := range keys {
		kk := k.priv
		if public {
			kk = k.pub
		}
		opts := []keyset.KeyOpts{keyset.WithFixedID(k.id), keyset.WithStatus(k.status)}
		if k.primary {
			opts = append(opts, keyset.AsPrimary())
		}
		if _, err := km.AddKeyWithOpts(kk, internalapi.Token{}, opts...); err != nil {
			return nil, err
		}
	}
	if err := km.SetAnnotations(map[string]string{"verif": "c09"}); err != nil {
		return nil, err
	}
	return km.Handle()
}
