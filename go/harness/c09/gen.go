//go:build verif

package main

// Token crafting: header/payload JSON text written by hand, signed with the RAW primitive of a
// chosen key so that any header, payload or structure can carry a VALID signature.

import (
	"bytes"
	"encoding/base64"
	"encoding/json"
	"fmt"
	"strings"

	"github.com/tink-crypto/tink-go/v2/internal/verifharness/hlib"
)

type field struct {
	k string
	v string // JSON text of the value
}

// jstr renders a JSON string literal; now and then characters are written as \uXXXX escapes.
func jstr(rng *hlib.Rng, s string) string {
	var buf bytes.Buffer
	enc := json.NewEncoder(&buf)
	enc.SetEscapeHTML(false)
	if err := enc.Encode(s); err != nil {
		panic(err)
	}
	out := strings.TrimSuffix(buf.String(), "\n")
	if rng != nil && len(s) > 0 && rng.Chance(8) {
		// escape the first character explicitly (BMP only; others stay literal)
		r := []rune(s)
		if r[0] < 0x10000 && r[0] != '"' && r[0] != '\\' && r[0] >= 0x20 {
			rest := jstr(nil, string(r[1:]))
			out = fmt.Sprintf("\"\\u%04x%s", r[0], rest[1:])
		}
	}
	return out
}

// render writes the fields as a JSON object in the given order with optional whitespace.
func render(rng *hlib.Rng, fs []field) string {
	sp := func() string {
		if rng.Chance(6) {
			return []string{" ", "\n", "\t", "\r\n", "  "}[rng.Intn(5)]
		}
		return ""
	}
	var sb strings.Builder
	sb.WriteString(sp() + "{" + sp())
	for i, f := range fs {
		if i > 0 {
			sb.WriteString("," + sp())
		}
		sb.WriteString(jstr(rng, f.k) + sp() + ":" + sp() + f.v)
	}
	sb.WriteString(sp() + "}" + sp())
	return sb.String()
}

func shuffle(rng *hlib.Rng, fs []field) []field {
	for i := len(fs) - 1; i > 0; i-- {
		j := rng.Intn(i + 1)
		fs[i], fs[j] = fs[j], fs[i]
	}
	return fs
}

func setField(fs []field, k, v string) []field {
	for i := range fs {
		if fs[i].k == k {
			fs[i].v = v
			return fs
		}
	}
	return append(fs, field{k, v})
}

func dropField(fs []field, k string) []field {
	out := fs[:0:0]
	for _, f := range fs {
		if f.k != k {
			out = append(out, f)
		}
	}
	return out
}

func hasField(fs []field, k string) bool {
	for _, f := range fs {
		if f.k == k {
			return true
		}
	}
	return false
}

var strPool = []string{"", "a", "issuer", "https://issuer.example/", "joe", "JWT", "jwt", "at+jwt", "aud-1", "aud-2", "client", "é", "日本語", "x y", "q\"uote", "back\\slash", "line\nfeed", "😀", "null", "0", "true"}

func pickStr(rng *hlib.Rng) string { return strPool[rng.Intn(len(strPool))] }

// nonStringJSON: a JSON value of any kind but string.
func nonStringJSON(rng *hlib.Rng) (string, string) {
	switch rng.Intn(6) {
	case 0:
		return "123", "number"
	case 1:
		return "null", "null"
	case 2:
		return "true", "bool"
	case 3:
		return "[\"x\"]", "array"
	case 4:
		return "{\"x\":\"y\"}", "object"
	}
	return "[]", "empty-array"
}

// anyJSON: a JSON value of every kind, only exactly representable numbers.
func anyJSON(rng *hlib.Rng, depth int) (string, string) {
	switch rng.Intn(9) {
	case 0:
		return jstr(rng, pickStr(rng)), "string"
	case 1:
		return []string{"0", "1", "-1", "42", "9007199254740991", "-9007199254740991", "4294967296"}[rng.Intn(7)], "int"
	case 2:
		return []string{"0.5", "-0.5", "12.5", "1e3", "1E+2", "2.5e1", "1e30", "-1e30", "125e-1", "-0", "0.0", "1.0"}[rng.Intn(12)], "number-form"
	case 3:
		return []string{"true", "false"}[rng.Intn(2)], "bool"
	case 4:
		return "null", "null"
	case 5:
		if depth > 1 {
			return "[]", "array"
		}
		n := rng.Intn(4)
		items := make([]string, n)
		for i := range items {
			items[i], _ = anyJSON(rng, depth+1)
		}
		return "[" + strings.Join(items, ",") + "]", "array"
	case 6:
		if depth > 1 {
			return "{}", "object"
		}
		n := rng.Intn(3)
		var fs []field
		for i := 0; i < n; i++ {
			v, _ := anyJSON(rng, depth+1)
			fs = append(fs, field{fmt.Sprintf("k%d", i), v})
		}
		if rng.Chance(30) {
			// nested registered names mean nothing
			fs = append(fs, field{"exp", "1"})
		}
		return render(rng, fs), "object"
	case 7:
		return "[" + jstr(rng, pickStr(rng)) + "," + jstr(rng, pickStr(rng)) + "]", "string-array"
	}
	return "{}", "empty-object"
}

var customNames = []string{"role", "n", "flag", "nil", "list", "obj", "é", "", "ISS", "Exp", "http://example.com/claim", "typ", "alg", "kid", "crit", "aud2", "scope", "nonce"}

// tokenTimes are the second-valued instants a case works around.
type caseTimes struct{ t0 int64 }

func b64(s string) string { return base64.RawURLEncoding.EncodeToString([]byte(s)) }

// ---------- header ----------

// goodHeader is what a conforming producer writes for key k.
func goodHeader(rng *hlib.Rng, k *jkey, typ *string) []field {
	fs := []field{{"alg", jstr(nil, k.m.alg)}}
	if kid := k.headerKid(); kid != nil {
		if k.strat == stratTink || rng.Chance(75) { // a custom kid may be left out
			fs = append(fs, field{"kid", jstr(rng, *kid)})
		}
	}
	if typ != nil {
		fs = append(fs, field{"typ", jstr(rng, *typ)})
	}
	return fs
}

var headerManips = []string{
	"alg-none", "alg-other-hash", "alg-other-family", "alg-missing", "alg-nonstring", "alg-case", "alg-empty",
	"kid-missing", "kid-wrong", "kid-other-key", "kid-nonstring", "kid-added", "kid-empty", "kid-case-flip", "kid-unicode-fold",
	"crit-array", "crit-null", "crit-string", "crit-empty-array",
	"typ-nonstring", "extra-fields", "extra-jwk", "header-empty-object", "header-not-object", "header-invalid-json", "header-trailing-data",
}

// manipHeader applies one named manipulation; all keys of the keyset are available for cross-references.
func manipHeader(rng *hlib.Rng, kind string, fs []field, k *jkey, all []*jkey) (fields []field, rawText *string) {
	raw := func(s string) ([]field, *string) { return nil, &s }
	fam := famOf(k.m.alg)
	switch kind {
	case "alg-none":
		fs = setField(fs, "alg", []string{"\"none\"", "\"None\"", "\"NONE\""}[rng.Intn(3)])
	case "alg-other-hash":
		algs := famAlgs[fam]
		fs = setField(fs, "alg", jstr(nil, algs[(algIndex(k.m.alg)+1+rng.Intn(2))%3]))
	case "alg-other-family":
		fams := []string{"HS", "ES", "RS", "PS", "ML"}
		f := fams[rng.Intn(len(fams))]
		for f == fam {
			f = fams[rng.Intn(len(fams))]
		}
		fs = setField(fs, "alg", jstr(nil, famAlgs[f][algIndex(k.m.alg)]))
	case "alg-missing":
		fs = dropField(fs, "alg")
	case "alg-nonstring":
		v, _ := nonStringJSON(rng)
		fs = setField(fs, "alg", v)
	case "alg-case":
		fs = setField(fs, "alg", jstr(nil, strings.ToLower(k.m.alg)))
	case "alg-empty":
		fs = setField(fs, "alg", []string{"\"\"", jstr(nil, k.m.alg+" "), jstr(nil, " "+k.m.alg)}[rng.Intn(3)])
	case "kid-missing":
		fs = dropField(fs, "kid")
	case "kid-wrong":
		w := []string{"wrong", "AAAAAA", kidOfID(k.id + 1), kidOfID(k.id) + "=", strings.ToLower(kidOfID(k.id)), k.custom + "x"}
		fs = setField(fs, "kid", jstr(nil, w[rng.Intn(len(w))]))
	case "kid-other-key":
		o := all[rng.Intn(len(all))]
		kid := kidOfID(o.id)
		if hk := o.headerKid(); hk != nil && rng.Chance(70) {
			kid = *hk
		}
		fs = setField(fs, "kid", jstr(nil, kid))
	case "kid-nonstring":
		v, _ := nonStringJSON(rng)
		fs = setField(fs, "kid", v)
	case "kid-added":
		// a kid although the key has none / although it was left out
		fs = setField(fs, "kid", jstr(rng, pickStr(rng)))
	case "kid-empty":
		fs = setField(fs, "kid", "\"\"")
	case "kid-case-flip", "kid-unicode-fold":
		// the key's kid (the one its id gives, for keys without one) with the case of some letters flipped /
		// with a letter replaced by another member of its Unicode case-folding orbit (kidtwins.go)
		base := kidOfID(k.id)
		if hk := k.headerKid(); hk != nil {
			base = *hk
		}
		v, ok := base, false
		if kind == "kid-unicode-fold" {
			v, ok = foldVariant(rng, base)
		}
		if !ok {
			v, ok = flipCase(rng, base, len(base))
		}
		if !ok {
			v = base + "K"
		}
		fs = setField(fs, "kid", jstr(rng, v))
	case "crit-array":
		fs = setField(fs, "crit", "[\"exp\"]")
	case "crit-null":
		fs = setField(fs, "crit", "null")
	case "crit-string":
		fs = setField(fs, "crit", "\"exp\"")
	case "crit-empty-array":
		fs = setField(fs, "crit", "[]")
	case "typ-nonstring":
		v, _ := nonStringJSON(rng)
		fs = setField(fs, "typ", v)
	case "extra-fields":
		n := 1 + rng.Intn(3)
		names := []string{"cty", "x", "foo", "exp", "iss", "b64", "zip", "Alg", "ALG", "KID", "Crit", "Typ"}
		for i := 0; i < n; i++ {
			v, _ := anyJSON(rng, 0)
			fs = setField(fs, names[rng.Intn(len(names))], v)
		}
	case "extra-jwk":
		fs = setField(fs, "jwk", "{\"kty\":\"oct\",\"k\":\"AAAA\"}")
		fs = setField(fs, "jku", "\"https://attacker.example/keys\"")
		fs = setField(fs, "x5c", "[\"MIIB\"]")
	case "header-empty-object":
		return raw([]string{"{}", " { } "}[rng.Intn(2)])
	case "header-not-object":
		return raw([]string{"[]", "\"HS256\"", "1", "null", "true", "[{\"alg\":" + jstr(nil, k.m.alg) + "}]"}[rng.Intn(6)])
	case "header-invalid-json":
		good := render(rng, fs)
		return raw([]string{"", "{", good[:len(good)/2], "{\"alg\":}", "{'alg':'HS256'}", "{\"alg\":\"" + k.m.alg + "\",}", "{\"alg\" \"" + k.m.alg + "\"}"}[rng.Intn(7)])
	case "header-trailing-data":
		good := render(rng, fs)
		return raw(good + []string{"x", "{}", ",", "]", "null"}[rng.Intn(5)])
	default:
		panic("unknown header manipulation " + kind)
	}
	return fs, nil
}

// ---------- payload ----------

type payloadPlan struct {
	fs   []field
	exp  int64 // the intended values, for the boundary grid (0 = none)
	kind []string
}

// goodPayload: any subset of the registered claims, custom claims of every JSON kind.
func goodPayload(rng *hlib.Rng, t0 int64) ([]field, []string) {
	var fs []field
	var tags []string
	if rng.Chance(55) {
		fs = append(fs, field{"iss", jstr(rng, pickStr(rng))})
	}
	if rng.Chance(35) {
		fs = append(fs, field{"sub", jstr(rng, pickStr(rng))})
	}
	switch rng.Intn(5) {
	case 0, 1:
		fs = append(fs, field{"aud", jstr(rng, pickStr(rng))})
		tags = append(tags, "aud-string")
	case 2:
		n := 1 + rng.Intn(3)
		items := make([]string, n)
		for i := range items {
			items[i] = jstr(rng, pickStr(rng))
		}
		fs = append(fs, field{"aud", "[" + strings.Join(items, ",") + "]"})
		tags = append(tags, fmt.Sprintf("aud-list-%d", n))
	}
	if rng.Chance(35) {
		fs = append(fs, field{"jti", jstr(rng, pickStr(rng))})
	}
	num := func(v int64) string {
		switch rng.Intn(12) {
		case 0:
			return fmt.Sprintf("%d.5", v) // fractional: truncated by the library
		case 1:
			return fmt.Sprintf("%d.0", v)
		case 2:
			return fmt.Sprintf("%de0", v)
		case 3:
			if v%10 == 0 {
				return fmt.Sprintf("%de1", v/10)
			}
		}
		return fmt.Sprint(v)
	}
	if rng.Chance(80) {
		fs = append(fs, field{"exp", num(t0 + int64(rng.Pick(3600, 3600, 7200, 1, 0, 2)))})
	}
	var nbf int64
	if rng.Chance(50) {
		nbf = t0 - int64(rng.Pick(3600, 3600, 0, 1, 7200))
		fs = append(fs, field{"nbf", num(nbf)})
	}
	if rng.Chance(50) {
		iat := t0 - int64(rng.Pick(3600, 1800, 0, 7200, 3601))
		if nbf != 0 && rng.Chance(50) {
			iat = nbf - int64(rng.Pick(0, 1, 60))
		}
		fs = append(fs, field{"iat", num(iat)})
	}
	nc := rng.Pick(0, 0, 1, 1, 2, 3)
	for i := 0; i < nc; i++ {
		name := customNames[rng.Intn(len(customNames))]
		if hasField(fs, name) {
			continue
		}
		v, kind := anyJSON(rng, 0)
		fs = append(fs, field{name, v})
		tags = append(tags, "custom-"+kind)
	}
	return shuffle(rng, fs), tags
}

var payloadManips = []string{
	"time-string", "time-negative", "time-max", "time-max+1", "time-1e30", "time-neg-fraction", "time-zero", "time-null", "time-bool", "time-array",
	"time-int64-edge", "time-max-fraction",
	"str-nonstring", "aud-empty-list", "aud-nonstring-item", "aud-number", "aud-null", "aud-object", "aud-nested-list", "aud-bool",
	"payload-empty-object", "payload-not-object", "payload-invalid-json", "payload-trailing-data", "payload-empty-text",
}

func manipPayload(rng *hlib.Rng, kind string, fs []field, t0 int64) (fields []field, rawText *string) {
	raw := func(s string) ([]field, *string) { return nil, &s }
	tc := []string{"exp", "nbf", "iat"}[rng.Intn(3)]
	switch kind {
	case "time-string":
		fs = setField(fs, tc, fmt.Sprintf("\"%d\"", t0+3600))
	case "time-negative":
		fs = setField(fs, tc, []string{"-1", "-1.5", "-1e3", "-253402300800"}[rng.Intn(4)])
	case "time-max":
		fs = setField(fs, tc, "253402300799")
	case "time-max+1":
		fs = setField(fs, tc, "253402300800")
	case "time-1e30":
		fs = setField(fs, tc, []string{"1e30", "-1e30", "1e19", "1e18", "9223372036854775808", "-9223372036854775808"}[rng.Intn(6)])
	case "time-neg-fraction":
		fs = setField(fs, tc, []string{"-0.5", "-0", "0.5", "-0.0"}[rng.Intn(4)]) // all truncate to 0
	case "time-zero":
		fs = setField(fs, tc, []string{"0", "1", "2"}[rng.Intn(3)])
	case "time-null":
		fs = setField(fs, tc, "null")
	case "time-bool":
		fs = setField(fs, tc, "true")
	case "time-array":
		fs = setField(fs, tc, []string{"[1]", "{}", "[]"}[rng.Intn(3)])
	case "time-int64-edge":
		fs = setField(fs, tc, []string{"9007199254740992", "253402300799.5", "253402300800.5", "2534023007995e-1"}[rng.Intn(4)])
	case "time-max-fraction":
		fs = setField(fs, tc, []string{"253402300799.5", "2534023008e2", "25340230079e1"}[rng.Intn(3)])
	case "str-nonstring":
		v, _ := nonStringJSON(rng)
		fs = setField(fs, []string{"iss", "sub", "jti"}[rng.Intn(3)], v)
	case "aud-empty-list":
		fs = setField(fs, "aud", "[]")
	case "aud-nonstring-item":
		v, _ := nonStringJSON(rng)
		items := []string{jstr(nil, pickStr(rng)), v}
		if rng.Bool() {
			items[0], items[1] = items[1], items[0]
		}
		fs = setField(fs, "aud", "["+strings.Join(items, ",")+"]")
	case "aud-number":
		fs = setField(fs, "aud", "7")
	case "aud-null":
		fs = setField(fs, "aud", "null")
	case "aud-object":
		fs = setField(fs, "aud", "{\"a\":\"b\"}")
	case "aud-nested-list":
		fs = setField(fs, "aud", "[[\"a\"]]")
	case "aud-bool":
		fs = setField(fs, "aud", "false")
	case "payload-empty-object":
		return raw([]string{"{}", " {\n} "}[rng.Intn(2)])
	case "payload-not-object":
		return raw([]string{"[]", "\"payload\"", "1", "null", "true", "[{\"iss\":\"a\"}]"}[rng.Intn(6)])
	case "payload-invalid-json":
		good := render(rng, fs)
		return raw([]string{"{", good[:len(good)/2], "{\"iss\":}", "{\"exp\":01}", "{\"exp\":+1}", "{\"exp\":1.}", "{\"exp\":.5}", "{\"iss\":\"a\",}", "{\"exp\":NaN}", "{\"exp\":Infinity}", "{\"exp\":0x10}"}[rng.Intn(11)])
	case "payload-trailing-data":
		good := render(rng, fs)
		return raw(good + []string{"x", "{}", ",", "}", "1"}[rng.Intn(5)])
	case "payload-empty-text":
		return raw([]string{"", " ", "\n"}[rng.Intn(3)])
	default:
		panic("unknown payload manipulation " + kind)
	}
	return fs, nil
}

// ---------- compact structure ----------

var structManips = []string{
	"dots-0", "dots-1-nosig", "dots-1-joined", "dots-3", "dots-3-empty", "dots-4", "empty-header", "empty-payload", "empty-unsigned", "empty-sig", "only-dots", "empty",
	"pad-header", "pad-payload", "pad-sig", "std-header", "std-payload", "std-sig",
	"ws-leading", "ws-trailing", "ws-in-header", "ws-in-payload", "ws-at-dot", "ws-in-sig",
	"sig-len1mod4", "sig-trailing-bits", "header-trailing-bits", "payload-trailing-bits", "nonascii-header", "nonascii-sig",
	"sig-flip", "sig-truncate", "sig-extend", "sig-random", "sig-other-msg", "sig-one-byte", "sig-reencoded",
}

const b64url = "ABCDEFGHIJKLMNOPQRSTUVWXYZabcdefghijklmnopqrstuvwxyz0123456789-_"

// trailingBits changes the unused low bits of the last character of an unpadded base64 string
// (possible when len%4 is 2 or 3); the decoded bytes stay the same.
func trailingBits(rng *hlib.Rng, s string) (string, bool) {
	if len(s) == 0 {
		return s, false
	}
	free := 0
	switch len(s) % 4 {
	case 2:
		free = 4
	case 3:
		free = 2
	default:
		return s, false
	}
	i := strings.IndexByte(b64url, s[len(s)-1])
	if i < 0 {
		return s, false
	}
	j := i&^(1<<free-1) | (1 + rng.Intn(1<<free-1))
	if j == i {
		j = i ^ 1
	}
	return s[:len(s)-1] + string(b64url[j]), true
}

func toStd(s string) (string, bool) {
	r := strings.NewReplacer("-", "+", "_", "/").Replace(s)
	return r, r != s
}

func padded(s string) (string, bool) {
	switch len(s) % 4 {
	case 2:
		return s + "==", true
	case 3:
		return s + "=", true
	}
	return s, false
}

// assemble builds the compact token from header/payload text, applying a structure manipulation
// (kind "" = none). sign must produce a valid raw signature over the given unsigned string.
// applied=false: the manipulation was not applicable to these strings (a plain token results).
func assemble(rng *hlib.Rng, kind, htext, ptext string, sign func(string) []byte) (compact string, applied bool) {
	h, p := b64(htext), b64(ptext)
	enc := base64.RawURLEncoding.EncodeToString
	plain := func() string { u := h + "." + p; return u + "." + enc(sign(u)) }
	applied = true
	switch kind {
	case "":
		return plain(), true
	case "dots-0":
		u := h + "." + p
		return h + p + enc(sign(u)), true
	case "dots-1-nosig":
		return h + "." + p, true
	case "dots-1-joined":
		u := h + p
		return u + "." + enc(sign(u)), true
	case "dots-3":
		u := h + "." + p + "." + []string{"AA", p, h, "e30"}[rng.Intn(4)]
		return u + "." + enc(sign(u)), true
	case "dots-3-empty":
		u := []string{h + "." + p + ".", h + ".." + p, "." + h + "." + p}[rng.Intn(3)]
		return u + "." + enc(sign(u)), true
	case "dots-4":
		u := []string{h + "." + p + "..", h + "." + p + ".AA.AA", ".." + h + "." + p}[rng.Intn(3)]
		return u + "." + enc(sign(u)), true
	case "empty-header":
		u := "." + p
		return u + "." + enc(sign(u)), true
	case "empty-payload":
		u := h + "."
		return u + "." + enc(sign(u)), true
	case "empty-unsigned":
		return "." + enc(sign("")), true
	case "empty-sig":
		return h + "." + p + ".", true
	case "only-dots":
		return []string{".", "..", "...", "...."}[rng.Intn(4)], true
	case "empty":
		return "", true
	case "pad-header":
		if hp, ok := padded(h); ok {
			u := hp + "." + p
			return u + "." + enc(sign(u)), true
		}
	case "pad-payload":
		if pp, ok := padded(p); ok {
			u := h + "." + pp
			return u + "." + enc(sign(u)), true
		}
	case "pad-sig":
		u := h + "." + p
		if sp, ok := padded(enc(sign(u))); ok {
			return u + "." + sp, true
		}
	case "std-header":
		if hs, ok := toStd(h); ok {
			u := hs + "." + p
			return u + "." + enc(sign(u)), true
		}
	case "std-payload":
		if ps, ok := toStd(p); ok {
			u := h + "." + ps
			return u + "." + enc(sign(u)), true
		}
	case "std-sig":
		u := h + "." + p
		if ss, ok := toStd(enc(sign(u))); ok {
			return u + "." + ss, true
		}
	case "ws-leading":
		u := []string{" ", "\n", "\t"}[rng.Intn(3)] + h + "." + p
		return u + "." + enc(sign(u)), true
	case "ws-trailing":
		return plain() + []string{" ", "\n", "\r\n", "\t"}[rng.Intn(4)], true
	case "ws-in-header":
		i := rng.Intn(len(h) + 1)
		u := h[:i] + []string{" ", "\n", "\r"}[rng.Intn(3)] + h[i:] + "." + p
		return u + "." + enc(sign(u)), true
	case "ws-in-payload":
		i := rng.Intn(len(p) + 1)
		u := h + "." + p[:i] + []string{" ", "\n", "\r"}[rng.Intn(3)] + p[i:]
		return u + "." + enc(sign(u)), true
	case "ws-at-dot":
		u := h + []string{" .", ". ", "\n.", ".\n"}[rng.Intn(4)] + p
		return u + "." + enc(sign(u)), true
	case "ws-in-sig":
		u := h + "." + p
		s := enc(sign(u))
		i := rng.Intn(len(s) + 1)
		return u + "." + s[:i] + []string{" ", "\n", "\r"}[rng.Intn(3)] + s[i:], true
	case "sig-len1mod4":
		u := h + "." + p
		s := enc(sign(u))
		for len(s)%4 != 1 {
			s += "A"
		}
		return u + "." + s, true
	case "sig-trailing-bits":
		u := h + "." + p
		if s, ok := trailingBits(rng, enc(sign(u))); ok {
			return u + "." + s, true
		}
	case "header-trailing-bits":
		if hb, ok := trailingBits(rng, h); ok {
			u := hb + "." + p
			return u + "." + enc(sign(u)), true
		}
	case "payload-trailing-bits":
		if pb, ok := trailingBits(rng, p); ok {
			u := h + "." + pb
			return u + "." + enc(sign(u)), true
		}
	case "nonascii-header":
		i := rng.Intn(len(h) + 1)
		u := h[:i] + []string{"é", " ", "\x7f", "\x00", "*", "~", ",", "%3D"}[rng.Intn(8)] + h[i:] + "." + p
		return u + "." + enc(sign(u)), true
	case "nonascii-sig":
		u := h + "." + p
		s := enc(sign(u))
		i := rng.Intn(len(s) + 1)
		return u + "." + s[:i] + []string{"é", "\x00", "*", "~", ",", ":"}[rng.Intn(6)] + s[i:], true
	case "sig-flip":
		u := h + "." + p
		s := sign(u)
		s[rng.Intn(len(s))] ^= 1 << uint(rng.Intn(8))
		return u + "." + enc(s), true
	case "sig-truncate":
		u := h + "." + p
		s := sign(u)
		return u + "." + enc(s[:rng.Pick(len(s)-1, len(s)/2, 1, len(s)-4)]), true
	case "sig-extend":
		u := h + "." + p
		s := append(sign(u), rng.Bytes(1+rng.Intn(4))...)
		if rng.Chance(30) {
			s = append([]byte{0}, s[:len(s)-1]...)
		}
		return u + "." + enc(s), true
	case "sig-random":
		u := h + "." + p
		s := sign(u)
		return u + "." + enc(rng.Bytes(len(s))), true
	case "sig-other-msg":
		u := h + "." + p
		alt := h + "." + b64(ptext+" ")
		return u + "." + enc(sign(alt)), true
	case "sig-one-byte":
		return h + "." + p + "." + []string{"AA", "AQ", "A", "AAA", "AAAA"}[rng.Intn(5)], true
	case "sig-reencoded":
		// the signature hex- or std-encoded instead of base64url
		u := h + "." + p
		s := sign(u)
		return u + "." + []string{fmt.Sprintf("%x", s), base64.StdEncoding.EncodeToString(s)}[rng.Intn(2)], true
	default:
		panic("unknown structure manipulation " + kind)
	}
	return plain(), false
}
