//go:build verif

// Harness c09: the JWT primitives against the decision model (property C09).
//
// A product-space generator builds keysets (MAC: HS256/384/512; signatures: ES*, RS*, PS*, ML-DSA;
// 1..4 keys; kid strategies TINK / custom / ignored; disabled and destroyed keys; twins sharing key
// material; primary anywhere), crafts compact tokens from hand-written header/payload JSON signed
// with the RAW primitive of a chosen key (so every header, payload and structure manipulation can
// carry a valid signature), and validators over all option combinations with nanosecond clocks on
// the exp/nbf/iat ± skew boundaries. The model (lean/TinkVerif/Model/Jwt.lean) receives the compact
// string, this harness's independent encoding/json parse of header and payload, and the per-key
// raw-signature bits; the implementation's answer is the keyset-level primitive's decision and the
// key id it reports to monitoring. Go-side oracles: claims of accepted tokens equal the signed
// payload, SignAndEncode/ComputeMACAndEncode round trip, disabled/foreign keys never verify, JWK
// export/import round trip, JWK export of private keysets fails.
package main

import (
	"bytes"
	"crypto/rand"
	"encoding/base64"
	"encoding/json"
	"fmt"
	"os"
	"reflect"
	"runtime/pprof"
	"sort"
	"strings"
	"time"

	"github.com/tink-crypto/tink-go/v2/insecurecleartextkeyset"
	"github.com/tink-crypto/tink-go/v2/internal/internalregistry"
	"github.com/tink-crypto/tink-go/v2/internal/verifharness/hlib"
	"github.com/tink-crypto/tink-go/v2/jwt"
	"github.com/tink-crypto/tink-go/v2/jwt/jwtecdsa"
	"github.com/tink-crypto/tink-go/v2/jwt/jwtrsassapkcs1"
	"github.com/tink-crypto/tink-go/v2/jwt/jwtrsassapss"
	"github.com/tink-crypto/tink-go/v2/key"
	"github.com/tink-crypto/tink-go/v2/keyset"
	"github.com/tink-crypto/tink-go/v2/monitoring"
)

// ---------- deterministic crypto/rand ----------

// tape replaces crypto/rand.Reader. One-byte reads (crypto/internal/randutil.MaybeReadByte, issued
// with probability 1/2 by ecdsa/rsa signing) do not advance the stream, so signatures are a
// function of the seed.
type tape struct{ rng *hlib.Rng }

func (t *tape) Read(p []byte) (int, error) {
	if len(p) == 1 {
		p[0] = 0x5a
		return 1, nil
	}
	copy(p, t.rng.Bytes(len(p)))
	return len(p), nil
}

// ---------- monitoring ----------

type monEvent struct {
	prim, fn string
	id       uint32
}

type monClient struct {
	logs  []monEvent
	fails []string
}

type monLogger struct {
	c        *monClient
	prim, fn string
}

func (l *monLogger) Log(id uint32, _ int)   { l.c.logs = append(l.c.logs, monEvent{l.prim, l.fn, id}) }
func (l *monLogger) LogFailure()            { l.c.fails = append(l.c.fails, l.prim+"/"+l.fn) }
func (l *monLogger) LogKeyExport(id uint32) {}
func (c *monClient) reset()                 { c.logs, c.fails = c.logs[:0], c.fails[:0] }
func (c *monClient) NewLogger(ctx *monitoring.Context) (monitoring.Logger, error) {
	return &monLogger{c: c, prim: ctx.Primitive, fn: ctx.APIFunction}, nil
}

// ---------- validator options ----------

type vopts struct {
	expTyp, expIss, expAud, expAuds                 *string
	ignTyp, ignAud, ignIss, allowMissing, expectIat bool
	skew, now                                       int64
}

func (v vopts) line() string {
	return fmt.Sprintf("J opts %s %s %s %s %s %s %s %s %s %d %d", optTok(v.expTyp), optTok(v.expIss), optTok(v.expAud), optTok(v.expAuds),
		hlib.B01(v.ignTyp), hlib.B01(v.ignAud), hlib.B01(v.ignIss), hlib.B01(v.allowMissing), hlib.B01(v.expectIat), v.skew, v.now)
}

func cp(s *string) *string {
	if s == nil {
		return nil
	}
	c := *s
	return &c
}

// build calls jwt.NewValidator on a fresh options struct (the constructor mutates its argument).
func (v vopts) build() (*jwt.Validator, error) {
	return jwt.NewValidator(&jwt.ValidatorOpts{
		ExpectedTypeHeader: cp(v.expTyp), ExpectedIssuer: cp(v.expIss), ExpectedAudience: cp(v.expAud), ExpectedAudiences: cp(v.expAuds),
		IgnoreTypeHeader: v.ignTyp, IgnoreAudiences: v.ignAud, IgnoreIssuer: v.ignIss,
		AllowMissingExpiration: v.allowMissing, ExpectIssuedInThePast: v.expectIat,
		ClockSkew: time.Duration(v.skew), FixedNow: time.Unix(0, v.now),
	})
}

const (
	sec       = int64(1000000000)
	tsMax     = int64(253402300799)
	maxAnchor = int64(9000000000)
)

var validSkews = []int64{0, sec, 600 * sec, -sec}
var skewName = map[int64]string{0: "0", sec: "1s", 600 * sec: "10min", 600*sec + 1: "10min+1ns", -sec: "-1s", 660 * sec: "11min", 3600 * sec: "1h"}
var deltas = []int64{-sec, -1, 0, 1, sec}
var deltaName = map[int64]string{-sec: "-1s", -1: "-1ns", 0: "0", 1: "+1ns", sec: "+1s"}

// ---------- analysis of a compact token (independent of how it was made) ----------

type tokInfo struct {
	compact       string
	hdr, pl       map[string]any
	hdrOK, plOK   bool
	bits          string
	typ, iss      *string
	auds          []string
	hasExp        bool
	hasNbf        bool
	hasIat        bool
	exp, nbf, iat int64
	// provenance (statistics and the disabled/foreign oracle only)
	tags   []string
	signer string // enabled | disabled | foreign | real
	signM  *mat
}

func timeFact(m map[string]any, k string) (int64, bool) {
	n, ok := m[k].(json.Number)
	if !ok {
		return 0, false
	}
	t, ok := truncSeconds(n)
	if !ok || t < 0 || t > tsMax {
		return 0, false
	}
	return t, true
}

func analyse(compact string, enabled []*jkey) *tokInfo {
	t := &tokInfo{compact: compact}
	parts := strings.Split(compact, ".")
	if len(parts) >= 1 {
		if b, ok := lenientB64(parts[0]); ok {
			t.hdr, t.hdrOK = parseObject(b)
		}
	}
	if len(parts) >= 2 {
		if b, ok := lenientB64(parts[1]); ok {
			t.pl, t.plOK = parseObject(b)
		}
	}
	bits := make([]byte, len(enabled))
	for i := range bits {
		bits[i] = '0'
	}
	if i := strings.LastIndex(compact, "."); i >= 0 {
		if sig, ok := lenientB64(compact[i+1:]); ok {
			for j, k := range enabled {
				if k.m.verify(sig, []byte(compact[:i])) {
					bits[j] = '1'
				}
			}
		}
	}
	t.bits = string(bits)
	if t.hdrOK {
		if s, ok := t.hdr["typ"].(string); ok {
			t.typ = &s
		}
	}
	if t.plOK {
		if s, ok := t.pl["iss"].(string); ok {
			t.iss = &s
		}
		switch a := t.pl["aud"].(type) {
		case string:
			t.auds = []string{a}
		case []any:
			for _, it := range a {
				if s, ok := it.(string); ok {
					t.auds = append(t.auds, s)
				}
			}
		}
		t.exp, t.hasExp = timeFact(t.pl, "exp")
		t.nbf, t.hasNbf = timeFact(t.pl, "nbf")
		t.iat, t.hasIat = timeFact(t.pl, "iat")
	}
	return t
}

// ---------- the harness ----------

type H struct {
	o     *hlib.Out
	rng   *hlib.Rng
	pool  *pool
	mon   *monClient
	walk  int          // position in the validator-option product space
	seen  map[int]bool // combinations of the option product space visited so far
	proto bool         // the current keyset went through its serialized form
	t0    int64
	keys  []*jkey // the current keyset, in keyset order
	en    []*jkey // its enabled keys, in order
	isMAC bool
	mac   jwt.MAC
	sig   jwt.Signer
	ver   jwt.Verifier
}

func (h *H) violate(format string, a ...any) { h.o.Violate(format, a...) }

func statusName(s keyset.KeyStatus) string {
	switch s {
	case keyset.Enabled:
		return "enabled"
	case keyset.Disabled:
		return "disabled"
	case keyset.Destroyed:
		return "destroyed"
	}
	return "unknown"
}

var customKids = []string{"", "kid-1", "custom", "é", "a.b", "AAAAAA", "https://k.example/1"}

// newKeyset draws a keyset and builds the implementation's primitives.
func (h *H) newKeyset() {
	r := h.rng
	h.isMAC = r.Chance(35)
	n := r.Pick(1, 1, 1, 2, 2, 2, 3, 3, 4, 4)
	mainFam := "HS"
	if !h.isMAC {
		mainFam = []string{"ES", "ES", "ES", "ES", "ES", "ES", "RS", "PS", "ML", "ML"}[r.Intn(10)]
	}
	mixed := !h.isMAC && r.Chance(35)
	for {
		h.keys = h.keys[:0]
		used := map[uint32]bool{}
		anyEnabled := false
		for i := 0; i < n; i++ {
			k := &jkey{strat: r.Intn(3), status: keyset.Enabled}
			fam := mainFam
			if mixed && r.Chance(50) {
				fam = []string{"ES", "ES", "RS", "PS", "ML"}[r.Intn(5)]
			}
			ai := r.Intn(3)
			switch fam { // the big and slow parameter sets less often (P-521 has no assembly; ML-DSA-87 tokens are 6 kB)
			case "ES":
				ai = r.Pick(0, 0, 0, 1, 1, 1, 2)
			case "ML":
				ai = r.Pick(0, 0, 0, 1, 2)
			}
			alg := famAlgs[fam][ai]
			if i > 0 && r.Chance(25) {
				k.m = h.keys[r.Intn(i)].m // a twin: same material, other kid configuration
			} else {
				k.m = h.pool.newMat(alg)
			}
			k.id = r.KeyID()
			for used[k.id] {
				k.id = uint32(r.U64())
			}
			used[k.id] = true
			if k.strat == stratCustom {
				k.custom = customKids[r.Intn(len(customKids))]
				if r.Chance(20) {
					k.custom = kidOfID(uint32(r.U64()))
				}
				if i > 0 && r.Chance(25) {
					k.custom = kidOfID(h.keys[r.Intn(i)].id) // collides with another key's derived kid
				}
			}
			switch r.Intn(20) {
			case 0, 1, 2, 3:
				k.status = keyset.Disabled
			case 4:
				k.status = keyset.Destroyed
			}
			if k.status == keyset.Enabled {
				anyEnabled = true
			}
			h.keys = append(h.keys, k)
		}
		if anyEnabled {
			break
		}
	}
	h.en = h.en[:0]
	for _, k := range h.keys {
		if k.status == keyset.Enabled {
			h.en = append(h.en, k)
		}
	}
	h.en[r.Intn(len(h.en))].primary = true
	for _, k := range h.keys {
		if err := k.build(); err != nil {
			panic(fmt.Sprintf("c09: cannot build %s key: %v", k.m.alg, err))
		}
	}
	h.mac, h.sig, h.ver = nil, nil, nil
	// half of the keysets reach the factories through their serialized form (binary keyset → handle)
	h.proto = r.Bool()
	via := func(kh *keyset.Handle) *keyset.Handle {
		if !h.proto {
			return kh
		}
		var buf bytes.Buffer
		if err := insecurecleartextkeyset.Write(kh, keyset.NewBinaryWriter(&buf)); err != nil {
			panic(fmt.Sprintf("c09: cannot serialize the keyset: %v", err))
		}
		return must(insecurecleartextkeyset.Read(keyset.NewBinaryReader(&buf), keyset.WithAnnotations(map[string]string{"verif": "c09"})))
	}
	if h.isMAC {
		h.mac = must(jwt.NewMAC(via(must(handleFor(h.keys, false)))))
	} else {
		h.sig = must(jwt.NewSigner(via(must(handleFor(h.keys, false)))))
		h.ver = must(jwt.NewVerifier(via(must(handleFor(h.keys, true)))))
	}
	if h.proto {
		h.o.Count("keyset/via-serialized-form")
	}
	h.o.Count(fmt.Sprintf("keyset/size=%d", len(h.keys)))
	h.o.Count(fmt.Sprintf("keyset/enabled=%d", len(h.en)))
	for i, k := range h.keys {
		h.o.Count("key/" + k.m.alg + "/" + stratName[k.strat])
		h.o.Count("key/status=" + statusName(k.status))
		if k.primary {
			h.o.Count(fmt.Sprintf("keyset/primary-at=%d", i))
		}
		for _, p := range h.keys[:i] {
			if p.m == k.m {
				h.o.Count("keyset/twin-material")
				break
			}
		}
	}
	if mixed {
		h.o.Count("keyset/mixed-families")
	}
}

// emitKeys sends the enabled keys of ks to the model.
func (h *H) emitKeys(enabled []*jkey) {
	h.o.Emit("J reset", "ok", false)
	for _, k := range enabled {
		h.o.Emit(fmt.Sprintf("J key %d %s %s %s", k.id, tok(k.m.alg), optTok(k.tinkKid()), optTok(k.customKid())), "ok", false)
	}
}

// ---------- crafted tokens ----------

var typPool = []string{"JWT", "jwt", "at+jwt", "", "é", "JWS"}

func (h *H) craft() *tokInfo {
	r := h.rng
	// who signs
	var signer *jkey
	who := "enabled"
	var disabled []*jkey
	for _, k := range h.keys {
		if k.status != keyset.Enabled {
			disabled = append(disabled, k)
		}
	}
	signer = h.en[r.Intn(len(h.en))]
	signM := signer.m
	classes := []int{}
	switch c := r.Intn(100); {
	case c < 32:
	case c < 54:
		classes = append(classes, 0)
	case c < 74:
		classes = append(classes, 1)
	default:
		classes = append(classes, 2)
	}
	if len(classes) == 1 && r.Chance(15) {
		classes = append(classes, (classes[0]+1+r.Intn(2))%3)
	}
	// manipulated tokens are mostly signed by an enabled key so that the manipulation decides
	c := r.Intn(100)
	if len(classes) > 0 {
		c = r.Intn(400)
	}
	switch {
	case c < 10 && len(disabled) > 0:
		signer = disabled[r.Intn(len(disabled))]
		signM = signer.m
		who = "disabled"
	case c < 18:
		// foreign material of the same algorithm; the header is the one an enabled key expects
		for try := 0; try < 4; try++ {
			m := h.pool.newMat(signer.m.alg)
			inSet := false
			for _, k := range h.keys {
				if k.m == m {
					inSet = true
				}
			}
			if !inSet {
				signM = m
				who = "foreign"
				break
			}
		}
	}
	var typ *string
	if r.Chance(40) {
		s := typPool[r.Intn(len(typPool))]
		typ = &s
	}
	hfs := goodHeader(r, signer, typ)
	pfs, ptags := goodPayload(r, h.t0)
	var tags []string
	tags = append(tags, ptags...)
	var hraw, praw *string
	skind := ""
	var manips []string
	for _, c := range classes {
		switch c {
		case 0:
			kind := headerManips[r.Intn(len(headerManips))]
			hfs, hraw = manipHeader(r, kind, hfs, signer, h.keys)
			manips = append(manips, "header/"+kind)
		case 1:
			kind := payloadManips[r.Intn(len(payloadManips))]
			pfs, praw = manipPayload(r, kind, pfs, h.t0)
			manips = append(manips, "payload/"+kind)
		case 2:
			skind = structManips[r.Intn(len(structManips))]
		}
	}
	htext, ptext := "", ""
	if hraw != nil {
		htext = *hraw
	} else {
		htext = render(r, shuffle(r, hfs))
	}
	if praw != nil {
		ptext = *praw
	} else {
		ptext = render(r, pfs)
	}
	if skind == "std-header" || skind == "std-payload" {
		// make sure the url-safe alphabet's '-' / '_' occur in that part
		filler := field{"pad", "\"~~~???>>>\""}
		if skind == "std-header" && hraw == nil {
			htext = render(r, append(hfs, filler))
		}
		if skind == "std-payload" && praw == nil {
			ptext = render(r, append(pfs, filler))
		}
	}
	compact, applied := assemble(r, skind, htext, ptext, func(u string) []byte { return signM.sign([]byte(u)) })
	if skind != "" {
		if applied {
			manips = append(manips, "struct/"+skind)
		} else {
			h.o.Count("manip-not-applicable/" + skind)
		}
	}
	t := analyse(compact, h.en)
	t.signer, t.signM = who, signM
	if len(manips) == 0 {
		manips = []string{"none"}
	}
	t.tags = append(tags, manips...)
	for _, m := range manips {
		h.o.Count("manip/" + m)
	}
	for _, g := range ptags {
		h.o.Count("payload/" + g)
	}
	h.o.Count("signer/" + who)
	h.o.Count("signalg/" + signM.alg)
	if typ != nil {
		h.o.Count("typ/present")
	} else {
		h.o.Count("typ/absent")
	}
	return t
}

// ---------- validators ----------

func (h *H) pickOther(s *string) *string {
	for {
		c := strPool[h.rng.Intn(len(strPool))]
		if s == nil || c != *s {
			return &c
		}
	}
}

// directed builds a validator fitted to the token (so that the rule under test decides), with
// the clock on a boundary of one of the token's instants.
func (h *H) directed(t *tokInfo) vopts {
	r := h.rng
	v := vopts{}
	if t.typ != nil {
		if r.Chance(75) {
			v.expTyp = t.typ
		} else {
			v.ignTyp = true
		}
	} else if r.Chance(10) {
		v.ignTyp = true
	}
	if t.iss != nil {
		if r.Chance(75) {
			v.expIss = t.iss
		} else {
			v.ignIss = true
		}
	} else if r.Chance(10) {
		v.ignIss = true
	}
	if len(t.auds) > 0 {
		if r.Chance(75) {
			a := t.auds[r.Intn(len(t.auds))]
			if r.Chance(70) {
				v.expAud = &a
			} else {
				v.expAuds = &a
			}
		} else {
			v.ignAud = true
		}
	} else if r.Chance(10) {
		v.ignAud = true
	}
	v.allowMissing = (!t.hasExp && r.Chance(80)) || r.Chance(15)
	v.skew = validSkews[r.Intn(len(validSkews))]
	var anchors []string
	// instants whose nanosecond value fits the clock (FixedNow.UnixNano is an int64)
	if t.hasExp && t.exp < maxAnchor {
		anchors = append(anchors, "exp", "exp")
	}
	if t.hasNbf && t.nbf < maxAnchor {
		anchors = append(anchors, "nbf")
	}
	if t.hasIat && t.iat < maxAnchor {
		anchors = append(anchors, "iat")
	}
	if len(anchors) == 0 {
		v.now = h.t0*sec + int64(r.Intn(int(sec)))
		h.o.Count("clock/no-time-claims")
	} else {
		a := anchors[r.Intn(len(anchors))]
		d := deltas[r.Intn(len(deltas))]
		switch a {
		case "exp":
			v.now = t.exp*sec + v.skew + d // accepted iff d < 0
			v.expectIat = t.hasIat && r.Chance(30)
		case "nbf":
			v.now = t.nbf*sec - v.skew + d // accepted iff d >= 0
			v.expectIat = t.hasIat && t.iat <= t.nbf && r.Chance(50)
		case "iat":
			v.now = t.iat*sec - v.skew + d // accepted iff d >= 0
			v.expectIat = true
		}
		h.o.Count(fmt.Sprintf("boundary/%s/skew=%s/delta=%s", a, skewName[v.skew], deltaName[d]))
	}
	if v.now == 0 {
		v.now = 1
	}
	return v
}

var perturbations = []string{"typ-mismatch", "typ-expected-absent", "typ-unexpected", "iss-mismatch", "iss-expected-absent", "iss-unexpected",
	"aud-mismatch", "aud-expected-absent", "aud-unexpected", "contradict-typ", "contradict-iss", "contradict-aud", "contradict-auds", "both-aud-fields",
	"skew-too-large", "missing-exp-not-allowed", "expect-iat", "allow-missing"}

func (h *H) perturb(v vopts, t *tokInfo) vopts {
	r := h.rng
	kind := perturbations[r.Intn(len(perturbations))]
	h.o.Count("perturb/" + kind)
	switch kind {
	case "typ-mismatch":
		v.expTyp, v.ignTyp = h.pickOther(t.typ), false
	case "typ-expected-absent":
		if t.typ == nil {
			v.expTyp, v.ignTyp = h.pickOther(nil), false
		}
	case "typ-unexpected":
		v.expTyp, v.ignTyp = nil, false
	case "iss-mismatch":
		v.expIss, v.ignIss = h.pickOther(t.iss), false
	case "iss-expected-absent":
		if t.iss == nil {
			v.expIss, v.ignIss = h.pickOther(nil), false
		}
	case "iss-unexpected":
		v.expIss, v.ignIss = nil, false
	case "aud-mismatch":
		var c *string
		for {
			c = h.pickOther(nil)
			found := false
			for _, a := range t.auds {
				if a == *c {
					found = true
				}
			}
			if !found {
				break
			}
		}
		v.expAud, v.expAuds, v.ignAud = c, nil, false
	case "aud-expected-absent":
		if len(t.auds) == 0 {
			v.expAud, v.expAuds, v.ignAud = h.pickOther(nil), nil, false
		}
	case "aud-unexpected":
		v.expAud, v.expAuds, v.ignAud = nil, nil, false
	case "contradict-typ":
		v.expTyp, v.ignTyp = h.pickOther(nil), true
	case "contradict-iss":
		v.expIss, v.ignIss = h.pickOther(nil), true
	case "contradict-aud":
		v.expAud, v.expAuds, v.ignAud = h.pickOther(nil), nil, true
	case "contradict-auds":
		v.expAud, v.expAuds, v.ignAud = nil, h.pickOther(nil), true
	case "both-aud-fields":
		a := h.pickOther(nil)
		if len(t.auds) > 0 {
			a = &t.auds[0]
		}
		v.expAud, v.expAuds, v.ignAud = a, a, false
	case "skew-too-large":
		v.skew = []int64{600*sec + 1, 660 * sec, 3600 * sec}[r.Intn(3)]
	case "missing-exp-not-allowed":
		v.allowMissing = false
	case "expect-iat":
		v.expectIat = true
	case "allow-missing":
		v.allowMissing = true
	}
	return v
}

// product walks the full option product space (1440 combinations) with a stride, clock on a grid
// of seconds around the case's instants.
func (h *H) product(t *tokInfo) vopts {
	r := h.rng
	h.walk = (h.walk + 577) % 1440
	x := h.walk
	h.seen[x] = true
	take := func(n int) int { d := x % n; x /= n; return d }
	v := vopts{}
	match := func(s *string) *string {
		if s != nil {
			return s
		}
		c := "JWT"
		return &c
	}
	switch take(3) {
	case 1:
		v.expTyp = match(t.typ)
	case 2:
		v.expTyp = h.pickOther(t.typ)
	}
	v.ignTyp = take(2) == 1
	switch take(3) {
	case 1:
		v.expIss = match(t.iss)
	case 2:
		v.expIss = h.pickOther(t.iss)
	}
	v.ignIss = take(2) == 1
	var aud *string
	if len(t.auds) > 0 {
		aud = &t.auds[r.Intn(len(t.auds))]
	}
	switch take(5) {
	case 1:
		v.expAud = match(aud)
	case 2:
		v.expAuds = match(aud)
	case 3:
		v.expAud, v.expAuds = match(aud), match(aud)
	case 4:
		v.expAud = h.pickOther(aud)
	}
	v.ignAud = take(2) == 1
	v.allowMissing = take(2) == 1
	v.expectIat = take(2) == 1
	v.skew = []int64{0, sec, 600 * sec, -sec, 0, sec, 600 * sec, -sec, 600*sec + 1, 660 * sec}[r.Intn(10)]
	base := h.t0
	if t.hasExp && t.exp < maxAnchor && r.Chance(30) {
		base = t.exp
	}
	v.now = (base+int64(r.Pick(-7200, -3600, -601, -600, -1, 0, 0, 1, 600, 601, 3599, 3600, 3601, 7200)))*sec + int64(r.Pick(0, 0, 1, -1, 999999999, 500000000))
	if v.now == 0 {
		v.now = 1
	}
	h.o.Count("opts/product-walk")
	return v
}

// repair removes what makes NewValidator fail, keeping the rest of the combination.
func (h *H) repair(v vopts) vopts {
	r := h.rng
	if v.expAud != nil && v.expAuds != nil {
		if r.Bool() {
			v.expAud = nil
		} else {
			v.expAuds = nil
		}
	}
	drop := func(exp **string, ign *bool) {
		if *exp != nil && *ign {
			if r.Bool() {
				*exp = nil
			} else {
				*ign = false
			}
		}
	}
	drop(&v.expTyp, &v.ignTyp)
	drop(&v.expIss, &v.ignIss)
	drop(&v.expAud, &v.ignAud)
	drop(&v.expAuds, &v.ignAud)
	if v.skew > 600*sec {
		v.skew = validSkews[r.Intn(len(validSkews))]
	}
	return v
}

// ---------- running one (token, validator) pair ----------

type prims struct {
	mac     jwt.MAC
	ver     jwt.Verifier
	enabled []*jkey
}

func (h *H) cur() prims { return prims{mac: h.mac, ver: h.ver, enabled: h.en} }

func verifyLine(t *tokInfo) string {
	return fmt.Sprintf("J verify %s %s %s %s", tok(t.compact), encObj(t.hdr, t.hdrOK), encObj(t.pl, t.plOK), t.bits)
}

// verify runs the implementation on (token, validator), emits the lines, applies the oracles, and
// returns the implementation's answer.
func (h *H) verify(p prims, t *tokInfo, v vopts, label string) string {
	val, err := v.build()
	if err != nil {
		h.o.Emit(v.line(), "err", false)
		h.o.Count("opts/invalid")
		return "noval"
	}
	h.o.Emit(v.line(), "ok", false)
	h.o.Count("opts/valid")
	h.o.Count("opts/skew=" + skewName[v.skew])
	var vj *jwt.VerifiedJWT
	h.mon.reset()
	pan := hlib.Recover(func() {
		if p.mac != nil {
			vj, err = p.mac.VerifyMACAndDecode(t.compact, val)
		} else {
			vj, err = p.ver.VerifyAndDecode(t.compact, val)
		}
	})
	res := ""
	switch {
	case pan != "":
		h.violate("verification panicked (%s): token=%q opts=%s", pan, t.compact, v.line())
		res = "panic"
	case err == nil:
		res = "accept ?"
		if len(h.mon.logs) == 1 && len(h.mon.fails) == 0 {
			res = fmt.Sprintf("accept %d", h.mon.logs[0].id)
			if fn := h.mon.logs[0].fn; fn != "verify" {
				h.violate("verification success was logged as %q", fn)
			}
		} else {
			h.violate("accepted token but monitoring saw %d log events and %d failures: token=%q", len(h.mon.logs), len(h.mon.fails), t.compact)
		}
		if vj == nil {
			h.violate("nil VerifiedJWT without error: token=%q", t.compact)
		} else {
			h.checkClaims(vj, t)
		}
	default:
		if vj != nil {
			h.violate("a VerifiedJWT was returned together with error %v", err)
		}
		if len(h.mon.logs) != 0 || len(h.mon.fails) != 1 {
			h.violate("rejected token but monitoring saw %d log events and %d failures: token=%q", len(h.mon.logs), len(h.mon.fails), t.compact)
		}
		if jwt.VerifIsVerificationErr(err) {
			res = "verr"
		} else {
			res = "valerr"
			if jwt.IsExpirationErr(err) {
				h.o.Count("valerr/expired")
				if !t.hasExp || t.exp >= maxAnchor || t.exp*sec > v.now-v.skew {
					h.violate("IsExpirationErr on a token that is not expired: token=%q opts=%s", t.compact, v.line())
				}
			}
		}
	}
	h.o.Emit(verifyLine(t), res, true)
	out := strings.Fields(res)[0]
	h.o.Count("outcome/" + out)
	h.o.Count("outcome/" + label + "/" + out)
	for _, g := range t.tags {
		if strings.Contains(g, "/") {
			h.o.Count("outcome-by-manip/" + g + "/" + out)
		}
	}
	if len(t.tags) > 0 && t.tags[len(t.tags)-1] == "none" {
		h.o.Count("outcome-by-manip/none/" + out)
	}
	// property oracles that need no model
	if out == "accept" {
		okKey := false
		var id uint32
		fmt.Sscanf(res, "accept %d", &id)
		for i, k := range p.enabled {
			if k.id == id && t.bits[i] == '1' {
				okKey = true
			}
		}
		if !okKey && res != "accept ?" {
			h.violate("accepted under key id %d which is not an enabled key with a valid signature (bits %s): token=%q", id, t.bits, t.compact)
		}
		if t.signer == "disabled" || t.signer == "foreign" {
			shared := false
			for _, k := range p.enabled {
				if k.m == t.signM {
					shared = true
				}
			}
			if !shared {
				h.violate("token signed by a %s key was accepted: token=%q", t.signer, t.compact)
			}
		}
	}
	if !strings.Contains(t.bits, "1") && out != "verr" && out != "panic" {
		h.violate("no enabled key's signature check passes, yet the answer is %q (want the generic verification error): token=%q", res, t.compact)
	}
	return res
}

// productStep takes the next combination of the option product space; a combination the
// constructor refuses is sent as such (both sides must refuse) and then repaired for the verify.
func (h *H) productStep(p prims, t *tokInfo, label string) {
	v := h.product(t)
	if h.verify(p, t, v, label) == "noval" {
		h.verify(p, t, h.repair(v), label)
	}
}

func eqStrs(a, b []string) bool {
	if len(a) != len(b) {
		return false
	}
	for i := range a {
		if a[i] != b[i] {
			return false
		}
	}
	return true
}

func isRegistered(k string) bool {
	switch k {
	case "iss", "sub", "aud", "jti", "exp", "nbf", "iat":
		return true
	}
	return false
}

// checkClaims: the VerifiedJWT must present exactly the signed payload (and typ header).
func (h *H) checkClaims(vj *jwt.VerifiedJWT, t *tokInfo) {
	bad := func(format string, a ...any) {
		h.violate("claims of accepted token differ from the signed payload: "+format+" token=%q", append(a, t.compact)...)
	}
	if !t.hdrOK || !t.plOK {
		bad("header/payload are not JSON objects for the independent parser")
		return
	}
	pan := hlib.Recover(func() {
		// typ
		if vj.HasTypeHeader() != (t.typ != nil) {
			bad("HasTypeHeader=%v", vj.HasTypeHeader())
		} else if t.typ != nil {
			if s, err := vj.TypeHeader(); err != nil || s != *t.typ {
				bad("TypeHeader=%q,%v want %q", s, err, *t.typ)
			}
		}
		// string claims
		for _, c := range []struct {
			name string
			has  func() bool
			get  func() (string, error)
		}{{"iss", vj.HasIssuer, vj.Issuer}, {"sub", vj.HasSubject, vj.Subject}, {"jti", vj.HasJWTID, vj.JWTID}} {
			want, present := t.pl[c.name]
			if c.has() != present {
				bad("Has(%s)=%v want %v", c.name, c.has(), present)
				continue
			}
			if present {
				got, err := c.get()
				if ws, ok := want.(string); !ok || err != nil || got != ws {
					bad("%s=%q,%v want %v", c.name, got, err, want)
				}
			} else if _, err := c.get(); err == nil {
				bad("%s accessor succeeds on an absent claim", c.name)
			}
		}
		// audiences
		_, present := t.pl["aud"]
		if vj.HasAudiences() != present {
			bad("HasAudiences=%v want %v", vj.HasAudiences(), present)
		} else if present {
			got, err := vj.Audiences()
			if err != nil || !eqStrs(got, t.auds) {
				bad("Audiences=%q,%v want %q", got, err, t.auds)
			}
		}
		// time claims
		for _, c := range []struct {
			name string
			has  func() bool
			get  func() (time.Time, error)
		}{{"exp", vj.HasExpiration, vj.ExpiresAt}, {"nbf", vj.HasNotBefore, vj.NotBefore}, {"iat", vj.HasIssuedAt, vj.IssuedAt}} {
			_, present := t.pl[c.name]
			if c.has() != present {
				bad("Has(%s)=%v want %v", c.name, c.has(), present)
				continue
			}
			if present {
				want, ok := timeFact(t.pl, c.name)
				got, err := c.get()
				if !ok || err != nil || !got.Equal(time.Unix(want, 0)) {
					bad("%s=%v,%v want %d (valid=%v)", c.name, got, err, want, ok)
				}
			}
		}
		// custom claims
		var wantNames []string
		for _, k := range sortedKeys(t.pl) {
			if !isRegistered(k) {
				wantNames = append(wantNames, k)
			}
		}
		gotNames := append([]string(nil), vj.CustomClaimNames()...)
		sort.Strings(gotNames)
		if !eqStrs(gotNames, wantNames) {
			bad("CustomClaimNames=%q want %q", gotNames, wantNames)
		}
		for _, k := range wantNames {
			want := canon(t.pl[k])
			kinds := map[string]bool{"string": vj.HasStringClaim(k), "number": vj.HasNumberClaim(k), "bool": vj.HasBooleanClaim(k),
				"null": vj.HasNullClaim(k), "array": vj.HasArrayClaim(k), "object": vj.HasObjectClaim(k)}
			wantKind := ""
			switch w := want.(type) {
			case string:
				wantKind = "string"
				if got, err := vj.StringClaim(k); err != nil || got != w {
					bad("StringClaim(%q)=%q,%v want %q", k, got, err, w)
				}
			case float64:
				wantKind = "number"
				if got, err := vj.NumberClaim(k); err != nil || got != w {
					bad("NumberClaim(%q)=%v,%v want %v", k, got, err, w)
				}
			case bool:
				wantKind = "bool"
				if got, err := vj.BooleanClaim(k); err != nil || got != w {
					bad("BooleanClaim(%q)=%v,%v want %v", k, got, err, w)
				}
			case nil:
				wantKind = "null"
			case []any:
				wantKind = "array"
				if got, err := vj.ArrayClaim(k); err != nil || !reflect.DeepEqual(canon(anySlice(got)), want) {
					bad("ArrayClaim(%q)=%v,%v want %v", k, got, err, w)
				}
			case map[string]any:
				wantKind = "object"
				if got, err := vj.ObjectClaim(k); err != nil || !reflect.DeepEqual(normMap(got), want) {
					bad("ObjectClaim(%q)=%v,%v want %v", k, got, err, w)
				}
			}
			for _, kind := range []string{"string", "number", "bool", "null", "array", "object"} {
				if has := kinds[kind]; has != (kind == wantKind) {
					bad("Has<%s>Claim(%q)=%v but the claim is a %s", kind, k, has, wantKind)
				}
			}
			h.o.Count("accepted-claim/" + wantKind)
		}
		// the payload as a whole
		js, err := vj.JSONPayload()
		if err != nil {
			bad("JSONPayload error %v", err)
		} else if m, ok := parseObject(js); !ok || !reflect.DeepEqual(canon(m), canon(t.pl)) {
			bad("JSONPayload=%s", js)
		}
	})
	if pan != "" {
		h.violate("VerifiedJWT accessor panicked (%s): token=%q", pan, t.compact)
	}
	h.o.Count("oracle/claims-compared")
}

func optShow(s *string) string {
	if s == nil {
		return "<none>"
	}
	return fmt.Sprintf("%q", *s)
}

func anySlice(s []any) any {
	if s == nil {
		return []any{}
	}
	return s
}

func normMap(m map[string]any) any {
	if m == nil {
		return map[string]any{}
	}
	return m
}

// ---------- tokens made by the real signer ----------

type realTok struct {
	t      *tokInfo
	accept vopts // a validator that must accept it
}

func (h *H) realToken() *realTok {
	r := h.rng
	opts := &jwt.RawJWTOptions{}
	want := map[string]any{}
	sp := func(name string, dst **string) {
		if r.Chance(50) {
			s := pickStr(r)
			*dst = &s
			want[name] = s
		}
	}
	sp("iss", &opts.Issuer)
	sp("sub", &opts.Subject)
	sp("jti", &opts.JWTID)
	switch r.Intn(4) {
	case 0:
		s := pickStr(r)
		opts.Audience = &s
		want["aud"] = s
	case 1:
		n := 1 + r.Intn(3)
		l := []any{}
		for i := 0; i < n; i++ {
			s := pickStr(r)
			opts.Audiences = append(opts.Audiences, s)
			l = append(l, s)
		}
		want["aud"] = l
	}
	tm := func(name string, secs int64, dst **time.Time) {
		t := time.Unix(secs, int64(r.Pick(0, 0, 1, 999999999)))
		*dst = &t
		want[name] = float64(secs)
	}
	if r.Chance(80) {
		tm("exp", h.t0+int64(r.Pick(3600, 7200, 1)), &opts.ExpiresAt)
	} else {
		opts.WithoutExpiration = true
	}
	if r.Chance(50) {
		tm("nbf", h.t0-int64(r.Pick(0, 1, 3600)), &opts.NotBefore)
	}
	if r.Chance(50) {
		tm("iat", h.t0-int64(r.Pick(0, 1, 3600)), &opts.IssuedAt)
	}
	if r.Chance(50) {
		s := typPool[r.Intn(len(typPool))]
		opts.TypeHeader = &s
	}
	if r.Chance(60) {
		opts.CustomClaims = map[string]any{}
		for i, n := 0, 1+r.Intn(3); i < n; i++ {
			name := customNames[r.Intn(len(customNames))]
			var v any
			switch r.Intn(7) {
			case 0:
				v = pickStr(r)
			case 1:
				v = []float64{0, 1, -1, 0.5, 12.5, 1e30, 9007199254740991}[r.Intn(7)]
			case 2:
				v = r.Bool()
			case 3:
				v = nil
			case 4:
				v = []any{pickStr(r), float64(r.Intn(100)), nil, true}
			case 5:
				v = map[string]any{"k": pickStr(r), "n": float64(r.Intn(100)), "l": []any{}, "o": map[string]any{}}
			case 6:
				v = []any{}
			}
			opts.CustomClaims[name] = v
			want[name] = v
		}
	}
	var raw *jwt.RawJWT
	var err error
	var compact string
	h.mon.reset()
	pan := hlib.Recover(func() {
		raw, err = jwt.NewRawJWT(opts)
		if err != nil {
			return
		}
		if h.isMAC {
			compact, err = h.mac.ComputeMACAndEncode(raw)
		} else {
			compact, err = h.sig.SignAndEncode(raw)
		}
	})
	if pan != "" || err != nil {
		h.violate("cannot build and sign a valid raw JWT: panic=%q err=%v opts=%+v", pan, err, want)
		return nil
	}
	var primary *jkey
	for _, k := range h.en {
		if k.primary {
			primary = k
		}
	}
	if len(h.mon.logs) != 1 || len(h.mon.fails) != 0 || h.mon.logs[0].id != primary.id {
		h.violate("signing with primary %d logged %v / failures %v", primary.id, h.mon.logs, h.mon.fails)
	}
	t := analyse(compact, h.en)
	t.signer, t.signM = "real", primary.m
	t.tags = []string{"real-signed"}
	// header: alg = the primary's algorithm, kid per strategy, typ as given; nothing else
	wantHdr := map[string]any{"alg": primary.m.alg}
	if kid := primary.headerKid(); kid != nil {
		wantHdr["kid"] = *kid
	}
	if opts.TypeHeader != nil {
		wantHdr["typ"] = *opts.TypeHeader
	}
	if !t.hdrOK || !reflect.DeepEqual(canon(t.hdr), any(wantHdr)) {
		h.violate("header of a token made by the %s primary (kid strategy %s) is %v, want %v: token=%q", primary.m.alg, stratName[primary.strat], t.hdr, wantHdr, compact)
	}
	if !t.plOK || !reflect.DeepEqual(canon(t.pl), canon(want)) {
		h.violate("payload of the produced token is %v, want %v: token=%q", t.pl, want, compact)
	}
	for i, k := range h.en {
		if (t.bits[i] == '1') != (k.m == primary.m) {
			h.violate("raw signature of the produced token: bit %c for key %d (primary material: %v): token=%q", t.bits[i], k.id, k.m == primary.m, compact)
		}
	}
	if strings.ContainsAny(compact, "=+/ \n") || strings.Count(compact, ".") != 2 {
		h.violate("produced token is not an unpadded base64url compact serialization: %q", compact)
	}
	// a validator that must accept
	v := vopts{expTyp: opts.TypeHeader, expIss: opts.Issuer, allowMissing: opts.WithoutExpiration, skew: 0}
	if len(t.auds) > 0 {
		v.expAud = &t.auds[r.Intn(len(t.auds))]
	}
	v.expectIat = opts.IssuedAt != nil && r.Bool()
	v.now = h.t0*sec + int64(r.Pick(0, 1, 999999999))
	h.o.Count("real/signed-" + primary.m.alg + "/" + stratName[primary.strat])
	return &realTok{t: t, accept: v}
}

// ---------- JWK ----------

func (h *H) jwkPhase(reals []*realTok, crafted []*tokInfo) {
	pubH := must(handleFor(h.keys, true))
	privH := must(handleFor(h.keys, false))
	// export refuses private keys
	var err error
	var out []byte
	if pan := hlib.Recover(func() { out, err = jwt.JWKSetFromPublicKeysetHandle(privH) }); pan != "" {
		h.violate("JWK export of a private keyset panicked: %s", pan)
	} else if err == nil {
		h.violate("JWK export of a PRIVATE keyset succeeded: %s", out)
	}
	h.o.Count("jwk/private-export-refused")
	hasML := false
	for _, k := range h.en {
		if famOf(k.m.alg) == "ML" {
			hasML = true
		}
	}
	var set []byte
	pan := hlib.Recover(func() { set, err = jwt.JWKSetFromPublicKeysetHandle(pubH) })
	if pan != "" {
		h.violate("JWK export panicked: %s", pan)
		return
	}
	if hasML {
		// ML-DSA has no JWK mapping in this library: the export is documented to support ES/RS/PS only
		if err == nil {
			h.o.Count("jwk/mldsa-exported")
		} else {
			h.o.Count("jwk/mldsa-unsupported")
		}
		return
	}
	if err != nil {
		h.violate("JWK export of a public ES/RS/PS keyset failed: %v", err)
		return
	}
	// no private parameters in the export
	if m, ok := parseObject(set); !ok {
		h.violate("JWK set is not a JSON object: %s", set)
	} else if l, ok := m["keys"].([]any); !ok || len(l) != len(h.en) {
		h.violate("JWK set has %v keys, want the %d enabled ones: %s", m["keys"], len(h.en), set)
	} else {
		for i, e := range l {
			em, _ := e.(map[string]any)
			for _, f := range []string{"d", "p", "q", "dp", "dq", "qi", "k"} {
				if _, bad := em[f]; bad {
					h.violate("JWK export contains private parameter %q: %s", f, set)
				}
			}
			// the public key itself, as RFC 7517/7518 spell it
			k := h.en[i]
			want := map[string]any{"alg": k.m.alg}
			if kid := k.headerKid(); kid != nil {
				want["kid"] = *kid
			}
			enc := base64.RawURLEncoding.EncodeToString
			if k.m.rsa != nil {
				want["kty"], want["n"], want["e"] = "RSA", enc(k.m.rsa.n), "AQAB"
			} else {
				cl := (len(k.m.ecPub) - 1) / 2
				want["kty"], want["crv"] = "EC", []string{"P-256", "P-384", "P-521"}[algIndex(k.m.alg)]
				want["x"], want["y"] = enc(k.m.ecPub[1:1+cl]), enc(k.m.ecPub[1+cl:])
			}
			for _, f := range []string{"alg", "kid", "kty", "crv", "x", "y", "n", "e"} {
				if wv, gv := want[f], em[f]; !reflect.DeepEqual(wv, gv) {
					h.violate("JWK entry %d has %s=%v, want %v: %s", i, f, gv, wv, set)
				}
			}
		}
	}
	var h2 *keyset.Handle
	if pan := hlib.Recover(func() { h2, err = jwt.JWKSetToPublicKeysetHandle(set) }); pan != "" || err != nil {
		h.violate("JWK set exported by the library cannot be imported back: panic=%q err=%v set=%s", pan, err, set)
		return
	}
	if h2.Len() != len(h.en) {
		h.violate("imported JWK keyset has %d keys, want %d", h2.Len(), len(h.en))
		return
	}
	// the imported keyset, described independently: same material and algorithm; TINK keys become
	// custom-kid keys carrying the derived kid
	var imp []*jkey
	for i, k := range h.en {
		e, err := h2.Entry(i)
		if err != nil {
			h.violate("imported keyset entry %d: %v", i, err)
			return
		}
		nk := &jkey{m: k.m, id: e.KeyID(), status: keyset.Enabled, primary: e.IsPrimary(), pub: e.Key()}
		if kid := k.headerKid(); kid != nil {
			nk.strat, nk.custom = stratCustom, *kid
		} else {
			nk.strat = stratIgnored
		}
		if e.KeyStatus() != keyset.Enabled {
			h.violate("imported JWK key %d is not enabled", i)
		}
		gotAlg, gotKid, gotHas, gotStrat, sameMat := describePublic(e.Key(), k)
		wantStrat := "CustomKID"
		if nk.strat == stratIgnored {
			wantStrat = "IgnoredKID"
		}
		if gotAlg != k.m.alg || gotHas != (nk.strat == stratCustom) || gotKid != nk.custom || gotStrat != wantStrat || !sameMat {
			h.violate("JWK round trip changed key %d: alg %s→%s kid %s→(%q,%v) strategy→%s same-material=%v", k.id, k.m.alg, gotAlg, optShow(k.headerKid()), gotKid, gotHas, gotStrat, sameMat)
		}
		imp = append(imp, nk)
	}
	ver2, err := jwt.NewVerifier(must(handleFor(imp, true)))
	if err != nil {
		h.violate("no verifier from the imported JWK keyset: %v", err)
		return
	}
	h.o.Count("jwk/round-trips")
	p := prims{ver: ver2, enabled: imp}
	h.emitKeys(imp)
	for _, rt := range reals {
		t2 := analyse(rt.t.compact, imp)
		t2.signer, t2.signM, t2.tags = rt.t.signer, rt.t.signM, []string{"jwk/real-signed"}
		if res := h.verify(p, t2, rt.accept, "jwk-real"); !strings.HasPrefix(res, "accept") {
			h.violate("public keyset → JWK set → keyset does not verify a token of the private keyset: %s token=%q opts=%s", res, rt.t.compact, rt.accept.line())
		}
		h.verify(p, t2, h.directed(t2), "jwk-real")
	}
	for _, t := range crafted {
		t2 := analyse(t.compact, imp)
		t2.signer, t2.signM, t2.tags = t.signer, t.signM, []string{"jwk/crafted"}
		h.verify(p, t2, h.directed(t2), "jwk-crafted")
	}
}

// describePublic reads algorithm, kid and material of an imported public key.
func describePublic(k key.Key, orig *jkey) (alg, kid string, hasKid bool, strat string, sameMat bool) {
	switch pk := k.(type) {
	case *jwtecdsa.PublicKey:
		ps := pk.Parameters().(*jwtecdsa.Parameters)
		kid, hasKid = pk.KID()
		return ps.Algorithm().String(), kid, hasKid, ps.KIDStrategy().String(), string(pk.PublicPoint()) == string(orig.m.ecPub)
	case *jwtrsassapkcs1.PublicKey:
		ps := pk.Parameters().(*jwtrsassapkcs1.Parameters)
		kid, hasKid = pk.KID()
		return ps.Algorithm().String(), kid, hasKid, ps.KIDStrategy().String(), orig.m.rsa != nil && string(pk.Modulus()) == string(orig.m.rsa.n) && ps.PublicExponent() == 65537
	case *jwtrsassapss.PublicKey:
		ps := pk.Parameters().(*jwtrsassapss.Parameters)
		kid, hasKid = pk.KID()
		return ps.Algorithm().String(), kid, hasKid, ps.KIDStrategy().String(), orig.m.rsa != nil && string(pk.Modulus()) == string(orig.m.rsa.n) && ps.PublicExponent() == 65537
	}
	return fmt.Sprintf("%T", k), "", false, "", false
}

// ---------- split ----------

func (h *H) splitLine(compact string) {
	var sig []byte
	var unsigned string
	var ok bool
	if pan := hlib.Recover(func() { sig, unsigned, ok = jwt.VerifSplitSignedCompact(compact) }); pan != "" {
		h.violate("splitSignedCompact panicked (%s) on %q", pan, compact)
		return
	}
	res := "err"
	if ok {
		res = fmt.Sprintf("ok %d %d", len(unsigned), len(compact)-len(unsigned)-1)
		if want, dec := lenientB64(compact[len(unsigned)+1:]); !dec || string(want) != string(sig) || !strings.HasPrefix(compact, unsigned+".") {
			h.violate("splitSignedCompact(%q) returned signature %x / unsigned %q", compact, sig, unsigned)
		}
	}
	h.o.Emit("J split "+tok(compact), res, false)
	h.o.Count("split/" + strings.Fields(res)[0])
}

// ---------- one case ----------

func (h *H) runCase() {
	r := h.rng
	h.o.Case()
	h.t0 = int64(r.Pick(1000000, 1700000000, 1700000000, 1700000000, 4000000000, 946684800)) + int64(r.Intn(100000))*10
	h.newKeyset()
	h.emitKeys(h.en)
	nTok := 9
	var crafted []*tokInfo
	for i := 0; i < nTok; i++ {
		t := h.craft()
		crafted = append(crafted, t)
		h.splitLine(t.compact)
		clean := len(t.tags) > 0 && t.tags[len(t.tags)-1] == "none"
		label := "manipulated"
		if clean {
			label = "clean"
			if t.signer != "enabled" {
				label = "clean-" + t.signer
			}
		}
		h.verify(h.cur(), t, h.directed(t), label)
		if clean {
			h.verify(h.cur(), t, h.directed(t), label)
			h.verify(h.cur(), t, h.perturb(h.directed(t), t), label)
			h.verify(h.cur(), t, h.perturb(h.directed(t), t), label)
			h.productStep(h.cur(), t, label)
			h.productStep(h.cur(), t, label)
		} else {
			switch r.Intn(3) {
			case 0:
				h.verify(h.cur(), t, h.directed(t), label)
			case 1:
				h.verify(h.cur(), t, h.perturb(h.directed(t), t), label)
			case 2:
				h.productStep(h.cur(), t, label)
			}
		}
	}
	var reals []*realTok
	for i := 0; i < 2; i++ {
		rt := h.realToken()
		if rt == nil {
			continue
		}
		reals = append(reals, rt)
		h.splitLine(rt.t.compact)
		if res := h.verify(h.cur(), rt.t, rt.accept, "real"); !strings.HasPrefix(res, "accept") {
			h.violate("a token made by the keyset's own primary is not accepted by the matching validator: %s token=%q opts=%s", res, rt.t.compact, rt.accept.line())
		}
		h.verify(h.cur(), rt.t, h.directed(rt.t), "real")
		h.verify(h.cur(), rt.t, h.perturb(h.directed(rt.t), rt.t), "real")
		h.productStep(h.cur(), rt.t, "real")
	}
	if h.isMAC {
		// JWK export has nothing to do with MAC keys: it must refuse them
		var err error
		kh := must(handleFor(h.keys, false))
		if pan := hlib.Recover(func() { _, err = jwt.JWKSetFromPublicKeysetHandle(kh) }); pan != "" || err == nil {
			h.violate("JWK export of a MAC keyset: panic=%q err=%v", pan, err)
		}
		h.o.Count("jwk/mac-export-refused")
		return
	}
	h.jwkPhase(reals, crafted[:3])
}

func main() {
	o := hlib.Open("C09")
	defer o.Close()
	seed := *hlib.FlagSeed
	if strings.HasPrefix(*hlib.FlagMode, "prof=") { // developer aid: CPU profile of the harness itself
		f, err := os.Create(strings.TrimPrefix(*hlib.FlagMode, "prof="))
		if err == nil {
			pprof.StartCPUProfile(f)
			defer pprof.StopCPUProfile()
		}
	}
	rand.Reader = &tape{rng: hlib.NewRng(seed, "c09-tape")}
	mon := &monClient{}
	if err := internalregistry.RegisterMonitoringClient(mon); err != nil {
		panic(err)
	}
	rng := hlib.NewRng(seed, "c09")
	h := &H{o: o, rng: rng, mon: mon, pool: newPool(hlib.NewRng(seed, "c09-keys"), 2), seen: map[int]bool{}}
	n := hlib.N(700, 14000)
	for c := 0; c < n; c++ {
		h.runCase()
	}
	o.Hist["opts/product-combinations-visited(of 1440)"] = len(h.seen)
}
