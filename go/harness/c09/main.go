//go:build verif

// placeholder: harness c09 is being written
package main

import "github.com/tink-crypto/tink-go/v2/internal/verifharness/hlib"

func main() {
	o := hlib.Open("c09")
	defer o.Close()
	o.Emit("J reset", "ok", true)
	o.Emit("J split 61612e62622e6363", "ok 5 2", true)
}
