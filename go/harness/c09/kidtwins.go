//go:build verif

package main

// KID TWINS. Two keys with the SAME key material whose kids differ only in a way a sloppy comparison would
// overlook: TINK keys whose key ids give base64url kids that differ in letter case only (0x69b71d79 "abcdeQ" /
// 0x00108311 "ABCDEQ"; ids are built from case-flipped kid strings), and CUSTOM-kid keys with kids such as
// "Signing-Key-2024" / "signing-key-2024", Unicode simple-case-folding pairs ("K" / KELVIN SIGN, "s" / LONG S,
// "σ" / "ς", "é" / "É"), NFC / NFD, trailing blank or NUL, proper prefix. The raw signature of a token of one twin
// is valid under the other twin by construction, so the kid rule alone decides: a token whose header carries
// twin A's kid must be rejected by a keyset holding only twin B, accepted — with A's id in the monitoring log —
// by a keyset holding both (either order), and rejected when A is there but disabled. Tokens are hand-written
// (raw primitive) and made by the library (SignAndEncode / ComputeMACAndEncode on an A-only keyset). Every JWT
// family (HS, ES, RS, PS, ML-DSA); the model decides each line, a Go-side oracle repeats the kid rule in words.

import (
	"encoding/base64"
	"encoding/binary"
	"fmt"
	"strings"
	"time"
	"unicode"

	"github.com/tink-crypto/tink-go/v2/internal/verifharness/hlib"
	"github.com/tink-crypto/tink-go/v2/jwt"
	"github.com/tink-crypto/tink-go/v2/keyset"
)

// customKidTwins: pairs of custom kids; the first eight are equal under strings.EqualFold, the others under
// other kinds of sloppiness (normalisation, trimming, C strings, prefix match).
var customKidTwins = [][2]string{
	{"Signing-Key-2024", "signing-key-2024"},
	{"KEY", "key"},
	{"K1", "\u212a1"},           // KELVIN SIGN folds to k
	{"sig-key", "\u017fig-key"}, // LATIN SMALL LETTER LONG S folds to s
	{"\u00e9", "\u00c9"},       // é / É
	{"\u03c3", "\u03c2"},       // σ / ς (final sigma)
	{"\u01c6", "\u01c5"},       // ǆ / ǅ (title case)
	{"abcdeQ", "ABCDEQ"},        // what a key id's kid looks like
	{"\u00e9", "e\u0301"},      // NFC / NFD
	{"kid", "kid "},
	{"kid", " kid"},
	{"kid", "kid\u0000"},
	{"kid", "kid\u0000x"},
	{"abc", "abcd"},
	{"a", ""},
}

// flipCase flips the case of a random non-empty subset of the ASCII letters of s among its first n bytes
// (s unchanged, false, if there is no letter).
func flipCase(r *hlib.Rng, s string, n int) (string, bool) {
	b := []byte(s)
	var idx []int
	for i := 0; i < len(b) && i < n; i++ {
		if (b[i] >= 'a' && b[i] <= 'z') || (b[i] >= 'A' && b[i] <= 'Z') {
			idx = append(idx, i)
		}
	}
	if len(idx) == 0 {
		return s, false
	}
	switch r.Intn(3) {
	case 0: // one letter
		b[idx[r.Intn(len(idx))]] ^= 0x20
	case 1: // all letters
		for _, i := range idx {
			b[i] ^= 0x20
		}
	default:
		b[idx[r.Intn(len(idx))]] ^= 0x20
		for _, i := range idx {
			if r.Bool() {
				b[i] ^= 0x20
			}
		}
		if string(b) == s {
			b[idx[0]] ^= 0x20
		}
	}
	return string(b), true
}

// foldVariant replaces one letter by a different code point of the same Unicode simple-case-folding orbit
// that is not its ASCII case twin (k → KELVIN SIGN, s → LONG S); false if s has no such letter.
func foldVariant(r *hlib.Rng, s string) (string, bool) {
	rs := []rune(s)
	var idx []int
	for i, c := range rs {
		if c == 'k' || c == 'K' || c == 's' || c == 'S' {
			idx = append(idx, i)
		}
	}
	if len(idx) == 0 {
		return s, false
	}
	i := idx[r.Intn(len(idx))]
	if unicode.ToLower(rs[i]) == 'k' {
		rs[i] = '\u212a'
	} else {
		rs[i] = '\u017f'
	}
	return string(rs), true
}

// twinIDs: two different key ids whose kids (unpadded base64url of the big-endian id) differ in letter case only.
func twinIDs(r *hlib.Rng) (uint32, uint32) {
	const letters = "abcdefghijklmnopqrstuvwxyzABCDEFGHIJKLMNOPQRSTUVWXYZ"
	for {
		b := make([]byte, 6)
		for i := 0; i < 5; i++ {
			b[i] = letters[r.Intn(len(letters))]
			if r.Chance(15) {
				b[i] = "0123456789-_"[r.Intn(12)]
			}
		}
		b[5] = "AQgw"[r.Intn(4)] // the last character carries 2 bits: only these four are canonical
		s := string(b)
		t, ok := flipCase(r, s, 5)
		if !ok {
			continue
		}
		x, err1 := base64.RawURLEncoding.Strict().DecodeString(s)
		y, err2 := base64.RawURLEncoding.Strict().DecodeString(t)
		if err1 != nil || err2 != nil || len(x) != 4 || len(y) != 4 {
			continue
		}
		a, c := binary.BigEndian.Uint32(x), binary.BigEndian.Uint32(y)
		if a == c || kidOfID(a) != s || kidOfID(c) != t || !strings.EqualFold(s, t) {
			panic("c09: twinIDs construction")
		}
		return a, c
	}
}

// ktToken: a hand-written conforming token whose header is the one a producer writes for key k (kid included).
func (h *H) ktToken(k *jkey, en []*jkey) *tokInfo {
	r := h.rng
	hfs := []field{{"alg", jstr(nil, k.m.alg)}}
	if kid := k.headerKid(); kid != nil {
		hfs = append(hfs, field{"kid", jstr(r, *kid)})
	}
	if r.Chance(30) {
		hfs = append(hfs, field{"typ", jstr(nil, "JWT")})
	}
	pfs := []field{{"exp", fmt.Sprint(h.t0 + 3600)}}
	if r.Bool() {
		pfs = append(pfs, field{"iss", jstr(r, pickStr(r))})
	}
	if r.Bool() {
		pfs = append(pfs, field{"nbf", fmt.Sprint(h.t0 - 10)})
	}
	if r.Chance(30) {
		pfs = append(pfs, field{"aud", jstr(r, pickStr(r))})
	}
	u := b64(render(r, shuffle(r, hfs))) + "." + b64(render(r, shuffle(r, pfs)))
	compact := u + "." + base64.RawURLEncoding.EncodeToString(k.m.sign([]byte(u)))
	t := analyse(compact, en)
	t.signer, t.signM, t.tags = "enabled", k.m, []string{"kid-twin"}
	return t
}

// ktJudge: verify t (whose header names key `by`) on the installed keyset; the model decides, and in words:
// accepted iff an enabled key of this material has exactly this kid (or ignores kids / has a custom kid and
// the header has none).
func (h *H) ktJudge(t *tokInfo, by *jkey, what string) {
	res := h.verify(h.cur(), t, h.acceptFor(t), "kid-twin")
	out := strings.Fields(res)[0]
	h.o.Count("kid-twin/" + what + "/" + out)
	hk, _ := t.hdr["kid"].(string)
	_, hasKid := t.hdr["kid"]
	var wantID *uint32
	for _, k := range h.en {
		if k.m != by.m {
			continue
		}
		ok := false
		switch k.strat {
		case stratTink:
			ok = hasKid && hk == kidOfID(k.id)
		case stratCustom:
			ok = !hasKid || hk == k.custom
		default:
			ok = true
		}
		if ok {
			id := k.id
			wantID = &id
			break
		}
	}
	show := func(k *jkey) string {
		if k.strat == stratTink {
			return fmt.Sprintf("TINK id 0x%08x kid %q", k.id, kidOfID(k.id))
		}
		return fmt.Sprintf("%s id 0x%08x custom kid %+q", stratName[k.strat], k.id, k.custom)
	}
	var ks []string
	for _, k := range h.keys {
		ks = append(ks, show(k)+" "+statusName(k.status))
	}
	wrong := (wantID == nil && out == "accept") || (wantID != nil && res != fmt.Sprintf("accept %d", *wantID))
	if wrong {
		h.o.Count("kid-twin/WRONG-VERDICT")
		if h.o.Hist["kid-twin/WRONG-VERDICT"] > 6 { // the model lines carry every one of them
			return
		}
	}
	switch {
	case wantID == nil && out == "accept":
		h.violate("KID TWIN (%s, %s): a token whose header carries the kid %+q of key [%s] is accepted (%s) by a keyset without an enabled key of that kid: [%s]; token=%q",
			by.m.alg, what, hk, show(by), res, strings.Join(ks, "; "), t.compact)
	case wantID != nil && res != fmt.Sprintf("accept %d", *wantID):
		h.violate("KID TWIN (%s, %s): a token with kid %+q must be verified by key 0x%08x of keyset [%s], answer %q; token=%q",
			by.m.alg, what, hk, *wantID, strings.Join(ks, "; "), res, t.compact)
	}
}

// ktScenario installs keys (the first enabled one is the primary) and judges the given tokens' texts on it.
func (h *H) ktScenario(what string, keys []*jkey, toks []*tokInfo, by []*jkey) {
	h.o.Case()
	for _, k := range keys {
		k.primary = false
	}
	for _, k := range keys {
		if k.status == keyset.Enabled {
			k.primary = true
			break
		}
	}
	h.keys = append(h.keys[:0], keys...)
	h.install()
	h.emitKeys(h.en)
	for i, t := range toks {
		t2 := analyse(t.compact, h.en)
		t2.signer, t2.signM, t2.tags = t.signer, t.signM, t.tags
		h.ktJudge(t2, by[i], what)
	}
}

// ktPair runs all scenarios for one pair of twins.
func (h *H) ktPair(a, b *jkey, label string) {
	r := h.rng
	h.isMAC = famOf(a.m.alg) == "HS"
	h.o.Count("kid-twin/pairs/" + famOf(a.m.alg) + "/" + label)
	real := func(k *jkey) *tokInfo {
		// a token made by the library on a keyset holding only k
		h.o.Case()
		k.primary, k.status = true, keyset.Enabled
		h.keys = append(h.keys[:0], k)
		h.install()
		exp := time.Unix(h.t0+3600, 0)
		opts := &jwt.RawJWTOptions{ExpiresAt: &exp}
		want := map[string]any{"exp": float64(h.t0 + 3600)}
		if r.Bool() {
			s := "twin"
			opts.Issuer = &s
			want["iss"] = s
		}
		rt := h.realTokenFrom(opts, want, nil)
		if rt == nil {
			return nil
		}
		rt.t.tags = []string{"kid-twin-real"}
		return rt.t
	}
	ta, tb := h.ktToken(a, []*jkey{a}), h.ktToken(b, []*jkey{b})
	toks, by := []*tokInfo{ta, tb}, []*jkey{a, b}
	if ra := real(a); ra != nil {
		toks, by = append(toks, ra), append(by, a)
	}
	if r.Bool() {
		if rb := real(b); rb != nil {
			toks, by = append(toks, rb), append(by, b)
		}
	}
	a.status, b.status = keyset.Enabled, keyset.Enabled
	h.ktScenario("only-A", []*jkey{a}, toks, by)
	h.ktScenario("only-B", []*jkey{b}, toks, by)
	h.ktScenario("A-then-B", []*jkey{a, b}, toks, by)
	h.ktScenario("B-then-A", []*jkey{b, a}, toks, by)
	a.status = keyset.Disabled
	h.ktScenario("B-and-disabled-A", []*jkey{a, b}, toks, by)
	a.status = keyset.Enabled
	// B next to an unrelated key of the same algorithm whose kid configuration is A's
	u := &jkey{m: h.pool.newMat(a.m.alg), strat: a.strat, id: a.id ^ 0x01010101, custom: a.custom, status: keyset.Enabled}
	if u.m == a.m { // RSA material comes from a small pool
		u.m = h.pool.newMat("ES256")
		if h.isMAC {
			u.m = h.pool.newMat("HS256")
		}
	}
	if u.m != a.m && u.id != b.id {
		h.ktScenario("B-and-unrelated", []*jkey{u, b}, toks, by)
	}
}

func (h *H) kidTwinsPhase() {
	r := h.rng
	seed := int(*hlib.FlagSeed)
	for fi, fam := range []string{"HS", "ES", "RS", "PS", "ML"} {
		algs := famAlgs[fam]
		if !hlib.Thorough() {
			algs = []string{algs[(seed+fi)%3]}
			if fam == "ML" {
				algs = []string{"ML-DSA-44"}
			}
		}
		for _, alg := range algs {
			h.t0 = 1700000000 + int64(r.Intn(100000))*10
			newMat := func() *mat { return h.pool.newMat(alg) }
			// TINK twins: the example pair, then generated ones
			nT, every := hlib.N(3, 8), 3
			switch fam {
			case "HS":
				nT, every = hlib.N(6, 16), 1
			case "RS", "PS", "ML": // key construction and signing are slow: fewer pairs in the quick tier
				nT, every = hlib.N(2, 8), 5
			}
			for i := 0; i < nT; i++ {
				ia, ib := uint32(0x69b71d79), uint32(0x00108311)
				if i > 0 {
					ia, ib = twinIDs(r)
				}
				if r.Bool() {
					ia, ib = ib, ia
				}
				m := newMat()
				h.ktPair(&jkey{m: m, strat: stratTink, id: ia, status: keyset.Enabled}, &jkey{m: m, strat: stratTink, id: ib, status: keyset.Enabled}, "tink-ids")
			}
			// CUSTOM twins
			for pi, pr := range customKidTwins {
				if !hlib.Thorough() && (pi+fi+seed)%every != 0 {
					continue
				}
				ka, kb := pr[0], pr[1]
				if r.Bool() {
					ka, kb = kb, ka
				}
				m := newMat()
				ida := r.KeyID()
				h.ktPair(&jkey{m: m, strat: stratCustom, id: ida, custom: ka, status: keyset.Enabled},
					&jkey{m: m, strat: stratCustom, id: ida ^ 0x00000100, custom: kb, status: keyset.Enabled}, "custom")
			}
			// a TINK key and a CUSTOM key whose custom kid is a case variant of the TINK key's kid
			{
				ia, ib := twinIDs(r)
				m := newMat()
				h.ktPair(&jkey{m: m, strat: stratTink, id: ia, status: keyset.Enabled},
					&jkey{m: m, strat: stratCustom, id: ia ^ 0x00010000, custom: kidOfID(ib), status: keyset.Enabled}, "tink-vs-custom")
			}
		}
	}
}
