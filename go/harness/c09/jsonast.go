//go:build verif

package main

// Independent reading of a compact JWT: base64url (lenient), encoding/json with UseNumber, and the
// encoding of the parsed header/payload for the Lean driver (see lean/Driver/Jwt.lean).

import (
	"bytes"
	"encoding/base64"
	"encoding/hex"
	"encoding/json"
	"io"
	"math/big"
	"sort"
	"strconv"
	"strings"
)

// tok encodes a string for the protocol: "-" for empty, hex of the UTF-8 bytes otherwise.
func tok(s string) string {
	if s == "" {
		return "-"
	}
	return hex.EncodeToString([]byte(s))
}

// optTok encodes an optional string: "~" for absent.
func optTok(s *string) string {
	if s == nil {
		return "~"
	}
	return tok(*s)
}

// lenientB64 decodes base64url or standard base64, with or without padding, ignoring ASCII
// whitespace. It is deliberately more tolerant than the library: the strictness rules are the
// model's business (b64ok), this only recovers the bytes that were encoded.
func lenientB64(s string) ([]byte, bool) {
	var sb strings.Builder
	for i := 0; i < len(s); i++ {
		c := s[i]
		switch {
		case c == ' ' || c == '\n' || c == '\r' || c == '\t':
		case c == '=':
		case c == '+':
			sb.WriteByte('-')
		case c == '/':
			sb.WriteByte('_')
		default:
			sb.WriteByte(c)
		}
	}
	b, err := base64.RawURLEncoding.DecodeString(sb.String())
	if err != nil {
		return nil, false
	}
	return b, true
}

// parseObject parses text as exactly one JSON value and returns it when it is an object.
func parseObject(text []byte) (map[string]any, bool) {
	dec := json.NewDecoder(bytes.NewReader(text))
	dec.UseNumber()
	var v any
	if err := dec.Decode(&v); err != nil {
		return nil, false
	}
	if _, err := dec.Token(); err != io.EOF {
		return nil, false // trailing data
	}
	m, ok := v.(map[string]any)
	if !ok || m == nil {
		return nil, false
	}
	return m, true
}

// decimal splits a JSON number literal into an exact mantissa and a power of ten.
func decimal(n json.Number) (*big.Int, int, bool) {
	s := string(n)
	neg := false
	if strings.HasPrefix(s, "-") {
		neg = true
		s = s[1:]
	}
	exp := 0
	if i := strings.IndexAny(s, "eE"); i >= 0 {
		e, err := strconv.Atoi(strings.TrimPrefix(s[i+1:], "+"))
		if err != nil {
			return nil, 0, false
		}
		exp = e
		s = s[:i]
	}
	intPart, frac := s, ""
	if i := strings.IndexByte(s, '.'); i >= 0 {
		intPart, frac = s[:i], s[i+1:]
	}
	m, ok := new(big.Int).SetString(intPart+frac, 10)
	if !ok {
		return nil, 0, false
	}
	if neg {
		m.Neg(m)
	}
	return m, exp - len(frac), true
}

// truncSeconds is int64(float64) of an exactly representable decimal: truncation toward zero;
// ok=false when the magnitude does not fit an int64.
func truncSeconds(n json.Number) (int64, bool) {
	m, e, ok := decimal(n)
	if !ok {
		return 0, false
	}
	v := new(big.Int).Set(m)
	if e >= 0 {
		v.Mul(v, new(big.Int).Exp(big.NewInt(10), big.NewInt(int64(e)), nil))
	} else {
		v.Quo(v, new(big.Int).Exp(big.NewInt(10), big.NewInt(int64(-e)), nil)) // Quo truncates toward zero
	}
	if !v.IsInt64() {
		return 0, false
	}
	return v.Int64(), true
}

func encItem(v any) string {
	if s, ok := v.(string); ok {
		return "s" + tok(s)
	}
	return "o"
}

func encVal(v any) string {
	switch x := v.(type) {
	case nil:
		return "n"
	case bool:
		if x {
			return "t"
		}
		return "f"
	case json.Number:
		m, e, ok := decimal(x)
		if !ok {
			panic("c09: unparsable json.Number " + string(x))
		}
		return "#" + m.String() + "e" + strconv.Itoa(e)
	case string:
		return "s" + tok(x)
	case []any:
		items := make([]string, len(x))
		for i, it := range x {
			items[i] = encItem(it)
		}
		return "a" + strings.Join(items, "|")
	case map[string]any:
		return "o"
	}
	panic("c09: unexpected JSON value")
}

func sortedKeys(m map[string]any) []string {
	ks := make([]string, 0, len(m))
	for k := range m {
		ks = append(ks, k)
	}
	sort.Strings(ks)
	return ks
}

// encObj encodes a parsed object ("~" when the part is not a JSON object).
func encObj(m map[string]any, ok bool) string {
	if !ok {
		return "~"
	}
	if len(m) == 0 {
		return "{}"
	}
	parts := make([]string, 0, len(m))
	for _, k := range sortedKeys(m) {
		parts = append(parts, tok(k)+"="+encVal(m[k]))
	}
	return strings.Join(parts, ",")
}

// canon converts a parsed JSON value to the shape structpb's AsInterface yields (float64 numbers).
func canon(v any) any {
	switch x := v.(type) {
	case json.Number:
		f, err := strconv.ParseFloat(string(x), 64)
		if err != nil {
			panic("c09: number out of range " + string(x))
		}
		return f
	case []any:
		out := make([]any, len(x))
		for i, it := range x {
			out[i] = canon(it)
		}
		return out
	case map[string]any:
		out := make(map[string]any, len(x))
		for k, it := range x {
			out[k] = canon(it)
		}
		return out
	}
	return v
}
