//go:build verif

package main

// HISTORY: sequences of 6..30 calls on the SAME primitive objects (a jwt.MAC, or a jwt.Signer and a
// jwt.Verifier, obtained from jwt.NewMAC/NewSigner/NewVerifier on a handle built from key objects or read
// back from its serialized form, and kept alive for the whole sequence), interleaving failing calls with
// valid ones. The property: a primitive has no memory — every valid call gives exactly what a FRESH
// primitive (built from the same keyset and called once) gives:
//   - deterministic algorithms (HS*, RS*): the token is byte-identical to the fresh primitive's;
//   - randomized ones (ES*, PS*, ML-DSA): header.payload is identical and each token verifies under the
//     other party's verifier;
//   - every token has exactly two dots, header and payload decode to the JSON that was put in
//     (realTokenFrom in main.go), and its verification is a normal model line, so Lean decides as well.
//
// Failing signing calls (NewRawJWT accepts the options, but the payload or header cannot be marshalled;
// established on the unchanged library): custom number claims NaN / +Inf / -Inf (float64 and float32, also
// nested in an array or an object), a custom claim NAME that is not valid UTF-8, a typ header that is not
// valid UTF-8, a nil *RawJWT. Each must return an error (no panic, no token) and log one monitoring
// failure. The RawJWT of the following valid call is built BEFORE the failing call is made, so the valid
// call follows the failing one immediately on the same goroutine (a sync.Pool entry poisoned by the
// failing call is what the next call gets); every key configuration sees at least 9 such fail→valid
// pairs per run. Constructions that must already fail in NewRawJWT (invalid UTF-8 in values, nested names,
// sub, aud; unsupported Go types; registered names as custom claims; exp together with WithoutExpiration;
// neither; Audience together with Audiences; empty Audiences; out-of-range times; nil options) and
// failing verifications (garbage, empty, oversized compact strings, truncated / glued tokens, validators
// that do not fit or cannot be built) are interleaved too; the verifications are model lines.
//
// Not reachable through the public API: the "TINK keys are not allowed to have a kid value set" branch of
// createUnsigned (the key constructors refuse a custom kid with the key-id-derived strategy, and
// kidConflictProbe below shows that a hand-written proto keyset carrying both is refused before a
// primitive exists); SignAndEncodeWithKID / ComputeMACAndEncodeWithKID are unexported.

import (
	"bytes"
	"fmt"
	"math"
	"strings"
	"time"

	"google.golang.org/protobuf/proto"

	"github.com/tink-crypto/tink-go/v2/insecurecleartextkeyset"
	"github.com/tink-crypto/tink-go/v2/internal/verifharness/hlib"
	"github.com/tink-crypto/tink-go/v2/jwt"
	"github.com/tink-crypto/tink-go/v2/keyset"
	jwthmacpb "github.com/tink-crypto/tink-go/v2/proto/jwt_hmac_go_proto"
	tinkpb "github.com/tink-crypto/tink-go/v2/proto/tink_go_proto"
)

type keyCfg struct {
	alg   string
	strat int
}

var histCfgs = []keyCfg{
	{"HS256", stratTink}, {"HS384", stratCustom}, {"HS512", stratIgnored},
	{"ES256", stratTink}, {"ES384", stratCustom}, {"RS256", stratIgnored}, {"PS256", stratCustom}, {"ML-DSA-44", stratTink},
	// thorough tier
	{"HS256", stratIgnored}, {"HS512", stratTink}, {"ES512", stratIgnored}, {"RS384", stratTink}, {"RS512", stratCustom},
	{"PS384", stratTink}, {"PS512", stratIgnored}, {"ML-DSA-65", stratIgnored}, {"ES256", stratCustom}, {"HS384", stratTink},
}

func deterministicAlg(alg string) bool { return famOf(alg) == "HS" || famOf(alg) == "RS" }

func unsignedOf(compact string) string {
	if i := strings.LastIndex(compact, "."); i >= 0 {
		return compact[:i]
	}
	return compact
}

// ---------- raw JWTs the signer cannot marshal ----------

var failSignKinds = []string{"nan", "+inf", "-inf", "nan-in-array", "inf-in-object", "float32-nan", "bad-utf8-claim-name", "bad-utf8-typ", "nil", "neg-inf-deep"}

// unmarshalable builds the RawJWT of a failing signing call (nil for the "nil" kind). ok=false: NewRawJWT
// already refused the options (then there is no signing call to make).
func unmarshalable(kind string, t0 int64) (raw *jwt.RawJWT, ok bool) {
	exp := time.Unix(t0+3600, 0)
	iss := "issuer"
	o := &jwt.RawJWTOptions{ExpiresAt: &exp, Issuer: &iss}
	switch kind {
	case "nan":
		o.CustomClaims = map[string]any{"n": math.NaN()}
	case "+inf":
		o.CustomClaims = map[string]any{"n": math.Inf(1), "role": "admin"}
	case "-inf":
		o.CustomClaims = map[string]any{"n": math.Inf(-1)}
	case "nan-in-array":
		o.CustomClaims = map[string]any{"list": []any{1.0, "x", math.NaN()}}
	case "inf-in-object":
		o.CustomClaims = map[string]any{"obj": map[string]any{"k": math.Inf(1)}}
	case "neg-inf-deep":
		o.CustomClaims = map[string]any{"obj": map[string]any{"l": []any{map[string]any{"x": math.Inf(-1)}}}}
	case "float32-nan":
		o.CustomClaims = map[string]any{"n": float32(math.NaN())}
	case "bad-utf8-claim-name":
		o.CustomClaims = map[string]any{"a\xffb": "v"}
	case "bad-utf8-typ":
		s := "J\xffWT"
		o.TypeHeader = &s
	case "nil":
		return nil, true
	default:
		panic("unknown failing kind " + kind)
	}
	var err error
	if pan := hlib.Recover(func() { raw, err = jwt.NewRawJWT(o) }); pan != "" || err != nil || raw == nil {
		return nil, false
	}
	return raw, true
}

// failingSign prepares a signing call that must fail; the returned function makes the call and checks it.
func (h *H) failingSign(kind string) func() {
	raw, ok := unmarshalable(kind, h.t0)
	if !ok {
		h.o.Count("history/failing-sign-refused-by-NewRawJWT/" + kind)
		return func() {}
	}
	return func() {
		var c string
		var err error
		h.mon.reset()
		pan := hlib.Recover(func() {
			if h.isMAC {
				c, err = h.mac.ComputeMACAndEncode(raw)
			} else {
				c, err = h.sig.SignAndEncode(raw)
			}
		})
		switch {
		case pan != "":
			h.violate("signing a raw JWT that cannot be marshalled (%s) panicked: %s", kind, pan)
		case err == nil:
			h.violate("signing a raw JWT that cannot be marshalled (%s) succeeded: token=%q", kind, c)
		case c != "":
			h.violate("a failing signing call (%s: %v) returned the token %q", kind, err, c)
		}
		if pan == "" && (len(h.mon.logs) != 0 || len(h.mon.fails) != 1) {
			h.violate("a failing signing call (%s) was logged as %d successes and %d failures", kind, len(h.mon.logs), len(h.mon.fails))
		}
		h.o.Count("history/failing-sign/" + kind)
	}
}

// ---------- options NewRawJWT must refuse ----------

var refusedKinds = []string{"nil-opts", "bad-utf8-value", "bad-utf8-nested-name", "bad-utf8-nested-value", "bad-utf8-sub", "bad-utf8-iss", "bad-utf8-jti",
	"bad-utf8-aud", "bad-utf8-auds", "registered-as-custom", "exp-and-without", "no-exp", "aud-and-auds", "empty-auds", "unsupported-type",
	"string-slice", "exp-year-10000", "exp-negative", "nbf-year-10000"}

func (h *H) refusedConstruction(kind string) {
	exp := time.Unix(h.t0+3600, 0)
	bad := "v\xff"
	o := &jwt.RawJWTOptions{ExpiresAt: &exp}
	switch kind {
	case "nil-opts":
		o = nil
	case "bad-utf8-value":
		o.CustomClaims = map[string]any{"a": bad}
	case "bad-utf8-nested-name":
		o.CustomClaims = map[string]any{"a": map[string]any{"k\xff": 1.0}}
	case "bad-utf8-nested-value":
		o.CustomClaims = map[string]any{"a": []any{"\xc3"}}
	case "bad-utf8-sub":
		o.Subject = &bad
	case "bad-utf8-iss":
		o.Issuer = &bad
	case "bad-utf8-jti":
		o.JWTID = &bad
	case "bad-utf8-aud":
		o.Audience = &bad
	case "bad-utf8-auds":
		o.Audiences = []string{"ok", bad}
	case "registered-as-custom":
		o.CustomClaims = map[string]any{[]string{"iss", "sub", "aud", "jti", "exp", "nbf", "iat"}[h.rng.Intn(7)]: "x"}
	case "exp-and-without":
		o.WithoutExpiration = true
	case "no-exp":
		o.ExpiresAt = nil
	case "aud-and-auds":
		a := "a"
		o.Audience, o.Audiences = &a, []string{"b"}
	case "empty-auds":
		o.Audiences = []string{}
	case "unsupported-type":
		o.CustomClaims = map[string]any{"a": struct{}{}}
	case "string-slice":
		o.CustomClaims = map[string]any{"a": []string{"x"}}
	case "exp-year-10000":
		t := time.Unix(tsMax+1, 0)
		o.ExpiresAt = &t
	case "exp-negative":
		t := time.Unix(-1, 0)
		o.ExpiresAt = &t
	case "nbf-year-10000":
		t := time.Unix(tsMax+1, 0)
		o.NotBefore = &t
	default:
		panic("unknown refused kind " + kind)
	}
	var raw *jwt.RawJWT
	var err error
	pan := hlib.Recover(func() { raw, err = jwt.NewRawJWT(o) })
	switch {
	case pan != "":
		h.violate("NewRawJWT panicked on invalid options (%s): %s", kind, pan)
	case err == nil:
		h.violate("NewRawJWT accepted invalid options (%s)", kind)
	case raw != nil:
		h.violate("NewRawJWT returned a RawJWT together with the error %v (%s)", err, kind)
	}
	h.o.Count("history/refused-construction/" + kind)
}

// ---------- steps ----------

type history struct {
	cfg      keyCfg
	produced []*realTok
	pairs    int // fail→valid pairs made
	calls    int
}

// validSign: one valid signing call on the long-lived primitive (pre, if any, runs directly in front of it),
// compared with a fresh primitive; the token is verified by the long-lived and by the fresh verifier.
func (h *H) validSign(hs *history, pre func()) {
	opts, want := h.realOpts()
	rt := h.realTokenFrom(opts, want, pre)
	hs.calls++
	if rt == nil {
		return
	}
	compact := rt.t.compact
	hs.produced = append(hs.produced, rt)
	fm, fs, fv := h.freshPrims()
	var c2 string
	var err error
	pan := hlib.Recover(func() {
		raw2 := must(jwt.NewRawJWT(opts))
		if h.isMAC {
			c2, err = fm.ComputeMACAndEncode(raw2)
		} else {
			c2, err = fs.SignAndEncode(raw2)
		}
	})
	if pan != "" || err != nil {
		h.violate("a fresh primitive cannot sign what the long-lived one signed: panic=%q err=%v", pan, err)
		return
	}
	if unsignedOf(c2) != unsignedOf(compact) {
		h.violate("after %d calls the long-lived %s primitive wrote header.payload %q, a fresh primitive %q", hs.calls, hs.cfg.alg, unsignedOf(compact), unsignedOf(c2))
	} else if deterministicAlg(hs.cfg.alg) && c2 != compact {
		h.violate("after %d calls the long-lived %s primitive made %q, a fresh primitive %q (deterministic algorithm)", hs.calls, hs.cfg.alg, compact, c2)
	}
	h.o.Count("history/valid-sign/" + hs.cfg.alg)
	if res := h.verify(h.cur(), rt.t, rt.accept, "history"); !strings.HasPrefix(res, "accept") {
		h.violate("call %d of a history: the long-lived verifier does not accept the token just made: %s token=%q opts=%s", hs.calls, res, compact, rt.accept.line())
	}
	if res := h.verify(prims{mac: fm, ver: fv, enabled: h.en}, rt.t, rt.accept, "history-fresh"); !strings.HasPrefix(res, "accept") {
		h.violate("call %d of a history: a fresh verifier does not accept the long-lived signer's token: %s token=%q opts=%s", hs.calls, res, compact, rt.accept.line())
	}
	if c2 != compact {
		t2 := analyse(c2, h.en)
		t2.signer, t2.signM, t2.tags = "real", rt.t.signM, []string{"history/fresh-signed"}
		if res := h.verify(h.cur(), t2, rt.accept, "history"); !strings.HasPrefix(res, "accept") {
			h.violate("call %d of a history: the long-lived verifier does not accept a fresh signer's token: %s token=%q opts=%s", hs.calls, res, c2, rt.accept.line())
		}
	}
}

// failingVerify: one verification of something that is not an acceptable token; the model decides, and
// the long-lived verifier must answer with an error (no panic: h.verify).
func (h *H) failingVerify(hs *history) {
	r := h.rng
	hs.calls++
	var prev *realTok
	if len(hs.produced) > 0 {
		prev = hs.produced[r.Intn(len(hs.produced))]
	}
	kind := r.Intn(12)
	if prev == nil && kind >= 4 {
		kind = r.Intn(4)
	}
	var compact string
	switch kind {
	case 0:
		compact = []string{"", ".", "..", "...", " ", "\x00", "a", "a.b", "a.b.c", "e30.e30.AA", "🙂.🙂.🙂", "e30..", ".e30.", "..AA"}[r.Intn(14)]
	case 1:
		compact = strings.Repeat("A", 1+r.Intn(5000))
	case 2:
		compact = strings.Repeat("e30.", 1+r.Intn(6)) + "AA"
	case 3:
		compact = string(r.Bytes(1 + r.Intn(64)))
		compact = strings.NewReplacer("\n", "n", "\r", "r").Replace(compact)
	case 4:
		compact = prev.t.compact[:len(prev.t.compact)-1-r.Intn(3)]
	case 5:
		compact = prev.t.compact + []string{".", "A", "=", " ", ".AA"}[r.Intn(5)]
	case 6:
		compact = unsignedOf(prev.t.compact) + "." + []string{"", "AA", "AAAA"}[r.Intn(3)]
	case 7:
		compact = prev.t.compact + "." + prev.t.compact
	case 8:
		// the structure a poisoned buffer would produce: header.header.payload.signature
		p := strings.SplitN(prev.t.compact, ".", 2)
		compact = p[0] + "." + prev.t.compact
	case 9:
		// a validator that does not fit (or cannot be built) on a good token
		h.verify(h.cur(), prev.t, h.perturb(prev.accept, prev.t), "history-mismatch")
		h.o.Count("history/failing-verify/validator")
		return
	case 10:
		// expired / not yet valid
		v := prev.accept
		v.now = (h.t0 + int64(r.Pick(7200, 7201, 86400, -86400)))*sec + int64(r.Pick(0, 1))
		h.verify(h.cur(), prev.t, v, "history-mismatch")
		h.o.Count("history/failing-verify/clock")
		return
	case 11:
		// oversized: a good header, 100 KiB of payload, the old signature
		p := strings.Split(prev.t.compact, ".")
		compact = p[0] + "." + b64(`{"pad":"`+strings.Repeat("z", 100<<10)+`"}`) + "." + p[len(p)-1]
	}
	t := analyse(compact, h.en)
	t.signer, t.tags = "enabled", []string{"history/garbage"}
	v := vopts{allowMissing: true, now: h.t0 * sec}
	if prev != nil {
		v = prev.accept
	}
	res := h.verify(h.cur(), t, v, "history-garbage")
	if strings.HasPrefix(res, "accept") && !strings.Contains(t.bits, "1") {
		h.violate("call %d of a history: a string that is not a token of this keyset was accepted: %q", hs.calls, compact)
	}
	h.o.Count(fmt.Sprintf("history/failing-verify/kind-%d", kind))
}

// replay verifies a token made earlier in the sequence again.
func (h *H) replayVerify(hs *history) {
	if len(hs.produced) == 0 {
		h.failingVerify(hs)
		return
	}
	hs.calls++
	prev := hs.produced[h.rng.Intn(len(hs.produced))]
	if res := h.verify(h.cur(), prev.t, prev.accept, "history-replay"); !strings.HasPrefix(res, "accept") {
		h.violate("call %d of a history: a token accepted earlier is no longer accepted: %s token=%q", hs.calls, res, prev.t.compact)
	}
}

// historySeq runs one sequence on freshly installed long-lived primitives.
func (h *H) historySeq(cfg keyCfg, burst bool, seqNo int) {
	r := h.rng
	h.o.Case()
	h.t0 = int64(r.Pick(1700000000, 1700000000, 946684800, 4000000000)) + int64(r.Intn(100000))*10
	h.isMAC = famOf(cfg.alg) == "HS"
	k := &jkey{m: h.pool.newMat(cfg.alg), strat: cfg.strat, id: r.KeyID(), status: keyset.Enabled, primary: true}
	if cfg.strat == stratCustom {
		k.custom = customKids[r.Intn(len(customKids))]
	}
	h.keys = append(h.keys[:0], k)
	if r.Chance(40) {
		// a second enabled key of the family, so that the verifier walks more than one key
		alg2 := famAlgs[famOf(cfg.alg)][r.Intn(2)]
		k2 := &jkey{m: h.pool.newMat(alg2), strat: r.Intn(3), id: k.id + 1 + uint32(r.Intn(1000)), status: keyset.Enabled}
		if k2.strat == stratCustom {
			k2.custom = "second"
		}
		if r.Bool() {
			h.keys = append(h.keys, k2)
		} else {
			h.keys = []*jkey{k2, k}
		}
	}
	h.install()
	h.emitKeys(h.en)
	hs := &history{cfg: cfg}
	pair := func(kinds ...string) {
		fs := make([]func(), len(kinds))
		for i, kd := range kinds {
			fs[i] = h.failingSign(kd)
		}
		hs.calls += len(kinds)
		hs.pairs++
		h.validSign(hs, func() {
			for _, f := range fs {
				f()
			}
		})
	}
	if burst {
		// ≥ 9 fail→valid pairs, every failing kind, a verification now and then
		for j := 0; j < 10; j++ {
			pair(failSignKinds[(j+seqNo)%len(failSignKinds)])
			if j%3 == 2 {
				h.failingVerify(hs)
			}
			if j == 4 {
				pair(failSignKinds[r.Intn(len(failSignKinds))], failSignKinds[r.Intn(len(failSignKinds))])
			}
		}
		h.replayVerify(hs)
	} else {
		n := 6 + r.Intn(25)
		for hs.calls < n {
			switch c := r.Intn(100); {
			case c < 25:
				h.validSign(hs, nil)
			case c < 50:
				pair(failSignKinds[r.Intn(len(failSignKinds))])
			case c < 58:
				hs.calls++
				h.failingSign(failSignKinds[r.Intn(len(failSignKinds))])() // a failing call followed by something else
			case c < 68:
				hs.calls++
				h.refusedConstruction(refusedKinds[r.Intn(len(refusedKinds))])
			case c < 88:
				h.failingVerify(hs)
			default:
				h.replayVerify(hs)
			}
		}
		// the sequence ends with a valid call (whatever came before)
		h.validSign(hs, nil)
	}
	h.o.Count(fmt.Sprintf("history/sequences/%s/%s", cfg.alg, stratName[cfg.strat]))
	h.o.Hist["history/calls"] += hs.calls
	h.o.Hist["history/fail→valid-pairs"] += hs.pairs
	h.o.Hist["history/fail→valid-pairs/"+cfg.alg] += hs.pairs
}

func (h *H) historyPhase() {
	nCfg := hlib.N(8, len(histCfgs))
	if nCfg > len(histCfgs) {
		nCfg = len(histCfgs)
	}
	rounds := hlib.N(1, 4)
	seq := 0
	for rd := 0; rd < rounds; rd++ {
		for _, cfg := range histCfgs[:nCfg] {
			h.historySeq(cfg, true, seq)
			seq++
			h.historySeq(cfg, false, seq)
			seq++
		}
	}
	// every option set NewRawJWT must refuse, once per run whatever the sequences drew
	h.o.Case()
	for _, kd := range refusedKinds {
		h.refusedConstruction(kd)
	}
	h.kidConflictProbe()
}

// kidConflictProbe: a hand-written proto keyset whose JWT HMAC key has the TINK output prefix AND a
// custom kid. The only public way to get both kids into createUnsigned; the library must refuse it
// somewhere (reading the keyset, building the primitive, or signing) without a panic.
func (h *H) kidConflictProbe() {
	kv := must(proto.Marshal(&jwthmacpb.JwtHmacKey{Version: 0, Algorithm: jwthmacpb.JwtHmacAlgorithm_HS256, KeyValue: h.rng.Bytes(32),
		CustomKid: &jwthmacpb.JwtHmacKey_CustomKid{Value: "custom"}}))
	ks := must(proto.Marshal(&tinkpb.Keyset{PrimaryKeyId: 7, Key: []*tinkpb.Keyset_Key{{
		KeyData: &tinkpb.KeyData{TypeUrl: "type.googleapis.com/google.crypto.tink.JwtHmacKey", Value: kv, KeyMaterialType: tinkpb.KeyData_SYMMETRIC},
		Status:  tinkpb.KeyStatusType_ENABLED, KeyId: 7, OutputPrefixType: tinkpb.OutputPrefixType_TINK}}}))
	stage := ""
	var tokenOut string
	pan := hlib.Recover(func() {
		kh, err := insecurecleartextkeyset.Read(keyset.NewBinaryReader(bytes.NewReader(ks)))
		if err != nil {
			stage = "refused-reading-the-keyset"
			return
		}
		m, err := jwt.NewMAC(kh)
		if err != nil {
			stage = "refused-building-the-primitive"
			return
		}
		exp := time.Unix(h.t0+3600, 0)
		raw := must(jwt.NewRawJWT(&jwt.RawJWTOptions{ExpiresAt: &exp}))
		tokenOut, err = m.ComputeMACAndEncode(raw)
		if err != nil {
			stage = "refused-signing"
			return
		}
		stage = "signed"
	})
	switch {
	case pan != "":
		h.violate("a TINK-prefixed JWT HMAC key with a custom kid makes the library panic: %s", pan)
	case stage == "signed":
		h.violate("a TINK-prefixed JWT HMAC key with a custom kid signs tokens (TINK keys are not allowed to have a kid value set): %q", tokenOut)
	}
	h.o.Count("history/kid-conflict-probe/" + stage)
}
