//go:build verif

package main

// LARGE tokens: header.payload of ≈ 60 KiB, 64 KiB − 16, 65536 − 1 / exactly 65536 / + 1, 64 KiB + 16,
// 70 KiB, 128 KiB − 1 / 128 KiB / + 1, 200 KiB (more sizes in the thorough tier), through MAC keys
// (HS256/384/512 × key-id kid / custom kid / no kid) and signature keys (ES256, RS256, PS256, ML-DSA-44,
// ES384). The bulk is a custom string claim, an array claim or an object claim of thousands of entries, a
// long `sub`, or an `aud` list of thousands of entries.
//
// Per case (one key configuration, one size, one shape):
//   - a token made by the library (jwt.NewRawJWT → ComputeMACAndEncode / SignAndEncode) whose header.payload
//     has EXACTLY the target length (the fill claim is sized from RawJWT.JSONPayload(); reached unless the
//     length is ≡ 1 mod 4 for every typ header tried): header and payload must be the JSON put in; for
//     MAC keys the tag must equal crypto/hmac over the WHOLE header.payload with the raw key bytes, byte
//     for byte; for signature keys the raw single-key verifier must accept it over the whole
//     header.payload (the bits of the model line); it is verified (model line; must be accepted; the claims
//     returned are compared with the independent parse of the full payload in main.go's checkClaims);
//   - a hand-written token of the same size and shape, `exp`, `sub` and a role claim at the END of the
//     payload, signed by the independent raw primitive over the whole header.payload: must be accepted;
//   - mutations of both beyond offsets 65536 and 131072 of header.payload with the ORIGINAL tag: one
//     letter inside the padding (still the same JSON structure), the trailing claim value "alice"→"admin",
//     `exp` moved 10⁹ s into the future (verified at a time the original is expired), one base64 character,
//     trailing JSON whitespace appended, garbage appended, truncation at the offset and before the end.
//     None may be accepted (o.Violate); a rotating selection is also sent to the model.

import (
	"bytes"
	"crypto/hmac"
	"crypto/sha256"
	"crypto/sha512"
	"encoding/base64"
	"fmt"
	"hash"
	"strings"
	"time"

	"github.com/tink-crypto/tink-go/v2/internal/verifharness/hlib"
	"github.com/tink-crypto/tink-go/v2/jwt"
	"github.com/tink-crypto/tink-go/v2/keyset"
)

var largeTargets = []int{60 << 10, 65536 - 16, 65535, 65536, 65537, 65536 + 16, 70 << 10, 131071, 131072, 131073, 200 << 10,
	// thorough tier
	65534, 65538, 65540, 96 << 10, 131072 - 16, 131072 + 16, 256 << 10, 300000}

var largeSigCfgs = []keyCfg{{"ES256", stratTink}, {"RS256", stratIgnored}, {"PS256", stratCustom}, {"ML-DSA-44", stratTink}, {"ES384", stratIgnored}}

var largeShapes = []string{"string", "array", "object", "sub", "aud"}

const padPattern = "pad~x?y_z-w." // letters to mutate, and characters whose base64 uses '-' and '_'

func padString(n int) string {
	return strings.Repeat(padPattern, n/len(padPattern)+1)[:n]
}

// bulk returns the padding value of about n bytes of JSON for a shape, as a Go value for the library
// and as JSON text for the hand-written token.
func bulk(shape string, n int) (val any, text string, strs []string) {
	switch shape {
	case "string", "sub":
		s := padString(n)
		return s, `"` + s + `"`, nil
	case "array", "aud":
		var items []any
		var sb strings.Builder
		sb.WriteByte('[')
		for i := 0; i*22 < n || i == 0; i++ {
			s := fmt.Sprintf("e%06d-%s", i, padPattern[:11])
			items = append(items, s)
			strs = append(strs, s)
			if i > 0 {
				sb.WriteByte(',')
			}
			sb.WriteString(`"` + s + `"`)
		}
		sb.WriteByte(']')
		return items, sb.String(), strs
	case "object":
		m := map[string]any{}
		var sb strings.Builder
		sb.WriteByte('{')
		for i := 0; i*24 < n || i == 0; i++ {
			k, v := fmt.Sprintf("k%06d", i), padPattern[:11]
			m[k] = v
			if i > 0 {
				sb.WriteByte(',')
			}
			sb.WriteString(`"` + k + `":"` + v + `"`)
		}
		sb.WriteByte('}')
		return m, sb.String(), nil
	}
	panic("unknown shape " + shape)
}

// largeOpts: the options of a library-made token with a bulk of about n bytes and a fill claim of `fill` bytes.
func largeOpts(shape string, n, fill int, typ *string, t0 int64) (*jwt.RawJWTOptions, map[string]any) {
	exp := time.Unix(t0+3600, 0)
	val, _, strs := bulk(shape, n)
	fs := strings.Repeat("f", fill)
	o := &jwt.RawJWTOptions{ExpiresAt: &exp, TypeHeader: typ, CustomClaims: map[string]any{"a_fill": fs, "zz_role": "alice"}}
	want := map[string]any{"exp": float64(t0 + 3600), "a_fill": fs, "zz_role": "alice"}
	alice := "alice"
	switch shape {
	case "sub":
		s := val.(string)
		o.Subject = &s
		want["sub"] = s
	case "aud":
		o.Audiences = strs
		o.Subject = &alice
		want["aud"], want["sub"] = val, alice
	default:
		o.CustomClaims["a_pad"] = val
		o.Subject = &alice
		want["a_pad"], want["sub"] = val, alice
	}
	return o, want
}

func b64Len(n int) int { return (n*4 + 2) / 3 }

// bytesForB64Len: the number of bytes whose unpadded base64 has exactly l characters (ok=false: l ≡ 1 mod 4).
func bytesForB64Len(l int) (int, bool) {
	switch l % 4 {
	case 0:
		return l / 4 * 3, true
	case 2:
		return l/4*3 + 1, true
	case 3:
		return l/4*3 + 2, true
	}
	return 0, false
}

func (h *H) signRaw(raw *jwt.RawJWT) (string, error) {
	if h.isMAC {
		return h.mac.ComputeMACAndEncode(raw)
	}
	return h.sig.SignAndEncode(raw)
}

// largeReal makes the library-signed token whose header.payload has exactly `target` characters.
func (h *H) largeReal(target int, shape string) (*realTok, bool) {
	exp := time.Unix(h.t0+3600, 0)
	for _, ts := range []string{"", "JWT", "at+jwt", "a", "ab"} {
		var typ *string
		if ts != "" {
			s := ts
			typ = &s
		}
		// the header this keyset writes for this typ
		probe, err := h.signRaw(must(jwt.NewRawJWT(&jwt.RawJWTOptions{ExpiresAt: &exp, TypeHeader: typ})))
		if err != nil {
			h.violate("cannot sign a small token: %v", err)
			return nil, false
		}
		hl := strings.IndexByte(probe, '.')
		need, ok := bytesForB64Len(target - hl - 1)
		if !ok {
			continue
		}
		n, fill := need-400, 100
		for iter := 0; iter < 6; iter++ {
			opts, want := largeOpts(shape, n, fill, typ, h.t0)
			raw, err := jwt.NewRawJWT(opts)
			if err != nil {
				h.violate("NewRawJWT refuses a large (%d bytes, %s) but valid token: %v", target, shape, err)
				return nil, false
			}
			js, err := raw.JSONPayload()
			if err != nil {
				h.violate("JSONPayload of a large (%d bytes, %s) token: %v", target, shape, err)
				return nil, false
			}
			if d := need - len(js); d != 0 {
				fill += d
				if fill < 0 {
					n += fill - 100
					fill = 100
				}
				continue
			}
			rt := h.realTokenFrom(opts, want, nil)
			if rt == nil {
				return nil, false
			}
			exact := len(unsignedOf(rt.t.compact)) == target
			if !exact {
				h.o.Count("large/size-missed")
			}
			return rt, exact
		}
	}
	h.o.Count("large/size-not-reachable")
	return nil, false
}

// largeCrafted writes header and payload by hand (exp, sub and the role claim LAST) so that header.payload
// has exactly `target` characters, and signs with the raw primitive of the primary.
func (h *H) largeCrafted(target int, shape string, primary *jkey) *tokInfo {
	for _, ts := range []string{"", "JWT", "at+jwt", "a", "ab"} {
		hfs := []field{{"alg", jstr(nil, primary.m.alg)}}
		if kid := primary.headerKid(); kid != nil {
			hfs = append(hfs, field{"kid", jstr(nil, *kid)})
		}
		if ts != "" {
			hfs = append(hfs, field{"typ", jstr(nil, ts)})
		}
		htext := plainObject(hfs)
		need, ok := bytesForB64Len(target - b64Len(len(htext)) - 1)
		if !ok {
			continue
		}
		mk := func(n, fill int) string {
			_, btext, _ := bulk(shape, n)
			fs := []field{{"iss", `"large"`}, {"a_fill", `"` + strings.Repeat("f", fill) + `"`}}
			switch shape {
			case "sub":
				fs = append(fs, field{"exp", fmt.Sprint(h.t0 + 3600)}, field{"sub", btext}, field{"zz_role", `"alice"`})
			case "aud":
				fs = append(fs, field{"aud", btext}, field{"exp", fmt.Sprint(h.t0 + 3600)}, field{"sub", `"alice"`}, field{"zz_role", `"alice"`})
			default:
				fs = append(fs, field{"a_pad", btext}, field{"exp", fmt.Sprint(h.t0 + 3600)}, field{"sub", `"alice"`}, field{"zz_role", `"alice"`})
			}
			return plainObject(fs)
		}
		n := need - 400
		base := mk(n, 0)
		fill := need - len(base)
		if fill < 0 {
			panic("c09: large crafted payload overshoots")
		}
		ptext := mk(n, fill)
		u := b64(htext) + "." + b64(ptext)
		if len(u) != target {
			panic(fmt.Sprintf("c09: crafted large token has %d characters, want %d", len(u), target))
		}
		compact := u + "." + base64.RawURLEncoding.EncodeToString(primary.m.sign([]byte(u)))
		t := analyse(compact, h.en)
		t.signer, t.signM, t.tags = "enabled", primary.m, []string{"large/crafted"}
		return t
	}
	return nil
}

func plainObject(fs []field) string {
	var sb strings.Builder
	sb.WriteByte('{')
	for i, f := range fs {
		if i > 0 {
			sb.WriteByte(',')
		}
		sb.WriteString(jstr(nil, f.k) + ":" + f.v)
	}
	sb.WriteByte('}')
	return sb.String()
}

func (h *H) acceptFor(t *tokInfo) vopts {
	v := vopts{expTyp: t.typ, expIss: t.iss, allowMissing: !t.hasExp, now: h.t0 * sec}
	if len(t.auds) > 0 {
		v.expAud = &t.auds[len(t.auds)/2]
	}
	return v
}

// ---------- mutations beyond an offset ----------

type lmut struct {
	kind string
	u    string // the mutated header.payload
	off  int    // first offset at which it differs from the original (len(original) for extensions)
	late bool   // verify at a time the ORIGINAL token is expired (exp moved into the future)
}

func firstDiff(a, b string) int {
	n := min(len(a), len(b))
	for i := 0; i < n; i++ {
		if a[i] != b[i] {
			return i
		}
	}
	return n
}

// largeMutations: changes of u = header.payload that start at or beyond offset th.
func largeMutations(r *hlib.Rng, u string, th int) []lmut {
	var out []lmut
	dot := strings.IndexByte(u, '.')
	hpart, ppart := u[:dot], u[dot+1:]
	pb, err := base64.RawURLEncoding.DecodeString(ppart)
	if err != nil {
		panic("c09: payload of a large token is not base64url")
	}
	enc := base64.RawURLEncoding.EncodeToString
	add := func(kind string, pb2 []byte, late bool) {
		u2 := hpart + "." + enc(pb2)
		if off := firstDiff(u, u2); off >= th && u2 != u {
			out = append(out, lmut{kind, u2, off, late})
		}
	}
	clone := func() []byte { return append([]byte(nil), pb...) }
	// the first payload byte whose base64 group starts at or after th
	bi := 0
	if th > dot+1 {
		bi = (th - dot - 1 + 3) / 4 * 3
	}
	// one letter inside the padding
	for i := bi; i < len(pb)-40; i++ {
		if c := pb[i]; i > 0 && c >= 'a' && c <= 'y' && c != 'n' && c != 't' && c != 'f' && c != 'e' { // not inside true/false/null/exponents
			if pb[i-1] == '\\' {
				continue
			}
			c2 := clone()
			c2[i] = c + 1
			add("pad-letter", c2, false)
			break
		}
	}
	// the trailing claim value
	if i := bytes.LastIndex(pb, []byte(`"alice"`)); i >= bi {
		c2 := clone()
		copy(c2[i:], `"admin"`)
		add("tail-claim-value", c2, false)
	}
	// exp moved 10⁹ s into the future
	if i := bytes.LastIndex(pb, []byte(`"exp":`)); i >= bi {
		j := i + len(`"exp":`)
		for j < len(pb) && pb[j] == ' ' {
			j++
		}
		if j < len(pb) && pb[j] >= '0' && pb[j] <= '8' {
			c2 := clone()
			c2[j]++
			add("exp-extended", c2, true)
		}
	}
	// trailing JSON whitespace
	add("whitespace-appended", append(clone(), "   \n "[:1+r.Intn(5)]...), false)
	// one base64 character
	if len(u) > th+2 {
		o := th + r.Intn(len(u)-th)
		if o <= dot {
			o = dot + 1 + r.Intn(len(ppart))
		}
		i := strings.IndexByte(b64url, u[o])
		c := b64url[(i+1+r.Intn(62))%64]
		if o == len(u)-1 && len(ppart)%4 != 0 {
			c = b64url[(i+32)%64] // the last character carries unused bits: change a used one
		}
		if c != u[o] {
			out = append(out, lmut{"base64-char", u[:o] + string(c) + u[o+1:], o, false})
		}
	}
	// garbage appended, truncation
	out = append(out, lmut{"extended", u + []string{"AAAA", "e30", "A", "fQ"}[r.Intn(4)], len(u), false})
	if th > dot+8 && th < len(u) {
		out = append(out, lmut{"truncated-at-offset", u[:th], th, false})
		if (th+1-dot-1)%4 != 1 && th+1 < len(u) {
			out = append(out, lmut{"truncated-after-offset", u[:th+1+r.Intn(min(16, len(u)-th-1))], th + 1, false})
		}
	}
	if len(u)-4 > dot+8 && len(u)-4 >= th {
		out = append(out, lmut{"truncated-at-end", u[:len(u)-1-r.Intn(4)], len(u) - 4, false})
	}
	return out
}

// mutated runs the mutations of one base token; `emit` of them (rotating with rot) become model lines.
func (h *H) mutated(base *tokInfo, accept vopts, th, emit, rot int, what string) {
	i := strings.LastIndex(base.compact, ".")
	u, sig := base.compact[:i], base.compact[i+1:]
	muts := largeMutations(h.rng, u, th)
	for mi, m := range muts {
		compact := m.u + "." + sig
		v := accept
		if m.late {
			v.now = (h.t0 + 7200) * sec
		}
		if th == 65536 || th == 131072 {
			h.o.Count(fmt.Sprintf("large/mutation/%s/beyond-%d", m.kind, th))
		} else {
			h.o.Count(fmt.Sprintf("large/mutation/%s/second-half-of-a-token-up-to-64KiB", m.kind))
		}
		msg := func(res string) {
			h.violate("FORGERY: %s token (%s, header.payload %d bytes) changed from offset %d on (%s, beyond %d) with the ORIGINAL tag/signature is not rejected: %s; mutated token=%q",
				what, base.signM.alg, len(u), m.off, m.kind, th, res, compact)
		}
		if emit > 0 && (mi+rot)%len(muts) < emit {
			t2 := analyse(compact, h.en)
			if strings.Contains(t2.bits, "1") {
				// the independent raw primitive finds the ORIGINAL tag valid for the changed text: the tag
				// the library made cannot be over the whole header.payload
				h.violate("the tag/signature of a %s %s token (header.payload %d bytes) is, for the independent raw primitive, also valid for the text changed from offset %d on (%s): it does not cover the whole header.payload; token=%q",
					what, base.signM.alg, len(u), m.off, m.kind, base.compact)
				continue
			}
			t2.signer, t2.signM, t2.tags = "enabled", base.signM, []string{"large/mutated-" + m.kind}
			if m.late {
				// the original at that time: expired (model line)
				h.verify(h.cur(), base, v, "large-late")
			}
			if res := h.verify(h.cur(), t2, v, "large-mutated"); res != "verr" {
				msg(res)
			}
			continue
		}
		val, err := v.build()
		if err != nil {
			panic("c09: validator of a large token does not build")
		}
		var vj *jwt.VerifiedJWT
		pan := hlib.Recover(func() {
			if h.isMAC {
				vj, err = h.mac.VerifyMACAndDecode(compact, val)
			} else {
				vj, err = h.ver.VerifyAndDecode(compact, val)
			}
		})
		switch {
		case pan != "":
			msg("panic " + pan)
		case err == nil || vj != nil:
			msg("accepted")
		case !jwt.VerifIsVerificationErr(err):
			msg("error is not the verification error: " + err.Error())
		}
	}
}

// ---------- one case ----------

func hmacOver(alg string, key, data []byte) []byte {
	var f func() hash.Hash
	switch alg {
	case "HS256":
		f = sha256.New
	case "HS384":
		f = sha512.New384
	case "HS512":
		f = sha512.New
	}
	m := hmac.New(f, key)
	m.Write(data)
	return m.Sum(nil)
}

func (h *H) largeCase(target int, cfg keyCfg, shape string, second bool, rot int) {
	r := h.rng
	h.o.Case()
	h.t0 = 1700000000 + int64(r.Intn(100000))*10
	h.isMAC = famOf(cfg.alg) == "HS"
	k := &jkey{m: h.pool.newMat(cfg.alg), strat: cfg.strat, id: r.KeyID(), status: keyset.Enabled, primary: true}
	if cfg.strat == stratCustom {
		k.custom = customKids[1+r.Intn(len(customKids)-1)]
	}
	h.keys = append(h.keys[:0], k)
	if second {
		k2 := &jkey{m: h.pool.newMat(cfg.alg), strat: r.Intn(3), id: k.id + 7, status: keyset.Enabled}
		if k2.strat == stratCustom {
			k2.custom = "second"
		}
		h.keys = []*jkey{k2, k}
	}
	h.install()
	h.emitKeys(h.en)
	h.o.Count(fmt.Sprintf("large/case/%s/%s/%s", cfg.alg, stratName[cfg.strat], shape))
	h.o.Count(fmt.Sprintf("large/size/%d", target))
	var ths []int
	for _, th := range []int{65536, 131072} {
		if target > th+64 {
			ths = append(ths, th)
		}
	}
	if len(ths) == 0 {
		ths = []int{target / 2} // the small ones: anywhere in the second half
	}
	emit := hlib.N(1, 2)
	// 1. made by the library
	if rt, exact := h.largeReal(target, shape); rt != nil {
		if exact {
			h.o.Count("large/real/exact-size")
		}
		u := unsignedOf(rt.t.compact)
		if h.isMAC {
			tag, ok := lenientB64(rt.t.compact[len(u)+1:])
			full := hmacOver(cfg.alg, k.m.hmac, []byte(u))
			if !ok || !hmac.Equal(tag, full) {
				how := "is not the HMAC of any prefix tried"
				for _, n := range []int{65536, 131072, 32768, 4096} {
					if n < len(u) && hmac.Equal(tag, hmacOver(cfg.alg, k.m.hmac, []byte(u[:n]))) {
						how = fmt.Sprintf("is the HMAC over only the first %d bytes", n)
					}
				}
				h.violate("the tag of a library-made %s token with a %d-byte header.payload differs from crypto/hmac over the whole header.payload with the raw key: tag %x, want %x; it %s; token=%q",
					cfg.alg, len(u), tag, full, how, rt.t.compact)
			}
			h.o.Count("large/real/tag-equals-crypto-hmac")
		}
		if res := h.verify(h.cur(), rt.t, rt.accept, "large-real"); !strings.HasPrefix(res, "accept") {
			h.violate("a library-made token with a %d-byte header.payload is not accepted by the keyset that made it: %s token=%q", len(u), res, rt.t.compact)
		}
		if rot%2 == 0 {
			h.verify(h.cur(), rt.t, h.directed(rt.t), "large-real")
		}
		for _, th := range ths {
			h.mutated(rt.t, rt.accept, th, emit, rot, "library-made")
		}
	}
	// 2. written by hand, signed by the raw primitive over the whole header.payload
	if t := h.largeCrafted(target, shape, k); t != nil {
		acc := h.acceptFor(t)
		if res := h.verify(h.cur(), t, acc, "large-crafted"); !strings.HasPrefix(res, "accept") {
			h.violate("a token with a %d-byte header.payload correctly signed over all of it (%s, independent raw primitive) is not accepted: %s token=%q", target, cfg.alg, res, t.compact)
		}
		h.mutated(t, acc, ths[len(ths)-1], emit, rot+1, "hand-written")
	}
}

func (h *H) largePhase() {
	nT := hlib.N(11, len(largeTargets))
	if nT > len(largeTargets) {
		nT = len(largeTargets)
	}
	c := 0
	for ti, target := range largeTargets[:nT] {
		var cfgs []keyCfg
		if hlib.Thorough() {
			for hi := 0; hi < 3; hi++ {
				for st := 0; st < 3; st++ {
					cfgs = append(cfgs, keyCfg{famAlgs["HS"][hi], st})
				}
			}
			cfgs = append(cfgs, largeSigCfgs...)
		} else {
			for hi := 0; hi < 3; hi++ {
				cfgs = append(cfgs, keyCfg{famAlgs["HS"][hi], (ti + hi) % 3})
			}
			cfgs = append(cfgs, largeSigCfgs[ti%len(largeSigCfgs)])
		}
		for ci, cfg := range cfgs {
			h.largeCase(target, cfg, largeShapes[(ti+ci)%len(largeShapes)], c%4 == 3, c)
			c++
		}
	}
}
