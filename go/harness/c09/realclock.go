//go:build verif

package main

// REAL CLOCK. Every other time-related line of this harness pins the validator's clock with
// ValidatorOpts.FixedNow; this phase leaves FixedNow unset, so jwt.Validator reads time.Now() itself.
//
// Samples: tokens whose exp / nbf / iat lie on the whole seconds around the decision boundary of the instant
// the call is going to happen at — exp ∈ ⌊now−skew⌋+{−2..+2}, nbf and iat ∈ ⌊now+skew⌋+{−2..+2} — for clock skews
// 0, ±1 s, 500 ms, 10 min (thorough: also 250 ms, 1 ns, 1 s−1 ns, 10 min−1 ns), alone and in combination, under
// HS256 and ES256 keysets (thorough: more families). The calls are aligned to the wall clock: a window of samples
// starts ≈100 ms, ≈400 ms, ≈600 ms and ≈900 ms after a whole second (thorough: more phases, also next to .0 and
// .5), i.e. in both halves of a second, near its start and near its end. A window that the scheduler made miss
// its phase is run again (bounded).
//
// Verdict: the wall clock is read immediately before (tb) and immediately after (ta) each call. The three
// RFC 7519 comparisons exp·1e9 > now−skew, nbf·1e9 ≤ now+skew, iat·1e9 ≤ now+skew are monotone in now, so if
// they come out the same for tb and for ta they come out the same for the instant the validator read in
// between. Only then the sample counts: the model gets `J opts … <skew> <now>` with the UN-ROUNDED nanosecond
// readings (once with tb, once with ta) and the verify line, and the implementation's answer must be the
// model's for both. A sample whose two readings disagree (the call straddled a boundary, or the clock was
// stepped: wall and monotonic duration differ) is discarded and crafted again for a later window; it never
// raises an alarm.
//
// Lines of this phase depend on the wall clock, hence differ from run to run; the phase runs last and draws
// from its own generator so that all other phases stay a function of the seed.

import (
	"encoding/base64"
	"fmt"
	"sort"
	"strings"
	"time"

	"github.com/tink-crypto/tink-go/v2/internal/verifharness/hlib"
	"github.com/tink-crypto/tink-go/v2/jwt"
	"github.com/tink-crypto/tink-go/v2/keyset"
)

const rcNone = int64(1) << 40 // "this claim is not on a boundary"

// rcSpec: which claims sit where relative to the boundary second, and the skew.
type rcSpec struct {
	de, dn, di int64 // offsets in whole seconds (rcNone: exp far in the future / nbf, iat absent)
	skew       int64 // ns
	tries      int
}

func (s rcSpec) name() string {
	part := func(n string, d int64) string {
		if d == rcNone {
			return ""
		}
		return fmt.Sprintf("%s%+d", n, d)
	}
	return strings.Join(strings.Fields(part("exp", s.de)+" "+part("nbf", s.dn)+" "+part("iat", s.di)), ",")
}

type rcLane struct {
	name   string
	keys   []*jkey
	en     []*jkey
	isMAC  bool
	p      prims
	signer *jkey
}

type rcSample struct {
	spec   rcSpec
	t      *tokInfo
	v      vopts
	val    *jwt.Validator
	tb, ta int64 // wall clock before / after the call, ns
	mono   int64 // duration of the call on the monotonic clock, ns
	res    string
	vj     *jwt.VerifiedJWT
	nLogs  int
	nFails int
	logFn  string
}

// buildReal: the validator without FixedNow.
func (v vopts) buildReal() (*jwt.Validator, error) {
	return jwt.NewValidator(&jwt.ValidatorOpts{
		ExpectedTypeHeader: cp(v.expTyp), ExpectedIssuer: cp(v.expIss), ExpectedAudience: cp(v.expAud), ExpectedAudiences: cp(v.expAuds),
		IgnoreTypeHeader: v.ignTyp, IgnoreAudiences: v.ignAud, IgnoreIssuer: v.ignIss,
		AllowMissingExpiration: v.allowMissing, ExpectIssuedInThePast: v.expectIat,
		ClockSkew: time.Duration(v.skew),
	})
}

func floorDiv(a, b int64) int64 {
	q := a / b
	if a%b != 0 && (a < 0) != (b < 0) {
		q--
	}
	return q
}

// rcVerdicts: the three time comparisons of RFC 7519 §4.1.4–4.1.6 (with the validator's leeway) at instant now.
func rcVerdicts(t *tokInfo, v vopts, now int64) [3]bool {
	return [3]bool{
		!t.hasExp || t.exp*sec > now-v.skew,
		!t.hasNbf || t.nbf*sec <= now+v.skew,
		!v.expectIat || (t.hasIat && t.iat*sec <= now+v.skew),
	}
}

func rcWait(ns int64) {
	for {
		d := ns - time.Now().UnixNano()
		if d <= 0 {
			return
		}
		if d > 3000000 {
			time.Sleep(time.Duration(d - 2000000))
		}
	}
}

// rcCraft: a token of the lane's primary for spec, claims placed around the boundary seconds of instant nowNs.
func (h *H) rcCraft(l *rcLane, s rcSpec, nowNs int64) *rcSample {
	r := h.rng
	num := func(v int64) string {
		switch r.Intn(8) {
		case 0:
			return fmt.Sprintf("%d.0", v)
		case 1:
			return fmt.Sprintf("%de0", v)
		}
		return fmt.Sprint(v)
	}
	ce := floorDiv(nowNs-s.skew, sec) // exp is accepted iff exp > (now−skew)/1e9, i.e. iff exp ≥ ce+1
	cn := floorDiv(nowNs+s.skew, sec) // nbf / iat are accepted iff ≤ cn
	var pfs []field
	if r.Chance(40) {
		pfs = append(pfs, field{"iss", jstr(nil, "rc")})
	}
	if s.de != rcNone {
		pfs = append(pfs, field{"exp", num(ce + s.de)})
	} else {
		pfs = append(pfs, field{"exp", num(nowNs/sec + 7200)})
	}
	if s.dn != rcNone {
		pfs = append(pfs, field{"nbf", num(cn + s.dn)})
	}
	if s.di != rcNone {
		pfs = append(pfs, field{"iat", num(cn + s.di)})
	}
	hfs := []field{{"alg", jstr(nil, l.signer.m.alg)}}
	if kid := l.signer.headerKid(); kid != nil {
		hfs = append(hfs, field{"kid", jstr(nil, *kid)})
	}
	u := b64(plainObject(hfs)) + "." + b64(plainObject(shuffle(r, pfs)))
	compact := u + "." + base64.RawURLEncoding.EncodeToString(l.signer.m.sign([]byte(u)))
	t := analyse(compact, l.en)
	t.signer, t.signM, t.tags = "enabled", l.signer.m, []string{"realclock"}
	v := vopts{expIss: t.iss, skew: s.skew, expectIat: s.di != rcNone}
	val, err := v.buildReal()
	if err != nil {
		panic(fmt.Sprintf("c09: real-clock validator refused: %v", err))
	}
	return &rcSample{spec: s, t: t, v: v, val: val}
}

// rcCall: one verification with the wall clock read immediately before and after.
func (h *H) rcCall(l *rcLane, s *rcSample) {
	var vj *jwt.VerifiedJWT
	var err error
	h.mon.reset()
	var tb, ta time.Time
	pan := hlib.Recover(func() {
		if l.isMAC {
			tb = time.Now()
			rcStall()
			vj, err = l.p.mac.VerifyMACAndDecode(s.t.compact, s.val)
			rcStall()
			ta = time.Now()
		} else {
			tb = time.Now()
			rcStall()
			vj, err = l.p.ver.VerifyAndDecode(s.t.compact, s.val)
			rcStall()
			ta = time.Now()
		}
	})
	if pan != "" {
		ta = time.Now()
		s.res = "panic"
	}
	s.tb, s.ta, s.mono = tb.UnixNano(), ta.UnixNano(), int64(ta.Sub(tb))
	s.vj, s.nLogs, s.nFails = vj, len(h.mon.logs), len(h.mon.fails)
	switch {
	case pan != "":
	case err == nil:
		s.res = "accept ?"
		if len(h.mon.logs) == 1 && len(h.mon.fails) == 0 {
			s.res = fmt.Sprintf("accept %d", h.mon.logs[0].id)
			s.logFn = h.mon.logs[0].fn
		}
	case jwt.VerifIsVerificationErr(err):
		s.res = "verr"
	default:
		s.res = "valerr"
	}
}

// rcStall: developer aid (-mode rc-stall): every ninth time a pause between a clock reading and the call that
// lasts until just after the next half or whole second, as an overloaded machine might insert; samples whose
// verdict changes over the pause must be discarded and tried again, never reported.
var rcStallN int

func rcStall() {
	if *hlib.FlagMode != "rc-stall" {
		return
	}
	rcStallN++
	if rcStallN%9 == 0 {
		now := time.Now().UnixNano()
		rcWait((now/(sec/2)+1)*(sec/2) + 5000000)
	}
}

func rcPhaseName(ns int64) string {
	f := ns % sec
	if f < 0 {
		f += sec
	}
	return fmt.Sprintf(".%d", f/100000000)
}

// rcWindow runs one window of samples (all lanes) starting at the next instant whose sub-second part is
// phaseMs. Returns the specs to be tried again per lane and whether the window was on its phase.
func (h *H) rcWindow(lanes []*rcLane, phaseMs int, specs [][]rcSpec, lead *int64) (retry [][]rcSpec, onPhase bool) {
	o := h.o
	retry = make([][]rcSpec, len(lanes))
	// the target instant: far enough ahead for the crafting
	var tgt int64
	var samples [][]*rcSample
	for attempt := 0; ; attempt++ {
		now := time.Now().UnixNano()
		tgt = floorDiv(now, sec)*sec + int64(phaseMs)*1000000
		for tgt < now+*lead {
			tgt += sec
		}
		c0 := time.Now()
		samples = samples[:0]
		for li, l := range lanes {
			var ss []*rcSample
			for _, s := range specs[li] {
				ss = append(ss, h.rcCraft(l, s, tgt+2000000))
			}
			samples = append(samples, ss)
		}
		// the next crafting is given twice what this one took (decaying slowly, bounded: a stalled machine must
		// not push the windows seconds away)
		took := int64(time.Since(c0))
		nl := took*2 + 20000000
		if nl < *lead*3/4 {
			nl = *lead * 3 / 4
		}
		if nl < 40000000 {
			nl = 40000000
		}
		if nl > 1500000000 {
			nl = 1500000000
		}
		*lead = nl
		if time.Now().UnixNano() < tgt-1000000 || attempt >= 3 {
			break
		}
		o.Count("realclock/crafting-overran-the-target")
	}
	rcWait(tgt)
	for li, l := range lanes {
		for _, s := range samples[li] {
			h.rcCall(l, s)
		}
	}
	// evaluation
	in, total := 0, 0
	for li, l := range lanes {
		o.Case()
		h.emitKeys(l.en)
		for _, s := range samples[li] {
			total++
			if d := s.tb - tgt; d >= -1000000 && d <= 90000000 {
				in++
			}
			wall := s.ta - s.tb
			stepped := wall < 0 || wall-s.mono > 1000000 || s.mono-wall > 1000000
			vb, va := rcVerdicts(s.t, s.v, s.tb), rcVerdicts(s.t, s.v, s.ta)
			if stepped || vb != va {
				// the call straddled a decision boundary (or the clock was stepped): no verdict, again later
				why := "straddled-a-boundary"
				if stepped {
					why = "clock-stepped"
				}
				o.Count("realclock/discarded/" + why)
				sp := s.spec
				sp.tries++
				if sp.tries < 4 {
					retry[li] = append(retry[li], sp)
				} else {
					o.Count("realclock/gave-up")
				}
				continue
			}
			h.rcJudge(l, s, vb)
		}
	}
	onPhase = in*10 >= total*8
	return retry, onPhase
}

// rcJudge: both readings agree; emit the lines (un-rounded nanosecond clock) and apply the oracles.
func (h *H) rcJudge(l *rcLane, s *rcSample, verdicts [3]bool) {
	o := h.o
	t := s.t
	for _, now := range []int64{s.tb, s.ta} {
		v := s.v
		v.now = now
		o.Emit(v.line(), "ok", false)
		o.Emit("!"+verifyLine(t), s.res, true)
	}
	out := strings.Fields(s.res)[0]
	want := "accept"
	if !(verdicts[0] && verdicts[1] && verdicts[2]) {
		want = "valerr"
	}
	ph := rcPhaseName(s.tb)
	o.Count("realclock/samples")
	o.Count("realclock/lane=" + l.name)
	o.Count("realclock/phase=" + ph + "/" + out)
	o.Count(fmt.Sprintf("realclock/skew=%s/%s", time.Duration(s.v.skew), out))
	if s.spec.de != rcNone {
		o.Count(fmt.Sprintf("realclock/exp%+d/%s", s.spec.de, out))
	}
	if s.spec.dn != rcNone {
		o.Count(fmt.Sprintf("realclock/nbf%+d/%s", s.spec.dn, out))
	}
	if s.spec.di != rcNone {
		o.Count(fmt.Sprintf("realclock/iat%+d/%s", s.spec.di, out))
	}
	o.Count("outcome/realclock/" + out)
	if out != want {
		o.Count("realclock/WRONG-VERDICT")
	}
	if out != want && o.Hist["realclock/WRONG-VERDICT"] <= 4 { // the model lines carry every one of them
		h.violate("REAL CLOCK (FixedNow unset): %s token with %s, skew %s, verified between wall clock %d.%09d and %d.%09d: answer %q, but the RFC 7519 rule "+
			"(exp > now−skew: %v, nbf ≤ now+skew: %v, iat ≤ now+skew: %v — the same for both readings) gives %s; exp=%d nbf=%d iat=%d token=%q",
			l.signer.m.alg, s.spec.name(), time.Duration(s.v.skew), s.tb/sec, s.tb%sec, s.ta/sec, s.ta%sec, s.res, verdicts[0], verdicts[1], verdicts[2], want,
			t.exp, t.nbf, t.iat, t.compact)
	}
	switch out {
	case "accept":
		if s.res == "accept ?" {
			h.violate("real clock: accepted token but monitoring saw %d log events and %d failures: token=%q", s.nLogs, s.nFails, t.compact)
		} else if s.logFn != "verify" {
			h.violate("real clock: verification success was logged as %q", s.logFn)
		}
		if s.vj == nil {
			h.violate("real clock: nil VerifiedJWT without error: token=%q", t.compact)
		} else {
			h.checkClaims(s.vj, t)
		}
	case "panic":
		h.violate("real clock: verification panicked: token=%q", t.compact)
	default:
		if s.vj != nil {
			h.violate("real clock: a VerifiedJWT was returned together with an error: token=%q", t.compact)
		}
		if s.nLogs != 0 || s.nFails != 1 {
			h.violate("real clock: rejected token but monitoring saw %d log events and %d failures: token=%q", s.nLogs, s.nFails, t.compact)
		}
	}
}

// rcLaneFor installs a keyset (the first key is the primary and signs) and captures its primitives.
func (h *H) rcLaneFor(name string, keys []*jkey) *rcLane {
	h.isMAC = famOf(keys[0].m.alg) == "HS"
	keys[0].primary = true
	h.keys = append(h.keys[:0], keys...)
	h.install()
	return &rcLane{name: name, keys: append([]*jkey(nil), h.keys...), en: append([]*jkey(nil), h.en...), isMAC: h.isMAC,
		p: prims{mac: h.mac, ver: h.ver, enabled: append([]*jkey(nil), h.en...)}, signer: keys[0]}
}

func (h *H) rcSpecs(skews []int64) []rcSpec {
	r := h.rng
	var specs []rcSpec
	for _, sk := range skews {
		for d := int64(-2); d <= 2; d++ {
			specs = append(specs, rcSpec{de: d, dn: rcNone, di: rcNone, skew: sk}, rcSpec{de: rcNone, dn: d, di: rcNone, skew: sk}, rcSpec{de: rcNone, dn: rcNone, di: d, skew: sk})
		}
		// combinations: every claim next to its boundary
		for i := 0; i < 3; i++ {
			pk := func() int64 { return int64(r.Pick(-1, 0, 0, 1, 1, 2, int(rcNone))) }
			specs = append(specs, rcSpec{de: pk(), dn: pk(), di: pk(), skew: sk})
		}
	}
	return specs
}

func (h *H) realClockPhase() {
	seed := *hlib.FlagSeed
	saved := h.rng
	h.rng = hlib.NewRng(seed, "c09-realclock")
	defer func() { h.rng = saved }()
	r := h.rng
	o := h.o
	t0 := time.Now()
	used := map[uint32]bool{}
	mk := func(alg string, strat int) *jkey {
		k := &jkey{m: h.pool.newMat(alg), strat: strat, id: r.KeyID(), status: keyset.Enabled}
		for used[k.id] {
			k.id = uint32(r.U64())
		}
		used[k.id] = true
		if strat == stratCustom {
			k.custom = "rc-" + alg
		}
		return k
	}
	h.t0 = time.Now().Unix()
	lanes := []*rcLane{
		h.rcLaneFor("HS256", []*jkey{mk("HS256", stratTink)}),
		h.rcLaneFor("ES256x2", []*jkey{mk("ES256", stratCustom), mk("ES256", stratIgnored)}),
	}
	skews := []int64{0, sec, -sec, sec / 2, 600 * sec}
	phases := []int{100, 400, 600, 900}
	cycles := 2
	budget := 4500 * time.Millisecond // no new window after that
	if hlib.Thorough() {
		lanes = append(lanes,
			h.rcLaneFor("HS512x2", []*jkey{mk("HS512", stratIgnored), mk("HS512", stratTink)}),
			h.rcLaneFor("RS256", []*jkey{mk("RS256", stratTink)}),
			h.rcLaneFor("PS384", []*jkey{mk("PS384", stratIgnored)}),
			h.rcLaneFor("ML-DSA-44", []*jkey{mk("ML-DSA-44", stratTink)}))
		skews = append(skews, sec/4, 1, sec-1, 600*sec-1)
		phases = []int{20, 100, 250, 400, 470, 530, 600, 750, 900, 970}
		cycles = 6
		budget = 90 * time.Second
	}
	lead := int64(40000000)
	o.Hist["realclock/setup-ms"] = int(time.Since(t0) / time.Millisecond)
	hit := map[int]int{}
	win := 0
	over := func() bool {
		if time.Since(t0) > budget*time.Duration(*hlib.FlagScale) {
			o.Count("realclock/time-budget-exhausted")
			return true
		}
		return false
	}
cyc:
	for c := 0; c < cycles; c++ {
		// visit the phases in the order the clock reaches them (the next one is chosen after each window: crafting
		// takes `lead`, a phase closer than that is visited later in the cycle)
		todo := append([]int(nil), phases...)
		for len(todo) > 0 {
			f := int((time.Now().UnixNano()+lead)%sec) / 1000000
			sort.Slice(todo, func(i, j int) bool { return (todo[i]-f+1000)%1000 < (todo[j]-f+1000)%1000 })
			ph := todo[0]
			todo = todo[1:]
			// two lanes per window (a window has to fit into < 90 ms): HS256 and, in turn, one of the others
			win++
			wl := lanes[:2]
			if len(lanes) > 2 {
				wl = []*rcLane{lanes[0], lanes[1+win%(len(lanes)-1)]}
			}
			specs := make([][]rcSpec, len(wl))
			for li := range wl {
				specs[li] = h.rcSpecs(skews)
			}
			for try := 0; try < 3; try++ {
				if over() {
					break cyc
				}
				retry, on := h.rcWindow(wl, ph, specs, &lead)
				if !on {
					// the whole window again (what it measured off its phase has been judged as well)
					o.Count(fmt.Sprintf("realclock/window-missed/%dms", ph))
					continue
				}
				hit[ph]++
				o.Count(fmt.Sprintf("realclock/window-on-phase/%dms", ph))
				left := 0
				for _, rs := range retry {
					left += len(rs)
				}
				if left == 0 {
					break
				}
				specs = retry // only the discarded samples again
			}
		}
	}
	for _, ph := range phases {
		if hit[ph] == 0 {
			o.Count(fmt.Sprintf("realclock/phase-never-reached/%dms", ph))
		}
	}
	o.Hist["realclock/wall-ms"] = int(time.Since(t0) / time.Millisecond)
	o.Hist["realclock/crafting-lead-ms"] = int(lead / 1000000)
}
