//go:build verif

// Fact extractor: regenerates Lean data from tink-go's current source (go/parser + go/types).
//
//	extract enumtables -out F.lean   — every `switch`-table conversion function of the per-key-type
//	                                   protoserialization.go files as a list of (case, result) pairs
//	extract slicefacts -out F.lean   — C19: per function, every write through / retention / return of a []byte parameter
//	                                   (taint follows slicing, bytes.Trim*/Split*/Cut*/Fields, slices.Clip/Grow,
//	                                   bytes.NewBuffer/NewReader, append(p[:k], …)), accessors returning a field, and results
//	                                   that alias a pooled / global / receiver-held buffer (return-internal)
//	extract mutfacts -out F.lean     — C18: stores through receivers, mutator calls on receiver-held stateful objects, stores to
//	                                   package-level variables (also of other packages); package-level variables of sync.Pool /
//	                                   sync.Map / mutex / atomic / channel type (global-var) and every method call on a
//	                                   package-level variable (global-call), both owned by the variable; in-place rewrites of
//	                                   map / slice fields (recv-inplace-write) and, for those fields, every hand-out
//	                                   (recv-field-escape)
//
// Run with cwd=/repo and the module's toolchain (GOFLAGS=-mod=mod GOPROXY=off, GOTOOLCHAIN unset: with GOTOOLCHAIN=local the
// source importer cannot load the module's packages, go/types then knows standard-library types only and the type-dependent
// facts — global-var, global-call, map/slice fields — silently disappear). enumtables refuses (exit 2) rather than guesses
// when a function has the table shape but a non-constant cell.
package main

import (
	"fmt"
	"go/ast"
	"go/constant"
	"go/importer"
	"go/parser"
	"go/token"
	"go/types"
	"os"
	"path/filepath"
	"sort"
	"strings"
)

type cell struct {
	caseName, retName string
	caseVal, retVal   string
}

type table struct {
	pkg, fn        string
	paramTy, resTy string
	cells          []cell
}

func die(f string, a ...any) {
	fmt.Printf("EXTRACT-ERROR: "+f+"\n", a...)
	os.Exit(2)
}

func exprName(e ast.Expr) string {
	switch x := e.(type) {
	case *ast.Ident:
		return x.Name
	case *ast.SelectorExpr:
		return exprName(x.X) + "." + x.Sel.Name
	case *ast.BasicLit:
		return x.Value
	}
	return "?"
}

func constOf(info *types.Info, e ast.Expr) (string, bool) {
	tv, ok := info.Types[e]
	if !ok || tv.Value == nil {
		return "", false
	}
	switch tv.Value.Kind() {
	case constant.Int:
		return tv.Value.ExactString(), true
	}
	return "", false
}

func enumTables(out string) {
	var files []string
	filepath.WalkDir(".", func(p string, d os.DirEntry, err error) error {
		if err != nil {
			return nil
		}
		if d.IsDir() && (d.Name() == "testdata" || d.Name() == ".git" || d.Name() == "verifharness") {
			return filepath.SkipDir
		}
		if !d.IsDir() && d.Name() == "protoserialization.go" && filepath.Dir(p) != "internal/protoserialization" {
			files = append(files, p)
		}
		return nil
	})
	sort.Strings(files)
	fset := token.NewFileSet()
	imp := importer.ForCompiler(fset, "source", nil)
	var tabs []table
	for _, pf := range files {
		dir := filepath.Dir(pf)
		entries, _ := os.ReadDir(dir)
		var astFiles []*ast.File
		for _, e := range entries {
			n := e.Name()
			if !strings.HasSuffix(n, ".go") || strings.HasSuffix(n, "_test.go") || strings.Contains(n, "_verif") {
				continue
			}
			f, err := parser.ParseFile(fset, filepath.Join(dir, n), nil, parser.SkipObjectResolution)
			if err != nil {
				die("%v", err)
			}
			astFiles = append(astFiles, f)
		}
		info := &types.Info{Types: map[ast.Expr]types.TypeAndValue{}, Uses: map[*ast.Ident]types.Object{}, Defs: map[*ast.Ident]types.Object{}}
		conf := types.Config{Importer: imp, Error: func(err error) {}}
		conf.Check(dir, fset, astFiles, info)
		for _, f := range astFiles {
			if filepath.Base(fset.Position(f.Pos()).Filename) != "protoserialization.go" {
				continue
			}
			for _, d := range f.Decls {
				fd, ok := d.(*ast.FuncDecl)
				if !ok || fd.Recv != nil || fd.Body == nil || len(fd.Body.List) != 1 {
					continue
				}
				sw, ok := fd.Body.List[0].(*ast.SwitchStmt)
				if !ok || sw.Init != nil || sw.Tag == nil {
					continue
				}
				if fd.Type.Params == nil || len(fd.Type.Params.List) != 1 || len(fd.Type.Params.List[0].Names) != 1 {
					continue
				}
				tag, ok := sw.Tag.(*ast.Ident)
				if !ok || tag.Name != fd.Type.Params.List[0].Names[0].Name {
					continue
				}
				if fd.Type.Results == nil || len(fd.Type.Results.List) != 2 {
					continue
				}
				t := table{pkg: dir, fn: fd.Name.Name}
				if tv, ok := info.Types[fd.Type.Params.List[0].Type]; ok {
					t.paramTy = tv.Type.String()
				}
				if tv, ok := info.Types[fd.Type.Results.List[0].Type]; ok {
					t.resTy = tv.Type.String()
				}
				shape := true
				for _, c := range sw.Body.List {
					cc := c.(*ast.CaseClause)
					if cc.List == nil { // default
						continue
					}
					if len(cc.Body) != 1 {
						shape = false
						break
					}
					rs, ok := cc.Body[0].(*ast.ReturnStmt)
					if !ok || len(rs.Results) != 2 {
						shape = false
						break
					}
					if id, ok := rs.Results[1].(*ast.Ident); !ok || id.Name != "nil" {
						// an error-returning case: not part of the table
						continue
					}
					rv, ok := constOf(info, rs.Results[0])
					if !ok {
						shape = false
						break
					}
					for _, ce := range cc.List {
						cv, ok := constOf(info, ce)
						if !ok {
							shape = false
							break
						}
						t.cells = append(t.cells, cell{exprName(ce), exprName(rs.Results[0]), cv, rv})
					}
				}
				if !shape || len(t.cells) == 0 {
					continue
				}
				tabs = append(tabs, t)
			}
		}
	}
	var sb strings.Builder
	sb.WriteString("/- GENERATED by /verif/go/harness/extract (enumtables) from */*/protoserialization.go — do not edit; regenerated on every check run. -/\n")
	sb.WriteString("namespace TinkVerif.Gen.EnumTables\n\n")
	sb.WriteString("structure Cell where\n  caseName : String\n  retName : String\n  caseVal : Nat\n  retVal : Nat\n\n")
	sb.WriteString("/-- `pkgId`, `paramTyId`, `resTyId` number the package and the Go types (same number = same type);\n    `protoParam`/`protoRes`: the type is a generated proto enum; `prefixRes`: the result is `tinkpb.OutputPrefixType` -/\n")
	sb.WriteString("structure Table where\n  pkg : String\n  fn : String\n  pkgId : Nat\n  paramTyId : Nat\n  resTyId : Nat\n  protoParam : Bool\n  protoRes : Bool\n  prefixRes : Bool\n  cells : List Cell\n\n")
	ids := map[string]int{}
	idOf := func(s string) int {
		if v, ok := ids[s]; ok {
			return v
		}
		ids[s] = len(ids) + 1
		return ids[s]
	}
	const protoPfx = "github.com/tink-crypto/tink-go/v2/proto/"
	sb.WriteString("def tables : List Table := [\n")
	for i, t := range tabs {
		for _, c := range t.cells {
			if strings.HasPrefix(c.caseVal, "-") || strings.HasPrefix(c.retVal, "-") {
				die("%s.%s: negative enum value", t.pkg, t.fn)
			}
		}
		sb.WriteString(fmt.Sprintf("  -- %s → %s\n", t.paramTy, t.resTy))
		sb.WriteString(fmt.Sprintf("  { pkg := %q, fn := %q, pkgId := %d, paramTyId := %d, resTyId := %d, protoParam := %v, protoRes := %v, prefixRes := %v, cells := [",
			t.pkg, t.fn, idOf("pkg:"+t.pkg), idOf(t.paramTy), idOf(t.resTy), strings.HasPrefix(t.paramTy, protoPfx), strings.HasPrefix(t.resTy, protoPfx),
			t.resTy == protoPfx+"tink_go_proto.OutputPrefixType"))
		for j, c := range t.cells {
			if j > 0 {
				sb.WriteString(", ")
			}
			sb.WriteString(fmt.Sprintf("⟨%q, %q, %s, %s⟩", c.caseName, c.retName, c.caseVal, c.retVal))
		}
		sb.WriteString("] }")
		if i+1 < len(tabs) {
			sb.WriteString(",")
		}
		sb.WriteString("\n")
	}
	sb.WriteString("]\n\nend TinkVerif.Gen.EnumTables\n")
	if err := os.WriteFile(out, []byte(sb.String()), 0o644); err != nil {
		die("%v", err)
	}
	fmt.Printf("enumtables: %d files, %d tables\n", len(files), len(tabs))
}

func main() {
	if len(os.Args) < 2 {
		die("usage: extract <mode> -out file")
	}
	out := ""
	for i, a := range os.Args {
		if a == "-out" && i+1 < len(os.Args) {
			out = os.Args[i+1]
		}
	}
	switch os.Args[1] {
	case "enumtables":
		enumTables(out)
	case "slicefacts":
		sliceFacts(out)
	case "mutfacts":
		mutFacts(out)
	default:
		die("unknown mode %s", os.Args[1])
	}
}

// ---------------------------------------------------------------------------------------------
// slicefacts / mutfacts: syntactic facts about writes through []byte parameters, retention of
// parameter slices, exposure of field slices (C19) and post-construction writes through receivers (C18).

// owner: explicit owner (name of the package-level variable for global-var / global-call facts); "" = derived from fn
type fact struct{ pkg, fn, kind, what, owner string }

func mkFact(pkg, fn, kind, what string) fact { return fact{pkg: pkg, fn: fn, kind: kind, what: what} }

func rootIdent(e ast.Expr) *ast.Ident {
	for {
		switch x := e.(type) {
		case *ast.Ident:
			return x
		case *ast.SliceExpr:
			e = x.X
		case *ast.IndexExpr:
			e = x.X
		case *ast.ParenExpr:
			e = x.X
		case *ast.StarExpr:
			e = x.X
		default:
			return nil
		}
	}
}

// rootSel returns (receiverIdent, firstField) for expressions r.f, r.f[i], r.f[a:b], r.f.g ...
func rootSel(e ast.Expr) (*ast.Ident, string) {
	for {
		switch x := e.(type) {
		case *ast.SelectorExpr:
			if id, ok := x.X.(*ast.Ident); ok {
				return id, x.Sel.Name
			}
			e = x.X
		case *ast.SliceExpr:
			e = x.X
		case *ast.IndexExpr:
			e = x.X
		case *ast.ParenExpr:
			e = x.X
		case *ast.StarExpr:
			e = x.X
		default:
			return nil, ""
		}
	}
}

func isByteSlice(t types.Type) bool {
	if t == nil {
		return false
	}
	s, ok := t.Underlying().(*types.Slice)
	if !ok {
		return false
	}
	b, ok := s.Elem().Underlying().(*types.Basic)
	return ok && (b.Kind() == types.Uint8)
}

func funcName(fd *ast.FuncDecl) string {
	if fd.Recv != nil && len(fd.Recv.List) == 1 {
		rt := fd.Recv.List[0].Type
		if st, ok := rt.(*ast.StarExpr); ok {
			rt = st.X
		}
		if ix, ok := rt.(*ast.IndexExpr); ok {
			rt = ix.X
		}
		if id, ok := rt.(*ast.Ident); ok {
			return id.Name + "." + fd.Name.Name
		}
	}
	return fd.Name.Name
}

func loadAll(visit func(dir string, fset *token.FileSet, files []*ast.File, info *types.Info)) int {
	var dirs []string
	filepath.WalkDir(".", func(p string, d os.DirEntry, err error) error {
		if err != nil {
			return nil
		}
		if d.IsDir() {
			n := d.Name()
			if n == "testdata" || n == ".git" || n == "verifharness" || n == "proto" || n == "testing" || n == "testutil" || n == "testkeyset" ||
				n == "testvectors" || strings.HasSuffix(n, "_go_proto") || n == "examples" || n == "docs" || n == "kokoro" || n == "tools" {
				return filepath.SkipDir
			}
			dirs = append(dirs, p)
		}
		return nil
	})
	sort.Strings(dirs)
	fset := token.NewFileSet()
	imp := importer.ForCompiler(fset, "source", nil)
	n := 0
	for _, dir := range dirs {
		entries, _ := os.ReadDir(dir)
		var astFiles []*ast.File
		for _, e := range entries {
			nm := e.Name()
			if !strings.HasSuffix(nm, ".go") || strings.HasSuffix(nm, "_test.go") || strings.Contains(nm, "_verif") {
				continue
			}
			f, err := parser.ParseFile(fset, filepath.Join(dir, nm), nil, parser.SkipObjectResolution)
			if err != nil {
				die("%v", err)
			}
			if strings.HasSuffix(f.Name.Name, "_test") {
				continue
			}
			astFiles = append(astFiles, f)
		}
		if len(astFiles) == 0 {
			continue
		}
		info := &types.Info{Types: map[ast.Expr]types.TypeAndValue{}, Uses: map[*ast.Ident]types.Object{}, Defs: map[*ast.Ident]types.Object{},
			Selections: map[*ast.SelectorExpr]*types.Selection{}}
		conf := types.Config{Importer: imp, Error: func(err error) {}}
		conf.Check(dir, fset, astFiles, info)
		visit(dir, fset, astFiles, info)
		n++
	}
	return n
}

func emitFacts(out, ns, doc string, facts []fact, npk int, withOwner bool) {
	sort.Slice(facts, func(i, j int) bool {
		a, b := facts[i], facts[j]
		if a.pkg != b.pkg {
			return a.pkg < b.pkg
		}
		if a.fn != b.fn {
			return a.fn < b.fn
		}
		if a.kind != b.kind {
			return a.kind < b.kind
		}
		if a.what != b.what {
			return a.what < b.what
		}
		return a.owner < b.owner
	})
	var sb strings.Builder
	sb.WriteString("/- GENERATED by /verif/go/harness/extract — do not edit; regenerated on every check run.\n   " + doc + " -/\n")
	sb.WriteString("namespace " + ns + "\n\n")
	if withOwner {
		sb.WriteString("/-- `owner`: the receiver type of the method `fn`, or the function name for a plain function -/\n")
		sb.WriteString("structure Fact where\n  pkg : String\n  fn : String\n  kind : String\n  what : String\n  owner : String\nderiving DecidableEq, Repr\n\n")
	} else {
		sb.WriteString("structure Fact where\n  pkg : String\n  fn : String\n  kind : String\n  what : String\nderiving DecidableEq, Repr\n\n")
	}
	sb.WriteString(fmt.Sprintf("def packagesScanned : Nat := %d\n\n", npk))
	sb.WriteString("def facts : List Fact := [\n")
	var prev fact
	first := true
	for _, f := range facts {
		if !first && f == prev {
			continue
		}
		if !first {
			sb.WriteString(",\n")
		}
		first = false
		prev = f
		if withOwner {
			owner := f.owner
			if owner == "" {
				owner = f.fn
				if i := strings.Index(owner, "."); i >= 0 {
					owner = owner[:i]
				}
			}
			sb.WriteString(fmt.Sprintf("  ⟨%q, %q, %q, %q, %q⟩", f.pkg, f.fn, f.kind, f.what, owner))
		} else {
			sb.WriteString(fmt.Sprintf("  ⟨%q, %q, %q, %q⟩", f.pkg, f.fn, f.kind, f.what))
		}
	}
	sb.WriteString("\n]\n\nend " + ns + "\n")
	if err := os.WriteFile(out, []byte(sb.String()), 0o644); err != nil {
		die("%v", err)
	}
	fmt.Printf("%s: %d packages, %d facts\n", ns, npk, len(facts))
}

// viewFuncs: functions of package bytes / slices whose result is (or holds) a sub-slice of their first argument:
// taint flows through them exactly as through a slicing expression.
var viewFuncs = map[string]bool{"TrimLeft": true, "TrimRight": true, "Trim": true, "TrimPrefix": true, "TrimSuffix": true, "TrimSpace": true,
	"TrimFunc": true, "TrimLeftFunc": true, "TrimRightFunc": true, "Fields": true, "FieldsFunc": true, "Split": true, "SplitN": true,
	"SplitAfter": true, "SplitAfterN": true, "Cut": true, "CutPrefix": true, "CutSuffix": true, "Clip": true, "Grow": true,
	"NewBuffer": true, "NewReader": true}

func exprString(e ast.Expr) string {
	switch x := e.(type) {
	case nil:
		return ""
	case *ast.Ident:
		return x.Name
	case *ast.BasicLit:
		return x.Value
	case *ast.SelectorExpr:
		return exprString(x.X) + "." + x.Sel.Name
	case *ast.ParenExpr:
		return "(" + exprString(x.X) + ")"
	case *ast.StarExpr:
		return "*" + exprString(x.X)
	case *ast.UnaryExpr:
		return x.Op.String() + exprString(x.X)
	case *ast.BinaryExpr:
		return exprString(x.X) + x.Op.String() + exprString(x.Y)
	case *ast.IndexExpr:
		return exprString(x.X) + "[" + exprString(x.Index) + "]"
	case *ast.CallExpr:
		as := make([]string, len(x.Args))
		for i, a := range x.Args {
			as[i] = exprString(a)
		}
		return exprString(x.Fun) + "(" + strings.Join(as, ",") + ")"
	case *ast.SliceExpr:
		r := exprString(x.X) + "[" + exprString(x.Low) + ":" + exprString(x.High)
		if x.Slice3 {
			r += ":" + exprString(x.Max)
		}
		return r + "]"
	case *ast.TypeAssertExpr:
		return exprString(x.X) + ".(" + exprString(x.Type) + ")"
	}
	return "?"
}

// fullSlice3: x[a:n:n] — an append to it always reallocates (it is a copy)
func fullSlice3(e ast.Expr) bool {
	se, ok := e.(*ast.SliceExpr)
	return ok && se.Slice3 && se.High != nil && se.Max != nil && exprString(se.High) == exprString(se.Max)
}

func pkgLevelVars(files []*ast.File, info *types.Info) map[types.Object]bool {
	globals := map[types.Object]bool{}
	for _, f := range files {
		for _, d := range f.Decls {
			gd, ok := d.(*ast.GenDecl)
			if !ok || gd.Tok != token.VAR {
				continue
			}
			for _, sp := range gd.Specs {
				for _, n := range sp.(*ast.ValueSpec).Names {
					if o := info.Defs[n]; o != nil && n.Name != "_" {
						globals[o] = true
					}
				}
			}
		}
	}
	return globals
}

func isBytesBuffer(t types.Type) bool {
	if t == nil {
		return false
	}
	s := t.String()
	return s == "bytes.Buffer" || s == "*bytes.Buffer"
}

// byteBacked: []byte, [n]byte, *[]byte, *[n]byte, bytes.Buffer, *bytes.Buffer
func byteBacked(t types.Type) bool {
	if t == nil {
		return false
	}
	if isBytesBuffer(t) || isByteSlice(t) {
		return true
	}
	u := t.Underlying()
	if p, ok := u.(*types.Pointer); ok {
		u = p.Elem().Underlying()
		if isByteSlice(p.Elem()) {
			return true
		}
	}
	if a, ok := u.(*types.Array); ok {
		b, ok := a.Elem().Underlying().(*types.Basic)
		return ok && b.Kind() == types.Uint8
	}
	return false
}

func stripToBase(e ast.Expr) ast.Expr {
	for {
		switch x := e.(type) {
		case *ast.ParenExpr:
			e = x.X
		case *ast.StarExpr:
			e = x.X
		case *ast.TypeAssertExpr:
			e = x.X
		case *ast.UnaryExpr:
			if x.Op != token.AND {
				return e
			}
			e = x.X
		case *ast.SliceExpr:
			e = x.X
		case *ast.IndexExpr:
			e = x.X
		default:
			return e
		}
	}
}

// sliceFacts (C19)
func sliceFacts(out string) {
	var facts []fact
	npk := loadAll(func(dir string, fset *token.FileSet, files []*ast.File, info *types.Info) {
		globals := pkgLevelVars(files, info)
		isGlobal := func(id *ast.Ident) bool {
			o := info.Uses[id]
			return o != nil && globals[o]
		}
		isPkg := func(e ast.Expr, paths ...string) bool {
			id, ok := e.(*ast.Ident)
			if !ok {
				return false
			}
			pn, ok := info.Uses[id].(*types.PkgName)
			if !ok {
				return false
			}
			for _, p := range paths {
				if pn.Imported().Path() == p {
					return true
				}
			}
			return false
		}
		for _, f := range files {
			for _, d := range f.Decls {
				fd, ok := d.(*ast.FuncDecl)
				if !ok || fd.Body == nil {
					continue
				}
				params := map[string]bool{}
				if fd.Type.Params != nil {
					for _, p := range fd.Type.Params.List {
						tv, ok := info.Types[p.Type]
						if !ok || !isByteSlice(tv.Type) {
							continue
						}
						for _, n := range p.Names {
							params[n.Name] = true
						}
					}
				}
				recv := ""
				if fd.Recv != nil && len(fd.Recv.List) == 1 && len(fd.Recv.List[0].Names) == 1 {
					recv = fd.Recv.List[0].Names[0].Name
				}
				fn := funcName(fd)
				// locals that alias a parameter by plain (re)slicing: x := p / x := p[a:b]
				alias := map[string]string{}
				// locals that are a bytes.Buffer built over a parameter: buf := bytes.NewBuffer(p)
				bufOver := map[string]string{}
				// a parameter that is reassigned from a call (p = bytes.Clone(p), p = slices.Clone(p), …) no longer
				// denotes caller memory (flow-insensitive: any such reassignment in the body)
				ast.Inspect(fd.Body, func(n ast.Node) bool {
					as, ok := n.(*ast.AssignStmt)
					if !ok || as.Tok != token.ASSIGN || len(as.Lhs) != len(as.Rhs) {
						return true
					}
					for i, lhs := range as.Lhs {
						if id, ok := lhs.(*ast.Ident); ok && params[id.Name] {
							if ce, ok := as.Rhs[i].(*ast.CallExpr); ok {
								if se, ok := ce.Fun.(*ast.SelectorExpr); ok && se.Sel.Name == "Clone" {
									delete(params, id.Name)
								}
							}
						}
					}
					return true
				})
				// every parameter name (any type): a []byte field of a struct-typed parameter (options structs)
				// is caller memory as well
				allParams := map[string]bool{}
				if fd.Type.Params != nil {
					for _, p := range fd.Type.Params.List {
						for _, n := range p.Names {
							allParams[n.Name] = true
						}
					}
				}
				var isParam func(e ast.Expr) (string, bool)
				// viewCall: bytes.TrimLeft(p, …), bytes.Split(p, …), slices.Clip(p), bytes.NewBuffer(p), bytes.NewReader(p):
				// the result is (or holds) a sub-slice of p;  append(p[:0], …) may be one (it is when the result fits),
				// append(p[:0:0], …) / append(p[:n:n], …) is a copy
				viewCall := func(ce *ast.CallExpr) (string, bool) {
					if len(ce.Args) == 0 {
						return "", false
					}
					if id, ok := ce.Fun.(*ast.Ident); ok && id.Name == "append" {
						if fullSlice3(ce.Args[0]) {
							return "", false
						}
						return isParam(ce.Args[0])
					}
					if sel, ok := ce.Fun.(*ast.SelectorExpr); ok && viewFuncs[sel.Sel.Name] && isPkg(sel.X, "bytes", "slices") {
						return isParam(ce.Args[0])
					}
					return "", false
				}
				isParam = func(e ast.Expr) (string, bool) {
					// opts.Field / opts.Field[a:b] with opts a parameter and the selected value a []byte
					inner := e
					for {
						if se, ok := inner.(*ast.SliceExpr); ok {
							inner = se.X
							continue
						}
						if pe, ok := inner.(*ast.ParenExpr); ok {
							inner = pe.X
							continue
						}
						if ie, ok := inner.(*ast.IndexExpr); ok {
							// element of a [][]byte view: bytes.Split(p, sep)[0]
							if _, isCall := ie.X.(*ast.CallExpr); isCall {
								inner = ie.X
								continue
							}
						}
						break
					}
					if ce, ok := inner.(*ast.CallExpr); ok {
						return viewCall(ce)
					}
					if sel, ok := inner.(*ast.SelectorExpr); ok {
						if id, ok := sel.X.(*ast.Ident); ok && allParams[id.Name] && (recv == "" || id.Name != recv) {
							if tv, ok := info.Types[sel]; ok && isByteSlice(tv.Type) {
								return id.Name + "." + sel.Sel.Name, true
							}
						}
					}
					id := rootIdent(e)
					if id == nil {
						return "", false
					}
					if params[id.Name] {
						return id.Name, true
					}
					if p, ok := alias[id.Name]; ok {
						return p, true
					}
					return "", false
				}
				// viewExpr: an expression that may carry caller memory by value: identifier, slicing, field selection, or one
				// of the slice-preserving calls
				viewExpr := func(e ast.Expr) (string, bool) {
					switch r := e.(type) {
					case *ast.Ident, *ast.SliceExpr, *ast.SelectorExpr:
						return isParam(r)
					case *ast.CallExpr:
						return viewCall(r)
					case *ast.IndexExpr:
						if tv, ok := info.Types[e]; ok && isByteSlice(tv.Type) {
							return isParam(r)
						}
					}
					return "", false
				}
				// objects that are library state or shared between calls: locals bound to a value taken from a package-level
				// variable (pool.Get(), global, &global) or to a receiver field
				internal := map[string]string{}
				originOf := func(e ast.Expr) (string, bool) {
					b := stripToBase(e)
					switch x := b.(type) {
					case *ast.CallExpr:
						if sel, ok := x.Fun.(*ast.SelectorExpr); ok {
							if id, ok := stripToBase(sel.X).(*ast.Ident); ok && isGlobal(id) {
								return id.Name + "." + sel.Sel.Name + "()", true
							}
							// r.pool.Get(): a container kept in the receiver
							if fs, ok := stripToBase(sel.X).(*ast.SelectorExpr); ok && recv != "" && (sel.Sel.Name == "Get" || sel.Sel.Name == "Load") {
								if id, ok := fs.X.(*ast.Ident); ok && id.Name == recv {
									return recv + "." + fs.Sel.Name + "." + sel.Sel.Name + "()", true
								}
							}
						}
					case *ast.Ident:
						if isGlobal(x) {
							return x.Name, true
						}
						if o, ok := internal[x.Name]; ok {
							return o, true
						}
					case *ast.SelectorExpr:
						if id, ok := x.X.(*ast.Ident); ok && recv != "" && id.Name == recv {
							return recv + "." + x.Sel.Name, true
						}
					}
					return "", false
				}
				ast.Inspect(fd.Body, func(n ast.Node) bool {
					as, ok := n.(*ast.AssignStmt)
					if !ok || len(as.Lhs) < 1 || len(as.Rhs) < 1 {
						return true
					}
					for i, lhs := range as.Lhs {
						id, ok := lhs.(*ast.Ident)
						if !ok || id.Name == "_" {
							continue
						}
						var rhs ast.Expr
						if len(as.Lhs) == len(as.Rhs) {
							rhs = as.Rhs[i]
						} else if i == 0 {
							rhs = as.Rhs[0] // v, ok := pool.Get().(*T)
						} else {
							continue
						}
						var t types.Type
						if o := info.Defs[id]; o != nil {
							t = o.Type()
						} else if o := info.Uses[id]; o != nil {
							t = o.Type()
						}
						if !byteBacked(t) {
							continue
						}
						if _, isSel := stripToBase(rhs).(*ast.SelectorExpr); isSel {
							// a copy of a receiver's array field (x := r.arr) is a value, not a view
							if _, isArr := t.Underlying().(*types.Array); isArr {
								continue
							}
							if isBytesBuffer(t) && t.String() == "bytes.Buffer" {
								continue
							}
						}
						if o, ok := originOf(rhs); ok {
							internal[id.Name] = o
						}
					}
					return true
				})
				ast.Inspect(fd.Body, func(n ast.Node) bool {
					switch x := n.(type) {
					case *ast.RangeStmt:
						// for _, part := range bytes.Split(p, sep)
						if id, ok := x.Value.(*ast.Ident); ok && id.Name != "_" {
							if tv, ok := info.Types[x.X]; ok && tv.Type != nil {
								if sl, ok := tv.Type.Underlying().(*types.Slice); ok && isByteSlice(sl.Elem()) {
									if p, ok := viewExpr(x.X); ok {
										alias[id.Name] = p
									}
								}
							}
						}
					case *ast.AssignStmt:
						// before, after, found := bytes.Cut(p, sep)
						if len(x.Rhs) == 1 && len(x.Lhs) > 1 {
							if ce, ok := x.Rhs[0].(*ast.CallExpr); ok {
								if p, ok := viewCall(ce); ok {
									for _, lhs := range x.Lhs {
										if id, ok := lhs.(*ast.Ident); ok && id.Name != "_" && !params[id.Name] {
											var t types.Type
											if o := info.Defs[id]; o != nil {
												t = o.Type()
											} else if o := info.Uses[id]; o != nil {
												t = o.Type()
											}
											if isByteSlice(t) {
												alias[id.Name] = p
											}
										}
									}
								}
							}
						}
						for i, lhs := range x.Lhs {
							// element store p[i] = v, p[i] op= v
							if ix, ok := lhs.(*ast.IndexExpr); ok {
								if p, ok := isParam(ix.X); ok {
									facts = append(facts, mkFact(dir, fn, "store-to-param", p))
								}
							}
							if i < len(x.Rhs) && len(x.Lhs) == len(x.Rhs) {
								rhs := x.Rhs[i]
								// alias tracking
								if id, ok := lhs.(*ast.Ident); ok {
									if p, ok := viewExpr(rhs); ok && !params[id.Name] {
										alias[id.Name] = p
										if ce, ok := rhs.(*ast.CallExpr); ok {
											if sel, ok := ce.Fun.(*ast.SelectorExpr); ok && sel.Sel.Name == "NewBuffer" {
												bufOver[id.Name] = p
											}
										}
									}
								}
								// retention: x.f = p  (direct, without Clone)
								if sel, ok := lhs.(*ast.SelectorExpr); ok {
									if p, ok := viewExpr(rhs); ok {
										facts = append(facts, mkFact(dir, fn, "retain-param", exprName(sel.X)+"."+sel.Sel.Name+"="+p))
									}
								}
							}
						}
					case *ast.CallExpr:
						if id, ok := x.Fun.(*ast.Ident); ok && len(x.Args) > 0 {
							switch id.Name {
							case "append":
								if p, ok := isParam(x.Args[0]); ok {
									// append(p[:0:0], …) / append(p[:n:n], …) cannot write p
									if fullSlice3(x.Args[0]) {
										break
									}
									facts = append(facts, mkFact(dir, fn, "append-to-param", p))
								}
							case "copy":
								if p, ok := isParam(x.Args[0]); ok {
									facts = append(facts, mkFact(dir, fn, "copy-into-param", p))
								}
							case "clear":
								if p, ok := isParam(x.Args[0]); ok {
									facts = append(facts, mkFact(dir, fn, "store-to-param", p))
								}
							}
						}
						if sel, ok := x.Fun.(*ast.SelectorExpr); ok && len(x.Args) > 0 {
							nm := sel.Sel.Name
							// handing a parameter slice to a container that outlives the call (sync.Map, sync.Pool and friends)
							if nm == "Store" || nm == "LoadOrStore" || nm == "Swap" || nm == "CompareAndSwap" || nm == "Put" {
								for _, a := range x.Args {
									if ue, ok := a.(*ast.UnaryExpr); ok && ue.Op == token.AND {
										a = ue.X
									}
									if p, ok := viewExpr(a); ok {
										facts = append(facts, mkFact(dir, fn, "escape-param", exprName(sel.X)+"."+nm+"("+p+")"))
									}
								}
							}
							// stdlib-style destination-first writers
							if nm == "XORBytes" || nm == "XORKeyStream" || nm == "Encrypt" && false || nm == "CryptBlocks" || nm == "PutUint32" || nm == "PutUint64" || nm == "PutUint16" || nm == "Read" || nm == "ReadFull" || nm == "FillBytes" {
								idx := 0
								if nm == "ReadFull" {
									idx = 1
								}
								if idx < len(x.Args) {
									if p, ok := isParam(x.Args[idx]); ok {
										facts = append(facts, mkFact(dir, fn, "write-into-param", nm+":"+p))
									}
								}
							}
							// Seal/Open(dst, …) with dst = p[:0] style reuse of the caller's buffer
							if (nm == "Seal" || nm == "Open") && len(x.Args) >= 1 {
								if p, ok := isParam(x.Args[0]); ok {
									facts = append(facts, mkFact(dir, fn, "aead-dst-param", nm+":"+p))
								}
							}
						}
						// buf := bytes.NewBuffer(p); buf.Write(…) appends into p's spare capacity
						if sel, ok := x.Fun.(*ast.SelectorExpr); ok {
							if id, ok := sel.X.(*ast.Ident); ok {
								if p, ok := bufOver[id.Name]; ok && strings.HasPrefix(sel.Sel.Name, "Write") {
									facts = append(facts, mkFact(dir, fn, "append-to-param", p+" (bytes.Buffer."+sel.Sel.Name+")"))
								}
							}
						}
					case *ast.CompositeLit:
						for i, el := range x.Elts {
							kv, ok := el.(*ast.KeyValueExpr)
							if !ok {
								// unkeyed element: T{p, …} / [2][]byte{p, x}
								if p, ok := viewExpr(el); ok {
									facts = append(facts, mkFact(dir, fn, "retain-param", fmt.Sprintf("%s{#%d}=%s", exprName(x.Type), i, p)))
								}
								continue
							}
							if p, ok := viewExpr(kv.Value); ok {
								facts = append(facts, mkFact(dir, fn, "retain-param", exprName(x.Type)+"{"+exprName(kv.Key)+"}="+p))
							}
						}
					case *ast.ReturnStmt:
						for _, r := range x.Results {
							// exposure: return recv.f where f is a []byte field (no Clone)
							if sel, ok := r.(*ast.SelectorExpr); ok && recv != "" {
								if id, ok := sel.X.(*ast.Ident); ok && id.Name == recv {
									if tv, ok := info.Types[r]; ok && isByteSlice(tv.Type) {
										facts = append(facts, mkFact(dir, fn, "return-field", sel.Sel.Name))
									}
								}
							}
							// returning the parameter itself (result aliases input)
							switch rr := r.(type) {
							case *ast.Ident, *ast.SliceExpr, *ast.CallExpr:
								if p, ok := viewExpr(rr); ok {
									if _, isCall := rr.(*ast.CallExpr); isCall {
										p += " (via " + exprString(rr.(*ast.CallExpr).Fun) + ")"
									}
									facts = append(facts, mkFact(dir, fn, "return-param", p))
								}
							}
							// returning memory that stays reachable by the library: x.Bytes() of a bytes.Buffer, or a slice of a
							// buffer / array, that came from a package-level variable (sync.Pool.Get(), global) or is a receiver field
							if tv, ok := info.Types[r]; !ok || !isByteSlice(tv.Type) {
								continue
							}
							inner := r
							for {
								if se, ok := inner.(*ast.SliceExpr); ok {
									inner = se.X
									continue
								}
								if pe, ok := inner.(*ast.ParenExpr); ok {
									inner = pe.X
									continue
								}
								break
							}
							if ce, ok := inner.(*ast.CallExpr); ok {
								if sel, ok := ce.Fun.(*ast.SelectorExpr); ok && (sel.Sel.Name == "Bytes" || sel.Sel.Name == "Next" || sel.Sel.Name == "AvailableBuffer") {
									if tv, ok := info.Types[sel.X]; ok && isBytesBuffer(tv.Type) {
										if o, ok := originOf(sel.X); ok {
											facts = append(facts, mkFact(dir, fn, "return-internal", exprString(r)+" <- "+o))
										}
									}
								}
								continue
							}
							if _, direct := r.(*ast.SelectorExpr); direct {
								continue // return recv.f: the return-field fact above
							}
							if id, ok := r.(*ast.Ident); ok {
								if _, isParamView := isParam(id); isParamView {
									continue
								}
							}
							if o, ok := originOf(inner); ok {
								facts = append(facts, mkFact(dir, fn, "return-internal", exprString(r)+" <- "+o))
							}
						}
					}
					return true
				})
			}
		}
	})
	emitFacts(out, "TinkVerif.Gen.SliceFacts", "Syntactic facts about []byte parameters: writes through them, retention, exposure (C19).", facts, npk, false)
}

// syncCategory: "" unless t is or contains (through struct fields, pointers, arrays) a type of package sync / sync/atomic
// or a channel.
func syncCategory(t types.Type, seen map[types.Type]bool, depth int) string {
	if t == nil || seen[t] || depth > 6 {
		return ""
	}
	seen[t] = true
	if n, ok := t.(*types.Named); ok && n.Obj() != nil && n.Obj().Pkg() != nil {
		switch n.Obj().Pkg().Path() {
		case "sync":
			if n.Obj().Name() == "Pool" {
				return "pool"
			}
			if n.Obj().Name() == "Map" {
				return "syncmap"
			}
			return "lock"
		case "sync/atomic":
			return "atomic"
		}
	}
	switch u := t.Underlying().(type) {
	case *types.Chan:
		return "chan"
	case *types.Pointer:
		return syncCategory(u.Elem(), seen, depth+1)
	case *types.Array:
		return syncCategory(u.Elem(), seen, depth+1)
	case *types.Struct:
		best := ""
		for i := 0; i < u.NumFields(); i++ {
			if c := syncCategory(u.Field(i).Type(), seen, depth+1); c != "" {
				if c == "pool" {
					return c
				}
				if best == "" {
					best = c
				}
			}
		}
		return best
	}
	return ""
}

func shortType(t types.Type) string {
	return types.TypeString(t, func(p *types.Package) string {
		path := p.Path()
		const pfx = "github.com/tink-crypto/tink-go/v2/"
		return strings.TrimPrefix(path, pfx)
	})
}

// pkgVarOf: the package-level variable of another package that the store target otherpkg.Var… denotes
func pkgVarOf(info *types.Info, lhs ast.Expr) *types.Var {
	for {
		switch x := lhs.(type) {
		case *ast.SelectorExpr:
			if id, ok := x.X.(*ast.Ident); ok {
				if _, isPkg := info.Uses[id].(*types.PkgName); isPkg {
					if v, ok := info.Uses[x.Sel].(*types.Var); ok && v.Pkg() != nil && v.Parent() == v.Pkg().Scope() {
						return v
					}
					return nil
				}
			}
			lhs = x.X
		case *ast.IndexExpr:
			lhs = x.X
		case *ast.SliceExpr:
			lhs = x.X
		case *ast.ParenExpr:
			lhs = x.X
		case *ast.StarExpr:
			lhs = x.X
		default:
			return nil
		}
	}
}

// inPlaceFuncs: functions of packages maps / slices / sort that rewrite the elements of their first argument
var inPlaceFuncs = map[string]bool{"Copy": true, "DeleteFunc": true, "Delete": true, "Insert": true, "Replace": true, "Reverse": true, "Sort": true,
	"SortFunc": true, "SortStableFunc": true, "Compact": true, "CompactFunc": true, "Slice": true, "SliceStable": true, "Stable": true, "Strings": true, "Ints": true}

// readOnlyFuncs: callees that do not keep their argument (the result is a copy or a scalar)
var readOnlyFuncs = map[string]bool{"len": true, "cap": true, "Clone": true, "Equal": true, "Compare": true, "Contains": true, "Index": true,
	"ConstantTimeCompare": true, "Keys": true, "Values": true, "EncodeToString": true, "Sprintf": true, "Errorf": true, "min": true, "max": true}

// mutFacts (C18): writes through method receivers and to package-level variables.
func mutFacts(out string) {
	var facts []fact
	statefulIface := map[string]bool{"hash.Hash": true, "hash.Hash32": true, "hash.Hash64": true, "crypto/cipher.Stream": true, "crypto/cipher.BlockMode": true,
		"io.Reader": true, "io.Writer": true, "io.ReadWriter": true, "io.ReadCloser": true, "io.WriteCloser": true, "io.ByteReader": true,
		"golang.org/x/crypto/sha3.ShakeHash": true, "crypto/sha3.SHAKE": true, "*crypto/sha3.SHAKE": true}
	statefulPtr := map[string]bool{"*bytes.Buffer": true, "bytes.Buffer": true, "*math/big.Int": true, "*strings.Builder": true, "strings.Builder": true,
		"*bufio.Reader": true, "*bufio.Writer": true, "*bytes.Reader": true}
	pureMethods := map[string]bool{"Size": true, "BlockSize": true, "Len": true, "Cap": true, "String": true, "Bytes": true, "Cmp": true, "Sign": true,
		"BitLen": true, "IsInt64": true, "Int64": true, "Uint64": true, "FillBytes": true, "Text": true, "Bit": true, "ProbablyPrime": true}
	npk := loadAll(func(dir string, fset *token.FileSet, files []*ast.File, info *types.Info) {
		// package-level variables
		globals := pkgLevelVars(files, info)
		// every package-level variable whose type is (or contains) a synchronisation / recycling container: sync.Pool,
		// sync.Map, mutexes, sync.Once, atomics, channels — state that is shared between all users of the package by design
		for o := range globals {
			if cat := syncCategory(o.Type(), map[types.Type]bool{}, 0); cat != "" {
				facts = append(facts, fact{pkg: dir, fn: o.Name(), kind: "global-var", what: cat + " : " + shortType(o.Type()), owner: o.Name()})
			}
		}
		// the same for struct fields of the package's own types (a pool / cache / lock kept per object is shared by every
		// goroutine that uses the object)
		for _, f := range files {
			for _, d := range f.Decls {
				gd, ok := d.(*ast.GenDecl)
				if !ok || gd.Tok != token.TYPE {
					continue
				}
				for _, sp := range gd.Specs {
					ts := sp.(*ast.TypeSpec)
					st, ok := ts.Type.(*ast.StructType)
					if !ok || st.Fields == nil {
						continue
					}
					for _, fld := range st.Fields.List {
						tv, ok := info.Types[fld.Type]
						if !ok || tv.Type == nil {
							continue
						}
						// the field's own type (or pointer / array of it) is a sync / atomic type or a channel: structs of other
						// packages are not searched (every proto message embeds a mutex)
						cat := syncCategory(tv.Type, map[types.Type]bool{}, 6)
						if cat == "" {
							if p, ok := tv.Type.Underlying().(*types.Pointer); ok {
								cat = syncCategory(p.Elem(), map[types.Type]bool{}, 6)
							} else if a, ok := tv.Type.Underlying().(*types.Array); ok {
								cat = syncCategory(a.Elem(), map[types.Type]bool{}, 6)
							}
						}
						if cat == "" {
							continue
						}
						names := []string{exprString(fld.Type)}
						if len(fld.Names) > 0 {
							names = names[:0]
							for _, n := range fld.Names {
								names = append(names, n.Name)
							}
						}
						for _, n := range names {
							facts = append(facts, fact{pkg: dir, fn: ts.Name.Name, kind: "field-var", what: n + " : " + cat + " : " + shortType(tv.Type), owner: ts.Name.Name})
						}
					}
				}
			}
		}
		// fields (map / slice typed) of receiver types that some method writes in place: the facts about where those
		// fields are handed to other code (recv-field-escape) are emitted for these only
		inPlace := map[string]bool{} // "Type.field"
		var escapes []fact
		for _, f := range files {
			for _, d := range f.Decls {
				fd, ok := d.(*ast.FuncDecl)
				if !ok || fd.Body == nil {
					continue
				}
				recv := ""
				if fd.Recv != nil && len(fd.Recv.List) == 1 && len(fd.Recv.List[0].Names) == 1 {
					recv = fd.Recv.List[0].Names[0].Name
				}
				fn := funcName(fd)
				isInit := fd.Recv == nil && fd.Name.Name == "init"
				// locals that alias receiver-held mutable objects: x := r.f / x := r.f[a:b] with f a slice, map,
				// pointer or stateful interface
				alias := map[string]string{}
				if recv != "" {
					ast.Inspect(fd.Body, func(n ast.Node) bool {
						as, ok := n.(*ast.AssignStmt)
						if !ok || len(as.Lhs) != len(as.Rhs) {
							return true
						}
						for i, lhs := range as.Lhs {
							id, ok := lhs.(*ast.Ident)
							if !ok || id.Name == "_" {
								continue
							}
							if _, isCall := as.Rhs[i].(*ast.CallExpr); isCall {
								continue
							}
							rid, fld := rootSel(as.Rhs[i])
							if rid == nil || rid.Name != recv {
								continue
							}
							tv, ok := info.Types[as.Rhs[i]]
							if !ok || tv.Type == nil {
								continue
							}
							switch tv.Type.Underlying().(type) {
							case *types.Slice, *types.Map, *types.Pointer, *types.Interface:
								alias[id.Name] = fld
							}
						}
						return true
					})
				}
				lhsFact := func(lhs ast.Expr) {
					if recv != "" {
						if id, fld := rootSel(lhs); id != nil && id.Name == recv {
							facts = append(facts, mkFact(dir, fn, "recv-store", fld))
							return
						}
						// element / field store through an alias of a receiver-held object (not rebinding the alias itself)
						if _, plain := lhs.(*ast.Ident); !plain {
							root := rootIdent(lhs)
							if root == nil {
								root, _ = rootSel(lhs)
							}
							if root != nil {
								if fld, ok := alias[root.Name]; ok {
									facts = append(facts, mkFact(dir, fn, "recv-store", fld+" (via "+root.Name+")"))
									return
								}
							}
						}
					}
					if !isInit {
						var root *ast.Ident
						switch x := lhs.(type) {
						case *ast.Ident:
							root = x
						default:
							root = rootIdent(lhs)
							if root == nil {
								if id, _ := rootSel(lhs); id != nil {
									root = id
								}
							}
						}
						if root != nil {
							if o := info.Uses[root]; o != nil && globals[o] {
								facts = append(facts, mkFact(dir, fn, "global-store", root.Name))
							} else if _, isPkg := o.(*types.PkgName); isPkg {
								// otherpkg.Var = v / otherpkg.Var[k] = v
								if v := pkgVarOf(info, lhs); v != nil {
									facts = append(facts, mkFact(dir, fn, "global-store", root.Name+"."+v.Name()))
								}
							}
						}
					}
				}
				owner := fn
				if i := strings.Index(owner, "."); i >= 0 {
					owner = owner[:i]
				}
				// fieldOf: (field, true) when e is r.f / r.f[a:b] / (r.f) with r the receiver, or a local alias of one, and the
				// value is a map or a slice
				fieldOf := func(e ast.Expr, allowSlicing bool) (string, bool) {
					if recv == "" {
						return "", false
					}
					tv, ok := info.Types[e]
					if !ok || tv.Type == nil {
						return "", false
					}
					switch tv.Type.Underlying().(type) {
					case *types.Map, *types.Slice:
					default:
						return "", false
					}
					inner := e
					for {
						if pe, ok := inner.(*ast.ParenExpr); ok {
							inner = pe.X
							continue
						}
						if se, ok := inner.(*ast.SliceExpr); ok && allowSlicing {
							inner = se.X
							continue
						}
						break
					}
					switch x := inner.(type) {
					case *ast.SelectorExpr:
						if id, ok := x.X.(*ast.Ident); ok && id.Name == recv {
							return x.Sel.Name, true
						}
					case *ast.Ident:
						if fld, ok := alias[x.Name]; ok {
							return fld, true
						}
					}
					return "", false
				}
				inPlaceWrite := func(e ast.Expr, form string) {
					if fld, ok := fieldOf(e, true); ok {
						inPlace[owner+"."+fld] = true
						facts = append(facts, mkFact(dir, fn, "recv-inplace-write", fld+" : "+form))
					}
				}
				escape := func(e ast.Expr, form string) {
					if fld, ok := fieldOf(e, true); ok {
						escapes = append(escapes, fact{pkg: dir, fn: fn, kind: "recv-field-escape", what: fld + " : " + form, owner: owner + "." + fld})
					}
				}
				ast.Inspect(fd.Body, func(n ast.Node) bool {
					switch x := n.(type) {
					case *ast.AssignStmt:
						for i, lhs := range x.Lhs {
							// r.f[k] = v with f a map or a slice: the object every holder of r.f sees is rewritten
							if ix, ok := lhs.(*ast.IndexExpr); ok {
								inPlaceWrite(ix.X, "index-store")
							}
							// other.g = r.f
							if sel, ok := lhs.(*ast.SelectorExpr); ok && len(x.Lhs) == len(x.Rhs) {
								if rid, _ := rootSel(sel); rid == nil || rid.Name != recv {
									escape(x.Rhs[i], "stored-into "+exprString(lhs))
								}
							}
						}
						if x.Tok == token.DEFINE {
							break
						}
						for _, lhs := range x.Lhs {
							lhsFact(lhs)
						}
					case *ast.IncDecStmt:
						lhsFact(x.X)
						if ix, ok := x.X.(*ast.IndexExpr); ok {
							inPlaceWrite(ix.X, "index-store")
						}
					case *ast.ReturnStmt:
						for _, r := range x.Results {
							escape(r, "returned")
						}
					case *ast.CompositeLit:
						for _, el := range x.Elts {
							if kv, ok := el.(*ast.KeyValueExpr); ok {
								el = kv.Value
							}
							escape(el, "stored-into "+exprString(x.Type)+"{}")
						}
					case *ast.CallExpr:
						// in-place rewriting builtins / library functions, and arguments handed to other code
						calleeName := ""
						switch f := x.Fun.(type) {
						case *ast.Ident:
							calleeName = f.Name
						case *ast.SelectorExpr:
							calleeName = f.Sel.Name
						}
						if id, ok := x.Fun.(*ast.Ident); ok && len(x.Args) > 0 {
							switch id.Name {
							case "clear", "delete", "copy":
								inPlaceWrite(x.Args[0], id.Name)
							case "append":
								if se, ok := x.Args[0].(*ast.SliceExpr); ok && !fullSlice3(se) {
									inPlaceWrite(se, "append-to-reslice")
								}
							}
						}
						if sel, ok := x.Fun.(*ast.SelectorExpr); ok && len(x.Args) > 0 && inPlaceFuncs[sel.Sel.Name] {
							if pid, ok := sel.X.(*ast.Ident); ok {
								if pn, ok := info.Uses[pid].(*types.PkgName); ok {
									switch pn.Imported().Path() {
									case "maps", "slices", "sort":
										inPlaceWrite(x.Args[0], pn.Imported().Path()+"."+sel.Sel.Name)
									}
								}
							}
						}
						if _, isConv := info.Types[x.Fun]; !(isConv && info.Types[x.Fun].IsType()) && !readOnlyFuncs[calleeName] {
							for ai, a := range x.Args {
								switch calleeName {
								case "clear", "delete":
									continue
								case "copy":
									continue // copy(dst, r.f) reads; copy(r.f, src) is the in-place write above
								case "append":
									if ai > 0 && x.Ellipsis.IsValid() {
										continue // append(x, r.f...) copies the elements
									}
									if ai == 0 {
										continue // r.f = append(r.f, …): growth of the own field
									}
								}
								escape(a, "passed-to "+exprString(x.Fun))
							}
						}
						// any method call on a package-level variable outside init
						if sel, ok := x.Fun.(*ast.SelectorExpr); ok && !isInit {
							var root *ast.Ident
							if id, ok := sel.X.(*ast.Ident); ok {
								root = id
							} else if rid, _ := rootSel(sel.X); rid != nil {
								root = rid
							}
							if root != nil {
								if o := info.Uses[root]; o != nil && globals[o] {
									if _, isMethod := info.Selections[sel]; isMethod && o.Type().String() != "error" {
										facts = append(facts, fact{pkg: dir, fn: fn, kind: "global-call", what: exprString(sel.X) + "." + sel.Sel.Name + " : " + shortType(o.Type()), owner: root.Name})
									}
								}
							}
						}
						// copy(r.f[...], …)
						if id, ok := x.Fun.(*ast.Ident); ok && id.Name == "copy" && len(x.Args) == 2 && recv != "" {
							if rid, fld := rootSel(x.Args[0]); rid != nil && rid.Name == recv {
								facts = append(facts, mkFact(dir, fn, "recv-store", fld+" (copy)"))
							} else if root := rootIdent(x.Args[0]); root != nil {
								if fld, ok := alias[root.Name]; ok {
									facts = append(facts, mkFact(dir, fn, "recv-store", fld+" (copy via "+root.Name+")"))
								}
							}
						}
						sel, ok := x.Fun.(*ast.SelectorExpr)
						if !ok {
							break
						}
						// mutating container methods on a package-level variable (sync.Map, custom caches) outside init
						if id, ok := sel.X.(*ast.Ident); ok && !isInit {
							switch sel.Sel.Name {
							case "Store", "LoadOrStore", "LoadAndDelete", "Delete", "Swap", "CompareAndSwap", "CompareAndDelete", "Clear", "Put", "Set":
								if o := info.Uses[id]; o != nil && globals[o] {
									facts = append(facts, mkFact(dir, fn, "global-store", id.Name+"."+sel.Sel.Name+"()"))
								}
							}
						}
						// r.f.M(...) with f of a stateful type;  also global.M(...)
						tv, ok := info.Types[sel.X]
						if !ok || tv.Type == nil {
							break
						}
						ts := tv.Type.String()
						if !(statefulIface[ts] || statefulPtr[ts]) || pureMethods[sel.Sel.Name] {
							break
						}
						if recv != "" {
							if rid, fld := rootSel(sel.X); rid != nil && rid.Name == recv {
								facts = append(facts, mkFact(dir, fn, "recv-stateful-call", fld+"."+sel.Sel.Name+" : "+ts))
								break
							}
							if id, ok := sel.X.(*ast.Ident); ok {
								if fld, ok := alias[id.Name]; ok {
									facts = append(facts, mkFact(dir, fn, "recv-stateful-call", fld+"."+sel.Sel.Name+" : "+ts+" (via "+id.Name+")"))
									break
								}
							}
						}
						if id, ok := sel.X.(*ast.Ident); ok {
							if o := info.Uses[id]; o != nil && globals[o] && !isInit {
								facts = append(facts, mkFact(dir, fn, "global-stateful-call", id.Name+"."+sel.Sel.Name+" : "+ts))
							}
						}
					}
					return true
				})
			}
		}
		for _, e := range escapes {
			if inPlace[e.owner] {
				e.owner = ""
				facts = append(facts, e)
			}
		}
	})
	emitFacts(out, "TinkVerif.Gen.MutFacts", "Syntactic facts about post-construction writes: stores through method receivers, calls on receiver-held stateful objects, stores to package-level variables (C18).", facts, npk, true)
}
