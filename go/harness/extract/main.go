//go:build verif

// Fact extractor: regenerates Lean data from tink-go's current source (go/parser + go/types).
//
//	extract enumtables -out F.lean   — every `switch`-table conversion function of the per-key-type
//	                                   protoserialization.go files as a list of (case, result) pairs
//	extract slicefacts -out F.lean   — C19 (slice.go): entry-point summaries of what happens to the memory behind []byte
//	                                   parameters — writes, appends, retention, escapes, results aliasing a parameter, a
//	                                   receiver field or a pooled / package-level / receiver-held buffer
//	extract mutfacts -out F.lean     — C18 (mut.go): entry-point summaries of writes after construction (receiver fields,
//	                                   stateful objects held by the receiver, in-place rewrites and hand-outs of container
//	                                   fields, package-level state) plus package-level variables / struct fields of
//	                                   sync.Pool / sync.Map / mutex / atomic / channel type
//
// The fact modes load the whole module (load.go), summarise every function by a fixpoint over the call graph and report
// entry points only, in canonical form (no local or parameter names in the compared fields).
// Run with cwd=/repo and the module's toolchain (GOFLAGS=-mod=mod GOPROXY=off, GOTOOLCHAIN unset). The fact modes refuse
// (exit 2) when a package of the module does not load or type-check, or when no call site resolves to a function of the
// module (with GOTOOLCHAIN=local the source importer cannot load the module's packages). enumtables refuses rather than
// guesses when a function has the table shape but a non-constant cell.
package main

import (
	"fmt"
	"go/ast"
	"go/constant"
	"go/importer"
	"go/parser"
	"go/token"
	"go/types"
	"os"
	"path/filepath"
	"sort"
	"strconv"
	"strings"
)

type cell struct {
	caseName, retName string
	caseVal, retVal   string
}

type table struct {
	pkg, fn        string
	paramTy, resTy string
	cells          []cell
}

func die(f string, a ...any) {
	fmt.Printf("EXTRACT-ERROR: "+f+"\n", a...)
	os.Exit(2)
}

func exprName(e ast.Expr) string {
	switch x := e.(type) {
	case *ast.Ident:
		return x.Name
	case *ast.SelectorExpr:
		return exprName(x.X) + "." + x.Sel.Name
	case *ast.BasicLit:
		return x.Value
	}
	return "?"
}

func constOf(info *types.Info, e ast.Expr) (string, bool) {
	tv, ok := info.Types[e]
	if !ok || tv.Value == nil {
		return "", false
	}
	switch tv.Value.Kind() {
	case constant.Int:
		return tv.Value.ExactString(), true
	}
	return "", false
}

// addCase records the cells `keys... -> res` of one table row; an error-returning row is skipped.
func addCase(info *types.Info, t *table, keys []ast.Expr, results []ast.Expr) bool {
	if len(results) != 2 {
		return false
	}
	if id, ok := results[1].(*ast.Ident); !ok || id.Name != "nil" {
		return true // an error-returning case: not part of the table
	}
	rv, ok := constOf(info, results[0])
	if !ok {
		return false
	}
	for _, ce := range keys {
		cv, ok := constOf(info, ce)
		if !ok {
			return false
		}
		t.cells = append(t.cells, cell{exprName(ce), exprName(results[0]), cv, rv})
	}
	return true
}

// eqKeys: `p == C` or `p == C1 || p == C2 || …` (either operand order) → the constants.
func eqKeys(e ast.Expr, param string) ([]ast.Expr, bool) {
	switch x := e.(type) {
	case *ast.ParenExpr:
		return eqKeys(x.X, param)
	case *ast.BinaryExpr:
		if x.Op == token.LOR {
			a, ok1 := eqKeys(x.X, param)
			b, ok2 := eqKeys(x.Y, param)
			return append(a, b...), ok1 && ok2
		}
		if x.Op == token.EQL {
			if id, ok := x.X.(*ast.Ident); ok && id.Name == param {
				return []ast.Expr{x.Y}, true
			}
			if id, ok := x.Y.(*ast.Ident); ok && id.Name == param {
				return []ast.Expr{x.X}, true
			}
		}
	}
	return nil, false
}

// pkgMaps: package-level `var m = map[K]V{C: V, …}` literals by name.
func pkgMaps(info *types.Info, files []*ast.File) map[string]*ast.CompositeLit {
	m := map[string]*ast.CompositeLit{}
	for _, f := range files {
		for _, d := range f.Decls {
			gd, ok := d.(*ast.GenDecl)
			if !ok || gd.Tok != token.VAR {
				continue
			}
			for _, sp := range gd.Specs {
				vs := sp.(*ast.ValueSpec)
				for i, n := range vs.Names {
					if i < len(vs.Values) {
						if cl, ok := vs.Values[i].(*ast.CompositeLit); ok {
							if _, ok := cl.Type.(*ast.MapType); ok {
								m[n.Name] = cl
							}
						}
					}
				}
			}
		}
	}
	return m
}

func tableCells(info *types.Info, maps map[string]*ast.CompositeLit, fd *ast.FuncDecl, param string, t *table) bool {
	body := fd.Body.List
	// (a) a single switch on the parameter
	if len(body) == 1 {
		if sw, ok := body[0].(*ast.SwitchStmt); ok {
			tag, ok := sw.Tag.(*ast.Ident)
			if sw.Init != nil || sw.Tag == nil || !ok || tag.Name != param {
				return false
			}
			for _, c := range sw.Body.List {
				cc := c.(*ast.CaseClause)
				if cc.List == nil { // default
					continue
				}
				if len(cc.Body) != 1 {
					return false
				}
				rs, ok := cc.Body[0].(*ast.ReturnStmt)
				if !ok || !addCase(info, t, cc.List, rs.Results) {
					return false
				}
			}
			return true
		}
	}
	// (b) lookup in a package-level map literal: `v, ok := m[p]; if !ok { return …, err }; return v, nil`
	if len(body) == 3 {
		if as, ok := body[0].(*ast.AssignStmt); ok && len(as.Lhs) == 2 && len(as.Rhs) == 1 {
			if ix, ok := as.Rhs[0].(*ast.IndexExpr); ok {
				mid, ok1 := ix.X.(*ast.Ident)
				kid, ok2 := ix.Index.(*ast.Ident)
				if ok1 && ok2 && kid.Name == param && maps[mid.Name] != nil {
					rs, ok := body[2].(*ast.ReturnStmt)
					v, okv := as.Lhs[0].(*ast.Ident)
					if !ok || !okv || len(rs.Results) != 2 {
						return false
					}
					if r0, ok := rs.Results[0].(*ast.Ident); !ok || r0.Name != v.Name {
						return false
					}
					if r1, ok := rs.Results[1].(*ast.Ident); !ok || r1.Name != "nil" {
						return false
					}
					if _, ok := body[1].(*ast.IfStmt); !ok {
						return false
					}
					for _, el := range maps[mid.Name].Elts {
						kv, ok := el.(*ast.KeyValueExpr)
						if !ok || !addCase(info, t, []ast.Expr{kv.Key}, []ast.Expr{kv.Value, ast.NewIdent("nil")}) {
							return false
						}
					}
					return true
				}
			}
		}
	}
	// (c) an if-chain `if p == C { return V, nil }` … ending in a return
	if len(body) >= 2 {
		for i, st := range body {
			if i == len(body)-1 {
				rs, ok := st.(*ast.ReturnStmt)
				if !ok {
					return false
				}
				return addCase(info, t, nil, rs.Results) || len(rs.Results) == 2
			}
			is, ok := st.(*ast.IfStmt)
			if !ok || is.Init != nil || is.Else != nil || len(is.Body.List) != 1 {
				return false
			}
			keys, ok := eqKeys(is.Cond, param)
			if !ok {
				return false
			}
			rs, ok := is.Body.List[0].(*ast.ReturnStmt)
			if !ok || !addCase(info, t, keys, rs.Results) {
				return false
			}
		}
	}
	return false
}

func enumTables(out string) {
	var files []string
	filepath.WalkDir(".", func(p string, d os.DirEntry, err error) error {
		if err != nil {
			return nil
		}
		if d.IsDir() && (d.Name() == "testdata" || d.Name() == ".git" || d.Name() == "verifharness") {
			return filepath.SkipDir
		}
		if !d.IsDir() && d.Name() == "protoserialization.go" && filepath.Dir(p) != "internal/protoserialization" {
			files = append(files, p)
		}
		return nil
	})
	sort.Strings(files)
	fset := token.NewFileSet()
	imp := importer.ForCompiler(fset, "source", nil)
	var tabs []table
	for _, pf := range files {
		dir := filepath.Dir(pf)
		entries, _ := os.ReadDir(dir)
		var astFiles []*ast.File
		for _, e := range entries {
			n := e.Name()
			if !strings.HasSuffix(n, ".go") || strings.HasSuffix(n, "_test.go") || strings.Contains(n, "_verif") {
				continue
			}
			f, err := parser.ParseFile(fset, filepath.Join(dir, n), nil, parser.SkipObjectResolution)
			if err != nil {
				die("%v", err)
			}
			astFiles = append(astFiles, f)
		}
		info := &types.Info{Types: map[ast.Expr]types.TypeAndValue{}, Uses: map[*ast.Ident]types.Object{}, Defs: map[*ast.Ident]types.Object{}}
		conf := types.Config{Importer: imp, Error: func(err error) {}}
		conf.Check(dir, fset, astFiles, info)
		for _, f := range astFiles {
			if filepath.Base(fset.Position(f.Pos()).Filename) != "protoserialization.go" {
				continue
			}
			for _, d := range f.Decls {
				fd, ok := d.(*ast.FuncDecl)
				if !ok || fd.Recv != nil || fd.Body == nil || len(fd.Body.List) == 0 {
					continue
				}
				if fd.Type.Params == nil || len(fd.Type.Params.List) != 1 || len(fd.Type.Params.List[0].Names) != 1 {
					continue
				}
				if fd.Type.Results == nil || len(fd.Type.Results.List) != 2 {
					continue
				}
				param := fd.Type.Params.List[0].Names[0].Name
				t := table{pkg: dir, fn: fd.Name.Name}
				if tv, ok := info.Types[fd.Type.Params.List[0].Type]; ok {
					t.paramTy = tv.Type.String()
				}
				if tv, ok := info.Types[fd.Type.Results.List[0].Type]; ok {
					t.resTy = tv.Type.String()
				}
				// The same table can be written as a switch on the parameter, as a chain of
				// `if p == C { return V, nil }` statements, or as a lookup in a package-level map
				// literal; all three give the same cells (the extractor must not depend on which).
				shape := tableCells(info, pkgMaps(info, astFiles), fd, param, &t)
				if !shape || len(t.cells) == 0 {
					continue
				}
				tabs = append(tabs, t)
			}
		}
	}
	var sb strings.Builder
	sb.WriteString("/- GENERATED by /verif/go/harness/extract (enumtables) from */*/protoserialization.go — do not edit; regenerated on every check run. -/\n")
	sb.WriteString("namespace TinkVerif.Gen.EnumTables\n\n")
	sb.WriteString("structure Cell where\n  caseName : String\n  retName : String\n  caseVal : Nat\n  retVal : Nat\n\n")
	sb.WriteString("/-- `pkgId`, `paramTyId`, `resTyId` number the package and the Go types (same number = same type);\n    `protoParam`/`protoRes`: the type is a generated proto enum; `prefixRes`: the result is `tinkpb.OutputPrefixType` -/\n")
	sb.WriteString("structure Table where\n  pkg : String\n  fn : String\n  pkgId : Nat\n  paramTyId : Nat\n  resTyId : Nat\n  protoParam : Bool\n  protoRes : Bool\n  prefixRes : Bool\n  cells : List Cell\n\n")
	ids := map[string]int{}
	idOf := func(s string) int {
		if v, ok := ids[s]; ok {
			return v
		}
		ids[s] = len(ids) + 1
		return ids[s]
	}
	const protoPfx = "github.com/tink-crypto/tink-go/v2/proto/"
	sb.WriteString("def tables : List Table := [\n")
	for i, t := range tabs {
		for _, c := range t.cells {
			if strings.HasPrefix(c.caseVal, "-") || strings.HasPrefix(c.retVal, "-") {
				die("%s.%s: negative enum value", t.pkg, t.fn)
			}
		}
		// canonical cell order (by case value): the order of the cases in the source is irrelevant
		sort.SliceStable(t.cells, func(a, b int) bool {
			x, _ := strconv.Atoi(t.cells[a].caseVal)
			y, _ := strconv.Atoi(t.cells[b].caseVal)
			return x < y
		})
		sb.WriteString(fmt.Sprintf("  -- %s → %s\n", t.paramTy, t.resTy))
		sb.WriteString(fmt.Sprintf("  { pkg := %q, fn := %q, pkgId := %d, paramTyId := %d, resTyId := %d, protoParam := %v, protoRes := %v, prefixRes := %v, cells := [",
			t.pkg, t.fn, idOf("pkg:"+t.pkg), idOf(t.paramTy), idOf(t.resTy), strings.HasPrefix(t.paramTy, protoPfx), strings.HasPrefix(t.resTy, protoPfx),
			t.resTy == protoPfx+"tink_go_proto.OutputPrefixType"))
		for j, c := range t.cells {
			if j > 0 {
				sb.WriteString(", ")
			}
			sb.WriteString(fmt.Sprintf("⟨%q, %q, %s, %s⟩", c.caseName, c.retName, c.caseVal, c.retVal))
		}
		sb.WriteString("] }")
		if i+1 < len(tabs) {
			sb.WriteString(",")
		}
		sb.WriteString("\n")
	}
	sb.WriteString("]\n\nend TinkVerif.Gen.EnumTables\n")
	if err := os.WriteFile(out, []byte(sb.String()), 0o644); err != nil {
		die("%v", err)
	}
	fmt.Printf("enumtables: %d files, %d tables\n", len(files), len(tabs))
}

func main() {
	if len(os.Args) < 2 {
		die("usage: extract <mode> -out file")
	}
	out := ""
	for i, a := range os.Args {
		if a == "-out" && i+1 < len(os.Args) {
			out = os.Args[i+1]
		}
	}
	switch os.Args[1] {
	case "enumtables":
		enumTables(out)
	case "slicefacts":
		sliceFacts(out)
	case "mutfacts":
		mutFacts(out)
	case "bothfacts":
		// one load, both fact files (for trials): -out <slice facts> -out2 <mutation facts>
		out2 := ""
		for i, a := range os.Args {
			if a == "-out2" && i+1 < len(os.Args) {
				out2 = os.Args[i+1]
			}
		}
		m := loadModule()
		countResolved(m)
		sliceFactsOf(m, out)
		mutFactsOf(m, out2)
	default:
		die("unknown mode %s", os.Args[1])
	}
}

// ---------------------------------------------------------------------------------------------
// slicefacts / mutfacts: syntactic facts about writes through []byte parameters, retention of
// parameter slices, exposure of field slices (C19) and post-construction writes through receivers (C18).

func rootIdent(e ast.Expr) *ast.Ident {
	for {
		switch x := e.(type) {
		case *ast.Ident:
			return x
		case *ast.SliceExpr:
			e = x.X
		case *ast.IndexExpr:
			e = x.X
		case *ast.ParenExpr:
			e = x.X
		case *ast.StarExpr:
			e = x.X
		default:
			return nil
		}
	}
}

// rootSel returns (receiverIdent, firstField) for expressions r.f, r.f[i], r.f[a:b], r.f.g ...
func rootSel(e ast.Expr) (*ast.Ident, string) {
	for {
		switch x := e.(type) {
		case *ast.SelectorExpr:
			if id, ok := x.X.(*ast.Ident); ok {
				return id, x.Sel.Name
			}
			e = x.X
		case *ast.SliceExpr:
			e = x.X
		case *ast.IndexExpr:
			e = x.X
		case *ast.ParenExpr:
			e = x.X
		case *ast.StarExpr:
			e = x.X
		default:
			return nil, ""
		}
	}
}

func isByteSlice(t types.Type) bool {
	if t == nil {
		return false
	}
	s, ok := t.Underlying().(*types.Slice)
	if !ok {
		return false
	}
	b, ok := s.Elem().Underlying().(*types.Basic)
	return ok && (b.Kind() == types.Uint8)
}

func funcName(fd *ast.FuncDecl) string {
	if fd.Recv != nil && len(fd.Recv.List) == 1 {
		rt := fd.Recv.List[0].Type
		if st, ok := rt.(*ast.StarExpr); ok {
			rt = st.X
		}
		if ix, ok := rt.(*ast.IndexExpr); ok {
			rt = ix.X
		}
		if id, ok := rt.(*ast.Ident); ok {
			return id.Name + "." + fd.Name.Name
		}
	}
	return fd.Name.Name
}

// viewFuncs: functions of package bytes / slices whose result is (or holds) a sub-slice of their first argument:
// taint flows through them exactly as through a slicing expression.
var viewFuncs = map[string]bool{"TrimLeft": true, "TrimRight": true, "Trim": true, "TrimPrefix": true, "TrimSuffix": true, "TrimSpace": true,
	"TrimFunc": true, "TrimLeftFunc": true, "TrimRightFunc": true, "Fields": true, "FieldsFunc": true, "Split": true, "SplitN": true,
	"SplitAfter": true, "SplitAfterN": true, "Cut": true, "CutPrefix": true, "CutSuffix": true, "Clip": true, "Grow": true,
	"NewBuffer": true, "NewReader": true}

func exprString(e ast.Expr) string {
	switch x := e.(type) {
	case nil:
		return ""
	case *ast.Ident:
		return x.Name
	case *ast.BasicLit:
		return x.Value
	case *ast.SelectorExpr:
		return exprString(x.X) + "." + x.Sel.Name
	case *ast.ParenExpr:
		return "(" + exprString(x.X) + ")"
	case *ast.StarExpr:
		return "*" + exprString(x.X)
	case *ast.UnaryExpr:
		return x.Op.String() + exprString(x.X)
	case *ast.BinaryExpr:
		return exprString(x.X) + x.Op.String() + exprString(x.Y)
	case *ast.IndexExpr:
		return exprString(x.X) + "[" + exprString(x.Index) + "]"
	case *ast.CallExpr:
		as := make([]string, len(x.Args))
		for i, a := range x.Args {
			as[i] = exprString(a)
		}
		return exprString(x.Fun) + "(" + strings.Join(as, ",") + ")"
	case *ast.SliceExpr:
		r := exprString(x.X) + "[" + exprString(x.Low) + ":" + exprString(x.High)
		if x.Slice3 {
			r += ":" + exprString(x.Max)
		}
		return r + "]"
	case *ast.TypeAssertExpr:
		return exprString(x.X) + ".(" + exprString(x.Type) + ")"
	}
	return "?"
}

// fullSlice3: x[a:n:n] — an append to it always reallocates (it is a copy)
func fullSlice3(e ast.Expr) bool {
	se, ok := e.(*ast.SliceExpr)
	return ok && se.Slice3 && se.High != nil && se.Max != nil && exprString(se.High) == exprString(se.Max)
}

func pkgLevelVars(files []*ast.File, info *types.Info) map[types.Object]bool {
	globals := map[types.Object]bool{}
	for _, f := range files {
		for _, d := range f.Decls {
			gd, ok := d.(*ast.GenDecl)
			if !ok || gd.Tok != token.VAR {
				continue
			}
			for _, sp := range gd.Specs {
				for _, n := range sp.(*ast.ValueSpec).Names {
					if o := info.Defs[n]; o != nil && n.Name != "_" {
						globals[o] = true
					}
				}
			}
		}
	}
	return globals
}

func isBytesBuffer(t types.Type) bool {
	if t == nil {
		return false
	}
	s := t.String()
	return s == "bytes.Buffer" || s == "*bytes.Buffer"
}

// byteBacked: []byte, [n]byte, *[]byte, *[n]byte, bytes.Buffer, *bytes.Buffer
func byteBacked(t types.Type) bool {
	if t == nil {
		return false
	}
	if isBytesBuffer(t) || isByteSlice(t) {
		return true
	}
	u := t.Underlying()
	if p, ok := u.(*types.Pointer); ok {
		u = p.Elem().Underlying()
		if isByteSlice(p.Elem()) {
			return true
		}
	}
	if a, ok := u.(*types.Array); ok {
		b, ok := a.Elem().Underlying().(*types.Basic)
		return ok && b.Kind() == types.Uint8
	}
	return false
}

func stripToBase(e ast.Expr) ast.Expr {
	for {
		switch x := e.(type) {
		case *ast.ParenExpr:
			e = x.X
		case *ast.StarExpr:
			e = x.X
		case *ast.TypeAssertExpr:
			e = x.X
		case *ast.UnaryExpr:
			if x.Op != token.AND {
				return e
			}
			e = x.X
		case *ast.SliceExpr:
			e = x.X
		case *ast.IndexExpr:
			e = x.X
		default:
			return e
		}
	}
}

// syncCategory: "" unless t is or contains (through struct fields, pointers, arrays) a type of package sync / sync/atomic
// or a channel.
func syncCategory(t types.Type, seen map[types.Type]bool, depth int) string {
	if t == nil || seen[t] || depth > 6 {
		return ""
	}
	seen[t] = true
	if n, ok := t.(*types.Named); ok && n.Obj() != nil && n.Obj().Pkg() != nil {
		switch n.Obj().Pkg().Path() {
		case "sync":
			if n.Obj().Name() == "Pool" {
				return "pool"
			}
			if n.Obj().Name() == "Map" {
				return "syncmap"
			}
			return "lock"
		case "sync/atomic":
			return "atomic"
		}
	}
	switch u := t.Underlying().(type) {
	case *types.Chan:
		return "chan"
	case *types.Pointer:
		return syncCategory(u.Elem(), seen, depth+1)
	case *types.Array:
		return syncCategory(u.Elem(), seen, depth+1)
	case *types.Struct:
		best := ""
		for i := 0; i < u.NumFields(); i++ {
			if c := syncCategory(u.Field(i).Type(), seen, depth+1); c != "" {
				if c == "pool" {
					return c
				}
				if best == "" {
					best = c
				}
			}
		}
		return best
	}
	return ""
}

func shortType(t types.Type) string {
	return types.TypeString(t, func(p *types.Package) string {
		path := p.Path()
		const pfx = "github.com/tink-crypto/tink-go/v2/"
		return strings.TrimPrefix(path, pfx)
	})
}

// pkgVarOf: the package-level variable of another package that the store target otherpkg.Var… denotes
func pkgVarOf(info *types.Info, lhs ast.Expr) *types.Var {
	for {
		switch x := lhs.(type) {
		case *ast.SelectorExpr:
			if id, ok := x.X.(*ast.Ident); ok {
				if _, isPkg := info.Uses[id].(*types.PkgName); isPkg {
					if v, ok := info.Uses[x.Sel].(*types.Var); ok && v.Pkg() != nil && v.Parent() == v.Pkg().Scope() {
						return v
					}
					return nil
				}
			}
			lhs = x.X
		case *ast.IndexExpr:
			lhs = x.X
		case *ast.SliceExpr:
			lhs = x.X
		case *ast.ParenExpr:
			lhs = x.X
		case *ast.StarExpr:
			lhs = x.X
		default:
			return nil
		}
	}
}

// inPlaceFuncs: functions of packages maps / slices / sort that rewrite the elements of their first argument
var inPlaceFuncs = map[string]bool{"Copy": true, "DeleteFunc": true, "Delete": true, "Insert": true, "Replace": true, "Reverse": true, "Sort": true,
	"SortFunc": true, "SortStableFunc": true, "Compact": true, "CompactFunc": true, "Slice": true, "SliceStable": true, "Stable": true, "Strings": true, "Ints": true}

// readOnlyFuncs: callees that do not keep their argument (the result is a copy or a scalar)
var readOnlyFuncs = map[string]bool{"len": true, "cap": true, "Clone": true, "Equal": true, "Compare": true, "Contains": true, "Index": true,
	"ConstantTimeCompare": true, "Keys": true, "Values": true, "EncodeToString": true, "Sprintf": true, "Errorf": true, "min": true, "max": true,
	"IndexFunc": true, "ContainsFunc": true, "EqualFunc": true, "BinarySearch": true, "BinarySearchFunc": true, "IsSorted": true, "IsSortedFunc": true,
	"Max": true, "Min": true, "MaxFunc": true, "MinFunc": true, "HasPrefix": true, "HasSuffix": true, "Count": true, "Sprint": true, "Sprintln": true,
	"Marshal": true, "Size": true, "DeepEqual": true}
