//go:build verif

package main

// slicefacts (C19): what entry points do with the memory behind their []byte parameters.
//
// Every declared function gets a SUMMARY, computed by a fixpoint over the call graph of the whole module:
//
//	effects   (source, kind, what): the memory of `source` is written within its length (store-to-param, copy-into-param,
//	          write-into-param, aead-dst-param), appended to (append-to-param), handed to a container that outlives the
//	          call (escape-param), or kept by an object that outlives the call (retain-param <where>); for object-typed
//	          parameters: the object itself is kept (retain-obj) — only used to compose summaries;
//	results   per result index: which sources the result is a view of, or which sources the returned object holds (and where).
//
// Sources are the function's own parameters by POSITION (`#i` a []byte / [][]byte parameter, `#i.Field` a []byte field of
// a struct / options parameter, `#i*` an object-typed parameter), the receiver (`recv.f` a []byte field, `recv*`), and
// library-internal buffers (`int:<origin>`: pool.Get(), a package-level buffer, a receiver-held array / bytes.Buffer).
// Values flow through locals (flow-insensitive), slicing, conversions between byte-slice types, the slice-preserving
// functions of bytes / slices, append(p[:k], …), composite literals and field stores into local objects (the object then
// HOLDS the source), field reads, range, and calls of functions of the module (their summaries are applied at the call
// site; calls through interfaces and function values are unknown callees: byte views passed to them are not reported,
// objects holding a source that are passed to them count as retained unless the callee is a known pure function).
// A freshly allocated buffer (make, append([]byte{}, …), Clone, Concat, the result of an unknown callee) is no source.
//
// FACTS are the summaries of the entry points (see load.go), phrased canonically: no parameter or local names in the
// compared fields.

import (
	"fmt"
	"go/ast"
	"go/token"
	"go/types"
	"sort"
	"strconv"
	"strings"
)

type item struct {
	src   string // see above
	where string // "" = the value is (a view of) src; otherwise the value is an object holding src at `where`
	field string // top-level field of the holding object ("" if nested / not applicable)
}

type sEffect struct{ src, kind, what string }

type sSummary struct {
	eff map[sEffect]string      // → info
	ret map[int]map[item]string // result index → items → info
}

func newSSummary() *sSummary {
	return &sSummary{eff: map[sEffect]string{}, ret: map[int]map[item]string{}}
}

func (s *sSummary) size() int {
	n := len(s.eff)
	for _, r := range s.ret {
		n += len(r)
	}
	return n
}

// pureCallees: callees outside the module that neither keep nor write their arguments
var pureCallees = map[string]bool{"proto.Marshal": true, "proto.Size": true, "proto.Equal": true, "proto.Clone": true, "fmt.Sprintf": true,
	"fmt.Errorf": true, "fmt.Sprint": true, "fmt.Sprintln": true, "fmt.Fprintf": true, "errors.New": true, "bytes.Equal": true, "bytes.Compare": true,
	"bytes.HasPrefix": true, "bytes.HasSuffix": true, "bytes.Contains": true, "bytes.Clone": true, "slices.Clone": true, "slices.Concat": true,
	"bytes.Join": true, "hex.EncodeToString": true, "subtle.ConstantTimeCompare": true, "hmac.Equal": true, "len": true, "cap": true,
	"slices.Equal": true, "slices.Contains": true, "reflect.TypeOf": true, "reflect.DeepEqual": true, "prototext.Format": true,
	"protojson.Marshal": true, "json.Marshal": true, "errors.Is": true, "errors.As": true, "min": true, "max": true, "panic": true, "print": true, "println": true,
	"copy": true, "append": true, "delete": true, "clear": true, "new": true, "make": true, "string": true}

func isByteSliceSlice(t types.Type) bool {
	if t == nil {
		return false
	}
	s, ok := t.Underlying().(*types.Slice)
	if ok {
		return isByteSlice(s.Elem())
	}
	if a, ok := t.Underlying().(*types.Array); ok {
		return isByteSlice(a.Elem())
	}
	return false
}

func objectish(t types.Type) bool {
	if t == nil {
		return false
	}
	switch u := t.Underlying().(type) {
	case *types.Pointer, *types.Struct, *types.Interface, *types.Map, *types.Chan:
		return true
	case *types.Slice:
		return !isByteSlice(t) && !isByteSliceSlice(t) && objectish(u.Elem())
	case *types.Array:
		return objectish(u.Elem())
	}
	return false
}

// ownType: a type (or pointer / slice / map of it) declared in the module, incl. its generated proto packages
func ownType(t types.Type) bool {
	for i := 0; i < 4 && t != nil; i++ {
		if n := namedOf(t); n != nil {
			return n.Obj().Pkg() != nil && strings.HasPrefix(n.Obj().Pkg().Path(), modulePath)
		}
		switch u := t.Underlying().(type) {
		case *types.Slice:
			t = u.Elem()
		case *types.Array:
			t = u.Elem()
		case *types.Map:
			t = u.Elem()
		case *types.Pointer:
			t = u.Elem()
		default:
			return false
		}
	}
	return false
}

// isProtoMessage: (pointer to) a generated message type of the module's proto packages
func isProtoMessage(t types.Type) bool {
	n := namedOf(t)
	if n == nil || n.Obj().Pkg() == nil {
		return false
	}
	if _, ok := n.Underlying().(*types.Struct); !ok {
		return false
	}
	return strings.HasSuffix(n.Obj().Pkg().Path(), "_go_proto")
}

func typeName(t types.Type) string {
	if n := namedOf(t); n != nil {
		if n.Obj().Pkg() != nil && n.Obj().Pkg().Path() != "" {
			return n.Obj().Name()
		}
		return n.Obj().Name()
	}
	if t == nil {
		return "?"
	}
	return shortType(t)
}

type sAnalyzer struct {
	m    *module
	fi   *funcInfo
	pd   *pkgData
	sums map[string]*sSummary
	out  *sSummary
	// sources of the function's parameters
	pIndex  map[string]int // parameter name → position
	dropped map[string]bool
	env     map[string]map[item]string // locals → items
	changed bool
	named   []string // named results
}

func (a *sAnalyzer) info() *types.Info { return a.pd.info }

func (a *sAnalyzer) isGlobal(id *ast.Ident) bool {
	o := a.info().Uses[id]
	return o != nil && a.pd.globals[o]
}

func (a *sAnalyzer) typeOf(e ast.Expr) types.Type {
	if tv, ok := a.info().Types[e]; ok {
		return tv.Type
	}
	if id, ok := e.(*ast.Ident); ok {
		if o := a.info().Uses[id]; o != nil {
			return o.Type()
		}
		if o := a.info().Defs[id]; o != nil {
			return o.Type()
		}
	}
	return nil
}

func (a *sAnalyzer) addEnv(name string, its map[item]string) {
	if name == "_" || len(its) == 0 {
		return
	}
	e := a.env[name]
	if e == nil {
		e = map[item]string{}
		a.env[name] = e
	}
	for it, inf := range its {
		if _, ok := e[it]; !ok {
			e[it] = inf
			a.changed = true
		}
	}
}

func (a *sAnalyzer) effect(src, kind, what, info string) {
	if src == "" || strings.HasPrefix(src, "int:") {
		return
	}
	k := sEffect{src, kind, what}
	if _, ok := a.out.eff[k]; !ok {
		a.out.eff[k] = info
	}
}

func (a *sAnalyzer) addRet(k int, its map[item]string) {
	r := a.out.ret[k]
	if r == nil {
		r = map[item]string{}
		a.out.ret[k] = r
	}
	for it, inf := range its {
		if _, ok := r[it]; !ok {
			r[it] = inf
		}
	}
}

func one(src, info string) map[item]string { return map[item]string{{src: src}: info} }

func merge(dst, src map[item]string) map[item]string {
	if len(src) == 0 {
		return dst
	}
	if dst == nil {
		dst = map[item]string{}
	}
	for k, v := range src {
		if _, ok := dst[k]; !ok {
			dst[k] = v
		}
	}
	return dst
}

func isObjSrc(s string) bool { return strings.HasSuffix(s, "*") }

// eval: what memory the value of e is a view of / holds
func (a *sAnalyzer) eval(e ast.Expr) map[item]string {
	switch x := e.(type) {
	case nil:
		return nil
	case *ast.ParenExpr:
		return a.eval(x.X)
	case *ast.StarExpr:
		return a.eval(x.X)
	case *ast.UnaryExpr:
		if x.Op == token.AND {
			return a.eval(x.X)
		}
		return nil
	case *ast.TypeAssertExpr:
		return a.eval(x.X)
	case *ast.Ident:
		if x.Name == "_" || x.Name == "nil" {
			return nil
		}
		if a.fi.recv != "" && x.Name == a.fi.recv {
			return one("recv*", "receiver "+x.Name)
		}
		if i, ok := a.pIndex[x.Name]; ok && a.isParamIdent(x) {
			if a.dropped[x.Name] {
				return a.env[x.Name]
			}
			t := a.fi.params[i].typ
			switch {
			case isByteSlice(t), isByteSliceSlice(t):
				return merge(one("#"+strconv.Itoa(i), "parameter "+x.Name), a.env[x.Name])
			case objectish(t):
				return merge(one("#"+strconv.Itoa(i)+"*", "parameter "+x.Name), a.env[x.Name])
			}
			return a.env[x.Name]
		}
		if a.isGlobal(x) {
			if byteBacked(a.typeOf(x)) {
				return one("int:"+x.Name, "package-level "+x.Name)
			}
			return nil
		}
		return a.env[x.Name]
	case *ast.SliceExpr:
		if t := a.typeOf(x.X); t != nil {
			if _, isArr := t.Underlying().(*types.Array); isArr {
				if sel, ok := x.X.(*ast.SelectorExpr); ok {
					if id, ok := sel.X.(*ast.Ident); ok && a.fi.recv != "" && id.Name == a.fi.recv {
						return one("int:recv."+sel.Sel.Name, "receiver field "+sel.Sel.Name)
					}
				}
			}
		}
		return a.eval(x.X)
	case *ast.IndexExpr:
		t := a.typeOf(e)
		if isByteSlice(t) || isByteSliceSlice(t) || objectish(t) {
			return a.eval(x.X)
		}
		return nil
	case *ast.SelectorExpr:
		if id, ok := x.X.(*ast.Ident); ok {
			if _, isPkg := a.info().Uses[id].(*types.PkgName); isPkg {
				return nil
			}
		}
		t := a.typeOf(e)
		bytesy := isByteSlice(t) || isByteSliceSlice(t)
		if !bytesy && !objectish(t) && !byteBacked(t) {
			return nil
		}
		var out map[item]string
		for it, inf := range a.eval(x.X) {
			switch {
			case it.where != "":
				if it.field == x.Sel.Name {
					out = merge(out, map[item]string{{src: it.src}: inf})
				}
			case isObjSrc(it.src):
				if bytesy {
					out = merge(out, one(strings.TrimSuffix(it.src, "*")+"."+x.Sel.Name, inf+" field "+x.Sel.Name))
				} else if ownType(t) {
					// a sub-object of the caller's object (options inside options, a proto message inside a message); objects of
					// standard-library types (*big.Int, hash.Hash, …) are values of their own
					out = merge(out, map[item]string{it: inf})
				}
			}
		}
		return out
	case *ast.CompositeLit:
		return a.evalLit(x)
	case *ast.CallExpr:
		return a.evalCall(x, 0)
	case *ast.FuncLit:
		return nil
	}
	return nil
}

// isParamIdent: the identifier denotes the parameter (not a shadowing local)
func (a *sAnalyzer) isParamIdent(id *ast.Ident) bool {
	o := a.info().Uses[id]
	if o == nil {
		o = a.info().Defs[id]
	}
	if o == nil {
		return true
	}
	v, ok := o.(*types.Var)
	if !ok {
		return false
	}
	// a parameter is declared in the function's signature
	return a.fi.decl.Type.Pos() <= v.Pos() && v.Pos() <= a.fi.decl.Type.End()
}

func (a *sAnalyzer) litName(x *ast.CompositeLit) string {
	if x.Type != nil {
		return exprString(x.Type)
	}
	return typeName(a.typeOf(x))
}

func (a *sAnalyzer) evalLit(x *ast.CompositeLit) map[item]string {
	t := a.typeOf(x)
	viewsOnly := isByteSliceSlice(t) // [][]byte{p, q}: a list of views
	name := a.litName(x)
	var out map[item]string
	for i, el := range x.Elts {
		key := "#" + strconv.Itoa(i)
		v := el
		if kv, ok := el.(*ast.KeyValueExpr); ok {
			key = exprName(kv.Key)
			v = kv.Value
		}
		for it, inf := range a.eval(v) {
			switch {
			case viewsOnly && it.where == "":
				out = merge(out, map[item]string{it: inf})
			case it.where == "":
				out = merge(out, map[item]string{{src: it.src, where: name + "{" + key + "}", field: key}: inf})
			default:
				out = merge(out, map[item]string{{src: it.src, where: it.where}: inf})
			}
		}
	}
	return out
}

func calleeName(ce *ast.CallExpr) string {
	switch f := ce.Fun.(type) {
	case *ast.Ident:
		return f.Name
	case *ast.SelectorExpr:
		if id, ok := f.X.(*ast.Ident); ok {
			return id.Name + "." + f.Sel.Name
		}
		return f.Sel.Name
	}
	return ""
}

func (a *sAnalyzer) isPkg(e ast.Expr, paths ...string) bool {
	id, ok := e.(*ast.Ident)
	if !ok {
		return false
	}
	pn, ok := a.info().Uses[id].(*types.PkgName)
	if !ok {
		return false
	}
	for _, p := range paths {
		if pn.Imported().Path() == p {
			return true
		}
	}
	return false
}

// argExprs: the argument expressions bound to parameter j of the callee (the variadic parameter takes the rest)
func argExprs(ce *ast.CallExpr, callee *funcInfo, j int) []ast.Expr {
	n := len(callee.params)
	variadic := callee.decl.Type.Params != nil && n > 0 && func() bool {
		l := callee.decl.Type.Params.List
		_, ok := l[len(l)-1].Type.(*ast.Ellipsis)
		return ok
	}()
	if variadic && j == n-1 {
		if j < len(ce.Args) {
			return ce.Args[j:]
		}
		return nil
	}
	if j < len(ce.Args) {
		return ce.Args[j : j+1]
	}
	return nil
}

// mapSrc translates a source of the callee into items of the caller at this call site
func (a *sAnalyzer) mapSrc(src string, ce *ast.CallExpr, callee *funcInfo, recvExpr ast.Expr) map[item]string {
	if strings.HasPrefix(src, "int:") {
		if strings.HasPrefix(src, "int:recv.") {
			// a buffer held by the callee's receiver: internal to that object
			return one(src, "")
		}
		return one(src, "")
	}
	var base map[item]string
	rest := ""
	if strings.HasPrefix(src, "recv") {
		if recvExpr == nil {
			return nil
		}
		base = a.eval(recvExpr)
		rest = strings.TrimPrefix(src, "recv")
	} else {
		s := strings.TrimPrefix(src, "#")
		k := 0
		for k < len(s) && s[k] >= '0' && s[k] <= '9' {
			k++
		}
		j, err := strconv.Atoi(s[:k])
		if err != nil {
			return nil
		}
		rest = s[k:]
		for _, ae := range argExprs(ce, callee, j) {
			base = merge(base, a.eval(ae))
		}
	}
	var out map[item]string
	for it, inf := range base {
		switch {
		case rest == "": // a byte / views parameter
			if it.where == "" && !isObjSrc(it.src) {
				out = merge(out, map[item]string{it: inf})
			}
		case rest == "*":
			out = merge(out, map[item]string{it: inf})
		case strings.HasPrefix(rest, "."):
			f := rest[1:]
			if it.where == "" && isObjSrc(it.src) {
				out = merge(out, one(strings.TrimSuffix(it.src, "*")+"."+f, inf+" field "+f))
			} else if it.where != "" && it.field == f {
				out = merge(out, map[item]string{{src: it.src}: inf})
			}
		}
	}
	return out
}

func via(info, name string) string {
	if strings.Contains(info, "via ") {
		i := strings.Index(info, "via ")
		return info[:i] + "via " + name + " > " + info[i+4:]
	}
	if info == "" {
		return "via " + name
	}
	return info + " via " + name
}

// evalCall: the k-th result of a call
func (a *sAnalyzer) evalCall(ce *ast.CallExpr, k int) map[item]string {
	// conversion T(x) between byte-slice types shares the memory
	if tv, ok := a.info().Types[ce.Fun]; ok && tv.IsType() {
		if len(ce.Args) == 1 && (isByteSlice(tv.Type) || isByteSliceSlice(tv.Type)) {
			return a.eval(ce.Args[0])
		}
		if len(ce.Args) == 1 && objectish(tv.Type) {
			return a.eval(ce.Args[0])
		}
		return nil
	}
	if id, ok := ce.Fun.(*ast.Ident); ok && id.Name == "append" && len(ce.Args) > 0 {
		if _, isBuiltin := a.info().Uses[id].(*types.Builtin); isBuiltin {
			var out map[item]string
			if !fullSlice3(ce.Args[0]) {
				out = merge(out, a.eval(ce.Args[0]))
			}
			// appending views / objects to a list: the list holds them
			t := a.typeOf(ce)
			if isByteSliceSlice(t) || objectish(t) {
				for _, ae := range ce.Args[1:] {
					out = merge(out, a.eval(ae))
				}
			}
			return out
		}
	}
	if sel, ok := ce.Fun.(*ast.SelectorExpr); ok {
		if viewFuncs[sel.Sel.Name] && a.isPkg(sel.X, "bytes", "slices") && len(ce.Args) > 0 {
			return a.eval(ce.Args[0])
		}
		// x.Bytes() of a bytes.Buffer that is library state; pool.Get() / global.Load()
		if t := a.typeOf(sel.X); isBytesBuffer(t) && (sel.Sel.Name == "Bytes" || sel.Sel.Name == "Next" || sel.Sel.Name == "AvailableBuffer") {
			if fs, ok := stripToBase(sel.X).(*ast.SelectorExpr); ok {
				if id, ok := fs.X.(*ast.Ident); ok && a.fi.recv != "" && id.Name == a.fi.recv {
					return one("int:recv."+fs.Sel.Name, "receiver field "+fs.Sel.Name)
				}
			}
			var out map[item]string
			for it, inf := range a.eval(sel.X) {
				if strings.HasPrefix(it.src, "int:") {
					out = merge(out, map[item]string{it: inf})
				}
			}
			return out
		}
		if sel.Sel.Name == "Get" || sel.Sel.Name == "Load" {
			rt := a.typeOf(ce)
			if rt != nil {
				base := stripToBase(sel.X)
				if id, ok := base.(*ast.Ident); ok && a.isGlobal(id) {
					return one("int:"+id.Name+"."+sel.Sel.Name+"()", "package-level "+id.Name)
				}
				if fs, ok := base.(*ast.SelectorExpr); ok {
					if id, ok := fs.X.(*ast.Ident); ok && a.fi.recv != "" && id.Name == a.fi.recv && syncCategory(a.typeOf(fs), map[types.Type]bool{}, 0) != "" {
						return one("int:recv."+fs.Sel.Name+"."+sel.Sel.Name+"()", "receiver field "+fs.Sel.Name)
					}
				}
			}
		}
	}
	// generated proto getters x.GetF() read the field F of the message
	if sel, ok := ce.Fun.(*ast.SelectorExpr); ok && len(ce.Args) == 0 && strings.HasPrefix(sel.Sel.Name, "Get") && len(sel.Sel.Name) > 3 && isProtoMessage(a.typeOf(sel.X)) {
		t := a.typeOf(ce)
		bytesy := isByteSlice(t) || isByteSliceSlice(t)
		if !bytesy && !objectish(t) {
			return nil
		}
		f := sel.Sel.Name[3:]
		var out map[item]string
		for it, inf := range a.eval(sel.X) {
			switch {
			case it.where != "":
				if it.field == f {
					out = merge(out, map[item]string{{src: it.src}: inf})
				}
			case isObjSrc(it.src):
				if bytesy {
					out = merge(out, one(strings.TrimSuffix(it.src, "*")+"."+f, inf+" field "+f))
				} else {
					out = merge(out, map[item]string{it: inf})
				}
			}
		}
		return out
	}
	callee, recvExpr, _ := a.m.callee(a.pd, ce)
	if callee == nil {
		return nil
	}
	sum := a.sums[callee.key]
	if sum == nil {
		return nil
	}
	var out map[item]string
	for r, rinf := range sum.ret[k] {
		for b, binf := range a.mapSrc(r.src, ce, callee, recvExpr) {
			inf := via(binf, callee.name)
			_ = rinf
			switch {
			case r.where == "":
				out = merge(out, map[item]string{b: inf})
			case b.where == "":
				out = merge(out, map[item]string{{src: b.src, where: r.where, field: r.field}: inf})
			default:
				out = merge(out, map[item]string{{src: b.src, where: b.where}: inf})
			}
		}
	}
	return out
}

// sink: a value reaches something that outlives the call (a field of the receiver / of a caller's object / a
// package-level variable / an unknown callee)
func (a *sAnalyzer) sink(its map[item]string, where string, objWhat string) {
	for it, inf := range its {
		switch {
		case it.where != "":
			a.effect(it.src, "retain-param", it.where, inf)
			if isObjSrc(it.src) {
				a.effect(it.src, "retain-obj", it.where, inf)
			}
		case isObjSrc(it.src):
			a.effect(it.src, "retain-obj", objWhat, inf)
		default:
			a.effect(it.src, "retain-param", where, inf)
		}
	}
}

func (a *sAnalyzer) byteViews(e ast.Expr) map[item]string {
	var out map[item]string
	for it, inf := range a.eval(e) {
		if it.where == "" && !isObjSrc(it.src) {
			out = merge(out, map[item]string{it: inf})
		}
	}
	return out
}

func (a *sAnalyzer) viewEffect(e ast.Expr, kind, what string) {
	for it, inf := range a.byteViews(e) {
		a.effect(it.src, kind, what, inf)
	}
}

// rootOf: the identifier at the root of an lvalue and whether it is local to the function
func (a *sAnalyzer) rootOf(e ast.Expr) (*ast.Ident, bool) {
	for {
		switch x := e.(type) {
		case *ast.Ident:
			if a.fi.recv != "" && x.Name == a.fi.recv {
				return x, false
			}
			if _, ok := a.pIndex[x.Name]; ok && a.isParamIdent(x) {
				return x, false
			}
			if a.isGlobal(x) {
				return x, false
			}
			if _, isPkg := a.info().Uses[x].(*types.PkgName); isPkg {
				return x, false
			}
			return x, true
		case *ast.SelectorExpr:
			e = x.X
		case *ast.IndexExpr:
			e = x.X
		case *ast.SliceExpr:
			e = x.X
		case *ast.StarExpr:
			e = x.X
		case *ast.ParenExpr:
			e = x.X
		case *ast.CallExpr, *ast.TypeAssertExpr:
			return nil, false // the object behind a call result: not ours to judge — treated as outliving
		default:
			return nil, false
		}
	}
}

func (a *sAnalyzer) assign(lhs ast.Expr, val map[item]string) {
	switch l := lhs.(type) {
	case *ast.Ident:
		if l.Name == "_" {
			return
		}
		if a.isGlobal(l) {
			a.sink(val, "package-level "+l.Name, "package-level "+l.Name)
			return
		}
		a.addEnv(l.Name, val)
	case *ast.ParenExpr:
		a.assign(l.X, val)
	default:
		if len(val) == 0 {
			return
		}
		root, local := a.rootOf(lhs)
		// canonical place: <type of the object>.<field>
		place := "?"
		field := ""
		switch x := lhs.(type) {
		case *ast.SelectorExpr:
			field = x.Sel.Name
			place = typeName(a.typeOf(x.X)) + "." + field
		case *ast.IndexExpr:
			place = typeName(a.typeOf(x.X)) + "[]"
			if sx, ok := x.X.(*ast.SelectorExpr); ok {
				field = sx.Sel.Name
				place = typeName(a.typeOf(sx.X)) + "." + field + "[]"
			}
		case *ast.StarExpr:
			place = "*" + typeName(a.typeOf(x.X))
		}
		if root != nil && local {
			held := map[item]string{}
			for it, inf := range val {
				if it.where == "" && !isObjSrc(it.src) {
					held[item{src: it.src, where: place, field: field}] = inf
				} else if it.where == "" {
					held[item{src: it.src, where: place, field: field}] = inf
				} else {
					held[item{src: it.src, where: it.where}] = inf
				}
			}
			a.addEnv(root.Name, held)
			return
		}
		a.sink(val, place, place)
	}
}

func (a *sAnalyzer) call(ce *ast.CallExpr) {
	// builtins and destination-first writers on byte views
	if id, ok := ce.Fun.(*ast.Ident); ok && len(ce.Args) > 0 {
		if _, isBuiltin := a.info().Uses[id].(*types.Builtin); isBuiltin {
			switch id.Name {
			case "append":
				if !fullSlice3(ce.Args[0]) {
					a.viewEffect(ce.Args[0], "append-to-param", "")
				}
			case "copy":
				a.viewEffect(ce.Args[0], "copy-into-param", "")
			case "clear":
				a.viewEffect(ce.Args[0], "store-to-param", "")
			}
			return
		}
	}
	if tv, ok := a.info().Types[ce.Fun]; ok && tv.IsType() {
		return
	}
	callee, recvExpr, fn := a.m.callee(a.pd, ce)
	if callee != nil {
		if sum := a.sums[callee.key]; sum != nil {
			for e, einf := range sum.eff {
				for b, binf := range a.mapSrc(e.src, ce, callee, recvExpr) {
					inf := via(binf, callee.name)
					if i := strings.Index(einf, "via "); i >= 0 {
						inf += " > " + einf[i+4:]
					}
					switch {
					case e.kind == "retain-obj":
						if b.where != "" {
							a.effect(b.src, "retain-param", b.where, inf)
							if isObjSrc(b.src) {
								a.effect(b.src, "retain-obj", b.where, inf)
							}
						} else if isObjSrc(b.src) {
							a.effect(b.src, "retain-obj", e.what, inf)
						} else {
							a.effect(b.src, "retain-param", e.what, inf)
						}
					case b.where == "":
						a.effect(b.src, e.kind, e.what, inf)
					}
				}
			}
		}
		return
	}
	// unknown callee
	name := calleeName(ce)
	if sel, ok := ce.Fun.(*ast.SelectorExpr); ok && len(ce.Args) > 0 {
		nm := sel.Sel.Name
		if nm == "Store" || nm == "LoadOrStore" || nm == "Swap" || nm == "CompareAndSwap" || nm == "Put" {
			cont := exprString(sel.X)
			if fs, ok := sel.X.(*ast.SelectorExpr); ok {
				if id, ok := fs.X.(*ast.Ident); ok && a.fi.recv != "" && id.Name == a.fi.recv {
					cont = "recv." + fs.Sel.Name
				}
			}
			for _, ae := range ce.Args {
				a.viewEffect(ae, "escape-param", cont+"."+nm)
			}
		}
		if nm == "XORBytes" || nm == "XORKeyStream" || nm == "CryptBlocks" || nm == "PutUint32" || nm == "PutUint64" || nm == "PutUint16" || nm == "Read" || nm == "ReadFull" || nm == "FillBytes" {
			idx := 0
			if nm == "ReadFull" {
				idx = 1
			}
			if idx < len(ce.Args) {
				a.viewEffect(ce.Args[idx], "write-into-param", nm)
			}
		}
		if nm == "Seal" || nm == "Open" {
			a.viewEffect(ce.Args[0], "aead-dst-param", nm)
		}
		// buf := bytes.NewBuffer(p); buf.Write(…) appends into p's spare capacity
		if strings.HasPrefix(nm, "Write") && isBytesBuffer(a.typeOf(sel.X)) {
			a.viewEffect(sel.X, "append-to-param", "bytes.Buffer."+nm)
		}
	}
	pure := pureCallees[name]
	if fn != nil && fn.Pkg() != nil && !pure {
		pure = pureCallees[fn.Pkg().Name()+"."+fn.Name()]
	}
	if pure {
		return
	}
	// objects holding a source, and the caller's objects themselves, handed to code we cannot see
	for _, ae := range ce.Args {
		for it, inf := range a.eval(ae) {
			if it.where != "" {
				a.effect(it.src, "retain-param", it.where, inf+" passed to "+name)
				if isObjSrc(it.src) {
					a.effect(it.src, "retain-obj", it.where, inf)
				}
			} else if isObjSrc(it.src) {
				a.effect(it.src, "retain-obj", "passed-to-unknown", inf+" passed to "+name)
			}
		}
	}
}

func (a *sAnalyzer) walk() {
	fd := a.fi.decl
	ast.Inspect(fd.Body, func(n ast.Node) bool {
		switch x := n.(type) {
		case *ast.AssignStmt:
			for _, lhs := range x.Lhs {
				// element store p[i] = v, p[i] op= v
				if ix, ok := lhs.(*ast.IndexExpr); ok && isByteSlice(a.typeOf(ix.X)) {
					a.viewEffect(ix.X, "store-to-param", "")
				}
			}
			if len(x.Lhs) == len(x.Rhs) {
				for i, lhs := range x.Lhs {
					if x.Tok != token.ASSIGN && x.Tok != token.DEFINE {
						continue // op-assign: no aliasing
					}
					a.assign(lhs, a.eval(x.Rhs[i]))
				}
			} else if len(x.Rhs) == 1 {
				switch r := x.Rhs[0].(type) {
				case *ast.CallExpr:
					isView := false
					if sel, ok := r.Fun.(*ast.SelectorExpr); ok && viewFuncs[sel.Sel.Name] && a.isPkg(sel.X, "bytes", "slices") {
						isView = true
					}
					for i, lhs := range x.Lhs {
						if isView {
							if t := a.typeOf(lhs); isByteSlice(t) || isByteSliceSlice(t) {
								a.assign(lhs, a.eval(r.Args[0]))
							}
							continue
						}
						a.assign(lhs, a.evalCall(r, i))
					}
				case *ast.TypeAssertExpr:
					a.assign(x.Lhs[0], a.eval(r.X))
				case *ast.IndexExpr:
					a.assign(x.Lhs[0], a.eval(r))
				}
			}
		case *ast.DeclStmt:
			if gd, ok := x.Decl.(*ast.GenDecl); ok && gd.Tok == token.VAR {
				for _, sp := range gd.Specs {
					vs := sp.(*ast.ValueSpec)
					if len(vs.Names) == len(vs.Values) {
						for i, n := range vs.Names {
							a.addEnv(n.Name, a.eval(vs.Values[i]))
						}
					}
				}
			}
		case *ast.IncDecStmt:
			if ix, ok := x.X.(*ast.IndexExpr); ok && isByteSlice(a.typeOf(ix.X)) {
				a.viewEffect(ix.X, "store-to-param", "")
			}
		case *ast.RangeStmt:
			if id, ok := x.Value.(*ast.Ident); ok && id.Name != "_" {
				t := a.typeOf(x.X)
				if isByteSliceSlice(t) || objectish(t) {
					a.addEnv(id.Name, a.eval(x.X))
				}
			}
		case *ast.ReturnStmt:
			if len(x.Results) == 0 {
				for k, n := range a.named {
					a.addRet(k, a.env[n])
				}
			} else if len(x.Results) == 1 {
				if ce, ok := x.Results[0].(*ast.CallExpr); ok && a.nResults() > 1 {
					for k := 0; k < a.nResults(); k++ {
						a.addRet(k, a.evalCall(ce, k))
					}
				} else {
					a.addRet(0, a.eval(x.Results[0]))
				}
			} else {
				for k, r := range x.Results {
					a.addRet(k, a.eval(r))
				}
			}
		case *ast.CallExpr:
			a.call(x)
		case *ast.SendStmt:
			a.sink(a.eval(x.Value), "channel", "channel")
		}
		return true
	})
}

func (a *sAnalyzer) nResults() int {
	n := 0
	if r := a.fi.decl.Type.Results; r != nil {
		for _, f := range r.List {
			if len(f.Names) == 0 {
				n++
			} else {
				n += len(f.Names)
			}
		}
	}
	return n
}

func analyzeSlice(m *module, fi *funcInfo, sums map[string]*sSummary) *sSummary {
	a := &sAnalyzer{m: m, fi: fi, pd: fi.pd, sums: sums, out: newSSummary(), pIndex: map[string]int{}, dropped: map[string]bool{}, env: map[string]map[item]string{}}
	for i, p := range fi.params {
		if p.name != "_" {
			a.pIndex[p.name] = i
		}
	}
	if r := fi.decl.Type.Results; r != nil {
		for _, f := range r.List {
			for _, n := range f.Names {
				a.named = append(a.named, n.Name)
			}
		}
	}
	// a parameter that is reassigned from a Clone (p = bytes.Clone(p), p = slices.Clone(p), …) no longer denotes caller
	// memory (flow-insensitive: any such reassignment in the body)
	ast.Inspect(fi.decl.Body, func(n ast.Node) bool {
		as, ok := n.(*ast.AssignStmt)
		if !ok || as.Tok != token.ASSIGN || len(as.Lhs) != len(as.Rhs) {
			return true
		}
		for i, lhs := range as.Lhs {
			if id, ok := lhs.(*ast.Ident); ok {
				if _, isParam := a.pIndex[id.Name]; isParam {
					if ce, ok := as.Rhs[i].(*ast.CallExpr); ok {
						if se, ok := ce.Fun.(*ast.SelectorExpr); ok && se.Sel.Name == "Clone" {
							a.dropped[id.Name] = true
						}
					}
				}
			}
		}
		return true
	})
	for pass := 0; pass < 5; pass++ {
		a.changed = false
		a.walk()
		if !a.changed {
			break
		}
	}
	return a.out
}

func countResolved(m *module) {
	for _, pd := range m.pkgs {
		for _, f := range pd.files {
			ast.Inspect(f, func(n ast.Node) bool {
				if ce, ok := n.(*ast.CallExpr); ok {
					if fi, _, _ := m.callee(pd, ce); fi != nil {
						m.resolved++
					}
				}
				return true
			})
		}
	}
	if m.resolved == 0 {
		die("no call site could be resolved to a function of the module: type information is missing")
	}
}

func sliceFacts(out string) {
	m := loadModule()
	countResolved(m)
	sliceFactsOf(m, out)
}

func sliceFactsOf(m *module, out string) {
	sums := map[string]*sSummary{}
	var keys []string
	for k := range m.funcs {
		keys = append(keys, k)
	}
	sort.Strings(keys)
	for round := 0; round < 30; round++ {
		changed := false
		for _, k := range keys {
			s := analyzeSlice(m, m.funcs[k], sums)
			if old := sums[k]; old == nil || old.size() != s.size() {
				changed = true
			}
			// keep the first informational texts (stable output)
			if old := sums[k]; old != nil {
				for e, inf := range old.eff {
					if _, ok := s.eff[e]; ok {
						s.eff[e] = inf
					}
				}
			}
			sums[k] = s
		}
		if !changed {
			break
		}
		if round == 29 {
			die("slicefacts: summaries did not stabilise")
		}
	}
	var facts []factRec
	for _, k := range keys {
		fi := m.funcs[k]
		if !fi.entry {
			continue
		}
		s := sums[k]
		pname := func(src string) string {
			if strings.HasPrefix(src, "#") {
				t := strings.TrimPrefix(src, "#")
				j := 0
				for j < len(t) && t[j] >= '0' && t[j] <= '9' {
					j++
				}
				if i, err := strconv.Atoi(t[:j]); err == nil && i < len(fi.params) {
					return fi.params[i].name + t[j:]
				}
			}
			return src
		}
		add := func(kind, what, src, inf string) {
			info := pname(src)
			if i := strings.Index(inf, "via "); i >= 0 {
				info += " " + inf[i:]
			}
			facts = append(facts, factRec{pkg: fi.pd.dir, fn: fi.name, kind: kind, what: what, info: info})
		}
		protoParam := func(src string) bool {
			if !isObjSrc(src) || !strings.HasPrefix(src, "#") {
				return false
			}
			i, err := strconv.Atoi(strings.TrimSuffix(strings.TrimPrefix(src, "#"), "*"))
			return err == nil && i < len(fi.params) && isProtoMessage(fi.params[i].typ)
		}
		for e, inf := range s.eff {
			if e.kind == "retain-obj" && protoParam(e.src) && e.what != "passed-to-unknown" {
				// the caller's proto message (it carries the caller's bytes) is kept
				add("retain-param", e.what+"="+e.src, e.src, inf)
				continue
			}
			if isObjSrc(e.src) || strings.HasPrefix(e.src, "recv") {
				continue
			}
			switch e.kind {
			case "store-to-param", "append-to-param", "copy-into-param":
				w := e.src
				if e.what != "" {
					w += " (" + e.what + ")"
				}
				add(e.kind, w, e.src, inf)
			case "write-into-param", "aead-dst-param":
				add(e.kind, e.what+":"+e.src, e.src, inf)
			case "retain-param":
				add(e.kind, e.what+"="+e.src, e.src, inf)
			case "escape-param":
				add(e.kind, e.what+"("+e.src+")", e.src, inf)
			}
		}
		var resTypes []types.Type
		if fo, ok := fi.pd.info.Defs[fi.decl.Name].(*types.Func); ok {
			if sig, ok := fo.Type().(*types.Signature); ok {
				for i := 0; i < sig.Results().Len(); i++ {
					resTypes = append(resTypes, sig.Results().At(i).Type())
				}
			}
		}
		for k, r := range s.ret {
			bytesRes := k < len(resTypes) && (isByteSlice(resTypes[k]) || isByteSliceSlice(resTypes[k]))
			for it, inf := range r {
				if it.where == "" && !bytesRes {
					continue // e.g. an object parameter handed back
				}
				if it.where != "" && strings.HasPrefix(it.src, "recv") {
					continue
				}
				switch {
				case isObjSrc(it.src):
					if it.where != "" && protoParam(it.src) {
						add("retain-param", it.where+"="+it.src, it.src, inf)
					}
				case strings.HasPrefix(it.src, "int:"):
					if it.where == "" {
						add("return-internal", strings.TrimPrefix(it.src, "int:"), it.src, inf)
					}
				case strings.HasPrefix(it.src, "recv."):
					if it.where == "" {
						add("return-field", strings.TrimPrefix(it.src, "recv."), it.src, inf)
					}
				case it.where == "":
					add("return-param", it.src, it.src, inf)
				default:
					// the returned object holds the caller's memory
					add("retain-param", it.where+"="+it.src, it.src, inf)
				}
			}
		}
	}
	emitFactRecs(out, "TinkVerif.Gen.SliceFacts", "Entry-point summaries of what happens to the memory behind []byte parameters: writes, retention, exposure (C19).", facts, m, false)
	_ = fmt.Sprint
}
