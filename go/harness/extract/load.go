//go:build verif

package main

// Whole-module loading for the interprocedural fact modes (slicefacts, mutfacts).
//
// All non-test packages of the module are parsed and type-checked once and kept in memory. Every function declaration
// gets a key that is the same whether the function is seen from its own package or through an import
// ("<dir>:<Recv>.<Name>"), so that summaries computed for a function can be applied at call sites in other packages.
//
// ENTRY POINTS are the functions whose behaviour a user of the library (or another package) can observe directly:
//   - exported functions and methods with exported names (on any type: they are reachable through interfaces),
//   - methods whose name is a method of an interface type declared in the module (unexported interface methods),
//   - functions / methods whose VALUE is used (stored in a registry, a struct field, passed as an argument, …).
// Facts are reported for entry points only; everything an entry point does through unexported helpers is attributed to
// it by the summaries.
//
// The loader refuses (exit 2) when any package fails to load or type-check: without type information the
// type-dependent facts would silently disappear.

import (
	"fmt"
	"go/ast"
	"go/importer"
	"go/parser"
	"go/token"
	"go/types"
	"os"
	"path/filepath"
	"sort"
	"strings"
)

const modulePath = "github.com/tink-crypto/tink-go/v2"

type paramInfo struct {
	name string
	typ  types.Type
}

type funcInfo struct {
	key      string
	pd       *pkgData
	decl     *ast.FuncDecl
	name     string // Type.Method or Func
	recv     string // name of the receiver variable ("" if none / unnamed)
	recvType string // name of the receiver's type ("" for plain functions)
	params   []paramInfo
	entry    bool
	isInit   bool
}

type pkgData struct {
	dir     string
	files   []*ast.File
	info    *types.Info
	pkg     *types.Package
	globals map[types.Object]bool
	funcs   []*funcInfo
}

type module struct {
	fset  *token.FileSet
	pkgs  []*pkgData
	funcs map[string]*funcInfo
	// resolved: number of call sites whose callee was resolved to a function of the module
	resolved int
}

func relPkgPath(p string) string {
	if p == modulePath {
		return "."
	}
	return strings.TrimPrefix(p, modulePath+"/")
}

func namedOf(t types.Type) *types.Named {
	for {
		switch x := t.(type) {
		case *types.Pointer:
			t = x.Elem()
		case *types.Named:
			return x
		case *types.Alias:
			t = types.Unalias(x)
		default:
			return nil
		}
	}
}

// funcKey: stable key of a declared function / method of the module ("" for anything else)
func funcKey(fn *types.Func) string {
	if fn == nil || fn.Pkg() == nil {
		return ""
	}
	fn = fn.Origin()
	p := fn.Pkg().Path()
	if !(p == modulePath || strings.HasPrefix(p, modulePath+"/")) {
		return ""
	}
	recv := ""
	if sig, ok := fn.Type().(*types.Signature); ok && sig.Recv() != nil {
		if n := namedOf(sig.Recv().Type()); n != nil {
			recv = n.Obj().Name()
		} else {
			return "" // interface method
		}
		if _, isIface := sig.Recv().Type().Underlying().(*types.Interface); isIface {
			return ""
		}
	}
	return relPkgPath(p) + ":" + recv + "." + fn.Name()
}

func loadModule() *module {
	var dirs []string
	filepath.WalkDir(".", func(p string, d os.DirEntry, err error) error {
		if err != nil {
			return nil
		}
		if d.IsDir() {
			n := d.Name()
			if n == "testdata" || n == ".git" || n == "verifharness" || n == "proto" || n == "testing" || n == "testutil" || n == "testkeyset" ||
				n == "testvectors" || strings.HasSuffix(n, "_go_proto") || n == "examples" || n == "docs" || n == "kokoro" || n == "tools" {
				return filepath.SkipDir
			}
			dirs = append(dirs, p)
		}
		return nil
	})
	sort.Strings(dirs)
	m := &module{fset: token.NewFileSet(), funcs: map[string]*funcInfo{}}
	imp := importer.ForCompiler(m.fset, "source", nil)
	var problems []string
	for _, dir := range dirs {
		entries, _ := os.ReadDir(dir)
		var astFiles []*ast.File
		for _, e := range entries {
			nm := e.Name()
			if !strings.HasSuffix(nm, ".go") || strings.HasSuffix(nm, "_test.go") || strings.HasSuffix(nm, "_verif.go") {
				continue
			}
			f, err := parser.ParseFile(m.fset, filepath.Join(dir, nm), nil, parser.SkipObjectResolution)
			if err != nil {
				die("%v", err)
			}
			if strings.HasSuffix(f.Name.Name, "_test") {
				continue
			}
			astFiles = append(astFiles, f)
		}
		if len(astFiles) == 0 {
			continue
		}
		info := &types.Info{Types: map[ast.Expr]types.TypeAndValue{}, Uses: map[*ast.Ident]types.Object{}, Defs: map[*ast.Ident]types.Object{},
			Selections: map[*ast.SelectorExpr]*types.Selection{}, Instances: map[*ast.Ident]types.Instance{}}
		nerr := 0
		conf := types.Config{Importer: imp, Error: func(err error) {
			if nerr < 3 {
				problems = append(problems, fmt.Sprintf("%s: %v", dir, err))
			}
			nerr++
		}}
		path := modulePath + "/" + filepath.ToSlash(dir)
		if dir == "." {
			path = modulePath
		}
		pkg, _ := conf.Check(path, m.fset, astFiles, info)
		pd := &pkgData{dir: filepath.ToSlash(dir), files: astFiles, info: info, pkg: pkg}
		pd.globals = pkgLevelVars(astFiles, info)
		m.pkgs = append(m.pkgs, pd)
	}
	if len(problems) > 0 {
		// lost type information makes facts disappear silently: refuse
		if len(problems) > 12 {
			problems = append(problems[:12], fmt.Sprintf("… and %d more", len(problems)-12))
		}
		die("packages of the module do not load / type-check (the type-dependent facts would be lost):\n  %s", strings.Join(problems, "\n  "))
	}
	// function table
	ifaceMethods := map[string]bool{}
	for _, pd := range m.pkgs {
		for _, f := range pd.files {
			ast.Inspect(f, func(n ast.Node) bool {
				if it, ok := n.(*ast.InterfaceType); ok && it.Methods != nil {
					for _, fld := range it.Methods.List {
						for _, nm := range fld.Names {
							ifaceMethods[nm.Name] = true
						}
					}
				}
				return true
			})
			for _, d := range f.Decls {
				fd, ok := d.(*ast.FuncDecl)
				if !ok || fd.Body == nil {
					continue
				}
				obj, _ := pd.info.Defs[fd.Name].(*types.Func)
				if obj == nil {
					continue
				}
				fi := &funcInfo{key: funcKey(obj), pd: pd, decl: fd, name: funcName(fd)}
				if fd.Recv != nil && len(fd.Recv.List) == 1 {
					if len(fd.Recv.List[0].Names) == 1 {
						fi.recv = fd.Recv.List[0].Names[0].Name
					}
					if i := strings.Index(fi.name, "."); i >= 0 {
						fi.recvType = fi.name[:i]
					}
				}
				if fd.Type.Params != nil {
					for _, p := range fd.Type.Params.List {
						var t types.Type
						if tv, ok := pd.info.Types[p.Type]; ok {
							t = tv.Type
						}
						if len(p.Names) == 0 {
							fi.params = append(fi.params, paramInfo{"_", t})
						}
						for _, n := range p.Names {
							fi.params = append(fi.params, paramInfo{n.Name, t})
						}
					}
				}
				fi.isInit = fd.Recv == nil && fd.Name.Name == "init"
				fi.entry = ast.IsExported(fd.Name.Name) && !fi.isInit
				pd.funcs = append(pd.funcs, fi)
				if fi.key != "" && !fi.isInit {
					m.funcs[fi.key] = fi
				}
			}
		}
	}
	// methods implementing (possibly unexported) interface methods; functions whose value is used
	for _, pd := range m.pkgs {
		for _, fi := range pd.funcs {
			if fi.recvType != "" && ifaceMethods[fi.decl.Name.Name] {
				fi.entry = true
			}
		}
		for _, f := range pd.files {
			callFuns := map[ast.Node]bool{}
			ast.Inspect(f, func(n ast.Node) bool {
				if ce, ok := n.(*ast.CallExpr); ok {
					fun := ce.Fun
					for {
						switch x := fun.(type) {
						case *ast.ParenExpr:
							fun = x.X
							continue
						case *ast.IndexExpr:
							fun = x.X
							continue
						case *ast.IndexListExpr:
							fun = x.X
							continue
						}
						break
					}
					callFuns[fun] = true
					if se, ok := fun.(*ast.SelectorExpr); ok {
						callFuns[se.Sel] = true
					}
				}
				return true
			})
			ast.Inspect(f, func(n ast.Node) bool {
				if x, ok := n.(*ast.Ident); ok && !callFuns[x] {
					if fn, ok := pd.info.Uses[x].(*types.Func); ok {
						if fi := m.funcs[funcKey(fn)]; fi != nil {
							fi.entry = true
						}
					}
				}
				return true
			})
		}
	}
	return m
}

// callee resolves the function of a call expression to a declared function of the module (nil: builtin, standard
// library, interface method, function value) and returns the receiver expression of a method call.
func (m *module) callee(pd *pkgData, ce *ast.CallExpr) (fi *funcInfo, recvExpr ast.Expr, fn *types.Func) {
	fun := ce.Fun
	for {
		switch x := fun.(type) {
		case *ast.ParenExpr:
			fun = x.X
			continue
		case *ast.IndexExpr:
			if _, isFunc := pd.info.Types[x.X]; isFunc && pd.info.Types[x.X].Type != nil {
				if _, ok := pd.info.Types[x.X].Type.Underlying().(*types.Signature); ok {
					fun = x.X
					continue
				}
			}
		case *ast.IndexListExpr:
			fun = x.X
			continue
		}
		break
	}
	switch x := fun.(type) {
	case *ast.Ident:
		fn, _ = pd.info.Uses[x].(*types.Func)
	case *ast.SelectorExpr:
		fn, _ = pd.info.Uses[x.Sel].(*types.Func)
		if fn != nil {
			if sig, ok := fn.Type().(*types.Signature); ok && sig.Recv() != nil {
				recvExpr = x.X
			}
		}
	}
	if fn == nil {
		return nil, nil, nil
	}
	return m.funcs[funcKey(fn)], recvExpr, fn
}

// factRec is one regenerated fact. pkg, fn, kind, what (and owner for C18) are compared by the classification; info is
// for the reader (parameter and local names, helper chain) and never compared.
type factRec struct{ pkg, fn, kind, what, owner, info string }

func emitFactRecs(out, ns, doc string, facts []factRec, m *module, withOwner bool) {
	sort.Slice(facts, func(i, j int) bool {
		a, b := facts[i], facts[j]
		if a.pkg != b.pkg {
			return a.pkg < b.pkg
		}
		if a.fn != b.fn {
			return a.fn < b.fn
		}
		if a.kind != b.kind {
			return a.kind < b.kind
		}
		if a.what != b.what {
			return a.what < b.what
		}
		if a.owner != b.owner {
			return a.owner < b.owner
		}
		return a.info < b.info
	})
	var sb strings.Builder
	sb.WriteString("/- GENERATED by /verif/go/harness/extract — do not edit; regenerated on every check run.\n   " + doc + " -/\n")
	sb.WriteString("namespace " + ns + "\n\n")
	sb.WriteString("/-- `fn` is an ENTRY POINT (exported function, method with an exported or interface name, function whose value is used);\n" +
		"    `what` is canonical (parameter positions `#i`, `recv`, field / type / package-level names — no local or parameter names);\n" +
		"    `info` (parameter names, helper chain) is informational and not compared by the classification")
	if withOwner {
		sb.WriteString(";\n    `owner`: the receiver type of the method `fn` (the function name for a plain function), or the package-level variable /\n    struct type a `global-*` / `field-var` fact is about")
	}
	sb.WriteString(" -/\n")
	if withOwner {
		sb.WriteString("structure Fact where\n  pkg : String\n  fn : String\n  kind : String\n  what : String\n  owner : String\n  info : String\nderiving DecidableEq, Repr\n\n")
	} else {
		sb.WriteString("structure Fact where\n  pkg : String\n  fn : String\n  kind : String\n  what : String\n  info : String\nderiving DecidableEq, Repr\n\n")
	}
	nEntry := 0
	for _, fi := range m.funcs {
		if fi.entry {
			nEntry++
		}
	}
	sb.WriteString(fmt.Sprintf("def packagesScanned : Nat := %d\n\n", len(m.pkgs)))
	sb.WriteString(fmt.Sprintf("def functionsScanned : Nat := %d\n\n", len(m.funcs)))
	sb.WriteString(fmt.Sprintf("def entryPoints : Nat := %d\n\n", nEntry))
	sb.WriteString(fmt.Sprintf("/-- call sites resolved (through go/types) to a declared function of the module -/\ndef resolvedCallSites : Nat := %d\n\n", m.resolved))
	sb.WriteString("def facts : List Fact := [\n")
	first := true
	var prev factRec
	n := 0
	for _, f := range facts {
		if !first && f.pkg == prev.pkg && f.fn == prev.fn && f.kind == prev.kind && f.what == prev.what && f.owner == prev.owner {
			continue
		}
		if !first {
			sb.WriteString(",\n")
		}
		first = false
		prev = f
		n++
		if withOwner {
			owner := f.owner
			if owner == "" {
				owner = f.fn
				if i := strings.Index(owner, "."); i >= 0 {
					owner = owner[:i]
				}
			}
			sb.WriteString(fmt.Sprintf("  ⟨%q, %q, %q, %q, %q, %q⟩", f.pkg, f.fn, f.kind, f.what, owner, f.info))
		} else {
			sb.WriteString(fmt.Sprintf("  ⟨%q, %q, %q, %q, %q⟩", f.pkg, f.fn, f.kind, f.what, f.info))
		}
	}
	sb.WriteString("\n]\n\nend " + ns + "\n")
	if err := os.WriteFile(out, []byte(sb.String()), 0o644); err != nil {
		die("%v", err)
	}
	fmt.Printf("%s: %d packages, %d functions, %d entry points, %d resolved call sites, %d facts\n", ns, len(m.pkgs), len(m.funcs), nEntry, m.resolved, n)
}
