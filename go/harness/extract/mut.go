//go:build verif

package main

// mutfacts (C18): what entry points write after construction.
//
// Summary of a function, by fixpoint over the call graph of the module: effects (object, kind, what) on its OBJECTS — the
// receiver (`recv`), parameters that are pointers to / values of struct types (`#i`: the helper form of a method) and
// map / slice parameters (`#i`, containers) — and on package-level state (object ""):
//
//	recv-store <field>                 store to a field (or through it: element, sub-field, alias)
//	recv-stateful-call <field.M : T>   mutating method of a receiver-held hash / cipher stream / buffer / big.Int / io object
//	recv-inplace-write <field : form>  the map / slice held in the field is rewritten in place
//	recv-field-escape <field : form>   such a field is handed out (returned, stored elsewhere, passed to an unknown callee
//	                                   or to a function of the module that itself keeps / hands it on)
//	global-store / global-stateful-call / global-call   package-level variables, outside init
//
// A call `r.h(…)`, `h(r, …)`, `h(r.f)` of a function of the module applies the callee's summary to the caller's object
// (the helper's stores become the entry point's stores); `r.f.M(…)` on an object held in a field turns M's effects on its
// receiver into effects on `f.…` of r. Fresh local objects (constructors) are no objects of the function: writes to them
// are construction. Facts are the effects of ENTRY POINTS (load.go) on their receiver and on package-level state.
//
// Independent of functions: `global-var` / `field-var` (package-level variables and struct fields of sync.Pool / sync.Map /
// mutex / atomic / channel type). Known-immutable standard-library values (*base64.Encoding, *regexp.Regexp, *big.Int used
// through read-only methods, elliptic.Curve, errors) give no `global-call` fact.

import (
	"go/ast"
	"go/token"
	"go/types"
	"sort"
	"strconv"
	"strings"
)

type mEffect struct{ obj, kind, what, owner string }

type mSummary struct{ eff map[mEffect]string }

var statefulIface = map[string]bool{"hash.Hash": true, "hash.Hash32": true, "hash.Hash64": true, "crypto/cipher.Stream": true, "crypto/cipher.BlockMode": true,
	"io.Reader": true, "io.Writer": true, "io.ReadWriter": true, "io.ReadCloser": true, "io.WriteCloser": true, "io.ByteReader": true,
	"golang.org/x/crypto/sha3.ShakeHash": true, "crypto/sha3.SHAKE": true, "*crypto/sha3.SHAKE": true}
var statefulPtr = map[string]bool{"*bytes.Buffer": true, "bytes.Buffer": true, "*math/big.Int": true, "*strings.Builder": true, "strings.Builder": true,
	"*bufio.Reader": true, "*bufio.Writer": true, "*bytes.Reader": true}
var pureMethods = map[string]bool{"Size": true, "BlockSize": true, "Len": true, "Cap": true, "String": true, "Bytes": true, "Cmp": true, "Sign": true,
	"BitLen": true, "IsInt64": true, "Int64": true, "Uint64": true, "FillBytes": true, "Text": true, "Bit": true, "ProbablyPrime": true,
	"CmpAbs": true, "IsUint64": true, "TrailingZeroBits": true, "Append": true, "Format": true}

// immutableGlobal: a package-level value of a standard-library type whose methods (or the ones named) neither mutate it
// nor are unsafe for concurrent use, by documentation
func immutableGlobal(t types.Type, method string) bool {
	if t == nil {
		return false
	}
	switch t.String() {
	case "*encoding/base64.Encoding", "encoding/base64.Encoding", "*encoding/base32.Encoding", "*encoding/hex.Encoder":
		return true
	case "*regexp.Regexp":
		return method != "Longest"
	case "*math/big.Int", "*math/big.Float", "*math/big.Rat":
		return pureMethods[method]
	case "error", "crypto/elliptic.Curve", "crypto/ecdh.Curve", "encoding/binary.ByteOrder", "time.Duration", "time.Time", "reflect.Type",
		"*time.Location", "crypto.Hash", "encoding/binary.bigEndian", "encoding/binary.littleEndian":
		return true
	}
	return false
}

type mAnalyzer struct {
	m      *module
	fi     *funcInfo
	pd     *pkgData
	sums   map[string]*mSummary
	out    *mSummary
	pIndex map[string]int
	// locals that alias an object's field (x := r.f, x := r.f[a:b]) or a whole object (x := r)
	alias map[string][2]string // local → (object, field path; "" = the object itself)
}

func (a *mAnalyzer) info() *types.Info { return a.pd.info }

func (a *mAnalyzer) typeOf(e ast.Expr) types.Type {
	if tv, ok := a.info().Types[e]; ok {
		return tv.Type
	}
	if id, ok := e.(*ast.Ident); ok {
		if o := a.info().Uses[id]; o != nil {
			return o.Type()
		}
		if o := a.info().Defs[id]; o != nil {
			return o.Type()
		}
	}
	return nil
}

func (a *mAnalyzer) isParamIdent(id *ast.Ident) bool {
	o := a.info().Uses[id]
	if o == nil {
		o = a.info().Defs[id]
	}
	v, ok := o.(*types.Var)
	if !ok {
		return false
	}
	return a.fi.decl.Type.Pos() <= v.Pos() && v.Pos() <= a.fi.decl.Type.End()
}

func structish(t types.Type) bool {
	if t == nil {
		return false
	}
	if p, ok := t.Underlying().(*types.Pointer); ok {
		t = p.Elem()
	}
	_, ok := t.Underlying().(*types.Struct)
	return ok
}

func containerish(t types.Type) bool {
	if t == nil {
		return false
	}
	switch t.Underlying().(type) {
	case *types.Map, *types.Slice:
		return true
	}
	return false
}

// objIdent: "recv", "#i" or "" for an identifier
func (a *mAnalyzer) objIdent(id *ast.Ident) string {
	if a.fi.recv != "" && id.Name == a.fi.recv {
		o := a.info().Uses[id]
		if v, ok := o.(*types.Var); ok && a.fi.decl.Recv != nil && a.fi.decl.Recv.Pos() <= v.Pos() && v.Pos() <= a.fi.decl.Recv.End() {
			return "recv"
		}
		if o == nil {
			return "recv"
		}
		return ""
	}
	if i, ok := a.pIndex[id.Name]; ok && a.isParamIdent(id) {
		t := a.fi.params[i].typ
		if structish(t) || containerish(t) {
			return "#" + strconv.Itoa(i)
		}
	}
	return ""
}

// path resolves an expression to (object, field path) if it denotes (part of) one of the function's objects:
// r → (recv, ""), r.f / r.f[i] / r.f[a:b] / (*r).f → (recv, "f"), r.f.g → (recv, "f.g"), alias → its path.
func (a *mAnalyzer) path(e ast.Expr) (obj, fld string, ok bool) {
	switch x := e.(type) {
	case *ast.Ident:
		if o := a.objIdent(x); o != "" {
			return o, "", true
		}
		if al, ok := a.alias[x.Name]; ok {
			return al[0], al[1], true
		}
		return "", "", false
	case *ast.ParenExpr:
		return a.path(x.X)
	case *ast.StarExpr:
		return a.path(x.X)
	case *ast.UnaryExpr:
		if x.Op == token.AND {
			return a.path(x.X)
		}
	case *ast.SliceExpr:
		return a.path(x.X)
	case *ast.IndexExpr:
		return a.path(x.X)
	case *ast.SelectorExpr:
		o, f, ok := a.path(x.X)
		if !ok {
			return "", "", false
		}
		if f == "" {
			return o, x.Sel.Name, true
		}
		return o, f + "." + x.Sel.Name, true
	}
	return "", "", false
}

func topField(f string) string {
	if i := strings.Index(f, "."); i >= 0 {
		return f[:i]
	}
	return f
}

// capPath: field paths are cut after three components (recursive types: t.next.next.…)
func capPath(w string) string {
	head, rest := w, ""
	if i := strings.Index(w, " : "); i >= 0 {
		head, rest = w[:i], w[i:]
	}
	parts := strings.Split(head, ".")
	if len(parts) > 3 {
		head = strings.Join(parts[:3], ".") + ".…"
	}
	return head + rest
}

func (a *mAnalyzer) effect(obj, kind, what, owner, info string) {
	if strings.HasPrefix(kind, "recv-") {
		what = capPath(what)
	}
	k := mEffect{obj, kind, what, owner}
	if _, ok := a.out.eff[k]; !ok {
		a.out.eff[k] = info
	}
}

// canon: an expression with the receiver written `recv`, parameters `#i`, other locals by their type
func (a *mAnalyzer) canon(e ast.Expr) string {
	switch x := e.(type) {
	case *ast.Ident:
		if o := a.objIdent(x); o != "" {
			return o
		}
		if i, ok := a.pIndex[x.Name]; ok && a.isParamIdent(x) {
			return "#" + strconv.Itoa(i)
		}
		switch a.info().Uses[x].(type) {
		case *types.PkgName, *types.Func, *types.Builtin, *types.TypeName, *types.Const, *types.Nil:
			return x.Name
		}
		if o := a.info().Uses[x]; o != nil && a.pd.globals[o] {
			return x.Name
		}
		if t := a.typeOf(x); t != nil {
			return "(" + shortType(t) + ")"
		}
		return "?"
	case *ast.SelectorExpr:
		return a.canon(x.X) + "." + x.Sel.Name
	case *ast.ParenExpr:
		return a.canon(x.X)
	case *ast.StarExpr:
		return a.canon(x.X)
	case *ast.IndexExpr:
		return a.canon(x.X)
	case *ast.IndexListExpr:
		return a.canon(x.X)
	case *ast.CallExpr:
		return a.canon(x.Fun) + "()"
	case *ast.CompositeLit:
		if x.Type != nil {
			return exprString(x.Type) + "{}"
		}
		return typeName(a.typeOf(x)) + "{}"
	}
	return "?"
}

func (a *mAnalyzer) store(lhs ast.Expr) {
	if obj, fld, ok := a.path(lhs); ok {
		if fld == "" {
			// *r = …, or an element of a container parameter
			if _, isIdent := lhs.(*ast.Ident); isIdent {
				return // rebinding the local name
			}
			if strings.HasPrefix(obj, "#") {
				if _, isIdx := lhs.(*ast.IndexExpr); isIdx {
					a.effect(obj, "recv-inplace-write", " : index-store", "", "")
					return
				}
			}
			a.effect(obj, "recv-store", "*", "", "")
			return
		}
		inf := ""
		if root := rootIdent(lhs); root != nil {
			if _, isAlias := a.alias[root.Name]; isAlias {
				inf = "via local " + root.Name
			}
		} else if id, _ := rootSel(lhs); id != nil {
			if _, isAlias := a.alias[id.Name]; isAlias {
				inf = "via local " + id.Name
			}
		}
		if _, plain := lhs.(*ast.Ident); plain {
			return // rebinding an alias
		}
		a.effect(obj, "recv-store", topField(fld), "", inf)
		return
	}
	if a.fi.isInit {
		return
	}
	var root *ast.Ident
	switch x := lhs.(type) {
	case *ast.Ident:
		root = x
	default:
		root = rootIdent(lhs)
		if root == nil {
			if id, _ := rootSel(lhs); id != nil {
				root = id
			}
		}
	}
	if root != nil {
		if o := a.info().Uses[root]; o != nil && a.pd.globals[o] {
			a.effect("", "global-store", root.Name, "", "")
		} else if _, isPkg := o.(*types.PkgName); isPkg {
			if v := pkgVarOf(a.info(), lhs); v != nil {
				a.effect("", "global-store", root.Name+"."+v.Name(), "", "")
			}
		}
	}
}

// container: the expression is a map / slice that lives in one of the function's objects (or is a container parameter)
func (a *mAnalyzer) container(e ast.Expr) (obj, fld string, ok bool) {
	t := a.typeOf(e)
	if !containerish(t) {
		return "", "", false
	}
	// strip slicing (and indexing into containers of containers)
	inner := e
	for {
		if pe, ok := inner.(*ast.ParenExpr); ok {
			inner = pe.X
			continue
		}
		if se, ok := inner.(*ast.SliceExpr); ok {
			inner = se.X
			continue
		}
		// an element that is itself a map / slice (r.f[k] of a map of slices) shares the container's memory
		if ie, ok := inner.(*ast.IndexExpr); ok && containerish(a.typeOf(ie.X)) {
			inner = ie.X
			continue
		}
		break
	}
	switch x := inner.(type) {
	case *ast.Ident:
		if o := a.objIdent(x); o != "" && strings.HasPrefix(o, "#") {
			return o, "", true
		}
		if al, ok := a.alias[x.Name]; ok && al[1] != "" {
			return al[0], al[1], true
		}
	case *ast.SelectorExpr:
		if o, f, ok := a.path(x); ok && f != "" {
			return o, f, true
		}
	}
	return "", "", false
}

func (a *mAnalyzer) inPlace(e ast.Expr, form string) {
	if obj, fld, ok := a.container(e); ok {
		a.effect(obj, "recv-inplace-write", fld+" : "+form, "", "")
	}
}

func (a *mAnalyzer) escape(e ast.Expr, form string) {
	if obj, fld, ok := a.container(e); ok {
		a.effect(obj, "recv-field-escape", fld+" : "+form, "", "")
	}
}

func (a *mAnalyzer) applyCallee(ce *ast.CallExpr, callee *funcInfo, recvExpr ast.Expr) {
	sum := a.sums[callee.key]
	if sum == nil {
		return
	}
	for e, inf := range sum.eff {
		ninf := via(inf, callee.name)
		switch {
		case e.obj == "":
			// package-level state: attributed to the caller when the callee is not reported itself
			if !callee.entry && callee.pd == a.pd {
				a.effect("", e.kind, e.what, e.owner, ninf)
			}
		case e.obj == "recv":
			if recvExpr == nil {
				continue
			}
			obj, fld, ok := a.path(recvExpr)
			if !ok {
				continue
			}
			if fld == "" {
				// the same object: a helper method (an entry point reports its effects itself)
				if !callee.entry {
					a.effect(obj, e.kind, e.what, "", ninf)
				}
			} else {
				// an object held in a field
				a.effect(obj, e.kind, fld+"."+e.what, "", ninf)
			}
		default: // "#j"
			j, err := strconv.Atoi(strings.TrimPrefix(e.obj, "#"))
			if err != nil {
				continue
			}
			for _, ae := range argExprs(ce, callee, j) {
				if obj, fld, ok := a.container(ae); ok && (e.kind == "recv-inplace-write" || e.kind == "recv-field-escape") {
					w := e.what
					if strings.HasPrefix(w, " : ") {
						w = fld + w
					} else {
						w = fld + "." + w
					}
					a.effect(obj, e.kind, w, "", ninf)
					continue
				}
				obj, fld, ok := a.path(ae)
				if !ok {
					continue
				}
				if fld == "" {
					a.effect(obj, e.kind, e.what, "", ninf)
				} else {
					w := e.what
					if strings.HasPrefix(w, " : ") {
						w = fld + w
					} else {
						w = fld + "." + w
					}
					a.effect(obj, e.kind, w, "", ninf)
				}
			}
		}
	}
}

func (a *mAnalyzer) walk() {
	fd := a.fi.decl
	// aliases
	ast.Inspect(fd.Body, func(n ast.Node) bool {
		as, ok := n.(*ast.AssignStmt)
		if !ok || len(as.Lhs) != len(as.Rhs) {
			return true
		}
		for i, lhs := range as.Lhs {
			id, ok := lhs.(*ast.Ident)
			if !ok || id.Name == "_" {
				continue
			}
			if _, isCall := as.Rhs[i].(*ast.CallExpr); isCall {
				continue
			}
			if a.objIdent(id) != "" {
				continue
			}
			obj, fld, ok := a.path(as.Rhs[i])
			if !ok {
				continue
			}
			t := a.typeOf(as.Rhs[i])
			if t == nil {
				continue
			}
			switch t.Underlying().(type) {
			case *types.Slice, *types.Map, *types.Pointer, *types.Interface:
				if _, exists := a.alias[id.Name]; !exists {
					a.alias[id.Name] = [2]string{obj, fld}
				}
			}
		}
		return true
	})
	ast.Inspect(fd.Body, func(n ast.Node) bool {
		switch x := n.(type) {
		case *ast.AssignStmt:
			for i, lhs := range x.Lhs {
				if ix, ok := lhs.(*ast.IndexExpr); ok {
					a.inPlace(ix.X, "index-store")
				}
				// other.g = r.f
				if len(x.Lhs) == len(x.Rhs) {
					if _, isIdent := lhs.(*ast.Ident); !isIdent {
						if _, _, mine := a.path(lhs); !mine {
							a.escape(x.Rhs[i], "stored-into "+a.canonPlace(lhs))
						}
					} else if id := lhs.(*ast.Ident); id.Name != "_" {
						if o := a.info().Uses[id]; o != nil && a.pd.globals[o] {
							a.escape(x.Rhs[i], "stored-into "+id.Name)
						}
					}
				}
			}
			if x.Tok == token.DEFINE {
				break
			}
			for _, lhs := range x.Lhs {
				a.store(lhs)
			}
		case *ast.IncDecStmt:
			a.store(x.X)
			if ix, ok := x.X.(*ast.IndexExpr); ok {
				a.inPlace(ix.X, "index-store")
			}
		case *ast.ReturnStmt:
			for _, r := range x.Results {
				a.escape(r, "returned")
			}
		case *ast.CompositeLit:
			for i, el := range x.Elts {
				// T{f: r.c} and t.f = r.c are the same hand-out: both read "stored-into T.f"
				place := typeName(a.typeOf(x)) + ".#" + strconv.Itoa(i)
				if kv, ok := el.(*ast.KeyValueExpr); ok {
					el = kv.Value
					if _, isStruct := a.typeOf(x).Underlying().(*types.Struct); isStruct {
						place = typeName(a.typeOf(x)) + "." + exprName(kv.Key)
					} else {
						place = typeName(a.typeOf(x)) + "{}"
					}
				} else if _, isStruct := a.typeOf(x).Underlying().(*types.Struct); !isStruct {
					place = typeName(a.typeOf(x)) + "{}"
				}
				a.escape(el, "stored-into "+place)
			}
		case *ast.CallExpr:
			a.call(x)
		}
		return true
	})
}

func (a *mAnalyzer) canonPlace(lhs ast.Expr) string {
	if sel, ok := lhs.(*ast.SelectorExpr); ok {
		return typeName(a.typeOf(sel.X)) + "." + sel.Sel.Name
	}
	return a.canon(lhs)
}

func (a *mAnalyzer) call(x *ast.CallExpr) {
	calleeNm := ""
	switch f := x.Fun.(type) {
	case *ast.Ident:
		calleeNm = f.Name
	case *ast.SelectorExpr:
		calleeNm = f.Sel.Name
	}
	if id, ok := x.Fun.(*ast.Ident); ok && len(x.Args) > 0 {
		if _, isBuiltin := a.info().Uses[id].(*types.Builtin); isBuiltin {
			switch id.Name {
			case "clear", "delete":
				a.inPlace(x.Args[0], id.Name)
			case "copy":
				a.inPlace(x.Args[0], id.Name)
				if obj, fld, ok := a.path(x.Args[0]); ok && fld != "" {
					a.effect(obj, "recv-store", topField(fld), "", "copy")
				}
			case "append":
				if se, ok := x.Args[0].(*ast.SliceExpr); ok && !fullSlice3(se) {
					a.inPlace(se, "append-to-reslice")
				}
				// append(other, r.f) keeps the container itself only when it is an element (not spread)
				for ai, ae := range x.Args {
					if ai > 0 && !x.Ellipsis.IsValid() {
						a.escape(ae, "stored-into append()")
					}
				}
			}
			return
		}
	}
	if tv, ok := a.info().Types[x.Fun]; ok && tv.IsType() {
		return
	}
	sel, isSel := x.Fun.(*ast.SelectorExpr)
	if isSel && len(x.Args) > 0 && inPlaceFuncs[sel.Sel.Name] {
		if pid, ok := sel.X.(*ast.Ident); ok {
			if pn, ok := a.info().Uses[pid].(*types.PkgName); ok {
				switch pn.Imported().Path() {
				case "maps", "slices", "sort":
					a.inPlace(x.Args[0], pn.Imported().Path()+"."+sel.Sel.Name)
					return
				}
			}
		}
	}
	callee, recvExpr, _ := a.m.callee(a.pd, x)
	if callee != nil {
		a.applyCallee(x, callee, recvExpr)
	} else if !readOnlyFuncs[calleeNm] {
		for _, ae := range x.Args {
			a.escape(ae, "passed-to "+a.canon(x.Fun))
		}
	}
	if !isSel {
		return
	}
	// package-level variables: mutating container methods, any method call
	if !a.fi.isInit {
		var root *ast.Ident
		if id, ok := sel.X.(*ast.Ident); ok {
			root = id
		} else if rid, _ := rootSel(sel.X); rid != nil {
			root = rid
		}
		if root != nil {
			if o := a.info().Uses[root]; o != nil && a.pd.globals[o] {
				if id, ok := sel.X.(*ast.Ident); ok && id == root {
					switch sel.Sel.Name {
					case "Store", "LoadOrStore", "LoadAndDelete", "Delete", "Swap", "CompareAndSwap", "CompareAndDelete", "Clear", "Put", "Set":
						a.effect("", "global-store", id.Name+"."+sel.Sel.Name+"()", "", "")
					}
				}
				if _, isMethod := a.info().Selections[sel]; isMethod && !immutableGlobal(o.Type(), sel.Sel.Name) {
					a.effect("", "global-call", exprString(sel.X)+"."+sel.Sel.Name+" : "+shortType(o.Type()), root.Name, "")
				}
			}
		}
	}
	// r.f.M(...) with f of a stateful standard-library type; also global.M(...)
	t := a.typeOf(sel.X)
	if t == nil {
		return
	}
	ts := t.String()
	if !(statefulIface[ts] || statefulPtr[ts]) || pureMethods[sel.Sel.Name] {
		return
	}
	if obj, fld, ok := a.path(sel.X); ok && fld != "" {
		inf := ""
		if id, ok := sel.X.(*ast.Ident); ok {
			inf = "via local " + id.Name
		}
		a.effect(obj, "recv-stateful-call", fld+"."+sel.Sel.Name+" : "+ts, "", inf)
		return
	}
	if id, ok := sel.X.(*ast.Ident); ok && !a.fi.isInit {
		if o := a.info().Uses[id]; o != nil && a.pd.globals[o] {
			a.effect("", "global-stateful-call", id.Name+"."+sel.Sel.Name+" : "+ts, "", "")
		}
	}
}

func analyzeMut(m *module, fi *funcInfo, sums map[string]*mSummary) *mSummary {
	a := &mAnalyzer{m: m, fi: fi, pd: fi.pd, sums: sums, out: &mSummary{eff: map[mEffect]string{}}, pIndex: map[string]int{}, alias: map[string][2]string{}}
	for i, p := range fi.params {
		if p.name != "_" {
			a.pIndex[p.name] = i
		}
	}
	a.walk()
	return a.out
}

func mutFacts(out string) {
	m := loadModule()
	countResolved(m)
	mutFactsOf(m, out)
}

func mutFactsOf(m *module, out string) {
	var facts []factRec
	// package-level variables and struct fields of synchronisation / recycling type
	for _, pd := range m.pkgs {
		for o := range pd.globals {
			if cat := syncCategory(o.Type(), map[types.Type]bool{}, 0); cat != "" {
				facts = append(facts, factRec{pkg: pd.dir, fn: o.Name(), kind: "global-var", what: cat + " : " + shortType(o.Type()), owner: o.Name()})
			}
		}
		for _, f := range pd.files {
			for _, d := range f.Decls {
				gd, ok := d.(*ast.GenDecl)
				if !ok || gd.Tok != token.TYPE {
					continue
				}
				for _, sp := range gd.Specs {
					ts := sp.(*ast.TypeSpec)
					st, ok := ts.Type.(*ast.StructType)
					if !ok || st.Fields == nil {
						continue
					}
					for _, fld := range st.Fields.List {
						tv, ok := pd.info.Types[fld.Type]
						if !ok || tv.Type == nil {
							continue
						}
						// the field's own type (or pointer / array of it) is a sync / atomic type or a channel: structs of other
						// packages are not searched (every proto message embeds a mutex)
						cat := syncCategory(tv.Type, map[types.Type]bool{}, 6)
						if cat == "" {
							if p, ok := tv.Type.Underlying().(*types.Pointer); ok {
								cat = syncCategory(p.Elem(), map[types.Type]bool{}, 6)
							} else if ar, ok := tv.Type.Underlying().(*types.Array); ok {
								cat = syncCategory(ar.Elem(), map[types.Type]bool{}, 6)
							}
						}
						if cat == "" {
							continue
						}
						names := []string{exprString(fld.Type)}
						if len(fld.Names) > 0 {
							names = names[:0]
							for _, n := range fld.Names {
								names = append(names, n.Name)
							}
						}
						for _, n := range names {
							facts = append(facts, factRec{pkg: pd.dir, fn: ts.Name.Name, kind: "field-var", what: n + " : " + cat + " : " + shortType(tv.Type), owner: ts.Name.Name})
						}
					}
				}
			}
		}
	}
	sums := map[string]*mSummary{}
	var keys []string
	for k := range m.funcs {
		keys = append(keys, k)
	}
	sort.Strings(keys)
	for round := 0; round < 30; round++ {
		changed := false
		for _, k := range keys {
			s := analyzeMut(m, m.funcs[k], sums)
			if old := sums[k]; old == nil || len(old.eff) != len(s.eff) {
				changed = true
			}
			if old := sums[k]; old != nil {
				for e, inf := range old.eff {
					if _, ok := s.eff[e]; ok {
						s.eff[e] = inf
					}
				}
			}
			sums[k] = s
		}
		if !changed {
			break
		}
		if round == 29 {
			die("mutfacts: summaries did not stabilise")
		}
	}
	// fields (of a receiver type) that some function of the package rewrites in place: hand-outs are reported for these only
	inPlace := map[string]bool{}
	for _, k := range keys {
		fi := m.funcs[k]
		if fi.recvType == "" {
			continue
		}
		for e := range sums[k].eff {
			if e.obj == "recv" && e.kind == "recv-inplace-write" {
				inPlace[fi.pd.dir+":"+fi.recvType+"."+topField(strings.SplitN(e.what, " : ", 2)[0])] = true
			}
		}
	}
	for _, k := range keys {
		fi := m.funcs[k]
		if !fi.entry {
			continue
		}
		for e, inf := range sums[k].eff {
			switch {
			case e.obj == "":
				facts = append(facts, factRec{pkg: fi.pd.dir, fn: fi.name, kind: e.kind, what: e.what, owner: e.owner, info: inf})
			case e.obj == "recv":
				if e.kind == "recv-field-escape" && !inPlace[fi.pd.dir+":"+fi.recvType+"."+topField(strings.SplitN(e.what, " : ", 2)[0])] {
					continue
				}
				facts = append(facts, factRec{pkg: fi.pd.dir, fn: fi.name, kind: e.kind, what: e.what, info: inf})
			}
		}
	}
	emitFactRecs(out, "TinkVerif.Gen.MutFacts", "Entry-point summaries of post-construction writes: stores through method receivers, calls on receiver-held stateful objects, in-place rewrites and hand-outs of container fields, package-level state (C18).", facts, m, true)
}
