//go:build verif

// Part 4 of harness c13: foreign encodings of NIST-curve keys (kslib/ecshort.go).
//
// A public-only keyset must pass the no-secret gates whatever the VALUE of a coordinate is, and an
// encrypted keyset must be readable with the same key-encryption key and associated data whatever
// the value of the private scalar is. tink-go's parsers tolerate "arbitrary leading zeros": every
// big-endian encoding of the same integer — minimal (leading zero bytes stripped: 1, 2, 3 bytes
// shorter than the curve size), partially stripped, exactly curve size, tink-go's own size+1 and
// longer — must be accepted and must give a key Equal to the one parsed from tink-go's own form;
// an extra leading byte that is not zero must be refused. Keys whose x / y / d really have 1, 2, 3
// leading zero bytes come from kslib.ECShortCases (ECDSA, JWT-ECDSA, ECIES-AEAD-HKDF on P-256,
// P-384, P-521), curve points with tiny x from kslib.ECShortPublicCases.
//
// Per case: the public key alone and among other public keys through the gates of part 1 (model
// lines included), the direct oracle on NewHandleWithNoSecrets / ReadWithNoSecrets (memory, binary,
// JSON); the private key through insecurecleartextkeyset.Read, Public(), and as the plaintext of an
// encrypted keyset made with a key-encryption AEAD directly (Read / ReadWithAssociatedData /
// ReadWithContext over the memory, binary and JSON readers).
package main

import (
	"bytes"
	"context"
	"fmt"
	"strings"

	"github.com/tink-crypto/tink-go/v2/insecurecleartextkeyset"
	"github.com/tink-crypto/tink-go/v2/internal/verifharness/hlib"
	"github.com/tink-crypto/tink-go/v2/internal/verifharness/kslib"
	"github.com/tink-crypto/tink-go/v2/keyset"
	"google.golang.org/protobuf/encoding/protojson"
	"google.golang.org/protobuf/proto"

	tinkpb "github.com/tink-crypto/tink-go/v2/proto/tink_go_proto"
)

func oneKey(kd *tinkpb.KeyData, id uint32, prefix tinkpb.OutputPrefixType) *tinkpb.Keyset {
	return &tinkpb.Keyset{PrimaryKeyId: id, Key: []*tinkpb.Keyset_Key{{KeyData: proto.Clone(kd).(*tinkpb.KeyData),
		Status: tinkpb.KeyStatusType_ENABLED, KeyId: id, OutputPrefixType: prefix}}}
}

// sameKey: both handles hold one entry and the keys are Equal (both directions).
func sameKey(a, b *keyset.Handle) string {
	if a == nil || b == nil || a.Len() != 1 || b.Len() != 1 {
		return "not one entry each"
	}
	ea, err := a.Entry(0)
	if err != nil {
		return err.Error()
	}
	eb, err := b.Entry(0)
	if err != nil {
		return err.Error()
	}
	if !ea.Key().Equal(eb.Key()) || !eb.Key().Equal(ea.Key()) {
		return "Key().Equal is false"
	}
	if ea.KeyID() != eb.KeyID() || ea.KeyStatus() != eb.KeyStatus() || ea.IsPrimary() != eb.IsPrimary() {
		return "entry metadata differs"
	}
	return ""
}

func (w *world) ecShortPass() {
	o := w.o
	w.rng = hlib.NewRng(*hlib.FlagSeed, "c13-ecshort")
	cases, err := kslib.ECShortCases(w.pool, hlib.Thorough())
	if err != nil {
		panic("harness error (not a violation): " + err.Error())
	}
	pubCases, err := kslib.ECShortPublicCases(w.pool, hlib.Thorough())
	if err != nil {
		panic("harness error (not a violation): " + err.Error())
	}
	if len(cases) == 0 {
		o.Count("ecshort/NO-CASES")
	}
	fullDone := map[string]bool{}
	for _, c := range append(cases, pubCases...) {
		c := c
		parts := strings.Split(c.Name, "/") // type / curve / key / form
		o.Count("ecshort/cases")
		if len(parts) == 4 {
			o.Count("ecshort/type/" + parts[0] + "/" + parts[1])
			o.Count("ecshort/key/" + parts[2])
			o.Count("ecshort/form/" + strings.SplitN(parts[3], "@", 2)[0])
		}
		if !c.Accept {
			o.Count("ecshort/controls")
		}
		// --- the public key
		id := w.rng.KeyID()
		pub := oneKey(c.Pub, id, c.Prefix)
		canonPub := oneKey(c.CanonPub, id, c.Prefix)
		w.lite = true
		w.gate(&gen{ks: kslib.Clone(pub), label: []string{"ecshort-public", "ecshort/" + c.Name}})
		w.ecPublic(c, pub, canonPub)
		// among other public keys, any position, any status of the others
		g := &gen{ks: &tinkpb.Keyset{}, label: []string{"ecshort-public-mixed", "ecshort/" + c.Name}}
		n := 2 + w.rng.Intn(3)
		at := w.rng.Intn(n)
		for i := 0; i < n; i++ {
			if i == at {
				g.ks.Key = append(g.ks.Key, &tinkpb.Keyset_Key{KeyData: proto.Clone(c.Pub).(*tinkpb.KeyData), Status: tinkpb.KeyStatusType_ENABLED,
					KeyId: w.newID(g.ks), OutputPrefixType: c.Prefix})
			} else {
				g.ks.Key = append(g.ks.Key, w.entry(g.ks, w.pick(w.public)))
			}
		}
		w.finish(g)
		w.gate(g)
		if c.Priv == nil {
			continue
		}
		// --- the private key
		priv := oneKey(c.Priv, id, c.Prefix)
		canonPriv := oneKey(c.CanonPriv, id, c.Prefix)
		// the complete output part once per key (type / curve / key name), light otherwise
		fk := strings.Join(parts[:len(parts)-1], "/")
		w.lite = fullDone[fk] || !c.Accept
		fullDone[fk] = true
		w.gate(&gen{ks: kslib.Clone(priv), label: []string{"ecshort-private", "ecshort/" + c.Name}})
		w.lite = true
		w.ecPrivate(c, priv, canonPriv, canonPub)
	}
	w.lite = false
}

func (w *world) ecPublic(c kslib.ECShortCase, ks, canon *tinkpb.Keyset) {
	o := w.o
	ctx := func() string {
		return fmt.Sprintf("case=%s accept=%v keyset=%s canonical=%s", c.Name, c.Accept, kslib.Hex(ks), kslib.Hex(canon))
	}
	var hc *keyset.Handle
	var cerr error
	if p := hlib.Recover(func() { hc, cerr = keyset.NewHandleWithNoSecrets(kslib.Clone(canon)) }); p != "" || cerr != nil {
		o.Violate("ecshort: NewHandleWithNoSecrets refuses a public key in tink-go's own encoding: %v %s; %s", cerr, p, ctx())
		return
	}
	if m := insecurecleartextkeyset.KeysetMaterial(hc); !proto.Equal(m, canon) {
		o.Violate("ecshort: the handle does not serialize a public key in tink-go's own encoding (0x00 ‖ curve-size bytes) the way it was given: got %s; %s", kslib.Hex(m), ctx())
	}
	bin, _ := proto.Marshal(ks)
	js1, _ := kslib.JSONOf(ks, true)
	js2, _ := kslib.JSONOf(ks, false)
	paths := []struct {
		name string
		f    func() (*keyset.Handle, error)
	}{
		{"NewHandleWithNoSecrets", func() (*keyset.Handle, error) { return keyset.NewHandleWithNoSecrets(kslib.Clone(ks)) }},
		{"ReadWithNoSecrets(MemReaderWriter)", func() (*keyset.Handle, error) {
			return keyset.ReadWithNoSecrets(&keyset.MemReaderWriter{Keyset: kslib.Clone(ks)})
		}},
		{"ReadWithNoSecrets(BinaryReader)", func() (*keyset.Handle, error) {
			return keyset.ReadWithNoSecrets(keyset.NewBinaryReader(bytes.NewReader(bin)))
		}},
		{"ReadWithNoSecrets(JSONReader, JSONWriter text)", func() (*keyset.Handle, error) {
			return keyset.ReadWithNoSecrets(keyset.NewJSONReader(bytes.NewReader(js1)))
		}},
		{"ReadWithNoSecrets(JSONReader, protojson text)", func() (*keyset.Handle, error) {
			return keyset.ReadWithNoSecrets(keyset.NewJSONReader(bytes.NewReader(js2)))
		}},
	}
	for _, pth := range paths {
		var h *keyset.Handle
		var err error
		if p := hlib.Recover(func() { h, err = pth.f() }); p != "" {
			o.Violate("ecshort: panic in %s: %s; %s", pth.name, p, ctx())
			continue
		}
		pc := c
		pc.Accept = c.AcceptPub()
		w.ecJudge(pc, pth.name, h, err, hc, canon, ctx)
	}
}

// ecJudge: accepted iff c.Accept; an accepted key is Equal to the canonical one and the handle
// serializes it canonically.
func (w *world) ecJudge(c kslib.ECShortCase, where string, h *keyset.Handle, err error, hc *keyset.Handle, canon *tinkpb.Keyset, ctx func() string) {
	o := w.o
	o.Count("ecshort/judged")
	switch {
	case c.Accept && err != nil:
		o.Count("ECSHORT-REFUSED")
		o.Violate("ecshort: %s refuses a valid key because of the length of an EC integer (another encoding of the same integer, which the parsers tolerate by contract: arbitrary leading zeros): %v; %s", where, err, ctx())
	case !c.Accept && err == nil:
		o.Count("ECSHORT-WRONG-ACCEPT")
		o.Violate("ecshort: %s accepts an EC integer with a non-zero extra leading byte (a different, out-of-range or mismatching integer); %s", where, ctx())
	case err == nil:
		if m := sameKey(h, hc); m != "" {
			o.Violate("ecshort: %s: the key parsed from the foreign encoding is not the key parsed from tink-go's own encoding (%s); %s", where, m, ctx())
		} else if mat := insecurecleartextkeyset.KeysetMaterial(h); !proto.Equal(mat, canon) {
			o.Violate("ecshort: %s: the handle serializes the key differently from tink-go's own encoding: %s; %s", where, kslib.Hex(mat), ctx())
		} else {
			o.Count("ecshort/accepted-equal")
		}
	default:
		o.Count("ecshort/control-refused")
	}
}

func (w *world) ecPrivate(c kslib.ECShortCase, ks, canon, canonPub *tinkpb.Keyset) {
	o := w.o
	ctx := func() string {
		return fmt.Sprintf("case=%s accept=%v keyset=%s canonical=%s", c.Name, c.Accept, kslib.Hex(ks), kslib.Hex(canon))
	}
	hc, cerr, p := kslib.ReadMem(canon)
	if p != "" || cerr != nil {
		o.Violate("ecshort: insecurecleartextkeyset.Read refuses a private key in tink-go's own encoding: %v %s; %s", cerr, p, ctx())
		return
	}
	if m := insecurecleartextkeyset.KeysetMaterial(hc); !proto.Equal(m, canon) {
		o.Violate("ecshort: the handle does not serialize a private key in tink-go's own encoding the way it was given: got %s; %s", kslib.Hex(m), ctx())
	}
	// cleartext
	h, err, p := kslib.ReadMem(ks)
	if p != "" {
		o.Violate("ecshort: panic in insecurecleartextkeyset.Read: %s; %s", p, ctx())
	} else {
		w.ecJudge(c, "insecurecleartextkeyset.Read", h, err, hc, canon, ctx)
		if err == nil {
			var ph *keyset.Handle
			var perr error
			if p := hlib.Recover(func() { ph, perr = h.Public() }); p != "" || perr != nil {
				o.Violate("ecshort: Public() fails: %v %s; %s", perr, p, ctx())
			} else if pm := insecurecleartextkeyset.KeysetMaterial(ph); !proto.Equal(pm, canonPub) {
				o.Violate("ecshort: Public() of the foreign-encoded private key is not the public key in tink-go's own encoding: %s; %s", kslib.Hex(pm), ctx())
			} else {
				o.Count("ecshort/public-of-private-equal")
			}
		}
	}
	// the no-secret gates must refuse it whatever the encoding
	if nh, nerr := keyset.NewHandleWithNoSecrets(kslib.Clone(ks)); nerr == nil && nh != nil {
		o.Violate("ecshort: NewHandleWithNoSecrets accepts a private key; %s", ctx())
	}
	// encrypted: the foreign keyset is the plaintext
	ser, err := proto.Marshal(ks)
	if err != nil {
		return
	}
	k := w.keks[w.rng.Intn(len(w.keks))]
	var ad []byte
	switch w.rng.Intn(4) {
	case 0:
		ad = nil
	case 1:
		ad = []byte("keyset associated data")
	default:
		ad = w.rng.Bytes(1 + w.rng.Intn(40))
	}
	ct, err := k.a.Encrypt(ser, ad)
	if err != nil {
		o.Violate("ecshort: key-encryption AEAD %s fails: %v", k.name, err)
		return
	}
	enc := &tinkpb.EncryptedKeyset{EncryptedKeyset: ct}
	if w.rng.Bool() {
		enc.KeysetInfo = expectedInfo(ks)
	}
	encBin, _ := proto.Marshal(enc)
	encJS, _ := protojson.Marshal(enc)
	readers := []struct {
		name string
		mk   func() keyset.Reader
	}{
		{"MemReaderWriter", func() keyset.Reader {
			return &keyset.MemReaderWriter{EncryptedKeyset: proto.Clone(enc).(*tinkpb.EncryptedKeyset)}
		}},
		{"BinaryReader", func() keyset.Reader { return keyset.NewBinaryReader(bytes.NewReader(encBin)) }},
		{"JSONReader", func() keyset.Reader { return keyset.NewJSONReader(bytes.NewReader(encJS)) }},
	}
	for _, r := range readers {
		apis := []string{"ReadWithAssociatedData", "ReadWithContext"}
		if len(ad) == 0 {
			apis = append(apis, "Read")
		}
		api := apis[w.rng.Intn(len(apis))]
		var h2 *keyset.Handle
		var rerr error
		where := fmt.Sprintf("keyset.%s(%s, %s, ad=%x) of the encrypted keyset", api, r.name, k.name, ad)
		if p := hlib.Recover(func() {
			switch api {
			case "Read":
				h2, rerr = keyset.Read(r.mk(), k.a)
			case "ReadWithContext":
				h2, rerr = keyset.ReadWithContext(context.Background(), r.mk(), ctxAEAD{k.a}, ad)
			default:
				h2, rerr = keyset.ReadWithAssociatedData(r.mk(), k.a, ad)
			}
		}); p != "" {
			o.Violate("ecshort: panic in %s: %s; %s", where, p, ctx())
			continue
		}
		o.Count("ecshort/encrypted-reads/" + api)
		w.ecJudge(c, where+" (same key-encryption key and associated data)", h2, rerr, hc, canon, ctx)
	}
}
