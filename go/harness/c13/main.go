//go:build verif

// Harness c13: secret key material leaves a handle only via insecure or encrypted paths
// (property C13).
//
// Part 1 (gates): keysets mixing public/remote and secret keys with the secret key at every
// position, unknown material enum numbers and unknown type URLs injected at proto level. The
// decisions of keyset.NewHandleWithNoSecrets, keyset.ReadWithNoSecrets (MemReaderWriter, binary
// and JSON readers), keyset.VerifHasSecrets and Handle.WriteWithNoSecrets are printed next to the
// lines given to the Lean model (TinkVerif/Model/Keyset.lean: noSecretsHandle, hasSecrets).
// Part 2 (outputs): for every handle that can be built, String(), KeysetInfo() and everything
// written by Write / WriteWithAssociatedData (binary, JSON and in-memory writers, several
// key-encryption AEADs and associated data) is scanned for >= 8-byte substrings of any secret key
// field; the written EncryptedKeyset must hold only the ciphertext plus type URL / status / id /
// prefix type per key; reading back with the same key and associated data returns an equal
// keyset, with another key, other associated data or a damaged ciphertext an error.
// Part 3 (info.go): byte-level lines for the Lean model of KeysetInfo / keyset bytes.
// Part 4 (ecshort.go): NIST-curve keys with leading zero bytes in foreign integer encodings.
// Part 5 (big.go): keysets of many keys and of large serialized size.
package main

import (
	"bytes"
	"context"
	"encoding/json"
	"fmt"
	"os"
	"strings"

	"github.com/tink-crypto/tink-go/v2/aead"
	"github.com/tink-crypto/tink-go/v2/insecurecleartextkeyset"
	"github.com/tink-crypto/tink-go/v2/internal/verifharness/hlib"
	"github.com/tink-crypto/tink-go/v2/internal/verifharness/kslib"
	"github.com/tink-crypto/tink-go/v2/keyset"
	"github.com/tink-crypto/tink-go/v2/tink"
	"google.golang.org/protobuf/encoding/protojson"
	"google.golang.org/protobuf/encoding/prototext"
	"google.golang.org/protobuf/proto"

	tinkpb "github.com/tink-crypto/tink-go/v2/proto/tink_go_proto"
)

type kek struct {
	name     string
	a, other tink.AEAD // other: same template, different key
}

type world struct {
	o       *hlib.Out
	rng     *hlib.Rng
	pool    *kslib.Pool
	public  []int // pool keys with ASYMMETRIC_PUBLIC / REMOTE material
	secret  []int // pool keys with SYMMETRIC / ASYMMETRIC_PRIVATE material
	keks    []kek
	flip    bool
	breach  map[string]bool
	scan    *scanner
	written int
	lite    bool // parts 4/5: gates only, no output part (outputs) for this keyset
}

// hex dumps the marshalled keyset; long dumps are cut in the message and written in full next to
// the stats file.
func (w *world) hex(ks *tinkpb.Keyset) string {
	hx := kslib.Hex(ks)
	if len(hx) > 1600 && *hlib.FlagStats != "" {
		file := fmt.Sprintf("%s.case%d.hex", strings.TrimSuffix(*hlib.FlagStats, ".json"), w.o.NCase)
		if os.WriteFile(file, []byte(hx+"\n"), 0o644) == nil {
			return hx[:1600] + "…(full dump: " + file + ")"
		}
	}
	return hx
}

func clonePK(pk *kslib.PoolKey) *tinkpb.KeyData { return proto.Clone(pk.KD).(*tinkpb.KeyData) }

func (w *world) pick(idx []int) *kslib.PoolKey {
	for try := 0; ; try++ {
		pk := w.pool.Keys[idx[w.rng.Intn(len(idx))]]
		// keep the slow-to-parse giants (RSA, ML-DSA) a minority
		if (pk.Slow || len(pk.KD.Value) > 1000) && try < 3 && !w.rng.Chance(30) {
			continue
		}
		return pk
	}
}

type gen struct {
	ks    *tinkpb.Keyset
	label []string
}

func (w *world) newID(ks *tinkpb.Keyset) uint32 {
	for {
		id := w.rng.KeyID()
		dup := false
		for _, k := range ks.Key {
			if k.KeyId == id {
				dup = true
			}
		}
		if !dup {
			return id
		}
	}
}

func (w *world) entry(ks *tinkpb.Keyset, pk *kslib.PoolKey) *tinkpb.Keyset_Key {
	st := tinkpb.KeyStatusType_ENABLED
	switch r := w.rng.Intn(100); {
	case r < 12:
		st = tinkpb.KeyStatusType_DISABLED
	case r < 20:
		st = tinkpb.KeyStatusType_DESTROYED
	}
	return &tinkpb.Keyset_Key{KeyData: clonePK(pk), Status: st, KeyId: w.newID(ks), OutputPrefixType: pk.Prefix}
}

// finish makes the keyset structurally valid (an ENABLED primary), so that the secrecy gate is
// what decides; occasionally it is left without a valid primary.
func (w *world) finish(g *gen) {
	ks := g.ks
	if len(ks.Key) == 0 {
		return
	}
	if w.rng.Chance(4) {
		ks.PrimaryKeyId = w.newID(ks)
		g.label = append(g.label, "no-primary")
		return
	}
	k := ks.Key[w.rng.Intn(len(ks.Key))]
	k.Status = tinkpb.KeyStatusType_ENABLED
	ks.PrimaryKeyId = k.KeyId
}

var unknownMaterial = []int32{5, 6, 7, 100, 1<<31 - 1}

func expectSecret(ks *tinkpb.Keyset) bool {
	for _, k := range ks.GetKey() {
		switch int32(k.GetKeyData().GetKeyMaterialType()) {
		case 0, 1, 2:
			return true
		}
	}
	return false
}

// ---------- part 1: the gates ----------

func (w *world) gate(g *gen) {
	o := w.o
	ks := g.ks
	o.Case()
	o.Count("keysets")
	for _, l := range g.label {
		o.Count("shape/" + l)
	}
	o.Count(fmt.Sprintf("nkeys/%d", len(ks.Key)))
	ctx := func() string { return fmt.Sprintf("shape=%v keyset=%s", g.label, w.hex(ks)) }
	guard := func(name string, f func()) bool {
		if p := hlib.Recover(f); p != "" {
			o.Violate("panic in %s: %s; %s", name, p, ctx())
			return false
		}
		return true
	}
	var pans []string
	arg := fmt.Sprintf("%d %s", ks.GetPrimaryKeyId(), kslib.KeysTok(ks, &pans))
	for _, p := range pans {
		o.Violate("panic in ParseKey: %s; %s", p, ctx())
	}
	nt := len(ks.Key) >= 1

	// hasSecrets
	var hs bool
	guard("hasSecrets", func() { hs = keyset.VerifHasSecrets(kslib.Clone(ks)) })
	o.Emit("K hassecrets "+arg, hlib.B01(hs), nt)
	if hs != expectSecret(ks) {
		o.Violate("hasSecrets=%v but the keyset %s a key with UNKNOWN/SYMMETRIC/ASYMMETRIC_PRIVATE material; %s", hs,
			map[bool]string{true: "contains", false: "does not contain"}[expectSecret(ks)], ctx())
	}
	if hs {
		o.Count("has-secrets")
	} else {
		o.Count("no-secrets")
	}

	// NewHandleWithNoSecrets and the three ReadWithNoSecrets readers
	var nh *keyset.Handle
	var nerr error
	guard("NewHandleWithNoSecrets", func() { nh, nerr = keyset.NewHandleWithNoSecrets(kslib.Clone(ks)) })
	nres := kslib.HandleRes(nh, nerr)
	o.Emit("K nosecrets "+arg, nres, nt)
	if nerr == nil && expectSecret(ks) {
		o.Count("GATE-BREACH")
		o.Violate("NewHandleWithNoSecrets accepted a keyset with secret material; %s", ctx())
	}
	if nerr == nil {
		o.Count("nosecrets-accepted")
		// whatever the labels said: what the handle now holds must not be secret material
		nm := insecurecleartextkeyset.KeysetMaterial(nh)
		for i, k := range nm.GetKey() {
			switch k.GetKeyData().GetKeyMaterialType() {
			case tinkpb.KeyData_ASYMMETRIC_PUBLIC, tinkpb.KeyData_REMOTE:
				continue
			}
			if int32(k.GetKeyData().GetKeyMaterialType()) > 4 {
				continue // undefined numbers: not secret by the code's (and the model's) definition
			}
			t := kslib.TypeOfURL(k.GetKeyData().GetTypeUrl())
			o.Count("GATE-BREACH/NewHandleWithNoSecrets/" + t)
			if !w.breach[t] {
				w.breach[t] = true
				o.Violate("NewHandleWithNoSecrets returned a handle holding secret key material: key %d (%s) is labelled KeyMaterialType %d in the input and the parser does not check it; the handle serializes it as %v; %s",
					i, t, int32(ks.Key[i].GetKeyData().GetKeyMaterialType()), k.GetKeyData().GetKeyMaterialType(), ctx())
			}
		}
	} else {
		o.Count("nosecrets-rejected")
	}
	bin, merr := proto.Marshal(ks)
	w.flip = !w.flip
	js, jerr := kslib.JSONOf(ks, w.flip)
	readers := []struct {
		name string
		mk   func() keyset.Reader
	}{{"MemReaderWriter", func() keyset.Reader { return &keyset.MemReaderWriter{Keyset: kslib.Clone(ks)} }}}
	if merr == nil {
		readers = append(readers, struct {
			name string
			mk   func() keyset.Reader
		}{"BinaryReader", func() keyset.Reader { return keyset.NewBinaryReader(bytes.NewReader(bin)) }})
	}
	if jerr == nil {
		readers = append(readers, struct {
			name string
			mk   func() keyset.Reader
		}{"JSONReader", func() keyset.Reader { return keyset.NewJSONReader(bytes.NewReader(js)) }})
	}
	for _, r := range readers {
		var rh *keyset.Handle
		var rerr error
		if !guard("ReadWithNoSecrets("+r.name+")", func() { rh, rerr = keyset.ReadWithNoSecrets(r.mk()) }) {
			continue
		}
		o.Count("ReadWithNoSecrets/" + r.name)
		if rerr == nil && expectSecret(ks) {
			o.Count("GATE-BREACH")
			o.Count("GATE-BREACH/ReadWithNoSecrets(" + r.name + ")")
			n := 0
			if rh != nil {
				n = rh.Len()
			}
			o.Violate("ReadWithNoSecrets(%s) accepted the serialization of a keyset with secret material (handle with %d of the %d keys); %s", r.name, n, len(ks.Key), ctx())
		}
		if got := kslib.HandleRes(rh, rerr); got != nres {
			o.Count("READER-DISAGREES/" + r.name)
			o.Violate("ReadWithNoSecrets(%s) decides %s, NewHandleWithNoSecrets decides %s; %s", r.name, got, nres, ctx())
		}
	}

	// the cleartext handle (built through the insecure API) and its WriteWithNoSecrets gate
	h, herr, p := kslib.ReadMem(ks)
	if p != "" {
		o.Violate("panic in insecurecleartextkeyset.Read: %s; %s", p, ctx())
		return
	}
	o.Emit("K handle "+arg, kslib.HandleRes(h, herr), nt)
	if herr != nil {
		o.Count("cleartext-rejected")
		return
	}
	o.Count("handles")
	if m := kslib.WellFormed(h); m != "" {
		o.Violate("accepted handle is not well-formed: %s; %s", m, ctx())
	}
	mat := insecurecleartextkeyset.KeysetMaterial(h)
	if !proto.Equal(mat, ks) {
		// parsing and re-serializing may normalise a key (e.g. its material type label)
		o.Count("material-differs-from-input")
		for i, k := range mat.GetKey() {
			if !proto.Equal(k, ks.Key[i]) {
				o.Count(fmt.Sprintf("material-differs-from-input/%s/material %d->%d", kslib.TypeOfURL(k.GetKeyData().GetTypeUrl()),
					int32(ks.Key[i].GetKeyData().GetKeyMaterialType()), int32(k.GetKeyData().GetKeyMaterialType())))
			}
		}
	}
	marg := fmt.Sprintf("%d %s", mat.GetPrimaryKeyId(), kslib.KeysTok(mat, nil))
	writers := []string{"MemReaderWriter", "BinaryWriter", "JSONWriter"}
	for _, wn := range writers {
		var buf bytes.Buffer
		mem := &keyset.MemReaderWriter{}
		var wr keyset.Writer
		switch wn {
		case "MemReaderWriter":
			wr = mem
		case "BinaryWriter":
			wr = keyset.NewBinaryWriter(&buf)
		default:
			wr = keyset.NewJSONWriter(&buf)
		}
		var werr error
		if !guard("WriteWithNoSecrets("+wn+")", func() { werr = h.WriteWithNoSecrets(wr) }) {
			continue
		}
		// the write gate against the model's hasSecrets on the handle's own keyset
		o.Emit("K hassecrets "+marg, hlib.B01(werr != nil), true)
		o.Count("WriteWithNoSecrets/" + wn)
		if (werr != nil) != expectSecret(mat) {
			o.Count("GATE-BREACH")
			o.Violate("WriteWithNoSecrets(%s) err=%v but secret material present=%v; %s", wn, werr, expectSecret(mat), ctx())
		}
		if werr != nil {
			if buf.Len() != 0 || mem.Keyset != nil {
				o.Violate("WriteWithNoSecrets(%s) failed but wrote %d bytes; %s", wn, buf.Len(), ctx())
			}
			continue
		}
		o.Count("WriteWithNoSecrets-ok/" + wn)
		got := &tinkpb.Keyset{}
		var perr error
		switch wn {
		case "MemReaderWriter":
			got = mem.Keyset
		case "BinaryWriter":
			perr = proto.Unmarshal(buf.Bytes(), got)
		default:
			perr = protojson.Unmarshal(buf.Bytes(), got)
		}
		if perr != nil || !proto.Equal(got, mat) {
			o.Violate("WriteWithNoSecrets(%s) wrote something else than the keyset (%v); %s", wn, perr, ctx())
		}
	}
	if w.lite {
		o.Count("handles-gates-only")
		return
	}
	w.outputs(h, mat, g)
}

// ---------- part 2: outputs ----------

// scanner: every 8-byte window of every secret field (key_value, private_key, d, p, q, …) of the
// pool's symmetric and private keys — the true secret bytes, whatever a test relabels the key
// as — plus, per keyset, the opaque values declared secret under unknown type URLs.
type scanner struct {
	windows map[string]string
	extra   map[string]string
}

func (s *scanner) add(m map[string]string, f []byte, name string) {
	for j := 0; j+8 <= len(f); j++ {
		if printable(f[j : j+8]) {
			// text inside an opaque value (e.g. a nested type URL) is not key material and
			// legitimately recurs in the metadata of other keys
			continue
		}
		m[string(f[j:j+8])] = name
	}
}

func poolScanner(p *kslib.Pool) *scanner {
	s := &scanner{windows: map[string]string{}}
	for _, pk := range p.Keys {
		for _, f := range kslib.SecretFields(pk.KD) {
			s.add(s.windows, f, pk.Name)
		}
	}
	return s
}

// forKeyset adds the opaque secret values of ks.
func (s *scanner) forKeyset(ks *tinkpb.Keyset) {
	s.extra = map[string]string{}
	for i, k := range ks.GetKey() {
		if k.GetKeyData().GetTypeUrl() == "type.googleapis.com/verif.Opaque" && int32(k.GetKeyData().GetKeyMaterialType()) <= 2 {
			s.add(s.extra, k.GetKeyData().GetValue(), fmt.Sprintf("opaque key %d", i))
		}
	}
}

func printable(b []byte) bool {
	for _, c := range b {
		if c < 0x20 || c > 0x7e {
			return false
		}
	}
	return true
}

// find returns the name of a key one of whose secret 8-byte windows occurs in b ("" if none).
func (s *scanner) find(b []byte) string {
	for j := 0; j+8 <= len(b); j++ {
		if n, ok := s.windows[string(b[j:j+8])]; ok {
			return n
		}
		if n, ok := s.extra[string(b[j:j+8])]; ok {
			return n
		}
	}
	return ""
}

func expectedInfo(ks *tinkpb.Keyset) *tinkpb.KeysetInfo {
	info := &tinkpb.KeysetInfo{PrimaryKeyId: ks.GetPrimaryKeyId()}
	for _, k := range ks.GetKey() {
		info.KeyInfo = append(info.KeyInfo, &tinkpb.KeysetInfo_KeyInfo{TypeUrl: k.GetKeyData().GetTypeUrl(), Status: k.GetStatus(),
			KeyId: k.GetKeyId(), OutputPrefixType: k.GetOutputPrefixType()})
	}
	return info
}

func (w *world) outputs(h *keyset.Handle, mat *tinkpb.Keyset, g *gen) {
	o := w.o
	ctx := func() string { return fmt.Sprintf("shape=%v keyset=%s", g.label, w.hex(mat)) }
	sc := w.scan
	sc.forKeyset(mat)
	if expectSecret(mat) {
		o.Count("handles-with-secret-keys")
	}
	leak := func(where string, b []byte) {
		o.Count("scanned/" + strings.SplitN(strings.SplitN(where, ",", 2)[0], " ", 2)[0])
		if n := sc.find(b); n != "" {
			o.Count("LEAK")
			o.Violate("%s contains >= 8 bytes of the secret material of %s; %s", where, n, ctx())
		}
	}
	guard := func(name string, f func()) bool {
		if p := hlib.Recover(f); p != "" {
			o.Violate("panic in %s: %s; %s", name, p, ctx())
			return false
		}
		return true
	}
	want := expectedInfo(mat)
	ist := w.infoLines(h, mat, ctx) // info.go: byte-level lines for the Lean model of KeysetInfo / keyset bytes
	var str string
	var info *tinkpb.KeysetInfo
	if guard("String()", func() { str = h.String() }) {
		leak("String()", []byte(str))
		parsed := &tinkpb.KeysetInfo{}
		if err := prototext.Unmarshal([]byte(str), parsed); err != nil || !proto.Equal(parsed, want) {
			o.Violate("String() is not the text form of the metadata-only KeysetInfo (%v): %q; %s", err, str, ctx())
		}
	}
	if guard("KeysetInfo()", func() { info = h.KeysetInfo() }) {
		b, _ := proto.Marshal(info)
		leak("KeysetInfo()", b)
		if !proto.Equal(info, want) || len(info.ProtoReflect().GetUnknown()) != 0 {
			o.Violate("KeysetInfo() holds something else than type URL / status / id / prefix type per key; %s", ctx())
		}
	}

	// encrypted writers: a couple of (key-encryption AEAD, associated data) pairs per handle
	for rep := 0; rep < 2; rep++ {
		k := w.keks[w.rng.Intn(len(w.keks))]
		var ad []byte
		switch w.rng.Intn(5) {
		case 0:
			ad = nil
		case 1:
			ad = []byte{}
		case 2:
			ad = []byte("keyset associated data")
		default:
			ad = w.rng.Bytes(1 + w.rng.Intn(40))
		}
		useWrite := len(ad) == 0 && w.rng.Bool() // h.Write == WriteWithAssociatedData(…, []byte{})
		useCtx := !useWrite && w.rng.Chance(35)  // WriteWithContext / ReadWithContext (separate encrypt/decrypt code)
		for _, wn := range []string{"BinaryWriter", "JSONWriter", "MemReaderWriter"} {
			var buf bytes.Buffer
			mem := &keyset.MemReaderWriter{}
			var wr keyset.Writer
			switch wn {
			case "MemReaderWriter":
				wr = mem
			case "BinaryWriter":
				wr = keyset.NewBinaryWriter(&buf)
			default:
				wr = keyset.NewJSONWriter(&buf)
			}
			var werr error
			api := "WriteWithAssociatedData"
			if useWrite {
				api = "Write"
			} else if useCtx {
				api = "WriteWithContext"
			}
			if !guard(api+"("+wn+")", func() {
				if useWrite {
					werr = h.Write(wr, k.a)
				} else if useCtx {
					werr = h.WriteWithContext(context.Background(), wr, ctxAEAD{k.a}, ad)
				} else {
					werr = h.WriteWithAssociatedData(wr, k.a, ad)
				}
			}) {
				continue
			}
			if werr != nil {
				o.Violate("%s(%s, %s) failed: %v; %s", api, wn, k.name, werr, ctx())
				continue
			}
			w.written++
			o.Count("encrypted-writes/" + wn)
			o.Count("encrypted-writes-api/" + api)
			o.Count("encrypted-writes-kek/" + k.name)
			o.Count(fmt.Sprintf("encrypted-writes-ad/%s", map[bool]string{true: "empty", false: "non-empty"}[len(ad) == 0]))
			where := fmt.Sprintf("%s(%s,%s,ad=%x)", api, wn, k.name, ad)

			// 1. the written form: only ciphertext (+ metadata for JSON / memory)
			enc := &tinkpb.EncryptedKeyset{}
			switch wn {
			case "MemReaderWriter":
				enc = mem.EncryptedKeyset
				if enc == nil {
					o.Violate("%s wrote nothing; %s", where, ctx())
					continue
				}
				b, _ := proto.Marshal(enc)
				leak(where+" message", b)
			case "BinaryWriter":
				leak(where+" bytes", buf.Bytes())
				if err := proto.Unmarshal(buf.Bytes(), enc); err != nil {
					o.Violate("%s output does not parse as EncryptedKeyset: %v; %s", where, err, ctx())
					continue
				}
				if enc.KeysetInfo != nil {
					o.Violate("%s: the binary form carries a KeysetInfo; %s", where, ctx())
				}
				canon, _ := proto.Marshal(&tinkpb.EncryptedKeyset{EncryptedKeyset: enc.EncryptedKeyset})
				if !bytes.Equal(canon, buf.Bytes()) {
					o.Violate("%s: the binary form holds more than the ciphertext field; %s", where, ctx())
				}
			default:
				leak(where+" text", buf.Bytes())
				if err := protojson.Unmarshal(buf.Bytes(), enc); err != nil {
					o.Violate("%s output does not parse as EncryptedKeyset JSON: %v; %s", where, err, ctx())
					continue
				}
				b, _ := proto.Marshal(enc)
				leak(where+" decoded", b)
				var top map[string]json.RawMessage
				if err := json.Unmarshal(buf.Bytes(), &top); err != nil {
					o.Violate("%s output is not a JSON object: %v; %s", where, err, ctx())
				}
				for f := range top {
					if f != "encryptedKeyset" && f != "keysetInfo" {
						o.Violate("%s: unexpected JSON field %q; %s", where, f, ctx())
					}
				}
			}
			if len(enc.ProtoReflect().GetUnknown()) != 0 || (enc.KeysetInfo != nil && len(enc.KeysetInfo.ProtoReflect().GetUnknown()) != 0) {
				o.Violate("%s: unknown fields in the written EncryptedKeyset; %s", where, ctx())
			}
			if wn != "BinaryWriter" && !proto.Equal(enc.KeysetInfo, want) {
				o.Violate("%s: KeysetInfo is not exactly type URL / status / id / prefix type per key; %s", where, ctx())
			}
			for _, ki := range enc.GetKeysetInfo().GetKeyInfo() {
				if len(ki.ProtoReflect().GetUnknown()) != 0 {
					o.Violate("%s: unknown fields in a KeyInfo; %s", where, ctx())
				}
			}
			w.encLines(ist, wn, enc, buf.Bytes(), where, ctx) // info.go: written form = ciphertext (+ info), byte for byte
			// the ciphertext is the encryption of exactly the serialized keyset
			pt, derr := k.a.Decrypt(enc.EncryptedKeyset, ad)
			inner := &tinkpb.Keyset{}
			if derr != nil || proto.Unmarshal(pt, inner) != nil || !proto.Equal(inner, mat) {
				o.Violate("%s: the ciphertext is not the encrypted keyset under the given key and associated data (%v); %s", where, derr, ctx())
				continue
			}

			// 2. reading back
			mkReader := func(e *tinkpb.EncryptedKeyset) keyset.Reader {
				switch wn {
				case "MemReaderWriter":
					return &keyset.MemReaderWriter{EncryptedKeyset: e}
				case "BinaryWriter":
					b, _ := proto.Marshal(e)
					return keyset.NewBinaryReader(bytes.NewReader(b))
				default:
					b, _ := protojson.Marshal(e)
					return keyset.NewJSONReader(bytes.NewReader(b))
				}
			}
			original := func() keyset.Reader {
				switch wn {
				case "MemReaderWriter":
					return &keyset.MemReaderWriter{EncryptedKeyset: enc}
				case "BinaryWriter":
					return keyset.NewBinaryReader(bytes.NewReader(buf.Bytes()))
				default:
					return keyset.NewJSONReader(bytes.NewReader(buf.Bytes()))
				}
			}
			read := func(r keyset.Reader, a tink.AEAD, ad []byte, viaRead bool) (h2 *keyset.Handle, err error) {
				if p := hlib.Recover(func() {
					if viaRead {
						h2, err = keyset.Read(r, a)
					} else if useCtx {
						h2, err = keyset.ReadWithContext(context.Background(), r, ctxAEAD{a}, ad)
					} else {
						h2, err = keyset.ReadWithAssociatedData(r, a, ad)
					}
				}); p != "" {
					o.Violate("panic while reading back %s: %s; %s", where, p, ctx())
					err = fmt.Errorf("panic")
				}
				return
			}
			h2, err := read(original(), k.a, ad, useWrite)
			if err != nil {
				o.Violate("%s: reading back with the same key and associated data fails: %v; %s", where, err, ctx())
			} else if !proto.Equal(insecurecleartextkeyset.KeysetMaterial(h2), mat) {
				o.Violate("%s: reading back returns a different keyset; %s", where, ctx())
			} else {
				o.Count("read-back-equal")
			}
			neg := func(kind string, r keyset.Reader, a tink.AEAD, ad2 []byte) {
				o.Count("negative-reads/" + kind)
				if _, err := read(r, a, ad2, false); err == nil {
					o.Count("WRONG-ACCEPT")
					o.Violate("%s: read back succeeds with %s; %s", where, kind, ctx())
				}
			}
			neg("other key-encryption key", original(), k.other, ad)
			ok2 := w.keks[(w.rng.Intn(len(w.keks)-1)+1+indexOf(w.keks, k.name))%len(w.keks)]
			neg("key-encryption key of another type", original(), ok2.a, ad)
			neg("extended associated data", original(), k.a, append(append([]byte{}, ad...), 'x'))
			if len(ad) > 0 {
				neg("empty associated data", original(), k.a, nil)
				neg("truncated associated data", original(), k.a, ad[:len(ad)-1])
				flipped := append([]byte{}, ad...)
				flipped[w.rng.Intn(len(flipped))] ^= 1 << uint(w.rng.Intn(8))
				neg("bit-flipped associated data", original(), k.a, flipped)
			} else {
				neg("non-empty associated data", original(), k.a, []byte("ad"))
			}
			ct := enc.EncryptedKeyset
			dmg := func(c []byte) *tinkpb.EncryptedKeyset {
				return &tinkpb.EncryptedKeyset{EncryptedKeyset: c, KeysetInfo: enc.KeysetInfo}
			}
			neg("ciphertext without its last byte", mkReader(dmg(ct[:len(ct)-1])), k.a, ad)
			neg("ciphertext without its first byte", mkReader(dmg(ct[1:])), k.a, ad)
			neg("ciphertext cut at a random point", mkReader(dmg(ct[:w.rng.Intn(len(ct))])), k.a, ad)
			neg("empty ciphertext", mkReader(dmg(nil)), k.a, ad)
			fl := append([]byte{}, ct...)
			fl[w.rng.Intn(len(fl))] ^= 1 << uint(w.rng.Intn(8))
			neg("bit-flipped ciphertext", mkReader(dmg(fl)), k.a, ad)
			neg("extended ciphertext", mkReader(dmg(append(append([]byte{}, ct...), 0))), k.a, ad)
		}
	}
}

// ctxAEAD turns an AEAD into a tink.AEADWithContext.
type ctxAEAD struct{ a tink.AEAD }

func (c ctxAEAD) EncryptWithContext(_ context.Context, pt, ad []byte) ([]byte, error) {
	return c.a.Encrypt(pt, ad)
}
func (c ctxAEAD) DecryptWithContext(_ context.Context, ct, ad []byte) ([]byte, error) {
	return c.a.Decrypt(ct, ad)
}

func indexOf(ks []kek, name string) int {
	for i, k := range ks {
		if k.name == name {
			return i
		}
	}
	return 0
}

// ---------- generation ----------

func (w *world) run() {
	o := w.o
	// (a) one public/remote keyset per size with one secret key at each position (and none)
	for rep, reps := 0, hlib.N(110, 2200); rep < reps; rep++ {
		n := 1 + w.rng.Intn(6)
		base := &tinkpb.Keyset{}
		for i := 0; i < n; i++ {
			base.Key = append(base.Key, w.entry(base, w.pick(w.public)))
		}
		for pos := -1; pos < n; pos++ {
			g := &gen{ks: kslib.Clone(base), label: []string{"public-only"}}
			if pos >= 0 {
				sk := w.pick(w.secret)
				g.ks.Key[pos].KeyData = clonePK(sk)
				g.ks.Key[pos].OutputPrefixType = sk.Prefix
				g.label = []string{"one-secret-key", fmt.Sprintf("secret-at-position/%d-of-%d", pos, n), "secret-type/" + sk.Type}
			}
			w.finish(g)
			w.gate(g)
		}
	}
	// (b) every pool key alone and as the last of three
	for _, pk := range w.pool.Keys {
		for _, n := range []int{1, 3} {
			g := &gen{ks: &tinkpb.Keyset{}, label: []string{"every-key-type", "key-type/" + pk.Type}}
			for i := 0; i < n-1; i++ {
				g.ks.Key = append(g.ks.Key, w.entry(g.ks, w.pick(w.public)))
			}
			g.ks.Key = append(g.ks.Key, w.entry(g.ks, pk))
			w.finish(g)
			w.gate(g)
		}
	}
	// (b') every secret pool key relabelled ASYMMETRIC_PUBLIC / REMOTE / undefined, alone and
	// behind a public key: does the per-type parser notice?
	for _, i := range w.secret {
		pk := w.pool.Keys[i]
		for _, m := range []int32{3, 4, 5} {
			for _, n := range []int{1, 2} {
				g := &gen{ks: &tinkpb.Keyset{}, label: []string{"secret-key-relabelled-nonsecret", fmt.Sprintf("material=%d", m)}}
				if n == 2 {
					g.ks.Key = append(g.ks.Key, w.entry(g.ks, w.pick(w.public)))
				}
				e := w.entry(g.ks, pk)
				e.KeyData.KeyMaterialType = tinkpb.KeyData_KeyMaterialType(m)
				g.ks.Key = append(g.ks.Key, e)
				w.finish(g)
				w.gate(g)
			}
		}
	}
	// (c) random mixes, material type numbers set at proto level, unknown type URLs
	for i, n := 0, hlib.N(3200, 64000); i < n; i++ {
		g := &gen{ks: &tinkpb.Keyset{}}
		nk := 1 + w.rng.Intn(6)
		mode := w.rng.Intn(100)
		for j := 0; j < nk; j++ {
			switch {
			case mode < 35: // mostly public, some secret
				if w.rng.Chance(25) {
					g.ks.Key = append(g.ks.Key, w.entry(g.ks, w.pick(w.secret)))
				} else {
					g.ks.Key = append(g.ks.Key, w.entry(g.ks, w.pick(w.public)))
				}
			case mode < 50: // all secret
				g.ks.Key = append(g.ks.Key, w.entry(g.ks, w.pick(w.secret)))
			default:
				g.ks.Key = append(g.ks.Key, w.entry(g.ks, w.pick(w.public)))
			}
		}
		switch {
		case mode < 35:
			g.label = append(g.label, "mixed")
		case mode < 50:
			g.label = append(g.label, "all-secret")
		default:
			g.label = append(g.label, "public-then-edited")
		}
		if mode >= 50 || w.rng.Chance(30) {
			// edits at proto level on one or two keys
			for e, ne := 0, 1+w.rng.Intn(2); e < ne; e++ {
				t := w.rng.Intn(nk)
				kd := g.ks.Key[t].KeyData
				switch w.rng.Intn(6) {
				case 0, 1: // unknown material number
					kd.KeyMaterialType = tinkpb.KeyData_KeyMaterialType(unknownMaterial[w.rng.Intn(len(unknownMaterial))])
					g.label = append(g.label, fmt.Sprintf("material=%d", int32(kd.KeyMaterialType)), fmt.Sprintf("edited-position/%d-of-%d", t, nk))
				case 2: // any defined material number on whatever key
					kd.KeyMaterialType = tinkpb.KeyData_KeyMaterialType(w.rng.Intn(5))
					g.label = append(g.label, fmt.Sprintf("material=%d", int32(kd.KeyMaterialType)), fmt.Sprintf("edited-position/%d-of-%d", t, nk))
				case 3: // unknown type URL, material as is
					kd.TypeUrl = []string{"type.googleapis.com/verif.NoSuchKey", "type.googleapis.com/google.crypto.tink.AesEaxKey", "", "x"}[w.rng.Intn(4)]
					g.label = append(g.label, "unknown-type-url")
				case 4: // unknown type URL with a chosen material number and secret-looking bytes
					kd.TypeUrl = "type.googleapis.com/verif.Opaque"
					kd.Value = w.rng.Bytes(16 + w.rng.Intn(48))
					kd.KeyMaterialType = tinkpb.KeyData_KeyMaterialType([]int32{0, 1, 2, 3, 4, 5, 6, 1<<31 - 1}[w.rng.Intn(8)])
					g.ks.Key[t].OutputPrefixType = tinkpb.OutputPrefixType(1 + w.rng.Intn(4))
					g.label = append(g.label, "unknown-type-url", fmt.Sprintf("material=%d", int32(kd.KeyMaterialType)), fmt.Sprintf("edited-position/%d-of-%d", t, nk))
				case 5: // a secret key relabelled public / remote, or a public key relabelled secret
					if w.rng.Bool() {
						sk := w.pick(w.secret)
						g.ks.Key[t].KeyData = clonePK(sk)
						g.ks.Key[t].OutputPrefixType = sk.Prefix
						g.ks.Key[t].KeyData.KeyMaterialType = tinkpb.KeyData_KeyMaterialType(w.rng.Pick(3, 4, 5, 1<<31-1))
						g.label = append(g.label, "secret-key-relabelled-nonsecret")
					} else {
						g.ks.Key[t].KeyData.KeyMaterialType = tinkpb.KeyData_KeyMaterialType(w.rng.Pick(0, 1, 2))
						g.label = append(g.label, "public-key-relabelled-secret")
					}
				}
			}
		}
		if w.rng.Chance(2) {
			g.ks.Key = nil
			g.label = append(g.label, "empty")
		}
		w.finish(g)
		w.gate(g)
	}
	_ = o
}

func main() {
	o := hlib.Open("c13")
	defer o.Close()
	w := &world{o: o, rng: hlib.NewRng(*hlib.FlagSeed, "c13"), breach: map[string]bool{}}
	kslib.InstallDetRand(*hlib.FlagSeed)
	w.pool = kslib.BuildPool()
	w.scan = poolScanner(w.pool)
	o.Hist["secret-8-byte-windows-in-pool"] = len(w.scan.windows)
	for _, s := range w.pool.Skipped {
		o.Count("pool-skipped/" + s)
	}
	for i, pk := range w.pool.Keys {
		if pk.Secret() {
			w.secret = append(w.secret, i)
		} else {
			w.public = append(w.public, i)
		}
		o.Count("pool/" + pk.KD.GetKeyMaterialType().String())
	}
	for _, t := range []struct {
		name string
		kt   *tinkpb.KeyTemplate
	}{{"AES128GCM", aead.AES128GCMKeyTemplate()}, {"AES256GCM-raw", aead.AES256GCMNoPrefixKeyTemplate()}, {"AES256GCMSIV", aead.AES256GCMSIVKeyTemplate()},
		{"AES128CTRHMACSHA256", aead.AES128CTRHMACSHA256KeyTemplate()}, {"XChaCha20Poly1305", aead.XChaCha20Poly1305KeyTemplate()},
		{"XAES256GCM192-raw", aead.XAES256GCM192BitNonceNoPrefixKeyTemplate()}} {
		var pair [2]tink.AEAD
		for i := range pair {
			kh, err := keyset.NewHandle(t.kt)
			if err != nil {
				panic(err)
			}
			if pair[i], err = aead.New(kh); err != nil {
				panic(err)
			}
		}
		w.keks = append(w.keks, kek{t.name, pair[0], pair[1]})
	}
	// -mode ecshort | big (or VERIF_C13_MODE): only part 4 / part 5. These parts come last and draw
	// from their own streams: the lines of parts 1-3 do not depend on them.
	mode := *hlib.FlagMode
	if mode == "" {
		mode = os.Getenv("VERIF_C13_MODE")
	}
	if mode == "" {
		w.run()
		w.utf8Lines()
	}
	if mode == "" || mode == "ecshort" {
		w.ecShortPass() // ecshort.go
	}
	if mode == "" || mode == "big" {
		w.bigPass() // big.go
	}
}
