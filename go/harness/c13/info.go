//go:build verif

// Part 3 of harness c13: byte-level tie of KeysetInfo(), the cleartext keyset bytes and the
// written EncryptedKeyset to the Lean model TinkVerif/Model/KeysetInfo.lean (theorems in
// Props/C13Info.lean: non-interference of `info` in the key values, content of the encrypted
// form, write/read round trip).
//
//	!K info <fkeyset>            hex(Marshal(handle.KeysetInfo()))             = encode (info ks)
//	!K ksbytes <fkeyset>         insecurecleartextkeyset.Write / BinaryWriter  = encode (toWire ks)
//	!K rdks <bytes>              Unmarshal of those bytes, as a token          = parseKeyset
//	!K encks <ct> <fkeyset>      Marshal of the EncryptedKeyset handed to MemReaderWriter, resp.
//	                             printed by JSONWriter                         = encode (encryptedKeyset ct ks)
//	!K encbin <ct>               everything BinaryWriter.WriteEncrypted wrote  = encode (binaryForm ct)
//	!K ctof <bytes>              GetEncryptedKeyset() of the parsed output     = ciphertextOf ∘ decode
//	!K utf8 <bytes>              utf8.Valid (proto3 string check on type_url)  = utf8Valid
//
// <fkeyset> = primary|typeUrlHex:valueHex:material:status:id:prefix;… ("-" = empty bytes / no keys),
// numbers as the varint values on the wire. The token is built from the keyset parsed back from the
// bytes the cleartext writer produced and compared with the handle's keyset material.
package main

import (
	"bytes"
	"fmt"
	"strings"
	"unicode/utf8"

	"github.com/tink-crypto/tink-go/v2/insecurecleartextkeyset"
	"github.com/tink-crypto/tink-go/v2/internal/verifharness/hlib"
	"github.com/tink-crypto/tink-go/v2/keyset"
	"google.golang.org/protobuf/proto"

	tinkpb "github.com/tink-crypto/tink-go/v2/proto/tink_go_proto"
)

var detMarshal = proto.MarshalOptions{Deterministic: true}

func enumVarint(e int32) uint64 { return uint64(int64(e)) }

// fkTok encodes a keyset with its key material; ok=false if a key has no key_data (not
// expressible: the model always writes the field, as every handle-made keyset does).
func fkTok(ks *tinkpb.Keyset, withValues bool) (string, bool) {
	var sb strings.Builder
	fmt.Fprintf(&sb, "%d|", ks.GetPrimaryKeyId())
	if len(ks.GetKey()) == 0 {
		sb.WriteString("-")
	}
	for i, k := range ks.GetKey() {
		if k == nil || k.KeyData == nil {
			return "", false
		}
		if i > 0 {
			sb.WriteByte(';')
		}
		v, m := k.KeyData.GetValue(), enumVarint(int32(k.KeyData.GetKeyMaterialType()))
		if !withValues {
			v, m = nil, 0
		}
		fmt.Fprintf(&sb, "%s:%s:%d:%d:%d:%d", hlib.Tok([]byte(k.KeyData.GetTypeUrl())), hlib.Tok(v), m,
			enumVarint(int32(k.GetStatus())), k.GetKeyId(), enumVarint(int32(k.GetOutputPrefixType())))
	}
	return sb.String(), true
}

// infoState is what the per-handle lines hand to the per-write lines.
type infoState struct {
	tok, tokMeta string
	ok           bool
}

// infoLines emits the KeysetInfo / cleartext-bytes lines for one handle.
func (w *world) infoLines(h *keyset.Handle, mat *tinkpb.Keyset, ctx func() string) infoState {
	o := w.o
	var st infoState
	// the cleartext bytes as the binary writer emits them
	var buf bytes.Buffer
	var werr error
	if p := hlib.Recover(func() { werr = insecurecleartextkeyset.Write(h, keyset.NewBinaryWriter(&buf)) }); p != "" || werr != nil {
		o.Violate("insecurecleartextkeyset.Write(BinaryWriter) failed: %v %s; %s", werr, p, ctx())
		return st
	}
	written := &tinkpb.Keyset{}
	if err := proto.Unmarshal(buf.Bytes(), written); err != nil {
		o.Violate("the cleartext keyset bytes do not parse: %v; %s", err, ctx())
		return st
	}
	tok, ok := fkTok(written, true)
	mtok, mok := fkTok(mat, true)
	if !ok || !mok {
		o.Count("info-not-expressible")
		return st
	}
	if tok != mtok || len(written.ProtoReflect().GetUnknown()) != 0 {
		o.Violate("the written cleartext keyset differs from the handle's keyset material; %s", ctx())
	}
	st.tok, st.ok = tok, true
	st.tokMeta, _ = fkTok(written, false)
	o.Emit("!K ksbytes "+tok, hlib.Tok(buf.Bytes()), true)
	o.Emit("!K rdks "+hlib.Tok(buf.Bytes()), "ok "+tok, true)
	o.Count("info-lines/ksbytes")

	// KeysetInfo(): byte-exact against the model's info of the same keyset
	var info *tinkpb.KeysetInfo
	if p := hlib.Recover(func() { info = h.KeysetInfo() }); p == "" {
		b, err := detMarshal.Marshal(info)
		if err != nil {
			o.Violate("KeysetInfo() does not marshal: %v; %s", err, ctx())
		} else {
			o.Emit("!K info "+tok, hlib.Tok(b), true)
			// non-interference, observed: the same answer for the keyset with all key values
			// and material types blanked
			o.Emit("!K info "+st.tokMeta, hlib.Tok(b), true)
			o.Count("info-lines/info")
		}
	}
	for _, k := range written.GetKey() {
		u := []byte(k.GetKeyData().GetTypeUrl())
		o.Emit("!K utf8 "+hlib.Tok(u), hlib.B01(utf8.Valid(u)), false)
	}
	return st
}

// encLines emits the lines for one encrypted write. enc is the EncryptedKeyset recovered from the
// writer (the message itself for MemReaderWriter, the parsed output otherwise), out the bytes
// written (nil for MemReaderWriter).
func (w *world) encLines(st infoState, wn string, enc *tinkpb.EncryptedKeyset, out []byte, where string, ctx func() string) {
	o := w.o
	if !st.ok || enc == nil {
		return
	}
	ct := enc.GetEncryptedKeyset()
	switch wn {
	case "BinaryWriter":
		// the whole output is the ciphertext field
		o.Emit("!K encbin "+hlib.Tok(ct), hlib.Tok(out), true)
		o.Emit("!K ctof "+hlib.Tok(out), "ok "+hlib.Tok(ct), true)
		o.Count("info-lines/encbin")
	default:
		b, err := detMarshal.Marshal(enc)
		if err != nil {
			o.Violate("%s: the EncryptedKeyset does not marshal: %v; %s", where, err, ctx())
			return
		}
		// ciphertext + KeysetInfo and nothing else; for the JSON writer the line is given the
		// keyset with blanked key values: the cleartext part does not depend on them
		tok := st.tok
		if wn == "JSONWriter" {
			tok = st.tokMeta
		}
		o.Emit("!K encks "+hlib.Tok(ct)+" "+tok, hlib.Tok(b), true)
		o.Count("info-lines/encks/" + wn)
	}
}

// utf8Lines: the model's UTF-8 predicate against utf8.Valid on edge cases and random strings
// (type_url is a proto3 string: Marshal and Unmarshal refuse invalid UTF-8).
func (w *world) utf8Lines() {
	o := w.o
	o.Case()
	rng := hlib.NewRng(*hlib.FlagSeed, "c13-utf8")
	fixed := [][]byte{nil, {0x7f}, {0x80}, {0xbf}, {0xc0, 0x80}, {0xc1, 0xbf}, {0xc2, 0x80}, {0xc2}, {0xdf, 0xbf}, {0xe0, 0x80, 0x80}, {0xe0, 0x9f, 0xbf},
		{0xe0, 0xa0, 0x80}, {0xed, 0x9f, 0xbf}, {0xed, 0xa0, 0x80}, {0xee, 0x80, 0x80}, {0xef, 0xbf, 0xbf}, {0xf0, 0x8f, 0xbf, 0xbf}, {0xf0, 0x90, 0x80, 0x80},
		{0xf4, 0x8f, 0xbf, 0xbf}, {0xf4, 0x90, 0x80, 0x80}, {0xf5, 0x80, 0x80, 0x80}, {0xe2, 0x82}, {0xf0, 0x9f, 0x98}, {0xff}, {0xfe}, {0xe2, 0x82, 0xac, 0x41}}
	for _, b := range fixed {
		o.Emit("!K utf8 "+hlib.Tok(b), hlib.B01(utf8.Valid(b)), true)
	}
	lead := []byte{0x00, 0x41, 0x7f, 0x80, 0xbf, 0xc0, 0xc1, 0xc2, 0xdf, 0xe0, 0xe1, 0xec, 0xed, 0xee, 0xef, 0xf0, 0xf1, 0xf3, 0xf4, 0xf5, 0xff, 0x8f, 0x90, 0x9f, 0xa0}
	for i, n := 0, hlib.N(1500, 30000); i < n; i++ {
		b := make([]byte, 1+rng.Intn(6))
		for j := range b {
			if rng.Chance(70) {
				b[j] = lead[rng.Intn(len(lead))]
			} else {
				b[j] = byte(rng.Intn(256))
			}
		}
		o.Emit("!K utf8 "+hlib.Tok(b), hlib.B01(utf8.Valid(b)), true)
	}
	o.Count("info-lines/utf8")
}
