//go:build verif

// Part 5 of harness c13: large keysets (kslib/bigks.go).
//
// (A) many keys: 63 .. 300 keys (thorough: up to 4097) of cheap public pool keys under fresh ids.
// The public-only keyset must pass every no-secret gate and round trip; with ONE secret key —
// a symmetric or private pool key, a key relabelled UNKNOWN_KEYMATERIAL / SYMMETRIC, an
// unknown-type key declared UNKNOWN / SYMMETRIC / ASYMMETRIC_PRIVATE, status ENABLED / DISABLED /
// DESTROYED, primary or not — at an early, a late (>= 64, >= 128, >= 256) or, for some sizes,
// every single position, every gate must refuse it (part 1 gates, with the model lines: the Lean
// model's hasSecrets looks at all keys). Undefined material numbers ride along. Public() of a
// keyset of that many private keys yields that many public keys.
//
// (B) large serializations: keysets padded to exact binary sizes around 64 KiB, 128 KiB, 1 MiB
// (thorough: 2 .. 32 MiB), made of many ML-DSA / small public keys or of a few keys and one giant
// padding key (unknown-type key labelled public / remote, KMS-envelope key with a long URI).
// What WriteWithNoSecrets wrote must be read by ReadWithNoSecrets (binary and JSON) with the same
// keys / ids / statuses / primary; what Write / WriteWithAssociatedData / WriteWithContext wrote
// must be read with the same key-encryption key and associated data and give an equal keyset;
// a secret key anywhere — first, in the middle, behind byte 65536 or 1 MiB, or immediately behind
// a key that ends exactly at byte 65535 / 65536 / 65537 / 1 MiB — makes ReadWithNoSecrets fail;
// public keys behind such a boundary are still there after reading.
package main

import (
	"bytes"
	"context"
	"fmt"
	"runtime/debug"

	"github.com/tink-crypto/tink-go/v2/insecurecleartextkeyset"
	"github.com/tink-crypto/tink-go/v2/internal/verifharness/hlib"
	"github.com/tink-crypto/tink-go/v2/internal/verifharness/kslib"
	"github.com/tink-crypto/tink-go/v2/keyset"
	"google.golang.org/protobuf/proto"

	tinkpb "github.com/tink-crypto/tink-go/v2/proto/tink_go_proto"
)

type bigWorld struct {
	*world
	rng                  *hlib.Rng
	fill                 func(n int) []byte
	pubs, syms, privs    []*kslib.PoolKey
	tiny                 []*kslib.PoolKey
	mldsa                []*kslib.PoolKey
	kinds                []string
	kindN, statusN, apiN int
}

var bigStatuses = []tinkpb.KeyStatusType{tinkpb.KeyStatusType_ENABLED, tinkpb.KeyStatusType_DISABLED, tinkpb.KeyStatusType_DESTROYED}

// secretKinds: what is put at the chosen position. The first group is secret by the property's
// (and the model's) definition, "material=N" is an undefined number (not secret by definition).
var bigSecretKinds = []string{"symmetric", "private", "relabel-unknown", "opaque-symmetric", "relabel-symmetric", "opaque-private",
	"opaque-unknown", "relabel-private"}
var bigUndefined = []int32{5, 6, 100, 1<<31 - 1}

func (b *bigWorld) putSecret(ks *tinkpb.Keyset, pos int, kind string, st tinkpb.KeyStatusType) {
	k := ks.Key[pos]
	switch kind {
	case "symmetric":
		pk := b.syms[b.rng.Intn(len(b.syms))]
		kslib.PutKeyData(ks, pos, pk.KD, pk.Prefix, st)
	case "private":
		pk := b.privs[b.rng.Intn(len(b.privs))]
		kslib.PutKeyData(ks, pos, pk.KD, pk.Prefix, st)
	case "relabel-unknown":
		k.KeyData.KeyMaterialType = tinkpb.KeyData_UNKNOWN_KEYMATERIAL
		k.Status = st
	case "relabel-symmetric":
		k.KeyData.KeyMaterialType = tinkpb.KeyData_SYMMETRIC
		k.Status = st
	case "relabel-private":
		k.KeyData.KeyMaterialType = tinkpb.KeyData_ASYMMETRIC_PRIVATE
		k.Status = st
	default: // opaque-*
		m := map[string]tinkpb.KeyData_KeyMaterialType{"opaque-symmetric": tinkpb.KeyData_SYMMETRIC, "opaque-private": tinkpb.KeyData_ASYMMETRIC_PRIVATE,
			"opaque-unknown": tinkpb.KeyData_UNKNOWN_KEYMATERIAL}[kind]
		k.KeyData = &tinkpb.KeyData{TypeUrl: kslib.OpaqueURL, Value: b.fill(16 + b.rng.Intn(48)), KeyMaterialType: m}
		k.OutputPrefixType = tinkpb.OutputPrefixType(1 + b.rng.Intn(4))
		k.Status = st
	}
}

func (b *bigWorld) nextKind() string {
	b.kindN++
	return bigSecretKinds[b.kindN%len(bigSecretKinds)]
}

func (b *bigWorld) nextStatus() tinkpb.KeyStatusType {
	b.statusN++
	return bigStatuses[b.statusN%len(bigStatuses)]
}

// movePrimary makes sure the primary is not the key at pos (so that its status is free).
func (b *bigWorld) movePrimary(ks *tinkpb.Keyset, pos int) {
	if len(ks.Key) < 2 || ks.Key[pos].KeyId != ks.PrimaryKeyId {
		return
	}
	at := (pos + 1 + b.rng.Intn(len(ks.Key)-1)) % len(ks.Key)
	kslib.SetPrimaryAt(b.rng, ks, at)
}

func (b *bigWorld) gateLite(g *gen, full bool) {
	b.world.lite = !full
	b.world.gate(g)
	b.world.lite = true
}

func (w *world) bigPass() {
	o := w.o
	b := &bigWorld{world: w, rng: hlib.NewRng(*hlib.FlagSeed, "c13-big")}
	w.rng = b.rng
	fr := hlib.NewRng(*hlib.FlagSeed, "c13-big-fill")
	b.fill = func(n int) []byte { return fr.Bytes(n) }
	b.pubs = kslib.CheapPublic(w.pool, 300)
	b.tiny = kslib.CheapPublic(w.pool, 110) // Ed25519, X25519, P-256: the cheapest to parse
	b.syms = kslib.CheapSecret(w.pool, false, 200)
	b.privs = kslib.CheapSecret(w.pool, true, 400)
	for _, n := range []string{"MLDSA87-raw.pub", "MLDSA65.pub", "MLDSA44.pub", "JWT-MLDSA65.pub"} {
		if pk := kslib.PoolByName(w.pool, n); pk != nil {
			b.mldsa = append(b.mldsa, pk)
		}
	}
	if len(b.tiny) < 3 {
		b.tiny = b.pubs
	}
	for _, pk := range b.pubs {
		o.Count("big/parts/public/" + pk.Type)
	}
	for _, pk := range b.tiny {
		o.Count("big/parts/tiny/" + pk.Type)
	}
	if len(b.pubs) < 4 || len(b.syms) == 0 || len(b.privs) == 0 {
		panic("harness error (not a violation): the pool has no cheap public / symmetric / private keys")
	}
	if len(b.mldsa) == 0 {
		b.mldsa = b.pubs
		o.Count("big/NO-MLDSA-IN-POOL")
	}
	w.lite = true
	defer func() { w.lite = false }()
	// megabyte-sized buffers come and go: collect less often (GOMEMLIMIT still bounds the heap)
	defer debug.SetGCPercent(debug.SetGCPercent(400))
	b.manyKeys()
	b.publicOfMany()
	b.largeSizes()
	b.boundaries()
}

// ---------- (A) many keys ----------

func (b *bigWorld) manyKeys() {
	o := b.o
	sizes := []int{63, 64, 65, 127, 128, 129, 200, 255, 256, 257, 300}
	every := map[int]bool{65: true, 129: true}
	if hlib.Thorough() {
		sizes = append(sizes, 66, 130, 258, 511, 512, 513, 1023, 1024, 1025, 4097) // not more: the Lean model's validate is quadratic in the number of keys
		every[130], every[257], every[513] = true, true, true
	}
	for _, n := range sizes {
		ids := kslib.NewIDSet(b.rng)
		parts := b.pubs
		if every[n] || n > 128 {
			parts = b.tiny
		}
		base := kslib.BigKeyset(b.rng, ids, parts, n, -1)
		o.Count(fmt.Sprintf("big/many-keys/n=%d", n))
		lab := fmt.Sprintf("big-many-keys/n=%d", n)
		// public only: accepted everywhere; the complete output part for the smaller ones
		b.gateLite(&gen{ks: kslib.Clone(base), label: []string{lab, "public-only"}}, n <= 130)
		b.roundTrip(base, lab+" public-only")
		// one secret key at chosen positions
		pos := map[int]bool{}
		for _, p := range []int{0, 1, 31, 32, 62, 63, 64, 65, 66, 126, 127, 128, 129, 191, 192, 254, 255, 256, 257, 511, 512, 1023, 1024, 65534, 65535, 65536, n / 2, n - 2, n - 1} {
			if p >= 0 && p < n {
				pos[p] = true
			}
		}
		if every[n] {
			for p := 0; p < n; p++ {
				pos[p] = true
			}
		}
		if n > 5000 {
			// the giants: a handful of positions
			pos = map[int]bool{0: true, 63: true, 64: true, 255: true, 256: true, 65535: n > 65535, 65536: n > 65536, n - 1: true}
		}
		for p := 0; p < n; p++ {
			if !pos[p] {
				continue
			}
			kind, st := b.nextKind(), b.nextStatus()
			ks := kslib.Clone(base)
			b.movePrimary(ks, p)
			b.putSecret(ks, p, kind, st)
			o.Count("big/many-keys/secret-kind/" + kind)
			o.Count("big/many-keys/secret-status/" + st.String())
			if p >= 64 {
				o.Count("big/many-keys/secret-at>=64")
			}
			if p >= 256 {
				o.Count("big/many-keys/secret-at>=256")
			}
			b.gateLite(&gen{ks: ks, label: []string{lab, "one-secret-key", fmt.Sprintf("secret-at-position/%d-of-%d", p, n), "secret-kind/" + kind, "secret-status/" + st.String()}}, false)
		}
		// the secret key is the primary, late
		for _, p := range []int{n - 1, 64, 256} {
			if p < n && p >= 0 && (n < 5000 || p == n-1) {
				ks := kslib.Clone(base)
				kind := []string{"symmetric", "private"}[b.rng.Intn(2)]
				b.putSecret(ks, p, kind, tinkpb.KeyStatusType_ENABLED)
				ks.PrimaryKeyId = ks.Key[p].KeyId
				b.gateLite(&gen{ks: ks, label: []string{lab, "secret-primary", fmt.Sprintf("secret-at-position/%d-of-%d", p, n), "secret-kind/" + kind}}, false)
			}
		}
		// several secret keys, all late
		if n > 66 {
			ks := kslib.Clone(base)
			var ps []int
			for _, p := range []int{64, 65, 128, 192, 256, n - 1} {
				if p < n {
					b.movePrimary(ks, p)
				}
			}
			for _, p := range []int{64, 65, 128, 192, 256, n - 1} {
				if p < n && ks.Key[p].KeyId != ks.PrimaryKeyId {
					b.putSecret(ks, p, b.nextKind(), b.nextStatus())
					ps = append(ps, p)
				}
			}
			b.gateLite(&gen{ks: ks, label: []string{lab, "several-late-secret-keys", fmt.Sprintf("secret-at-positions/%v", ps)}}, false)
		}
		// undefined material numbers at a late position
		for i, m := range bigUndefined {
			p := n - 1 - i
			if p < 0 || (n > 5000 && i > 0) {
				continue
			}
			ks := kslib.Clone(base)
			ks.Key[p].KeyData.KeyMaterialType = tinkpb.KeyData_KeyMaterialType(m)
			b.gateLite(&gen{ks: ks, label: []string{lab, fmt.Sprintf("material=%d", m), fmt.Sprintf("edited-position/%d-of-%d", p, n)}}, false)
		}
	}
}

// publicOfMany: Public() of a keyset of n private keys.
func (b *bigWorld) publicOfMany() {
	o := b.o
	sizes := []int{65, 129, 257}
	if hlib.Thorough() {
		sizes = append(sizes, 64, 128, 256, 513, 1025)
	}
	for _, n := range sizes {
		ids := kslib.NewIDSet(b.rng)
		ks := kslib.BigKeyset(b.rng, ids, b.privs, n, -1)
		lab := fmt.Sprintf("big-public-of-many/n=%d", n)
		o.Count(fmt.Sprintf("big/public-of-many/n=%d", n))
		b.gateLite(&gen{ks: kslib.Clone(ks), label: []string{lab, "all-private"}}, false)
		ctx := func() string { return fmt.Sprintf("shape=[%s] keyset=%s", lab, b.hex(ks)) }
		h, err, p := kslib.ReadMem(ks)
		if err != nil || p != "" {
			o.Violate("big: insecurecleartextkeyset.Read refuses a keyset of %d private pool keys: %v %s; %s", n, err, p, ctx())
			continue
		}
		var ph *keyset.Handle
		var perr error
		if p := hlib.Recover(func() { ph, perr = h.Public() }); p != "" || perr != nil {
			o.Violate("big: Public() fails on a keyset of %d private keys: %v %s; %s", n, perr, p, ctx())
			continue
		}
		pm := insecurecleartextkeyset.KeysetMaterial(ph)
		bad := ""
		if len(pm.GetKey()) != n || pm.GetPrimaryKeyId() != ks.GetPrimaryKeyId() {
			bad = fmt.Sprintf("%d keys, primary %d", len(pm.GetKey()), pm.GetPrimaryKeyId())
		}
		for i, k := range pm.GetKey() {
			if bad != "" {
				break
			}
			if k.GetKeyData().GetKeyMaterialType() != tinkpb.KeyData_ASYMMETRIC_PUBLIC {
				bad = fmt.Sprintf("key %d has material %v", i, k.GetKeyData().GetKeyMaterialType())
			} else if k.GetKeyId() != ks.Key[i].GetKeyId() || k.GetStatus() != ks.Key[i].GetStatus() || k.GetOutputPrefixType() != ks.Key[i].GetOutputPrefixType() {
				bad = fmt.Sprintf("key %d has other id / status / prefix type", i)
			}
		}
		if bad != "" {
			o.Violate("big: Public() of a keyset of %d private keys is not the keyset of the %d public keys (%s); %s", n, n, bad, ctx())
			continue
		}
		if n := b.scan.find(mustMarshal(pm)); n != "" {
			o.Count("LEAK")
			o.Violate("big: Public() keyset contains >= 8 bytes of the secret material of %s; %s", n, ctx())
		}
		// the public keyset through the gates and back
		b.gateLite(&gen{ks: kslib.Clone(pm), label: []string{lab, "public-of-private"}}, n <= 130)
		b.roundTrip(pm, lab+" public-of-private")
		var buf bytes.Buffer
		if werr := h.WriteWithNoSecrets(keyset.NewBinaryWriter(&buf)); werr == nil || buf.Len() != 0 {
			o.Count("GATE-BREACH")
			o.Violate("big: WriteWithNoSecrets writes a keyset of %d private keys (%d bytes); %s", n, buf.Len(), ctx())
		}
	}
}

func mustMarshal(m proto.Message) []byte {
	b, err := proto.Marshal(m)
	if err != nil {
		panic(err)
	}
	return b
}

// ---------- (B) large serializations ----------

type composition struct {
	name    string
	parts   func(b *bigWorld) []*kslib.PoolKey
	maxKeys int
	maxSize int // quick tier: not above this target
}

var compositions = []composition{
	{"many-mldsa", func(b *bigWorld) []*kslib.PoolKey { return b.mldsa }, 1 << 30, 1 << 30},
	{"many-small", func(b *bigWorld) []*kslib.PoolKey { return b.pubs }, 1 << 30, 300000},
	{"giant-pad", func(b *bigWorld) []*kslib.PoolKey { return b.pubs }, 2, 1 << 30},
}

func (b *bigWorld) largeSizes() {
	o := b.o
	targets := []int{49159, 65535, 65536, 65537, 70001, 131071, 131072, 131073, 200003, 786500, 1048577, 1572869}
	if hlib.Thorough() {
		targets = append(targets, 1048575, 1048576, 1200007, 98304, 262143, 262144, 262145, 524288, 2097151, 2097152, 2097153, 3000017, 4194305, 8388609, 16777215, 16777216, 16777217, 33554433) // above 9 MB: one giant padding key only
	}
	n := 0
	for ti, t := range targets {
		var comps []composition
		for _, c := range compositions {
			if (!hlib.Thorough() && t > c.maxSize) || (c.name == "many-small" && t > 5000000) || (c.name == "many-mldsa" && t > 9000000) {
				continue
			}
			comps = append(comps, c)
		}
		heavy := t > 300000 && !hlib.Thorough()
		if heavy {
			comps = comps[ti%len(comps) : ti%len(comps)+1] // quick tier: the compositions alternate over the sizes above 300 KB
		}
		for _, c := range comps {
			n++
			padKind := kslib.PadKinds[n%len(kslib.PadKinds)]
			ids := kslib.NewIDSet(b.rng)
			ks, err := kslib.SizedKeyset(b.pool, b.rng, ids, c.parts(b), c.maxKeys, t, padKind, b.fill)
			if err != nil {
				panic("harness error (not a violation): " + err.Error())
			}
			lab := fmt.Sprintf("big-size/bytes=%d/%s/pad=%s/keys=%d", t, c.name, padKind, len(ks.Key))
			o.Count("big/size/" + c.name)
			o.Count(fmt.Sprintf("big/size/bytes=%d", t))
			b.gateLite(&gen{ks: kslib.Clone(ks), label: []string{lab, "public-only"}}, (t == 49159 || t == 65537) && c.name == "many-mldsa")
			b.roundTrip(ks, lab+" public-only")
			// one secret key: first, in the middle, last (behind all the public bytes)
			nk := len(ks.Key)
			positions := []int{0, nk / 2, nk - 1}
			if !hlib.Thorough() {
				positions = positions[n%3 : n%3+1]
			}
			for _, p := range positions {
				v := kslib.Clone(ks)
				kind, st := b.nextKind(), b.nextStatus()
				if len(v.Key[p].KeyData.GetValue()) > 100000 {
					// the giant padding key itself: relabel it rather than replace it, so that
					// the secret sits in (and behind) megabytes
					kind = []string{"relabel-unknown", "relabel-symmetric", "relabel-private"}[b.rng.Intn(3)]
				}
				b.movePrimary(v, p)
				b.putSecret(v, p, kind, st)
				off := kslib.PrefixSize(v, p)
				o.Count("big/size/secret-kind/" + kind)
				if off >= 65536 {
					o.Count("big/size/secret-behind-64KiB")
				}
				if off >= 1<<20 {
					o.Count("big/size/secret-behind-1MiB")
				}
				b.gateLite(&gen{ks: v, label: []string{lab, "one-secret-key", fmt.Sprintf("secret-at-position/%d-of-%d", p, nk), fmt.Sprintf("secret-at-offset/%d", off),
					"secret-kind/" + kind, "secret-status/" + st.String()}}, false)
			}
			// a secret key appended behind everything: an encrypted keyset of that size
			v := kslib.Clone(ks)
			pk := b.syms[b.rng.Intn(len(b.syms))]
			if n%2 == 0 {
				pk = b.privs[b.rng.Intn(len(b.privs))]
			}
			v.Key = append(v.Key, kslib.BigEntry(ids, pk, b.nextStatus()))
			if t >= 65536 {
				o.Count("big/size/secret-behind-64KiB")
			}
			if t >= 1<<20 {
				o.Count("big/size/secret-behind-1MiB")
			}
			b.gateLite(&gen{ks: kslib.Clone(v), label: []string{lab, "one-secret-key", "secret-appended", fmt.Sprintf("secret-at-offset/%d", t)}}, false)
			b.roundTrip(v, lab+" secret-appended")
		}
	}
}

// boundaries: the first keys end exactly at byte B-1, B, B+1 of the serialization; what follows
// is one secret key, or public keys, or public keys and then a secret key.
func (b *bigWorld) boundaries() {
	o := b.o
	bs := []int{1 << 16, 1 << 20}
	if hlib.Thorough() {
		bs = append(bs, 1<<15, 1<<17, 1<<21, 1<<24)
	}
	n := 0
	for _, B := range bs {
		for _, d := range []int{-1, 0, 1} {
			for ci, c := range compositions {
				if c.name == "many-small" && B > 1<<17 {
					continue
				}
				heavy := B > 300000 && !hlib.Thorough()
				if heavy && d != 0 && (ci+d+3)%2 == 1 {
					continue // quick tier: one composition each for B-1 and B+1
				}
				n++
				padKind := kslib.PadKinds[n%len(kslib.PadKinds)]
				ids := kslib.NewIDSet(b.rng)
				ks, err := kslib.SizedKeyset(b.pool, b.rng, ids, c.parts(b), c.maxKeys, B+d, padKind, b.fill)
				if err != nil {
					panic("harness error (not a violation): " + err.Error())
				}
				np := len(ks.Key)
				lab := fmt.Sprintf("big-boundary/first-%d-keys-end-at-byte=%d/%s/pad=%s", np, B+d, c.name, padKind)
				o.Count(fmt.Sprintf("big/boundary/%d%+d", B, d))
				tails := []struct {
					name string
					keys []*tinkpb.Keyset_Key
				}{
					{"then-secret", []*tinkpb.Keyset_Key{b.secretEntry(ids)}},
					{"then-public", []*tinkpb.Keyset_Key{kslib.BigEntry(ids, b.pubs[b.rng.Intn(len(b.pubs))], kslib.BigStatus(b.rng)),
						kslib.BigEntry(ids, b.mldsa[b.rng.Intn(len(b.mldsa))], kslib.BigStatus(b.rng))}},
					{"then-public-then-secret", []*tinkpb.Keyset_Key{kslib.BigEntry(ids, b.pubs[b.rng.Intn(len(b.pubs))], kslib.BigStatus(b.rng)), b.secretEntry(ids)}},
				}
				for _, tl := range tails {
					v := kslib.Clone(ks)
					v.Key = append(v.Key, tl.keys...)
					if got := kslib.PrefixSize(v, np); got != B+d {
						panic(fmt.Sprintf("harness error (not a violation): prefix of %d bytes, wanted %d", got, B+d))
					}
					b.gateLite(&gen{ks: kslib.Clone(v), label: []string{lab, tl.name, fmt.Sprintf("keys=%d", len(v.Key))}}, false)
					if hlib.Thorough() || tl.name == "then-public" || (d == 0 && tl.name == "then-secret") {
						b.roundTrip(v, lab+" "+tl.name)
					}
				}
			}
		}
	}
}

func (b *bigWorld) secretEntry(ids *kslib.IDSet) *tinkpb.Keyset_Key {
	b.kindN++
	pk := b.syms[b.rng.Intn(len(b.syms))]
	if b.kindN%2 == 0 {
		pk = b.privs[b.rng.Intn(len(b.privs))]
	}
	return kslib.BigEntry(ids, pk, b.nextStatus())
}

// roundTrip: the write / read pairs on the handle made of ks through the insecure API.
func (b *bigWorld) roundTrip(ks *tinkpb.Keyset, label string) {
	o := b.o
	size := kslib.SizeOf(ks)
	ctx := func() string {
		return fmt.Sprintf("shape=[%s] keys=%d binary-size=%d keyset=%s", label, len(ks.GetKey()), size, b.hex(ks))
	}
	h, err, p := kslib.ReadMem(ks)
	if p != "" {
		o.Violate("big: panic in insecurecleartextkeyset.Read: %s; %s", p, ctx())
		return
	}
	if err != nil {
		o.Violate("big: insecurecleartextkeyset.Read refuses a keyset of valid pool keys and padding keys: %v; %s", err, ctx())
		return
	}
	mat := insecurecleartextkeyset.KeysetMaterial(h)
	want := kslib.HandleRes(h, nil)
	if len(mat.GetKey()) != len(ks.GetKey()) {
		o.Violate("big: the handle holds %d keys, the keyset %d; %s", len(mat.GetKey()), len(ks.GetKey()), ctx())
	}
	o.Count("big/round-trips")
	if size > 65536 {
		o.Count("big/round-trips>64KiB")
	}
	if size > 1<<20 {
		o.Count("big/round-trips>1MiB")
	}
	secret := expectSecret(mat)
	same := func(where string, h2 *keyset.Handle, err error) {
		switch {
		case err != nil:
			o.Count("BIG-READ-FAILED")
			o.Violate("big: %s fails on what was just written: %v; %s", where, err, ctx())
		case kslib.HandleRes(h2, nil) != want:
			o.Count("BIG-READ-DIFFERS")
			o.Violate("big: %s returns %d keys with other ids / statuses / primary than the %d written; %s", where, h2.Len(), h.Len(), ctx())
		case !proto.Equal(insecurecleartextkeyset.KeysetMaterial(h2), mat):
			o.Count("BIG-READ-DIFFERS")
			o.Violate("big: %s returns a different keyset; %s", where, ctx())
		default:
			o.Count("big/read-back-equal")
		}
	}
	type wr struct {
		name string
		mk   func(buf *bytes.Buffer, mem *keyset.MemReaderWriter) keyset.Writer
		rd   func(buf *bytes.Buffer, mem *keyset.MemReaderWriter) keyset.Reader
	}
	wrs := []wr{
		{"Binary", func(buf *bytes.Buffer, _ *keyset.MemReaderWriter) keyset.Writer { return keyset.NewBinaryWriter(buf) },
			func(buf *bytes.Buffer, _ *keyset.MemReaderWriter) keyset.Reader {
				return keyset.NewBinaryReader(bytes.NewReader(buf.Bytes()))
			}},
		{"JSON", func(buf *bytes.Buffer, _ *keyset.MemReaderWriter) keyset.Writer { return keyset.NewJSONWriter(buf) },
			func(buf *bytes.Buffer, _ *keyset.MemReaderWriter) keyset.Reader {
				return keyset.NewJSONReader(bytes.NewReader(buf.Bytes()))
			}},
		{"Mem", func(_ *bytes.Buffer, mem *keyset.MemReaderWriter) keyset.Writer { return mem },
			func(_ *bytes.Buffer, mem *keyset.MemReaderWriter) keyset.Reader { return mem }},
	}
	guard := func(name string, f func()) bool {
		if p := hlib.Recover(f); p != "" {
			o.Violate("big: panic in %s: %s; %s", name, p, ctx())
			return false
		}
		return true
	}
	for _, x := range wrs {
		// cleartext through the insecure API
		{
			var buf bytes.Buffer
			mem := &keyset.MemReaderWriter{}
			var werr, rerr error
			var h2 *keyset.Handle
			if guard("insecurecleartextkeyset.Write("+x.name+")", func() { werr = insecurecleartextkeyset.Write(h, x.mk(&buf, mem)) }) {
				if werr != nil {
					o.Violate("big: insecurecleartextkeyset.Write(%s) fails: %v; %s", x.name, werr, ctx())
				} else if guard("insecurecleartextkeyset.Read("+x.name+")", func() { h2, rerr = insecurecleartextkeyset.Read(x.rd(&buf, mem)) }) {
					same("insecurecleartextkeyset.Read("+x.name+") after insecurecleartextkeyset.Write", h2, rerr)
				}
				if x.name == "JSON" && buf.Len() > 65536 {
					o.Count("big/json>64KiB")
				}
				if x.name == "JSON" && buf.Len() > 1<<20 {
					o.Count("big/json>1MiB")
				}
			}
		}
		// the no-secret pair
		{
			var buf bytes.Buffer
			mem := &keyset.MemReaderWriter{}
			var werr, rerr error
			var h2 *keyset.Handle
			if guard("WriteWithNoSecrets("+x.name+")", func() { werr = h.WriteWithNoSecrets(x.mk(&buf, mem)) }) {
				switch {
				case secret && (werr == nil || buf.Len() != 0 || mem.Keyset != nil):
					o.Count("GATE-BREACH")
					o.Violate("big: WriteWithNoSecrets(%s) err=%v wrote %d bytes of a keyset holding secret key material; %s", x.name, werr, buf.Len(), ctx())
				case !secret && werr != nil:
					o.Violate("big: WriteWithNoSecrets(%s) refuses a keyset without secret key material: %v; %s", x.name, werr, ctx())
				case !secret:
					if guard("ReadWithNoSecrets("+x.name+")", func() { h2, rerr = keyset.ReadWithNoSecrets(x.rd(&buf, mem)) }) {
						same("ReadWithNoSecrets("+x.name+") after WriteWithNoSecrets", h2, rerr)
					}
				}
			}
		}
		// encrypted
		{
			k := b.keks[b.rng.Intn(len(b.keks))]
			var ad []byte
			switch b.rng.Intn(4) {
			case 0:
				ad = nil
			case 1:
				ad = []byte("keyset associated data")
			default:
				ad = b.rng.Bytes(1 + b.rng.Intn(40))
			}
			apis := []string{"WithAssociatedData", "WithContext"}
			if len(ad) == 0 {
				apis = append(apis, "")
			}
			b.apiN++
			api := apis[b.apiN%len(apis)]
			var buf bytes.Buffer
			mem := &keyset.MemReaderWriter{}
			var werr error
			where := fmt.Sprintf("Write%s(%s, %s, ad=%x)", api, x.name, k.name, ad)
			if !guard(where, func() {
				switch api {
				case "":
					werr = h.Write(x.mk(&buf, mem), k.a)
				case "WithContext":
					werr = h.WriteWithContext(context.Background(), x.mk(&buf, mem), ctxAEAD{k.a}, ad)
				default:
					werr = h.WriteWithAssociatedData(x.mk(&buf, mem), k.a, ad)
				}
			}) {
				continue
			}
			if werr != nil {
				o.Violate("big: %s fails: %v; %s", where, werr, ctx())
				continue
			}
			if secret && x.name == "Binary" && buf.Len() <= 200000 {
				if n := b.scan.find(buf.Bytes()); n != "" {
					o.Count("LEAK")
					o.Violate("big: %s output contains >= 8 bytes of the secret material of %s; %s", where, n, ctx())
				}
			}
			read := func(a ctxAEAD, ad2 []byte) (h2 *keyset.Handle, rerr error) {
				guard("Read"+api+" after "+where, func() {
					switch api {
					case "":
						h2, rerr = keyset.Read(x.rd(&buf, mem), a.a)
					case "WithContext":
						h2, rerr = keyset.ReadWithContext(context.Background(), x.rd(&buf, mem), a, ad2)
					default:
						h2, rerr = keyset.ReadWithAssociatedData(x.rd(&buf, mem), a.a, ad2)
					}
				})
				return
			}
			h2, rerr := read(ctxAEAD{k.a}, ad)
			same("Read"+api+" with the same key-encryption key and associated data after "+where, h2, rerr)
			o.Count("big/encrypted/" + x.name + "/Write" + api)
			if size > 300000 && !hlib.Thorough() {
				continue
			}
			if _, rerr := read(ctxAEAD{k.other}, ad); rerr == nil {
				o.Count("WRONG-ACCEPT")
				o.Violate("big: %s: read back succeeds with another key-encryption key; %s", where, ctx())
			}
			if api != "" {
				if _, rerr := read(ctxAEAD{k.a}, append(append([]byte{}, ad...), 'x')); rerr == nil {
					o.Count("WRONG-ACCEPT")
					o.Violate("big: %s: read back succeeds with extended associated data; %s", where, ctx())
				}
			}
		}
	}
}
