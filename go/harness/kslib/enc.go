//go:build verif

package kslib

import (
	"bytes"
	"encoding/hex"
	"fmt"
	"strings"

	"github.com/tink-crypto/tink-go/v2/insecurecleartextkeyset"
	"github.com/tink-crypto/tink-go/v2/internal/protoserialization"
	"github.com/tink-crypto/tink-go/v2/internal/verifharness/hlib"
	"github.com/tink-crypto/tink-go/v2/keyset"
	"google.golang.org/protobuf/encoding/protojson"
	"google.golang.org/protobuf/proto"

	tinkpb "github.com/tink-crypto/tink-go/v2/proto/tink_go_proto"
)

// ParseOk is the per-key parser oracle of the model: does the key pass
// protoserialization.NewKeySerialization + ParseKey exactly the way keysetToEntries
// (keyset/handle.go) calls them. A panic of the parser is reported through pan.
func ParseOk(k *tinkpb.Keyset_Key) (ok bool, pan string) {
	pan = hlib.Recover(func() {
		id := k.GetKeyId()
		if k.GetOutputPrefixType() == tinkpb.OutputPrefixType_RAW {
			id = 0
		}
		ser, err := protoserialization.NewKeySerialization(k.GetKeyData(), k.GetOutputPrefixType(), id)
		if err != nil {
			return
		}
		if _, err := protoserialization.ParseKey(ser); err != nil {
			return
		}
		ok = true
	})
	if pan != "" {
		ok = false
	}
	return
}

// Expressible reports whether the keyset can be written in the driver's line protocol
// (non-nil keyset, no nil key entries, no negative enum numbers).
func Expressible(ks *tinkpb.Keyset) bool {
	if ks == nil {
		return false
	}
	for _, k := range ks.GetKey() {
		if k == nil || k.GetStatus() < 0 || k.GetOutputPrefixType() < 0 || k.GetKeyData().GetKeyMaterialType() < 0 {
			return false
		}
	}
	return true
}

// KeysTok encodes the keys of ks ("-" for none); parse panics are appended to pans.
func KeysTok(ks *tinkpb.Keyset, pans *[]string) string {
	if len(ks.GetKey()) == 0 {
		return "-"
	}
	ss := make([]string, len(ks.GetKey()))
	for i, k := range ks.GetKey() {
		ok, pan := ParseOk(k)
		if pan != "" && pans != nil {
			*pans = append(*pans, fmt.Sprintf("key %d: %s", i, pan))
		}
		ss[i] = fmt.Sprintf("%s:%d:%d:%d:%d:%s", hlib.B01(k.KeyData != nil), int32(k.GetKeyData().GetKeyMaterialType()),
			int32(k.GetStatus()), k.GetKeyId(), int32(k.GetOutputPrefixType()), hlib.B01(ok))
	}
	return strings.Join(ss, ";")
}

func statusCode(s keyset.KeyStatus) string {
	switch s {
	case keyset.Enabled:
		return "E"
	case keyset.Disabled:
		return "D"
	case keyset.Destroyed:
		return "X"
	}
	return "U"
}

// HandleRes prints a handle through its public API (Len/Entry) in the driver's format.
func HandleRes(h *keyset.Handle, err error) string {
	if err != nil || h == nil {
		return "err"
	}
	ss := make([]string, h.Len())
	for i := 0; i < h.Len(); i++ {
		e, err := h.Entry(i)
		if err != nil {
			return "entry-error"
		}
		ss[i] = fmt.Sprintf("%d:%s:%s", e.KeyID(), statusCode(e.KeyStatus()), hlib.B01(e.IsPrimary()))
	}
	return "ok " + strings.Join(ss, ";")
}

// WellFormed is the property oracle on an accepted handle: >=1 key, distinct ids, exactly one
// primary, which is ENABLED and is what Primary() returns, only known statuses, and only known
// prefix types (read back from KeysetInfo). Returns "" if well-formed.
func WellFormed(h *keyset.Handle) string {
	if h == nil {
		return "nil handle without error"
	}
	if h.Len() < 1 {
		return "accepted handle has no keys"
	}
	seen := map[uint32]bool{}
	np := 0
	var prim uint32
	for i := 0; i < h.Len(); i++ {
		e, err := h.Entry(i)
		if err != nil {
			return fmt.Sprintf("Entry(%d): %v", i, err)
		}
		if seen[e.KeyID()] {
			return fmt.Sprintf("duplicate key id %d", e.KeyID())
		}
		seen[e.KeyID()] = true
		switch e.KeyStatus() {
		case keyset.Enabled, keyset.Disabled, keyset.Destroyed:
		default:
			return fmt.Sprintf("key %d has unknown status %v", e.KeyID(), e.KeyStatus())
		}
		if e.IsPrimary() {
			np++
			prim = e.KeyID()
			if e.KeyStatus() != keyset.Enabled {
				return fmt.Sprintf("primary key %d is not ENABLED", e.KeyID())
			}
		}
	}
	if np != 1 {
		return fmt.Sprintf("%d primary entries", np)
	}
	pe, err := h.Primary()
	if err != nil {
		return "Primary(): " + err.Error()
	}
	if pe.KeyID() != prim || !pe.IsPrimary() || pe.KeyStatus() != keyset.Enabled {
		return "Primary() is not the ENABLED primary entry"
	}
	var info *tinkpb.KeysetInfo
	if p := hlib.Recover(func() { info = h.KeysetInfo() }); p != "" {
		return "KeysetInfo() panicked: " + p
	}
	if info.GetPrimaryKeyId() != prim || len(info.GetKeyInfo()) != h.Len() {
		return "KeysetInfo() disagrees with the entries"
	}
	for _, ki := range info.GetKeyInfo() {
		switch ki.GetOutputPrefixType() {
		case tinkpb.OutputPrefixType_TINK, tinkpb.OutputPrefixType_LEGACY, tinkpb.OutputPrefixType_RAW, tinkpb.OutputPrefixType_CRUNCHY,
			tinkpb.OutputPrefixType_WITH_ID_REQUIREMENT: // 5: a defined prefix type (ML-DSA prehash variant), admitted by keyset.Validate since fix 31ba220
		default:
			return fmt.Sprintf("key %d has unknown prefix type %v", ki.GetKeyId(), ki.GetOutputPrefixType())
		}
		switch ki.GetStatus() {
		case tinkpb.KeyStatusType_ENABLED, tinkpb.KeyStatusType_DISABLED, tinkpb.KeyStatusType_DESTROYED:
		default:
			return fmt.Sprintf("key %d has unknown status %v in KeysetInfo", ki.GetKeyId(), ki.GetStatus())
		}
	}
	return ""
}

// Hex dumps the marshalled keyset for violation reports (prototext-free, reproducible).
func Hex(ks *tinkpb.Keyset) string {
	if ks == nil {
		return "<nil keyset>"
	}
	var b []byte
	var err error
	if p := hlib.Recover(func() { b, err = proto.Marshal(ks) }); p != "" || err != nil {
		return fmt.Sprintf("<unmarshallable: %v %s>", err, p)
	}
	return hex.EncodeToString(b)
}

// Clone returns a deep copy (nil-safe).
func Clone(ks *tinkpb.Keyset) *tinkpb.Keyset {
	if ks == nil {
		return nil
	}
	return proto.Clone(ks).(*tinkpb.Keyset)
}

// ReadMem is insecurecleartextkeyset.Read over a MemReaderWriter holding a copy of ks.
func ReadMem(ks *tinkpb.Keyset) (h *keyset.Handle, err error, pan string) {
	pan = hlib.Recover(func() {
		h, err = insecurecleartextkeyset.Read(&keyset.MemReaderWriter{Keyset: Clone(ks)})
	})
	return
}

// ReadBinary is insecurecleartextkeyset.Read over keyset.NewBinaryReader.
func ReadBinary(b []byte) (h *keyset.Handle, err error, pan string) {
	pan = hlib.Recover(func() {
		h, err = insecurecleartextkeyset.Read(keyset.NewBinaryReader(bytes.NewReader(b)))
	})
	return
}

// ReadJSON is insecurecleartextkeyset.Read over keyset.NewJSONReader.
func ReadJSON(b []byte) (h *keyset.Handle, err error, pan string) {
	pan = hlib.Recover(func() {
		h, err = insecurecleartextkeyset.Read(keyset.NewJSONReader(bytes.NewReader(b)))
	})
	return
}

// JSONOf renders ks as JSON, alternately with the library's JSONWriter (EmitUnpopulated) and
// with plain protojson.
func JSONOf(ks *tinkpb.Keyset, viaWriter bool) ([]byte, error) {
	if viaWriter {
		var buf bytes.Buffer
		if err := keyset.NewJSONWriter(&buf).Write(ks); err != nil {
			return nil, err
		}
		return buf.Bytes(), nil
	}
	return protojson.Marshal(ks)
}

// Secrets returns the secret key material of ks: KeyData.Value of every key whose material type
// is not ASYMMETRIC_PUBLIC / REMOTE, plus nested secret byte fields reachable by reflection.
func Secrets(ks *tinkpb.Keyset) [][]byte {
	var out [][]byte
	for _, k := range ks.GetKey() {
		kd := k.GetKeyData()
		switch kd.GetKeyMaterialType() {
		case tinkpb.KeyData_ASYMMETRIC_PUBLIC, tinkpb.KeyData_REMOTE:
			continue
		}
		if len(kd.GetValue()) >= 8 {
			out = append(out, kd.GetValue())
		}
	}
	return out
}
