//go:build verif

package kslib

import (
	"github.com/tink-crypto/tink-go/v2/internal/verifharness/hlib"
	"google.golang.org/protobuf/proto"
	"google.golang.org/protobuf/reflect/protoreflect"

	tinkpb "github.com/tink-crypto/tink-go/v2/proto/tink_go_proto"
)

// Systematic length mutations of key material (added after the random mutator of mutate.go, which
// is unchanged: the streams of MutateInner / MutatePoint / Mismatch stay what they were).
//
// LenKinds lists the kinds, in the order the systematic passes apply them.
var LenKinds = []string{"len-extend1", "len-prepend-zero", "len-extend32", "len-double", "len-truncate1", "len-half", "len-empty"}

// LenMutate applies one length mutation to b (ok=false if the kind changes nothing, e.g. halving
// an empty string). Extension bytes come from rng.
func LenMutate(rng *hlib.Rng, b []byte, kind string) (out []byte, ok bool) {
	c := append([]byte{}, b...)
	switch kind {
	case "len-extend1":
		return append(c, byte(rng.U64()|1)), true // never 0: a trailing zero of a big-endian number is a different number anyway
	case "len-prepend-zero":
		return append([]byte{0}, c...), true
	case "len-extend32":
		return append(c, rng.Bytes(32)...), true
	case "len-double":
		if len(c) == 0 {
			return nil, false
		}
		return append(c, b...), true
	case "len-truncate1":
		if len(c) == 0 {
			return nil, false
		}
		return c[:len(c)-1], true
	case "len-half":
		if len(c) < 2 {
			return nil, false
		}
		return c[:len(c)/2], true
	case "len-empty":
		if len(c) == 0 {
			return nil, false
		}
		return []byte{}, true
	}
	return nil, false
}

// BytesField names one bytes field of a key proto: Path is dotted below the key proto, with "/"
// where the walk enters a key or key format serialized inside a KeyData / KeyTemplate
// (e.g. "public_key.x", "prf_key/key_value", "public_key.params.dem_params.aead_dem/…").
type BytesField struct {
	Path string
	Len  int
}

// walkBytes visits every singular bytes field reachable from m (declared fields, populated or
// not), descending into populated sub-messages and into the protos serialized in KeyData /
// KeyTemplate values. f returns true once it has changed the field; enclosing serialized values
// are then re-marshalled and the walk stops.
func walkBytes(m protoreflect.Message, path string, depth int, f func(m protoreflect.Message, fd protoreflect.FieldDescriptor, path string) bool) bool {
	if depth > 6 {
		return false
	}
	join := func(p, n string) string {
		if p == "" || p[len(p)-1] == '/' {
			return p + n
		}
		return p + "." + n
	}
	if isWrapper(m) {
		fu := m.Descriptor().Fields().ByName("type_url")
		fv := m.Descriptor().Fields().ByName("value")
		in := Inner(m.Get(fu).String(), m.Get(fv).Bytes())
		if in == nil {
			return f(m, fv, join(path, "value"))
		}
		sub := path
		if sub != "" {
			sub += "/"
		}
		if walkBytes(in, sub, depth+1, f) {
			b, err := proto.MarshalOptions{AllowPartial: true}.Marshal(in.Interface())
			if err != nil {
				return false
			}
			m.Set(fv, protoreflect.ValueOfBytes(b))
			return true
		}
		return false
	}
	fds := m.Descriptor().Fields()
	for i := 0; i < fds.Len(); i++ {
		fd := fds.Get(i)
		if fd.IsList() || fd.IsMap() {
			continue
		}
		switch fd.Kind() {
		case protoreflect.BytesKind:
			if f(m, fd, join(path, string(fd.Name()))) {
				return true
			}
		case protoreflect.MessageKind:
			if m.Has(fd) && walkBytes(m.Mutable(fd).Message(), join(path, string(fd.Name())), depth+1, f) {
				return true
			}
		}
	}
	return false
}

// BytesFields lists every bytes field of the key proto in kd, nested ones included.
func BytesFields(kd *tinkpb.KeyData) []BytesField {
	var out []BytesField
	if kd == nil {
		return nil
	}
	c := proto.Clone(kd).(*tinkpb.KeyData)
	walkBytes(c.ProtoReflect(), "", 0, func(m protoreflect.Message, fd protoreflect.FieldDescriptor, path string) bool {
		out = append(out, BytesField{Path: path, Len: len(m.Get(fd).Bytes())})
		return false
	})
	return out
}

// MutateLenAt applies the length mutation kind to the bytes field at path and re-marshals the key
// proto. It returns the label "<kind>:<path>" ("" if the field does not exist or the kind does
// not apply).
func MutateLenAt(rng *hlib.Rng, kd *tinkpb.KeyData, path, kind string) string {
	label := ""
	walkBytes(kd.ProtoReflect(), "", 0, func(m protoreflect.Message, fd protoreflect.FieldDescriptor, p string) bool {
		if p != path {
			return false
		}
		b, ok := LenMutate(rng, m.Get(fd).Bytes(), kind)
		if !ok {
			return false
		}
		m.Set(fd, protoreflect.ValueOfBytes(b))
		label = kind + ":" + path
		return true
	})
	return label
}

// MutateLen applies a random length mutation to a random bytes field of the key proto.
func MutateLen(rng *hlib.Rng, kd *tinkpb.KeyData) string {
	fs := BytesFields(kd)
	if len(fs) == 0 {
		return ""
	}
	for try := 0; try < 4; try++ {
		f := fs[rng.Intn(len(fs))]
		if f.Len == 0 && try < 3 {
			continue // prefer populated fields
		}
		if l := MutateLenAt(rng, kd, f.Path, LenKinds[rng.Intn(len(LenKinds))]); l != "" {
			return l
		}
	}
	return ""
}
