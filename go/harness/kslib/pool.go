//go:build verif

// Package kslib is shared by the keyset-level harnesses c13 and c14: a pool of valid proto keys
// of every key type, the line-protocol encoding of proto keysets for the Lean keyset model
// (TinkVerif/Model/Keyset.lean), the per-key parser oracle and the handle well-formedness oracle.
package kslib

import (
	"bytes"
	"encoding/base64"
	"fmt"
	"strings"

	"github.com/tink-crypto/tink-go/v2/aead"
	"github.com/tink-crypto/tink-go/v2/aead/xchacha20poly1305"
	"github.com/tink-crypto/tink-go/v2/core/registry"
	"github.com/tink-crypto/tink-go/v2/daead"
	"github.com/tink-crypto/tink-go/v2/daead/aessiv"
	"github.com/tink-crypto/tink-go/v2/hybrid"
	"github.com/tink-crypto/tink-go/v2/hybrid/ecies"
	"github.com/tink-crypto/tink-go/v2/hybrid/hpke"
	"github.com/tink-crypto/tink-go/v2/insecurecleartextkeyset"
	"github.com/tink-crypto/tink-go/v2/jwt"
	"github.com/tink-crypto/tink-go/v2/jwt/jwtmldsa"
	"github.com/tink-crypto/tink-go/v2/key"
	"github.com/tink-crypto/tink-go/v2/keyderivation"
	"github.com/tink-crypto/tink-go/v2/keyset"
	"github.com/tink-crypto/tink-go/v2/mac"
	"github.com/tink-crypto/tink-go/v2/prf"
	"github.com/tink-crypto/tink-go/v2/signature"
	"github.com/tink-crypto/tink-go/v2/signature/compositemldsa"
	"github.com/tink-crypto/tink-go/v2/signature/mldsa"
	"github.com/tink-crypto/tink-go/v2/signature/slhdsa"
	"github.com/tink-crypto/tink-go/v2/streamingaead"
	"github.com/tink-crypto/tink-go/v2/testing/fakekms"
	"google.golang.org/protobuf/proto"

	tinkpb "github.com/tink-crypto/tink-go/v2/proto/tink_go_proto"
)

// PoolKey is one valid proto key produced by the library's own key generation.
type PoolKey struct {
	Name   string // template / parameter name
	Class  string // primitive class: aead daead mac sig sigpub hyb hybpub saead prf jwtmac jwtsig jwtsigpub kd
	Type   string // last component of the type URL
	KD     *tinkpb.KeyData
	Prefix tinkpb.OutputPrefixType
	Pub    int // index of the public counterpart, -1 if none
	Priv   int // index of the private counterpart, -1 if none
	Slow   bool
	Alt    *tinkpb.KeyData // private keys: a second, independent key from the same template
}

// Secret reports whether the key data carries secret material (as produced by the library).
func (p *PoolKey) Secret() bool {
	m := p.KD.GetKeyMaterialType()
	return m == tinkpb.KeyData_SYMMETRIC || m == tinkpb.KeyData_ASYMMETRIC_PRIVATE
}

type Pool struct {
	Keys    []*PoolKey
	ByClass map[string][]int
	Classes []string
	Skipped []string // key types that could not be generated, with the reason
}

type src struct {
	name, class string
	tmpl        *tinkpb.KeyTemplate
	params      func() (key.Parameters, error)
	slow        bool
}

// TypeOfURL returns the last component of a type URL.
func TypeOfURL(url string) string { return typeOf(url) }

func typeOf(url string) string {
	if i := strings.LastIndex(url, "."); i >= 0 {
		return url[i+1:]
	}
	return url
}

func (p *Pool) add(k *PoolKey) int {
	p.Keys = append(p.Keys, k)
	i := len(p.Keys) - 1
	if _, ok := p.ByClass[k.Class]; !ok {
		p.Classes = append(p.Classes, k.Class)
	}
	p.ByClass[k.Class] = append(p.ByClass[k.Class], i)
	return i
}

func (p *Pool) gen(s src) {
	h, err := newHandle(s)
	if err != nil || h == nil {
		p.Skipped = append(p.Skipped, fmt.Sprintf("%s: %v", s.name, err))
		return
	}
	ks := insecurecleartextkeyset.KeysetMaterial(h)
	k0 := ks.GetKey()[0]
	pk := &PoolKey{Name: s.name, Class: s.class, Type: typeOf(k0.GetKeyData().GetTypeUrl()),
		KD: proto.Clone(k0.GetKeyData()).(*tinkpb.KeyData), Prefix: k0.GetOutputPrefixType(), Pub: -1, Priv: -1, Slow: s.slow}
	i := p.add(pk)
	if k0.GetKeyData().GetKeyMaterialType() == tinkpb.KeyData_ASYMMETRIC_PRIVATE {
		if h2, err := newHandle(s); err == nil && h2 != nil {
			pk.Alt = proto.Clone(insecurecleartextkeyset.KeysetMaterial(h2).GetKey()[0].GetKeyData()).(*tinkpb.KeyData)
		}
		ph, err := h.Public()
		if err != nil {
			p.Skipped = append(p.Skipped, fmt.Sprintf("%s public: %v", s.name, err))
			return
		}
		pks := insecurecleartextkeyset.KeysetMaterial(ph)
		q0 := pks.GetKey()[0]
		qk := &PoolKey{Name: s.name + ".pub", Class: s.class + "pub", Type: typeOf(q0.GetKeyData().GetTypeUrl()),
			KD: proto.Clone(q0.GetKeyData()).(*tinkpb.KeyData), Prefix: q0.GetOutputPrefixType(), Pub: -1, Priv: i, Slow: s.slow}
		j := p.add(qk)
		pk.Pub = j
	}
}

func newHandle(s src) (*keyset.Handle, error) {
	var h *keyset.Handle
	var err error
	if pe := recoverErr(func() {
		if s.tmpl != nil {
			h, err = keyset.NewHandle(s.tmpl)
		} else {
			var ps key.Parameters
			ps, err = s.params()
			if err != nil {
				return
			}
			km := keyset.NewManager()
			var id uint32
			id, err = km.AddNewKeyFromParameters(ps)
			if err != nil {
				return
			}
			if err = km.SetPrimary(id); err != nil {
				return
			}
			h, err = km.Handle()
		}
	}); pe != "" {
		err = fmt.Errorf("panic: %s", pe)
	}
	return h, err
}

func recoverErr(f func()) (p string) {
	defer func() {
		if r := recover(); r != nil {
			p = fmt.Sprint(r)
		}
	}()
	f()
	return ""
}

// KEKURI is the fake-KMS key URI behind the KMS envelope AEAD pool key.
var KEKURI string

func setupFakeKMS() error {
	h, err := keyset.NewHandle(aead.AES128GCMKeyTemplate())
	if err != nil {
		return err
	}
	var buf bytes.Buffer
	if err := insecurecleartextkeyset.Write(h, keyset.NewBinaryWriter(&buf)); err != nil {
		return err
	}
	KEKURI = "fake-kms://" + base64.RawURLEncoding.EncodeToString(buf.Bytes())
	c, err := fakekms.NewClient("fake-kms://")
	if err != nil {
		return err
	}
	registry.RegisterKMSClient(c)
	return nil
}

func withPrefix(t *tinkpb.KeyTemplate, p tinkpb.OutputPrefixType) *tinkpb.KeyTemplate {
	c := proto.Clone(t).(*tinkpb.KeyTemplate)
	c.OutputPrefixType = p
	return c
}

// BuildPool generates one key per template / parameter set. full=false leaves out the slowest
// generators (RSA 4096).
func BuildPool() *Pool {
	p := &Pool{ByClass: map[string][]int{}}
	T := func(name, class string, t *tinkpb.KeyTemplate) src { return src{name: name, class: class, tmpl: t} }
	P := func(name, class string, f func() (key.Parameters, error)) src {
		return src{name: name, class: class, params: f}
	}
	srcs := []src{
		T("AES128GCM", "aead", aead.AES128GCMKeyTemplate()),
		T("AES256GCM", "aead", aead.AES256GCMKeyTemplate()),
		T("AES256GCM-raw", "aead", aead.AES256GCMNoPrefixKeyTemplate()),
		T("AES128GCM-crunchy", "aead", withPrefix(aead.AES128GCMKeyTemplate(), tinkpb.OutputPrefixType_CRUNCHY)),
		T("XAES256GCM192", "aead", aead.XAES256GCM192BitNonceKeyTemplate()),
		T("XAES256GCM160-raw", "aead", aead.XAES256GCM160BitNonceNoPrefixKeyTemplate()),
		T("AES128GCMSIV", "aead", aead.AES128GCMSIVKeyTemplate()),
		T("AES256GCMSIV-raw", "aead", aead.AES256GCMSIVNoPrefixKeyTemplate()),
		T("AES128CTRHMACSHA256", "aead", aead.AES128CTRHMACSHA256KeyTemplate()),
		T("AES256CTRHMACSHA256", "aead", aead.AES256CTRHMACSHA256KeyTemplate()),
		T("ChaCha20Poly1305", "aead", aead.ChaCha20Poly1305KeyTemplate()),
		T("XChaCha20Poly1305", "aead", aead.XChaCha20Poly1305KeyTemplate()),
		T("HMACSHA256Tag128", "mac", mac.HMACSHA256Tag128KeyTemplate()),
		T("HMACSHA256Tag256", "mac", mac.HMACSHA256Tag256KeyTemplate()),
		T("HMACSHA512Tag256", "mac", mac.HMACSHA512Tag256KeyTemplate()),
		T("HMACSHA512Tag512-legacy", "mac", withPrefix(mac.HMACSHA512Tag512KeyTemplate(), tinkpb.OutputPrefixType_LEGACY)),
		T("AESCMACTag128", "mac", mac.AESCMACTag128KeyTemplate()),
		T("AESSIV", "daead", daead.AESSIVKeyTemplate()),
		T("AESSIV-raw", "daead", withPrefix(daead.AESSIVKeyTemplate(), tinkpb.OutputPrefixType_RAW)),
		T("ECDSAP256", "sig", signature.ECDSAP256KeyTemplate()),
		T("ECDSAP256-raw", "sig", signature.ECDSAP256RawKeyTemplate()),
		T("ECDSAP256-noprefix", "sig", signature.ECDSAP256KeyWithoutPrefixTemplate()),
		T("ECDSAP384SHA384", "sig", signature.ECDSAP384SHA384KeyTemplate()),
		T("ECDSAP384SHA512", "sig", signature.ECDSAP384SHA512KeyTemplate()),
		T("ECDSAP521", "sig", signature.ECDSAP521KeyTemplate()),
		T("ECDSAP256-legacy", "sig", withPrefix(signature.ECDSAP256KeyTemplate(), tinkpb.OutputPrefixType_LEGACY)),
		T("ED25519", "sig", signature.ED25519KeyTemplate()),
		T("ED25519-raw", "sig", signature.ED25519KeyWithoutPrefixTemplate()),
		{name: "RSASSAPKCS1-3072-SHA256", class: "sig", tmpl: signature.RSA_SSA_PKCS1_3072_SHA256_F4_Key_Template(), slow: false},
		{name: "RSASSAPSS-3072-SHA256-raw", class: "sig", tmpl: signature.RSA_SSA_PSS_3072_SHA256_32_F4_Raw_Key_Template(), slow: false},
		P("MLDSA65", "sig", func() (key.Parameters, error) { return mldsa.NewParameters(mldsa.MLDSA65, mldsa.VariantTink) }),
		P("MLDSA44", "sig", func() (key.Parameters, error) { return mldsa.NewParameters(mldsa.MLDSA44, mldsa.VariantTink) }),
		T("ECDSAP384-DER-raw", "sig", signature.ECDSAP384KeyWithoutPrefixTemplate()),
		T("ECDSAP521-raw", "sig", signature.ECDSAP521KeyWithoutPrefixTemplate()),
		{name: "SLHDSA-SHAKE-128f-raw", class: "sig", slow: true, params: func() (key.Parameters, error) {
			return slhdsa.NewParameters(slhdsa.SHAKE, 64, slhdsa.FastSigning, slhdsa.VariantNoPrefix)
		}},
		P("CompositeMLDSA65-ECDSAP256", "sig", func() (key.Parameters, error) {
			return compositemldsa.NewParameters(compositemldsa.ECDSAP256, compositemldsa.MLDSA65, compositemldsa.VariantTink)
		}),
		P("MLDSA87-raw", "sig", func() (key.Parameters, error) { return mldsa.NewParameters(mldsa.MLDSA87, mldsa.VariantNoPrefix) }),
		{name: "SLHDSA-SHA2-128s", class: "sig", slow: true, params: func() (key.Parameters, error) {
			return slhdsa.NewParameters(slhdsa.SHA2, 64, slhdsa.SmallSignature, slhdsa.VariantTink)
		}},
		P("CompositeMLDSA65-Ed25519", "sig", func() (key.Parameters, error) {
			return compositemldsa.NewParameters(compositemldsa.Ed25519, compositemldsa.MLDSA65, compositemldsa.VariantTink)
		}),
		P("CompositeMLDSA87-ECDSAP384-raw", "sig", func() (key.Parameters, error) {
			return compositemldsa.NewParameters(compositemldsa.ECDSAP384, compositemldsa.MLDSA87, compositemldsa.VariantNoPrefix)
		}),
		T("HPKE-P256-AES128GCM", "hyb", hybrid.DHKEM_P256_HKDF_SHA256_HKDF_SHA256_AES_128_GCM_Key_Template()),
		T("HPKE-X25519-AES256GCM-raw", "hyb", hybrid.DHKEM_X25519_HKDF_SHA256_HKDF_SHA256_AES_256_GCM_Raw_Key_Template()),
		T("HPKE-X25519-CHACHA", "hyb", hybrid.DHKEM_X25519_HKDF_SHA256_HKDF_SHA256_CHACHA20_POLY1305_Key_Template()),
		T("ECIES-P256-AES128GCM", "hyb", hybrid.ECIESHKDFAES128GCMKeyTemplate()),
		T("ECIES-P256-AES128CTRHMAC", "hyb", hybrid.ECIESHKDFAES128CTRHMACSHA256KeyTemplate()),
		P("HPKE-P384-SHA384-AES256GCM", "hyb", func() (key.Parameters, error) {
			return hpke.NewParameters(hpke.ParametersOpts{KEMID: hpke.DHKEM_P384_HKDF_SHA384, KDFID: hpke.HKDFSHA384, AEADID: hpke.AES256GCM, Variant: hpke.VariantTink})
		}),
		P("HPKE-P521-SHA512-CHACHA-crunchy", "hyb", func() (key.Parameters, error) {
			return hpke.NewParameters(hpke.ParametersOpts{KEMID: hpke.DHKEM_P521_HKDF_SHA512, KDFID: hpke.HKDFSHA512, AEADID: hpke.ChaCha20Poly1305, Variant: hpke.VariantCrunchy})
		}),
		P("HPKE-XWING-AES128GCM-raw", "hyb", func() (key.Parameters, error) {
			return hpke.NewParameters(hpke.ParametersOpts{KEMID: hpke.X_WING, KDFID: hpke.HKDFSHA256, AEADID: hpke.AES128GCM, Variant: hpke.VariantNoPrefix})
		}),
		P("HPKE-MLKEM768-AES256GCM", "hyb", func() (key.Parameters, error) {
			return hpke.NewParameters(hpke.ParametersOpts{KEMID: hpke.ML_KEM768, KDFID: hpke.HKDFSHA256, AEADID: hpke.AES256GCM, Variant: hpke.VariantTink})
		}),
		P("HPKE-MLKEM1024-AES256GCM-raw", "hyb", func() (key.Parameters, error) {
			return hpke.NewParameters(hpke.ParametersOpts{KEMID: hpke.ML_KEM1024, KDFID: hpke.HKDFSHA384, AEADID: hpke.AES256GCM, Variant: hpke.VariantNoPrefix})
		}),
		P("ECIES-X25519-XCHACHA-raw", "hyb", func() (key.Parameters, error) {
			dem, err := xchacha20poly1305.NewParameters(xchacha20poly1305.VariantNoPrefix)
			if err != nil {
				return nil, err
			}
			return ecies.NewParameters(ecies.ParametersOpts{CurveType: ecies.X25519, HashType: ecies.SHA256, DEMParameters: dem, Variant: ecies.VariantNoPrefix})
		}),
		P("ECIES-P521-compressed-AESSIV", "hyb", func() (key.Parameters, error) {
			dem, err := aessiv.NewParameters(64, aessiv.VariantNoPrefix)
			if err != nil {
				return nil, err
			}
			return ecies.NewParameters(ecies.ParametersOpts{CurveType: ecies.NISTP521, HashType: ecies.SHA512, NISTCurvePointFormat: ecies.CompressedPointFormat,
				DEMParameters: dem, Salt: []byte("ecies salt"), Variant: ecies.VariantTink})
		}),
		T("AES128GCMHKDF4KB", "saead", streamingaead.AES128GCMHKDF4KBKeyTemplate()),
		T("AES256GCMHKDF4KB", "saead", streamingaead.AES256GCMHKDF4KBKeyTemplate()),
		T("AES128CTRHMACSHA256Segment4KB", "saead", streamingaead.AES128CTRHMACSHA256Segment4KBKeyTemplate()),
		T("AES256CTRHMACSHA256Segment4KB", "saead", streamingaead.AES256CTRHMACSHA256Segment4KBKeyTemplate()),
		T("HMACSHA256PRF", "prf", prf.HMACSHA256PRFKeyTemplate()),
		T("HMACSHA512PRF", "prf", prf.HMACSHA512PRFKeyTemplate()),
		T("HKDFSHA256PRF", "prf", prf.HKDFSHA256PRFKeyTemplate()),
		T("AESCMACPRF", "prf", prf.AESCMACPRFKeyTemplate()),
		T("JWT-HS256", "jwtmac", jwt.HS256Template()),
		T("JWT-HS384-raw", "jwtmac", jwt.RawHS384Template()),
		T("JWT-HS512", "jwtmac", jwt.HS512Template()),
		T("JWT-ES256", "jwtsig", jwt.ES256Template()),
		T("JWT-ES384-raw", "jwtsig", jwt.RawES384Template()),
		T("JWT-ES512", "jwtsig", jwt.ES512Template()),
		T("JWT-RS256-2048", "jwtsig", jwt.RS256_2048_F4_Key_Template()),
		T("JWT-PS256-2048-raw", "jwtsig", jwt.RawPS256_2048_F4_Key_Template()),
		P("JWT-MLDSA65", "jwtsig", func() (key.Parameters, error) {
			return jwtmldsa.NewParameters(jwtmldsa.Base64EncodedKeyIDAsKID, jwtmldsa.MLDSA65)
		}),
		P("JWT-MLDSA44-raw", "jwtsig", func() (key.Parameters, error) {
			return jwtmldsa.NewParameters(jwtmldsa.IgnoredKID, jwtmldsa.MLDSA44)
		}),
	}
	if kt, err := keyderivation.CreatePRFBasedKeyTemplate(prf.HKDFSHA256PRFKeyTemplate(), aead.AES128GCMKeyTemplate()); err == nil {
		srcs = append(srcs, T("PRFDeriver-HKDF-AES128GCM", "kd", kt))
	} else {
		p.Skipped = append(p.Skipped, "PRFDeriver-HKDF-AES128GCM: "+err.Error())
	}
	if kt, err := keyderivation.CreatePRFBasedKeyTemplate(prf.HKDFSHA256PRFKeyTemplate(), mac.HMACSHA256Tag128KeyTemplate()); err == nil {
		srcs = append(srcs, T("PRFDeriver-HKDF-HMAC", "kd", kt))
	}
	if kt, err := keyderivation.CreatePRFBasedKeyTemplate(prf.HKDFSHA256PRFKeyTemplate(), withPrefix(aead.XChaCha20Poly1305KeyTemplate(), tinkpb.OutputPrefixType_RAW)); err == nil {
		srcs = append(srcs, T("PRFDeriver-HKDF-XChaCha-raw", "kd", kt))
	}
	if err := setupFakeKMS(); err == nil {
		if kt, err := aead.CreateKMSEnvelopeAEADKeyTemplate(KEKURI, aead.AES128GCMKeyTemplate()); err == nil {
			srcs = append(srcs, T("KMSEnvelope-fakekms-AES128GCM", "aead", kt))
		}
	} else {
		p.Skipped = append(p.Skipped, "KMSEnvelope: "+err.Error())
	}
	for _, s := range srcs {
		p.gen(s)
	}
	return p
}
