//go:build verif

package kslib

import (
	"crypto/rand"

	"github.com/tink-crypto/tink-go/v2/internal/verifharness/hlib"
)

// detRand replaces crypto/rand.Reader by a seeded stream so that the generated keys (and with
// them every harness line) are functions of the seed. The standard library's key generators call
// randutil.MaybeReadByte, which consumes one byte from the reader with probability 1/2 precisely
// to defeat this; single-byte reads are therefore served from a separate stream and leave the
// main stream untouched.
type detRand struct{ main, single *hlib.Rng }

func (d *detRand) Read(p []byte) (int, error) {
	if len(p) == 1 {
		p[0] = byte(d.single.U64())
		return 1, nil
	}
	copy(p, d.main.Bytes(len(p)))
	return len(p), nil
}

// InstallDetRand installs the deterministic reader.
func InstallDetRand(seed uint64) {
	rand.Reader = &detRand{main: hlib.NewRng(seed, "detrand-main"), single: hlib.NewRng(seed, "detrand-single")}
}
