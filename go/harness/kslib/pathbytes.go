//go:build verif

package kslib

import (
	"google.golang.org/protobuf/reflect/protoreflect"

	tinkpb "github.com/tink-crypto/tink-go/v2/proto/tink_go_proto"
)

// Path-addressed access to the bytes fields of a key proto (paths as listed by BytesFields: dotted,
// with "/" where a key serialized inside a KeyData / KeyTemplate is entered). Added for the
// structured-mismatch pass of c14; uses the walker of lenmut.go and changes nothing else.

// GetBytesAt returns a copy of the bytes field at path (ok=false if there is no such field).
func GetBytesAt(kd *tinkpb.KeyData, path string) (out []byte, ok bool) {
	if kd == nil {
		return nil, false
	}
	walkBytes(kd.ProtoReflect(), "", 0, func(m protoreflect.Message, fd protoreflect.FieldDescriptor, p string) bool {
		if p == path && !ok {
			out, ok = append([]byte{}, m.Get(fd).Bytes()...), true
		}
		return false
	})
	return out, ok
}

// SetBytesAt overwrites the bytes field at path and re-marshals the enclosing serialized values.
func SetBytesAt(kd *tinkpb.KeyData, path string, b []byte) bool {
	if kd == nil {
		return false
	}
	return walkBytes(kd.ProtoReflect(), "", 0, func(m protoreflect.Message, fd protoreflect.FieldDescriptor, p string) bool {
		if p != path {
			return false
		}
		m.Set(fd, protoreflect.ValueOfBytes(append([]byte{}, b...)))
		return true
	})
}
