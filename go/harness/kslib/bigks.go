//go:build verif

package kslib

// Builders for large keysets (harness c13 round r3b): many keys (65 .. 65537) and large
// serializations (64 KiB .. tens of MiB, exact sizes), made from pool keys re-used under fresh ids
// plus padding keys whose value length is chosen freely. All randomness comes from the *hlib.Rng
// handed in; nothing here touches crypto/rand or the streams of the other kslib functions.

import (
	"fmt"
	"strings"

	"github.com/tink-crypto/tink-go/v2/internal/verifharness/hlib"
	"google.golang.org/protobuf/proto"
	"google.golang.org/protobuf/reflect/protoreflect"

	tinkpb "github.com/tink-crypto/tink-go/v2/proto/tink_go_proto"
)

// OpaqueURL is a type URL no key manager or parser knows: such a key is kept as an opaque
// (fallback) key; with material ASYMMETRIC_PUBLIC / REMOTE it is not secret.
const OpaqueURL = "type.googleapis.com/verif.Opaque"

// CheapPublic returns the pool's public / remote keys that are small and fast to parse (value of
// at most maxValue bytes, not flagged slow).
func CheapPublic(pool *Pool, maxValue int) []*PoolKey {
	var out []*PoolKey
	for _, pk := range pool.Keys {
		if !pk.Secret() && !pk.Slow && len(pk.KD.GetValue()) <= maxValue {
			out = append(out, pk)
		}
	}
	return out
}

// CheapSecret returns the pool's symmetric (private=false) or private (private=true) keys with a
// value of at most maxValue bytes, not flagged slow.
func CheapSecret(pool *Pool, private bool, maxValue int) []*PoolKey {
	var out []*PoolKey
	want := tinkpb.KeyData_SYMMETRIC
	if private {
		want = tinkpb.KeyData_ASYMMETRIC_PRIVATE
	}
	for _, pk := range pool.Keys {
		if pk.KD.GetKeyMaterialType() == want && !pk.Slow && len(pk.KD.GetValue()) <= maxValue {
			out = append(out, pk)
		}
	}
	return out
}

// PoolByName returns the pool key with that name (nil if the generator was skipped).
func PoolByName(pool *Pool, name string) *PoolKey {
	for _, pk := range pool.Keys {
		if pk.Name == name {
			return pk
		}
	}
	return nil
}

// IDSet hands out distinct key ids.
type IDSet struct {
	rng  *hlib.Rng
	used map[uint32]bool
}

func NewIDSet(rng *hlib.Rng) *IDSet { return &IDSet{rng: rng, used: map[uint32]bool{}} }

func (s *IDSet) New() uint32 {
	for {
		id := s.rng.KeyID()
		if !s.used[id] {
			s.used[id] = true
			return id
		}
	}
}

// BigStatus: ENABLED mostly, DISABLED 12 %, DESTROYED 8 %.
func BigStatus(rng *hlib.Rng) tinkpb.KeyStatusType {
	switch r := rng.Intn(100); {
	case r < 12:
		return tinkpb.KeyStatusType_DISABLED
	case r < 20:
		return tinkpb.KeyStatusType_DESTROYED
	}
	return tinkpb.KeyStatusType_ENABLED
}

// BigEntry is a keyset entry holding a copy of a pool key under a fresh id.
func BigEntry(ids *IDSet, pk *PoolKey, st tinkpb.KeyStatusType) *tinkpb.Keyset_Key {
	return &tinkpb.Keyset_Key{KeyData: proto.Clone(pk.KD).(*tinkpb.KeyData), Status: st, KeyId: ids.New(), OutputPrefixType: pk.Prefix}
}

// BigKeyset makes n keys drawn from parts (uniformly) with distinct ids and mixed statuses; the
// primary is the ENABLED key at primaryAt (forced ENABLED; primaryAt < 0: a random position).
func BigKeyset(rng *hlib.Rng, ids *IDSet, parts []*PoolKey, n, primaryAt int) *tinkpb.Keyset {
	ks := &tinkpb.Keyset{}
	for i := 0; i < n; i++ {
		ks.Key = append(ks.Key, BigEntry(ids, parts[rng.Intn(len(parts))], BigStatus(rng)))
	}
	SetPrimaryAt(rng, ks, primaryAt)
	return ks
}

// SetPrimaryAt makes the key at position at (random if negative) the ENABLED primary.
func SetPrimaryAt(rng *hlib.Rng, ks *tinkpb.Keyset, at int) {
	if len(ks.Key) == 0 {
		return
	}
	if at < 0 || at >= len(ks.Key) {
		at = rng.Intn(len(ks.Key))
	}
	ks.Key[at].Status = tinkpb.KeyStatusType_ENABLED
	ks.PrimaryKeyId = ks.Key[at].KeyId
}

// PutKeyData replaces the key data at position pos (id kept) and sets prefix type and status.
func PutKeyData(ks *tinkpb.Keyset, pos int, kd *tinkpb.KeyData, prefix tinkpb.OutputPrefixType, st tinkpb.KeyStatusType) {
	k := ks.Key[pos]
	k.KeyData = proto.Clone(kd).(*tinkpb.KeyData)
	k.OutputPrefixType = prefix
	k.Status = st
}

// PadKinds are the ways a padding key is made: an unknown-type key labelled public / remote with
// arbitrary value bytes, or a KMS-envelope AEAD key (REMOTE) with a long key URI.
var PadKinds = []string{"opaque-public", "opaque-remote", "kms-envelope-remote"}

// PadKey makes a non-secret key whose KeyData.value has exactly n bytes (n >= 0; for
// kms-envelope-remote n must be at least the size of the template's value, else the result is
// the opaque-remote form). The bytes come from fill so that nothing of the pool's secret
// material occurs in them.
func PadKey(pool *Pool, kind string, id uint32, n int, fill func(n int) []byte) *tinkpb.Keyset_Key {
	k := &tinkpb.Keyset_Key{Status: tinkpb.KeyStatusType_ENABLED, KeyId: id, OutputPrefixType: tinkpb.OutputPrefixType_RAW}
	switch kind {
	case "kms-envelope-remote":
		for _, pk := range pool.Keys {
			if pk.KD.GetKeyMaterialType() != tinkpb.KeyData_REMOTE || !strings.HasSuffix(pk.KD.GetTypeUrl(), "KmsEnvelopeAeadKey") {
				continue
			}
			if v := padKMS(pk.KD, n); v != nil {
				k.KeyData = &tinkpb.KeyData{TypeUrl: pk.KD.GetTypeUrl(), Value: v, KeyMaterialType: tinkpb.KeyData_REMOTE}
				k.OutputPrefixType = pk.Prefix
				return k
			}
		}
		fallthrough
	case "opaque-remote":
		k.KeyData = &tinkpb.KeyData{TypeUrl: OpaqueURL, Value: fill(n), KeyMaterialType: tinkpb.KeyData_REMOTE}
	default:
		k.KeyData = &tinkpb.KeyData{TypeUrl: OpaqueURL, Value: fill(n), KeyMaterialType: tinkpb.KeyData_ASYMMETRIC_PUBLIC}
	}
	return k
}

// padKMS lengthens params.kek_uri of a KmsEnvelopeAeadKey until the serialized key has n bytes.
func padKMS(kd *tinkpb.KeyData, n int) []byte {
	in := Inner(kd.GetTypeUrl(), kd.GetValue())
	if in == nil {
		return nil
	}
	fp := in.Descriptor().Fields().ByName("params")
	if fp == nil || fp.Kind() != protoreflect.MessageKind {
		return nil
	}
	pm := in.Mutable(fp).Message()
	fu := pm.Descriptor().Fields().ByName("kek_uri")
	if fu == nil || fu.Kind() != protoreflect.StringKind {
		return nil
	}
	uri := pm.Get(fu).String()
	add := n - len(kd.GetValue())
	for try := 0; try < 8 && add >= 0; try++ {
		pm.Set(fu, protoreflect.ValueOfString(uri+strings.Repeat("A", add)))
		b, err := proto.MarshalOptions{Deterministic: true}.Marshal(in.Interface())
		if err != nil {
			return nil
		}
		if len(b) == n {
			return b
		}
		add += n - len(b)
	}
	return nil
}

// SizeOf is the length of the binary serialization.
func SizeOf(ks *tinkpb.Keyset) int { return proto.Size(ks) }

// PadTo appends padding keys of the given kind so that the binary serialization of ks has
// exactly target bytes. One padding key normally suffices; when target falls into a gap made by
// a growing length prefix, a second tiny padding key shifts the sizes. ok=false if target is
// out of reach (less than ~64 bytes above the present size).
func PadTo(pool *Pool, ks *tinkpb.Keyset, ids *IDSet, kind string, target int, fill func(n int) []byte) bool {
	n0 := len(ks.Key)
	for aux := 0; aux < 6; aux++ {
		ks.Key = ks.Key[:n0]
		if aux > 0 {
			ks.Key = append(ks.Key, PadKey(pool, "opaque-public", ids.New(), aux-1, fill))
		}
		id := ids.New()
		need := target - proto.Size(ks)
		if need < 0 {
			break
		}
		l := need - 60
		if l < 0 {
			l = 0
		}
		for try := 0; try < 12; try++ {
			cand := PadKey(pool, kind, id, l, fill)
			ks.Key = append(ks.Key[:n0+min(aux, 1)], cand)
			d := target - proto.Size(ks)
			if d == 0 {
				return true
			}
			l += d
			if l < 0 {
				break
			}
		}
	}
	ks.Key = ks.Key[:n0]
	return false
}

// SizedKeyset draws keys from parts (fresh ids, mixed statuses) while the serialization stays
// below target-reserve, at most maxKeys of them, and pads to exactly target bytes. The primary is
// a random ENABLED key among the drawn ones (before padding).
func SizedKeyset(pool *Pool, rng *hlib.Rng, ids *IDSet, parts []*PoolKey, maxKeys, target int, padKind string, fill func(n int) []byte) (*tinkpb.Keyset, error) {
	ks := &tinkpb.Keyset{PrimaryKeyId: 0xffffffff} // 5-byte varint, as most ids
	size := proto.Size(ks)
	for len(ks.Key) < maxKeys {
		e := BigEntry(ids, parts[rng.Intn(len(parts))], BigStatus(rng))
		es := proto.Size(e)
		es += 1 + varintLen(uint64(es))
		if size+es > target-200 {
			break
		}
		ks.Key = append(ks.Key, e)
		size += es
	}
	if len(ks.Key) == 0 {
		return nil, fmt.Errorf("bigks: no key fits below %d bytes", target)
	}
	SetPrimaryAt(rng, ks, -1)
	if !PadTo(pool, ks, ids, padKind, target, fill) || proto.Size(ks) != target {
		return nil, fmt.Errorf("bigks: cannot pad to exactly %d bytes (at %d)", target, proto.Size(ks))
	}
	return ks, nil
}

func varintLen(v uint64) int {
	n := 1
	for v >= 0x80 {
		v >>= 7
		n++
	}
	return n
}

// PrefixSize is the length of the serialization of the keyset cut after its first n keys (the
// primary key id comes first on the wire, keys follow in order).
func PrefixSize(ks *tinkpb.Keyset, n int) int {
	return proto.Size(&tinkpb.Keyset{PrimaryKeyId: ks.GetPrimaryKeyId(), Key: ks.GetKey()[:n]})
}
