//go:build verif

package kslib

import (
	"crypto/rand"
	"crypto/rsa"
	"fmt"
	"math/big"
)

// RSAParts is a consistent RSA key (n, e, d, p, q, dp, dq, qinv as minimal big-endian bytes)
// outside the library's minimum strength: short modulus and/or public exponent != 65537.
type RSAParts struct {
	Label                        string
	Bits                         int
	E                            int64
	N, Eb, D, P, Q, DP, DQ, QInv []byte
}

func weakRSA(label string, bits int, e int64) (*RSAParts, error) {
	E := big.NewInt(e)
	one := big.NewInt(1)
	for try := 0; try < 200; try++ {
		var p, q *big.Int
		if bits >= 1024 {
			// crypto/rsa's generator is much faster than rand.Prime; only the primes are kept
			k, err := rsa.GenerateKey(rand.Reader, bits)
			if err != nil {
				return nil, err
			}
			p, q = k.Primes[0], k.Primes[1]
		} else {
			var err error
			if p, err = rand.Prime(rand.Reader, (bits+1)/2); err != nil {
				return nil, err
			}
			if q, err = rand.Prime(rand.Reader, bits-(bits+1)/2); err != nil {
				return nil, err
			}
		}
		if p.Cmp(q) == 0 {
			continue
		}
		n := new(big.Int).Mul(p, q)
		if n.BitLen() != bits {
			continue
		}
		p1 := new(big.Int).Sub(p, one)
		q1 := new(big.Int).Sub(q, one)
		phi := new(big.Int).Mul(p1, q1)
		d := new(big.Int).ModInverse(E, phi)
		if d == nil {
			continue
		}
		qinv := new(big.Int).ModInverse(q, p)
		if qinv == nil {
			continue
		}
		return &RSAParts{Label: label, Bits: bits, E: e, N: n.Bytes(), Eb: E.Bytes(), D: d.Bytes(), P: p.Bytes(), Q: q.Bytes(),
			DP: new(big.Int).Mod(d, p1).Bytes(), DQ: new(big.Int).Mod(d, q1).Bytes(), QInv: qinv.Bytes()}, nil
	}
	return nil, fmt.Errorf("no RSA key found for %s", label)
}

// WeakRSAKeys builds the below-minimum RSA keys used by the minimum-strength checks.
func WeakRSAKeys() ([]*RSAParts, []string) {
	var out []*RSAParts
	var errs []string
	for _, c := range []struct {
		label string
		bits  int
		e     int64
	}{
		{"rsa1024-e65537", 1024, 65537},
		{"rsa2040-e65537", 2040, 65537},
		{"rsa2047-e65537", 2047, 65537},
		{"rsa2048-e3", 2048, 3},
		{"rsa2048-e17", 2048, 17},
		{"rsa2048-e65539", 2048, 65539},
		{"rsa512-e65537", 512, 65537},
	} {
		k, err := weakRSA(c.label, c.bits, c.e)
		if err != nil {
			errs = append(errs, err.Error())
			continue
		}
		out = append(out, k)
	}
	return out, errs
}

// Fields maps the parts onto the field paths of the four RSA private-key protos.
func (r *RSAParts) PrivFields() map[string]any {
	return map[string]any{"public_key.n": r.N, "public_key.e": r.Eb, "d": r.D, "p": r.P, "q": r.Q, "dp": r.DP, "dq": r.DQ, "crt": r.QInv}
}

func (r *RSAParts) PubFields() map[string]any {
	return map[string]any{"n": r.N, "e": r.Eb}
}
