//go:build verif

package kslib

import (
	"fmt"
	"strings"

	"github.com/tink-crypto/tink-go/v2/internal/verifharness/hlib"
	"google.golang.org/protobuf/proto"
	"google.golang.org/protobuf/reflect/protoreflect"
	"google.golang.org/protobuf/reflect/protoregistry"

	// key protos that no imported tink package links in
	_ "github.com/tink-crypto/tink-go/v2/proto/aes_eax_go_proto"
	_ "github.com/tink-crypto/tink-go/v2/proto/kms_aead_go_proto"
	tinkpb "github.com/tink-crypto/tink-go/v2/proto/tink_go_proto"
)

// Inner decodes the key proto named by a type URL (nil if the type is not linked in or the value
// does not parse).
func Inner(typeURL string, value []byte) protoreflect.Message {
	mt, err := protoregistry.GlobalTypes.FindMessageByURL(typeURL)
	if err != nil {
		return nil
	}
	m := mt.New()
	if err := (proto.UnmarshalOptions{AllowPartial: true}).Unmarshal(value, m.Interface()); err != nil {
		return nil
	}
	return m
}

func isWrapper(m protoreflect.Message) bool {
	n := m.Descriptor().FullName()
	return n == "google.crypto.tink.KeyData" || n == "google.crypto.tink.KeyTemplate"
}

// Visit walks m depth-first: m itself, its populated singular sub-messages and the key protos
// serialized inside KeyData / KeyTemplate values. f returns true once it has changed the message
// it was given; the enclosing serialized values are then re-marshalled and the walk stops.
func Visit(m protoreflect.Message, depth int, f func(m protoreflect.Message, depth int) bool) bool {
	if f(m, depth) {
		return true
	}
	if depth > 4 {
		return false
	}
	fds := m.Descriptor().Fields()
	for i := 0; i < fds.Len(); i++ {
		fd := fds.Get(i)
		if fd.Kind() == protoreflect.MessageKind && !fd.IsList() && !fd.IsMap() && m.Has(fd) {
			if Visit(m.Mutable(fd).Message(), depth+1, f) {
				return true
			}
		}
	}
	if isWrapper(m) {
		fu := m.Descriptor().Fields().ByName("type_url")
		fv := m.Descriptor().Fields().ByName("value")
		in := Inner(m.Get(fu).String(), m.Get(fv).Bytes())
		if in != nil && Visit(in, depth+1, f) {
			b, err := proto.MarshalOptions{AllowPartial: true}.Marshal(in.Interface())
			if err == nil {
				m.Set(fv, protoreflect.ValueOfBytes(b))
				return true
			}
		}
	}
	return false
}

// SecretFields returns the secret byte fields (>= 8 bytes) of a symmetric / private key: every
// bytes field of the key proto outside its public_key sub-message and outside key templates,
// following nested KeyData (PRF-based deriver, composite ML-DSA).
func SecretFields(kd *tinkpb.KeyData) [][]byte {
	switch kd.GetKeyMaterialType() {
	case tinkpb.KeyData_UNKNOWN_KEYMATERIAL, tinkpb.KeyData_SYMMETRIC, tinkpb.KeyData_ASYMMETRIC_PRIVATE:
	default:
		return nil // public, remote, and undefined numbers (which the code does not treat as secret)
	}
	in := Inner(kd.GetTypeUrl(), kd.GetValue())
	if in == nil {
		if len(kd.GetValue()) >= 8 {
			return [][]byte{kd.GetValue()}
		}
		return nil
	}
	var out [][]byte
	var walk func(m protoreflect.Message, depth int)
	walk = func(m protoreflect.Message, depth int) {
		if depth > 5 {
			return
		}
		if m.Descriptor().FullName() == "google.crypto.tink.KeyTemplate" {
			return
		}
		if m.Descriptor().FullName() == "google.crypto.tink.KeyData" {
			if sub, ok := m.Interface().(*tinkpb.KeyData); ok {
				out = append(out, SecretFields(sub)...)
			}
			return
		}
		m.Range(func(fd protoreflect.FieldDescriptor, v protoreflect.Value) bool {
			if fd.IsList() || fd.IsMap() {
				return true
			}
			switch fd.Kind() {
			case protoreflect.BytesKind:
				if len(v.Bytes()) >= 8 && fd.Name() != "salt" && fd.Name() != "hkdf_salt" {
					out = append(out, append([]byte(nil), v.Bytes()...))
				}
			case protoreflect.MessageKind:
				if fd.Name() != "public_key" && fd.Name() != "params" {
					walk(v.Message(), depth+1)
				}
			}
			return true
		})
	}
	walk(in, 0)
	return out
}

var interestingLens = []int{0, 1, 8, 12, 15, 16, 17, 20, 24, 31, 32, 33, 48, 63, 64, 65, 66, 128, 256}

func mutBytes(rng *hlib.Rng, b []byte) ([]byte, string) {
	c := append([]byte(nil), b...)
	switch rng.Intn(12) {
	case 0:
		if len(c) > 0 {
			return c[:rng.Intn(len(c))], "truncate"
		}
	case 1:
		if len(c) > 0 {
			return c[1:], "drop-first"
		}
	case 2:
		return append(c, byte(rng.U64())), "extend"
	case 3:
		return append(make([]byte, 1+rng.Intn(3)), c...), "leading-zeros"
	case 4:
		if len(c) > 0 {
			c[rng.Intn(len(c))] ^= 1 << uint(rng.Intn(8))
			return c, "bitflip"
		}
	case 5:
		return []byte{}, "empty"
	case 6:
		return rng.Bytes(len(c)), "random-samelen"
	case 7:
		return rng.Bytes(interestingLens[rng.Intn(len(interestingLens))]), "random-len"
	case 8:
		return make([]byte, len(c)), "zeros"
	case 9:
		for i := range c {
			c[i] = 0xff
		}
		return c, "ones"
	case 10:
		if len(c) > 0 {
			c[len(c)-1] ^= 1
			return c, "flip-last"
		}
	case 11:
		if len(c) > 0 {
			c[0] ^= 0x80
			return c, "flip-first"
		}
	}
	return rng.Bytes(1 + rng.Intn(40)), "garbage"
}

var interestingNums = []int64{0, 1, 2, 3, 7, 8, 9, 10, 11, 12, 13, 15, 16, 17, 20, 24, 31, 32, 33, 48, 64, 65, 128, 255, 256, 1024, 4096, 65536,
	1 << 20, 1<<31 - 1, 1 << 31, 1<<32 - 1}

// mutField changes one field of m; returns a label ("" if nothing was changed).
func mutField(rng *hlib.Rng, m protoreflect.Message) string {
	fds := m.Descriptor().Fields()
	if fds.Len() == 0 {
		return ""
	}
	var fd protoreflect.FieldDescriptor
	// prefer populated fields
	for try := 0; try < 6; try++ {
		fd = fds.Get(rng.Intn(fds.Len()))
		if fd.Kind() == protoreflect.MessageKind && try < 5 && !rng.Chance(25) {
			continue // sub-messages are visited on their own; clearing them is the rarer case
		}
		if m.Has(fd) || try >= 3 {
			break
		}
	}
	if fd.IsList() || fd.IsMap() {
		return ""
	}
	name := string(fd.Name())
	switch fd.Kind() {
	case protoreflect.Uint32Kind, protoreflect.Fixed32Kind:
		v := interestingNums[rng.Intn(len(interestingNums))]
		if rng.Chance(25) {
			v = int64(m.Get(fd).Uint()) + int64(rng.Pick(-1, 1))
		}
		m.Set(fd, protoreflect.ValueOfUint32(uint32(v)))
		return "uint:" + name
	case protoreflect.Uint64Kind, protoreflect.Fixed64Kind:
		m.Set(fd, protoreflect.ValueOfUint64(uint64(interestingNums[rng.Intn(len(interestingNums))])))
		return "uint:" + name
	case protoreflect.Int32Kind, protoreflect.Sint32Kind, protoreflect.Sfixed32Kind:
		v := interestingNums[rng.Intn(len(interestingNums))]
		if rng.Chance(20) {
			v = -1 - int64(rng.Intn(40))
		}
		m.Set(fd, protoreflect.ValueOfInt32(int32(v)))
		return "int:" + name
	case protoreflect.Int64Kind, protoreflect.Sint64Kind, protoreflect.Sfixed64Kind:
		m.Set(fd, protoreflect.ValueOfInt64(interestingNums[rng.Intn(len(interestingNums))]))
		return "int:" + name
	case protoreflect.EnumKind:
		vals := fd.Enum().Values()
		var n protoreflect.EnumNumber
		switch rng.Intn(4) {
		case 0:
			n = 0
		case 1:
			n = protoreflect.EnumNumber(rng.Pick(int(vals.Get(vals.Len()-1).Number())+1, 99, 1<<31-1))
		default:
			n = vals.Get(rng.Intn(vals.Len())).Number()
		}
		m.Set(fd, protoreflect.ValueOfEnum(n))
		return "enum:" + name
	case protoreflect.BytesKind:
		b, how := mutBytes(rng, m.Get(fd).Bytes())
		m.Set(fd, protoreflect.ValueOfBytes(b))
		return "bytes-" + how + ":" + name
	case protoreflect.StringKind:
		switch rng.Intn(3) {
		case 0:
			m.Set(fd, protoreflect.ValueOfString(""))
		case 1:
			m.Set(fd, protoreflect.ValueOfString("type.googleapis.com/google.crypto.tink.AesGcmKey"))
		default:
			m.Set(fd, protoreflect.ValueOfString(fmt.Sprintf("s%x", rng.Bytes(1+rng.Intn(6)))))
		}
		return "string:" + name
	case protoreflect.BoolKind:
		m.Set(fd, protoreflect.ValueOfBool(!m.Get(fd).Bool()))
		return "bool:" + name
	case protoreflect.MessageKind:
		if m.Has(fd) {
			m.Clear(fd)
			return "clear-msg:" + name
		}
		m.Mutable(fd) // present but empty
		return "empty-msg:" + name
	}
	return ""
}

// MutateInner applies one random field mutation somewhere inside the key proto (at any nesting
// depth, including key data / templates serialized inside it) and re-marshals it.
func MutateInner(rng *hlib.Rng, kd *tinkpb.KeyData) string {
	n := 0
	Visit(kd.ProtoReflect(), 0, func(m protoreflect.Message, d int) bool {
		if d > 0 {
			n++
		}
		return false
	})
	if n == 0 {
		return ""
	}
	target := rng.Intn(n)
	// bias towards the top-level key message and its immediate children
	if rng.Chance(40) {
		target = 0
	}
	i := 0
	label := ""
	Visit(kd.ProtoReflect(), 0, func(m protoreflect.Message, d int) bool {
		if d == 0 {
			return false
		}
		if i == target {
			i++
			label = mutField(rng, m)
			return label != ""
		}
		i++
		return false
	})
	return label
}

// MutateVersion sets one of the version fields (top level, public_key, nested) to 1, 2 or 2^32-1.
func MutateVersion(rng *hlib.Rng, kd *tinkpb.KeyData) string {
	n := 0
	Visit(kd.ProtoReflect(), 0, func(m protoreflect.Message, d int) bool {
		if d > 0 && m.Descriptor().Fields().ByName("version") != nil {
			n++
		}
		return false
	})
	if n == 0 {
		return ""
	}
	target, i := rng.Intn(n), 0
	v := uint32(rng.Pick(1, 1, 2, 1<<32-1))
	done := Visit(kd.ProtoReflect(), 0, func(m protoreflect.Message, d int) bool {
		fd := m.Descriptor().Fields().ByName("version")
		if d == 0 || fd == nil {
			return false
		}
		if i == target {
			m.Set(fd, protoreflect.ValueOfUint32(v))
			i++
			return true
		}
		i++
		return false
	})
	if !done {
		return ""
	}
	return fmt.Sprintf("version=%d#%d", v, target)
}

// MutatePoint damages an elliptic-curve point (x/y fields, or an HPKE public_key byte string).
func MutatePoint(rng *hlib.Rng, kd *tinkpb.KeyData) string {
	label := ""
	Visit(kd.ProtoReflect(), 0, func(m protoreflect.Message, d int) bool {
		fs := m.Descriptor().Fields()
		fx, fy := fs.ByName("x"), fs.ByName("y")
		if fx != nil && fy != nil && fx.Kind() == protoreflect.BytesKind {
			x := append([]byte(nil), m.Get(fx).Bytes()...)
			y := append([]byte(nil), m.Get(fy).Bytes()...)
			if len(x) == 0 || len(y) == 0 {
				return false
			}
			switch rng.Intn(7) {
			case 0:
				y[len(y)-1] ^= 1
				label = "point-y-flip"
			case 1:
				x[len(x)-1] ^= 1
				label = "point-x-flip"
			case 2:
				x, y = make([]byte, len(x)), make([]byte, len(y))
				label = "point-infinity"
			case 3:
				x, y = y, x
				label = "point-swap"
			case 4:
				for i := range y {
					y[i] = 0xff
				}
				label = "point-y-max"
			case 5:
				x, y = []byte{}, []byte{}
				label = "point-empty"
			case 6:
				// still the same point: extra leading zeros (must stay consistent if accepted)
				x = append(make([]byte, 1+rng.Intn(2)), x...)
				label = "point-x-leading-zeros"
			}
			m.Set(fx, protoreflect.ValueOfBytes(x))
			m.Set(fy, protoreflect.ValueOfBytes(y))
			return true
		}
		fp := fs.ByName("public_key")
		if fp != nil && fp.Kind() == protoreflect.BytesKind && strings.HasPrefix(string(m.Descriptor().Name()), "Hpke") {
			p := append([]byte(nil), m.Get(fp).Bytes()...)
			if len(p) == 0 {
				return false
			}
			switch rng.Intn(5) {
			case 0:
				p[len(p)-1] ^= 1
				label = "hpke-point-flip"
			case 1:
				p[0] ^= 6 // 04 -> 02: compressed marker on an uncompressed point
				label = "hpke-point-format"
			case 2:
				p = make([]byte, len(p))
				label = "hpke-point-zero"
			case 3:
				p = p[:len(p)-1]
				label = "hpke-point-short"
			case 4:
				for i := range p {
					p[i] = 0xff
				}
				label = "hpke-point-ones"
			}
			m.Set(fp, protoreflect.ValueOfBytes(p))
			return true
		}
		return false
	})
	return label
}

var privScalarNames = []string{"key_value", "private_key", "d"}

// Mismatch replaces the public half (or the private value) of a private key by that of another
// key of the same type (alt).
func Mismatch(rng *hlib.Rng, kd, alt *tinkpb.KeyData) string {
	if alt == nil {
		return ""
	}
	byName := map[protoreflect.FullName]protoreflect.Message{}
	Visit(proto.Clone(alt).ProtoReflect(), 0, func(m protoreflect.Message, d int) bool {
		if _, ok := byName[m.Descriptor().FullName()]; !ok && d > 0 {
			byName[m.Descriptor().FullName()] = m
		}
		return false
	})
	swapPub := rng.Bool()
	label := ""
	Visit(kd.ProtoReflect(), 0, func(m protoreflect.Message, d int) bool {
		if d == 0 {
			return false
		}
		fs := m.Descriptor().Fields()
		fp := fs.ByName("public_key")
		if fp == nil || fp.Kind() != protoreflect.MessageKind || !m.Has(fp) {
			return false
		}
		am, ok := byName[m.Descriptor().FullName()]
		if !ok {
			return false
		}
		if swapPub {
			m.Set(fp, protoreflect.ValueOfMessage(am.Get(fp).Message()))
			label = "mismatch-public-half"
			return true
		}
		for _, n := range privScalarNames {
			if fd := fs.ByName(protoreflect.Name(n)); fd != nil && fd.Kind() == protoreflect.BytesKind {
				m.Set(fd, am.Get(fd))
				label = "mismatch-private-value"
				return true
			}
		}
		return false
	})
	return label
}

// SetFields sets named fields (dotted paths below the key proto, e.g. "public_key.params.hash_type")
// of the key proto inside kd. Values: int (number / enum number) or []byte.
func SetFields(kd *tinkpb.KeyData, kv map[string]any) error {
	in := Inner(kd.GetTypeUrl(), kd.GetValue())
	if in == nil {
		return fmt.Errorf("cannot decode %s", kd.GetTypeUrl())
	}
	for path, val := range kv {
		m := in
		parts := strings.Split(path, ".")
		for i, p := range parts {
			fd := m.Descriptor().Fields().ByName(protoreflect.Name(p))
			if fd == nil {
				return fmt.Errorf("no field %s in %s", p, m.Descriptor().FullName())
			}
			if i < len(parts)-1 {
				m = m.Mutable(fd).Message()
				continue
			}
			switch v := val.(type) {
			case int:
				switch fd.Kind() {
				case protoreflect.EnumKind:
					m.Set(fd, protoreflect.ValueOfEnum(protoreflect.EnumNumber(v)))
				case protoreflect.Uint32Kind:
					m.Set(fd, protoreflect.ValueOfUint32(uint32(v)))
				case protoreflect.Int32Kind:
					m.Set(fd, protoreflect.ValueOfInt32(int32(v)))
				default:
					return fmt.Errorf("field %s is not numeric", path)
				}
			case []byte:
				m.Set(fd, protoreflect.ValueOfBytes(v))
			default:
				return fmt.Errorf("unsupported value for %s", path)
			}
		}
	}
	b, err := proto.Marshal(in.Interface())
	if err != nil {
		return err
	}
	kd.Value = b
	return nil
}

// GetBytes reads a bytes field by dotted path from the key proto in kd (nil if absent).
func GetBytes(kd *tinkpb.KeyData, path string) []byte {
	m := Inner(kd.GetTypeUrl(), kd.GetValue())
	if m == nil {
		return nil
	}
	parts := strings.Split(path, ".")
	for i, p := range parts {
		fd := m.Descriptor().Fields().ByName(protoreflect.Name(p))
		if fd == nil {
			return nil
		}
		if i < len(parts)-1 {
			m = m.Get(fd).Message()
			continue
		}
		return m.Get(fd).Bytes()
	}
	return nil
}
