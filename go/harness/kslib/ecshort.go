//go:build verif

package kslib

// Foreign encodings of NIST-curve keys (harness c13 round r3b, consumed by c14 as well).
//
// tink-go writes every EC integer (coordinates x, y and the private scalar d of ECDSA, JWT-ECDSA
// and ECIES-AEAD-HKDF keys) as curve-size+1 bytes (one leading 0x00) and its parsers document
// "Tolerate arbitrary leading zeros": any big-endian encoding of the same integer is accepted —
// shorter than the curve size (leading zero bytes stripped, as BigInteger.toByteArray-style
// implementations write them) or longer (more zero bytes). Whether the short forms work depends
// only on the VALUE of the integer: it needs >= 1, 2, 3 leading zero bytes. ECShortCases makes
// such keys deterministically:
//
//   - d: free (d < 2^(8*(size-k)));
//   - x, y: d = base(curve) + offset, with the offsets searched once offline (a parallel
//     point-addition walk, ~2^16 points for two zero bytes, ~2^24 for three) and hard-coded in
//     ecShortOffsets; every table entry used is recomputed at start-up (ScalarBaseMult, count
//     the leading zeros) and a wrong entry is an error of the harness, not a violation;
//   - n-d for the x keys (same x, negated y);
//   - a seed-dependent key per curve with one leading zero byte in x resp. y, walked from the
//     pool's own private scalar.
//
// ECShortPublicCases adds valid curve points with a tiny x (x = 0 if it is on the curve, 1..2
// bytes, half size, ...) whose discrete logarithm nobody knows: public keys only.

import (
	"bytes"
	"crypto/elliptic"
	"crypto/sha512"
	"fmt"
	"math/big"

	"google.golang.org/protobuf/proto"
	"google.golang.org/protobuf/reflect/protoreflect"

	tinkpb "github.com/tink-crypto/tink-go/v2/proto/tink_go_proto"
)

// ECShortCase is one valid NIST-curve key pair whose integer fields are re-encoded in a foreign way.
type ECShortCase struct {
	Name   string // e.g. "EcdsaPrivateKey/P256/x-lz2/minimal"
	Class  string // pool class of the private key: "sig", "jwtsig", "hyb"
	Prefix tinkpb.OutputPrefixType
	// foreign encoding (private key with embedded public key; public key alone)
	Priv, Pub *tinkpb.KeyData
	// the same key as tink-go itself serializes it (every integer as 0x00 ‖ curve-size bytes)
	CanonPriv, CanonPub *tinkpb.KeyData
	// whether the pristine parsers tolerate this encoding (true for all short and zero-padded
	// forms; false for the controls "nz-…" whose extra leading byte is not zero, i.e. which
	// encode another, out-of-range integer and must be refused)
	Accept bool
}

// AcceptPub is Accept for the public key alone: the controls on the private scalar d leave the
// public key in tink-go's own encoding, which is of course accepted.
func (c ECShortCase) AcceptPub() bool { return c.Accept || proto.Equal(c.Pub, c.CanonPub) }

type ecShortCurve struct {
	name string
	c    elliptic.Curve
	size int
	num  int // commonpb.EllipticCurveType
	jwt  int // jwt_ecdsa.JwtEcdsaAlgorithm
}

var ecShortCurves = []ecShortCurve{
	{"P256", elliptic.P256(), 32, 2, 1},
	{"P384", elliptic.P384(), 48, 3, 2},
	{"P521", elliptic.P521(), 66, 4, 3},
}

// ecShortOffsets: "<curve>/<coordinate>/<k>" -> i such that (base(curve)+i)·G has exactly k
// leading zero bytes in that coordinate (fixed-size big-endian). Found offline; verified at
// start-up.
var ecShortOffsets = map[string]int64{
	"P256/x/1": 172,
	"P256/y/1": 492,
	"P256/x/2": 83397,
	"P256/y/2": 32626,
	"P256/x/3": 4009585,
	"P256/y/3": 6647254,
	"P384/x/1": 283,
	"P384/y/1": 113,
	"P384/x/2": 59238,
	"P384/y/2": 4631,
	"P384/x/3": 18482621,
	"P384/y/3": 6807490,
	"P521/x/1": 1,
	"P521/y/1": 1,
	"P521/x/2": 581,
	"P521/y/2": 2133,
	"P521/x/3": 131168,
	"P521/y/3": 104870,
}

func ecShortExpand(label string, n int) []byte {
	var out []byte
	for ctr := byte(0); len(out) < n; ctr++ {
		h := sha512.Sum512(append([]byte(label), ctr))
		out = append(out, h[:]...)
	}
	return out[:n]
}

// ecShortBase is the fixed full-size scalar the offsets are relative to.
func ecShortBase(cv ecShortCurve) *big.Int {
	m := new(big.Int).Sub(cv.c.Params().N, big.NewInt(1<<40))
	b := new(big.Int).SetBytes(ecShortExpand("tink-verif/ecshort/base/"+cv.name, cv.size+8))
	b.Mod(b, m)
	return b.Add(b, big.NewInt(1))
}

func ecShortLZ(b []byte) int {
	n := 0
	for n < len(b) && b[n] == 0 {
		n++
	}
	return n
}

// ecShortKey is a key pair with fixed-size fields.
type ecShortKey struct {
	name    string
	d, x, y []byte
	target  byte // 'x', 'y', 'd': the field with leading zeros; 0: none ("plain")
	lz      int
}

func ecShortPoint(cv ecShortCurve, d *big.Int) (db, x, y []byte) {
	db = d.FillBytes(make([]byte, cv.size))
	bx, by := cv.c.ScalarBaseMult(db)
	return db, bx.FillBytes(make([]byte, cv.size)), by.FillBytes(make([]byte, cv.size))
}

// ecShortKeys lists the key pairs of one curve. poolD (may be nil) is a seed-dependent scalar.
func ecShortKeys(cv ecShortCurve, poolD *big.Int) ([]ecShortKey, error) {
	var ks []ecShortKey
	base := ecShortBase(cv)
	n, p := cv.c.Params().N, cv.c.Params().P
	d0, x0, y0 := ecShortPoint(cv, base)
	ks = append(ks, ecShortKey{name: "plain", d: d0, x: x0, y: y0})
	for k := 1; k <= 3; k++ {
		for _, f := range []byte("xy") {
			key := fmt.Sprintf("%s/%c/%d", cv.name, f, k)
			off, ok := ecShortOffsets[key]
			if !ok {
				return nil, fmt.Errorf("ecshort: no table entry %s", key)
			}
			d := new(big.Int).Add(base, big.NewInt(off))
			db, x, y := ecShortPoint(cv, d)
			got := ecShortLZ(x)
			if f == 'y' {
				got = ecShortLZ(y)
			}
			if got != k {
				return nil, fmt.Errorf("ecshort: table entry %s = %d is wrong: coordinate has %d leading zero bytes (x=%x y=%x)", key, off, got, x, y)
			}
			ks = append(ks, ecShortKey{name: fmt.Sprintf("%c-lz%d", f, k), d: db, x: x, y: y, target: f, lz: k})
			if f == 'x' {
				nd := new(big.Int).Sub(n, d)
				ny := new(big.Int).Sub(p, new(big.Int).SetBytes(y))
				ndb, nx, nyb := ecShortPoint(cv, nd)
				if !bytes.Equal(nx, x) || !bytes.Equal(nyb, ny.FillBytes(make([]byte, cv.size))) {
					return nil, fmt.Errorf("ecshort: (n-d)·G is not the negated point for %s", key)
				}
				ks = append(ks, ecShortKey{name: fmt.Sprintf("x-lz%d-neg", k), d: ndb, x: nx, y: nyb, target: 'x', lz: k})
			}
		}
		// private scalar with k leading zero bytes
		db := ecShortExpand(fmt.Sprintf("tink-verif/ecshort/d/%s/%d", cv.name, k), cv.size)
		for i := 0; i < k; i++ {
			db[i] = 0
		}
		if db[k] == 0 {
			db[k] = 1
		}
		_, x, y := ecShortPoint(cv, new(big.Int).SetBytes(db))
		ks = append(ks, ecShortKey{name: fmt.Sprintf("d-lz%d", k), d: db, x: x, y: y, target: 'd', lz: k})
	}
	if poolD != nil {
		// seed-dependent: walk from the pool's scalar to the first point with a leading zero
		// byte in x resp. y (1/256 per point; P-521: 1/2)
		d := new(big.Int).Mod(poolD, new(big.Int).Sub(n, big.NewInt(1<<20)))
		d.Add(d, big.NewInt(1))
		_, xb, yb := ecShortPoint(cv, d)
		x, y := new(big.Int).SetBytes(xb), new(big.Int).SetBytes(yb)
		found := map[byte]bool{}
		for i := 0; i < 3000 && len(found) < 2; i++ {
			xb, yb = x.FillBytes(make([]byte, cv.size)), y.FillBytes(make([]byte, cv.size))
			for _, f := range []byte("xy") {
				l := ecShortLZ(xb)
				if f == 'y' {
					l = ecShortLZ(yb)
				}
				if l >= 1 && !found[f] {
					found[f] = true
					di := new(big.Int).Add(d, big.NewInt(int64(i)))
					ks = append(ks, ecShortKey{name: fmt.Sprintf("pool-%c-lz%d", f, l), d: di.FillBytes(make([]byte, cv.size)), x: xb, y: yb, target: f, lz: l})
				}
			}
			x, y = cv.c.Add(x, y, cv.c.Params().Gx, cv.c.Params().Gy)
		}
	}
	return ks, nil
}

// ---------- encodings ----------

func ecShortMinimal(b []byte) []byte { return b[ecShortLZ(b):] }

func ecShortPad(b []byte, n int) []byte { return append(make([]byte, n, n+len(b)), b...) }

// ecShortJava is BigInteger.toByteArray: minimal two's complement (a 0x00 in front of a set top
// bit; zero is one 0x00 byte).
func ecShortJava(b []byte) []byte {
	m := ecShortMinimal(b)
	if len(m) == 0 || m[0]&0x80 != 0 {
		return ecShortPad(m, 1)
	}
	return m
}

type ecShortForm struct {
	name    string
	x, y, d []byte
	accept  bool
}

// ecShortForms lists the foreign encodings of one key; the fields not named by the form are in
// tink-go's own form (0x00 ‖ fixed size).
func ecShortForms(k ecShortKey, full bool) []ecShortForm {
	canon := func(b []byte) []byte { return ecShortPad(b, 1) }
	var out []ecShortForm
	one := func(name string, t byte, enc []byte, accept bool) {
		f := ecShortForm{name: name, x: canon(k.x), y: canon(k.y), d: canon(k.d), accept: accept}
		switch t {
		case 'x':
			f.x = enc
		case 'y':
			f.y = enc
		default:
			f.d = enc
		}
		out = append(out, f)
	}
	field := func(t byte) []byte {
		switch t {
		case 'x':
			return k.x
		case 'y':
			return k.y
		}
		return k.d
	}
	nz := func(b []byte, n int) []byte { // n extra bytes, the last of them 0x01
		e := ecShortPad(b, n)
		e[n-1] = 1
		return e
	}
	if k.target == 0 {
		for _, t := range []byte("xyd") {
			b := field(t)
			one(fmt.Sprintf("%c-fixed", t), t, b, true)
			one(fmt.Sprintf("%c-pad2", t), t, ecShortPad(b, 2), true)
			if full {
				one(fmt.Sprintf("%c-pad3", t), t, ecShortPad(b, 3), true)
				one(fmt.Sprintf("%c-pad9", t), t, ecShortPad(b, 9), true)
			}
			// every non-zero pattern of two extra bytes over {00, 01}, and the single byte 01
			one(fmt.Sprintf("%c-nz-pad1", t), t, nz(b, 1), false)
			one(fmt.Sprintf("%c-nz-pad2", t), t, nz(b, 2), false) // 00 01 ‖ b
			e := ecShortPad(b, 2)
			e[0] = 1 // 01 00 ‖ b
			one(fmt.Sprintf("%c-nz-pad2-first", t), t, e, false)
			e = ecShortPad(b, 2)
			e[0], e[1] = 1, 1 // 01 01 ‖ b
			one(fmt.Sprintf("%c-nz-pad2-both", t), t, e, false)
			if full {
				e = ecShortPad(b, 3)
				e[0], e[2] = 0x80, 0x80 // 80 00 80 ‖ b
				one(fmt.Sprintf("%c-nz-pad3-outer", t), t, e, false)
			}
		}
	} else {
		b := field(k.target)
		one("minimal", k.target, b[k.lz:], true)
		for j := 1; j < k.lz; j++ {
			one(fmt.Sprintf("strip%d", j), k.target, b[j:], true)
		}
		one("fixed", k.target, b, true)
		one("pad2", k.target, ecShortPad(b, 2), true)
		if full {
			one("pad3", k.target, ecShortPad(b, 3), true)
			one("nz-pad1", k.target, nz(b, 1), false)
			// a non-zero byte in front of the stripped form: 2^(8·len) + v, still below the
			// curve size, i.e. a DIFFERENT in-range integer: not this key (refused because the
			// point is not on the curve / the scalar does not match the public key)
			one("nz-minimal", k.target, nz(b[k.lz:], 1), false)
		}
	}
	out = append(out, ecShortForm{name: "all-minimal", x: ecShortMinimal(k.x), y: ecShortMinimal(k.y), d: ecShortMinimal(k.d), accept: true})
	out = append(out, ecShortForm{name: "all-java", x: ecShortJava(k.x), y: ecShortJava(k.y), d: ecShortJava(k.d), accept: true})
	if full || k.target == 0 {
		out = append(out, ecShortForm{name: "all-fixed", x: k.x, y: k.y, d: k.d, accept: true})
	}
	return out
}

// ---------- key data ----------

func ecShortEnum(m protoreflect.Message, path ...string) (int, bool) {
	for i, p := range path {
		fd := m.Descriptor().Fields().ByName(protoreflect.Name(p))
		if fd == nil {
			return 0, false
		}
		if i < len(path)-1 {
			if fd.Kind() != protoreflect.MessageKind {
				return 0, false
			}
			m = m.Get(fd).Message()
			continue
		}
		if fd.Kind() != protoreflect.EnumKind {
			return 0, false
		}
		return int(m.Get(fd).Enum()), true
	}
	return 0, false
}

// ecShortCurveOf returns the curve of an ECDSA / JWT-ECDSA / ECIES private pool key (nil for
// other key types and for X25519).
func ecShortCurveOf(kd *tinkpb.KeyData) *ecShortCurve {
	m := Inner(kd.GetTypeUrl(), kd.GetValue())
	if m == nil {
		return nil
	}
	for i := range ecShortCurves {
		cv := &ecShortCurves[i]
		switch typeOf(kd.GetTypeUrl()) {
		case "EcdsaPrivateKey":
			if n, ok := ecShortEnum(m, "public_key", "params", "curve"); ok && n == cv.num {
				return cv
			}
		case "JwtEcdsaPrivateKey":
			if n, ok := ecShortEnum(m, "public_key", "algorithm"); ok && n == cv.jwt {
				return cv
			}
		case "EciesAeadHkdfPrivateKey":
			if n, ok := ecShortEnum(m, "public_key", "params", "kem_params", "curve_type"); ok && n == cv.num {
				return cv
			}
		}
	}
	return nil
}

var ecShortDet = proto.MarshalOptions{Deterministic: true}

// ecShortBuild puts the encoded integers into a copy of the private template key.
func ecShortBuild(tmpl *tinkpb.KeyData, pubURL string, x, y, d []byte) (priv, pub *tinkpb.KeyData, err error) {
	in := Inner(tmpl.GetTypeUrl(), tmpl.GetValue())
	if in == nil {
		return nil, nil, fmt.Errorf("ecshort: cannot decode %s", tmpl.GetTypeUrl())
	}
	fds := in.Descriptor().Fields()
	fpk, fkv := fds.ByName("public_key"), fds.ByName("key_value")
	if fpk == nil || fkv == nil || fpk.Kind() != protoreflect.MessageKind {
		return nil, nil, fmt.Errorf("ecshort: %s has no public_key / key_value", tmpl.GetTypeUrl())
	}
	in.Set(fkv, protoreflect.ValueOfBytes(d))
	pm := in.Mutable(fpk).Message()
	fx, fy := pm.Descriptor().Fields().ByName("x"), pm.Descriptor().Fields().ByName("y")
	if fx == nil || fy == nil {
		return nil, nil, fmt.Errorf("ecshort: %s has no x / y", pm.Descriptor().FullName())
	}
	pm.Set(fx, protoreflect.ValueOfBytes(x))
	pm.Set(fy, protoreflect.ValueOfBytes(y))
	pv, err := ecShortDet.Marshal(in.Interface())
	if err != nil {
		return nil, nil, err
	}
	qv, err := ecShortDet.Marshal(pm.Interface())
	if err != nil {
		return nil, nil, err
	}
	priv = &tinkpb.KeyData{TypeUrl: tmpl.GetTypeUrl(), Value: pv, KeyMaterialType: tinkpb.KeyData_ASYMMETRIC_PRIVATE}
	pub = &tinkpb.KeyData{TypeUrl: pubURL, Value: qv, KeyMaterialType: tinkpb.KeyData_ASYMMETRIC_PUBLIC}
	return priv, pub, nil
}

type ecShortTmpl struct {
	pk     *PoolKey
	pubURL string
	cv     *ecShortCurve
	kd     *tinkpb.KeyData // the private template (pool key, or a re-parameterised copy)
	note   string
}

// ecShortTemplates: the pool's ECDSA / JWT-ECDSA / ECIES NIST-curve private keys (all of them
// when thorough, else the first per key type and curve) plus an ECIES P-384 key derived from the
// first ECIES NIST key (the pool has none).
func ecShortTemplates(pool *Pool, thorough bool) []ecShortTmpl {
	var out []ecShortTmpl
	seen := map[string]bool{}
	var firstECIES *ecShortTmpl
	haveECIES384 := false
	for _, pk := range pool.Keys {
		if pk.Pub < 0 || pk.Pub >= len(pool.Keys) {
			continue
		}
		cv := ecShortCurveOf(pk.KD)
		if cv == nil {
			continue
		}
		t := ecShortTmpl{pk: pk, pubURL: pool.Keys[pk.Pub].KD.GetTypeUrl(), cv: cv, kd: pk.KD}
		if pk.Type == "EciesAeadHkdfPrivateKey" {
			if firstECIES == nil {
				c := t
				firstECIES = &c
			}
			if cv.name == "P384" {
				haveECIES384 = true
			}
		}
		key := pk.Type + "/" + cv.name
		if seen[key] {
			if !thorough {
				continue
			}
			t.note = "@" + pk.Name
		}
		seen[key] = true
		out = append(out, t)
	}
	if firstECIES != nil && !haveECIES384 {
		kd := proto.Clone(firstECIES.kd).(*tinkpb.KeyData)
		if SetFields(kd, map[string]any{"public_key.params.kem_params.curve_type": ecShortCurves[1].num}) == nil {
			t := *firstECIES
			t.cv, t.kd = &ecShortCurves[1], kd
			out = append(out, t)
		}
	}
	return out
}

// ECShortCases returns the deterministic case list (thorough adds the expensive ones: every pool
// key of the three key types as parameter template instead of one per curve, more over-long and
// control forms).
//
// Per key type (EcdsaPrivateKey, JwtEcdsaPrivateKey, EciesAeadHkdfPrivateKey) and curve (P-256,
// P-384, P-521) the keys are: x-lz1..3, x-lz1..3-neg, y-lz1..3, d-lz1..3 (exactly that many
// leading zero bytes in the named integer), plain, pool-x-lz*, pool-y-lz*; the forms of the named
// integer are minimal, strip<j> (j < lz bytes stripped), fixed (curve size), pad2/pad3 (2/3 zero
// bytes in front; tink-go's own form is pad1) and, with all three integers re-encoded,
// all-minimal, all-java (BigInteger.toByteArray), all-fixed. Controls (Accept=false) on the
// plain key: nz-pad1 = 01 ‖ fixed, nz-pad2 = 00 01 ‖ fixed, nz-pad2-first = 01 00 ‖ fixed,
// nz-pad2-both = 01 01 ‖ fixed; thorough: nz-minimal = 01 ‖ minimal on the other keys.
func ECShortCases(pool *Pool, thorough bool) ([]ECShortCase, error) {
	if pool == nil {
		return nil, fmt.Errorf("ecshort: nil pool")
	}
	tmpls := ecShortTemplates(pool, thorough)
	keys := map[string][]ecShortKey{}
	for i := range ecShortCurves {
		cv := ecShortCurves[i]
		var poolD *big.Int
		for _, t := range tmpls {
			if t.cv.name == cv.name && t.kd == t.pk.KD {
				if b := GetBytes(t.kd, "key_value"); len(b) > 0 {
					poolD = new(big.Int).SetBytes(b)
					break
				}
			}
		}
		ks, err := ecShortKeys(cv, poolD)
		if err != nil {
			return nil, err
		}
		keys[cv.name] = ks
	}
	var out []ECShortCase
	for _, t := range tmpls {
		for _, k := range keys[t.cv.name] {
			cp, cq, err := ecShortBuild(t.kd, t.pubURL, ecShortPad(k.x, 1), ecShortPad(k.y, 1), ecShortPad(k.d, 1))
			if err != nil {
				return nil, err
			}
			for _, f := range ecShortForms(k, thorough) {
				p, q, err := ecShortBuild(t.kd, t.pubURL, f.x, f.y, f.d)
				if err != nil {
					return nil, err
				}
				out = append(out, ECShortCase{
					Name:  fmt.Sprintf("%s/%s/%s/%s%s", t.pk.Type, t.cv.name, k.name, f.name, t.note),
					Class: t.pk.Class, Prefix: t.pk.Prefix, Priv: p, Pub: q, CanonPriv: cp, CanonPub: cq, Accept: f.accept,
				})
			}
		}
	}
	return out, nil
}

// ECShortPublicCases: public keys only (Priv and CanonPriv are nil). Valid curve points with a
// very short x — x = 0 where (0, √b) is on the curve, else the smallest x >= 2^(8(L-1)) on the
// curve for L = 1, 2, size/2, size-3 bytes — and both square roots as y, in the forms minimal,
// strip1, strip-half, fixed, pad2, all-minimal, all-java (x = 0: empty / absent field, one 0x00
// byte, fixed, pad2).
func ECShortPublicCases(pool *Pool, thorough bool) ([]ECShortCase, error) {
	if pool == nil {
		return nil, fmt.Errorf("ecshort: nil pool")
	}
	type pt struct {
		name string
		x, y []byte
		lz   int
	}
	points := map[string][]pt{}
	for _, cv := range ecShortCurves {
		p, b := cv.c.Params().P, cv.c.Params().B
		var ps []pt
		find := func(name string, start *big.Int, exact bool) {
			x := new(big.Int).Set(start)
			for try := 0; try < 64; try++ {
				// y² = x³ - 3x + b
				rhs := new(big.Int).Exp(x, big.NewInt(3), p)
				rhs.Sub(rhs, new(big.Int).Mul(x, big.NewInt(3)))
				rhs.Add(rhs, b)
				rhs.Mod(rhs, p)
				if y := new(big.Int).ModSqrt(rhs, p); y != nil && cv.c.IsOnCurve(x, y) {
					xb := x.FillBytes(make([]byte, cv.size))
					ps = append(ps, pt{name, xb, y.FillBytes(make([]byte, cv.size)), ecShortLZ(xb)})
					if thorough {
						ny := new(big.Int).Sub(p, y)
						ps = append(ps, pt{name + "-neg", xb, ny.FillBytes(make([]byte, cv.size)), ecShortLZ(xb)})
					}
					return
				}
				if exact {
					return
				}
				x.Add(x, big.NewInt(1))
			}
		}
		find("x-zero", big.NewInt(0), true)
		for _, l := range []int{1, 2, cv.size / 2, cv.size - 3} {
			find(fmt.Sprintf("x-%dbytes", l), new(big.Int).Lsh(big.NewInt(1), uint(8*(l-1))), false)
		}
		points[cv.name] = ps
	}
	var out []ECShortCase
	for _, t := range ecShortTemplates(pool, thorough) {
		for _, q := range points[t.cv.name] {
			_, cq, err := ecShortBuild(t.kd, t.pubURL, ecShortPad(q.x, 1), ecShortPad(q.y, 1), nil)
			if err != nil {
				return nil, err
			}
			type form struct {
				name string
				x, y []byte
			}
			cy := ecShortPad(q.y, 1)
			fs := []form{{"minimal", q.x[q.lz:], cy}, {"fixed", q.x, cy}, {"pad2", ecShortPad(q.x, 2), cy},
				{"all-minimal", ecShortMinimal(q.x), ecShortMinimal(q.y)}, {"all-java", ecShortJava(q.x), ecShortJava(q.y)}}
			if q.lz >= 2 {
				fs = append(fs, form{"strip1", q.x[1:], cy})
			}
			if q.lz >= 4 {
				fs = append(fs, form{"strip-half", q.x[q.lz/2:], cy})
			}
			if q.lz == t.cv.size {
				fs = append(fs, form{"one-zero-byte", []byte{0}, cy})
			}
			for _, f := range fs {
				_, fq, err := ecShortBuild(t.kd, t.pubURL, f.x, f.y, nil)
				if err != nil {
					return nil, err
				}
				out = append(out, ECShortCase{
					Name:  fmt.Sprintf("%s/%s/%s/%s%s", typeOf(t.pubURL), t.cv.name, q.name, f.name, t.note),
					Class: t.pk.Class, Prefix: t.pk.Prefix, Pub: fq, CanonPub: cq, Accept: true,
				})
			}
		}
	}
	return out, nil
}
