//go:build verif

package main

// Section D: key and parameters objects — accessors handing out bytes (found by reflection) and
// constructors taking bytes (per key package).

import (
	"fmt"
	"strings"

	aeadctrhmac "github.com/tink-crypto/tink-go/v2/aead/aesctrhmac"
	"github.com/tink-crypto/tink-go/v2/aead/aesgcm"
	"github.com/tink-crypto/tink-go/v2/aead/aesgcmsiv"
	"github.com/tink-crypto/tink-go/v2/aead/chacha20poly1305"
	"github.com/tink-crypto/tink-go/v2/aead/xaesgcm"
	"github.com/tink-crypto/tink-go/v2/aead/xchacha20poly1305"
	"github.com/tink-crypto/tink-go/v2/daead/aessiv"
	"github.com/tink-crypto/tink-go/v2/hybrid/ecies"
	"github.com/tink-crypto/tink-go/v2/hybrid/hpke"
	"github.com/tink-crypto/tink-go/v2/insecurecleartextkeyset"
	"github.com/tink-crypto/tink-go/v2/internal/internalapi"
	"github.com/tink-crypto/tink-go/v2/internal/protoserialization"
	"github.com/tink-crypto/tink-go/v2/internal/verifharness/hlib"
	"github.com/tink-crypto/tink-go/v2/internal/verifharness/kslib"
	"github.com/tink-crypto/tink-go/v2/jwt"
	"github.com/tink-crypto/tink-go/v2/jwt/jwtecdsa"
	"github.com/tink-crypto/tink-go/v2/jwt/jwthmac"
	"github.com/tink-crypto/tink-go/v2/jwt/jwtmldsa"
	"github.com/tink-crypto/tink-go/v2/jwt/jwtrsassapkcs1"
	"github.com/tink-crypto/tink-go/v2/jwt/jwtrsassapss"
	"github.com/tink-crypto/tink-go/v2/key"
	"github.com/tink-crypto/tink-go/v2/keyderivation/prfbasedkeyderivation"
	"github.com/tink-crypto/tink-go/v2/keyset"
	"github.com/tink-crypto/tink-go/v2/mac/aescmac"
	"github.com/tink-crypto/tink-go/v2/mac/hmac"
	"github.com/tink-crypto/tink-go/v2/prf/aescmacprf"
	"github.com/tink-crypto/tink-go/v2/prf/hkdfprf"
	"github.com/tink-crypto/tink-go/v2/prf/hmacprf"
	"github.com/tink-crypto/tink-go/v2/secretdata"
	"github.com/tink-crypto/tink-go/v2/signature/compositemldsa"
	"github.com/tink-crypto/tink-go/v2/signature/ecdsa"
	"github.com/tink-crypto/tink-go/v2/signature/ed25519"
	"github.com/tink-crypto/tink-go/v2/signature/mldsa"
	"github.com/tink-crypto/tink-go/v2/signature/rsassapkcs1"
	"github.com/tink-crypto/tink-go/v2/signature/rsassapss"
	"github.com/tink-crypto/tink-go/v2/signature/slhdsa"
	streamctrhmac "github.com/tink-crypto/tink-go/v2/streamingaead/aesctrhmac"
	"github.com/tink-crypto/tink-go/v2/streamingaead/aesgcmhkdf"
	"google.golang.org/protobuf/proto"

	tinkpb "github.com/tink-crypto/tink-go/v2/proto/tink_go_proto"
)

// extraKeys adds keys the pool's templates do not produce: an HKDF-PRF key with a salt.
func extraKeys(pool *kslib.Pool) {
	params, err := hkdfprf.NewParameters(32, hkdfprf.SHA256, []byte("c19 hkdf prf salt"))
	if err != nil {
		return
	}
	km := keyset.NewManager()
	id, err := km.AddNewKeyFromParameters(params)
	if err != nil {
		return
	}
	if km.SetPrimary(id) != nil {
		return
	}
	h, err := km.Handle()
	if err != nil {
		return
	}
	k0 := insecurecleartextkeyset.KeysetMaterial(h).GetKey()[0]
	pool.Keys = append(pool.Keys, &kslib.PoolKey{Name: "HKDFSHA256PRF-salted", Class: "prf", Type: kslib.TypeOfURL(k0.GetKeyData().GetTypeUrl()),
		KD: proto.Clone(k0.GetKeyData()).(*tinkpb.KeyData), Prefix: k0.GetOutputPrefixType(), Pub: -1, Priv: -1})
}

// keyVariants: the output prefix variants under which the key-object sections look at a pool key: its
// own in the quick tier, all four in the thorough tier.
func keyVariants(pk *kslib.PoolKey) []tinkpb.OutputPrefixType {
	if !hlib.Thorough() || slowKey(pk) {
		return []tinkpb.OutputPrefixType{pk.Prefix}
	}
	return prefixTypes
}

func parseKey(kd *tinkpb.KeyData, pt tinkpb.OutputPrefixType) (k key.Key, err error) {
	if pan := hlib.Recover(func() {
		id := uint32(fixedKeyID)
		if pt == tinkpb.OutputPrefixType_RAW {
			id = 0
		}
		var ks *protoserialization.KeySerialization
		ks, err = protoserialization.NewKeySerialization(proto.Clone(kd).(*tinkpb.KeyData), pt, id)
		if err != nil {
			return
		}
		k, err = protoserialization.ParseKey(ks)
	}); pan != "" {
		return nil, fmt.Errorf("panic: %s", pan)
	}
	return k, err
}

// ---- JWT probes (the JWT primitives take no byte slices; they serve as observations only)

func jwtFactory(class string) func(h *keyset.Handle) (any, error) {
	switch class {
	case "jwtmac":
		return func(h *keyset.Handle) (any, error) { return jwt.NewMAC(h) }
	case "jwtsig":
		return func(h *keyset.Handle) (any, error) { return jwt.NewSigner(h) }
	case "jwtsigpub":
		return func(h *keyset.Handle) (any, error) { return jwt.NewVerifier(h) }
	}
	return nil
}

func jwtCross(class string, p, q any) (s string) {
	if pan := hlib.Recover(func() {
		sub := "c19"
		raw, err := jwt.NewRawJWT(&jwt.RawJWTOptions{Subject: &sub, WithoutExpiration: true})
		if err != nil {
			s = "jwt=rawerr"
			return
		}
		val, err := jwt.NewValidator(&jwt.ValidatorOpts{AllowMissingExpiration: true})
		if err != nil {
			s = "jwt=valerr"
			return
		}
		switch class {
		case "jwtmac":
			t, e1 := p.(jwt.MAC).ComputeMACAndEncode(raw)
			_, e2 := q.(jwt.MAC).VerifyMACAndDecode(t, val)
			s = "jwtmac=" + errS(e1) + errS(e2)
		case "jwtsig":
			t, e1 := p.(jwt.Signer).SignAndEncode(raw)
			_, e2 := q.(jwt.Verifier).VerifyAndDecode(t, val)
			s = "jwtsig=" + errS(e1) + errS(e2)
		case "jwtsigpub":
			t, e1 := q.(jwt.Signer).SignAndEncode(raw)
			_, e2 := p.(jwt.Verifier).VerifyAndDecode(t, val)
			s = "jwtsigpub=" + errS(e1) + errS(e2)
		}
	}); pan != "" {
		return "jwt=panic:" + pan
	}
	return s
}

// keyProbe returns a function describing the behaviour of the primitive built from a key object
// (of the pool key idx with prefix pt), judged by a pristine partner built from the pool's proto.
func keyProbe(pool *kslib.Pool, idx int, pt tinkpb.OutputPrefixType) func(k key.Key) string {
	pk := pool.Keys[idx]
	if slowKey(pk) {
		return nil
	}
	ks := keysetOf(pk.KD, pt)
	var cks *tinkpb.Keyset
	if pk.Priv >= 0 {
		cks = keysetOf(pool.Keys[pk.Priv].KD, pt)
	}
	handleOf := fixedHandleOf
	if jf := jwtFactory(pk.Class); jf != nil {
		var q any
		var err error
		switch pk.Class {
		case "jwtmac":
			q, err = recoverAny(func() (any, error) {
				h, err := readHandle(ks)
				if err != nil {
					return nil, err
				}
				return jf(h)
			})
		case "jwtsig":
			q, err = recoverAny(func() (any, error) {
				h, err := publicOf(ks)
				if err != nil {
					return nil, err
				}
				return jwt.NewVerifier(h)
			})
		case "jwtsigpub":
			q, err = recoverAny(func() (any, error) {
				h, err := readHandle(cks)
				if err != nil {
					return nil, err
				}
				return jwt.NewSigner(h)
			})
		}
		if err != nil {
			return nil
		}
		return func(k key.Key) string {
			p, err := recoverAny(func() (any, error) {
				h, err := handleOf(k)
				if err != nil {
					return nil, err
				}
				return jf(h)
			})
			if err != nil {
				return "primitive=err"
			}
			return jwtCross(pk.Class, p, q)
		}
	}
	class := primClass(pk.Class)
	if class == "" {
		return nil
	}
	_, f := factory(class)
	q, err := partner(class, ks, cks, false)
	if err != nil {
		return nil
	}
	return func(k key.Key) string {
		var h *keyset.Handle
		p, err := recoverAny(func() (any, error) {
			var err error
			h, err = handleOf(k)
			if err != nil {
				return nil, err
			}
			return f(h)
		})
		if err != nil {
			return "primitive=err"
		}
		return cross(class, p, q)
	}
}

// fixedHandleOf: keyset.Manager.AddKey path with a fixed key id.
func fixedHandleOf(k key.Key) (*keyset.Handle, error) {
	km := keyset.NewManager()
	if _, err := km.AddKeyWithOpts(k, internalapi.Token{}, keyset.AsPrimary(), keyset.WithFixedID(fixedKeyID)); err != nil {
		return nil, err
	}
	return km.Handle()
}

func handleOfHex(k key.Key) string {
	h, err := fixedHandleOf(k)
	if err != nil {
		return "handle=err"
	}
	return "handle=" + handleHex(h)
}

func (e *engine) sectionKeys(pool *kslib.Pool, seed uint64) {
	accSeen := map[string]bool{}
	ctorSeen := map[string]bool{}
	for i, pk := range pool.Keys {
		for _, pt := range keyVariants(pk) {
			i, pk, pt := i, pk, pt
			e.safe("key objects of "+pk.Name, func() { e.keyObject(pool, i, pk, pt, accSeen, ctorSeen) })
		}
	}
	// secretdata
	rng := hlib.NewRng(seed, "c19-secretdata")
	for _, n := range []int{0, 1, 32} {
		data := rng.Bytes(n)
		e.run(spec{api: "secretdata.NewBytesFromData", ins: []in1{{"data", data}}, once: true, mk: func() (*inst, error) {
			var sd secretdata.Bytes
			twin := secretdata.NewBytesFromData(cl(data), tok)
			return &inst{call: func(ins [][]byte) ([][]byte, string) {
				sd = secretdata.NewBytesFromData(ins[0], tok)
				return nil, "ok"
			}, observe: func() string {
				return fmt.Sprintf("data=%x|equal=%v|len=%d", sd.Data(tok), sd.Equal(twin), sd.Len())
			}}, nil
		}})
		e.run(spec{api: "secretdata.Bytes.Data", det: true, extra: fmt.Sprintf("len=%d", n), mk: func() (*inst, error) {
			sd := secretdata.NewBytesFromData(cl(data), tok)
			twin := secretdata.NewBytesFromData(cl(data), tok)
			return &inst{call: func([][]byte) ([][]byte, string) { return [][]byte{sd.Data(tok)}, "ok" },
				observe: func() string { return fmt.Sprintf("data=%x|equal=%v", sd.Data(tok), sd.Equal(twin)) }}, nil
		}})
	}
	if sd, err := secretdata.NewBytesFromRand(32); err == nil {
		e.run(spec{api: "secretdata.NewBytesFromRand.Data", det: true, mk: func() (*inst, error) {
			want := sd.Data(tok)
			return &inst{call: func([][]byte) ([][]byte, string) { return [][]byte{sd.Data(tok)}, "ok" },
				observe: func() string { return fmt.Sprintf("same=%v", string(sd.Data(tok)) == string(want)) }}, nil
		}})
	}
	e.o.Hist["accessors-covered"] = len(accSeen)
	e.o.Hist["constructors-covered"] = len(ctorSeen)
}

// keyObject: accessors and constructors of one pool key under one output prefix variant.
func (e *engine) keyObject(pool *kslib.Pool, i int, pk *kslib.PoolKey, pt tinkpb.OutputPrefixType, accSeen, ctorSeen map[string]bool) {
	func() {
		vtok := " variant=" + variantName(pt)
		root, err := parseKey(pk.KD, pt)
		if err != nil {
			e.skip("key-object["+pk.Name+"/"+variantName(pt)+"]", err.Error())
			return
		}
		probe := keyProbe(pool, i, pt)
		obs := func(k, twin key.Key) string {
			s := objObs(k, twin)
			if probe != nil {
				s += "|" + probe(k)
			}
			return s
		}
		// ---- accessors
		for _, lf := range accessors(root) {
			lf := lf
			accSeen[lf.api] = true
			e.o.Count("accessor:" + lf.api)
			e.run(spec{api: lf.api, det: true, extra: "root=" + pk.Name + vtok + " path=" + strings.Join(lf.path, "."),
				mk: func() (*inst, error) {
					k, err := parseKey(pk.KD, pt)
					if err != nil {
						return nil, err
					}
					twin, err := parseKey(pk.KD, pt)
					if err != nil {
						return nil, err
					}
					return &inst{
						call:    func([][]byte) ([][]byte, string) { return [][]byte{lf.bytes(k)}, "ok" },
						observe: func() string { return obs(k, twin) },
					}, nil
				}})
		}
		// ---- constructors
		for _, c := range ctorsFor(root) {
			c := c
			ctorSeen[c.api] = true
			e.o.Count("constructor:" + c.api)
			twin, err := recoverAny(func() (any, error) { return c.build(insVals(c.ins)) })
			if err != nil {
				e.skip(c.api+"["+pk.Name+"]", "pristine twin: "+err.Error())
				continue
			}
			e.run(spec{api: c.api, extra: "key=" + pk.Name + vtok, ins: c.ins, once: true, mk: func() (*inst, error) {
				var obj any
				return &inst{
					call: func(ins [][]byte) ([][]byte, string) {
						var err error
						obj, err = c.build(ins)
						return nil, errS(err)
					},
					observe: func() string {
						if obj == nil {
							return "no-object"
						}
						s := objObs(obj, twin)
						if k, ok := obj.(key.Key); ok {
							s += "|" + handleOfHex(k)
							if probe != nil && c.sameKey {
								s += "|" + probe(k)
							}
						}
						return s
					},
				}, nil
			}})
			// the same constructor with big-endian / padded encodings of its inputs (leadzero.go)
			for _, v := range leadZeroVariants(c.ins, c.build) {
				v := v
				e.o.Count("constructor-leadzero:" + c.api)
				e.run(spec{api: c.api + v.tag, extra: "key=" + pk.Name + vtok, ins: v.ins, once: true, lays: leadZeroLayouts(), mk: func() (*inst, error) {
					var obj any
					return &inst{
						call: func(ins [][]byte) ([][]byte, string) {
							var err error
							obj, err = c.build(ins)
							return nil, errS(err)
						},
						observe: func() string {
							if obj == nil {
								return "no-object"
							}
							s := objObs(obj, v.twin) + "|" + objObs(obj, twin)
							if k, ok := obj.(key.Key); ok {
								s += "|" + handleOfHex(k)
								if probe != nil && c.sameKey {
									s += "|" + probe(k)
								}
							}
							return s
						},
					}, nil
				}})
			}
		}
	}()
}

// objCtor is one constructor call that rebuilds (a part of) a key from bytes.
type objCtor struct {
	api     string
	ins     []in1
	build   func(ins [][]byte) (any, error)
	sameKey bool // the result is the same key as the pool key (the primitive probe applies)
}

func kidIf(custom bool, kid string) string {
	if custom {
		return kid
	}
	return ""
}

func sdOf(b []byte) secretdata.Bytes { return secretdata.NewBytesFromData(b, tok) }

// ctorsFor lists the byte-taking constructors that rebuild k (constructors taking secretdata.Bytes
// are reached through secretdata.NewBytesFromData(caller's slice)).
func ctorsFor(k key.Key) []objCtor {
	id, _ := k.IDRequirement()
	one := func(api, name string, val []byte, f func(b []byte) (any, error)) objCtor {
		return objCtor{api: api, ins: []in1{{name, val}}, build: func(ins [][]byte) (any, error) { return f(ins[0]) }, sameKey: true}
	}
	sdName := "(secretdata.NewBytesFromData)"
	switch x := k.(type) {
	case *aesgcm.Key:
		return []objCtor{one("aead/aesgcm.NewKey"+sdName, "keyBytes", x.KeyBytes().Data(tok), func(b []byte) (any, error) {
			return aesgcm.NewKey(sdOf(b), id, x.Parameters().(*aesgcm.Parameters))
		})}
	case *aesgcmsiv.Key:
		return []objCtor{one("aead/aesgcmsiv.NewKey"+sdName, "keyBytes", x.KeyBytes().Data(tok), func(b []byte) (any, error) {
			return aesgcmsiv.NewKey(sdOf(b), id, x.Parameters().(*aesgcmsiv.Parameters))
		})}
	case *chacha20poly1305.Key:
		return []objCtor{one("aead/chacha20poly1305.NewKey"+sdName, "keyBytes", x.KeyBytes().Data(tok), func(b []byte) (any, error) {
			return chacha20poly1305.NewKey(sdOf(b), id, x.Parameters().(*chacha20poly1305.Parameters))
		})}
	case *xchacha20poly1305.Key:
		return []objCtor{one("aead/xchacha20poly1305.NewKey"+sdName, "keyBytes", x.KeyBytes().Data(tok), func(b []byte) (any, error) {
			return xchacha20poly1305.NewKey(sdOf(b), id, x.Parameters().(*xchacha20poly1305.Parameters))
		})}
	case *xaesgcm.Key:
		return []objCtor{one("aead/xaesgcm.NewKey"+sdName, "keyBytes", x.KeyBytes().Data(tok), func(b []byte) (any, error) {
			return xaesgcm.NewKey(sdOf(b), id, x.Parameters().(*xaesgcm.Parameters))
		})}
	case *aeadctrhmac.Key:
		return []objCtor{{api: "aead/aesctrhmac.NewKey" + sdName, sameKey: true,
			ins: []in1{{"AESKeyBytes", x.AESKeyBytes().Data(tok)}, {"HMACKeyBytes", x.HMACKeyBytes().Data(tok)}},
			build: func(ins [][]byte) (any, error) {
				return aeadctrhmac.NewKey(aeadctrhmac.KeyOpts{AESKeyBytes: sdOf(ins[0]), HMACKeyBytes: sdOf(ins[1]), IDRequirement: id, Parameters: x.Parameters().(*aeadctrhmac.Parameters)})
			}}}
	case *aessiv.Key:
		return []objCtor{one("daead/aessiv.NewKey"+sdName, "keyBytes", x.KeyBytes().Data(tok), func(b []byte) (any, error) {
			return aessiv.NewKey(sdOf(b), id, x.Parameters().(*aessiv.Parameters))
		})}
	case *hmac.Key:
		return []objCtor{one("mac/hmac.NewKey"+sdName, "keyBytes", x.KeyBytes().Data(tok), func(b []byte) (any, error) {
			return hmac.NewKey(sdOf(b), x.Parameters().(*hmac.Parameters), id)
		})}
	case *aescmac.Key:
		return []objCtor{one("mac/aescmac.NewKey"+sdName, "keyBytes", x.KeyBytes().Data(tok), func(b []byte) (any, error) {
			return aescmac.NewKey(sdOf(b), x.Parameters().(*aescmac.Parameters), id)
		})}
	case *hmacprf.Key:
		return []objCtor{one("prf/hmacprf.NewKey"+sdName, "keyBytes", x.KeyBytes().Data(tok), func(b []byte) (any, error) {
			return hmacprf.NewKey(sdOf(b), x.Parameters().(*hmacprf.Parameters))
		})}
	case *aescmacprf.Key:
		return []objCtor{one("prf/aescmacprf.NewKey"+sdName, "keyBytes", x.KeyBytes().Data(tok), func(b []byte) (any, error) {
			return aescmacprf.NewKey(sdOf(b))
		})}
	case *hkdfprf.Key:
		par := x.Parameters().(*hkdfprf.Parameters)
		cs := []objCtor{one("prf/hkdfprf.NewKey"+sdName, "keyBytes", x.KeyBytes().Data(tok), func(b []byte) (any, error) {
			return hkdfprf.NewKey(sdOf(b), par)
		})}
		salt := cl(par.Salt())
		cs = append(cs, objCtor{api: "prf/hkdfprf.NewParameters", ins: []in1{{"salt", salt}}, build: func(ins [][]byte) (any, error) {
			return hkdfprf.NewParameters(par.KeySizeInBytes(), par.HashType(), ins[0])
		}})
		// the parameters built from the caller's salt inside a key: the key must not follow the salt
		keyBytes := x.KeyBytes().Data(tok)
		cs = append(cs, objCtor{api: "prf/hkdfprf.NewKey(NewParameters(salt))", sameKey: true, ins: []in1{{"salt", salt}}, build: func(ins [][]byte) (any, error) {
			p, err := hkdfprf.NewParameters(par.KeySizeInBytes(), par.HashType(), ins[0])
			if err != nil {
				return nil, err
			}
			return hkdfprf.NewKey(sdOf(cl(keyBytes)), p)
		}})
		return cs
	case *aesgcmhkdf.Key:
		return []objCtor{one("streamingaead/aesgcmhkdf.NewKey"+sdName, "keyBytes", x.KeyBytes().Data(tok), func(b []byte) (any, error) {
			return aesgcmhkdf.NewKey(x.Parameters().(*aesgcmhkdf.Parameters), sdOf(b))
		})}
	case *streamctrhmac.Key:
		return []objCtor{one("streamingaead/aesctrhmac.NewKey"+sdName, "keyBytes", x.KeyBytes().Data(tok), func(b []byte) (any, error) {
			return streamctrhmac.NewKey(x.Parameters().(*streamctrhmac.Parameters), sdOf(b))
		})}
	case *ecdsa.PublicKey:
		return []objCtor{one("signature/ecdsa.NewPublicKey", "publicPoint", x.PublicPoint(), func(b []byte) (any, error) {
			return ecdsa.NewPublicKey(b, id, x.Parameters().(*ecdsa.Parameters))
		})}
	case *ecdsa.PrivateKey:
		pub, _ := x.PublicKey()
		return []objCtor{
			one("signature/ecdsa.NewPrivateKey"+sdName, "privateKeyValue", x.PrivateKeyValue().Data(tok), func(b []byte) (any, error) {
				return ecdsa.NewPrivateKey(sdOf(b), id, x.Parameters().(*ecdsa.Parameters))
			}),
			one("signature/ecdsa.NewPrivateKeyFromPublicKey"+sdName, "privateKeyValue", x.PrivateKeyValue().Data(tok), func(b []byte) (any, error) {
				return ecdsa.NewPrivateKeyFromPublicKey(pub.(*ecdsa.PublicKey), sdOf(b))
			}),
			one("signature/ecdsa.NewPrivateKeyFromPublicKey(NewPublicKey(publicPoint))", "publicPoint", pub.(*ecdsa.PublicKey).PublicPoint(), func(b []byte) (any, error) {
				p, err := ecdsa.NewPublicKey(b, id, x.Parameters().(*ecdsa.Parameters))
				if err != nil {
					return nil, err
				}
				return ecdsa.NewPrivateKeyFromPublicKey(p, sdOf(x.PrivateKeyValue().Data(tok)))
			}),
		}
	case *ed25519.PublicKey:
		return []objCtor{one("signature/ed25519.NewPublicKey", "keyBytes", x.KeyBytes(), func(b []byte) (any, error) {
			return ed25519.NewPublicKey(b, id, *x.Parameters().(*ed25519.Parameters))
		})}
	case *ed25519.PrivateKey:
		pub, _ := x.PublicKey()
		return []objCtor{
			one("signature/ed25519.NewPrivateKey"+sdName, "privateKeyBytes", x.PrivateKeyBytes().Data(tok), func(b []byte) (any, error) {
				return ed25519.NewPrivateKey(sdOf(b), id, *x.Parameters().(*ed25519.Parameters))
			}),
			one("signature/ed25519.NewPrivateKeyWithPublicKey"+sdName, "privateKeyBytes", x.PrivateKeyBytes().Data(tok), func(b []byte) (any, error) {
				return ed25519.NewPrivateKeyWithPublicKey(sdOf(b), pub.(*ed25519.PublicKey))
			}),
		}
	case *mldsa.PublicKey:
		return []objCtor{one("signature/mldsa.NewPublicKey", "keyBytes", x.KeyBytes(), func(b []byte) (any, error) {
			return mldsa.NewPublicKey(b, id, x.Parameters().(*mldsa.Parameters))
		})}
	case *mldsa.PrivateKey:
		pub, _ := x.PublicKey()
		return []objCtor{
			one("signature/mldsa.NewPrivateKey"+sdName, "privateKeyBytes", x.PrivateKeyBytes().Data(tok), func(b []byte) (any, error) {
				return mldsa.NewPrivateKey(sdOf(b), id, x.Parameters().(*mldsa.Parameters))
			}),
			one("signature/mldsa.NewPrivateKeyWithPublicKey"+sdName, "privateKeyBytes", x.PrivateKeyBytes().Data(tok), func(b []byte) (any, error) {
				return mldsa.NewPrivateKeyWithPublicKey(sdOf(b), pub.(*mldsa.PublicKey))
			}),
		}
	case *slhdsa.PublicKey:
		return []objCtor{one("signature/slhdsa.NewPublicKey", "keyBytes", x.KeyBytes(), func(b []byte) (any, error) {
			return slhdsa.NewPublicKey(b, id, x.Parameters().(*slhdsa.Parameters))
		})}
	case *slhdsa.PrivateKey:
		pub, _ := x.PublicKey()
		return []objCtor{
			one("signature/slhdsa.NewPrivateKey"+sdName, "privateKeyBytes", x.PrivateKeyBytes().Data(tok), func(b []byte) (any, error) {
				return slhdsa.NewPrivateKey(sdOf(b), id, x.Parameters().(*slhdsa.Parameters))
			}),
			one("signature/slhdsa.NewPrivateKeyWithPublicKey"+sdName, "privateKeyBytes", x.PrivateKeyBytes().Data(tok), func(b []byte) (any, error) {
				return slhdsa.NewPrivateKeyWithPublicKey(sdOf(b), pub.(*slhdsa.PublicKey))
			}),
		}
	case *rsassapkcs1.PublicKey:
		return []objCtor{one("signature/rsassapkcs1.NewPublicKey", "modulus", x.Modulus(), func(b []byte) (any, error) {
			return rsassapkcs1.NewPublicKey(b, id, x.Parameters().(*rsassapkcs1.Parameters))
		})}
	case *rsassapkcs1.PrivateKey:
		pub, _ := x.PublicKey()
		return []objCtor{{api: "signature/rsassapkcs1.NewPrivateKey" + sdName, sameKey: true,
			ins: []in1{{"P", x.P().Data(tok)}, {"Q", x.Q().Data(tok)}, {"D", x.D().Data(tok)}},
			build: func(ins [][]byte) (any, error) {
				return rsassapkcs1.NewPrivateKey(pub.(*rsassapkcs1.PublicKey), rsassapkcs1.PrivateKeyValues{P: sdOf(ins[0]), Q: sdOf(ins[1]), D: sdOf(ins[2])})
			}}}
	case *rsassapss.PublicKey:
		return []objCtor{one("signature/rsassapss.NewPublicKey", "modulus", x.Modulus(), func(b []byte) (any, error) {
			return rsassapss.NewPublicKey(b, id, x.Parameters().(*rsassapss.Parameters))
		})}
	case *rsassapss.PrivateKey:
		pub, _ := x.PublicKey()
		return []objCtor{{api: "signature/rsassapss.NewPrivateKey" + sdName, sameKey: true,
			ins: []in1{{"P", x.P().Data(tok)}, {"Q", x.Q().Data(tok)}, {"D", x.D().Data(tok)}},
			build: func(ins [][]byte) (any, error) {
				return rsassapss.NewPrivateKey(pub.(*rsassapss.PublicKey), rsassapss.PrivateKeyValues{P: sdOf(ins[0]), Q: sdOf(ins[1]), D: sdOf(ins[2])})
			}}}
	case *compositemldsa.PublicKey:
		// NewPublicKey(mlDSAPublicKey, classicalPublicKey, …) takes key objects: the ML-DSA part is
		// rebuilt from the caller's bytes
		par := x.Parameters().(*compositemldsa.Parameters)
		ml := x.MLDSAPublicKey()
		return []objCtor{one("signature/compositemldsa.NewPublicKey(mldsa.NewPublicKey(keyBytes))", "keyBytes", ml.KeyBytes(), func(b []byte) (any, error) {
			m, err := mldsa.NewPublicKey(b, 0, ml.Parameters().(*mldsa.Parameters))
			if err != nil {
				return nil, err
			}
			return compositemldsa.NewPublicKey(m, x.ClassicalPublicKey(), id, par)
		})}
	case *compositemldsa.PrivateKey:
		par := x.Parameters().(*compositemldsa.Parameters)
		ml := x.MLDSAPrivateKey()
		return []objCtor{one("signature/compositemldsa.NewPrivateKey(mldsa.NewPrivateKey"+sdName+")", "privateKeyBytes", ml.PrivateKeyBytes().Data(tok), func(b []byte) (any, error) {
			m, err := mldsa.NewPrivateKey(sdOf(b), 0, ml.Parameters().(*mldsa.Parameters))
			if err != nil {
				return nil, err
			}
			return compositemldsa.NewPrivateKey(m, x.ClassicalPrivateKey(), id, par)
		})}
	case *hpke.PublicKey:
		return []objCtor{one("hybrid/hpke.NewPublicKey", "publicKeyBytes", x.PublicKeyBytes(), func(b []byte) (any, error) {
			return hpke.NewPublicKey(b, id, x.Parameters().(*hpke.Parameters))
		})}
	case *hpke.PrivateKey:
		pub, _ := x.PublicKey()
		return []objCtor{
			one("hybrid/hpke.NewPrivateKey"+sdName, "privateKeyBytes", x.PrivateKeyBytes().Data(tok), func(b []byte) (any, error) {
				return hpke.NewPrivateKey(sdOf(b), id, x.Parameters().(*hpke.Parameters))
			}),
			one("hybrid/hpke.NewPrivateKeyFromPublicKey"+sdName, "privateKeyBytes", x.PrivateKeyBytes().Data(tok), func(b []byte) (any, error) {
				return hpke.NewPrivateKeyFromPublicKey(sdOf(b), pub.(*hpke.PublicKey))
			}),
			one("hybrid/hpke.NewPrivateKeyFromPublicKey(NewPublicKey(publicKeyBytes))", "publicKeyBytes", pub.(*hpke.PublicKey).PublicKeyBytes(), func(b []byte) (any, error) {
				p, err := hpke.NewPublicKey(b, id, x.Parameters().(*hpke.Parameters))
				if err != nil {
					return nil, err
				}
				return hpke.NewPrivateKeyFromPublicKey(sdOf(x.PrivateKeyBytes().Data(tok)), p)
			}),
		}
	case *ecies.PublicKey:
		par := x.Parameters().(*ecies.Parameters)
		cs := []objCtor{one("hybrid/ecies.NewPublicKey", "publicKeyBytes", x.PublicKeyBytes(), func(b []byte) (any, error) {
			return ecies.NewPublicKey(b, id, par)
		})}
		pkb := cl(x.PublicKeyBytes())
		mkPar := func(salt []byte) (*ecies.Parameters, error) {
			return ecies.NewParameters(ecies.ParametersOpts{CurveType: par.CurveType(), HashType: par.HashType(), NISTCurvePointFormat: par.NISTCurvePointFormat(),
				DEMParameters: par.DEMParameters(), Salt: salt, Variant: par.Variant()})
		}
		cs = append(cs, objCtor{api: "hybrid/ecies.NewParameters", ins: []in1{{"Salt", cl(par.Salt())}}, build: func(ins [][]byte) (any, error) { return mkPar(ins[0]) }})
		cs = append(cs, objCtor{api: "hybrid/ecies.NewPublicKey(NewParameters(Salt))", sameKey: true, ins: []in1{{"Salt", cl(par.Salt())}}, build: func(ins [][]byte) (any, error) {
			p, err := mkPar(ins[0])
			if err != nil {
				return nil, err
			}
			return ecies.NewPublicKey(cl(pkb), id, p)
		}})
		return cs
	case *ecies.PrivateKey:
		pub, _ := x.PublicKey()
		return []objCtor{
			one("hybrid/ecies.NewPrivateKey"+sdName, "privateKeyBytes", x.PrivateKeyBytes().Data(tok), func(b []byte) (any, error) {
				return ecies.NewPrivateKey(sdOf(b), id, x.Parameters().(*ecies.Parameters))
			}),
			one("hybrid/ecies.NewPrivateKeyFromPublicKey"+sdName, "privateKeyBytes", x.PrivateKeyBytes().Data(tok), func(b []byte) (any, error) {
				return ecies.NewPrivateKeyFromPublicKey(sdOf(b), pub.(*ecies.PublicKey))
			}),
			one("hybrid/ecies.NewPrivateKeyFromPublicKey(NewPublicKey(publicKeyBytes))", "publicKeyBytes", pub.(*ecies.PublicKey).PublicKeyBytes(), func(b []byte) (any, error) {
				p, err := ecies.NewPublicKey(b, id, x.Parameters().(*ecies.Parameters))
				if err != nil {
					return nil, err
				}
				return ecies.NewPrivateKeyFromPublicKey(sdOf(x.PrivateKeyBytes().Data(tok)), p)
			}),
		}
	case *jwthmac.Key:
		kid, has := x.KID()
		par := x.Parameters().(*jwthmac.Parameters)
		custom := has && par.KIDStrategy() == jwthmac.CustomKID
		return []objCtor{one("jwt/jwthmac.NewKey"+sdName, "KeyBytes", x.KeyBytes().Data(tok), func(b []byte) (any, error) {
			return jwthmac.NewKey(jwthmac.KeyOpts{KeyBytes: sdOf(b), IDRequirement: id, CustomKID: kidIf(custom, kid), HasCustomKID: custom, Parameters: par})
		})}
	case *jwtecdsa.PublicKey:
		kid, has := x.KID()
		par := x.Parameters().(*jwtecdsa.Parameters)
		custom := has && par.KIDStrategy() == jwtecdsa.CustomKID
		return []objCtor{one("jwt/jwtecdsa.NewPublicKey", "PublicPoint", x.PublicPoint(), func(b []byte) (any, error) {
			return jwtecdsa.NewPublicKey(jwtecdsa.PublicKeyOpts{PublicPoint: b, IDRequirement: id, CustomKID: kidIf(custom, kid), HasCustomKID: custom, Parameters: par})
		})}
	case *jwtecdsa.PrivateKey:
		pub, _ := x.PublicKey()
		pp := pub.(*jwtecdsa.PublicKey)
		kid, has := pp.KID()
		par := x.Parameters().(*jwtecdsa.Parameters)
		custom := has && par.KIDStrategy() == jwtecdsa.CustomKID
		return []objCtor{
			one("jwt/jwtecdsa.NewPrivateKeyFromPublicKey"+sdName, "keyBytes", x.PrivateKeyValue().Data(tok), func(b []byte) (any, error) {
				return jwtecdsa.NewPrivateKeyFromPublicKey(sdOf(b), pp)
			}),
			one("jwt/jwtecdsa.NewPrivateKeyFromPublicKey(NewPublicKey(PublicPoint))", "PublicPoint", pp.PublicPoint(), func(b []byte) (any, error) {
				p, err := jwtecdsa.NewPublicKey(jwtecdsa.PublicKeyOpts{PublicPoint: b, IDRequirement: id, CustomKID: kidIf(custom, kid), HasCustomKID: custom, Parameters: par})
				if err != nil {
					return nil, err
				}
				return jwtecdsa.NewPrivateKeyFromPublicKey(sdOf(x.PrivateKeyValue().Data(tok)), p)
			}),
		}
	case *jwtmldsa.PublicKey:
		kid, has := x.KID()
		par := x.Parameters().(*jwtmldsa.Parameters)
		custom := has && par.KIDStrategy() == jwtmldsa.CustomKID
		return []objCtor{one("jwt/jwtmldsa.NewPublicKey", "KeyBytes", x.KeyBytes(), func(b []byte) (any, error) {
			return jwtmldsa.NewPublicKey(jwtmldsa.PublicKeyOpts{KeyBytes: b, IDRequirement: id, CustomKID: kidIf(custom, kid), HasCustomKID: custom, Parameters: par})
		})}
	case *jwtmldsa.PrivateKey:
		pub, _ := x.PublicKey()
		return []objCtor{one("jwt/jwtmldsa.NewPrivateKeyFromPublicKey"+sdName, "keyBytes", x.PrivateKeyValue().Data(tok), func(b []byte) (any, error) {
			return jwtmldsa.NewPrivateKeyFromPublicKey(sdOf(b), pub.(*jwtmldsa.PublicKey))
		})}
	case *jwtrsassapkcs1.PublicKey:
		kid, has := x.KID()
		par := x.Parameters().(*jwtrsassapkcs1.Parameters)
		custom := has && par.KIDStrategy() == jwtrsassapkcs1.CustomKID
		return []objCtor{one("jwt/jwtrsassapkcs1.NewPublicKey", "Modulus", x.Modulus(), func(b []byte) (any, error) {
			return jwtrsassapkcs1.NewPublicKey(jwtrsassapkcs1.PublicKeyOpts{Modulus: b, IDRequirement: id, CustomKID: kidIf(custom, kid), HasCustomKID: custom, Parameters: par})
		})}
	case *jwtrsassapkcs1.PrivateKey:
		pub, _ := x.PublicKey()
		return []objCtor{{api: "jwt/jwtrsassapkcs1.NewPrivateKey" + sdName, sameKey: true,
			ins: []in1{{"D", x.D().Data(tok)}, {"P", x.P().Data(tok)}, {"Q", x.Q().Data(tok)}},
			build: func(ins [][]byte) (any, error) {
				return jwtrsassapkcs1.NewPrivateKey(jwtrsassapkcs1.PrivateKeyOpts{PublicKey: pub.(*jwtrsassapkcs1.PublicKey), D: sdOf(ins[0]), P: sdOf(ins[1]), Q: sdOf(ins[2])})
			}}}
	case *jwtrsassapss.PublicKey:
		kid, has := x.KID()
		par := x.Parameters().(*jwtrsassapss.Parameters)
		custom := has && par.KIDStrategy() == jwtrsassapss.CustomKID
		return []objCtor{one("jwt/jwtrsassapss.NewPublicKey", "Modulus", x.Modulus(), func(b []byte) (any, error) {
			return jwtrsassapss.NewPublicKey(jwtrsassapss.PublicKeyOpts{Modulus: b, IDRequirement: id, CustomKID: kidIf(custom, kid), HasCustomKID: custom, Parameters: par})
		})}
	case *jwtrsassapss.PrivateKey:
		pub, _ := x.PublicKey()
		return []objCtor{{api: "jwt/jwtrsassapss.NewPrivateKey" + sdName, sameKey: true,
			ins: []in1{{"D", x.D().Data(tok)}, {"P", x.P().Data(tok)}, {"Q", x.Q().Data(tok)}},
			build: func(ins [][]byte) (any, error) {
				return jwtrsassapss.NewPrivateKey(jwtrsassapss.PrivateKeyOpts{PublicKey: pub.(*jwtrsassapss.PublicKey), D: sdOf(ins[0]), P: sdOf(ins[1]), Q: sdOf(ins[2])})
			}}}
	case *prfbasedkeyderivation.Key:
		// NewKey(parameters, prfKey, id) takes a key object: the PRF key is rebuilt from the caller's bytes
		if pk, ok := x.PRFKey().(*hkdfprf.Key); ok {
			return []objCtor{one("keyderivation/prfbasedkeyderivation.NewKey(hkdfprf.NewKey"+sdName+")", "keyBytes", pk.KeyBytes().Data(tok), func(b []byte) (any, error) {
				p, err := hkdfprf.NewKey(sdOf(b), pk.Parameters().(*hkdfprf.Parameters))
				if err != nil {
					return nil, err
				}
				return prfbasedkeyderivation.NewKey(x.Parameters().(*prfbasedkeyderivation.Parameters), p, id)
			})}
		}
	}
	return nil
}
