//go:build verif

// placeholder: harness c19 is being written
package main

import "github.com/tink-crypto/tink-go/v2/internal/verifharness/hlib"

func main() {
	o := hlib.Open("c19")
	defer o.Close()
	o.Emit("B append 0102030405060708 1 2 4 aabb", "inplace 010203aabb060708 0203aabb", true)
}
