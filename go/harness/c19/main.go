//go:build verif

// Harness c19: guard-region differential for property C19 (no writes into caller buffers; keys,
// handles and results share no memory with callers). See engine.go for the line format.
package main

import (
	"fmt"
	"os"
	"sort"
	"strings"
	"time"

	"github.com/tink-crypto/tink-go/v2/internal/verifharness/hlib"
	"github.com/tink-crypto/tink-go/v2/internal/verifharness/kslib"
)

func main() {
	o := hlib.Open("c19")
	defer o.Close()
	seed := *hlib.FlagSeed
	kslib.InstallDetRand(seed)
	registerStubs()
	e := newEngine(o)
	only := *hlib.FlagMode // optional: comma separated section names
	want := func(s string) bool { return only == "" || strings.Contains(","+only+",", ","+s+",") }
	timed := func(name string, f func()) {
		if !want(name) {
			return
		}
		t0 := time.Now()
		n0 := o.N
		if pan := hlib.Recover(f); pan != "" {
			o.Violate("section %s aborted by a panic: %s", name, pan)
		}
		o.Hist["section-lines:"+name] = o.N - n0
		o.Hist["section-ms:"+name] = int(time.Since(t0).Milliseconds())
		fmt.Fprintf(os.Stderr, "c19: section %-10s %6d lines %8.2fs\n", name, o.N-n0, time.Since(t0).Seconds())
	}
	timed("heap", func() { heapLines(o, seed) })
	var pool *kslib.Pool
	timed("pool-gen", func() { pool = kslib.BuildPool() })
	if pool == nil {
		pool = kslib.BuildPool()
	}
	extraKeys(pool)
	timed("legacy", func() { e.sectionLegacy(seed) })
	timed("subtle", func() { e.sectionSubtle(seed) })
	timed("pool", func() { e.sectionPool(pool, seed) })
	timed("full", func() { e.sectionFull(pool, seed) })
	timed("keys", func() { e.sectionKeys(pool, seed) })
	timed("keysets", func() { e.sectionKeysets(pool, seed) })
	timed("fallback", func() { e.sectionFallback(seed) })
	timed("builders", func() { e.sectionBuilders(pool, seed) })

	o.Hist["apis"] = len(e.apis)
	o.Hist["apis-skipped"] = len(e.skipped)
	o.Hist["dirty-api-kinds"] = len(e.dirty)
	var ds []string
	for k, n := range e.dirty {
		ds = append(ds, fmt.Sprintf("%s x%d", k, n))
	}
	sort.Strings(ds)
	for _, d := range ds {
		fmt.Fprintln(os.Stderr, "c19: DIRTY", d)
	}
	type kv struct {
		k string
		v float64
	}
	var cs []kv
	for k, v := range e.cost {
		cs = append(cs, kv{k, v})
	}
	sort.Slice(cs, func(i, j int) bool { return cs[i].v > cs[j].v })
	for i := 0; i < len(cs) && i < 25; i++ {
		fmt.Fprintf(os.Stderr, "c19: cost %6.2fs %s\n", cs[i].v, cs[i].k)
	}
	var sk []string
	for k, v := range e.skipped {
		sk = append(sk, k+": "+v)
	}
	sort.Strings(sk)
	for _, s := range sk {
		fmt.Fprintln(os.Stderr, "c19: skipped", s)
	}
	for _, s := range pool.Skipped {
		fmt.Fprintln(os.Stderr, "c19: pool skipped", s)
	}
}
