//go:build verif

package main

// Validation of the Lean heap model of Go's append / slices.Concat / copy against the real runtime.

import (
	"fmt"
	"slices"
	"unsafe"

	"github.com/tink-crypto/tink-go/v2/internal/verifharness/hlib"
)

func heapLines(o *hlib.Out, seed uint64) {
	rng := hlib.NewRng(seed, "c19-heap")
	o.Case()
	emitAppend := func(arr []byte, off, ln, cp int, bs []byte) {
		a := slices.Clone(arr)
		s := a[off : off+ln : off+cp]
		r := append(s, bs...)
		inplace := unsafe.SliceData(r) == unsafe.SliceData(s) && ln+len(bs) <= cp
		w := "realloc"
		if inplace {
			w = "inplace"
		}
		o.Emit(fmt.Sprintf("B append %s %d %d %d %s", hlib.Tok(arr), off, ln, cp, hlib.Tok(bs)),
			fmt.Sprintf("%s %s %s", w, hlib.Tok(a), hlib.Tok(r)), true)
		o.Count("heap:append-" + w)
	}
	emitConcat := func(arr []byte, off, ln, cp int, bs []byte) {
		a := slices.Clone(arr)
		s := a[off : off+ln : off+cp]
		r := slices.Concat(s, bs)
		w := "realloc"
		if len(r) > 0 && overlaps(r, a) {
			w = "inplace"
		}
		o.Emit(fmt.Sprintf("B concat %s %d %d %d %s", hlib.Tok(arr), off, ln, cp, hlib.Tok(bs)),
			fmt.Sprintf("%s %s %s", w, hlib.Tok(a), hlib.Tok(r)), true)
		o.Count("heap:concat")
	}
	emitCopy := func(arr []byte, off, ln int, src []byte) {
		a := slices.Clone(arr)
		copy(a[off:off+ln], src)
		o.Emit(fmt.Sprintf("B copy %s %d %d %s", hlib.Tok(arr), off, ln, hlib.Tok(src)), hlib.Tok(a), true)
		o.Count("heap:copy")
	}
	// grid: len / spare / |bytes| incl. len = cap, spare = |bytes|, |bytes| = 0
	for _, off := range []int{0, 3} {
		for _, ln := range []int{0, 1, 5} {
			for _, spare := range []int{0, 1, 2, 4} {
				for _, nb := range []int{0, 1, 2, 4, 5} {
					for _, post := range []int{0, 2} {
						arr := rng.Bytes(off + ln + spare + post)
						if len(arr) == 0 {
							continue
						}
						bs := rng.Bytes(nb)
						emitAppend(arr, off, ln, ln+spare, bs)
						if (ln+spare+nb+post)%3 == 0 {
							emitConcat(arr, off, ln, ln+spare, bs)
						}
					}
				}
			}
		}
	}
	for i := 0; i < hlib.N(60, 600); i++ {
		off, ln, spare, post := rng.Intn(6), rng.Intn(20), rng.Intn(8), rng.Intn(5)
		arr := rng.Bytes(off + ln + spare + post + 1)
		bs := rng.Bytes(rng.Intn(12))
		switch i % 3 {
		case 0:
			emitAppend(arr, off, ln, ln+spare, bs)
		case 1:
			emitConcat(arr, off, ln, ln+spare, bs)
		default:
			emitCopy(arr, off, ln, bs)
		}
	}
	for _, ln := range []int{0, 1, 4} {
		for _, ns := range []int{0, 1, 4, 7} {
			arr := rng.Bytes(2 + ln + 3)
			emitCopy(arr, 2, ln, rng.Bytes(ns))
		}
	}
}
