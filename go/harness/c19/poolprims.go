//go:build verif

package main

// Section A: primitives obtained through the keyset factories for every key of kslib's pool and
// every output prefix variant; the single-key "full" primitives from the primitive registry.

import (
	"fmt"
	"strings"

	"github.com/tink-crypto/tink-go/v2/aead"
	"github.com/tink-crypto/tink-go/v2/daead"
	"github.com/tink-crypto/tink-go/v2/hybrid"
	"github.com/tink-crypto/tink-go/v2/insecurecleartextkeyset"
	"github.com/tink-crypto/tink-go/v2/internal/primitiveregistry"
	"github.com/tink-crypto/tink-go/v2/internal/verifharness/hlib"
	"github.com/tink-crypto/tink-go/v2/internal/verifharness/kslib"
	"github.com/tink-crypto/tink-go/v2/keyderivation"
	"github.com/tink-crypto/tink-go/v2/keyset"
	"github.com/tink-crypto/tink-go/v2/mac"
	"github.com/tink-crypto/tink-go/v2/prf"
	"github.com/tink-crypto/tink-go/v2/signature"
	"github.com/tink-crypto/tink-go/v2/signprehash"
	"github.com/tink-crypto/tink-go/v2/streamingaead"
	"github.com/tink-crypto/tink-go/v2/tink"
	"google.golang.org/protobuf/proto"

	tinkpb "github.com/tink-crypto/tink-go/v2/proto/tink_go_proto"
)

const fixedKeyID = 0x01020304

var prefixTypes = []tinkpb.OutputPrefixType{tinkpb.OutputPrefixType_TINK, tinkpb.OutputPrefixType_CRUNCHY,
	tinkpb.OutputPrefixType_LEGACY, tinkpb.OutputPrefixType_RAW}

func keysetOf(kd *tinkpb.KeyData, pt tinkpb.OutputPrefixType) *tinkpb.Keyset {
	return &tinkpb.Keyset{PrimaryKeyId: fixedKeyID, Key: []*tinkpb.Keyset_Key{{
		KeyData: proto.Clone(kd).(*tinkpb.KeyData), Status: tinkpb.KeyStatusType_ENABLED, KeyId: fixedKeyID, OutputPrefixType: pt}}}
}

// readHandle builds a handle from an independent clone of ks.
func readHandle(ks *tinkpb.Keyset) (h *keyset.Handle, err error) {
	if pan := hlib.Recover(func() {
		h, err = insecurecleartextkeyset.Read(&keyset.MemReaderWriter{Keyset: proto.Clone(ks).(*tinkpb.Keyset)})
	}); pan != "" {
		return nil, fmt.Errorf("panic: %s", pan)
	}
	return h, err
}

func publicOf(ks *tinkpb.Keyset) (*keyset.Handle, error) {
	h, err := readHandle(ks)
	if err != nil {
		return nil, err
	}
	return h.Public()
}

// factory returns the keyset-level constructor of a primitive class.
func factory(class string) (name string, f func(h *keyset.Handle) (any, error)) {
	switch class {
	case "aead":
		return "aead.New", func(h *keyset.Handle) (any, error) { return aead.New(h) }
	case "daead":
		return "daead.New", func(h *keyset.Handle) (any, error) { return daead.New(h) }
	case "mac":
		return "mac.New", func(h *keyset.Handle) (any, error) { return mac.New(h) }
	case "prfset":
		return "prf.NewPRFSet", func(h *keyset.Handle) (any, error) { return prf.NewPRFSet(h) }
	case "signer":
		return "signature.NewSigner", func(h *keyset.Handle) (any, error) { return signature.NewSigner(h) }
	case "verifier":
		return "signature.NewVerifier", func(h *keyset.Handle) (any, error) { return signature.NewVerifier(h) }
	case "hybenc":
		return "hybrid.NewHybridEncrypt", func(h *keyset.Handle) (any, error) { return hybrid.NewHybridEncrypt(h) }
	case "hybdec":
		return "hybrid.NewHybridDecrypt", func(h *keyset.Handle) (any, error) { return hybrid.NewHybridDecrypt(h) }
	case "saead":
		return "streamingaead.New", func(h *keyset.Handle) (any, error) { return streamingaead.New(h) }
	case "kd":
		return "keyderivation.New", func(h *keyset.Handle) (any, error) { return keyderivation.New(h) }
	case "prehash":
		return "signprehash.NewPrehash", func(h *keyset.Handle) (any, error) { return signprehash.NewPrehash(h) }
	case "prehashsigner":
		return "signprehash.NewPrehashSigner", func(h *keyset.Handle) (any, error) { return signprehash.NewPrehashSigner(h) }
	}
	return "", nil
}

// primClass maps the pool's class names onto the primitive classes of prims.go.
func primClass(poolClass string) string {
	switch poolClass {
	case "aead", "daead", "mac", "saead", "kd":
		return poolClass
	case "prf":
		return "prfset"
	case "sig":
		return "signer"
	case "sigpub":
		return "verifier"
	case "hyb":
		return "hybdec"
	case "hybpub":
		return "hybenc"
	}
	return ""
}

func recoverAny(f func() (any, error)) (v any, err error) {
	if pan := hlib.Recover(func() { v, err = f() }); pan != "" {
		return nil, fmt.Errorf("panic: %s", pan)
	}
	return v, err
}

// partner builds the pristine partner of the primitive of class `class` for keyset ks (the key
// under test) — for asymmetric classes from the counterpart keyset cks.
func partner(class string, ks, cks *tinkpb.Keyset, slow bool) (any, error) {
	build := func(c string, k *tinkpb.Keyset, public bool) (any, error) {
		_, f := factory(c)
		return recoverAny(func() (any, error) {
			var h *keyset.Handle
			var err error
			if public {
				h, err = publicOf(k)
			} else {
				h, err = readHandle(k)
			}
			if err != nil {
				return nil, err
			}
			return f(h)
		})
	}
	switch class {
	case "aead", "daead", "mac", "saead", "prfset", "kd", "prehash":
		return build(class, ks, false)
	case "signer":
		return build("verifier", ks, true)
	case "hybdec":
		q, err := build("hybenc", ks, true)
		if err != nil {
			return nil, err
		}
		return q, nil
	case "verifier":
		q, err := build("signer", cks, false)
		if err != nil {
			return nil, err
		}
		if slow {
			sig, err := q.(tink.Signer).Sign(cl(probeMsg))
			if err != nil {
				return nil, err
			}
			return &sigFixture{msg: cl(probeMsg), sig: sig}, nil
		}
		return q, nil
	case "hybenc":
		return build("hybdec", cks, false)
	case "prehashsigner":
		ph, err := build("prehash", ks, true)
		if err != nil {
			return nil, err
		}
		v, err := build("verifier", ks, true)
		if err != nil {
			return nil, err
		}
		return &prehashPartner{ph: ph.(tink.Prehash), v: v.(tink.Verifier)}, nil
	}
	return nil, fmt.Errorf("no partner for class %s", class)
}

func variantName(pt tinkpb.OutputPrefixType) string { return pt.String() }

// slowType: signing is expensive; fewer layouts and variants, no "primitive built afterwards".
func slowKey(pk *kslib.PoolKey) bool {
	return pk.Slow || pk.Type == "SlhDsaPrivateKey" || pk.Type == "SlhDsaPublicKey"
}

func (e *engine) sectionPool(pool *kslib.Pool, seed uint64) {
	// every variant for the first key of each key type; in the quick tier further keys of the type
	// (other parameter sets) only with their own output prefix
	seenType := map[string]bool{}
	for i, pk := range pool.Keys {
		class := primClass(pk.Class)
		if class == "" {
			e.o.Count("pool-no-byte-primitive:" + pk.Class)
			continue
		}
		classes := []string{class}
		switch pk.Type {
		case "MlDsaPrivateKey":
			classes = append(classes, "prehashsigner")
		case "MlDsaPublicKey":
			classes = append(classes, "prehash")
		}
		slow := slowKey(pk)
		variants := prefixTypes
		if seenType[pk.Type] && !hlib.Thorough() {
			variants = []tinkpb.OutputPrefixType{pk.Prefix}
		}
		seenType[pk.Type] = true
		if slow {
			variants = []tinkpb.OutputPrefixType{pk.Prefix}
		} else if !hlib.Thorough() && (pk.Type == "RsaSsaPkcs1PrivateKey" || pk.Type == "RsaSsaPssPrivateKey") {
			variants = []tinkpb.OutputPrefixType{pk.Prefix, tinkpb.OutputPrefixType_LEGACY}
		}
		for _, cls := range classes {
			for _, pt := range variants {
				e.safe("pool "+pk.Name+" "+cls+" "+variantName(pt), func() { e.poolPrim(pool, i, cls, pt, slow, seed) })
			}
		}
	}
}

func (e *engine) poolPrim(pool *kslib.Pool, idx int, class string, pt tinkpb.OutputPrefixType, slow bool, seed uint64) {
	pk := pool.Keys[idx]
	fname, f := factory(class)
	api := fmt.Sprintf("%s/%s/%s", fname, pk.Type, variantName(pt))
	ks := keysetOf(pk.KD, pt)
	var cks *tinkpb.Keyset
	if pk.Priv >= 0 {
		cks = keysetOf(pool.Keys[pk.Priv].KD, pt)
	}
	if _, err := recoverAny(func() (any, error) {
		h, err := readHandle(ks)
		if err != nil {
			return nil, err
		}
		return f(h)
	}); err != nil {
		e.skip(api+"["+pk.Name+"]", err.Error())
		return
	}
	q, err := partner(class, ks, cks, slow)
	if err != nil {
		e.skip(api+"["+pk.Name+"]", "partner: "+err.Error())
		return
	}
	src := primSrc{api: api, extra: "key=" + pk.Name, class: class, q: q,
		mk: func() (any, func() string, error) {
			h, err := readHandle(ks)
			if err != nil {
				return nil, nil, err
			}
			p, err := f(h)
			if err != nil {
				return nil, nil, err
			}
			obs := func() string {
				s := "handle=" + handleHex(h)
				if !slow {
					if p2, err := recoverAny(func() (any, error) { return f(h) }); err != nil {
						s += "|after=err"
					} else {
						s += "|after:" + cross(class, p2, q)
					}
				}
				return s
			}
			return p, obs, nil
		}}
	src.rndCT = strings.Contains(pk.Name, "MLKEM") || strings.Contains(pk.Name, "XWING")
	if slow {
		src.lays = layouts()[:2]
		src.msgs = 1
		if class == "signer" && strings.Contains(pk.Name, "128s") {
			src.minimal = true
			if !hlib.Thorough() {
				src.lays = layouts()[:1]
			}
		}
	}
	e.o.Count("pool-prim:" + fname)
	e.primOps(src, hlib.NewRng(seed, "pool/"+api+"/"+pk.Name))
}

// sectionFull: the single-key full primitives of the primitive registry, called directly.
func (e *engine) sectionFull(pool *kslib.Pool, seed uint64) {
	for i, pk := range pool.Keys {
		class := primClass(pk.Class)
		if class == "" {
			continue
		}
		if class == "prfset" {
			class = "prf"
		}
		if class == "kd" {
			class = "keyderiver"
		}
		slow := slowKey(pk)
		if slow && !hlib.Thorough() {
			continue
		}
		for _, pt := range keyVariants(pk) {
			pt := pt
			api := fmt.Sprintf("full-primitive/%s/%s", pk.Type, variantName(pt))
			ks := keysetOf(pk.KD, pt)
			fullOf := func(k *tinkpb.Keyset, public bool) (any, error) {
				return recoverAny(func() (any, error) {
					var h *keyset.Handle
					var err error
					if public {
						h, err = publicOf(k)
					} else {
						h, err = readHandle(k)
					}
					if err != nil {
						return nil, err
					}
					en, err := h.Primary()
					if err != nil {
						return nil, err
					}
					return primitiveregistry.Primitive(en.Key())
				})
			}
			if _, err := fullOf(ks, false); err != nil {
				e.skip(api+"["+pk.Name+"]", err.Error())
				continue
			}
			var q any
			var err error
			switch class {
			case "signer", "hybdec":
				q, err = fullOf(ks, true)
			case "verifier", "hybenc":
				q, err = fullOf(keysetOf(pool.Keys[pk.Priv].KD, pt), false)
			default:
				q, err = fullOf(ks, false)
			}
			if err != nil {
				e.skip(api+"["+pk.Name+"]", "partner: "+err.Error())
				continue
			}
			if class == "verifier" && slow {
				sig, err := q.(tink.Signer).Sign(cl(probeMsg))
				if err != nil {
					continue
				}
				q = &sigFixture{msg: cl(probeMsg), sig: sig}
			}
			_ = i
			src := primSrc{api: api, extra: "key=" + pk.Name, class: class, q: q, lays: layouts()[:2], msgs: 1,
				rndCT: strings.Contains(pk.Name, "MLKEM") || strings.Contains(pk.Name, "XWING"),
				mk: func() (any, func() string, error) {
					p, err := fullOf(ks, false)
					return p, nil, err
				}}
			if hlib.Thorough() {
				src.lays, src.msgs = nil, 2
				if slow {
					src.lays, src.msgs = layouts()[:2], 1
					src.minimal = class == "signer" && strings.Contains(pk.Name, "128s")
				}
			}
			e.o.Count("full-prim:" + pk.Type)
			e.safe(api, func() { e.primOps(src, hlib.NewRng(seed, "full/"+api+"/"+pk.Name)) })
		}
	}
}
