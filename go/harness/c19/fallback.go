//go:build verif

package main

// Section E, second part: FALLBACK proto keys — keys whose type URL has no registered key parser. The library keeps
// their serialization as is (protoserialization.FallbackProtoKey; FallbackProtoPrivateKey when the KeyData says
// ASYMMETRIC_PRIVATE) and has a separate serializer for each of the two. Which of the two paths a key takes depends on
// the KeyMaterialType label only, so the matrix is
//
//	type URL        unknown (no key manager)  |  served by a stub key manager (legacy.go: MAC, AEAD, signature and
//	                hybrid private keys behind a registry.PrivateKeyManager so that Handle.Public works, their public
//	                counterparts)
//	material type   SYMMETRIC, ASYMMETRIC_PRIVATE, ASYMMETRIC_PUBLIC, REMOTE, UNKNOWN_KEYMATERIAL (every reader that
//	                admits it: the no-secrets constructors refuse the first two and the last)
//	prefix type     TINK, CRUNCHY, LEGACY, RAW
//	handle from     every constructor section E knows (proto keyset in: the caller's KeyData is the guarded input and
//	                its fields are changed afterwards)
//	export through  KeysetMaterial / Write(MemReaderWriter) of insecurecleartextkeyset and testkeyset,
//	                Handle.WriteWithNoSecrets, Handle.Public followed by an export, protoserialization.SerializeKey on
//	                the entry's key, the byte accessors of Handle.Primary().Key() / Handle.Entry(0).Key(), binary /
//	                JSON / encrypted writers, Handle.KeysetInfo
//
// After an export every returned Value is overwritten in place through its capacity and then every field of the
// exported proto (TypeUrl, KeyMaterialType, Value header, key id, status, prefix type, primary id, key list) is
// reassigned; the handle's material, its primary key (Equal against a pristine twin in both directions, its
// serialization, its accessors) and — for the stub types — a primitive built from the handle afterwards must be
// unaffected.

import (
	"bytes"
	"crypto/ed25519"
	"fmt"

	aeadsubtle "github.com/tink-crypto/tink-go/v2/aead/subtle"
	"github.com/tink-crypto/tink-go/v2/insecurecleartextkeyset"
	"github.com/tink-crypto/tink-go/v2/internal/protoserialization"
	"github.com/tink-crypto/tink-go/v2/internal/verifharness/hlib"
	"github.com/tink-crypto/tink-go/v2/key"
	"github.com/tink-crypto/tink-go/v2/keyset"
	"github.com/tink-crypto/tink-go/v2/testkeyset"
	"github.com/tink-crypto/tink-go/v2/tink"
	"google.golang.org/protobuf/proto"

	tinkpb "github.com/tink-crypto/tink-go/v2/proto/tink_go_proto"
)

var materialTypes = []tinkpb.KeyData_KeyMaterialType{tinkpb.KeyData_SYMMETRIC, tinkpb.KeyData_ASYMMETRIC_PRIVATE,
	tinkpb.KeyData_ASYMMETRIC_PUBLIC, tinkpb.KeyData_REMOTE, tinkpb.KeyData_UNKNOWN_KEYMATERIAL}

func secretMaterial(mt tinkpb.KeyData_KeyMaterialType) bool {
	return mt != tinkpb.KeyData_ASYMMETRIC_PUBLIC && mt != tinkpb.KeyData_REMOTE
}

// fbType is one fallback key type: a type URL without key parser.
type fbType struct {
	kind  string // token in the api name
	url   string
	val   []byte
	class string // primitive class of the stub key manager ("" = no key manager)
	quick bool   // part of the quick tier
	// counterpart private key (for the pristine partner of public-key primitives)
	curl string
	cval []byte
}

// mutateKeyData reassigns every field of an exported / caller-owned KeyData.
func mutateKeyData(kd *tinkpb.KeyData) {
	if kd == nil {
		return
	}
	kd.TypeUrl += ".mutated-by-the-caller"
	if kd.KeyMaterialType == tinkpb.KeyData_REMOTE {
		kd.KeyMaterialType = tinkpb.KeyData_SYMMETRIC
	} else {
		kd.KeyMaterialType = tinkpb.KeyData_REMOTE
	}
	kd.Value = append(bytes.Clone(kd.Value), 0x99, 0x77)
}

// mutateKeyset reassigns every field of a proto keyset the caller holds.
func mutateKeyset(ks *tinkpb.Keyset) {
	if ks == nil {
		return
	}
	for _, k := range ks.GetKey() {
		if k == nil {
			continue
		}
		mutateKeyData(k.KeyData)
		k.KeyId ^= 0x00ff00ff
		k.Status = tinkpb.KeyStatusType_DISABLED
		if k.OutputPrefixType == tinkpb.OutputPrefixType_RAW {
			k.OutputPrefixType = tinkpb.OutputPrefixType_TINK
		} else {
			k.OutputPrefixType = tinkpb.OutputPrefixType_RAW
		}
		k.KeyData = &tinkpb.KeyData{TypeUrl: "type.googleapis.com/verif.c19.Replaced", Value: []byte{1, 2, 3}, KeyMaterialType: tinkpb.KeyData_SYMMETRIC}
	}
	ks.PrimaryKeyId ^= 0x7
	if n := len(ks.Key); n > 0 {
		ks.Key[0] = proto.Clone(ks.Key[0]).(*tinkpb.Keyset_Key)
		ks.Key = append(ks.Key, ks.Key[0])
	}
}

// keyDatasOf lists the KeyData messages of a keyset BEFORE mutateKeyset replaces the pointers.
func keyDatasOf(ks *tinkpb.Keyset) []*tinkpb.KeyData {
	var r []*tinkpb.KeyData
	for _, k := range ks.GetKey() {
		r = append(r, k.GetKeyData())
	}
	return r
}

// mutateExport: first the fields of the KeyData messages the export handed out (they may be the handle's own), then
// the enclosing keyset.
func mutateExport(ks *tinkpb.Keyset) {
	for _, kd := range keyDatasOf(ks) {
		mutateKeyData(kd)
	}
	mutateKeyset(ks)
}

type fbCtor struct {
	name    string
	secrets bool // admits secret material
	proto   bool // takes the caller's proto keyset (=> input-retention test)
	mk      func(ks *tinkpb.Keyset) (*keyset.Handle, error)
}

type fbExport struct {
	name string
	core bool // crossed with every constructor (the others: with the canonical constructor only, all in thorough)
	// applicable reports whether the export can work for this material type
	applicable func(mt tinkpb.KeyData_KeyMaterialType, t *fbType) bool
	// run exports h: the byte slices handed out, a result string, and the mutation of the exported structures
	run func(h *keyset.Handle) (outs [][]byte, res string, mut func(), extraObs func() string)
}

func (e *engine) sectionFallback(seed uint64) {
	rng := hlib.NewRng(seed, "c19-fallback")
	master, _ := aeadsubtle.NewAESGCM(rng.Bytes(32))
	ad := rng.Bytes(5)
	sigSeed := rng.Bytes(32)
	sigPub := []byte(ed25519.NewKeyFromSeed(sigSeed).Public().(ed25519.PublicKey))
	hybKey := rng.Bytes(16)
	types := []*fbType{
		{kind: "unknown-type-url", url: urlUnknown, val: rng.Bytes(24), quick: true},
		// an empty Value has no bytes to overwrite: sharing is visible through the proto's fields only
		{kind: "unknown-type-url-empty-value", url: urlUnknown, val: []byte{}, quick: true},
		{kind: "stub-sigpriv", url: urlSigPriv, val: sigSeed, class: "signer", quick: true},
		{kind: "stub-mac", url: urlMAC, val: rng.Bytes(32), class: "mac", quick: true},
		{kind: "stub-hybpriv", url: urlHybPriv, val: hybKey, class: "hybdec", quick: true},
		{kind: "stub-aead", url: urlAEAD, val: rng.Bytes(16), class: "aead"},
		{kind: "stub-sigpub", url: urlSigPub, val: sigPub, class: "verifier", curl: urlSigPriv, cval: sigSeed},
		{kind: "stub-hybpub", url: urlHybPub, val: hybKey, class: "hybenc", curl: urlHybPriv, cval: hybKey},
	}

	viaBytes := func(ser func(ks *tinkpb.Keyset) ([]byte, error), rd func(b []byte) keyset.Reader) func(ks *tinkpb.Keyset) (*keyset.Handle, error) {
		return func(ks *tinkpb.Keyset) (*keyset.Handle, error) {
			b, err := ser(ks)
			if err != nil {
				return nil, err
			}
			return insecurecleartextkeyset.Read(rd(b))
		}
	}
	ctors := []fbCtor{
		{"insecurecleartextkeyset.Read(MemReaderWriter)", true, true, func(ks *tinkpb.Keyset) (*keyset.Handle, error) {
			return insecurecleartextkeyset.Read(&keyset.MemReaderWriter{Keyset: ks})
		}},
		{"insecurecleartextkeyset.KeysetHandle", true, true, func(ks *tinkpb.Keyset) (*keyset.Handle, error) {
			if h := insecurecleartextkeyset.KeysetHandle(ks); h != nil {
				return h, nil
			}
			return nil, fmt.Errorf("nil handle")
		}},
		{"testkeyset.NewHandle", true, true, func(ks *tinkpb.Keyset) (*keyset.Handle, error) { return testkeyset.NewHandle(ks) }},
		{"testkeyset.Read(MemReaderWriter)", true, true, func(ks *tinkpb.Keyset) (*keyset.Handle, error) {
			return testkeyset.Read(&keyset.MemReaderWriter{Keyset: ks})
		}},
		{"keyset.NewHandleWithNoSecrets", false, true, func(ks *tinkpb.Keyset) (*keyset.Handle, error) { return keyset.NewHandleWithNoSecrets(ks) }},
		{"keyset.ReadWithNoSecrets(MemReaderWriter)", false, true, func(ks *tinkpb.Keyset) (*keyset.Handle, error) {
			return keyset.ReadWithNoSecrets(&keyset.MemReaderWriter{Keyset: ks})
		}},
		{"keyset.Manager.AddKeyWithOpts+Handle", true, false, func(ks *tinkpb.Keyset) (*keyset.Handle, error) {
			k, err := parseKey(ks.Key[0].KeyData, ks.Key[0].OutputPrefixType)
			if err != nil {
				return nil, err
			}
			return fixedHandleOf(k)
		}},
		{"keyset.NewManagerFromHandle+Handle", true, false, func(ks *tinkpb.Keyset) (*keyset.Handle, error) {
			h, err := insecurecleartextkeyset.Read(&keyset.MemReaderWriter{Keyset: ks})
			if err != nil {
				return nil, err
			}
			return keyset.NewManagerFromHandle(h).Handle()
		}},
		{"insecurecleartextkeyset.Read(BinaryReader)", true, false, viaBytes(func(ks *tinkpb.Keyset) ([]byte, error) {
			var b bytes.Buffer
			err := keyset.NewBinaryWriter(&b).Write(ks)
			return b.Bytes(), err
		}, func(b []byte) keyset.Reader { return keyset.NewBinaryReader(bytes.NewReader(b)) })},
		{"insecurecleartextkeyset.Read(JSONReader)", true, false, viaBytes(func(ks *tinkpb.Keyset) ([]byte, error) {
			var b bytes.Buffer
			err := keyset.NewJSONWriter(&b).Write(ks)
			return b.Bytes(), err
		}, func(b []byte) keyset.Reader { return keyset.NewJSONReader(bytes.NewReader(b)) })},
		{"keyset.ReadWithAssociatedData(MemReaderWriter)", true, false, func(ks *tinkpb.Keyset) (*keyset.Handle, error) {
			h, err := insecurecleartextkeyset.Read(&keyset.MemReaderWriter{Keyset: ks})
			if err != nil {
				return nil, err
			}
			m := &keyset.MemReaderWriter{}
			if err := h.WriteWithAssociatedData(m, master, cl(ad)); err != nil {
				return nil, err
			}
			return keyset.ReadWithAssociatedData(&keyset.MemReaderWriter{EncryptedKeyset: m.EncryptedKeyset}, master, cl(ad))
		}},
	}

	always := func(tinkpb.KeyData_KeyMaterialType, *fbType) bool { return true }
	noSecret := func(mt tinkpb.KeyData_KeyMaterialType, _ *fbType) bool { return !secretMaterial(mt) }
	hasPublic := func(mt tinkpb.KeyData_KeyMaterialType, t *fbType) bool {
		return mt == tinkpb.KeyData_ASYMMETRIC_PRIVATE && (t.class == "signer" || t.class == "hybdec")
	}
	ksExport := func(get func(h *keyset.Handle) (*tinkpb.Keyset, error)) func(h *keyset.Handle) ([][]byte, string, func(), func() string) {
		return func(h *keyset.Handle) ([][]byte, string, func(), func() string) {
			ks, err := get(h)
			if err != nil || ks == nil {
				return nil, "err", nil, nil
			}
			return valuesOf(ks), "ok", func() { mutateExport(ks) }, nil
		}
	}
	memWrite := func(w func(h *keyset.Handle, m *keyset.MemReaderWriter) error) func(h *keyset.Handle) (*tinkpb.Keyset, error) {
		return func(h *keyset.Handle) (*tinkpb.Keyset, error) {
			m := &keyset.MemReaderWriter{}
			if err := w(h, m); err != nil {
				return nil, err
			}
			return m.Keyset, nil
		}
	}
	// exports of the PUBLIC handle derived from h: the public handle is part of the observation too
	pubExport := func(get func(ph *keyset.Handle) (*tinkpb.Keyset, error)) func(h *keyset.Handle) ([][]byte, string, func(), func() string) {
		return func(h *keyset.Handle) ([][]byte, string, func(), func() string) {
			ph, err := h.Public()
			if err != nil {
				return nil, "err", nil, nil
			}
			ks, err := get(ph)
			if err != nil || ks == nil {
				return nil, "err", nil, nil
			}
			return valuesOf(ks), "ok", func() { mutateExport(ks) }, func() string { return "public-material=" + handleHex(ph) }
		}
	}
	keyAccessors := func(entry func(h *keyset.Handle) (*keyset.Entry, error)) func(h *keyset.Handle) ([][]byte, string, func(), func() string) {
		return func(h *keyset.Handle) ([][]byte, string, func(), func() string) {
			en, err := entry(h)
			if err != nil {
				return nil, "err", nil, nil
			}
			var outs [][]byte
			for _, lf := range accessors(en.Key()) {
				outs = append(outs, lf.bytes(en.Key()))
			}
			return outs, "ok", nil, nil
		}
	}
	exports := []fbExport{
		{"insecurecleartextkeyset.KeysetMaterial", true, always, ksExport(func(h *keyset.Handle) (*tinkpb.Keyset, error) {
			return insecurecleartextkeyset.KeysetMaterial(h), nil
		})},
		{"insecurecleartextkeyset.Write(MemReaderWriter)", true, always, ksExport(memWrite(func(h *keyset.Handle, m *keyset.MemReaderWriter) error {
			return insecurecleartextkeyset.Write(h, m)
		}))},
		{"keyset.Handle.WriteWithNoSecrets(MemReaderWriter)", true, noSecret, ksExport(memWrite(func(h *keyset.Handle, m *keyset.MemReaderWriter) error {
			return h.WriteWithNoSecrets(m)
		}))},
		{"keyset.Handle.Public+KeysetMaterial", true, hasPublic, pubExport(func(ph *keyset.Handle) (*tinkpb.Keyset, error) {
			return insecurecleartextkeyset.KeysetMaterial(ph), nil
		})},
		{"keyset.Handle.Public+WriteWithNoSecrets(MemReaderWriter)", true, hasPublic, pubExport(memWrite(func(ph *keyset.Handle, m *keyset.MemReaderWriter) error {
			return ph.WriteWithNoSecrets(m)
		}))},
		{"protoserialization.SerializeKey(Handle.Primary.Key)", true, always, func(h *keyset.Handle) ([][]byte, string, func(), func() string) {
			en, err := h.Primary()
			if err != nil {
				return nil, "err", nil, nil
			}
			ser, err := protoserialization.SerializeKey(en.Key())
			if err != nil {
				return nil, "err", nil, nil
			}
			return [][]byte{ser.KeyData().GetValue()}, "ok", func() { mutateKeyData(ser.KeyData()) }, nil
		}},
		{"keyset.Handle.Primary.Key.accessors", true, always, keyAccessors(func(h *keyset.Handle) (*keyset.Entry, error) { return h.Primary() })},
		{"keyset.Handle.Entry(0).Key.accessors", false, always, keyAccessors(func(h *keyset.Handle) (*keyset.Entry, error) { return h.Entry(0) })},
		{"testkeyset.KeysetMaterial", false, always, ksExport(func(h *keyset.Handle) (*tinkpb.Keyset, error) { return testkeyset.KeysetMaterial(h), nil })},
		{"testkeyset.Write(MemReaderWriter)", false, always, ksExport(memWrite(func(h *keyset.Handle, m *keyset.MemReaderWriter) error {
			return testkeyset.Write(h, m)
		}))},
		{"insecurecleartextkeyset.Write(BinaryWriter)", false, always, func(h *keyset.Handle) ([][]byte, string, func(), func() string) {
			var b bytes.Buffer
			if err := insecurecleartextkeyset.Write(h, keyset.NewBinaryWriter(&b)); err != nil {
				return nil, "err", nil, nil
			}
			return [][]byte{b.Bytes()}, "ok", nil, nil
		}},
		{"insecurecleartextkeyset.Write(JSONWriter)", false, always, func(h *keyset.Handle) ([][]byte, string, func(), func() string) {
			var b bytes.Buffer
			if err := insecurecleartextkeyset.Write(h, keyset.NewJSONWriter(&b)); err != nil {
				return nil, "err", nil, nil
			}
			return [][]byte{b.Bytes()}, "ok", nil, nil
		}},
		{"keyset.Handle.WriteWithAssociatedData(MemReaderWriter)", false, always, func(h *keyset.Handle) ([][]byte, string, func(), func() string) {
			m := &keyset.MemReaderWriter{}
			if err := h.WriteWithAssociatedData(m, master, cl(ad)); err != nil {
				return nil, "err", nil, nil
			}
			// the ciphertext is randomized: it is handed out for the scribbling only (compare WriteWithAssociatedData in the pool part)
			return [][]byte{m.EncryptedKeyset.GetEncryptedKeyset()}, "ok", func() {
				if ki := m.EncryptedKeyset.GetKeysetInfo(); ki != nil {
					for _, i := range ki.GetKeyInfo() {
						i.TypeUrl += ".mutated"
						i.KeyId ^= 0xff
					}
					ki.PrimaryKeyId ^= 0xff
				}
			}, nil
		}},
		{"keyset.Handle.KeysetInfo", false, always, func(h *keyset.Handle) ([][]byte, string, func(), func() string) {
			ki := h.KeysetInfo()
			return nil, fmt.Sprintf("ok:%d", len(ki.GetKeyInfo())), func() {
				for _, i := range ki.GetKeyInfo() {
					i.TypeUrl += ".mutated"
					i.KeyId ^= 0xff
					i.Status = tinkpb.KeyStatusType_DESTROYED
					i.OutputPrefixType = tinkpb.OutputPrefixType_LEGACY
				}
				ki.PrimaryKeyId ^= 0xff
				ki.KeyInfo = nil
			}, nil
		}},
	}
	randomized := map[string]bool{"keyset.Handle.WriteWithAssociatedData(MemReaderWriter)": true}

	for _, t := range types {
		if !t.quick && !hlib.Thorough() {
			continue
		}
		for _, mt := range materialTypes {
			for _, pt := range prefixTypes {
				t, mt, pt := t, mt, pt
				what := fmt.Sprintf("fallback key %s %v %v", t.kind, mt, pt)
				e.safe(what, func() {
					kd := &tinkpb.KeyData{TypeUrl: t.url, Value: cl(t.val), KeyMaterialType: mt}
					twin, err := parseKey(kd, pt)
					if err != nil {
						e.skip("fallback/"+what, "ParseKey: "+err.Error())
						return
					}
					wantType := "*protoserialization.FallbackProtoKey"
					if mt == tinkpb.KeyData_ASYMMETRIC_PRIVATE {
						wantType = "*protoserialization.FallbackProtoPrivateKey"
					}
					if got := fmt.Sprintf("%T", twin); got != wantType {
						e.o.Violate("%s: parsed into %s, the harness expects the fallback path (%s)", what, got, wantType)
						return
					}
					e.o.Count("fallback-key:" + t.kind + ":" + mt.String())
					// behaviour of a primitive built from the handle now (stub key managers only)
					var prim func(h *keyset.Handle) string
					if t.class != "" {
						var cks *tinkpb.Keyset
						if t.curl != "" {
							cks = keysetOf(&tinkpb.KeyData{TypeUrl: t.curl, Value: cl(t.cval), KeyMaterialType: tinkpb.KeyData_ASYMMETRIC_PRIVATE}, pt)
						}
						// the pristine partner comes from the key under its natural material type
						natural := tinkpb.KeyData_SYMMETRIC
						switch t.class {
						case "signer", "hybdec":
							natural = tinkpb.KeyData_ASYMMETRIC_PRIVATE
						case "verifier", "hybenc":
							natural = tinkpb.KeyData_ASYMMETRIC_PUBLIC
						}
						nkd := &tinkpb.KeyData{TypeUrl: t.url, Value: cl(t.val), KeyMaterialType: natural}
						if q, err := partner(t.class, keysetOf(nkd, pt), cks, false); err == nil {
							_, f := factory(t.class)
							prim = func(h *keyset.Handle) string {
								p, err := recoverAny(func() (any, error) { return f(h) })
								if err != nil {
									return "primitive=err"
								}
								return cross(t.class, p, q)
							}
							e.o.Count("fallback-primitive-observed:" + t.kind + ":" + mt.String())
						}
					}
					obs := func(h *keyset.Handle) (s string) {
						if h == nil {
							return "handle=nil"
						}
						if pan := hlib.Recover(func() {
							s = "material=" + handleHex(h)
							en, err := h.Primary()
							if err != nil {
								s += "|primary=err"
								return
							}
							s += "|" + objObs(en.Key(), twin)
							if prim != nil {
								s += "|" + prim(h)
							}
						}); pan != "" {
							return "handle-observation-panic:" + pan
						}
						return s
					}
					extra := fmt.Sprintf("key=fallback-%s material=%v prefix=%v", t.kind, mt, pt)
					for ci, c := range ctors {
						c := c
						if !c.secrets && secretMaterial(mt) {
							continue
						}
						// ---- proto keyset in: the handle must not keep the caller's KeyData
						if c.proto {
							lays := layouts()
							if !hlib.Thorough() {
								lays = lays[:2]
							}
							e.run(spec{api: c.name + "/fallback-" + t.kind, extra: extra, ins: []in1{{"KeyData.Value", t.val}}, once: true, lays: lays, mk: func() (*inst, error) {
								var h *keyset.Handle
								var mine *tinkpb.Keyset
								return &inst{call: func(ins [][]byte) ([][]byte, string) {
									var err error
									mine = keysetAround(t.url, mt, pt, ins[0])
									h, err = c.mk(mine)
									return nil, errS(err)
								}, observe: func() string { return obs(h) }, mutIn: func() { mutateExport(mine) }}, nil
							}})
						}
						// ---- exports
						for _, x := range exports {
							x := x
							if !x.applicable(mt, t) {
								continue
							}
							if !x.core && ci != 0 && !hlib.Thorough() {
								continue
							}
							api := x.name + "/fallback-" + t.kind
							if x.name == "protoserialization.SerializeKey(Handle.Primary.Key)" {
								// an internal package, but every cleartext export goes through it: kept as a contract line on purpose
								api = "keyset.Handle.Primary.Key:" + api
							}
							e.run(spec{api: api, extra: extra + " handle=" + c.name, det: !randomized[x.name], mk: func() (*inst, error) {
								h, err := c.mk(keysetOf(kd, pt))
								if err != nil {
									return nil, err
								}
								var mut func()
								var more func() string
								return &inst{call: func([][]byte) ([][]byte, string) {
									outs, res, m, xo := x.run(h)
									// every export of this instance is mutated at the end, not only the last one
									if m != nil {
										prev := mut
										mut = func() {
											if prev != nil {
												prev()
											}
											m()
										}
									}
									if xo != nil {
										more = xo
									}
									return outs, res
								}, observe: func() string {
									s := obs(h)
									if more != nil {
										s += "|" + more()
									}
									return s
								}, mutOut: func() {
									if mut != nil {
										mut()
										mut = nil
									}
								}}, nil
							}})
						}
					}
				})
			}
		}
	}
	_ = key.Key(nil)
	_ = tink.AEAD(nil)
}
