//go:build verif

package main

// Section B: key managers for custom type URLs. Keys of these types have no key parser and no
// full-primitive constructor: they become fallback proto keys, the registry config hands the
// factories a legacy primitive and every factory wraps it in its full*Adapter (output prefix,
// and for LEGACY keys the 0x00 suffix on the message).

import (
	"crypto/ed25519"
	"errors"
	"fmt"

	"google.golang.org/protobuf/proto"

	aeadsubtle "github.com/tink-crypto/tink-go/v2/aead/subtle"
	"github.com/tink-crypto/tink-go/v2/core/registry"
	daeadsubtle "github.com/tink-crypto/tink-go/v2/daead/subtle"
	"github.com/tink-crypto/tink-go/v2/internal/verifharness/hlib"
	macsubtle "github.com/tink-crypto/tink-go/v2/mac/subtle"
	prfsubtle "github.com/tink-crypto/tink-go/v2/prf/subtle"
	tinkpb "github.com/tink-crypto/tink-go/v2/proto/tink_go_proto"
	sigsubtle "github.com/tink-crypto/tink-go/v2/signature/subtle"
	streamsubtle "github.com/tink-crypto/tink-go/v2/streamingaead/subtle"
	"github.com/tink-crypto/tink-go/v2/tink"
)

const (
	urlAEAD    = "type.googleapis.com/verif.c19.RawAead"
	urlDAEAD   = "type.googleapis.com/verif.c19.RawDaead"
	urlMAC     = "type.googleapis.com/verif.c19.RawMac"
	urlSigPriv = "type.googleapis.com/verif.c19.RawSigPriv"
	urlSigPub  = "type.googleapis.com/verif.c19.RawSigPub"
	urlHybPriv = "type.googleapis.com/verif.c19.RawHybPriv"
	urlHybPub  = "type.googleapis.com/verif.c19.RawHybPub"
	urlStream  = "type.googleapis.com/verif.c19.RawStream"
	urlPRF     = "type.googleapis.com/verif.c19.RawPrf"
	urlUnknown = "type.googleapis.com/verif.c19.NoKeyManager"
)

type stubKM struct {
	url string
	mk  func(val []byte) (any, error)
}

// Primitive hands the raw primitive an own copy of the key value: nothing the stub primitives do
// depends on memory owned by the library or the caller.
func (m *stubKM) Primitive(v []byte) (any, error) { return m.mk(cl(v)) }
func (m *stubKM) NewKey([]byte) (proto.Message, error) {
	return nil, errors.New("verif stub: key generation unsupported")
}
func (m *stubKM) NewKeyData([]byte) (*tinkpb.KeyData, error) {
	return nil, errors.New("verif stub: key generation unsupported")
}
func (m *stubKM) DoesSupport(u string) bool { return u == m.url }
func (m *stubKM) TypeURL() string           { return m.url }

type stubPrivKM struct {
	stubKM
	pub func(val []byte) (*tinkpb.KeyData, error)
}

func (m *stubPrivKM) PublicKeyData(v []byte) (*tinkpb.KeyData, error) { return m.pub(v) }

// toy hybrid scheme: public and private value are the same 16 bytes; ciphertext = AES-GCM with the
// context info as associated data. Only one method each (the hybrid factories refuse primitives
// that also are a tink.AEAD).
type toyHybridEnc struct{ a tink.AEAD }

func (t *toyHybridEnc) Encrypt(pt, ctx []byte) ([]byte, error) { return t.a.Encrypt(pt, ctx) }

type toyHybridDec struct{ a tink.AEAD }

func (t *toyHybridDec) Decrypt(ct, ctx []byte) ([]byte, error) { return t.a.Decrypt(ct, ctx) }

func registerStubs() {
	reg := func(km registry.KeyManager) {
		if err := registry.RegisterKeyManager(km); err != nil {
			panic(err)
		}
	}
	reg(&stubKM{urlAEAD, func(v []byte) (any, error) { return aeadsubtle.NewAESGCM(v) }})
	reg(&stubKM{urlDAEAD, func(v []byte) (any, error) { return daeadsubtle.NewAESSIV(v) }})
	reg(&stubKM{urlMAC, func(v []byte) (any, error) { return macsubtle.NewHMAC("SHA256", v, 16) }})
	reg(&stubKM{urlSigPub, func(v []byte) (any, error) { return sigsubtle.NewED25519Verifier(v) }})
	reg(&stubPrivKM{stubKM{urlSigPriv, func(v []byte) (any, error) { return sigsubtle.NewED25519Signer(v) }},
		func(v []byte) (*tinkpb.KeyData, error) {
			pub := []byte(ed25519.NewKeyFromSeed(v).Public().(ed25519.PublicKey))
			return &tinkpb.KeyData{TypeUrl: urlSigPub, Value: pub, KeyMaterialType: tinkpb.KeyData_ASYMMETRIC_PUBLIC}, nil
		}})
	reg(&stubKM{urlHybPub, func(v []byte) (any, error) {
		a, err := aeadsubtle.NewAESGCM(v)
		return &toyHybridEnc{a}, err
	}})
	reg(&stubPrivKM{stubKM{urlHybPriv, func(v []byte) (any, error) {
		a, err := aeadsubtle.NewAESGCM(v)
		return &toyHybridDec{a}, err
	}},
		func(v []byte) (*tinkpb.KeyData, error) {
			return &tinkpb.KeyData{TypeUrl: urlHybPub, Value: cl(v), KeyMaterialType: tinkpb.KeyData_ASYMMETRIC_PUBLIC}, nil
		}})
	reg(&stubKM{urlStream, func(v []byte) (any, error) { return streamsubtle.NewAESGCMHKDF(v, "SHA256", 16, 64, 0) }})
	reg(&stubKM{urlPRF, func(v []byte) (any, error) { return prfsubtle.NewHMACPRF("SHA256", v) }})
}

type stubType struct {
	name  string
	class string
	url   string
	mt    tinkpb.KeyData_KeyMaterialType
	val   []byte
	curl  string // counterpart type (asymmetric)
	cmt   tinkpb.KeyData_KeyMaterialType
	cval  []byte
}

func (e *engine) sectionLegacy(seed uint64) {
	rng := hlib.NewRng(seed, "c19-legacy-keys")
	sym := tinkpb.KeyData_SYMMETRIC
	priv, pub := tinkpb.KeyData_ASYMMETRIC_PRIVATE, tinkpb.KeyData_ASYMMETRIC_PUBLIC
	seedV := rng.Bytes(32)
	pubV := []byte(ed25519.NewKeyFromSeed(seedV).Public().(ed25519.PublicKey))
	hyb := rng.Bytes(16)
	types := []stubType{
		{"mac", "mac", urlMAC, sym, rng.Bytes(32), "", 0, nil},
		{"aead", "aead", urlAEAD, sym, rng.Bytes(16), "", 0, nil},
		{"daead", "daead", urlDAEAD, sym, rng.Bytes(64), "", 0, nil},
		{"signer", "signer", urlSigPriv, priv, seedV, "", 0, nil},
		{"verifier", "verifier", urlSigPub, pub, pubV, urlSigPriv, priv, seedV},
		{"hybdec", "hybdec", urlHybPriv, priv, hyb, "", 0, nil},
		{"hybenc", "hybenc", urlHybPub, pub, hyb, urlHybPriv, priv, hyb},
		{"saead", "saead", urlStream, sym, rng.Bytes(32), "", 0, nil},
		{"prfset", "prfset", urlPRF, sym, rng.Bytes(32), "", 0, nil},
	}
	for _, t := range types {
		for _, pt := range prefixTypes {
			if t.class == "prfset" && pt != tinkpb.OutputPrefixType_RAW {
				continue
			}
			fname, f := factory(t.class)
			api := fmt.Sprintf("%s/legacy-stub/%s", fname, variantName(pt))
			ks := keysetOf(&tinkpb.KeyData{TypeUrl: t.url, Value: cl(t.val), KeyMaterialType: t.mt}, pt)
			var cks *tinkpb.Keyset
			if t.curl != "" {
				cks = keysetOf(&tinkpb.KeyData{TypeUrl: t.curl, Value: cl(t.cval), KeyMaterialType: t.cmt}, pt)
			}
			q, err := partner(t.class, ks, cks, false)
			if err != nil {
				e.skip(api, "partner: "+err.Error())
				continue
			}
			class := t.class
			src := primSrc{api: api, extra: "key=stub-" + t.name, class: class, q: q,
				mk: func() (any, func() string, error) {
					h, err := readHandle(ks)
					if err != nil {
						return nil, nil, err
					}
					p, err := f(h)
					if err != nil {
						return nil, nil, err
					}
					return p, func() string {
						s := "handle=" + handleHex(h)
						if p2, err := recoverAny(func() (any, error) { return f(h) }); err != nil {
							s += "|after=err"
						} else {
							s += "|after:" + cross(class, p2, q)
						}
						return s
					}, nil
				}}
			if hlib.Thorough() {
				src.msgs = 5
			} else {
				src.msgs = 3
			}
			e.o.Count("legacy-prim:" + fname)
			e.safe(api, func() { e.primOps(src, hlib.NewRng(seed, "legacy/"+api)) })
		}
	}
}
