//go:build verif

package main

// Operations of the tink primitive interfaces as engine specs, and the cross observation of a
// primitive under test against a pristine partner.

import (
	"bytes"
	"fmt"
	"io"
	"strings"
	"time"

	"github.com/tink-crypto/tink-go/v2/insecurecleartextkeyset"
	"github.com/tink-crypto/tink-go/v2/internal/verifharness/hlib"
	"github.com/tink-crypto/tink-go/v2/key"
	"github.com/tink-crypto/tink-go/v2/keyderivation"
	"github.com/tink-crypto/tink-go/v2/keyset"
	"github.com/tink-crypto/tink-go/v2/prf"
	"github.com/tink-crypto/tink-go/v2/tink"
	"google.golang.org/protobuf/proto"

	tinkpb "github.com/tink-crypto/tink-go/v2/proto/tink_go_proto"
)

var (
	probeMsg = []byte("c19 probe message 0123456789")
	probeAD  = []byte("c19 probe ad")
)

func errS(err error) string {
	if err != nil {
		return "err"
	}
	return "ok"
}

func hx(b []byte) string { return hlib.Tok(b) }

// opensUnder: verdict of a randomized encryption / signature through the pristine partner. The output must open
// under the inputs that were passed (a copy taken before the call); when those are not the original inputs of the
// scenario (same-buffer reuse observation) it is also tried under the original ones, so that an output bound to
// stale inputs shows. "" = fine.
func opensUnder(opens func(a, b []byte) bool, ga, gb, oa, ob []byte) string {
	given := opens(ga, gb)
	if bytes.Equal(ga, oa) && bytes.Equal(gb, ob) {
		if given {
			return ""
		}
		return "wrong-ciphertext"
	}
	orig := opens(oa, ob)
	if given && !orig {
		return ""
	}
	return fmt.Sprintf("wrong-ciphertext(opens-under-the-passed-inputs=%v,under-the-original-inputs=%v)", given, orig)
}

func cl(b []byte) []byte { return bytes.Clone(b) }

// sigFixture stands in for a (slow) signer: a signature made once by the pristine signer.
type sigFixture struct{ msg, sig []byte }

// ctFixture stands in for an encrypter: a ciphertext made once by the pristine encrypter.
type ctFixture struct{ pt, ctx, ct []byte }

func encStream(p tink.StreamingAEAD, pt, aad []byte) ([]byte, error) {
	var buf bytes.Buffer
	w, err := p.NewEncryptingWriter(&buf, aad)
	if err != nil {
		return nil, err
	}
	if _, err := w.Write(pt); err != nil {
		return nil, err
	}
	if err := w.Close(); err != nil {
		return nil, err
	}
	return buf.Bytes(), nil
}

func decStream(p tink.StreamingAEAD, ct, aad []byte) ([]byte, error) {
	r, err := p.NewDecryptingReader(bytes.NewReader(ct), aad)
	if err != nil {
		return nil, err
	}
	return io.ReadAll(r)
}

func handleHex(h *keyset.Handle) string { return handleHexIDs(h, true) }

// handleHexIDs: with ids=false the (randomly chosen) key ids are left out.
func handleHexIDs(h *keyset.Handle, ids bool) string {
	if h == nil {
		return "nil"
	}
	ks := insecurecleartextkeyset.KeysetMaterial(h)
	if !ids {
		ks = proto.Clone(ks).(*tinkpb.Keyset)
		ks.PrimaryKeyId = 0
		for _, k := range ks.GetKey() {
			k.KeyId = 0
		}
	}
	b, err := proto.MarshalOptions{Deterministic: true}.Marshal(ks)
	if err != nil {
		return "err:" + err.Error()
	}
	return hx(b)
}

// cross describes the behaviour of p (under test) with the help of the pristine partner q; the
// description is independent of randomness in p and q.
func cross(class string, p, q any) (s string) {
	if pan := hlib.Recover(func() { s = cross1(class, p, q) }); pan != "" {
		return "panic:" + pan
	}
	return s
}

func cross1(class string, p, q any) string {
	m, a := cl(probeMsg), cl(probeAD)
	switch class {
	case "aead":
		P, Q := p.(tink.AEAD), q.(tink.AEAD)
		c1, e1 := Q.Encrypt(cl(m), cl(a))
		d1, e2 := P.Decrypt(c1, cl(a))
		c2, e3 := P.Encrypt(cl(m), cl(a))
		d2, e4 := Q.Decrypt(c2, cl(a))
		return fmt.Sprintf("aead.dec=%s%s%s|aead.enc=%s%s%s", errS(e1), errS(e2), hx(d1), errS(e3), errS(e4), hx(d2))
	case "daead":
		P, Q := p.(tink.DeterministicAEAD), q.(tink.DeterministicAEAD)
		c1, e1 := P.EncryptDeterministically(cl(m), cl(a))
		c2, e2 := Q.EncryptDeterministically(cl(m), cl(a))
		d1, e3 := P.DecryptDeterministically(c2, cl(a))
		return fmt.Sprintf("daead.enc=%s%s|daead.dec=%s%s%s", errS(e1), hx(c1), errS(e2), errS(e3), hx(d1))
	case "mac":
		P, Q := p.(tink.MAC), q.(tink.MAC)
		t1, e1 := P.ComputeMAC(cl(m))
		e2 := Q.VerifyMAC(cl(t1), cl(m))
		t2, e3 := Q.ComputeMAC(cl(m))
		e4 := P.VerifyMAC(t2, cl(m))
		return fmt.Sprintf("mac.compute=%s%s%s|mac.verify=%s%s", errS(e1), errS(e2), hx(t1), errS(e3), errS(e4))
	case "prf":
		P := p.(prf.PRF)
		o1, e1 := P.ComputePRF(cl(m), 16)
		return fmt.Sprintf("prf=%s%s", errS(e1), hx(o1))
	case "prfset":
		P := p.(*prf.Set)
		o1, e1 := P.ComputePrimaryPRF(cl(m), 16)
		return fmt.Sprintf("prfset=%s%s", errS(e1), hx(o1))
	case "signer":
		P, Q := p.(tink.Signer), q.(tink.Verifier)
		s1, e1 := P.Sign(cl(m))
		e2 := Q.Verify(s1, cl(m))
		return fmt.Sprintf("signer=%s%s", errS(e1), errS(e2))
	case "verifier":
		P := p.(tink.Verifier)
		switch Q := q.(type) {
		case *sigFixture:
			return "verifier=" + errS(P.Verify(cl(Q.sig), cl(Q.msg)))
		case tink.Signer:
			s1, e1 := Q.Sign(cl(m))
			return "verifier=" + errS(e1) + errS(P.Verify(s1, cl(m)))
		}
	case "hybenc":
		P, Q := p.(tink.HybridEncrypt), q.(tink.HybridDecrypt)
		c1, e1 := P.Encrypt(cl(m), cl(a))
		d1, e2 := Q.Decrypt(c1, cl(a))
		return fmt.Sprintf("hybenc=%s%s%s", errS(e1), errS(e2), hx(d1))
	case "hybdec":
		P := p.(tink.HybridDecrypt)
		switch Q := q.(type) {
		case *ctFixture:
			d1, e1 := P.Decrypt(cl(Q.ct), cl(Q.ctx))
			return fmt.Sprintf("hybdec=%s%s", errS(e1), hx(d1))
		case tink.HybridEncrypt:
			c1, e1 := Q.Encrypt(cl(m), cl(a))
			d1, e2 := P.Decrypt(c1, cl(a))
			return fmt.Sprintf("hybdec=%s%s%s", errS(e1), errS(e2), hx(d1))
		}
	case "saead":
		P, Q := p.(tink.StreamingAEAD), q.(tink.StreamingAEAD)
		c1, e1 := encStream(Q, cl(m), cl(a))
		d1, e2 := decStream(P, c1, cl(a))
		c2, e3 := encStream(P, cl(m), cl(a))
		d2, e4 := decStream(Q, c2, cl(a))
		return fmt.Sprintf("saead.dec=%s%s%s|saead.enc=%s%s%s", errS(e1), errS(e2), hx(d1), errS(e3), errS(e4), hx(d2))
	case "kd":
		P := p.(keyderivation.KeysetDeriver)
		h, e1 := P.DeriveKeyset(cl(a))
		return fmt.Sprintf("kd=%s%s", errS(e1), handleHexIDs(h, false))
	case "keyderiver":
		k, e1 := p.(keyDeriver).DeriveKey(cl(a))
		return fmt.Sprintf("keyderiver=%s%s", errS(e1), serializeHex(k))
	case "prehash":
		P := p.(tink.Prehash)
		o1, e1 := P.ComputePrehash(cl(m))
		return fmt.Sprintf("prehash=%s%s", errS(e1), hx(o1))
	case "prehashsigner":
		// the prehash of the probe message is supplied by the partner (a tink.Prehash); the
		// signature is checked by the pristine verifier held in the pair
		Q := q.(*prehashPartner)
		ph, e0 := Q.ph.ComputePrehash(cl(m))
		s1, e1 := p.(tink.PrehashSigner).SignPrehash(ph)
		e2 := Q.v.Verify(s1, cl(m))
		return fmt.Sprintf("prehashsigner=%s%s%s", errS(e0), errS(e1), errS(e2))
	}
	return "cross:unsupported-" + class
}

// keyDeriver is the method set of keyderivation/internal/keyderiver.KeyDeriver.
type keyDeriver interface {
	DeriveKey(salt []byte) (key.Key, error)
}

type prehashPartner struct {
	ph tink.Prehash
	v  tink.Verifier
}

// primSrc describes how to obtain fresh instances of one primitive.
type primSrc struct {
	api   string // api prefix; the operation name is appended after a '/'
	extra string // scenario tokens (key=…)
	class string
	// mk builds a fresh primitive under test; obs (may be nil) adds observations of the objects
	// it was built from (handle contents, a primitive built afterwards).
	mk   func() (p any, obs func() string, err error)
	q    any // pristine partner, never exposed to mutations
	lays []layout
	msgs int // number of message sets (0 = tier default)
	// very slow primitives (SLH-DSA "s" signing, ~1 s per signature): no cross observation and no
	// repeated calls
	minimal bool
	// rndCT: ciphertexts of this key cannot be reproduced from the seed (ML-KEM, X-Wing)
	rndCT bool
}

type msgSet struct{ pt, ad []byte }

func msgSets(rng *hlib.Rng, n int) []msgSet {
	if n == 0 {
		n = hlib.N(1, 3)
	}
	all := []msgSet{{rng.Bytes(17), rng.Bytes(5)}, {[]byte{}, []byte{}}, {rng.Bytes(64), rng.Bytes(33)}, {rng.Bytes(1), []byte{}}, {rng.Bytes(300), rng.Bytes(1)}}
	if n > len(all) {
		n = len(all)
	}
	return all[:n]
}

func flipLast(b []byte) []byte {
	c := cl(b)
	if len(c) > 0 {
		c[len(c)-1] ^= 0x01
	}
	return c
}

// primOps runs every operation of the primitive class through the guard-region protocol.
func (e *engine) primOps(src primSrc, rng *hlib.Rng) {
	mkInst := func(call func(p any, ins [][]byte) ([][]byte, string)) func() (*inst, error) {
		return func() (*inst, error) {
			p, obs, err := src.mk()
			if err != nil {
				return nil, err
			}
			return &inst{
				call: func(ins [][]byte) ([][]byte, string) { return call(p, ins) },
				observe: func() string {
					s := ""
					if !src.minimal {
						s = cross(src.class, p, src.q)
					}
					if obs != nil {
						s += "|" + obs()
					}
					return s
				},
			}, nil
		}
	}
	run := func(op string, det bool, ins []in1, call func(p any, ins [][]byte) ([][]byte, string)) {
		sp := spec{api: src.api + "/" + op, extra: src.extra, ins: ins, det: det, mk: mkInst(call), lays: src.lays, once: src.minimal, noReuse: src.minimal}
		if src.rndCT && len(ins) > 0 && ins[0].name == "ciphertext" {
			sp.rndIn = map[int]bool{0: true}
		}
		e.run(sp)
	}
	out1 := func(b []byte, err error) ([][]byte, string) {
		if err != nil {
			return nil, "err"
		}
		return [][]byte{b}, "ok"
	}
	for _, ms := range msgSets(rng, src.msgs) {
		pt, ad := ms.pt, ms.ad
		switch src.class {
		case "aead":
			Q := src.q.(tink.AEAD)
			run("Encrypt", false, []in1{{"plaintext", pt}, {"associatedData", ad}}, func(p any, ins [][]byte) ([][]byte, string) {
				gpt, gad := cl(ins[0]), cl(ins[1])
				ct, err := p.(tink.AEAD).Encrypt(ins[0], ins[1])
				if err == nil {
					if w := opensUnder(func(pt, ad []byte) bool {
						d, err2 := Q.Decrypt(cl(ct), cl(ad))
						return err2 == nil && bytes.Equal(d, pt)
					}, gpt, gad, pt, ad); w != "" {
						return [][]byte{ct}, w
					}
				}
				return out1(ct, err)
			})
			ct, err := Q.Encrypt(cl(pt), cl(ad))
			if err != nil {
				continue
			}
			dec := func(p any, ins [][]byte) ([][]byte, string) { return out1(p.(tink.AEAD).Decrypt(ins[0], ins[1])) }
			run("Decrypt", true, []in1{{"ciphertext", ct}, {"associatedData", ad}}, dec)
			run("Decrypt-invalid", true, []in1{{"ciphertext", flipLast(ct)}, {"associatedData", ad}}, dec)
		case "daead":
			Q := src.q.(tink.DeterministicAEAD)
			run("EncryptDeterministically", true, []in1{{"plaintext", pt}, {"associatedData", ad}}, func(p any, ins [][]byte) ([][]byte, string) {
				return out1(p.(tink.DeterministicAEAD).EncryptDeterministically(ins[0], ins[1]))
			})
			ct, err := Q.EncryptDeterministically(cl(pt), cl(ad))
			if err != nil {
				continue
			}
			dec := func(p any, ins [][]byte) ([][]byte, string) {
				return out1(p.(tink.DeterministicAEAD).DecryptDeterministically(ins[0], ins[1]))
			}
			run("DecryptDeterministically", true, []in1{{"ciphertext", ct}, {"associatedData", ad}}, dec)
			run("DecryptDeterministically-invalid", true, []in1{{"ciphertext", flipLast(ct)}, {"associatedData", ad}}, dec)
		case "mac":
			Q := src.q.(tink.MAC)
			run("ComputeMAC", true, []in1{{"data", pt}}, func(p any, ins [][]byte) ([][]byte, string) {
				return out1(p.(tink.MAC).ComputeMAC(ins[0]))
			})
			tag, err := Q.ComputeMAC(cl(pt))
			if err != nil {
				continue
			}
			ver := func(p any, ins [][]byte) ([][]byte, string) { return nil, errS(p.(tink.MAC).VerifyMAC(ins[0], ins[1])) }
			run("VerifyMAC", true, []in1{{"mac", tag}, {"data", pt}}, ver)
			run("VerifyMAC-invalid", true, []in1{{"mac", flipLast(tag)}, {"data", pt}}, ver)
		case "prf":
			run("ComputePRF", true, []in1{{"input", pt}}, func(p any, ins [][]byte) ([][]byte, string) {
				return out1(p.(prf.PRF).ComputePRF(ins[0], 16))
			})
		case "prfset":
			run("ComputePrimaryPRF", true, []in1{{"input", pt}}, func(p any, ins [][]byte) ([][]byte, string) {
				return out1(p.(*prf.Set).ComputePrimaryPRF(ins[0], 16))
			})
			run("PRFs[primary].ComputePRF", true, []in1{{"input", pt}}, func(p any, ins [][]byte) ([][]byte, string) {
				s := p.(*prf.Set)
				return out1(s.PRFs[s.PrimaryID].ComputePRF(ins[0], 16))
			})
		case "signer":
			Q := src.q.(tink.Verifier)
			run("Sign", false, []in1{{"data", pt}}, func(p any, ins [][]byte) ([][]byte, string) {
				gd := cl(ins[0])
				sig, err := p.(tink.Signer).Sign(ins[0])
				if err == nil {
					if w := opensUnder(func(d, _ []byte) bool { return Q.Verify(cl(sig), cl(d)) == nil }, gd, nil, pt, nil); w != "" {
						return [][]byte{sig}, "wrong-signature" + strings.TrimPrefix(w, "wrong-ciphertext")
					}
				}
				return out1(sig, err)
			})
		case "verifier":
			var sig []byte
			switch Q := src.q.(type) {
			case *sigFixture:
				sig, pt = Q.sig, Q.msg
			case tink.Signer:
				var err error
				if sig, err = Q.Sign(cl(pt)); err != nil {
					continue
				}
			}
			ver := func(p any, ins [][]byte) ([][]byte, string) {
				return nil, errS(p.(tink.Verifier).Verify(ins[0], ins[1]))
			}
			run("Verify", true, []in1{{"signature", sig}, {"data", pt}}, ver)
			run("Verify-invalid", true, []in1{{"signature", flipLast(sig)}, {"data", pt}}, ver)
		case "hybenc":
			Q := src.q.(tink.HybridDecrypt)
			run("Encrypt", false, []in1{{"plaintext", pt}, {"contextInfo", ad}}, func(p any, ins [][]byte) ([][]byte, string) {
				gpt, gad := cl(ins[0]), cl(ins[1])
				ct, err := p.(tink.HybridEncrypt).Encrypt(ins[0], ins[1])
				if err == nil {
					if w := opensUnder(func(pt, ad []byte) bool {
						d, err2 := Q.Decrypt(cl(ct), cl(ad))
						return err2 == nil && bytes.Equal(d, pt)
					}, gpt, gad, pt, ad); w != "" {
						return [][]byte{ct}, w
					}
				}
				return out1(ct, err)
			})
		case "hybdec":
			var ct []byte
			switch Q := src.q.(type) {
			case *ctFixture:
				ct, pt, ad = Q.ct, Q.pt, Q.ctx
			case tink.HybridEncrypt:
				var err error
				if ct, err = Q.Encrypt(cl(pt), cl(ad)); err != nil {
					continue
				}
			}
			dec := func(p any, ins [][]byte) ([][]byte, string) {
				return out1(p.(tink.HybridDecrypt).Decrypt(ins[0], ins[1]))
			}
			run("Decrypt", true, []in1{{"ciphertext", ct}, {"contextInfo", ad}}, dec)
			run("Decrypt-invalid", true, []in1{{"ciphertext", flipLast(ct)}, {"contextInfo", ad}}, dec)
		case "kd":
			run("DeriveKeyset", true, []in1{{"salt", pt}}, func(p any, ins [][]byte) ([][]byte, string) {
				h, err := p.(keyderivation.KeysetDeriver).DeriveKeyset(ins[0])
				if err != nil {
					return nil, "err"
				}
				return nil, handleHexIDs(h, false)
			})
		case "keyderiver":
			run("DeriveKey", true, []in1{{"salt", pt}}, func(p any, ins [][]byte) ([][]byte, string) {
				k, err := p.(keyDeriver).DeriveKey(ins[0])
				if err != nil {
					return nil, "err"
				}
				return nil, serializeHex(k)
			})
		case "prehash":
			run("ComputePrehash", true, []in1{{"data", pt}}, func(p any, ins [][]byte) ([][]byte, string) {
				return out1(p.(tink.Prehash).ComputePrehash(ins[0]))
			})
		case "prehashsigner":
			Q := src.q.(*prehashPartner)
			ph, err := Q.ph.ComputePrehash(cl(pt))
			if err != nil {
				continue
			}
			run("SignPrehash", false, []in1{{"prehash", ph}}, func(p any, ins [][]byte) ([][]byte, string) {
				sig, err := p.(tink.PrehashSigner).SignPrehash(ins[0])
				if err == nil && Q.v.Verify(cl(sig), cl(pt)) != nil {
					return [][]byte{sig}, "wrong-signature"
				}
				return out1(sig, err)
			})
		case "saead":
			e.streamOps(src, pt, ad)
		default:
			e.skip(src.api, "no operations for class "+src.class)
		}
	}
	// output stability under history (history.go)
	t0 := time.Now()
	e.history(src, rng)
	e.cost["(history)"] += time.Since(t0).Seconds()
}

// streamOps: NewEncryptingWriter(aad), Write(p), NewDecryptingReader(aad), Read(p).
func (e *engine) streamOps(src primSrc, pt, ad []byte) {
	Q := src.q.(tink.StreamingAEAD)
	tail := []byte("c19 tail")
	full := append(cl(pt), tail...)
	ct, err := encStream(Q, cl(full), cl(ad))
	if err != nil {
		e.skip(src.api, "pristine streaming encryption failed: "+err.Error())
		return
	}
	mk := func(build func(p tink.StreamingAEAD, it *inst)) func() (*inst, error) {
		return func() (*inst, error) {
			p, obs, err := src.mk()
			if err != nil {
				return nil, err
			}
			it := &inst{}
			build(p.(tink.StreamingAEAD), it)
			first := it.observe
			var cached string
			done := false
			it.observe = func() string {
				if !done {
					done = true
					if pan := hlib.Recover(func() { cached = first() }); pan != "" {
						cached = "panic:" + pan
					}
				}
				s := cached + "|" + cross(src.class, p, src.q)
				if obs != nil {
					s += "|" + obs()
				}
				return s
			}
			return it, nil
		}
	}
	// NewEncryptingWriter(w, aad): the aad is overwritten after the writer exists; what is written
	// afterwards must decrypt under the original aad
	e.run(spec{api: src.api + "/NewEncryptingWriter", extra: src.extra, ins: []in1{{"aad", ad}}, once: true, lays: src.lays,
		mk: mk(func(p tink.StreamingAEAD, it *inst) {
			var buf bytes.Buffer
			var w io.WriteCloser
			it.call = func(ins [][]byte) ([][]byte, string) {
				var err error
				w, err = p.NewEncryptingWriter(&buf, ins[0])
				return nil, errS(err)
			}
			it.observe = func() string {
				if w == nil {
					return "stream=nowriter"
				}
				_, e1 := w.Write(cl(full))
				e2 := w.Close()
				d, e3 := decStream(Q, buf.Bytes(), cl(ad))
				return fmt.Sprintf("stream=%s%s%s%s", errS(e1), errS(e2), errS(e3), hx(d))
			}
		})})
	// Write(p): p is overwritten after Write returned; the stream must hold the original bytes
	e.run(spec{api: src.api + "/EncryptingWriter.Write", extra: src.extra, ins: []in1{{"p", pt}}, once: true, lays: src.lays,
		mk: mk(func(p tink.StreamingAEAD, it *inst) {
			var buf bytes.Buffer
			var w io.WriteCloser
			it.call = func(ins [][]byte) ([][]byte, string) {
				var err error
				w, err = p.NewEncryptingWriter(&buf, cl(ad))
				if err != nil {
					return nil, "err"
				}
				n, err := w.Write(ins[0])
				return nil, fmt.Sprintf("%d%s", n, errS(err))
			}
			it.observe = func() string {
				if w == nil {
					return "stream=nowriter"
				}
				_, e1 := w.Write(cl(tail))
				e2 := w.Close()
				d, e3 := decStream(Q, buf.Bytes(), cl(ad))
				return fmt.Sprintf("stream=%s%s%s%s", errS(e1), errS(e2), errS(e3), hx(d))
			}
		})})
	// NewDecryptingReader(r, aad): the aad is overwritten before the first Read
	e.run(spec{api: src.api + "/NewDecryptingReader", extra: src.extra, ins: []in1{{"aad", ad}}, once: true, lays: src.lays,
		mk: mk(func(p tink.StreamingAEAD, it *inst) {
			var r io.Reader
			it.call = func(ins [][]byte) ([][]byte, string) {
				var err error
				r, err = p.NewDecryptingReader(bytes.NewReader(cl(ct)), ins[0])
				return nil, errS(err)
			}
			it.observe = func() string {
				if r == nil {
					return "stream=noreader"
				}
				d, e1 := io.ReadAll(r)
				return fmt.Sprintf("stream=%s%s", errS(e1), hx(d))
			}
		})})
	// Read(p): p is an output buffer: only the canaries outside len(p) are compared; afterwards p is
	// overwritten and the rest of the stream is read into another buffer
	for _, n := range []int{len(pt) + 3, len(full) + 16} {
		n := n
		e.run(spec{api: src.api + "/DecryptingReader.Read", extra: src.extra, ins: []in1{{"p", make([]byte, n)}}, once: true, lays: src.lays,
			outputBuf: map[int]bool{0: true},
			mk: mk(func(p tink.StreamingAEAD, it *inst) {
				var r io.Reader
				var got []byte
				it.call = func(ins [][]byte) ([][]byte, string) {
					var err error
					r, err = p.NewDecryptingReader(bytes.NewReader(cl(ct)), cl(ad))
					if err != nil {
						return nil, "err"
					}
					k, err := r.Read(ins[0])
					if k < 0 || k > len(ins[0]) {
						return nil, fmt.Sprintf("bad-count-%d", k)
					}
					got = cl(ins[0][:k])
					return nil, fmt.Sprintf("%s%s", errS(err), hx(got))
				}
				it.observe = func() string {
					if r == nil {
						return "stream=noreader"
					}
					d, e1 := io.ReadAll(r)
					return fmt.Sprintf("stream=%s%s", errS(e1), hx(append(cl(got), d...)))
				}
			})})
	}
}
