//go:build verif

package main

// Section E: keysets and handles — proto keysets in (retention of the caller's KeyData bytes), proto
// keysets and serializations out (aliasing of handle / key internals), readers and writers.

import (
	"bytes"
	"context"
	"fmt"

	"github.com/tink-crypto/tink-go/v2/aead"
	aeadsubtle "github.com/tink-crypto/tink-go/v2/aead/subtle"
	"github.com/tink-crypto/tink-go/v2/core/registry"
	"github.com/tink-crypto/tink-go/v2/hybrid"
	hsubtle "github.com/tink-crypto/tink-go/v2/hybrid/subtle"
	"github.com/tink-crypto/tink-go/v2/insecurecleartextkeyset"
	"github.com/tink-crypto/tink-go/v2/internal/protoserialization"
	"github.com/tink-crypto/tink-go/v2/internal/verifharness/hlib"
	"github.com/tink-crypto/tink-go/v2/internal/verifharness/kslib"
	"github.com/tink-crypto/tink-go/v2/jwt"
	"github.com/tink-crypto/tink-go/v2/key"
	"github.com/tink-crypto/tink-go/v2/keyset"
	"github.com/tink-crypto/tink-go/v2/testkeyset"
	"github.com/tink-crypto/tink-go/v2/tink"

	tinkpb "github.com/tink-crypto/tink-go/v2/proto/tink_go_proto"
)

// keysetAround builds a one-key keyset whose KeyData.Value IS the given slice (not a copy).
func keysetAround(url string, mt tinkpb.KeyData_KeyMaterialType, pt tinkpb.OutputPrefixType, val []byte) *tinkpb.Keyset {
	return &tinkpb.Keyset{PrimaryKeyId: fixedKeyID, Key: []*tinkpb.Keyset_Key{{
		KeyData: &tinkpb.KeyData{TypeUrl: url, Value: val, KeyMaterialType: mt}, Status: tinkpb.KeyStatusType_ENABLED, KeyId: fixedKeyID, OutputPrefixType: pt}}}
}

// handleObserver returns the observation of a handle: its keyset material, the fingerprint of its
// primary key object and the behaviour of a primitive built from it now.
func handleObserver(pool *kslib.Pool, idx int, pt tinkpb.OutputPrefixType) func(h *keyset.Handle) string {
	var probe func(k key.Key) string
	if idx >= 0 {
		probe = keyProbe(pool, idx, pt)
	}
	return func(h *keyset.Handle) (s string) {
		if h == nil {
			return "handle=nil"
		}
		if pan := hlib.Recover(func() {
			s = "material=" + handleHex(h)
			en, err := h.Primary()
			if err != nil {
				s += "|primary=err"
				return
			}
			s += "|" + fingerprint(en.Key())
			if probe != nil {
				s += "|" + probe(en.Key())
			}
		}); pan != "" {
			return "handle-observation-panic:" + pan
		}
		return s
	}
}

func valuesOf(ks *tinkpb.Keyset) [][]byte {
	var r [][]byte
	for _, k := range ks.GetKey() {
		r = append(r, k.GetKeyData().GetValue())
	}
	return r
}

type handleIn struct {
	api  string
	read func(ks *tinkpb.Keyset) (*keyset.Handle, error)
}

func (e *engine) sectionKeysets(pool *kslib.Pool, seed uint64) {
	rng := hlib.NewRng(seed, "c19-keysets")
	master, _ := aeadsubtle.NewAESGCM(rng.Bytes(32))
	cleartext := handleIn{"insecurecleartextkeyset.Read(MemReaderWriter)", func(ks *tinkpb.Keyset) (*keyset.Handle, error) {
		return insecurecleartextkeyset.Read(&keyset.MemReaderWriter{Keyset: ks})
	}}
	noSecrets := handleIn{"keyset.NewHandleWithNoSecrets", func(ks *tinkpb.Keyset) (*keyset.Handle, error) { return keyset.NewHandleWithNoSecrets(ks) }}
	readNoSecrets := handleIn{"keyset.ReadWithNoSecrets(MemReaderWriter)", func(ks *tinkpb.Keyset) (*keyset.Handle, error) {
		return keyset.ReadWithNoSecrets(&keyset.MemReaderWriter{Keyset: ks})
	}}
	deprecated := handleIn{"insecurecleartextkeyset.KeysetHandle", func(ks *tinkpb.Keyset) (*keyset.Handle, error) {
		h := insecurecleartextkeyset.KeysetHandle(ks)
		if h == nil {
			return nil, fmt.Errorf("nil handle")
		}
		return h, nil
	}}
	testks := handleIn{"testkeyset.NewHandle", func(ks *tinkpb.Keyset) (*keyset.Handle, error) { return testkeyset.NewHandle(ks) }}

	// protoIn: the caller's KeyData.Value is the guarded input
	protoIn := func(hi handleIn, typ, name, url string, mt tinkpb.KeyData_KeyMaterialType, pt tinkpb.OutputPrefixType, val []byte, obs func(h *keyset.Handle) string) {
		e.run(spec{api: hi.api + "/" + typ, extra: "key=" + name, ins: []in1{{"KeyData.Value", val}}, once: true, mk: func() (*inst, error) {
			var h *keyset.Handle
			return &inst{call: func(ins [][]byte) ([][]byte, string) {
				var err error
				h, err = hi.read(keysetAround(url, mt, pt, ins[0]))
				return nil, errS(err)
			}, observe: func() string { return obs(h) }}, nil
		}})
	}

	// ---- unknown type URL (no parser, no key manager): the fallback proto key
	unk := rng.Bytes(24)
	for _, pt := range prefixTypes {
		obs := handleObserver(pool, -1, pt)
		protoIn(noSecrets, "unknown-type-url/"+variantName(pt), "unknown-public", urlUnknown, tinkpb.KeyData_ASYMMETRIC_PUBLIC, pt, unk, obs)
		protoIn(cleartext, "unknown-type-url/"+variantName(pt), "unknown-symmetric", urlUnknown, tinkpb.KeyData_SYMMETRIC, pt, unk, obs)
	}
	obsRaw := handleObserver(pool, -1, tinkpb.OutputPrefixType_TINK)
	protoIn(readNoSecrets, "unknown-type-url/TINK", "unknown-public", urlUnknown, tinkpb.KeyData_ASYMMETRIC_PUBLIC, tinkpb.OutputPrefixType_TINK, unk, obsRaw)
	protoIn(deprecated, "unknown-type-url/TINK", "unknown-symmetric", urlUnknown, tinkpb.KeyData_SYMMETRIC, tinkpb.OutputPrefixType_TINK, unk, obsRaw)
	protoIn(testks, "unknown-type-url/TINK", "unknown-symmetric", urlUnknown, tinkpb.KeyData_SYMMETRIC, tinkpb.OutputPrefixType_TINK, unk, obsRaw)
	// a custom type URL with a key manager (legacy path): the primitive is part of the observation
	{
		macKey := rng.Bytes(32)
		pt := tinkpb.OutputPrefixType_TINK
		q, err := partner("mac", keysetOf(&tinkpb.KeyData{TypeUrl: urlMAC, Value: cl(macKey), KeyMaterialType: tinkpb.KeyData_SYMMETRIC}, pt), nil, false)
		if err == nil {
			_, f := factory("mac")
			obs := func(h *keyset.Handle) string {
				if h == nil {
					return "handle=nil"
				}
				p, err := recoverAny(func() (any, error) { return f(h) })
				if err != nil {
					return "material=" + handleHex(h) + "|primitive=err"
				}
				return "material=" + handleHex(h) + "|" + cross("mac", p, q)
			}
			protoIn(cleartext, "legacy-stub-mac/TINK", "stub-mac", urlMAC, tinkpb.KeyData_SYMMETRIC, pt, macKey, obs)
		}
	}

	// ---- every pool key
	for i, pk := range pool.Keys {
		for _, pt := range keyVariants(pk) {
			i, pk, pt := i, pk, pt
			if _, err := parseKey(pk.KD, pt); err != nil {
				continue
			}
			e.safe("keyset tests of "+pk.Name, func() {
				pk = &kslib.PoolKey{Name: pk.Name + " variant=" + variantName(pt), Class: pk.Class, Type: pk.Type, KD: pk.KD, Prefix: pk.Prefix, Pub: pk.Pub, Priv: pk.Priv, Slow: pk.Slow, Alt: pk.Alt}
				obs := handleObserver(pool, i, pt)
				mt := pk.KD.GetKeyMaterialType()
				url := pk.KD.GetTypeUrl()
				protoIn(cleartext, pk.Type, pk.Name, url, mt, pt, pk.KD.GetValue(), obs)
				if !pk.Secret() {
					protoIn(noSecrets, pk.Type, pk.Name, url, mt, pt, pk.KD.GetValue(), obs)
				}
				// internal:protoserialization.ParseKey(serialization around the caller's bytes)
				e.run(spec{api: "internal:protoserialization.ParseKey/" + pk.Type, extra: "key=" + pk.Name, ins: []in1{{"KeyData.Value", pk.KD.GetValue()}}, once: true, mk: func() (*inst, error) {
					twin, err := parseKey(pk.KD, pt)
					if err != nil {
						return nil, err
					}
					var k key.Key
					return &inst{call: func(ins [][]byte) ([][]byte, string) {
						id := uint32(fixedKeyID)
						if pt == tinkpb.OutputPrefixType_RAW {
							id = 0
						}
						ser, err := protoserialization.NewKeySerialization(&tinkpb.KeyData{TypeUrl: url, Value: ins[0], KeyMaterialType: mt}, pt, id)
						if err != nil {
							return nil, "err"
						}
						k, err = protoserialization.ParseKey(ser)
						return nil, errS(err)
					}, observe: func() string {
						if k == nil {
							return "no-key"
						}
						return objObs(k, twin)
					}}, nil
				}})
				// internal:protoserialization.SerializeKey(k).KeyData().Value handed out
				e.run(spec{api: "internal:protoserialization.SerializeKey/" + pk.Type, extra: "key=" + pk.Name, det: true, mk: func() (*inst, error) {
					k, err := parseKey(pk.KD, pt)
					if err != nil {
						return nil, err
					}
					twin, err := parseKey(pk.KD, pt)
					if err != nil {
						return nil, err
					}
					return &inst{call: func([][]byte) ([][]byte, string) {
						ser, err := protoserialization.SerializeKey(k)
						if err != nil {
							return nil, "err"
						}
						return [][]byte{ser.KeyData().GetValue()}, "ok"
					}, observe: func() string { return objObs(k, twin) }}, nil
				}})
				// proto keysets out
				mkH := func() (*keyset.Handle, error) { return readHandle(keysetOf(pk.KD, pt)) }
				e.run(spec{api: "insecurecleartextkeyset.KeysetMaterial/" + pk.Type, extra: "key=" + pk.Name, det: true, mk: func() (*inst, error) {
					h, err := mkH()
					if err != nil {
						return nil, err
					}
					return &inst{call: func([][]byte) ([][]byte, string) { return valuesOf(insecurecleartextkeyset.KeysetMaterial(h)), "ok" },
						observe: func() string { return obs(h) }}, nil
				}})
				e.run(spec{api: "insecurecleartextkeyset.Write(MemReaderWriter)/" + pk.Type, extra: "key=" + pk.Name, det: true, mk: func() (*inst, error) {
					h, err := mkH()
					if err != nil {
						return nil, err
					}
					return &inst{call: func([][]byte) ([][]byte, string) {
						m := &keyset.MemReaderWriter{}
						if err := insecurecleartextkeyset.Write(h, m); err != nil {
							return nil, "err"
						}
						return valuesOf(m.Keyset), "ok"
					}, observe: func() string { return obs(h) }}, nil
				}})
				// all byte accessors of the handle's primary key object at once
				e.run(spec{api: "keyset.Handle.Primary.Key.accessors/" + pk.Type, extra: "key=" + pk.Name, det: true, mk: func() (*inst, error) {
					h, err := mkH()
					if err != nil {
						return nil, err
					}
					return &inst{call: func([][]byte) ([][]byte, string) {
						en, err := h.Primary()
						if err != nil {
							return nil, "err"
						}
						var outs [][]byte
						for _, lf := range accessors(en.Key()) {
							outs = append(outs, lf.bytes(en.Key()))
						}
						return outs, "ok"
					}, observe: func() string { return obs(h) }}, nil
				}})
				if pk.Class == "sig" || pk.Class == "hyb" || pk.Class == "jwtsig" {
					e.run(spec{api: "keyset.Handle.Public+KeysetMaterial/" + pk.Type, extra: "key=" + pk.Name, det: true, mk: func() (*inst, error) {
						h, err := mkH()
						if err != nil {
							return nil, err
						}
						return &inst{call: func([][]byte) ([][]byte, string) {
							ph, err := h.Public()
							if err != nil {
								return nil, "err"
							}
							return valuesOf(insecurecleartextkeyset.KeysetMaterial(ph)), "ok"
						}, observe: func() string { return obs(h) }}, nil
					}})
				}
				if !pk.Secret() {
					e.run(spec{api: "keyset.Handle.WriteWithNoSecrets(MemReaderWriter)/" + pk.Type, extra: "key=" + pk.Name, det: true, mk: func() (*inst, error) {
						h, err := mkH()
						if err != nil {
							return nil, err
						}
						return &inst{call: func([][]byte) ([][]byte, string) {
							m := &keyset.MemReaderWriter{}
							if err := h.WriteWithNoSecrets(m); err != nil {
								return nil, "err"
							}
							return valuesOf(m.Keyset), "ok"
						}, observe: func() string { return obs(h) }}, nil
					}})
				}
				// key templates in: keyset.NewHandle(template) with the caller's template.Value
				if root, err := parseKey(pk.KD, pt); err == nil && !slowKey(pk) && pk.Type != "RsaSsaPkcs1PrivateKey" && pk.Type != "RsaSsaPssPrivateKey" &&
					pk.Type != "JwtRsaSsaPkcs1PrivateKey" && pk.Type != "JwtRsaSsaPssPrivateKey" && mt != tinkpb.KeyData_ASYMMETRIC_PUBLIC {
					if tmpl, err := protoserialization.SerializeParameters(root.Parameters()); err == nil {
						e.run(spec{api: "keyset.NewHandle(KeyTemplate)/" + pk.Type, extra: "key=" + pk.Name, ins: []in1{{"KeyTemplate.Value", tmpl.GetValue()}}, once: true, lays: layouts()[:2], mk: func() (*inst, error) {
							var h *keyset.Handle
							return &inst{call: func(ins [][]byte) ([][]byte, string) {
								var err error
								h, err = keyset.NewHandle(&tinkpb.KeyTemplate{TypeUrl: tmpl.GetTypeUrl(), Value: ins[0], OutputPrefixType: tmpl.GetOutputPrefixType()})
								return nil, errS(err)
							}, observe: func() string {
								if h == nil {
									return "handle=nil"
								}
								en, err := h.Primary()
								if err != nil {
									return "primary=err"
								}
								return "parameters=" + serializeHex(en.Key().Parameters()) + "|equal=" + equalVia(en.Key().Parameters(), root.Parameters())
							}}, nil
						}})
					}
				}
				// registry.Primitive(typeURL, serializedKey)
				if class := primClass(pk.Class); class != "" && class != "kd" && !slowKey(pk) {
					if class == "prfset" {
						class = "prf"
					}
					raw := tinkpb.OutputPrefixType_RAW
					var cks *tinkpb.Keyset
					if pk.Priv >= 0 {
						cks = keysetOf(pool.Keys[pk.Priv].KD, raw)
					}
					var q any
					var err error
					if class != "prf" {
						q, err = partner(class, keysetOf(pk.KD, raw), cks, false)
					}
					if err == nil {
						e.run(spec{api: "registry.Primitive/" + pk.Type, extra: "key=" + pk.Name, ins: []in1{{"serializedKey", pk.KD.GetValue()}}, once: true, lays: layouts()[:2], mk: func() (*inst, error) {
							var p any
							return &inst{call: func(ins [][]byte) ([][]byte, string) {
								var err error
								p, err = registry.Primitive(url, ins[0])
								return nil, errS(err)
							}, observe: func() string {
								if p == nil {
									return "no-primitive"
								}
								return cross(class, p, q)
							}}, nil
						}})
					}
				}
			})
		}
	}

	// ---- encrypted keysets, binary / JSON readers and writers (a sample of keys: one per class)
	seen := map[string]bool{}
	for i, pk := range pool.Keys {
		if seen[pk.Class] || slowKey(pk) {
			continue
		}
		seen[pk.Class] = true
		i, pk := i, pk
		pt := pk.Prefix
		obs := handleObserver(pool, i, pt)
		h0, err := readHandle(keysetOf(pk.KD, pt))
		if err != nil {
			continue
		}
		ad := rng.Bytes(7)
		mem := &keyset.MemReaderWriter{}
		if err := h0.WriteWithAssociatedData(mem, master, cl(ad)); err != nil {
			continue
		}
		enc := mem.EncryptedKeyset.GetEncryptedKeyset()
		readEnc := func(api string, read func(r keyset.Reader, ad []byte) (*keyset.Handle, error)) {
			e.run(spec{api: api + "/" + pk.Type, extra: "key=" + pk.Name, ins: []in1{{"EncryptedKeyset.EncryptedKeyset", enc}, {"associatedData", ad}}, once: true, lays: layouts()[:2], mk: func() (*inst, error) {
				var h *keyset.Handle
				return &inst{call: func(ins [][]byte) ([][]byte, string) {
					var err error
					h, err = read(&keyset.MemReaderWriter{EncryptedKeyset: &tinkpb.EncryptedKeyset{EncryptedKeyset: ins[0]}}, ins[1])
					return nil, errS(err)
				}, observe: func() string { return obs(h) }}, nil
			}})
		}
		readEnc("keyset.ReadWithAssociatedData(MemReaderWriter)", func(r keyset.Reader, ad []byte) (*keyset.Handle, error) {
			return keyset.ReadWithAssociatedData(r, master, ad)
		})
		readEnc("keyset.ReadWithContext(MemReaderWriter)", func(r keyset.Reader, ad []byte) (*keyset.Handle, error) {
			return keyset.ReadWithContext(context.Background(), r, ctxAEAD{master}, ad)
		})
		// writers
		e.run(spec{api: "keyset.Handle.WriteWithAssociatedData(MemReaderWriter)/" + pk.Type, extra: "key=" + pk.Name, ins: []in1{{"associatedData", ad}}, lays: layouts()[:2], mk: func() (*inst, error) {
			h, err := readHandle(keysetOf(pk.KD, pt))
			if err != nil {
				return nil, err
			}
			return &inst{call: func(ins [][]byte) ([][]byte, string) {
				m := &keyset.MemReaderWriter{}
				if err := h.WriteWithAssociatedData(m, master, ins[0]); err != nil {
					return nil, "err"
				}
				out := m.EncryptedKeyset.GetEncryptedKeyset()
				h2, err := keyset.ReadWithAssociatedData(&keyset.MemReaderWriter{EncryptedKeyset: &tinkpb.EncryptedKeyset{EncryptedKeyset: cl(out)}}, master, cl(ad))
				if err != nil || handleHex(h2) != handleHex(h) {
					return [][]byte{out}, "wrong-encrypted-keyset"
				}
				return [][]byte{out}, "ok"
			}, observe: func() string { return obs(h) }}, nil
		}})
		e.run(spec{api: "keyset.Handle.WriteWithContext(MemReaderWriter)/" + pk.Type, extra: "key=" + pk.Name, ins: []in1{{"associatedData", ad}}, lays: layouts()[:2], mk: func() (*inst, error) {
			h, err := readHandle(keysetOf(pk.KD, pt))
			if err != nil {
				return nil, err
			}
			return &inst{call: func(ins [][]byte) ([][]byte, string) {
				m := &keyset.MemReaderWriter{}
				if err := h.WriteWithContext(context.Background(), m, ctxAEAD{master}, ins[0]); err != nil {
					return nil, "err"
				}
				return [][]byte{m.EncryptedKeyset.GetEncryptedKeyset()}, "ok"
			}, observe: func() string { return obs(h) }}, nil
		}})
		// serialized keysets through io readers
		var bin, js bytes.Buffer
		if insecurecleartextkeyset.Write(h0, keyset.NewBinaryWriter(&bin)) != nil || insecurecleartextkeyset.Write(h0, keyset.NewJSONWriter(&js)) != nil {
			continue
		}
		for _, f := range []struct {
			api string
			ser []byte
			rd  func(b []byte) keyset.Reader
		}{
			{"insecurecleartextkeyset.Read(BinaryReader)", bin.Bytes(), func(b []byte) keyset.Reader { return keyset.NewBinaryReader(bytes.NewReader(b)) }},
			{"insecurecleartextkeyset.Read(JSONReader)", js.Bytes(), func(b []byte) keyset.Reader { return keyset.NewJSONReader(bytes.NewReader(b)) }},
		} {
			f := f
			e.run(spec{api: f.api + "/" + pk.Type, extra: "key=" + pk.Name, ins: []in1{{"serializedKeyset", f.ser}}, once: true, lays: layouts()[:2], mk: func() (*inst, error) {
				var h *keyset.Handle
				return &inst{call: func(ins [][]byte) ([][]byte, string) {
					var err error
					h, err = insecurecleartextkeyset.Read(f.rd(ins[0]))
					return nil, errS(err)
				}, observe: func() string { return obs(h) }}, nil
			}})
		}
		e.run(spec{api: "insecurecleartextkeyset.Write(BinaryWriter)/" + pk.Type, extra: "key=" + pk.Name, det: true, mk: func() (*inst, error) {
			h, err := readHandle(keysetOf(pk.KD, pt))
			if err != nil {
				return nil, err
			}
			return &inst{call: func([][]byte) ([][]byte, string) {
				var b bytes.Buffer
				if err := insecurecleartextkeyset.Write(h, keyset.NewBinaryWriter(&b)); err != nil {
					return nil, "err"
				}
				return [][]byte{b.Bytes()}, "ok"
			}, observe: func() string { return obs(h) }}, nil
		}})
	}

	// ---- KMS envelope AEAD keyset encryption helpers taking bytes: hybrid/subtle public key import / export
	if h, err := keyset.NewHandle(hybrid.DHKEM_X25519_HKDF_SHA256_HKDF_SHA256_AES_256_GCM_Raw_Key_Template()); err == nil {
		tmpl := hybrid.DHKEM_X25519_HKDF_SHA256_HKDF_SHA256_AES_256_GCM_Raw_Key_Template()
		pubH, _ := h.Public()
		if pubBytes, err := hsubtle.SerializePrimaryPublicKey(pubH, tmpl); err == nil {
			dec, _ := hybrid.NewHybridDecrypt(h)
			e.run(spec{api: "hybrid/subtle.KeysetHandleFromSerializedPublicKey", ins: []in1{{"pubKeyBytes", pubBytes}}, once: true, mk: func() (*inst, error) {
				var ph *keyset.Handle
				return &inst{call: func(ins [][]byte) ([][]byte, string) {
					var err error
					ph, err = hsubtle.KeysetHandleFromSerializedPublicKey(ins[0], tmpl)
					return nil, errS(err)
				}, observe: func() string {
					if ph == nil {
						return "handle=nil"
					}
					enc, err := hybrid.NewHybridEncrypt(ph)
					if err != nil {
						return "material=" + handleHex(ph) + "|primitive=err"
					}
					return "material=" + handleHex(ph) + "|" + cross("hybenc", enc, dec)
				}}, nil
			}})
			e.run(spec{api: "hybrid/subtle.SerializePrimaryPublicKey", det: true, mk: func() (*inst, error) {
				ph, err := h.Public()
				if err != nil {
					return nil, err
				}
				return &inst{call: func([][]byte) ([][]byte, string) {
					b, err := hsubtle.SerializePrimaryPublicKey(ph, tmpl)
					return [][]byte{b}, errS(err)
				}, observe: func() string { return "material=" + handleHex(ph) }}, nil
			}})
		}
	}
	// JWK sets
	if h, err := keyset.NewHandle(jwt.ES256Template()); err == nil {
		if ph, err := h.Public(); err == nil {
			if jwk, err := jwt.JWKSetFromPublicKeysetHandle(ph); err == nil {
				signer, _ := jwt.NewSigner(h)
				e.run(spec{api: "jwt.JWKSetToPublicKeysetHandle", ins: []in1{{"jwkSet", jwk}}, once: true, mk: func() (*inst, error) {
					var got *keyset.Handle
					return &inst{call: func(ins [][]byte) ([][]byte, string) {
						var err error
						got, err = jwt.JWKSetToPublicKeysetHandle(ins[0])
						return nil, errS(err)
					}, observe: func() string {
						if got == nil {
							return "handle=nil"
						}
						v, err := jwt.NewVerifier(got)
						if err != nil {
							return "material=" + handleHexIDs(got, false) + "|verifier=err"
						}
						return "material=" + handleHexIDs(got, false) + "|" + jwtCross("jwtsigpub", v, signer)
					}}, nil
				}})
				e.run(spec{api: "jwt.JWKSetFromPublicKeysetHandle", det: true, mk: func() (*inst, error) {
					return &inst{call: func([][]byte) ([][]byte, string) {
						b, err := jwt.JWKSetFromPublicKeysetHandle(ph)
						return [][]byte{b}, errS(err)
					}, observe: func() string { return "material=" + handleHex(ph) }}, nil
				}})
			}
		}
	}
	// jwt.NewRawJWTFromJSON(typeHeader, jsonPayload) / RawJWT.JSONPayload()
	payload := []byte(`{"sub":"c19","aud":["a","b"]}`)
	e.run(spec{api: "jwt.NewRawJWTFromJSON", ins: []in1{{"jsonPayload", payload}}, once: true, mk: func() (*inst, error) {
		var r *jwt.RawJWT
		return &inst{call: func(ins [][]byte) ([][]byte, string) {
			var err error
			r, err = jwt.NewRawJWTFromJSON(nil, ins[0])
			return nil, errS(err)
		}, observe: func() string {
			if r == nil {
				return "rawjwt=nil"
			}
			b, err := r.JSONPayload()
			return "payload=" + errS(err) + hx(b)
		}}, nil
	}})
	e.run(spec{api: "jwt.RawJWT.JSONPayload", det: true, mk: func() (*inst, error) {
		r, err := jwt.NewRawJWTFromJSON(nil, cl(payload))
		if err != nil {
			return nil, err
		}
		return &inst{call: func([][]byte) ([][]byte, string) {
			b, err := r.JSONPayload()
			return [][]byte{b}, errS(err)
		}, observe: func() string { s, _ := r.Subject(); return "subject=" + s }}, nil
	}})
	_ = aead.AES128GCMKeyTemplate
	_ = tink.AEAD(nil)
}
