//go:build verif

package main

// Constructors that take big-endian integers, curve points or keys often accept — and normalise — encodings with
// leading zero bytes (ASN.1 INTEGER, java.math.BigInteger, fixed-width fields). The normalising step is a place where
// "the stored value is a sub-slice of the argument" hides: bytes.TrimLeft(b, "\x00"), b[len(b)-n:], … return views of
// the caller's array exactly when something was stripped, i.e. never for the minimal encodings key generation
// produces. Every byte-taking constructor is therefore also run through the guard-region protocol with 1, 2 and 8
// zero bytes in front of its inputs (all inputs together, and each input alone), for every encoding the constructor
// accepts; the layouts add spare capacity behind the slice as usual.

import (
	"fmt"

	"github.com/tink-crypto/tink-go/v2/internal/verifharness/hlib"
)

type leadZeroVariant struct {
	tag  string // appended to the api token
	ins  []in1
	twin any // the object built from independent copies of the padded inputs
}

var leadZeroCounts = []int{1, 2, 8}

func leadZeroLayouts() []layout {
	if hlib.Thorough() {
		return layouts()
	}
	return layouts()[:2]
}

func padded(b []byte, z int) []byte {
	r := make([]byte, z+len(b))
	copy(r[z:], b)
	return r
}

func leadZeroVariants(ins []in1, build func(ins [][]byte) (any, error)) []leadZeroVariant {
	var out []leadZeroVariant
	try := func(tag string, v []in1) bool {
		twin, err := recoverAny(func() (any, error) { return build(insVals(v)) })
		if err != nil || twin == nil {
			return false
		}
		out = append(out, leadZeroVariant{tag: tag, ins: v, twin: twin})
		return true
	}
	for _, z := range leadZeroCounts {
		all := make([]in1, len(ins))
		any0 := false
		for i, x := range ins {
			all[i] = x
			if len(x.val) > 0 {
				all[i].val = padded(x.val, z)
				any0 = true
			}
		}
		if !any0 {
			continue
		}
		try(fmt.Sprintf("[lead0=%d]", z), all)
		if len(ins) > 1 {
			for i, x := range ins {
				if len(x.val) == 0 {
					continue
				}
				one := append([]in1{}, ins...)
				one[i].val = padded(x.val, z)
				try(fmt.Sprintf("[lead0=%d:%s]", z, x.name), one)
			}
		}
	}
	return out
}
