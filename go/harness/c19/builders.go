//go:build verif

package main

// Section: builder objects and caller-owned containers other than byte slices.
//
// A keyset.Handle is an immutable value; the keyset.Manager that produced it stays in the caller's hands and keeps
// being used. Whatever the handle holds (entries, annotations) must therefore not be memory the manager rewrites later
// — the same "returned values share no memory with internals" rule as for byte slices, for maps and slices of entries.
// The engine's `mutIn` step stands for "the caller keeps using what it handed to / got the object from":
//
//	keyset.Manager.Handle             after Handle() returned, the manager gets other (non-empty) annotations, a new key,
//	                                  another primary, a disabled / deleted key; the handle is observed before and after;
//	keyset.Manager.SetAnnotations     the caller's map is rewritten (cleared, refilled) after the call; handles made
//	keyset.WithAnnotations            before and after the rewrite are observed.

import (
	"fmt"
	"sort"
	"strings"

	"github.com/tink-crypto/tink-go/v2/aead"
	"github.com/tink-crypto/tink-go/v2/insecurecleartextkeyset"
	"github.com/tink-crypto/tink-go/v2/internal/internalapi"
	"github.com/tink-crypto/tink-go/v2/internal/verifharness/hlib"
	"github.com/tink-crypto/tink-go/v2/internal/verifharness/kslib"
	"github.com/tink-crypto/tink-go/v2/keyset"
	"google.golang.org/protobuf/proto"

	tinkpb "github.com/tink-crypto/tink-go/v2/proto/tink_go_proto"
)

func annotationsOf(h *keyset.Handle) string {
	if h == nil {
		return "nil"
	}
	m := h.Annotations(internalapi.Token{})
	ks := make([]string, 0, len(m))
	for k, v := range m {
		ks = append(ks, k+"="+v)
	}
	sort.Strings(ks)
	return fmt.Sprintf("%d{%s}", len(m), strings.Join(ks, ","))
}

func handleAll(h *keyset.Handle) string {
	return "annotations=" + annotationsOf(h) + "|material=" + handleHex(h)
}

func rewriteMap(m map[string]string, gen int) {
	clear(m)
	m["owner"] = fmt.Sprintf("team-%d", gen)
	m["ticket"] = fmt.Sprint(4711 + gen)
}

func (e *engine) sectionBuilders(pool *kslib.Pool, seed uint64) {
	seen := map[string]bool{}
	n := 0
	for _, pk := range pool.Keys {
		if seen[pk.Class] || slowKey(pk) || (pk.Priv >= 0) {
			continue
		}
		seen[pk.Class] = true
		if n++; n > hlib.N(3, 12) {
			break
		}
		pk := pk
		ks := keysetOf(pk.KD, pk.Prefix)
		extra := "key=" + pk.Name
		first := func() map[string]string { return map[string]string{"owner": "team-a", "env": "prod"} }
		read := func(opts ...keyset.Option) (*keyset.Handle, error) {
			return insecurecleartextkeyset.Read(&keyset.MemReaderWriter{Keyset: proto.Clone(ks).(*tinkpb.Keyset)}, opts...)
		}
		// the manager keeps being used after Handle()
		e.run(spec{api: "keyset.Manager.Handle(manager-used-afterwards)", extra: extra, once: true, noReuse: true, mk: func() (*inst, error) {
			h0, err := read()
			if err != nil {
				return nil, err
			}
			m := keyset.NewManagerFromHandle(h0)
			if err := m.SetAnnotations(first()); err != nil {
				return nil, err
			}
			var h1, h2 *keyset.Handle
			var added uint32
			h2snap := ""
			return &inst{
				call: func([][]byte) ([][]byte, string) {
					var err error
					if h1, err = m.Handle(); err != nil {
						return nil, "err"
					}
					if added, err = m.Add(aead.AES128GCMKeyTemplate()); err != nil {
						return nil, "add-err"
					}
					if h2, err = m.Handle(); err != nil {
						return nil, "err"
					}
					h2snap = handleHex(h2) // the added key and its id are random: compared with the handle's own earlier state
					return nil, "ok"
				},
				observe: func() string {
					if h2 == nil {
						return "h1:" + handleAll(h1) + "|h2:nil"
					}
					return "h1:" + handleAll(h1) + "|h2:annotations=" + annotationsOf(h2) + fmt.Sprintf("|h2:len=%d|h2:material-unchanged=%v", h2.Len(), handleHex(h2) == h2snap)
				},
				mutLabel: "builder-used-after-it-produced-the-object",
				mutIn: func() {
					m.SetAnnotations(map[string]string{"owner": "team-b", "ticket": "4711"})
					m.SetAnnotations(map[string]string{"x": "y", "z": "w", "owner": "team-c"})
					if id, err := m.Add(aead.AES256GCMKeyTemplate()); err == nil {
						m.SetPrimary(id)
						m.Disable(added)
						m.Enable(added)
						m.Delete(added)
					}
					m.Handle()
				},
			}, nil
		}})
		// the caller's annotation map is rewritten after SetAnnotations / WithAnnotations
		e.run(spec{api: "keyset.Manager.SetAnnotations(callers-map-rewritten-afterwards)", extra: extra, once: true, noReuse: true, mk: func() (*inst, error) {
			h0, err := read()
			if err != nil {
				return nil, err
			}
			m := keyset.NewManagerFromHandle(h0)
			mine := first()
			var h1 *keyset.Handle
			return &inst{
				call: func([][]byte) ([][]byte, string) {
					if err := m.SetAnnotations(mine); err != nil {
						return nil, "err"
					}
					var err error
					h1, err = m.Handle()
					return nil, errS(err)
				},
				observe: func() string {
					h2, err := m.Handle()
					if err != nil {
						return "handle-err"
					}
					return "h1:" + handleAll(h1) + "|h2:" + handleAll(h2)
				},
				mutLabel: "callers-map",
				mutIn:    func() { rewriteMap(mine, 1) },
			}, nil
		}})
		e.run(spec{api: "keyset.WithAnnotations(callers-map-rewritten-afterwards)", extra: extra, once: true, noReuse: true, mk: func() (*inst, error) {
			mine := first()
			var h1 *keyset.Handle
			return &inst{
				call: func([][]byte) ([][]byte, string) {
					var err error
					h1, err = read(keyset.WithAnnotations(mine))
					return nil, errS(err)
				},
				observe: func() string {
					s := "h1:" + handleAll(h1)
					if h1 != nil {
						if h2, err := keyset.NewManagerFromHandle(h1).Handle(); err == nil {
							s += "|material-after-manager-roundtrip=" + handleHex(h2)
						}
					}
					return s
				},
				mutLabel: "callers-map",
				mutIn:    func() { rewriteMap(mine, 2) },
			}, nil
		}})
	}
}
