//go:build verif

package main

import "github.com/tink-crypto/tink-go/v2/internal/verifharness/kslib"

func (e *engine) sectionKeys(pool *kslib.Pool, seed uint64)    {}
func (e *engine) sectionKeysets(pool *kslib.Pool, seed uint64) {}
