//go:build verif

package main

// Section C: subtle constructors (retention of key / salt arguments) and the operations of the
// primitives they return, called directly.

import (
	"bytes"
	"context"
	"crypto/ecdsa"
	"crypto/ed25519"
	"crypto/elliptic"
	"crypto/rand"
	"fmt"
	"io"
	"math/big"

	"github.com/tink-crypto/tink-go/v2/aead"
	"github.com/tink-crypto/tink-go/v2/aead/aesgcm"
	aeadsubtle "github.com/tink-crypto/tink-go/v2/aead/subtle"
	daeadsubtle "github.com/tink-crypto/tink-go/v2/daead/subtle"
	"github.com/tink-crypto/tink-go/v2/hybrid/ecies"
	"github.com/tink-crypto/tink-go/v2/hybrid/hpke"
	hsubtle "github.com/tink-crypto/tink-go/v2/hybrid/subtle"
	imaccmac "github.com/tink-crypto/tink-go/v2/internal/mac/aescmac"
	imachmac "github.com/tink-crypto/tink-go/v2/internal/mac/hmac"
	imldsa "github.com/tink-crypto/tink-go/v2/internal/signature/mldsa"
	islhdsa "github.com/tink-crypto/tink-go/v2/internal/signature/slhdsa"
	"github.com/tink-crypto/tink-go/v2/internal/verifharness/hlib"
	"github.com/tink-crypto/tink-go/v2/keyderivation"
	kwpsubtle "github.com/tink-crypto/tink-go/v2/kwp/subtle"
	macsubtle "github.com/tink-crypto/tink-go/v2/mac/subtle"
	prfsubtle "github.com/tink-crypto/tink-go/v2/prf/subtle"
	sigsubtle "github.com/tink-crypto/tink-go/v2/signature/subtle"
	streamsubtle "github.com/tink-crypto/tink-go/v2/streamingaead/subtle"
	"github.com/tink-crypto/tink-go/v2/streamingaead/subtle/noncebased"
	tsubtle "github.com/tink-crypto/tink-go/v2/subtle"
	"github.com/tink-crypto/tink-go/v2/tink"
)

type ctor struct {
	api   string // the constructor
	opapi string // prefix for the operations of the constructed primitive ("" = none)
	class string
	ins   []in1
	build func(ins [][]byte) (any, error)
	q     func() (any, error) // pristine partner; nil = build(clones of ins)
}

func insVals(ins []in1) [][]byte {
	r := make([][]byte, len(ins))
	for i, x := range ins {
		r[i] = cl(x.val)
	}
	return r
}

// ctorPrim: retention test of a primitive constructor, then the operations of the primitive.
func (e *engine) ctorPrim(c ctor, seed uint64) {
	e.safe(c.api, func() { e.ctorPrim1(c, seed) })
}

func (e *engine) ctorPrim1(c ctor, seed uint64) {
	var q any
	var err error
	if pan := hlib.Recover(func() {
		if c.q != nil {
			q, err = c.q()
		} else {
			q, err = c.build(insVals(c.ins))
		}
	}); pan != "" {
		err = fmt.Errorf("panic: %s", pan)
	}
	if err != nil {
		e.skip(c.api, "partner: "+err.Error())
		return
	}
	e.run(spec{api: c.api, ins: c.ins, once: true, mk: func() (*inst, error) {
		var p any
		it := &inst{}
		it.call = func(ins [][]byte) ([][]byte, string) {
			var err error
			p, err = c.build(ins)
			return nil, errS(err)
		}
		it.observe = func() string {
			if p == nil {
				return "no-primitive"
			}
			return cross(c.class, p, q)
		}
		return it, nil
	}})
	// the same constructor with padded (leading zero) encodings of its inputs (leadzero.go)
	for _, v := range leadZeroVariants(c.ins, c.build) {
		v := v
		e.o.Count("constructor-leadzero:" + c.api)
		e.run(spec{api: c.api + v.tag, ins: v.ins, once: true, lays: leadZeroLayouts(), mk: func() (*inst, error) {
			var p any
			it := &inst{}
			it.call = func(ins [][]byte) ([][]byte, string) {
				var err error
				p, err = c.build(ins)
				return nil, errS(err)
			}
			it.observe = func() string {
				if p == nil {
					return "no-primitive"
				}
				s := cross(c.class, p, q)
				switch c.class {
				case "aead", "daead", "mac", "saead":
					s += "|" + cross(c.class, p, v.twin)
				}
				return s
			}
			return it, nil
		}})
	}
	if c.opapi != "" {
		e.primOps(primSrc{api: c.opapi, class: c.class, q: q, mk: func() (any, func() string, error) {
			p, err := c.build(insVals(c.ins))
			return p, nil, err
		}}, hlib.NewRng(seed, "subtle/"+c.opapi))
	}
}

// adapters giving non-tink interfaces a primitive class
type macNoVerify struct {
	f func(data []byte) ([]byte, error)
}

func (m macNoVerify) ComputePRF(data []byte, n uint32) ([]byte, error) { return m.f(data) }

type streamPRF struct {
	p keyderivation.VerifStreamingPRF
}

func (s streamPRF) ComputePRF(data []byte, n uint32) ([]byte, error) {
	r, err := s.p.Compute(data)
	if err != nil {
		return nil, err
	}
	out := make([]byte, n)
	_, err = io.ReadFull(r, out)
	return out, err
}

func (s *engine) sectionSubtle(seed uint64) {
	e := s
	rng := hlib.NewRng(seed, "c19-subtle-keys")
	k16, k32, k64 := rng.Bytes(16), rng.Bytes(32), rng.Bytes(64)
	salt := rng.Bytes(13)

	// ---- AEAD
	e.ctorPrim(ctor{api: "aead/subtle.NewAESGCM", opapi: "aead/subtle.AESGCM", class: "aead", ins: []in1{{"key", k16}},
		build: func(ins [][]byte) (any, error) { return aeadsubtle.NewAESGCM(ins[0]) }}, seed)
	e.ctorPrim(ctor{api: "aead/subtle.NewAESGCMSIV", opapi: "aead/subtle.AESGCMSIV", class: "aead", ins: []in1{{"key", k32}},
		build: func(ins [][]byte) (any, error) { return aeadsubtle.NewAESGCMSIV(ins[0]) }}, seed)
	e.ctorPrim(ctor{api: "aead/subtle.NewChaCha20Poly1305", opapi: "aead/subtle.ChaCha20Poly1305", class: "aead", ins: []in1{{"key", k32}},
		build: func(ins [][]byte) (any, error) { return aeadsubtle.NewChaCha20Poly1305(ins[0]) }}, seed)
	e.ctorPrim(ctor{api: "aead/subtle.NewXChaCha20Poly1305", opapi: "aead/subtle.XChaCha20Poly1305", class: "aead", ins: []in1{{"key", k32}},
		build: func(ins [][]byte) (any, error) { return aeadsubtle.NewXChaCha20Poly1305(ins[0]) }}, seed)
	// AES-CTR (IND-CPA cipher) is given the AEAD shape by ignoring the associated data
	e.ctorPrim(ctor{api: "aead/subtle.NewAESCTR", opapi: "aead/subtle.AESCTR", class: "aead", ins: []in1{{"key", k16}},
		build: func(ins [][]byte) (any, error) {
			c, err := aeadsubtle.NewAESCTR(ins[0], 16)
			if err != nil {
				return nil, err
			}
			return indcpaAEAD{c}, nil
		}}, seed)
	// encrypt-then-authenticate over AES-CTR and HMAC (the constructor takes no bytes itself)
	mkEtA := func() (any, error) {
		c, err := aeadsubtle.NewAESCTR(cl(k16), 16)
		if err != nil {
			return nil, err
		}
		m, err := macsubtle.NewHMAC("SHA256", cl(k32), 16)
		if err != nil {
			return nil, err
		}
		return aeadsubtle.NewEncryptThenAuthenticate(c, m, 16)
	}
	if q, err := mkEtA(); err == nil {
		e.primOps(primSrc{api: "aead/subtle.EncryptThenAuthenticate", class: "aead", q: q,
			mk: func() (any, func() string, error) { p, err := mkEtA(); return p, nil, err }}, hlib.NewRng(seed, "subtle/eta"))
	}
	// KMS envelope AEAD over a remote AEAD
	remote, _ := aeadsubtle.NewAESGCM(cl(k16))
	e.primOps(primSrc{api: "aead.NewKMSEnvelopeAEAD2", class: "aead", q: aead.NewKMSEnvelopeAEAD2(aead.AES128GCMKeyTemplate(), remote),
		mk: func() (any, func() string, error) {
			return aead.NewKMSEnvelopeAEAD2(aead.AES128GCMKeyTemplate(), remote), nil, nil
		}}, hlib.NewRng(seed, "subtle/kmsenv"))
	{
		mkctx := func() (any, error) {
			w, err := aead.NewKMSEnvelopeAEADWithContext(aead.AES128GCMKeyTemplate(), ctxAEAD{remote})
			if err != nil {
				return nil, err
			}
			return withCtx{w}, nil
		}
		if q, err := mkctx(); err == nil {
			e.primOps(primSrc{api: "aead.NewKMSEnvelopeAEADWithContext", class: "aead", q: q,
				mk: func() (any, func() string, error) { p, err := mkctx(); return p, nil, err }}, hlib.NewRng(seed, "subtle/kmsenvctx"))
		} else {
			e.skip("aead.NewKMSEnvelopeAEADWithContext", err.Error())
		}
	}

	// ---- deterministic AEAD
	e.ctorPrim(ctor{api: "daead/subtle.NewAESSIV", opapi: "daead/subtle.AESSIV", class: "daead", ins: []in1{{"key", k64}},
		build: func(ins [][]byte) (any, error) { return daeadsubtle.NewAESSIV(ins[0]) }}, seed)

	// ---- MAC
	e.ctorPrim(ctor{api: "mac/subtle.NewHMAC", opapi: "mac/subtle.HMAC", class: "mac", ins: []in1{{"key", k32}},
		build: func(ins [][]byte) (any, error) { return macsubtle.NewHMAC("SHA256", ins[0], 16) }}, seed)
	e.ctorPrim(ctor{api: "mac/subtle.NewAESCMAC", opapi: "mac/subtle.AESCMAC", class: "mac", ins: []in1{{"key", k32}},
		build: func(ins [][]byte) (any, error) { return macsubtle.NewAESCMAC(ins[0], 16) }}, seed)
	e.ctorPrim(ctor{api: "internal:internal/mac/hmac.New", opapi: "internal:internal/mac/hmac.HMAC", class: "mac", ins: []in1{{"key", k32}},
		build: func(ins [][]byte) (any, error) {
			h, err := imachmac.New("SHA256", ins[0], 16)
			if err != nil {
				return nil, err
			}
			return variadicMAC{h}, nil
		}}, seed)
	e.ctorPrim(ctor{api: "internal:internal/mac/aescmac.New", opapi: "internal:internal/mac/aescmac.CMAC", class: "prf", ins: []in1{{"key", k32}},
		build: func(ins [][]byte) (any, error) {
			c, err := imaccmac.New(ins[0])
			if err != nil {
				return nil, err
			}
			return macNoVerify{func(d []byte) ([]byte, error) { return c.Compute(d), nil }}, nil
		}}, seed)

	// ---- PRF
	e.ctorPrim(ctor{api: "prf/subtle.NewHMACPRF", opapi: "prf/subtle.HMACPRF", class: "prf", ins: []in1{{"key", k32}},
		build: func(ins [][]byte) (any, error) { return prfsubtle.NewHMACPRF("SHA256", ins[0]) }}, seed)
	e.ctorPrim(ctor{api: "prf/subtle.NewHKDFPRF", opapi: "prf/subtle.HKDFPRF", class: "prf", ins: []in1{{"key", k32}, {"salt", salt}},
		build: func(ins [][]byte) (any, error) { return prfsubtle.NewHKDFPRF("SHA256", ins[0], ins[1]) }}, seed)
	e.ctorPrim(ctor{api: "prf/subtle.NewAESCMACPRF", opapi: "prf/subtle.AESCMACPRF", class: "prf", ins: []in1{{"key", k32}},
		build: func(ins [][]byte) (any, error) { return prfsubtle.NewAESCMACPRF(ins[0]) }}, seed)
	e.ctorPrim(ctor{api: "internal:keyderivation/internal/streamingprf.NewHKDFStreamingPRF", opapi: "internal:keyderivation/internal/streamingprf.HKDFStreamingPRF", class: "prf",
		ins: []in1{{"key", k32}, {"salt", salt}},
		build: func(ins [][]byte) (any, error) {
			p, err := keyderivation.VerifNewHKDFStreamingPRF("SHA256", ins[0], ins[1])
			if err != nil {
				return nil, err
			}
			return streamPRF{p}, nil
		}}, seed)
	// subtle.ComputeHKDF(hash, key, salt, info, n): a function of four byte inputs
	e.run(spec{api: "subtle.ComputeHKDF", det: true, ins: []in1{{"key", k32}, {"salt", salt}, {"info", rng.Bytes(9)}},
		mk: func() (*inst, error) {
			return &inst{call: func(ins [][]byte) ([][]byte, string) {
				out, err := tsubtle.ComputeHKDF("SHA256", ins[0], ins[1], ins[2], 32)
				return [][]byte{out}, errS(err)
			}}, nil
		}})
	e.run(spec{api: "subtle.ComputeSharedSecretX25519", det: true, ins: []in1{{"privKey", k32}, {"pubValue", x25519Pub(rng.Bytes(32))}},
		mk: func() (*inst, error) {
			return &inst{call: func(ins [][]byte) ([][]byte, string) {
				out, err := tsubtle.ComputeSharedSecretX25519(ins[0], ins[1])
				return [][]byte{out}, errS(err)
			}}, nil
		}})
	e.run(spec{api: "subtle.PublicFromPrivateX25519", det: true, ins: []in1{{"privKey", k32}},
		mk: func() (*inst, error) {
			return &inst{call: func(ins [][]byte) ([][]byte, string) {
				out, err := tsubtle.PublicFromPrivateX25519(ins[0])
				return [][]byte{out}, errS(err)
			}}, nil
		}})

	// ---- signatures
	seed32 := rng.Bytes(32)
	edPriv := ed25519.NewKeyFromSeed(seed32)
	edPub := []byte(edPriv.Public().(ed25519.PublicKey))
	edVerifier := func() (any, error) { return sigsubtle.NewED25519Verifier(cl(edPub)) }
	edSigner := func() (any, error) { return sigsubtle.NewED25519Signer(cl(seed32)) }
	e.ctorPrim(ctor{api: "signature/subtle.NewED25519Signer", opapi: "signature/subtle.ED25519Signer", class: "signer", ins: []in1{{"keyValue", seed32}},
		build: func(ins [][]byte) (any, error) { return sigsubtle.NewED25519Signer(ins[0]) }, q: edVerifier}, seed)
	e.ctorPrim(ctor{api: "signature/subtle.NewED25519SignerFromPrivateKey", class: "signer", ins: []in1{{"*privateKey", []byte(edPriv)}},
		build: func(ins [][]byte) (any, error) {
			k := ed25519.PrivateKey(ins[0])
			return sigsubtle.NewED25519SignerFromPrivateKey(&k)
		}, q: edVerifier}, seed)
	e.ctorPrim(ctor{api: "signature/subtle.NewED25519Verifier", opapi: "signature/subtle.ED25519Verifier", class: "verifier", ins: []in1{{"pub", edPub}},
		build: func(ins [][]byte) (any, error) { return sigsubtle.NewED25519Verifier(ins[0]) }, q: edSigner}, seed)
	e.ctorPrim(ctor{api: "signature/subtle.NewED25519VerifierFromPublicKey", class: "verifier", ins: []in1{{"*publicKey", edPub}},
		build: func(ins [][]byte) (any, error) {
			k := ed25519.PublicKey(ins[0])
			return sigsubtle.NewED25519VerifierFromPublicKey(&k)
		}, q: edSigner}, seed)
	ecKey, err := ecdsa.GenerateKey(elliptic.P256(), rand.Reader)
	if err == nil {
		d := ecKey.D.FillBytes(make([]byte, 32))
		x, y := ecKey.X.FillBytes(make([]byte, 32)), ecKey.Y.FillBytes(make([]byte, 32))
		ecVerifier := func() (any, error) { return sigsubtle.NewECDSAVerifier("SHA256", "NIST_P256", "DER", cl(x), cl(y)) }
		ecSigner := func() (any, error) { return sigsubtle.NewECDSASigner("SHA256", "NIST_P256", "DER", cl(d)) }
		e.ctorPrim(ctor{api: "signature/subtle.NewECDSASigner", opapi: "signature/subtle.ECDSASigner", class: "signer", ins: []in1{{"keyValue", d}},
			build: func(ins [][]byte) (any, error) { return sigsubtle.NewECDSASigner("SHA256", "NIST_P256", "DER", ins[0]) }, q: ecVerifier}, seed)
		e.ctorPrim(ctor{api: "signature/subtle.NewECDSAVerifier", opapi: "signature/subtle.ECDSAVerifier", class: "verifier", ins: []in1{{"x", x}, {"y", y}},
			build: func(ins [][]byte) (any, error) {
				return sigsubtle.NewECDSAVerifier("SHA256", "NIST_P256", "DER", ins[0], ins[1])
			}, q: ecSigner}, seed)
		// signature codecs
		sig, _ := ecdsa.SignASN1(rand.Reader, ecKey, make([]byte, 32))
		e.run(spec{api: "signature/subtle.DecodeECDSASignature+Encode", det: true, ins: []in1{{"encodedBytes", sig}},
			mk: func() (*inst, error) {
				return &inst{call: func(ins [][]byte) ([][]byte, string) {
					s, err := sigsubtle.DecodeECDSASignature(ins[0], "DER")
					if err != nil {
						return nil, "err"
					}
					out, err := s.EncodeECDSASignature("IEEE_P1363", "NIST_P256")
					return [][]byte{out}, errS(err)
				}}, nil
			}})
	}

	// ---- hybrid: ECIES over P-256 with an AES-GCM DEM
	if demParams, err := aesgcm.NewParameters(aesgcm.ParametersOpts{KeySizeInBytes: 16, IVSizeInBytes: 12, TagSizeInBytes: 16, Variant: aesgcm.VariantNoPrefix}); err == nil {
		helper, err1 := ecies.VerifNewDEMHelper(demParams)
		pvt, err2 := hsubtle.GenerateECDHKeyPair(elliptic.P256())
		if err1 == nil && err2 == nil {
			dBytes := pvt.D.FillBytes(make([]byte, 32))
			mkPriv := func() *hsubtle.ECPrivateKey { return hsubtle.GetECPrivateKey(elliptic.P256(), cl(dBytes)) }
			mkPub := func() *hsubtle.ECPublicKey {
				return &hsubtle.ECPublicKey{Curve: elliptic.P256(), Point: hsubtle.ECPoint{X: new(big.Int).Set(pvt.PublicKey.Point.X), Y: new(big.Int).Set(pvt.PublicKey.Point.Y)}}
			}
			decQ := func() (any, error) {
				return hsubtle.NewECIESAEADHKDFHybridDecrypt(mkPriv(), cl(salt), "SHA256", "UNCOMPRESSED", helper)
			}
			encQ := func() (any, error) {
				return hsubtle.NewECIESAEADHKDFHybridEncrypt(mkPub(), cl(salt), "SHA256", "UNCOMPRESSED", helper)
			}
			e.ctorPrim(ctor{api: "hybrid/subtle.NewECIESAEADHKDFHybridEncrypt", opapi: "hybrid/subtle.ECIESAEADHKDFHybridEncrypt", class: "hybenc", ins: []in1{{"hkdfSalt", salt}},
				build: func(ins [][]byte) (any, error) {
					return hsubtle.NewECIESAEADHKDFHybridEncrypt(mkPub(), ins[0], "SHA256", "UNCOMPRESSED", helper)
				}, q: decQ}, seed)
			e.ctorPrim(ctor{api: "hybrid/subtle.NewECIESAEADHKDFHybridDecrypt", opapi: "hybrid/subtle.ECIESAEADHKDFHybridDecrypt", class: "hybdec", ins: []in1{{"hkdfSalt", salt}},
				build: func(ins [][]byte) (any, error) {
					return hsubtle.NewECIESAEADHKDFHybridDecrypt(mkPriv(), ins[0], "SHA256", "UNCOMPRESSED", helper)
				}, q: encQ}, seed)
			// GetECPrivateKey(c, b) / PointDecode(c, fmt, e) / PointEncode
			pubEnc, _ := hsubtle.PointEncode(elliptic.P256(), "UNCOMPRESSED", pvt.PublicKey.Point)
			e.run(spec{api: "hybrid/subtle.GetECPrivateKey", once: true, ins: []in1{{"b", dBytes}}, mk: func() (*inst, error) {
				var k *hsubtle.ECPrivateKey
				return &inst{call: func(ins [][]byte) ([][]byte, string) {
					k = hsubtle.GetECPrivateKey(elliptic.P256(), ins[0])
					return nil, "ok"
				}, observe: func() string { return fmt.Sprintf("d=%x|x=%x", k.D.Bytes(), k.PublicKey.Point.X.Bytes()) }}, nil
			}})
			e.run(spec{api: "hybrid/subtle.PointDecode+PointEncode", det: true, ins: []in1{{"e", pubEnc}}, mk: func() (*inst, error) {
				var pt *hsubtle.ECPoint
				return &inst{call: func(ins [][]byte) ([][]byte, string) {
					var err error
					pt, err = hsubtle.PointDecode(elliptic.P256(), "UNCOMPRESSED", ins[0])
					if err != nil {
						return nil, "err"
					}
					out, err := hsubtle.PointEncode(elliptic.P256(), "COMPRESSED", *pt)
					return [][]byte{out}, errS(err)
				}, observe: func() string { return fmt.Sprintf("x=%x|y=%x", pt.X.Bytes(), pt.Y.Bytes()) }}, nil
			}})
		} else {
			e.skip("hybrid/subtle.NewECIESAEADHKDFHybridEncrypt", fmt.Sprint(err1, err2))
		}
	}
	// ---- hybrid/internal/hpke (through the hook): NewEncrypt keeps recipientPubKeyBytes?
	if params, err := hpke.NewParameters(hpke.ParametersOpts{KEMID: hpke.DHKEM_X25519_HKDF_SHA256, KDFID: hpke.HKDFSHA256, AEADID: hpke.AES128GCM, Variant: hpke.VariantNoPrefix}); err == nil {
		priv := rng.Bytes(32)
		pub := x25519Pub(priv)
		decQ := func() (any, error) { return hpke.VerifNewDecrypt(hlib.Secret(priv), params) }
		encQ := func() (any, error) { return hpke.VerifNewEncrypt(cl(pub), params) }
		e.ctorPrim(ctor{api: "internal:hybrid/internal/hpke.NewEncrypt", opapi: "internal:hybrid/internal/hpke.Encrypt", class: "hybenc", ins: []in1{{"recipientPubKeyBytes", pub}},
			build: func(ins [][]byte) (any, error) { return hpke.VerifNewEncrypt(ins[0], params) }, q: decQ}, seed)
		e.ctorPrim(ctor{api: "internal:hybrid/internal/hpke.NewDecrypt(secretdata.NewBytesFromData)", opapi: "internal:hybrid/internal/hpke.Decrypt", class: "hybdec", ins: []in1{{"recipientPrivateKeyBytes", priv}},
			build: func(ins [][]byte) (any, error) { return hpke.VerifNewDecrypt(hlib.Secret(ins[0]), params) }, q: encQ}, seed)
	}
	// X-Wing KEM functions
	xsk := rng.Bytes(32)
	if xpk, err := hpke.VerifXWingPublicFromSecret(cl(xsk)); err == nil {
		e.run(spec{api: "internal:hybrid/internal/xwing.PublicFromSecret", det: true, ins: []in1{{"secretKey", xsk}}, mk: func() (*inst, error) {
			return &inst{call: func(ins [][]byte) ([][]byte, string) {
				out, err := hpke.VerifXWingPublicFromSecret(ins[0])
				return [][]byte{out}, errS(err)
			}}, nil
		}})
		e.run(spec{api: "internal:hybrid/internal/xwing.Encapsulate", ins: []in1{{"publicKey", xpk}}, mk: func() (*inst, error) {
			return &inst{call: func(ins [][]byte) ([][]byte, string) {
				ss, ct, err := hpke.VerifXWingEncapsulate(ins[0])
				if err != nil {
					return nil, "err"
				}
				ss2, err := hpke.VerifXWingDecapsulate(cl(ct), cl(xsk))
				if err != nil || !bytes.Equal(ss, ss2) {
					return [][]byte{ss, ct}, "wrong-encapsulation"
				}
				return [][]byte{ss, ct}, "ok"
			}}, nil
		}})
		if _, ct, err := hpke.VerifXWingEncapsulate(cl(xpk)); err == nil {
			e.run(spec{api: "internal:hybrid/internal/xwing.Decapsulate", det: true, rndIn: map[int]bool{0: true}, ins: []in1{{"ciphertext", ct}, {"recipientPrivKey", xsk}}, mk: func() (*inst, error) {
				return &inst{call: func(ins [][]byte) ([][]byte, string) {
					out, err := hpke.VerifXWingDecapsulate(ins[0], ins[1])
					return [][]byte{out}, errS(err)
				}}, nil
			}})
		}
	}

	// ---- streaming AEAD
	e.ctorPrim(ctor{api: "streamingaead/subtle.NewAESGCMHKDF", opapi: "streamingaead/subtle.AESGCMHKDF", class: "saead", ins: []in1{{"mainKey", k32}},
		build: func(ins [][]byte) (any, error) { return streamsubtle.NewAESGCMHKDF(ins[0], "SHA256", 16, 64, 0) }}, seed)
	e.ctorPrim(ctor{api: "streamingaead/subtle.NewAESCTRHMAC", opapi: "streamingaead/subtle.AESCTRHMAC", class: "saead", ins: []in1{{"mainKey", k32}},
		build: func(ins [][]byte) (any, error) {
			return streamsubtle.NewAESCTRHMAC(ins[0], "SHA256", 16, "SHA256", 16, 64, 0)
		}}, seed)

	// ---- streamingaead/subtle/noncebased: the NoncePrefix of WriterParams / ReaderParams
	{
		prefix := rng.Bytes(7)
		msg := rng.Bytes(40)
		encNB := func(np []byte) (*noncebased.Writer, *bytes.Buffer, error) {
			var buf bytes.Buffer
			w, err := noncebased.NewWriter(noncebased.WriterParams{W: &buf, SegmentEncrypter: toySegment{}, NonceSize: 12, NoncePrefix: np, PlaintextSegmentSize: 16})
			return w, &buf, err
		}
		decNB := func(np, ct []byte) (*noncebased.Reader, error) {
			return noncebased.NewReader(noncebased.ReaderParams{R: bytes.NewReader(ct), SegmentDecrypter: toySegment{}, NonceSize: 12, NoncePrefix: np, CiphertextSegmentSize: 28})
		}
		e.run(spec{api: "streamingaead/subtle/noncebased.NewWriter", once: true, ins: []in1{{"NoncePrefix", prefix}}, mk: func() (*inst, error) {
			var w *noncebased.Writer
			var buf *bytes.Buffer
			done, cached := false, ""
			return &inst{call: func(ins [][]byte) ([][]byte, string) {
				var err error
				w, buf, err = encNB(ins[0])
				return nil, errS(err)
			}, observe: func() string {
				if w == nil {
					return "no-writer"
				}
				if !done {
					done = true
					_, e1 := w.Write(cl(msg))
					e2 := w.Close()
					r, e3 := decNB(cl(prefix), buf.Bytes())
					var d []byte
					var e4 error
					if e3 == nil {
						d, e4 = io.ReadAll(r)
					}
					cached = fmt.Sprintf("stream=%s%s%s%s%s", errS(e1), errS(e2), errS(e3), errS(e4), hx(d))
				}
				return cached
			}}, nil
		}})
		if w0, buf0, err := encNB(cl(prefix)); err == nil {
			w0.Write(cl(msg))
			w0.Close()
			ct := cl(buf0.Bytes())
			e.run(spec{api: "streamingaead/subtle/noncebased.NewReader", once: true, ins: []in1{{"NoncePrefix", prefix}}, mk: func() (*inst, error) {
				var r *noncebased.Reader
				done, cached := false, ""
				return &inst{call: func(ins [][]byte) ([][]byte, string) {
					var err error
					r, err = decNB(ins[0], cl(ct))
					return nil, errS(err)
				}, observe: func() string {
					if r == nil {
						return "no-reader"
					}
					if !done {
						done = true
						d, e1 := io.ReadAll(r)
						cached = fmt.Sprintf("stream=%s%s", errS(e1), hx(d))
					}
					return cached
				}}, nil
			}})
		}
	}
	e.run(spec{api: "subtle.ComputeHash", det: true, ins: []in1{{"data", rng.Bytes(21)}}, mk: func() (*inst, error) {
		return &inst{call: func(ins [][]byte) ([][]byte, string) {
			out, err := tsubtle.ComputeHash(tsubtle.GetHashFunc("SHA256"), ins[0])
			return [][]byte{out}, errS(err)
		}}, nil
	}})

	// ---- KWP
	e.ctorPrim(ctor{api: "kwp/subtle.NewKWP", class: "daead", ins: []in1{{"wrappingKey", k32}},
		build: func(ins [][]byte) (any, error) {
			k, err := kwpsubtle.NewKWP(ins[0])
			if err != nil {
				return nil, err
			}
			return kwpDAEAD{k}, nil
		}}, seed)
	for _, n := range []int{16, 23, 40} {
		data := rng.Bytes(n)
		kw, _ := kwpsubtle.NewKWP(cl(k32))
		wrapped, err := kw.Wrap(cl(data))
		if err != nil {
			continue
		}
		mkK := func() (*inst, *kwpsubtle.KWP) {
			k, _ := kwpsubtle.NewKWP(cl(k32))
			it := &inst{observe: func() string {
				w, e1 := k.Wrap(cl(data))
				u, e2 := k.Unwrap(cl(wrapped))
				return fmt.Sprintf("wrap=%s%s|unwrap=%s%s", errS(e1), hx(w), errS(e2), hx(u))
			}}
			return it, k
		}
		e.run(spec{api: "kwp/subtle.KWP/Wrap", det: true, ins: []in1{{"data", data}}, mk: func() (*inst, error) {
			it, k := mkK()
			it.call = func(ins [][]byte) ([][]byte, string) { return out1e(k.Wrap(ins[0])) }
			return it, nil
		}})
		unwrap := func() (*inst, error) {
			it, k := mkK()
			it.call = func(ins [][]byte) ([][]byte, string) { return out1e(k.Unwrap(ins[0])) }
			return it, nil
		}
		e.run(spec{api: "kwp/subtle.KWP/Unwrap", det: true, ins: []in1{{"data", wrapped}}, mk: unwrap})
		e.run(spec{api: "kwp/subtle.KWP/Unwrap-invalid", det: true, ins: []in1{{"data", flipLast(wrapped)}}, mk: unwrap})
	}

	// ---- Polyval
	e.run(spec{api: "aead/subtle.NewPolyval+Update", ins: []in1{{"key", k16}, {"data", rng.Bytes(37)}}, once: true, mk: func() (*inst, error) {
		var p aeadsubtle.Polyval
		return &inst{call: func(ins [][]byte) ([][]byte, string) {
			var err error
			p, err = aeadsubtle.NewPolyval(ins[0])
			if err != nil {
				return nil, "err"
			}
			p.Update(ins[1])
			return nil, "ok"
		}, observe: func() string { h := p.Finish(); return "polyval=" + hx(h[:]) }}, nil
	}})

	// ---- internal SLH-DSA / ML-DSA key decoding (used by the key-level signers and verifiers)
	{
		par := islhdsa.SLH_DSA_SHAKE_128f
		sk, pk := par.KeyGen()
		pkEnc, skEnc := pk.Encode(), sk.Encode()
		msg := []byte("c19 slh-dsa message")
		sig, err := sk.SignDeterministic(cl(msg), nil)
		if err == nil {
			e.run(spec{api: "internal:internal/signature/slhdsa.DecodePublicKey", once: true, ins: []in1{{"pkEnc", pkEnc}}, mk: func() (*inst, error) {
				var k *islhdsa.PublicKey
				return &inst{call: func(ins [][]byte) ([][]byte, string) {
					var err error
					k, err = par.DecodePublicKey(ins[0])
					return nil, errS(err)
				}, observe: func() string {
					return "encode=" + hx(k.Encode()) + "|verify=" + errS(k.Verify(cl(msg), cl(sig), nil))
				}}, nil
			}})
			e.run(spec{api: "internal:internal/signature/slhdsa.DecodeSecretKey", once: true, ins: []in1{{"skEnc", skEnc}}, lays: layouts()[:2], mk: func() (*inst, error) {
				var k *islhdsa.SecretKey
				return &inst{call: func(ins [][]byte) ([][]byte, string) {
					var err error
					k, err = par.DecodeSecretKey(ins[0])
					return nil, errS(err)
				}, observe: func() string {
					s, err := k.SignDeterministic(cl(msg), nil)
					return "encode=" + hx(k.Encode()) + "|sign=" + errS(err) + fmt.Sprint(bytes.Equal(s, sig))
				}}, nil
			}})
			e.run(spec{api: "internal:internal/signature/slhdsa.PublicKey.Encode", det: true, mk: func() (*inst, error) {
				k, err := par.DecodePublicKey(cl(pkEnc))
				if err != nil {
					return nil, err
				}
				return &inst{call: func(ins [][]byte) ([][]byte, string) { return [][]byte{k.Encode()}, "ok" },
					observe: func() string { return "verify=" + errS(k.Verify(cl(msg), cl(sig), nil)) }}, nil
			}})
		}
	}
	{
		par := imldsa.MLDSA44
		pk, sk := par.KeyGen()
		pkEnc, skEnc := pk.Encode(), sk.Encode()
		msg := []byte("c19 ml-dsa message")
		sig, err := sk.SignDeterministic(cl(msg), nil)
		if err == nil {
			e.run(spec{api: "internal:internal/signature/mldsa.DecodePublicKey", once: true, ins: []in1{{"pkEnc", pkEnc}}, mk: func() (*inst, error) {
				var k *imldsa.PublicKey
				return &inst{call: func(ins [][]byte) ([][]byte, string) {
					var err error
					k, err = par.DecodePublicKey(ins[0])
					return nil, errS(err)
				}, observe: func() string {
					return "encode=" + hx(k.Encode()) + "|verify=" + errS(k.Verify(cl(msg), cl(sig), nil))
				}}, nil
			}})
			e.run(spec{api: "internal:internal/signature/mldsa.DecodeSecretKey", once: true, ins: []in1{{"skEnc", skEnc}}, mk: func() (*inst, error) {
				var k *imldsa.SecretKey
				return &inst{call: func(ins [][]byte) ([][]byte, string) {
					var err error
					k, err = par.DecodeSecretKey(ins[0])
					return nil, errS(err)
				}, observe: func() string {
					s, err := k.SignDeterministic(cl(msg), nil)
					return "encode=" + hx(k.Encode()) + "|sign=" + errS(err) + fmt.Sprint(bytes.Equal(s, sig))
				}}, nil
			}})
			e.run(spec{api: "internal:internal/signature/mldsa.SecretKey.Sign(M,ctx)", ins: []in1{{"M", msg}, {"ctx", []byte("ctx")}}, mk: func() (*inst, error) {
				k, err := par.DecodeSecretKey(cl(skEnc))
				if err != nil {
					return nil, err
				}
				return &inst{call: func(ins [][]byte) ([][]byte, string) {
					s, err := k.Sign(ins[0], ins[1])
					if err != nil {
						return nil, "err"
					}
					return [][]byte{s}, errS(pk.Verify(cl(msg), cl(s), []byte("ctx")))
				}}, nil
			}})
			e.run(spec{api: "internal:internal/signature/mldsa.PublicKey.Verify(M,sigma,ctx)", det: true, ins: []in1{{"M", msg}, {"sigma", sig}, {"ctx", []byte{}}}, mk: func() (*inst, error) {
				k, err := par.DecodePublicKey(cl(pkEnc))
				if err != nil {
					return nil, err
				}
				return &inst{call: func(ins [][]byte) ([][]byte, string) { return nil, errS(k.Verify(ins[0], ins[1], ins[2])) }}, nil
			}})
		}
	}
}

// toySegment: segment cipher for the nonce-based streaming framework: nonce || segment.
type toySegment struct{}

func (toySegment) EncryptSegment(segment, nonce []byte) ([]byte, error) {
	return append(cl(nonce), segment...), nil
}
func (toySegment) DecryptSegment(segment, nonce []byte) ([]byte, error) {
	if len(segment) < len(nonce) || !bytes.Equal(segment[:len(nonce)], nonce) {
		return nil, fmt.Errorf("toy segment: wrong nonce")
	}
	return cl(segment[len(nonce):]), nil
}

func out1e(b []byte, err error) ([][]byte, string) {
	if err != nil {
		return nil, "err"
	}
	return [][]byte{b}, "ok"
}

func x25519Pub(priv []byte) []byte {
	pub, err := tsubtle.PublicFromPrivateX25519(cl(priv))
	if err != nil {
		panic(err)
	}
	return pub
}

type indcpaAEAD struct{ c aeadsubtle.INDCPACipher }

func (a indcpaAEAD) Encrypt(pt, ad []byte) ([]byte, error) { return a.c.Encrypt(pt) }
func (a indcpaAEAD) Decrypt(ct, ad []byte) ([]byte, error) { return a.c.Decrypt(ct) }

type variadicMAC struct{ h *imachmac.HMAC }

func (m variadicMAC) ComputeMAC(d []byte) ([]byte, error) { return m.h.ComputeMAC(d) }
func (m variadicMAC) VerifyMAC(t, d []byte) error         { return m.h.VerifyMAC(t, d) }

// kwpDAEAD gives KWP the deterministic-AEAD shape (the associated data is ignored; the probe
// message is padded to the 16 byte minimum by the caller's choice of message: KWP needs >= 16 bytes).
type kwpDAEAD struct{ k *kwpsubtle.KWP }

func (a kwpDAEAD) EncryptDeterministically(pt, ad []byte) ([]byte, error) { return a.k.Wrap(pt) }
func (a kwpDAEAD) DecryptDeterministically(ct, ad []byte) ([]byte, error) { return a.k.Unwrap(ct) }

type ctxAEAD struct{ a tink.AEAD }

func (c ctxAEAD) EncryptWithContext(_ context.Context, pt, ad []byte) ([]byte, error) {
	return c.a.Encrypt(pt, ad)
}
func (c ctxAEAD) DecryptWithContext(_ context.Context, ct, ad []byte) ([]byte, error) {
	return c.a.Decrypt(ct, ad)
}

type withCtx struct{ a tink.AEADWithContext }

func (c withCtx) Encrypt(pt, ad []byte) ([]byte, error) {
	return c.a.EncryptWithContext(context.Background(), pt, ad)
}
func (c withCtx) Decrypt(ct, ad []byte) ([]byte, error) {
	return c.a.DecryptWithContext(context.Background(), ct, ad)
}
