//go:build verif

package main

// The guard-region engine of the C19 harness.
//
// One `!B contract <api> <layout> <input>…` line is emitted per (api, layout, input values). The
// scenario tokens describe the test completely:
//
//	<layout>                     name of the layout (see layoutsFor)
//	<name>=<off>,<len>,<cap>,<buflen>:<bytes>
//	                             the input <name> was the slice buf[off : off+len : off+cap] of a
//	                             buffer of buflen bytes whose byte i was canary(i) = 0x80 | byte(7*i+1)
//	                             before <bytes> were copied to buf[off:off+len]. <bytes> is lowercase
//	                             hex ("-" = empty); inputs longer than 48 bytes are abbreviated to
//	                             #<len>.<first 8 bytes>.<fnv32 of all bytes> (they are derived from the
//	                             seed, or are outputs of the library itself for the named key).
//	other tokens (key=…, root=…, path=…) name the object the operation was applied to.
//
// The answer is "clean" or "dirty:<kind>:<detail>" with kind in
//
//	guard-before    a byte of the caller's array before the slice changed during the call
//	input-bytes     one of the len bytes of the input changed during the call
//	guard-cap       a byte of the spare capacity (len..cap) changed during the call
//	guard-after     a byte after cap changed during the call
//	retained        after the call the input bytes and the spare capacity were overwritten; an
//	                observation (repeat of the operation with fresh copies, Equal against a pristine
//	                twin, accessor values, serialization, behaviour of primitives built before / after)
//	                changed
//	                changed; or (detail `<input>:reuse-differs…`, the same-buffer reuse observation) the operation
//	                was called again with THE SAME slice after its contents had been overwritten in place with
//	                different bytes of the same length, and the result differs from that of a call with a
//	                freshly allocated copy of those bytes (a cache keyed by an alias of the caller's buffer)
//	aliased-result  a returned slice shares memory with an input or with another returned slice, or a
//	                value returned earlier changed when a later call was made
//	aliased-internal every byte (through cap) of every returned slice was overwritten; an
//	                observation of the object / handle / primitive changed
//
// If several kinds fire for one line the first in the order above is the kind and the others are
// listed in the detail after ";also=".

import (
	"bytes"
	"encoding/hex"
	"fmt"
	"hash/fnv"
	"sort"
	"strings"
	"time"
	"unsafe"

	"github.com/tink-crypto/tink-go/v2/internal/verifharness/hlib"
)

type layout struct {
	name             string
	pre, spare, post int
}

// layouts: spare capacity of exactly one byte at the very start of the array (an `append(x, 0)`
// fits exactly and the slice is at the start and at the end of its array), a roomy one in the
// middle, no spare capacity (append must reallocate) and a large one.
var layoutsQuick = []layout{
	{"start-spare1", 0, 1, 0},
	{"mid-spare9", 7, 9, 5},
	{"mid-spare0", 3, 0, 4},
	{"end-spare40", 16, 40, 0},
}

var layoutsThorough = []layout{
	{"start-spare1", 0, 1, 0},
	{"mid-spare9", 7, 9, 5},
	{"mid-spare0", 3, 0, 4},
	{"end-spare40", 16, 40, 0},
	{"mid-spare2", 1, 2, 1},
	{"start-spare300", 0, 300, 64},
}

func layouts() []layout {
	if hlib.Thorough() {
		return layoutsThorough
	}
	return layoutsQuick
}

// canary is never 0x00 (the byte an `append(x, 0)` or a zeroing loop would write).
func canary(i int) byte { return 0x80 | byte(7*i+1) }

// guard is one input inside its larger buffer.
type guard struct {
	name       string
	rnd        bool
	orig       []byte
	buf, saved []byte
	off, n, cp int
}

func newGuard(name string, b []byte, l layout) *guard {
	g := &guard{name: name, orig: bytes.Clone(b), off: l.pre, n: len(b), cp: len(b) + l.spare}
	g.buf = make([]byte, l.pre+len(b)+l.spare+l.post)
	for i := range g.buf {
		g.buf[i] = canary(i)
	}
	copy(g.buf[g.off:], b)
	g.saved = bytes.Clone(g.buf)
	return g
}

// in is the slice handed to the library: len n, cap n+spare.
func (g *guard) in() []byte { return g.buf[g.off : g.off+g.n : g.off+g.cp] }

func (g *guard) token() string {
	v := abbrev(g.orig)
	if g.rnd {
		v = fmt.Sprintf("#%d.unseeded-library-output", len(g.orig))
	}
	return fmt.Sprintf("%s=%d,%d,%d,%d:%s", g.name, g.off, g.n, g.cp, len(g.buf), v)
}

func abbrev(b []byte) string {
	if len(b) <= 48 {
		return hlib.Tok(b)
	}
	h := fnv.New32a()
	h.Write(b)
	return fmt.Sprintf("#%d.%s.%08x", len(b), hex.EncodeToString(b[:8]), h.Sum32())
}

type finding struct{ kind, detail string }

var kindOrder = map[string]int{"guard-before": 0, "input-bytes": 1, "guard-cap": 2, "guard-after": 3, "retained": 4, "aliased-internal": 5, "aliased-result": 6}

// check compares the whole buffer with the saved copy and classifies every changed byte.
func (g *guard) check(fs *[]finding) {
	var kinds [4][]string
	for i := range g.buf {
		if g.buf[i] == g.saved[i] {
			continue
		}
		var k int
		var rel int
		switch {
		case i < g.off:
			k, rel = 0, i-g.off
		case i < g.off+g.n:
			k, rel = 1, i-g.off
		case i < g.off+g.cp:
			k, rel = 2, i-g.off-g.n
		default:
			k, rel = 3, i-g.off-g.cp
		}
		if len(kinds[k]) < 4 {
			kinds[k] = append(kinds[k], fmt.Sprintf("%s[%+d]:%02x->%02x", g.name, rel, g.saved[i], g.buf[i]))
		}
	}
	for k, name := range []string{"guard-before", "input-bytes", "guard-cap", "guard-after"} {
		if len(kinds[k]) > 0 {
			*fs = append(*fs, finding{name, strings.Join(kinds[k], ",")})
		}
	}
}

// scribble overwrites the input bytes and the spare capacity with different values and makes the
// new contents the reference for later comparisons.
func (g *guard) scribble() {
	for i := g.off; i < g.off+g.cp; i++ {
		g.buf[i] += 0x5B
	}
	g.saved = bytes.Clone(g.buf)
}

func (g *guard) changed() bool { return !bytes.Equal(g.buf, g.saved) }

// scribbleOut overwrites every byte of a returned slice through its capacity.
func scribbleOut(b []byte) {
	b = b[:cap(b)]
	for i := range b {
		b[i] += 0x51 // not an involution: a slice handed out twice is still different after two rounds
	}
}

func span(b []byte) (lo, hi uintptr) {
	if cap(b) == 0 {
		return 0, 0
	}
	p := uintptr(unsafe.Pointer(unsafe.SliceData(b)))
	return p, p + uintptr(cap(b))
}

func overlaps(a, b []byte) bool {
	al, ah := span(a)
	bl, bh := span(b)
	return al != ah && bl != bh && al < bh && bl < ah
}

// in1 is a named input value.
type in1 struct {
	name string
	val  []byte
}

// inst is one fresh instance of the object under test (a primitive, a key, a handle, nothing).
type inst struct {
	// call performs the operation on the given input slices. It returns every byte slice the
	// operation returned (or made reachable for the caller) and a canonical string of the other,
	// deterministic results (error status, …).
	call func(ins [][]byte) (outs [][]byte, res string)
	// observe returns a canonical description of everything that must not change: values of
	// deterministic operations on fresh inputs, accessor values, Equal against a pristine twin,
	// serializations, behaviour of primitives built before and after. May be nil.
	observe func() string
	// mutIn (optional) changes the caller-owned structures that were handed to the operation in ways a byte
	// scribble cannot (fields of a proto message: strings, enums, slice headers). It runs once, after the inputs were
	// scribbled; an observation that changes afterwards is a `retained` finding.
	mutIn func()
	// mutLabel (optional) names what mutIn changes in the finding's detail (default "caller-proto-fields")
	mutLabel string
	// mutOut (optional) does the same with the structures the operation returned (an exported proto keyset);
	// it runs after every returned byte slice was scribbled; a changed observation is an `aliased-internal` finding.
	mutOut func()
}

type spec struct {
	api   string
	extra string // further scenario tokens (key=…)
	ins   []in1
	det   bool // the returned bytes are a deterministic function of the inputs
	once  bool // the operation is a constructor: do not repeat it on the same instance
	// outputBuf marks inputs (by index) that are output buffers (io.Reader.Read): only the canaries
	// outside the slice's length are compared and it is not treated as an input value.
	outputBuf map[int]bool
	// rndIn marks inputs (by index) whose value comes from an operation whose randomness cannot be
	// seeded (ML-KEM / X-Wing encapsulation uses the runtime's DRBG): only the length is put into
	// the line
	rndIn map[int]bool
	mk    func() (*inst, error)
	lays  []layout // nil = layouts()
	// noReuse: skip the same-buffer reuse observation (primitives whose single call takes about a second)
	noReuse bool
}

type engine struct {
	o       *hlib.Out
	apis    map[string]int
	dirty   map[string]int
	skipped map[string]string
	cost    map[string]float64 // seconds per api
	ring    []*held            // results kept from the most recent histories (history.go)
}

func newEngine(o *hlib.Out) *engine {
	return &engine{o: o, apis: map[string]int{}, dirty: map[string]int{}, skipped: map[string]string{}, cost: map[string]float64{}}
}

func hexAll(bs [][]byte) string {
	ss := make([]string, len(bs))
	for i, b := range bs {
		ss[i] = hlib.Tok(b)
	}
	return strings.Join(ss, ",")
}

func cloneAll(bs [][]byte) [][]byte {
	r := make([][]byte, len(bs))
	for i, b := range bs {
		r[i] = bytes.Clone(b)
	}
	return r
}

// safe runs f; a panic outside the engine's own recovery (while preparing inputs with the pristine
// partner, enumerating accessors, …) is reported as an oracle violation instead of killing the run.
func (e *engine) safe(what string, f func()) {
	if pan := hlib.Recover(f); pan != "" {
		e.o.Violate("%s: panic while preparing the test: %s", what, pan)
	}
}

func (e *engine) skip(api, why string) {
	if _, ok := e.skipped[api]; !ok {
		e.skipped[api] = why
		e.o.Count("skipped:" + api)
	}
}

// run executes the guard-region protocol for one api: one line per layout.
func (e *engine) run(s spec) {
	t0 := time.Now()
	defer func() { e.cost[s.api] += time.Since(t0).Seconds() }()
	lays := s.lays
	if lays == nil {
		lays = layouts()
	}
	if len(s.ins) == 0 {
		lays = lays[:1]
	}
	// baseline on an instance of its own, exact-size freshly allocated inputs
	var base *inst
	var baseOuts [][]byte
	var baseRes, baseObs string
	var err error
	if p := hlib.Recover(func() {
		base, err = s.mk()
		if err != nil {
			return
		}
		ins := make([][]byte, len(s.ins))
		for i, x := range s.ins {
			ins[i] = bytes.Clone(x.val)
		}
		o, r := base.call(ins)
		baseOuts, baseRes = cloneAll(o), r
		if base.observe != nil {
			baseObs = base.observe()
		}
	}); p != "" {
		e.o.Violate("%s: panic in the baseline run: %s", s.api, p)
		return
	}
	if err != nil {
		e.skip(s.api, err.Error())
		return
	}
	e.o.Case()
	for _, l := range lays {
		e.runLayout(s, l, baseOuts, baseRes, baseObs)
	}
}

func (e *engine) runLayout(s spec, l layout, baseOuts [][]byte, baseRes, baseObs string) {
	var fs []finding
	add := func(kind, format string, a ...any) {
		fs = append(fs, finding{kind, fmt.Sprintf(format, a...)})
	}
	guards := make([]*guard, len(s.ins))
	toks := []string{l.name}
	for i, x := range s.ins {
		guards[i] = newGuard(x.name, x.val, l)
		guards[i].rnd = s.rndIn[i]
		toks = append(toks, guards[i].token())
	}
	if s.extra != "" {
		toks = append(toks, s.extra)
	}
	line := "!B contract " + s.api + " " + strings.Join(toks, " ")
	pan := hlib.Recover(func() {
		it, err := s.mk()
		if err != nil {
			e.o.Violate("%s: instance could not be rebuilt: %v", s.api, err)
			return
		}
		ins := make([][]byte, len(guards))
		for i, g := range guards {
			ins[i] = g.in()
		}
		fresh := func() [][]byte {
			r := make([][]byte, len(s.ins))
			for i, x := range s.ins {
				r[i] = bytes.Clone(x.val)
			}
			return r
		}
		// 1. the call itself
		outs, res := it.call(ins)
		for i, g := range guards {
			if s.outputBuf[i] {
				// output buffer: the len bytes belong to the callee during the call
				copy(g.saved[g.off:g.off+g.n], g.buf[g.off:g.off+g.n])
			}
			g.check(&fs)
			g.saved = bytes.Clone(g.buf) // later comparisons are against the state after the call
		}
		if res != baseRes {
			e.o.Violate("%s %s: result depends on the memory layout of the inputs: %q with exact-size inputs, %q with guarded inputs", s.api, l.name, baseRes, res)
		}
		if s.det && len(outs) == len(baseOuts) {
			for i := range outs {
				if !bytes.Equal(outs[i], baseOuts[i]) {
					e.o.Violate("%s %s: deterministic output %d depends on the memory layout of the inputs", s.api, l.name, i)
				}
			}
		}
		// returned slices must not share memory with the inputs or with each other
		for i, out := range outs {
			for _, g := range guards {
				if overlaps(out, g.buf) {
					add("aliased-result", "out%d-shares-array-with-input-%s", i, g.name)
				}
			}
			for j := i + 1; j < len(outs); j++ {
				if overlaps(out, outs[j]) {
					add("aliased-result", "out%d-shares-array-with-out%d", i, j)
				}
			}
		}
		saved := cloneAll(outs)
		// 2. retention: overwrite the inputs and their spare capacity one after the other, observe
		// after each
		prevObs := baseObs
		for _, g := range guards {
			g.scribble()
			for i := range outs {
				if !bytes.Equal(outs[i], saved[i]) {
					add("aliased-result", "out%d-changed-when-input-%s-was-overwritten", i, g.name)
					saved[i] = bytes.Clone(outs[i])
				}
			}
			if it.observe != nil {
				if obs := it.observe(); obs != prevObs {
					add("retained", "%s:%s", g.name, diffObs(prevObs, obs))
					prevObs = obs
				}
			}
			for _, h := range guards {
				if h.changed() {
					add("retained", "input-%s-written-after-the-call", h.name)
					h.saved = bytes.Clone(h.buf)
				}
			}
		}
		if len(guards) == 0 && it.observe != nil {
			if obs := it.observe(); obs != baseObs {
				add("retained", "no-input:%s", diffObs(baseObs, obs))
			}
		}
		if it.mutIn != nil {
			it.mutIn()
			if it.observe != nil {
				if obs := it.observe(); obs != prevObs {
					label := it.mutLabel
					if label == "" {
						label = "caller-proto-fields"
					}
					add("retained", "%s:%s", label, diffObs(prevObs, obs))
					prevObs = obs
				}
			}
		}
		var outs2 [][]byte
		if !s.once {
			var res2 string
			outs2, res2 = it.call(fresh())
			if res2 != baseRes {
				add("retained", "repeat-with-fresh-inputs:%s->%s", short(baseRes), short(res2))
			} else if s.det && len(outs2) == len(baseOuts) {
				for i := range outs2 {
					if !bytes.Equal(outs2[i], baseOuts[i]) {
						add("retained", "repeat-with-fresh-inputs:out%d-differs", i)
					}
				}
			}
			for i := range outs {
				if !bytes.Equal(outs[i], saved[i]) {
					add("aliased-result", "out%d-changed-by-a-later-call", i)
					saved[i] = bytes.Clone(outs[i])
				}
				for j := range outs2 {
					if overlaps(outs[i], outs2[j]) {
						add("aliased-result", "out%d-shares-array-with-the-result-of-a-later-call", i)
					}
				}
			}
		}
		// 3. aliasing: overwrite every returned slice through cap
		all := append(append([][]byte{}, outs...), outs2...)
		for i, out := range all {
			if cap(out) == 0 {
				continue
			}
			others := cloneAll(all)
			scribbleOut(out)
			for j := range all {
				if j != i && !overlaps(all[j], out) && !bytes.Equal(all[j], others[j]) {
					add("aliased-result", "out%d-changed-when-out%d-was-overwritten", j, i)
				}
			}
			for _, g := range guards {
				if g.changed() {
					add("aliased-result", "input-%s-changed-when-out%d-was-overwritten", g.name, i)
					g.saved = bytes.Clone(g.buf)
				}
			}
		}
		if it.mutOut != nil {
			it.mutOut()
		}
		if len(all) > 0 || it.mutOut != nil {
			if it.observe != nil {
				if obs := it.observe(); obs != baseObs {
					add("aliased-internal", "%s", diffObs(baseObs, obs))
				}
			}
			if !s.once {
				outs3, res3 := it.call(fresh())
				if res3 != baseRes {
					add("aliased-internal", "repeat-after-overwriting-results:%s->%s", short(baseRes), short(res3))
				} else if s.det && len(outs3) == len(baseOuts) {
					for i := range outs3 {
						if !bytes.Equal(outs3[i], baseOuts[i]) {
							add("aliased-internal", "repeat-after-overwriting-results:out%d-differs", i)
						}
					}
				}
			}
		}
		// 4. same-buffer reuse
		if !s.noReuse && reuseWanted(s, l) {
			e.reuse(s, it, guards, &fs)
		}
	})
	if pan != "" {
		e.o.Violate("%s %s: panic: %s", s.api, l.name, pan)
		e.o.Emit(line, "panic", true)
		return
	}
	e.apis[s.api]++
	e.o.Count("api:" + s.api)
	e.o.Count("layout:" + l.name)
	if len(fs) > 0 {
		if why := outOfScope(s.api); why != "" {
			// not an operation a caller can reach with a byte slice of its own: recorded, not a contract line
			sort.SliceStable(fs, func(i, j int) bool { return kindOrder[fs[i].kind] < kindOrder[fs[j].kind] })
			e.o.Count("note/out-of-scope(" + why + "):" + s.api + ":" + fs[0].kind)
			return
		}
	}
	e.o.Emit(line, verdict(fs), true)
	if len(fs) > 0 {
		sort.SliceStable(fs, func(i, j int) bool { return kindOrder[fs[i].kind] < kindOrder[fs[j].kind] })
		e.dirty[s.api+" "+fs[0].kind]++
		e.o.Count("dirty:" + fs[0].kind)
	}
}

// reuseWanted: constructors (`once`) need three fresh instances and two observations per input: first layout only
// in the quick tier.
func reuseWanted(s spec, l layout) bool {
	if s.once && !hlib.Thorough() {
		lays := s.lays
		if lays == nil {
			lays = layouts()
		}
		return l.name == lays[0].name
	}
	return true
}

// reuse is the fourth observation: a caller that REUSES its buffer. For every input i (not an output buffer, not
// empty): the operation is called with the guard slice holding the original contents (this is the call after which
// a library that keeps an alias of the slice as a cache key would hold one), the slice's bytes are then overwritten
// IN PLACE with different contents of the same length and the operation is called again with THE SAME slice. The
// reference is the call with a FRESHLY ALLOCATED copy of the new contents, made BEFORE the aliasing call (afterwards
// a cache that compares its aliased key with the argument would find the fresh copy "equal" to the overwritten
// buffer as well): on the same object, and for deterministic operations also on a freshly constructed object after
// the same-slice call. Verdict and (deterministic) outputs must agree; randomized encryptions / signatures are
// compared through the verdict string of their call, which says whether the output opens / verifies under the
// inputs that were passed and under the original inputs. Constructors (`once`) use fresh instances for each of the
// three calls and additionally compare the observations of the constructed objects.
func (e *engine) reuse(s spec, it *inst, guards []*guard, fs *[]finding) {
	add := func(kind, format string, a ...any) {
		*fs = append(*fs, finding{kind, fmt.Sprintf(format, a...)})
	}
	// the buffers hold scribbled contents by now: put the original bytes back (in place)
	for _, g := range guards {
		copy(g.buf[g.off:g.off+g.n], g.orig)
		g.saved = bytes.Clone(g.buf)
	}
	args := func(sub int, z []byte, allFresh bool) [][]byte {
		r := make([][]byte, len(guards))
		for j, g := range guards {
			switch {
			case j == sub:
				r[j] = bytes.Clone(z)
			case allFresh && !s.outputBuf[j]:
				r[j] = bytes.Clone(g.orig)
			default:
				r[j] = g.in()
			}
		}
		return r
	}
	call := func(x *inst, ins [][]byte) (outs [][]byte, res string) {
		if pan := hlib.Recover(func() { outs, res = x.call(ins) }); pan != "" {
			return nil, "panic:" + short(pan)
		}
		return cloneAll(outs), res
	}
	obsOf := func(x *inst) (o string) {
		if x.observe == nil {
			return ""
		}
		if pan := hlib.Recover(func() { o = x.observe() }); pan != "" {
			return "panic:" + short(pan)
		}
		return o
	}
	newInst := func() *inst {
		if !s.once {
			return it
		}
		x, err := s.mk()
		if err != nil {
			return nil
		}
		return x
	}
	cmp := func(g *guard, what string, resR, resS string, outsR, outsS [][]byte) bool {
		if resR != resS {
			add("retained", "%s:reuse-differs%s:fresh-copy=%s,same-slice=%s", g.name, what, short(resR), short(resS))
			return false
		}
		if s.det && len(outsR) == len(outsS) {
			for k := range outsR {
				if !bytes.Equal(outsR[k], outsS[k]) {
					add("retained", "%s:reuse-differs%s:out%d", g.name, what, k)
					return false
				}
			}
		}
		return true
	}
	for i, g := range guards {
		if s.outputBuf[i] || g.n == 0 {
			continue
		}
		z := make([]byte, g.n)
		for j := range z {
			z[j] = g.orig[j] + 0xA7
		}
		xr, xp, xs := newInst(), newInst(), newInst()
		if xr == nil || xp == nil || xs == nil {
			return
		}
		e.o.Count("reuse:inputs")
		// reference: a freshly allocated copy of the new contents
		outsR, resR := call(xr, args(i, z, false))
		// the observation of an object built from OTHER contents than the pristine partner's need not be independent of
		// randomness (an unauthenticated cipher "decrypts" under the wrong key to bytes that depend on the random IV):
		// it is taken twice and only the components that are stable take part in the comparison
		obsR, obsR2 := "", ""
		if s.once {
			obsR, obsR2 = obsOf(xr), obsOf(xr)
		}
		// the call after which an alias of the caller's slice may be held
		call(xp, args(-1, nil, false))
		// the caller reuses its buffer
		copy(g.buf[g.off:g.off+g.n], z)
		g.saved = bytes.Clone(g.buf)
		outsS, resS := call(xs, args(-1, nil, false))
		for j, h := range guards {
			if s.outputBuf[j] {
				copy(h.saved[h.off:h.off+h.n], h.buf[h.off:h.off+h.n])
			}
			h.check(fs)
			h.saved = bytes.Clone(h.buf)
		}
		ok := cmp(g, "", resR, resS, outsR, outsS)
		if ok && s.once {
			if d := stableDiff(obsR, obsR2, obsOf(xs)); d != "" {
				add("retained", "%s:reuse-differs:object-built-from-the-same-slice:%s", g.name, d)
				ok = false
			}
		}
		if ok && s.det && !s.once {
			// a freshly constructed object, freshly allocated inputs
			if xn, err := s.mk(); err == nil {
				outsN, resN := call(xn, args(i, z, true))
				ok = cmp(g, "-from-a-fresh-object", resN, resS, outsN, outsS)
			}
		}
		if !ok {
			e.o.Count("reuse:differs")
		}
		copy(g.buf[g.off:g.off+g.n], g.orig)
		g.saved = bytes.Clone(g.buf)
	}
}

// stableDiff compares the observation s with the reference observation r1 on the '|'-separated components on which
// the two reference observations r1 and r2 agree; "" = no difference.
func stableDiff(r1, r2, s string) string {
	a, b, c := strings.Split(r1, "|"), strings.Split(r2, "|"), strings.Split(s, "|")
	if len(a) != len(b) || len(a) != len(c) {
		if len(a) == len(b) {
			return "changed:number-of-components"
		}
		return ""
	}
	var names []string
	for i := range a {
		if a[i] == b[i] && a[i] != c[i] && len(names) < 3 {
			n := a[i]
			if k := strings.IndexByte(n, '='); k >= 0 {
				n = n[:k]
			}
			names = append(names, n)
		}
	}
	if len(names) == 0 {
		return ""
	}
	return "changed:" + strings.Join(names, "+")
}

// outOfScope names the api tokens whose findings are not violations of C19 as stated ("caller-provided byte
// slice", operations of the library a user can call) and why:
//   - "internal:" tokens are functions of Go-internal packages reached through verification hooks only; their
//     public callers are tested in their own right (and pass library-owned copies);
//   - the two subtle Ed25519 constructors take a *pointer* to a standard-library key object, i.e. the caller
//     explicitly shares an object, it does not pass a byte slice;
//   - keyset.WithAnnotations takes a map (see below).
func outOfScope(api string) string {
	if strings.HasPrefix(api, "internal:") {
		return "internal-package"
	}
	switch api {
	case "signature/subtle.NewED25519SignerFromPrivateKey", "signature/subtle.NewED25519VerifierFromPublicKey":
		return "pointer-to-stdlib-key-object"
	case "keyset.WithAnnotations(callers-map-rewritten-afterwards)":
		// keyset.WithAnnotations(m) keeps the caller's map (keyset/option.go `h.annotations = annotations`): a handle built
		// with it follows later rewrites of m. A map[string]string, not a byte slice: recorded as an observation
		// (reproducer: /verif/seeded/C19-findings/withannotations-map-retained), reported, not a C19 contract line.
		return "caller-map-not-a-byte-slice"
	}
	return ""
}

func verdict(fs []finding) string {
	if len(fs) == 0 {
		return "clean"
	}
	sort.SliceStable(fs, func(i, j int) bool { return kindOrder[fs[i].kind] < kindOrder[fs[j].kind] })
	first := fs[0]
	var details []string
	also := []string{}
	seen := map[string]bool{first.kind: true}
	for _, f := range fs {
		if f.kind == first.kind {
			if len(details) < 3 {
				details = append(details, f.detail)
			}
		} else if !seen[f.kind] {
			seen[f.kind] = true
			also = append(also, f.kind)
		}
	}
	r := "dirty:" + first.kind + ":" + strings.Join(details, ",")
	if len(also) > 0 {
		r += ";also=" + strings.Join(also, "+")
	}
	return strings.ReplaceAll(r, " ", "_")
}

func short(s string) string {
	if len(s) > 60 {
		return s[:60] + "…"
	}
	return s
}

// diffObs names the first component (components are separated by '|', "name=value") that differs.
func diffObs(a, b string) string {
	as, bs := strings.Split(a, "|"), strings.Split(b, "|")
	var names []string
	for i := 0; i < len(as) || i < len(bs); i++ {
		var x, y string
		if i < len(as) {
			x = as[i]
		}
		if i < len(bs) {
			y = bs[i]
		}
		if x != y {
			n := x
			if n == "" {
				n = y
			}
			if k := strings.IndexByte(n, '='); k >= 0 {
				n = n[:k]
			}
			names = append(names, n)
			if len(names) == 3 {
				break
			}
		}
	}
	return "changed:" + strings.Join(names, "+")
}
