//go:build verif

package main

// Reflection over key and parameters objects: a fingerprint of everything reachable through
// argument-less methods, and the list of accessors that hand out bytes.

import (
	"fmt"
	"math/big"
	"reflect"
	"sort"
	"strings"

	"github.com/tink-crypto/tink-go/v2/insecuresecretdataaccess"
	"github.com/tink-crypto/tink-go/v2/internal/protoserialization"
	"github.com/tink-crypto/tink-go/v2/key"
	"github.com/tink-crypto/tink-go/v2/secretdata"
	"google.golang.org/protobuf/proto"
)

const modPath = "github.com/tink-crypto/tink-go/v2/"

var (
	tok      = insecuresecretdataaccess.Token{}
	bytesT   = reflect.TypeOf([]byte(nil))
	secretT  = reflect.TypeOf(secretdata.Bytes{})
	bigIntT  = reflect.TypeOf((*big.Int)(nil))
	errorT   = reflect.TypeOf((*error)(nil)).Elem()
	protoMsg = reflect.TypeOf((*proto.Message)(nil)).Elem()
	skipMeth = map[string]bool{"String": true, "GoString": true, "Reset": true, "ProtoMessage": true, "ProtoReflect": true, "Descriptor": true}
)

// tinkType reports whether t (after dereferencing) is a named type of a non-proto tink package.
func tinkType(t reflect.Type) bool {
	for t.Kind() == reflect.Pointer {
		t = t.Elem()
	}
	p := t.PkgPath()
	return strings.HasPrefix(p, modPath) && !strings.Contains(p, "/proto/") && t != secretT
}

func relType(t reflect.Type) string {
	for t.Kind() == reflect.Pointer {
		t = t.Elem()
	}
	return strings.TrimPrefix(t.PkgPath(), modPath) + "." + t.Name()
}

// methodsOf returns the value on which all methods (also those with pointer receivers) can be
// called.
func methodsOf(v reflect.Value) reflect.Value {
	for v.Kind() == reflect.Interface {
		if v.IsNil() {
			return v
		}
		v = v.Elem()
	}
	if v.Kind() == reflect.Struct && !v.CanAddr() {
		pv := reflect.New(v.Type())
		pv.Elem().Set(v)
		return pv
	}
	return v
}

type leaf struct {
	path  []string // method names from the root
	api   string   // <package>.<Type>.<Method> of the last step (".Data" appended for secretdata.Bytes)
	bytes func(root any) []byte
}

type walker struct {
	sb     strings.Builder
	leaves []leaf
	max    int
}

func (w *walker) walk(path []string, v reflect.Value, depth int) {
	v = methodsOf(v)
	if !v.IsValid() || (v.Kind() == reflect.Pointer || v.Kind() == reflect.Interface) && v.IsNil() {
		fmt.Fprintf(&w.sb, "%s=nil|", strings.Join(path, "."))
		return
	}
	t := v.Type()
	names := make([]string, 0, t.NumMethod())
	for i := 0; i < t.NumMethod(); i++ {
		names = append(names, t.Method(i).Name)
	}
	sort.Strings(names)
	for _, name := range names {
		if skipMeth[name] {
			continue
		}
		m := v.MethodByName(name)
		mt := m.Type()
		if mt.NumIn() != 0 || mt.NumOut() == 0 || mt.IsVariadic() {
			continue
		}
		var outs []reflect.Value
		func() {
			defer func() {
				if r := recover(); r != nil {
					fmt.Fprintf(&w.sb, "%s.%s=panic|", strings.Join(path, "."), name)
				}
			}()
			outs = m.Call(nil)
		}()
		for oi, out := range outs {
			p := append(append([]string{}, path...), name)
			label := strings.Join(p, ".")
			if oi > 0 {
				label += fmt.Sprintf("#%d", oi)
			}
			w.value(p, label, relType(t)+"."+name, oi, out, depth)
		}
	}
}

func (w *walker) value(path []string, label, api string, oi int, out reflect.Value, depth int) {
	ot := out.Type()
	switch {
	case ot == bytesT:
		fmt.Fprintf(&w.sb, "%s=%x|", label, out.Bytes())
		if oi == 0 {
			p := path
			w.leaves = append(w.leaves, leaf{path: p, api: api, bytes: func(root any) []byte { return follow(root, p).Bytes() }})
		}
	case ot == secretT:
		sd := out.Interface().(secretdata.Bytes)
		fmt.Fprintf(&w.sb, "%s.Data=%x|", label, sd.Data(tok))
		if oi == 0 {
			p := path
			w.leaves = append(w.leaves, leaf{path: append(append([]string{}, p...), "Data(token)"), api: api + ".Data", bytes: func(root any) []byte {
				return follow(root, p).Interface().(secretdata.Bytes).Data(tok)
			}})
		}
	case ot == bigIntT:
		if out.IsNil() {
			fmt.Fprintf(&w.sb, "%s=nil|", label)
		} else {
			fmt.Fprintf(&w.sb, "%s=%x|", label, out.Interface().(*big.Int).Bytes())
		}
	case ot.Implements(errorT) && ot.Kind() == reflect.Interface:
		fmt.Fprintf(&w.sb, "%s=%v|", label, !out.IsNil())
	case ot.Implements(protoMsg):
		if out.Kind() == reflect.Pointer && out.IsNil() {
			fmt.Fprintf(&w.sb, "%s=nil|", label)
			return
		}
		b, _ := proto.MarshalOptions{Deterministic: true}.Marshal(out.Interface().(proto.Message))
		fmt.Fprintf(&w.sb, "%s=%x|", label, b)
	default:
		switch ot.Kind() {
		case reflect.Bool, reflect.String, reflect.Int, reflect.Int8, reflect.Int16, reflect.Int32, reflect.Int64,
			reflect.Uint, reflect.Uint8, reflect.Uint16, reflect.Uint32, reflect.Uint64:
			fmt.Fprintf(&w.sb, "%s=%v|", label, out.Interface())
		case reflect.Interface, reflect.Pointer, reflect.Struct:
			o := out
			for o.Kind() == reflect.Interface && !o.IsNil() {
				o = o.Elem()
			}
			if (o.Kind() == reflect.Interface || o.Kind() == reflect.Pointer) && o.IsNil() {
				fmt.Fprintf(&w.sb, "%s=nil|", label)
				return
			}
			if tinkType(o.Type()) && depth < w.max && oi == 0 {
				w.walk(path, o, depth+1)
			}
		}
	}
}

// follow calls the methods of path one after the other (first result each).
func follow(root any, path []string) reflect.Value {
	v := reflect.ValueOf(root)
	for _, name := range path {
		v = methodsOf(v)
		v = v.MethodByName(name).Call(nil)[0]
	}
	return v
}

// fingerprint describes everything reachable from v through argument-less methods.
func fingerprint(v any) (s string) {
	defer func() {
		if r := recover(); r != nil {
			s = fmt.Sprint("fingerprint-panic:", r)
		}
	}()
	w := &walker{max: 3}
	w.walk(nil, reflect.ValueOf(v), 0)
	return strings.TrimSuffix(w.sb.String(), "|")
}

// accessors lists the byte-returning accessors reachable from v.
func accessors(v any) []leaf {
	w := &walker{max: 3}
	w.walk(nil, reflect.ValueOf(v), 0)
	return w.leaves
}

func equalVia(a, b any) (s string) {
	defer func() {
		if r := recover(); r != nil {
			s = "panic"
		}
	}()
	m := methodsOf(reflect.ValueOf(a)).MethodByName("Equal")
	if !m.IsValid() {
		return "no-Equal"
	}
	return fmt.Sprint(m.Call([]reflect.Value{reflect.ValueOf(b)})[0].Bool())
}

func serializeHex(v any) (s string) {
	defer func() {
		if r := recover(); r != nil {
			s = "panic"
		}
	}()
	switch x := v.(type) {
	case key.Key:
		ks, err := protoserialization.SerializeKey(x)
		if err != nil {
			return "err"
		}
		id, _ := ks.IDRequirement()
		b, _ := proto.MarshalOptions{Deterministic: true}.Marshal(ks.KeyData())
		return fmt.Sprintf("%x/%v/%d", b, ks.OutputPrefixType(), id)
	case key.Parameters:
		t, err := protoserialization.SerializeParameters(x)
		if err != nil {
			return "err"
		}
		b, _ := proto.MarshalOptions{Deterministic: true}.Marshal(t)
		return fmt.Sprintf("%x", b)
	}
	return "-"
}

// objObs: observation of a key / parameters object against a pristine twin.
func objObs(obj, twin any) string {
	return "equal=" + equalVia(obj, twin) + "|twin.equal=" + equalVia(twin, obj) + "|serialization=" + serializeHex(obj) + "|" + fingerprint(obj)
}
