//go:build verif

package main

// Output stability under history.
//
// The guard-region protocol of engine.go looks at one call (and one repetition) at a time. A library that assembles
// its results in recycled memory (a sync.Pool of buffers, a scratch buffer kept in the object or in a package-level
// variable) passes it as long as the recycled memory is not handed out twice while the caller still holds the first
// result — which may need a particular history (a pool that only keeps buffers above a size threshold, a buffer that
// is only shared by objects of the same package, …). Here every byte-returning operation of a primitive is driven
// through a fixed script of calls on TWO objects A and B of the same source, including two calls with different
// >= 64 KiB inputs of the same size (and a 1 MiB one in the thorough tier):
//
//	every returned slice is kept, together with a snapshot taken at return time;
//	after each later call every earlier slice must still equal its snapshot, must not share memory (through cap)
//	with the new result, and the new result must be correct (judged by the pristine partner / a reference object
//	whose expected values were computed before the history started);
//	then old results are overwritten through their capacity (a caller scrubbing a ciphertext it is done with): the
//	other results — the newest in particular — must not change, and later calls must still be correct;
//	the big and the last result of each history stay in a ring of the most recent histories (other objects, other
//	apis of the same package ran in between): they are compared again before and after every later history.
//
// One `!B contract <api>/history …` line per source; kinds: aliased-result (an earlier result changed / shares
// memory), aliased-internal (after scrubbing: a later result is wrong or another result changed).

import (
	"bytes"
	"fmt"
	"strings"

	"github.com/tink-crypto/tink-go/v2/internal/verifharness/hlib"
	"github.com/tink-crypto/tink-go/v2/prf"
	"github.com/tink-crypto/tink-go/v2/tink"
)

const histBig = 1<<16 + 3

// histOp is one byte-returning operation for the history protocol.
type histOp struct {
	name string
	det  bool
	// prep turns a message set into the two inputs of the operation (ciphertexts are made by the pristine partner)
	prep func(ms msgSet) (a, b []byte, ok bool)
	call func(p any, a, b []byte) ([]byte, error)
	// good judges a randomized result for the message set (nil for deterministic operations: they are compared with
	// the value a reference object returned before the history)
	good func(out []byte, ms msgSet) string
}

func histOpsFor(src primSrc) []histOp {
	same := func(ms msgSet) ([]byte, []byte, bool) { return ms.pt, ms.ad, true }
	switch src.class {
	case "aead":
		Q := src.q.(tink.AEAD)
		return []histOp{
			{name: "Encrypt", prep: same,
				call: func(p any, a, b []byte) ([]byte, error) { return p.(tink.AEAD).Encrypt(a, b) },
				good: func(out []byte, ms msgSet) string {
					d, err := Q.Decrypt(cl(out), cl(ms.ad))
					if err != nil || !bytes.Equal(d, ms.pt) {
						return "does-not-decrypt-to-its-plaintext"
					}
					return ""
				}},
			{name: "Decrypt", det: true,
				prep: func(ms msgSet) ([]byte, []byte, bool) {
					ct, err := Q.Encrypt(cl(ms.pt), cl(ms.ad))
					return ct, ms.ad, err == nil
				},
				call: func(p any, a, b []byte) ([]byte, error) { return p.(tink.AEAD).Decrypt(a, b) }},
		}
	case "daead":
		Q := src.q.(tink.DeterministicAEAD)
		return []histOp{
			{name: "EncryptDeterministically", det: true, prep: same,
				call: func(p any, a, b []byte) ([]byte, error) {
					return p.(tink.DeterministicAEAD).EncryptDeterministically(a, b)
				}},
			{name: "DecryptDeterministically", det: true,
				prep: func(ms msgSet) ([]byte, []byte, bool) {
					ct, err := Q.EncryptDeterministically(cl(ms.pt), cl(ms.ad))
					return ct, ms.ad, err == nil
				},
				call: func(p any, a, b []byte) ([]byte, error) {
					return p.(tink.DeterministicAEAD).DecryptDeterministically(a, b)
				}},
		}
	case "mac":
		return []histOp{{name: "ComputeMAC", det: true, prep: same,
			call: func(p any, a, _ []byte) ([]byte, error) { return p.(tink.MAC).ComputeMAC(a) }}}
	case "prf":
		return []histOp{{name: "ComputePRF", det: true, prep: same,
			call: func(p any, a, _ []byte) ([]byte, error) { return p.(prf.PRF).ComputePRF(a, 16) }}}
	case "prfset":
		return []histOp{{name: "ComputePrimaryPRF", det: true, prep: same,
			call: func(p any, a, _ []byte) ([]byte, error) { return p.(*prf.Set).ComputePrimaryPRF(a, 16) }}}
	case "signer":
		Q := src.q.(tink.Verifier)
		return []histOp{{name: "Sign", prep: same,
			call: func(p any, a, _ []byte) ([]byte, error) { return p.(tink.Signer).Sign(a) },
			good: func(out []byte, ms msgSet) string {
				if Q.Verify(cl(out), cl(ms.pt)) != nil {
					return "does-not-verify-for-its-message"
				}
				return ""
			}}}
	case "hybenc":
		Q := src.q.(tink.HybridDecrypt)
		return []histOp{{name: "Encrypt", prep: same,
			call: func(p any, a, b []byte) ([]byte, error) { return p.(tink.HybridEncrypt).Encrypt(a, b) },
			good: func(out []byte, ms msgSet) string {
				d, err := Q.Decrypt(cl(out), cl(ms.ad))
				if err != nil || !bytes.Equal(d, ms.pt) {
					return "does-not-decrypt-to-its-plaintext"
				}
				return ""
			}}}
	case "hybdec":
		switch Q := src.q.(type) {
		case *ctFixture:
			return []histOp{{name: "Decrypt", det: true,
				prep: func(msgSet) ([]byte, []byte, bool) { return Q.ct, Q.ctx, true },
				call: func(p any, a, b []byte) ([]byte, error) { return p.(tink.HybridDecrypt).Decrypt(a, b) }}}
		case tink.HybridEncrypt:
			return []histOp{{name: "Decrypt", det: true,
				prep: func(ms msgSet) ([]byte, []byte, bool) {
					ct, err := Q.Encrypt(cl(ms.pt), cl(ms.ad))
					return ct, ms.ad, err == nil
				},
				call: func(p any, a, b []byte) ([]byte, error) { return p.(tink.HybridDecrypt).Decrypt(a, b) }}}
		}
	case "prehash":
		return []histOp{{name: "ComputePrehash", det: true, prep: same,
			call: func(p any, a, _ []byte) ([]byte, error) { return p.(tink.Prehash).ComputePrehash(a) }}}
	case "prehashsigner":
		Q := src.q.(*prehashPartner)
		return []histOp{{name: "SignPrehash",
			prep: func(ms msgSet) ([]byte, []byte, bool) {
				ph, err := Q.ph.ComputePrehash(cl(ms.pt))
				return ph, nil, err == nil
			},
			call: func(p any, a, _ []byte) ([]byte, error) { return p.(tink.PrehashSigner).SignPrehash(a) },
			good: func(out []byte, ms msgSet) string {
				// SignPrehash returns the bare signature; the keyset-level verifier expects the key's output prefix in front
				id := uint32(fixedKeyID)
				tinkPrefix := []byte{0x01, byte(id >> 24), byte(id >> 16), byte(id >> 8), byte(id)}
				if Q.v.Verify(cl(out), cl(ms.pt)) != nil && Q.v.Verify(append(tinkPrefix, out...), cl(ms.pt)) != nil {
					return "does-not-verify-for-its-message"
				}
				return ""
			}}}
	}
	return nil
}

// held is a result the caller still holds.
type held struct {
	api  string
	call int
	ms   int    // index of the message set
	out  []byte // the slice as returned
	snap []byte // its bytes at return time
	dead bool   // overwritten by the caller
}

type histStep struct {
	obj int // 0 = A, 1 = B
	ms  int // index into the message sets
}

// histScript: small calls on both objects, a >= 64 KiB call on A, small calls, a second call of the same big size (other
// bytes) on B — a pool that only recycles buffers above a size threshold hands the first big buffer out again here —
// then small calls again. Scrubs: an old small result, then the first big result; after the second scrub the big
// input is used once more.
func histScript() (steps []histStep, scrubs [][]int, after [][]histStep) {
	steps = []histStep{{0, 0}, {1, 1}, {0, 4}, {1, 2}, {0, 3}, {1, 6}, {0, 0}}
	scrubs = [][]int{{4}, {2}}
	after = [][]histStep{{{1, 1}, {0, 2}}, {{0, 6}, {1, 3}}}
	if hlib.Thorough() {
		steps = append(steps, histStep{1, 5}, histStep{0, 1}, histStep{1, 0})
	}
	return
}

// ringCheck compares the results kept from earlier histories with their snapshots.
func (e *engine) ringCheck(when string, add func(kind, format string, a ...any)) {
	for _, h := range e.ring {
		if !h.dead && !bytes.Equal(h.out, h.snap) {
			add("aliased-result", "a-result-of-%s-(call%d,len=%d)-changed-%s", h.api, h.call, len(h.snap), when)
			h.snap = bytes.Clone(h.out)
		}
	}
}

func (e *engine) history(src primSrc, rng *hlib.Rng) {
	if src.minimal {
		return
	}
	ops := histOpsFor(src)
	if len(ops) == 0 {
		return
	}
	sets := []msgSet{{rng.Bytes(17), rng.Bytes(5)}, {rng.Bytes(64), rng.Bytes(33)}, {rng.Bytes(1), []byte{}}, {rng.Bytes(300), rng.Bytes(1)},
		{rng.Bytes(histBig), rng.Bytes(7)}, {rng.Bytes(1<<20 + 1), rng.Bytes(2)}, {rng.Bytes(histBig), rng.Bytes(3)}}
	for _, op := range ops {
		op := op
		e.safe(src.api+"/"+op.name+"/history", func() { e.history1(src, op, sets) })
	}
}

func (e *engine) history1(src primSrc, op histOp, sets []msgSet) {
	api := src.api + "/" + op.name + "/history"
	steps, scrubs, after := histScript()
	// inputs and, for deterministic operations, the expected results from a reference object used before anything else
	type inp struct {
		a, b []byte
		ok   bool
		want []byte
		werr bool
	}
	ref, _, err := src.mk()
	if err != nil {
		e.skip(api, err.Error())
		return
	}
	ins := make([]inp, len(sets))
	for i, ms := range sets {
		used := false
		for _, s := range steps {
			used = used || s.ms == i
		}
		for _, as := range after {
			for _, s := range as {
				used = used || s.ms == i
			}
		}
		if !used {
			continue
		}
		a, b, ok := op.prep(ms)
		ins[i] = inp{a: a, b: b, ok: ok}
		if ok && op.det {
			w, err := op.call(ref, cl(a), cl(b))
			ins[i].want, ins[i].werr = cl(w), err != nil
		}
	}
	var objs [2]any
	for i := range objs {
		p, _, err := src.mk()
		if err != nil {
			e.skip(api, err.Error())
			return
		}
		objs[i] = p
	}
	var fs []finding
	add := func(kind, format string, a ...any) {
		if len(fs) < 12 {
			fs = append(fs, finding{kind, fmt.Sprintf(format, a...)})
		}
	}
	e.ringCheck("before-this-history-started", add)
	var hs []*held
	var seq []string
	n := 0
	scrubbed := false
	doCall := func(s histStep) {
		in := ins[s.ms]
		if !in.ok {
			return
		}
		k := n
		n++
		seq = append(seq, fmt.Sprintf("%c%d", 'A'+s.obj, len(in.a)))
		out, err := op.call(objs[s.obj], cl(in.a), cl(in.b))
		kind := "aliased-result"
		if scrubbed {
			kind = "aliased-internal"
		}
		// the new result must be right
		switch {
		case op.det:
			if (err != nil) != in.werr || (err == nil && !bytes.Equal(out, in.want)) {
				add(kind, "call%d-returns-a-wrong-result", k)
			}
		case err == nil:
			if why := op.good(out, sets[s.ms]); why != "" {
				add(kind, "call%d-%s", k, why)
			}
		}
		// everything the caller still holds must be what it was
		for _, h := range hs {
			if h.dead {
				continue
			}
			if !bytes.Equal(h.out, h.snap) {
				add(kind, "out%d(len=%d)-changed-by-call%d(len=%d)", h.call, len(h.snap), k, len(in.a))
				h.snap = bytes.Clone(h.out)
			}
			if err == nil && overlaps(h.out, out) {
				add(kind, "out%d-shares-memory-with-out%d", k, h.call)
			}
		}
		e.ringCheck(fmt.Sprintf("during-call%d-of-this-history", k), add)
		if err == nil {
			hs = append(hs, &held{api: api, call: k, ms: s.ms, out: out, snap: bytes.Clone(out)})
		}
	}
	for _, s := range steps {
		doCall(s)
	}
	byCall := func(c int) *held {
		for _, h := range hs {
			if h.call == c {
				return h
			}
		}
		return nil
	}
	for i, sc := range scrubs {
		for _, c := range sc {
			h := byCall(c)
			if h == nil || h.dead || cap(h.out) == 0 {
				continue
			}
			scrubbed = true
			scribbleOut(h.out)
			h.dead = true
			for _, g := range hs {
				if !g.dead && !overlaps(g.out, h.out) && !bytes.Equal(g.out, g.snap) {
					add("aliased-internal", "out%d-changed-when-out%d-was-overwritten", g.call, h.call)
					g.snap = bytes.Clone(g.out)
				}
			}
			e.ringCheck(fmt.Sprintf("when-out%d-of-this-history-was-overwritten", h.call), add)
		}
		// the newest result still held must still be right, and so must later calls
		if !op.det && scrubbed {
			for j := len(hs) - 1; j >= 0; j-- {
				if g := hs[j]; !g.dead {
					if why := op.good(g.out, sets[g.ms]); why != "" {
						add("aliased-internal", "out%d-%s-after-older-results-were-overwritten", g.call, why)
					}
					break
				}
			}
		}
		for _, s := range after[i] {
			doCall(s)
		}
	}
	// keep the big result and the newest one for the histories to come
	var keep []*held
	for _, h := range hs {
		if !h.dead && (len(h.snap) >= 1<<16 || h.call == n-1) {
			keep = append(keep, h)
		}
	}
	e.ring = append(e.ring, keep...)
	if max := 24; len(e.ring) > max {
		e.ring = append([]*held{}, e.ring[len(e.ring)-max:]...)
	}
	e.o.Case()
	toks := []string{"seq=" + strings.Join(seq, ",")}
	if src.extra != "" {
		toks = append(toks, src.extra)
	}
	line := "!B contract " + api + " " + strings.Join(toks, " ")
	e.apis[api]++
	e.o.Count("api:" + api)
	e.o.Count("history:lines")
	if len(fs) > 0 {
		if why := outOfScope(api); why != "" {
			e.o.Count("note/out-of-scope(" + why + "):" + api + ":" + fs[0].kind)
			return
		}
	}
	e.o.Emit(line, verdict(fs), true)
	if len(fs) > 0 {
		e.dirty[api+" "+fs[0].kind]++
		e.o.Count("dirty:" + fs[0].kind)
	}
}
