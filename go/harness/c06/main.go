//go:build verif

// Harness c06 (property C06): hybrid encryption against the independent implementation.
//
// For every HPKE suite hybrid/hpke admits (7 KEMs x 3 KDFs x 3 AEADs) and the ECIES-AEAD-HKDF grid
// hybrid/ecies admits (3 curves x 5 hashes x 3 point formats x 5 DEMs x salts), in every prefix
// variant:
//
//	(a) tink-go encrypts           -> the Lean model must decrypt with the raw private key bytes,
//	(b) the Lean model encrypts with an ephemeral scalar / DEM nonce chosen here (two-phase, hlib.Ask)
//	                               -> tink-go must decrypt,
//	(c) mutations of prefix / encapsulated key / payload / tag, cuts at every field boundary, a
//	    different valid encapsulation, the negated point, another private key with the same
//	    parameters and id, changed / dropped / extended context info
//	                               -> both must reject; an acceptance by tink-go is an oracle violation.
//
// For ML-KEM (and the ML-KEM half of X-Wing) the shared secret is computed with crypto/mlkem and
// handed to the model on the line (aux).
package main

import (
	"bytes"
	"crypto/ecdh"
	"crypto/elliptic"
	"crypto/mlkem"
	"crypto/rand"
	"crypto/sha3"
	"errors"
	"fmt"
	"math/big"
	"strings"

	"github.com/tink-crypto/tink-go/v2/aead/aesctrhmac"
	"github.com/tink-crypto/tink-go/v2/aead/aesgcm"
	"github.com/tink-crypto/tink-go/v2/aead/xchacha20poly1305"
	"github.com/tink-crypto/tink-go/v2/daead/aessiv"
	"github.com/tink-crypto/tink-go/v2/hybrid"
	"github.com/tink-crypto/tink-go/v2/hybrid/ecies"
	"github.com/tink-crypto/tink-go/v2/hybrid/hpke"
	hsubtle "github.com/tink-crypto/tink-go/v2/hybrid/subtle"
	"github.com/tink-crypto/tink-go/v2/insecurecleartextkeyset"
	"github.com/tink-crypto/tink-go/v2/insecuresecretdataaccess"
	"github.com/tink-crypto/tink-go/v2/internal/internalapi"
	"github.com/tink-crypto/tink-go/v2/internal/verifharness/hlib"
	"github.com/tink-crypto/tink-go/v2/key"
	"github.com/tink-crypto/tink-go/v2/keyset"
	"github.com/tink-crypto/tink-go/v2/tink"
)

// ---------------------------------------------------------------- deterministic crypto/rand

// detTape replaces crypto/rand.Reader. The bytes of a Read depend only on (seed, epoch, length of
// the read, how many reads of that length happened in the epoch), so the 0-or-1 byte the standard
// library draws at random (randutil.MaybeReadByte) cannot shift anything else: ephemeral DH keys,
// DEM nonces, generated keys and key ids are functions of the seed. (crypto/mlkem encapsulation uses
// the runtime DRBG and stays random: ML-KEM / X-Wing ciphertexts differ between runs.)
type detTape struct {
	seed   uint64
	epoch  uint64
	counts map[int]int
}

func (t *detTape) Read(p []byte) (int, error) {
	idx := t.counts[len(p)]
	t.counts[len(p)] = idx + 1
	r := hlib.NewRng(t.seed, fmt.Sprintf("c06tape/%d/%d/%d", t.epoch, len(p), idx))
	copy(p, r.Bytes(len(p)))
	return len(p), nil
}

func (t *detTape) next() {
	t.epoch++
	t.counts = map[int]int{}
}

var tape *detTape

// ---------------------------------------------------------------- curves

type curveInfo struct {
	name string // model token
	ell  elliptic.Curve
	dh   ecdh.Curve
	bl   int // coordinate / scalar length in bytes
}

var curves = []*curveInfo{
	{"P256", elliptic.P256(), ecdh.P256(), 32},
	{"P384", elliptic.P384(), ecdh.P384(), 48},
	{"P521", elliptic.P521(), ecdh.P521(), 66},
}

// scalar returns a valid private scalar (big-endian, exactly bl bytes, in [1, n-1]) with the edge
// values mixed in; the kind is returned for the statistics.
func scalar(rng *hlib.Rng, c *curveInfo) ([]byte, string) {
	n := c.ell.Params().N
	for {
		b := make([]byte, c.bl)
		kind := "random"
		switch rng.Intn(16) {
		case 0:
			b[c.bl-1] = 1
			kind = "one"
		case 1:
			new(big.Int).Sub(n, big.NewInt(1)).FillBytes(b)
			kind = "n-1"
		case 2:
			copy(b, rng.Bytes(c.bl))
			b[0] = 0
			if c.bl == 66 {
				b[1] = 0
			}
			kind = "leading-zero"
		case 3:
			copy(b[c.bl-2:], rng.Bytes(2))
			kind = "small"
		default:
			copy(b, rng.Bytes(c.bl))
			if c.bl == 66 {
				b[0] &= 1
			}
		}
		if _, err := c.dh.NewPrivateKey(b); err == nil {
			return b, kind
		}
	}
}

// negScalar returns n-d.
func negScalar(c *curveInfo, d []byte) []byte {
	out := make([]byte, c.bl)
	new(big.Int).Sub(c.ell.Params().N, new(big.Int).SetBytes(d)).FillBytes(out)
	return out
}

// pubOf returns the uncompressed public point 04 || x || y of a private scalar.
func pubOf(c *curveInfo, d []byte) []byte {
	k, err := c.dh.NewPrivateKey(d)
	if err != nil {
		panic(err)
	}
	return k.PublicKey().Bytes()
}

// negate returns the uncompressed encoding of -P.
func negate(c *curveInfo, unc []byte) []byte {
	out := append([]byte(nil), unc...)
	y := new(big.Int).SetBytes(unc[1+c.bl:])
	y.Sub(c.ell.Params().P, y)
	y.FillBytes(out[1+c.bl:])
	return out
}

// encodePoint re-encodes an uncompressed point in the ECIES point format U / C / L.
func encodePoint(c *curveInfo, f string, unc []byte) []byte {
	switch f {
	case "C":
		out := make([]byte, 1+c.bl)
		out[0] = 2 + unc[len(unc)-1]&1
		copy(out[1:], unc[1:1+c.bl])
		return out
	case "L":
		return append([]byte(nil), unc[1:]...)
	}
	return append([]byte(nil), unc...)
}

// decodeToUnc turns an encoded point of format f (produced by a genuine encryption) back into the
// uncompressed encoding; only used to build the "negated point" mutation.
func decodeToUnc(c *curveInfo, f string, e []byte) []byte {
	switch f {
	case "C":
		pt, err := hsubtle.PointDecode(c.ell, "COMPRESSED", e)
		if err != nil {
			return nil
		}
		out := make([]byte, 1+2*c.bl)
		out[0] = 4
		pt.X.FillBytes(out[1 : 1+c.bl])
		pt.Y.FillBytes(out[1+c.bl:])
		return out
	case "L":
		return append([]byte{4}, e...)
	}
	return append([]byte(nil), e...)
}

// ---------------------------------------------------------------- generic round engine

type scheme struct {
	fam     string // "hpke" | "ecies"
	label   string
	costly  bool // NIST-curve DH on the model side
	enc     tink.HybridEncrypt
	dec     tink.HybridDecrypt
	dec2    tink.HybridDecrypt // another private key, same parameters and id
	decNeg  tink.HybridDecrypt // NIST curves: the private key n-d (public key -Q), same parameters and id
	// negEquivalent: ECIES derives the key from the KEM bytes and the x coordinate of the DH point
	// only, so d and n-d are the same decryption key (inherent to ECIES-KEM); HPKE binds pkR.
	negEquivalent bool
	preLen  int
	hdrLen  int // encapsulated key / KEM header
	ovh     int // payload overhead (nonce + tag)
	bounds  func(ctLen int) []int
	decLine func(who int, ct, info []byte) string // who: 0 the recipient, 1 the other key, 2 the key n-d
	askLine func(rng *hlib.Rng, pt, info []byte) string
	special func(rng *hlib.Rng, ct, pt, info []byte) []hlib.Mut
}

type env struct {
	o       *hlib.Out
	mutProb int // percentage of the mutation candidates that are run for costly schemes
}

func rej(b []byte, err error) string {
	if err != nil {
		return "reject"
	}
	return "ok " + hlib.Tok(b)
}

func pickInfo(rng *hlib.Rng) []byte {
	switch rng.Intn(7) {
	case 0:
		return nil
	case 1:
		return []byte{}
	case 2:
		return rng.Bytes(1 + rng.Intn(16))
	case 3, 4:
		return rng.Bytes(100 + rng.Intn(200))
	case 5:
		if hlib.Thorough() && rng.Chance(10) {
			return rng.Bytes(1000 + rng.Intn(4000))
		}
		return rng.Bytes(32)
	}
	return rng.Bytes(rng.MsgLen(300))
}

func infoKind(info []byte) string {
	switch {
	case info == nil:
		return "nil"
	case len(info) == 0:
		return "empty"
	case len(info) <= 16:
		return "short"
	case len(info) >= 100:
		return "100+"
	}
	return "medium"
}

var errPre = errors.New("pre phase: not evaluated")

// viol records an oracle violation (main phase only: the pre phase only collects the requests to
// the model and does not evaluate decryptions).
func (e *env) viol(format string, a ...any) {
	if !hlib.Pre() {
		e.o.Violate(format, a...)
	}
}

func (e *env) decrypt(s *scheme, d tink.HybridDecrypt, what string, ct, info []byte) (pt []byte, err error, ok bool) {
	if hlib.Pre() {
		return nil, errPre, true
	}
	if p := hlib.Recover(func() { pt, err = d.Decrypt(ct, info) }); p != "" {
		e.o.Violate("Decrypt panicked on a %s input (%s): %s ct=%s", what, s.label, p, hlib.Tok(ct))
		return nil, nil, false
	}
	return pt, err, true
}

func (e *env) verdict(s *scheme, err error) {
	if err != nil {
		e.o.Count(s.fam + "/verdict/reject")
	} else {
		e.o.Count(s.fam + "/verdict/accept")
	}
}

func (e *env) round(rng *hlib.Rng, s *scheme) {
	o := e.o
	pt := rng.Bytes(rng.MsgLen(300))
	info := pickInfo(rng)
	o.Count(s.fam + "/info/" + infoKind(info))
	if len(pt) == 0 {
		o.Count(s.fam + "/pt/empty")
	}
	// ---- (a) tink-go encrypts, the model decrypts
	var ct []byte
	var err error
	if p := hlib.Recover(func() { ct, err = s.enc.Encrypt(pt, info) }); p != "" {
		e.viol("Encrypt panicked (%s): %s", s.label, p)
		return
	}
	if err != nil {
		e.viol("Encrypt failed (%s): %v", s.label, err)
		return
	}
	if len(ct) != s.preLen+s.hdrLen+s.ovh+len(pt) {
		e.viol("ciphertext length %d is not prefix+enc+|pt|+overhead = %d (%s)", len(ct), s.preLen+s.hdrLen+s.ovh+len(pt), s.label)
	}
	back, derr, ok := e.decrypt(s, s.dec, "genuine", ct, info)
	if !ok {
		return
	}
	if derr != nil || !bytes.Equal(back, pt) {
		e.viol("Decrypt(Encrypt(pt, info), info) != pt (%s, |pt|=%d |info|=%d): %v", s.label, len(pt), len(info), derr)
	}
	o.Count(s.fam + "/dir/go-enc>model-dec")
	e.verdict(s, derr)
	o.Emit("!"+s.decLine(0, ct, info), rej(back, derr), true)
	if len(info) == 0 { // nil and empty context info are interchangeable
		var other []byte
		if info == nil {
			other = []byte{}
		}
		if b2, e2, _ := e.decrypt(s, s.dec, "genuine", ct, other); e2 != nil || !bytes.Equal(b2, pt) {
			e.viol("nil/empty context info are not interchangeable (%s)", s.label)
		}
	}
	// ---- (b) the model encrypts with randomness chosen here, tink-go decrypts
	if s.askLine != nil {
		ans := hlib.Ask(s.askLine(rng, pt, info))
		if !hlib.Pre() {
			if !strings.HasPrefix(ans, "ok ") {
				e.viol("the model could not encrypt (%s): %s", s.label, ans)
			} else {
				mct := hlib.FromTok(ans[3:])
				b3, e3, ok := e.decrypt(s, s.dec, "model-made", mct, info)
				if ok {
					if e3 != nil || !bytes.Equal(b3, pt) {
						e.viol("tink-go does not decrypt the independent implementation's ciphertext (%s |pt|=%d |info|=%d) ct=%s", s.label, len(pt), len(info), hlib.Tok(mct))
					}
					o.Count(s.fam + "/dir/model-enc>go-dec")
					e.verdict(s, e3)
					o.Emit("!"+s.decLine(0, mct, info), rej(b3, e3), true)
				}
			}
		}
	}
	// ---- (c) nothing but the genuine (ciphertext, info, key) triple is accepted
	muts := rng.Mutations(ct, 6)
	bs := append([]int{0, s.preLen, s.preLen + s.hdrLen - 1, s.preLen + s.hdrLen, len(ct) - 1}, s.bounds(len(ct))...)
	seen := map[int]bool{}
	for _, pos := range bs {
		if pos < 0 || pos >= len(ct) || seen[pos] {
			continue
		}
		seen[pos] = true
		m := append([]byte(nil), ct...)
		m[pos] ^= 1 << uint(rng.Intn(8))
		muts = append(muts, hlib.Mut{Kind: "flip-boundary", Data: m})
		muts = append(muts, hlib.Mut{Kind: "cut-boundary", Data: append([]byte(nil), ct[:pos]...)})
	}
	if s.preLen == 5 {
		m := append([]byte(nil), ct...)
		m[0] ^= 1 // the other variant's start byte
		muts = append(muts, hlib.Mut{Kind: "other-variant", Data: m})
		m = append([]byte(nil), ct...)
		m[1+rng.Intn(4)] ^= 1 << uint(rng.Intn(8))
		muts = append(muts, hlib.Mut{Kind: "other-key-id", Data: m})
		muts = append(muts, hlib.Mut{Kind: "raw-of-prefixed", Data: append([]byte(nil), ct[5:]...)})
	} else {
		muts = append(muts, hlib.Mut{Kind: "prefixed-of-raw", Data: append([]byte{byte(rng.Intn(2)), 0, 0, 0, byte(rng.Intn(2))}, ct...)})
	}
	muts = append(muts, s.special(rng, ct, pt, info)...)
	for _, mu := range muts {
		if s.costly && !rng.Chance(e.mutProb) {
			continue
		}
		b, er, ok := e.decrypt(s, s.dec, mu.Kind, mu.Data, info)
		if !ok {
			continue
		}
		o.Count("mut/" + s.fam + "/" + mu.Kind)
		e.verdict(s, er)
		if er == nil && !bytes.Equal(mu.Data, ct) {
			e.viol("Decrypt accepted a %s-mutated ciphertext (%s) ct=%s", mu.Kind, s.label, hlib.Tok(mu.Data))
		}
		o.Emit(s.decLine(0, mu.Data, info), rej(b, er), true)
	}
	// another private key (same parameters, same id => same prefix)
	if !s.costly || rng.Chance(e.mutProb+20) {
		b, er, ok := e.decrypt(s, s.dec2, "other-private-key", ct, info)
		if ok {
			o.Count("mut/" + s.fam + "/other-private-key")
			e.verdict(s, er)
			if er == nil {
				e.viol("another private key decrypts the ciphertext (%s)", s.label)
			}
			o.Emit(s.decLine(1, ct, info), rej(b, er), true)
		}
	}
	// the private key n-d: -Q as public key, the same DH x coordinate
	if s.decNeg != nil && (!s.costly || rng.Chance(e.mutProb+20)) {
		b, er, ok := e.decrypt(s, s.decNeg, "negated-private-key", ct, info)
		if ok {
			o.Count("mut/" + s.fam + "/negated-private-key")
			e.verdict(s, er)
			switch {
			case s.negEquivalent && !hlib.Pre():
				if er == nil && bytes.Equal(b, pt) {
					o.Count(s.fam + "/note/private-keys-d-and-n-d-are-equivalent")
				}
			case er == nil:
				e.viol("the private key n-d decrypts the ciphertext (%s)", s.label)
			}
			o.Emit(s.decLine(2, ct, info), rej(b, er), true)
		}
	}
	// context info
	im := rng.Mutations(info, 2)
	im = append(im, hlib.Mut{Kind: "info-dropped", Data: nil},
		hlib.Mut{Kind: "info-extended", Data: append(append([]byte(nil), info...), byte(rng.Intn(2)))},
		hlib.Mut{Kind: "info-other", Data: rng.Bytes(1 + rng.Intn(40))})
	if len(info) > 0 {
		im = append(im, hlib.Mut{Kind: "info-shortened", Data: append([]byte(nil), info[:len(info)-1]...)})
	}
	for _, mu := range im {
		if s.costly && !rng.Chance(e.mutProb+20) {
			continue
		}
		kind := mu.Kind
		if !strings.HasPrefix(kind, "info-") {
			kind = "info-" + kind
		}
		b, er, ok := e.decrypt(s, s.dec, kind, ct, mu.Data)
		if !ok {
			continue
		}
		o.Count("mut/" + s.fam + "/" + kind)
		e.verdict(s, er)
		if er == nil && !bytes.Equal(mu.Data, info) {
			e.viol("Decrypt accepted changed context info (%s, %s) info=%s used=%s", kind, s.label, hlib.Tok(info), hlib.Tok(mu.Data))
		}
		o.Emit(s.decLine(0, ct, mu.Data), rej(b, er), true)
	}
}

// ---------------------------------------------------------------- key plumbing shared by both families

// parties builds the encrypting and the decrypting primitive for a private key along one of the
// construction paths.
func parties(path string, priv key.Key, perKey func() (tink.HybridEncrypt, tink.HybridDecrypt, error)) (tink.HybridEncrypt, tink.HybridDecrypt, error) {
	switch path {
	case "key":
		return perKey()
	case "keyset", "proto":
		h, err := hlib.HandleOf(priv)
		if err != nil {
			return nil, nil, err
		}
		if path == "proto" { // through the binary keyset serialization and back
			var buf bytes.Buffer
			if err := insecurecleartextkeyset.Write(h, keyset.NewBinaryWriter(&buf)); err != nil {
				return nil, nil, fmt.Errorf("keyset write: %v", err)
			}
			if h, err = insecurecleartextkeyset.Read(keyset.NewBinaryReader(&buf)); err != nil {
				return nil, nil, fmt.Errorf("keyset read: %v", err)
			}
		}
		return fromHandle(h)
	}
	return nil, nil, fmt.Errorf("unknown path %s", path)
}

func fromHandle(h *keyset.Handle) (tink.HybridEncrypt, tink.HybridDecrypt, error) {
	ph, err := h.Public()
	if err != nil {
		return nil, nil, err
	}
	enc, err := hybrid.NewHybridEncrypt(ph)
	if err != nil {
		return nil, nil, err
	}
	dec, err := hybrid.NewHybridDecrypt(h)
	if err != nil {
		return nil, nil, err
	}
	return enc, dec, nil
}

// generate lets the keyset manager create a fresh key from the parameters (createPrivateKey path).
func generate(params key.Parameters) (*keyset.Handle, key.Key, error) {
	km := keyset.NewManager()
	id, err := km.AddNewKeyFromParameters(params)
	if err != nil {
		return nil, nil, err
	}
	if err := km.SetPrimary(id); err != nil {
		return nil, nil, err
	}
	h, err := km.Handle()
	if err != nil {
		return nil, nil, err
	}
	e, err := h.Primary()
	if err != nil {
		return nil, nil, err
	}
	return h, e.Key(), nil
}

func pickPath(rng *hlib.Rng) string {
	switch rng.Intn(10) {
	case 0, 1, 2, 3:
		return "keyset"
	case 4, 5:
		return "key"
	case 6, 7:
		return "proto"
	}
	return "generated"
}

var vcodes = []string{"T", "C", "R"}

// ---------------------------------------------------------------- HPKE

type kemInfo struct {
	name  string
	id    hpke.KEMID
	nEnc  int
	skLen int
	curve *curveInfo // NIST KEMs
}

var kems = []kemInfo{
	{"P256", hpke.DHKEM_P256_HKDF_SHA256, 65, 32, curves[0]},
	{"P384", hpke.DHKEM_P384_HKDF_SHA384, 97, 48, curves[1]},
	{"P521", hpke.DHKEM_P521_HKDF_SHA512, 133, 66, curves[2]},
	{"X25519", hpke.DHKEM_X25519_HKDF_SHA256, 32, 32, nil},
	{"XWING", hpke.X_WING, 1120, 32, nil},
	{"MLKEM768", hpke.ML_KEM768, 1088, 64, nil},
	{"MLKEM1024", hpke.ML_KEM1024, 1568, 64, nil},
}

var kdfs = []struct {
	name string
	id   hpke.KDFID
}{{"SHA256", hpke.HKDFSHA256}, {"SHA384", hpke.HKDFSHA384}, {"SHA512", hpke.HKDFSHA512}}

var haeads = []struct {
	name string
	id   hpke.AEADID
}{{"AES128GCM", hpke.AES128GCM}, {"AES256GCM", hpke.AES256GCM}, {"CHACHA", hpke.ChaCha20Poly1305}}

var hvariants = []hpke.Variant{hpke.VariantTink, hpke.VariantCrunchy, hpke.VariantNoPrefix}

func (k *kemInfo) dhKEM() bool { return k.curve != nil || k.name == "X25519" }

// genSK draws recipient private key bytes in the form tink stores them.
func (k *kemInfo) genSK(rng *hlib.Rng) ([]byte, string) {
	if k.curve != nil {
		return scalar(rng, k.curve)
	}
	if k.name == "X25519" || k.name == "XWING" {
		switch rng.Intn(20) {
		case 0:
			return make([]byte, 32), "zeros"
		case 1:
			return bytes.Repeat([]byte{0xff}, 32), "ones"
		}
	}
	return rng.Bytes(k.skLen), "random"
}

// hpkeSecret is a recipient private key together with what the harness needs to tell the model.
type hpkeSecret struct {
	kem   *kemInfo
	sk    []byte
	pub   []byte
	d768  *mlkem.DecapsulationKey768
	d1024 *mlkem.DecapsulationKey1024
	seedM []byte
}

func newHpkeSecret(k *kemInfo, priv *hpke.PrivateKey) (*hpkeSecret, error) {
	pk, _ := priv.PublicKey()
	s := &hpkeSecret{kem: k, sk: priv.PrivateKeyBytes().Data(insecuresecretdataaccess.Token{}), pub: pk.(*hpke.PublicKey).PublicKeyBytes()}
	var err error
	switch k.name {
	case "MLKEM768":
		s.d768, err = mlkem.NewDecapsulationKey768(s.sk)
	case "MLKEM1024":
		s.d1024, err = mlkem.NewDecapsulationKey1024(s.sk)
	case "XWING":
		// seedM = first 64 bytes of SHAKE256(sk, 96)
		h := sha3.NewSHAKE256()
		h.Write(s.sk)
		s.seedM = make([]byte, 64)
		h.Read(s.seedM)
		s.d768, err = mlkem.NewDecapsulationKey768(s.seedM)
	}
	return s, err
}

// aux is the ML-KEM shared secret crypto/mlkem decapsulates from the encapsulated key the model
// will look at ("~" for the DH KEMs). When the ciphertext is too short to hold an encapsulated key
// the model rejects on the length before using it; a dummy value is passed then.
func (s *hpkeSecret) aux(ct []byte, preLen int) string {
	if s.kem.dhKEM() {
		return "~"
	}
	if len(ct) < preLen+s.kem.nEnc {
		return hlib.Tok(make([]byte, 32))
	}
	enc := ct[preLen : preLen+s.kem.nEnc]
	var ss []byte
	var err error
	switch s.kem.name {
	case "MLKEM768":
		ss, err = s.d768.Decapsulate(enc)
	case "MLKEM1024":
		ss, err = s.d1024.Decapsulate(enc)
	case "XWING":
		ss, err = s.d768.Decapsulate(enc[:mlkem.CiphertextSize768])
	}
	if err != nil {
		return "~"
	}
	return hlib.Tok(ss)
}

func runHPKE(e *env, rng *hlib.Rng, ki, di, ai, vi, rounds int) {
	o := e.o
	k := &kems[ki]
	suite := fmt.Sprintf("%s %s %s", k.name, kdfs[di].name, haeads[ai].name)
	params, err := hpke.NewParameters(hpke.ParametersOpts{KEMID: k.id, KDFID: kdfs[di].id, AEADID: haeads[ai].id, Variant: hvariants[vi]})
	if err != nil {
		o.Violate("hpke.NewParameters(%s) failed: %v", suite, err)
		return
	}
	id := rng.KeyID()
	if vi == 2 {
		id = 0
	}
	path := pickPath(rng)
	var priv *hpke.PrivateKey
	var enc tink.HybridEncrypt
	var dec tink.HybridDecrypt
	perKey := func(p *hpke.PrivateKey) func() (tink.HybridEncrypt, tink.HybridDecrypt, error) {
		return func() (tink.HybridEncrypt, tink.HybridDecrypt, error) {
			pk, _ := p.PublicKey()
			en, err := hpke.NewHybridEncrypt(pk.(*hpke.PublicKey), internalapi.Token{})
			if err != nil {
				return nil, nil, err
			}
			de, err := hpke.NewHybridDecrypt(p, internalapi.Token{})
			return en, de, err
		}
	}
	skKind := "generated"
	if path == "generated" {
		h, gk, err := generate(params)
		if err != nil {
			o.Violate("key generation from parameters failed (%s): %v", suite, err)
			return
		}
		priv = gk.(*hpke.PrivateKey)
		id, _ = priv.IDRequirement()
		enc, dec, err = fromHandle(h)
		if err != nil {
			o.Violate("primitive construction failed (%s, %s): %v", suite, path, err)
			return
		}
	} else {
		var sk []byte
		sk, skKind = k.genSK(rng)
		priv, err = hpke.NewPrivateKey(hlib.Secret(sk), id, params)
		if err != nil {
			o.Violate("hpke.NewPrivateKey failed (%s): %v", suite, err)
			return
		}
		enc, dec, err = parties(path, priv, perKey(priv))
		if err != nil {
			o.Violate("primitive construction failed (%s, %s): %v", suite, path, err)
			return
		}
	}
	sec, err := newHpkeSecret(k, priv)
	if err != nil {
		o.Violate("crypto/mlkem refuses the key (%s): %v", suite, err)
		return
	}
	// the other recipient: same parameters and id, fresh key material
	sk2, _ := k.genSK(rng)
	for bytes.Equal(sk2, sec.sk) {
		sk2 = rng.Bytes(k.skLen)
		if k.curve != nil {
			sk2, _ = scalar(rng, k.curve)
		}
	}
	priv2, err := hpke.NewPrivateKey(hlib.Secret(sk2), id, params)
	if err != nil {
		o.Violate("hpke.NewPrivateKey failed (%s): %v", suite, err)
		return
	}
	enc2, dec2, err := perKey(priv2)()
	if err != nil {
		o.Violate("primitive construction failed (%s, other key): %v", suite, err)
		return
	}
	sec2, err := newHpkeSecret(k, priv2)
	if err != nil {
		o.Violate("crypto/mlkem refuses the key (%s): %v", suite, err)
		return
	}
	var decNeg tink.HybridDecrypt
	var secNeg *hpkeSecret
	if k.curve != nil {
		privNeg, err := hpke.NewPrivateKey(hlib.Secret(negScalar(k.curve, sec.sk)), id, params)
		if err != nil {
			o.Violate("hpke.NewPrivateKey failed (%s, n-d): %v", suite, err)
			return
		}
		if _, decNeg, err = perKey(privNeg)(); err != nil {
			o.Violate("primitive construction failed (%s, n-d): %v", suite, err)
			return
		}
		secNeg, _ = newHpkeSecret(k, privNeg)
	}
	o.Count("hpke/kem/" + k.name)
	o.Count("hpke/kdf/" + kdfs[di].name)
	o.Count("hpke/aead/" + haeads[ai].name)
	o.Count("hpke/variant/" + vcodes[vi])
	o.Count("hpke/path/" + path)
	o.Count("hpke/sk/" + skKind)
	preLen := 5
	if vi == 2 {
		preLen = 0
	}
	if k.name == "XWING" {
		// the key expansion (SHAKE256) and the X25519 half of the public key, cross-checked
		o.Emit("!H xwingpub "+hlib.Tok(sec.sk), hlib.Tok(sec.seedM)+" "+hlib.Tok(sec.pub[mlkem.EncapsulationKeySize768:]), true)
	}
	cfg := fmt.Sprintf("%s %s %d", suite, vcodes[vi], id)
	s := &scheme{fam: "hpke", label: "HPKE " + cfg + " via " + path, costly: k.curve != nil, enc: enc, dec: dec, dec2: dec2, decNeg: decNeg,
		preLen: preLen, hdrLen: k.nEnc, ovh: 16,
		bounds: func(n int) []int { return []int{n - 16, n - 17} },
		decLine: func(who int, ct, info []byte) string {
			x := sec
			if who == 1 {
				x = sec2
			} else if who == 2 {
				x = secNeg
			}
			return fmt.Sprintf("H hpkedec %s %s %s %s %s", cfg, hlib.Tok(x.sk), hlib.Tok(ct), hlib.Tok(info), x.aux(ct, preLen))
		},
	}
	if k.dhKEM() {
		s.askLine = func(rng *hlib.Rng, pt, info []byte) string {
			var eph []byte
			if k.curve != nil {
				eph, _ = scalar(rng, k.curve)
			} else {
				eph = rng.Bytes(32)
			}
			return fmt.Sprintf("H hpkeenc %s %s %s %s %s", cfg, hlib.Tok(sec.pub), hlib.Tok(eph), hlib.Tok(pt), hlib.Tok(info))
		}
	}
	s.special = func(rng *hlib.Rng, ct, pt, info []byte) []hlib.Mut {
		var ms []hlib.Mut
		encOff := preLen
		// a different, perfectly valid encapsulation for the same recipient in front of the payload
		if ct2, err := enc.Encrypt(pt, info); err == nil && len(ct2) == len(ct) {
			m := append([]byte(nil), ct...)
			copy(m[encOff:encOff+k.nEnc], ct2[encOff:encOff+k.nEnc])
			ms = append(ms, hlib.Mut{Kind: "enc-other-valid", Data: m})
			m = append([]byte(nil), ct2...)
			copy(m[encOff:encOff+k.nEnc], ct[encOff:encOff+k.nEnc])
			ms = append(ms, hlib.Mut{Kind: "payload-other-valid", Data: m})
		}
		// a ciphertext made for the other recipient
		if ct3, err := enc2.Encrypt(pt, info); err == nil {
			ms = append(ms, hlib.Mut{Kind: "for-other-recipient", Data: ct3})
		}
		switch {
		case k.curve != nil:
			// -P has the same DH x coordinate; enc is bound through the KEM context
			m := append([]byte(nil), ct...)
			copy(m[encOff:], negate(k.curve, ct[encOff:encOff+k.nEnc]))
			ms = append(ms, hlib.Mut{Kind: "enc-negated-point", Data: m})
			m = append([]byte(nil), ct...)
			m[encOff] = 2 + m[encOff+k.nEnc-1]&1 // compressed-format marker on an uncompressed point
			ms = append(ms, hlib.Mut{Kind: "enc-format-byte", Data: m})
			m = append([]byte(nil), ct...)
			copy(m[encOff:], sec.pub) // the recipient's own public key as enc
			ms = append(ms, hlib.Mut{Kind: "enc-is-recipient-key", Data: m})
		case k.name == "X25519" || k.name == "XWING":
			xo := encOff + k.nEnc - 32
			m := append([]byte(nil), ct...)
			m[xo+31] ^= 0x80 // X25519 ignores the top bit: same DH value, different enc
			ms = append(ms, hlib.Mut{Kind: "enc-x25519-high-bit", Data: m})
			m = append([]byte(nil), ct...)
			copy(m[xo:xo+32], make([]byte, 32)) // low-order point: all-zero DH value
			ms = append(ms, hlib.Mut{Kind: "enc-x25519-low-order", Data: m})
			m = append([]byte(nil), ct...)
			copy(m[xo:xo+32], append([]byte{1}, make([]byte, 31)...))
			ms = append(ms, hlib.Mut{Kind: "enc-x25519-low-order", Data: m})
		}
		if !k.dhKEM() || k.name == "XWING" {
			m := append([]byte(nil), ct...)
			copy(m[encOff:], make([]byte, 1088)) // all-zero ML-KEM ciphertext: implicit rejection
			ms = append(ms, hlib.Mut{Kind: "enc-mlkem-zero", Data: m})
		}
		return ms
	}
	for r := 0; r < rounds; r++ {
		e.round(rng, s)
	}
}

// ---------------------------------------------------------------- ECIES

type demInfo struct {
	name   string // statistics
	model  string // model tokens
	keyLen int
	rndLen int // random field at the start of the DEM ciphertext (nonce / IV); SIV has none
	tagLen int
	headIV int // bytes in front of the body (nonce / IV / synthetic IV)
	params func() key.Parameters
}

func must[T any](v T, err error) T {
	if err != nil {
		panic(err)
	}
	return v
}

var dems = []demInfo{
	{"AES128-GCM", "gcm 16", 16, 12, 16, 12, func() key.Parameters {
		return must(aesgcm.NewParameters(aesgcm.ParametersOpts{KeySizeInBytes: 16, IVSizeInBytes: 12, TagSizeInBytes: 16, Variant: aesgcm.VariantNoPrefix}))
	}},
	{"AES256-GCM", "gcm 32", 32, 12, 16, 12, func() key.Parameters {
		return must(aesgcm.NewParameters(aesgcm.ParametersOpts{KeySizeInBytes: 32, IVSizeInBytes: 12, TagSizeInBytes: 16, Variant: aesgcm.VariantNoPrefix}))
	}},
	{"AES128-CTR-HMAC-SHA256", "ctrhmac 16 32 SHA256 16 16", 48, 16, 16, 16, func() key.Parameters {
		return must(aesctrhmac.NewParameters(aesctrhmac.ParametersOpts{AESKeySizeInBytes: 16, HMACKeySizeInBytes: 32, IVSizeInBytes: 16,
			HashType: aesctrhmac.SHA256, TagSizeInBytes: 16, Variant: aesctrhmac.VariantNoPrefix}))
	}},
	{"AES256-CTR-HMAC-SHA256", "ctrhmac 32 32 SHA256 16 32", 64, 16, 32, 16, func() key.Parameters {
		return must(aesctrhmac.NewParameters(aesctrhmac.ParametersOpts{AESKeySizeInBytes: 32, HMACKeySizeInBytes: 32, IVSizeInBytes: 16,
			HashType: aesctrhmac.SHA256, TagSizeInBytes: 32, Variant: aesctrhmac.VariantNoPrefix}))
	}},
	{"AES256-SIV", "siv", 64, 0, 0, 16, func() key.Parameters { return must(aessiv.NewParameters(64, aessiv.VariantNoPrefix)) }},
}

var ehashes = []struct {
	name string
	id   ecies.HashType
}{{"SHA1", ecies.SHA1}, {"SHA224", ecies.SHA224}, {"SHA256", ecies.SHA256}, {"SHA384", ecies.SHA384}, {"SHA512", ecies.SHA512}}

var efmts = []struct {
	code   string
	id     ecies.PointFormat
	subtle string
}{{"U", ecies.UncompressedPointFormat, "UNCOMPRESSED"}, {"C", ecies.CompressedPointFormat, "COMPRESSED"},
	{"L", ecies.LegacyUncompressedPointFormat, "DO_NOT_USE_CRUNCHY_UNCOMPRESSED"}}

var ecurves = []ecies.CurveType{ecies.NISTP256, ecies.NISTP384, ecies.NISTP521}
var evariants = []ecies.Variant{ecies.VariantTink, ecies.VariantCrunchy, ecies.VariantNoPrefix}
var saltLens = []int{0, 16, 40}

func hdrLen(c *curveInfo, f string) int {
	switch f {
	case "C":
		return c.bl + 1
	case "L":
		return 2 * c.bl
	}
	return 2*c.bl + 1
}

func runECIES(e *env, rng *hlib.Rng, ci, hi, fi, mi, si, vi, rounds int) {
	o := e.o
	c := curves[ci]
	dm := &dems[mi]
	f := efmts[fi]
	salt := rng.Bytes(saltLens[si])
	if len(salt) == 0 && rng.Bool() {
		salt = nil
	}
	id := rng.KeyID()
	if vi == 2 {
		id = 0
	}
	suite := fmt.Sprintf("%s %s %s %s %s", c.name, ehashes[hi].name, f.code, dm.model, hlib.Tok(salt))
	demParams := dm.params()
	params, err := ecies.NewParameters(ecies.ParametersOpts{CurveType: ecurves[ci], HashType: ehashes[hi].id, NISTCurvePointFormat: f.id,
		DEMParameters: demParams, Salt: salt, Variant: evariants[vi]})
	if err != nil {
		o.Violate("ecies.NewParameters(%s) failed: %v", suite, err)
		return
	}
	path := pickPath(rng)
	if vi == 2 && rng.Chance(30) {
		path = "subtle"
	}
	perKey := func(p *ecies.PrivateKey) func() (tink.HybridEncrypt, tink.HybridDecrypt, error) {
		return func() (tink.HybridEncrypt, tink.HybridDecrypt, error) {
			pk, _ := p.PublicKey()
			en, err := ecies.NewHybridEncrypt(pk.(*ecies.PublicKey), internalapi.Token{})
			if err != nil {
				return nil, nil, err
			}
			de, err := ecies.NewHybridDecrypt(p, internalapi.Token{})
			return en, de, err
		}
	}
	var priv *ecies.PrivateKey
	var enc tink.HybridEncrypt
	var dec tink.HybridDecrypt
	dKind := "generated"
	switch path {
	case "generated":
		h, gk, err := generate(params)
		if err != nil {
			o.Violate("key generation from parameters failed (%s): %v", suite, err)
			return
		}
		priv = gk.(*ecies.PrivateKey)
		id, _ = priv.IDRequirement()
		if enc, dec, err = fromHandle(h); err != nil {
			o.Violate("primitive construction failed (%s, %s): %v", suite, path, err)
			return
		}
	default:
		var d []byte
		d, dKind = scalar(rng, c)
		priv, err = ecies.NewPrivateKey(hlib.Secret(d), id, params)
		if err != nil {
			o.Violate("ecies.NewPrivateKey failed (%s): %v", suite, err)
			return
		}
		if path == "subtle" {
			// hybrid/subtle directly, with the DEM helper the key-level constructors use
			helper, err := ecies.VerifNewDEMHelper(demParams)
			if err != nil {
				o.Violate("DEM helper (%s): %v", suite, err)
				return
			}
			pub := pubOf(c, d)
			en, err := hsubtle.NewECIESAEADHKDFHybridEncrypt(&hsubtle.ECPublicKey{Curve: c.ell, Point: hsubtle.ECPoint{
				X: new(big.Int).SetBytes(pub[1 : 1+c.bl]), Y: new(big.Int).SetBytes(pub[1+c.bl:])}}, salt, ehashes[hi].name, f.subtle, helper)
			if err != nil {
				o.Violate("subtle encrypt constructor (%s): %v", suite, err)
				return
			}
			de, err := hsubtle.NewECIESAEADHKDFHybridDecrypt(hsubtle.GetECPrivateKey(c.ell, d), salt, ehashes[hi].name, f.subtle, helper)
			if err != nil {
				o.Violate("subtle decrypt constructor (%s): %v", suite, err)
				return
			}
			enc, dec = en, de
		} else if enc, dec, err = parties(path, priv, perKey(priv)); err != nil {
			o.Violate("primitive construction failed (%s, %s): %v", suite, path, err)
			return
		}
	}
	d := priv.PrivateKeyBytes().Data(insecuresecretdataaccess.Token{})
	pk, _ := priv.PublicKey()
	pub := pk.(*ecies.PublicKey).PublicKeyBytes()
	dNeg := negScalar(c, d)
	d2, _ := scalar(rng, c)
	for bytes.Equal(d2, d) || bytes.Equal(d2, dNeg) { // n-d is the same ECIES decryption key, see negEquivalent
		d2, _ = scalar(rng, c)
	}
	priv2, err := ecies.NewPrivateKey(hlib.Secret(d2), id, params)
	if err != nil {
		o.Violate("ecies.NewPrivateKey failed (%s): %v", suite, err)
		return
	}
	enc2, dec2, err := perKey(priv2)()
	if err != nil {
		o.Violate("primitive construction failed (%s, other key): %v", suite, err)
		return
	}
	privNeg, err := ecies.NewPrivateKey(hlib.Secret(dNeg), id, params)
	if err != nil {
		o.Violate("ecies.NewPrivateKey failed (%s, n-d): %v", suite, err)
		return
	}
	_, decNeg, err := perKey(privNeg)()
	if err != nil {
		o.Violate("primitive construction failed (%s, n-d): %v", suite, err)
		return
	}
	o.Count("ecies/curve/" + c.name)
	o.Count("ecies/hash/" + ehashes[hi].name)
	o.Count("ecies/format/" + f.code)
	o.Count("ecies/dem/" + dm.name)
	o.Count(fmt.Sprintf("ecies/salt/%d", saltLens[si]))
	o.Count("ecies/variant/" + vcodes[vi])
	o.Count("ecies/path/" + path)
	o.Count("ecies/d/" + dKind)
	preLen := 5
	if vi == 2 {
		preLen = 0
	}
	hl := hdrLen(c, f.code)
	cfg := fmt.Sprintf("%s %s %d", suite, vcodes[vi], id)
	s := &scheme{fam: "ecies", label: "ECIES " + cfg + " via " + path, costly: true, enc: enc, dec: dec, dec2: dec2, decNeg: decNeg, negEquivalent: true,
		preLen: preLen, hdrLen: hl, ovh: dm.headIV + dm.tagLen,
		bounds: func(n int) []int {
			b := []int{preLen + hl + dm.headIV - 1, preLen + hl + dm.headIV}
			if dm.tagLen > 0 {
				b = append(b, n-dm.tagLen, n-dm.tagLen-1)
			}
			return b
		},
		decLine: func(who int, ct, info []byte) string {
			x := d
			if who == 1 {
				x = d2
			} else if who == 2 {
				x = dNeg
			}
			return fmt.Sprintf("H eciesdec %s %s %s %s", cfg, hlib.Tok(x), hlib.Tok(ct), hlib.Tok(info))
		},
		askLine: func(rng *hlib.Rng, pt, info []byte) string {
			eph, _ := scalar(rng, c)
			rnd := rng.Bytes(dm.rndLen)
			return fmt.Sprintf("H eciesenc %s %s %s %s %s %s", cfg, hlib.Tok(pub), hlib.Tok(eph), hlib.Tok(rnd), hlib.Tok(pt), hlib.Tok(info))
		},
	}
	s.special = func(rng *hlib.Rng, ct, pt, info []byte) []hlib.Mut {
		var ms []hlib.Mut
		// a different valid KEM header (fresh ephemeral point) in front of the payload
		eph, _ := scalar(rng, c)
		m := append([]byte(nil), ct...)
		copy(m[preLen:preLen+hl], encodePoint(c, f.code, pubOf(c, eph)))
		ms = append(ms, hlib.Mut{Kind: "kem-other-valid", Data: m})
		// -P: same DH x coordinate, different KEM bytes (they are part of the HKDF input)
		if unc := decodeToUnc(c, f.code, ct[preLen:preLen+hl]); unc != nil {
			m = append([]byte(nil), ct...)
			copy(m[preLen:preLen+hl], encodePoint(c, f.code, negate(c, unc)))
			ms = append(ms, hlib.Mut{Kind: "kem-negated-point", Data: m})
		}
		// the recipient's own public key as the KEM header
		m = append([]byte(nil), ct...)
		copy(m[preLen:preLen+hl], encodePoint(c, f.code, pub))
		ms = append(ms, hlib.Mut{Kind: "kem-is-recipient-key", Data: m})
		if f.code != "L" {
			m = append([]byte(nil), ct...)
			m[preLen] = byte(rng.Pick(0, 2, 3, 4, 5, 6, 7))
			if m[preLen] != ct[preLen] {
				ms = append(ms, hlib.Mut{Kind: "kem-format-byte", Data: m})
			}
		}
		// x coordinate replaced by random bytes / by p (out of range)
		m = append([]byte(nil), ct...)
		xo := preLen + hl - c.bl
		if f.code != "C" {
			xo = preLen + hl - 2*c.bl
		}
		c.ell.Params().P.FillBytes(m[xo : xo+c.bl])
		ms = append(ms, hlib.Mut{Kind: "kem-x-is-p", Data: m})
		// the same point in another point format
		for _, of := range []string{"U", "C", "L"} {
			if of == f.code {
				continue
			}
			if unc := decodeToUnc(c, f.code, ct[preLen:preLen+hl]); unc != nil {
				m = append(append(append([]byte(nil), ct[:preLen]...), encodePoint(c, of, unc)...), ct[preLen+hl:]...)
				ms = append(ms, hlib.Mut{Kind: "kem-other-format", Data: m})
			}
		}
		if ct2, err := enc.Encrypt(pt, info); err == nil && len(ct2) == len(ct) {
			m = append([]byte(nil), ct2...)
			copy(m[preLen:preLen+hl], ct[preLen:preLen+hl])
			ms = append(ms, hlib.Mut{Kind: "payload-other-valid", Data: m})
		}
		if ct3, err := enc2.Encrypt(pt, info); err == nil {
			ms = append(ms, hlib.Mut{Kind: "for-other-recipient", Data: ct3})
		}
		return ms
	}
	for r := 0; r < rounds; r++ {
		e.round(rng, s)
	}
}

// unsupported records that the parameter sets hybrid/ecies admits at the parameters level but has
// no primitive for stay that way (nothing to correspond with; the evidence says so).
func unsupported(o *hlib.Out) {
	xp, err := xchacha20poly1305.NewParameters(xchacha20poly1305.VariantNoPrefix)
	if err == nil {
		p, err := ecies.NewParameters(ecies.ParametersOpts{CurveType: ecies.NISTP256, HashType: ecies.SHA256, NISTCurvePointFormat: ecies.UncompressedPointFormat,
			DEMParameters: xp, Variant: ecies.VariantNoPrefix})
		if err == nil {
			if _, _, err := generate(p); err != nil {
				o.Count("ecies/not-covered/XChaCha20-Poly1305-DEM:no-key-generation")
			} else if k, err := ecies.NewPrivateKey(hlib.Secret(append(make([]byte, 31), 1)), 0, p); err == nil {
				if _, err := ecies.NewHybridDecrypt(k, internalapi.Token{}); err != nil {
					o.Count("ecies/not-covered/XChaCha20-Poly1305-DEM:no-primitive")
				} else {
					o.Count("ecies/not-covered/XChaCha20-Poly1305-DEM:MODEL-HAS-NO-SUCH-DEM")
				}
			}
		}
	}
	p, err := ecies.NewParameters(ecies.ParametersOpts{CurveType: ecies.X25519, HashType: ecies.SHA256, NISTCurvePointFormat: ecies.UnspecifiedPointFormat,
		DEMParameters: dems[0].params(), Variant: ecies.VariantNoPrefix})
	if err == nil {
		if k, err := ecies.NewPrivateKey(hlib.Secret(bytes.Repeat([]byte{7}, 32)), 0, p); err == nil {
			if _, err := ecies.NewHybridDecrypt(k, internalapi.Token{}); err != nil {
				o.Count("ecies/not-covered/X25519-curve:no-primitive")
			} else {
				o.Count("ecies/not-covered/X25519-curve:MODEL-HAS-NO-SUCH-CURVE")
			}
		}
	}
}

// ---------------------------------------------------------------- main

func main() {
	o := hlib.Open("C06")
	defer o.Close()
	tape = &detTape{seed: *hlib.FlagSeed, counts: map[int]int{}}
	rand.Reader = tape
	e := &env{o: o, mutProb: 25}
	if hlib.Thorough() {
		e.mutProb = 100
	}
	seed := *hlib.FlagSeed
	unsupported(o)

	// HPKE: every suite in every variant
	suites := map[string]bool{}
	caseNo := 0
	for ki := range kems {
		for di := range kdfs {
			for ai := range haeads {
				for vi := 0; vi < 3; vi++ {
					caseNo++
					tape.next()
					o.Case()
					rng := hlib.NewRng(seed, fmt.Sprintf("c06/hpke/%d", caseNo))
					rounds := hlib.N(1, 4)
					if strings.HasPrefix(kems[ki].name, "MLKEM") {
						rounds = hlib.N(2, 6) // ML-KEM lines cost the model next to nothing
					}
					runHPKE(e, rng, ki, di, ai, vi, rounds)
					suites[fmt.Sprintf("%d/%d/%d", ki, di, ai)] = true
				}
			}
		}
	}
	o.Hist["hpke/distinct-suites"] = len(suites)
	if hlib.Thorough() {
		e = &env{o: o, mutProb: 50} // the full ECIES grid is 2025 parameter sets
	}

	// ECIES: quick walks the (curve, hash, format, DEM) grid once with (salt, variant) cycling through
	// all nine pairs; thorough walks the full grid including salts and variants.
	combos := map[string]bool{}
	off := int(hlib.NewRng(seed, "c06/ecies/off").Intn(9))
	idx := 0
	for ci := range curves {
		for hi := range ehashes {
			for fi := range efmts {
				for mi := range dems {
					var svs []int
					if hlib.Thorough() {
						svs = []int{0, 1, 2, 3, 4, 5, 6, 7, 8}
					} else {
						svs = []int{(idx*7 + off) % 9}
					}
					idx++
					for _, sv := range svs {
						for rep := 0; rep < *hlib.FlagScale; rep++ {
							caseNo++
							tape.next()
							o.Case()
							rng := hlib.NewRng(seed, fmt.Sprintf("c06/ecies/%d", caseNo))
							runECIES(e, rng, ci, hi, fi, mi, sv%3, sv/3, 1)
							combos[fmt.Sprintf("%d/%d/%d/%d/%d/%d", ci, hi, fi, mi, sv%3, sv/3)] = true
						}
					}
				}
			}
		}
	}
	o.Hist["ecies/distinct-parameter-sets"] = len(combos)

	// hybrid/subtle directly: every curve GetCurve admits (P-224 included) x every point format (subtle.go)
	runSubtle(e, seed)
	// HKDF salt length x hash grid and special salt values, both API levels (salts.go)
	runSalts(e, seed)
	// keysets in which a RAW key's ciphertext starts with another member's output prefix (collide.go)
	runCollide(e, seed)
}
