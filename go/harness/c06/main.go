//go:build verif

// placeholder: harness c06 is being written
package main

import "github.com/tink-crypto/tink-go/v2/internal/verifharness/hlib"

func main() {
	o := hlib.Open("c06")
	defer o.Close()
	o.Emit("H hpkeenc X25519 SHA256 AES128GCM R 0 3948cfe0ad1ddb695d780e59077195da6c56506b027329794ab02bca80815c4d 52c4a758a802cd8b936eceea314432798d5baf2d7e9235dc084ab1b9cfa2f736 - -", "ok 37fda3567bdbd628e88668c3c8d7e97d1d1253b6d4ea6d44c150f741f1bf44319c1a9d6c1b6e5f1a8e6d1f0d7f3b5a11", false)
	o.Emit("H xwingpub 00", "x", false)
}
