//go:build verif

// HKDF salts of ECIES-AEAD-HKDF (section SALTS of harness c06).
//
// The salt of ECIES is a parameter of the key (ecies.Parameters.Salt) and an argument of the public
// hybrid/subtle constructors; it is the HMAC key of HKDF-Extract, so its handling depends on the HMAC
// block size of the HKDF hash (64 bytes for SHA-1 / SHA-224 / SHA-256, 128 bytes for SHA-384 /
// SHA-512): shorter salts are zero padded, longer ones are hashed first. This section walks
//
//	salt length {0,1,31,32,33,63,64,65,96,100,127,128,129,200,1000} x every HKDF hash (random salts)
//	special salt values (all-zero, all-0xff, last byte zero, first byte zero) at the lengths around
//	the digest / block sizes x every HKDF hash
//
// through (a) hybrid/subtle directly (NewECIESAEADHKDFHybridEncrypt / Decrypt; P-224 included) and
// (b) key objects (ecies.Parameters{Salt} -> ecies.NewPrivateKey -> key / keyset / serialized keyset /
// generated key -> hybrid.NewHybridEncrypt / Decrypt), with curve, point format, DEM and variant
// rotating (quick) or every curve x point format x path (thorough). Per case:
//
//	1. tink-go encrypts -> the Lean model, given the salt as is, must decrypt to the plaintext
//	   (the line's expected answer is the plaintext itself, independent of tink-go's Decrypt);
//	   tink-go's own Decrypt must return the plaintext too (oracle),
//	2. the Lean model encrypts (two-phase, hlib.Ask) -> tink-go must decrypt to the plaintext,
//	3. a recipient built with a RELATED salt (one zero byte appended, last byte dropped, zero padded
//	   to the block, the digest of the salt, truncated to the block / 64 bytes / the digest size, one
//	   bit flipped, ...) decrypts tink-go's ciphertext: the verdict must be the model's and must be
//	   "accept" exactly when the two salts are the same HMAC key (RFC 2104 key preparation computed
//	   here with the standard library's hash and block size).
//
// Everything is a function of the seed (own stream c06/salts/...), identical in both phases.
package main

import (
	"bytes"
	"crypto/elliptic"
	"crypto/sha1"
	"crypto/sha256"
	"crypto/sha512"
	"fmt"
	"hash"
	"strings"

	"github.com/tink-crypto/tink-go/v2/hybrid/ecies"
	hsubtle "github.com/tink-crypto/tink-go/v2/hybrid/subtle"
	"github.com/tink-crypto/tink-go/v2/insecuresecretdataaccess"
	"github.com/tink-crypto/tink-go/v2/internal/internalapi"
	"github.com/tink-crypto/tink-go/v2/internal/verifharness/hlib"
	"github.com/tink-crypto/tink-go/v2/tink"
)

var saltGridLens = []int{0, 1, 31, 32, 33, 63, 64, 65, 96, 100, 127, 128, 129, 200, 1000}
var saltSpecialLens = []int{1, 20, 32, 64, 65, 128, 129, 200}
var saltKinds = []string{"zeros", "ones", "trailing-zero", "leading-zero"}

func stdHash(hname string) hash.Hash {
	switch hname {
	case "SHA1":
		return sha1.New()
	case "SHA224":
		return sha256.New224()
	case "SHA256":
		return sha256.New()
	case "SHA384":
		return sha512.New384()
	}
	return sha512.New()
}

// hmacKeyBlock: the B-byte HMAC key block of RFC 2104 for a key (keys longer than the block are
// hashed, then zero padded). Two salts are the same HKDF-Extract key iff their blocks are equal.
func hmacKeyBlock(hname string, k []byte) []byte {
	h := stdHash(hname)
	if len(k) > h.BlockSize() {
		h.Write(k)
		k = h.Sum(nil)
	}
	out := make([]byte, h.BlockSize())
	copy(out, k)
	return out
}

func saltValue(rng *hlib.Rng, n int, kind string) []byte {
	switch kind {
	case "zeros":
		return make([]byte, n)
	case "ones":
		return bytes.Repeat([]byte{0xff}, n)
	}
	b := rng.Bytes(n)
	if kind == "random" {
		return b
	}
	for i := range b { // no accidental zero bytes next to the planted one
		if b[i] == 0 {
			b[i] = 0x5a
		}
	}
	switch {
	case n == 0:
	case kind == "trailing-zero":
		b[n-1] = 0
	case kind == "leading-zero":
		b[0] = 0
	}
	return b
}

// relatedSalt returns another salt that has to do with s (kind chosen among the applicable ones).
func relatedSalt(rng *hlib.Rng, hname string, s []byte) (string, []byte) {
	h := stdHash(hname)
	bsz, dsz := h.BlockSize(), h.Size()
	digest := func() []byte { h.Reset(); h.Write(s); return h.Sum(nil) }
	clone := func(n int) []byte { return append([]byte(nil), s[:n]...) }
	type alt struct {
		kind string
		mk   func() []byte
	}
	alts := []alt{
		{"append-zero", func() []byte { return append(clone(len(s)), 0) }},
		{"digest-of-salt", digest},
	}
	if len(s) == 0 {
		alts = append(alts, alt{"digest-size-zeros", func() []byte { return make([]byte, dsz) }},
			alt{"one-nonzero-byte", func() []byte { return []byte{1} }})
	} else {
		alts = append(alts, alt{"bit-flipped", func() []byte {
			m := clone(len(s))
			m[rng.Intn(len(m))] ^= 1 << uint(rng.Intn(8))
			return m
		}}, alt{"drop-last", func() []byte { return clone(len(s) - 1) }},
			alt{"last-bit-flipped", func() []byte { m := clone(len(s)); m[len(m)-1] ^= 0x80; return m }})
	}
	if len(s) < bsz {
		alts = append(alts, alt{"zero-padded-to-block", func() []byte { return append(clone(len(s)), make([]byte, bsz-len(s))...) }})
	}
	if len(s) > bsz {
		alts = append(alts, alt{"truncated-to-block", func() []byte { return clone(bsz) }})
	}
	if len(s) > 64 && bsz != 64 {
		alts = append(alts, alt{"truncated-to-64", func() []byte { return clone(64) }},
			alt{"sha256-of-salt", func() []byte { d := sha256.Sum256(s); return d[:] }})
	}
	if len(s) > dsz {
		alts = append(alts, alt{"truncated-to-digest-size", func() []byte { return clone(dsz) }})
	}
	if len(s) > 64 && len(s) <= 128 {
		alts = append(alts, alt{"digest-of-salt", digest}) // the region where block sizes 64 / 128 differ: twice as likely
	}
	a := alts[rng.Intn(len(alts))]
	return a.kind, a.mk()
}

type saltCase struct {
	c            *sCurve
	hi, fi, mi   int
	vi           int
	path         string // subtle | key | keyset | proto | generated
	salt         []byte
	kind         string // random | zeros | ones | trailing-zero | leading-zero
	nameRotation int
}

// saltParties builds the sender and the recipient for (path, private scalar d, salt).
func saltParties(k *saltCase, d []byte, id uint32, salt []byte) (tink.HybridEncrypt, tink.HybridDecrypt, error) {
	c, f, dm := k.c, efmts[k.fi], &dems[k.mi]
	hname := ehashes[k.hi].name
	if k.path == "subtle" {
		helper, err := ecies.VerifNewDEMHelper(dm.params())
		if err != nil {
			return nil, nil, fmt.Errorf("DEM helper: %v", err)
		}
		curve, err := hsubtle.GetCurve(c.names[k.nameRotation%len(c.names)])
		if err != nil {
			return nil, nil, fmt.Errorf("GetCurve: %v", err)
		}
		x, y := c.mulBase(d)
		var en *hsubtle.ECIESAEADHKDFHybridEncrypt
		var de *hsubtle.ECIESAEADHKDFHybridDecrypt
		var err1, err2 error
		if p := hlib.Recover(func() {
			en, err1 = hsubtle.NewECIESAEADHKDFHybridEncrypt(&hsubtle.ECPublicKey{Curve: curve, Point: hsubtle.ECPoint{X: x, Y: y}}, salt, hname, f.subtle, helper)
			de, err2 = hsubtle.NewECIESAEADHKDFHybridDecrypt(hsubtle.GetECPrivateKey(curve, d), salt, hname, f.subtle, helper)
		}); p != "" {
			return nil, nil, fmt.Errorf("panic: %s", p)
		}
		if err1 != nil {
			return nil, nil, err1
		}
		return en, de, err2
	}
	params, err := saltParams(k, salt)
	if err != nil {
		return nil, nil, err
	}
	priv, err := ecies.NewPrivateKey(hlib.Secret(d), id, params)
	if err != nil {
		return nil, nil, fmt.Errorf("ecies.NewPrivateKey: %v", err)
	}
	path := k.path
	if path == "generated" { // a second recipient for the same (generated) scalar
		path = "keyset"
	}
	return parties(path, priv, func() (tink.HybridEncrypt, tink.HybridDecrypt, error) {
		pk, _ := priv.PublicKey()
		en, err := ecies.NewHybridEncrypt(pk.(*ecies.PublicKey), internalapi.Token{})
		if err != nil {
			return nil, nil, err
		}
		de, err := ecies.NewHybridDecrypt(priv, internalapi.Token{})
		return en, de, err
	})
}

func saltParams(k *saltCase, salt []byte) (*ecies.Parameters, error) {
	var ct ecies.CurveType
	switch k.c.name {
	case "P256":
		ct = ecies.NISTP256
	case "P384":
		ct = ecies.NISTP384
	case "P521":
		ct = ecies.NISTP521
	default:
		return nil, fmt.Errorf("no ecies.CurveType for %s", k.c.name)
	}
	p, err := ecies.NewParameters(ecies.ParametersOpts{CurveType: ct, HashType: ehashes[k.hi].id, NISTCurvePointFormat: efmts[k.fi].id,
		DEMParameters: dems[k.mi].params(), Salt: salt, Variant: evariants[k.vi]})
	if err != nil {
		return nil, fmt.Errorf("ecies.NewParameters: %v", err)
	}
	if !bytes.Equal(p.Salt(), salt) {
		return nil, fmt.Errorf("ecies.Parameters.Salt() is not the salt given (%d bytes instead of %d)", len(p.Salt()), len(salt))
	}
	return p, nil
}

func runSaltCase(e *env, rng *hlib.Rng, k *saltCase) {
	o := e.o
	c, f, dm := k.c, efmts[k.fi], &dems[k.mi]
	hname := ehashes[k.hi].name
	salt := k.salt
	vcode, id := "R", uint32(0)
	if k.path != "subtle" {
		vcode = vcodes[k.vi]
		if k.vi != 2 {
			id = rng.KeyID()
		}
	}
	what := fmt.Sprintf("ECIES %s %s %s %s %s id=%d via %s, %s salt of %d bytes", c.name, hname, f.subtle, dm.name, vcode, id, k.path, k.kind, len(salt))
	var d []byte
	var enc tink.HybridEncrypt
	var dec tink.HybridDecrypt
	var err error
	if k.path == "generated" {
		params, perr := saltParams(k, salt)
		if perr != nil {
			o.Violate("%v (%s)", perr, what)
			return
		}
		h, gk, gerr := generate(params)
		if gerr != nil {
			o.Violate("key generation from parameters failed (%s): %v", what, gerr)
			return
		}
		priv := gk.(*ecies.PrivateKey)
		id, _ = priv.IDRequirement()
		d = priv.PrivateKeyBytes().Data(insecuresecretdataaccess.Token{})
		if gs := priv.Parameters().(*ecies.Parameters).Salt(); !bytes.Equal(gs, salt) {
			o.Violate("the generated key's parameters carry another salt (%s): %s", what, hlib.Tok(gs))
		}
		enc, dec, err = fromHandle(h)
		what = fmt.Sprintf("ECIES %s %s %s %s %s id=%d via %s, %s salt of %d bytes", c.name, hname, f.subtle, dm.name, vcode, id, k.path, k.kind, len(salt))
	} else {
		d, _ = sScalar(rng, c)
		enc, dec, err = saltParties(k, d, id, salt)
	}
	if err != nil {
		o.Violate("primitive construction failed (%s): %v", what, err)
		return
	}
	opDec, opEnc := "H eciesdec ", "H eciesenc "
	if c.name == "P224" {
		opDec, opEnc = "H seciesdec ", "H seciesenc "
	}
	cfg := func(s []byte) string {
		return fmt.Sprintf("%s %s %s %s %s %s %d", c.name, hname, f.code, dm.model, hlib.Tok(s), vcode, id)
	}
	decLine := func(s, ct, info []byte) string {
		return fmt.Sprintf("%s%s %s %s %s", opDec, cfg(s), hlib.Tok(d), hlib.Tok(ct), hlib.Tok(info))
	}
	sch := &scheme{fam: "salts", label: what}
	o.Count("salts/hash/" + hname)
	o.Count(fmt.Sprintf("salts/len/%04d", len(salt)))
	o.Count("salts/value/" + k.kind)
	o.Count("salts/path/" + k.path)
	o.Count("salts/curve/" + c.name)
	o.Count("salts/format/" + f.code)
	o.Count("salts/dem/" + dm.name)
	o.Count("salts/variant/" + vcode)

	pt := rng.Bytes(rng.MsgLen(64))
	var info []byte
	switch rng.Intn(4) {
	case 0:
	case 1:
		info = rng.Bytes(1 + rng.Intn(16))
	default:
		info = rng.Bytes(rng.MsgLen(100))
	}
	preLen := 0
	if vcode != "R" {
		preLen = 5
	}
	hl := hdrLen(c.curveInfo, f.code)

	// ---- 1. tink-go encrypts, the model (salt as is) must recover the plaintext
	var ct []byte
	if p := hlib.Recover(func() { ct, err = enc.Encrypt(pt, info) }); p != "" {
		e.viol("Encrypt panicked (%s): %s", what, p)
		return
	}
	if err != nil {
		e.viol("Encrypt failed (%s): %v", what, err)
		return
	}
	if len(ct) != preLen+hl+dm.headIV+dm.tagLen+len(pt) {
		e.viol("ciphertext length %d is not prefix+KEM+|pt|+overhead (%s)", len(ct), what)
	}
	back, derr, ok := e.decrypt(sch, dec, "genuine", ct, info)
	if !ok {
		return
	}
	if derr != nil || !bytes.Equal(back, pt) {
		e.viol("Decrypt(Encrypt(pt, info), info) != pt (%s, salt=%s |pt|=%d |info|=%d): %v", what, hlib.Tok(salt), len(pt), len(info), derr)
	}
	o.Count("salts/dir/go-enc>model-dec")
	o.Emit("!"+decLine(salt, ct, info), "ok "+hlib.Tok(pt), true)

	// ---- 2. the model encrypts (ephemeral scalar and DEM nonce chosen here), tink-go decrypts
	eph, _ := sScalar(rng, c)
	rnd := rng.Bytes(dm.rndLen)
	px, py := c.mulBase(d)
	ans := hlib.Ask(fmt.Sprintf("%s%s %s %s %s %s %s", opEnc, cfg(salt), hlib.Tok(elliptic.Marshal(c.ell, px, py)), hlib.Tok(eph), hlib.Tok(rnd), hlib.Tok(pt), hlib.Tok(info)))
	if !hlib.Pre() {
		if !strings.HasPrefix(ans, "ok ") {
			e.viol("the model could not encrypt (%s): %s", what, ans)
		} else {
			mct := hlib.FromTok(ans[3:])
			if b3, e3, ok := e.decrypt(sch, dec, "model-made", mct, info); ok {
				if e3 != nil || !bytes.Equal(b3, pt) {
					e.viol("tink-go does not decrypt the independent implementation's ciphertext (%s, salt=%s |pt|=%d |info|=%d) ct=%s", what, hlib.Tok(salt), len(pt), len(info), hlib.Tok(mct))
				}
				o.Count("salts/dir/model-enc>go-dec")
				o.Emit("!"+decLine(salt, mct, info), rej(b3, e3), true)
			}
		}
	}

	// ---- 3. a recipient with a related salt: accepted iff it is the same HMAC key
	rkind, salt2 := relatedSalt(rng, hname, salt)
	_, dec2, err := saltParties(k, d, id, salt2)
	if err != nil {
		o.Violate("primitive construction failed (%s; related salt %s): %v", what, rkind, err)
		return
	}
	same := bytes.Equal(hmacKeyBlock(hname, salt), hmacKeyBlock(hname, salt2))
	b4, e4, ok := e.decrypt(sch, dec2, "related-salt", ct, info)
	if !ok {
		return
	}
	verdict := "reject"
	if same {
		verdict = "accept"
	}
	o.Count("salts/related/" + rkind + "/" + verdict)
	if !hlib.Pre() {
		switch {
		case same && (e4 != nil || !bytes.Equal(b4, pt)):
			e.viol("a recipient whose salt is the same HMAC key (%s: %s) does not decrypt (%s, salt=%s): %v", rkind, hlib.Tok(salt2), what, hlib.Tok(salt), e4)
		case !same && e4 == nil:
			e.viol("a recipient with another salt (%s: %s) decrypts the ciphertext (%s, salt=%s)", rkind, hlib.Tok(salt2), what, hlib.Tok(salt))
		}
	}
	o.Emit(decLine(salt2, ct, info), rej(b4, e4), true)
}

// runSalts: the salt length x hash grid and the special salt values.
func runSalts(e *env, seed uint64) {
	o := e.o
	off := hlib.NewRng(seed, "c06/salts").Intn(1 << 12)
	keyCurves := sCurves[1:]
	keyPaths := []string{"keyset", "key", "proto", "keyset", "generated", "proto", "key"}
	qs, qk := off, off/3 // rotation counters of the two API levels
	caseNo := 0
	cells := map[string]bool{}
	run := func(k *saltCase, n int) {
		for rep := 0; rep < *hlib.FlagScale; rep++ {
			caseNo++
			tape.next()
			o.Case()
			rng := hlib.NewRng(seed, fmt.Sprintf("c06/salts/%d", caseNo))
			k.salt = saltValue(rng, n, k.kind)
			if n == 0 && rng.Bool() {
				k.salt = nil
			}
			runSaltCase(e, rng, k)
			cells[fmt.Sprintf("%s/%d/%s", ehashes[k.hi].name, n, k.kind)] = true
		}
	}
	// rotating: the next (curve, format, DEM, variant[, path]) of a mixed-radix counter
	nextSubtle := func(hi int, kind string) *saltCase {
		q := qs
		qs++
		return &saltCase{c: sCurves[q%4], fi: (q / 4) % 3, mi: (q / 12) % 5, vi: 2, hi: hi, path: "subtle", kind: kind, nameRotation: q / 60}
	}
	nextKey := func(hi int, kind string) *saltCase {
		q := qk
		qk++
		return &saltCase{c: keyCurves[q%3], fi: (q / 3) % 3, mi: (q / 9) % 5, vi: (q / 45) % 3, hi: hi, path: keyPaths[q%len(keyPaths)], kind: kind}
	}
	every := func(hi int, kind string, n int) {
		for ci, c := range sCurves {
			for fi := range efmts {
				q := qs
				qs++
				run(&saltCase{c: c, fi: fi, mi: q % 5, vi: 2, hi: hi, path: "subtle", kind: kind, nameRotation: q / 5}, n)
				if ci == 0 {
					continue
				}
				for _, path := range []string{"key", "keyset", "proto", "generated"} {
					q = qk
					qk++
					run(&saltCase{c: c, fi: fi, mi: q % 5, vi: (q / 5) % 3, hi: hi, path: path, kind: kind}, n)
				}
			}
		}
	}
	for _, n := range saltGridLens {
		for hi := range ehashes {
			if hlib.Thorough() {
				every(hi, "random", n)
				continue
			}
			run(nextSubtle(hi, "random"), n)
			run(nextKey(hi, "random"), n)
		}
	}
	for li, n := range saltSpecialLens {
		for hi := range ehashes {
			for ki, kind := range saltKinds {
				switch {
				case hlib.Thorough():
					for i := 0; i < 4; i++ {
						run(nextSubtle(hi, kind), n)
					}
					for i := 0; i < 3; i++ {
						run(nextKey(hi, kind), n)
					}
				case ki >= 2 && (li+hi+ki)%2 == 0: // quick: one of trailing-zero / leading-zero per cell
				case ki >= 2 && ((li+hi+ki)/2)%2 == 0, ki < 2 && (li+hi+ki)%2 == 0:
					run(nextSubtle(hi, kind), n)
				default:
					run(nextKey(hi, kind), n)
				}
			}
		}
	}
	o.Hist["salts/distinct-hash-length-value-cells"] = len(cells)
}
