//go:build verif

// hybrid/subtle driven directly (section SUBTLE of harness c06).
//
// ecies.Parameters only admits P-256 / P-384 / P-521, but the public hybrid/subtle API also admits
// NIST P-224 (subtle.GetCurve), whose prime is 1 mod 4. For EVERY curve GetCurve admits (every name
// string) x every point format (UNCOMPRESSED, COMPRESSED, DO_NOT_USE_CRUNCHY_UNCOMPRESSED):
//
//	codec  PointEncode / PointDecode on structured points (G, 2G, (n-1)G, coordinates with leading zero
//	       bytes, both y parities) and random points: byte for byte equal to crypto/elliptic's
//	       Marshal / MarshalCompressed, decoding crypto/elliptic's encodings gives the same (x, y);
//	       invalid encodings (length, first byte, x >= p, x without a square root, off-curve points,
//	       (0,0)) are rejected. Oracles: crypto/elliptic (Unmarshal / UnmarshalCompressed), an own
//	       big.Int curve-equation check, and the Lean model (`H sptenc` / `H sptdec` lines).
//	dh     GetECPrivateKey, GenerateECDHKeyPair, ComputeSharedSecret against crypto/elliptic and the
//	       model (`H spub` / `H sdh`), including d = 0, d = n and off-curve peers.
//	kem    the ECIES-HKDF KEM through NewECIESAEADHKDFHybridEncrypt / Decrypt with a spying DEM helper
//	       (records the symmetric key the KEM hands to the DEM, identity AEAD): encapsulate ->
//	       decapsulate agreement, an independent sender (crypto/elliptic + crypto/hkdf), the negated
//	       point, invalid KEM bytes; every derived key is compared with the model (`H skem`).
//	ecies  the full round engine of main.go (tink-go encrypts -> model decrypts, model encrypts ->
//	       tink-go decrypts, mutations) over the subtle constructors with the production DEM helper;
//	       P-256/384/521 reuse the `H eciesdec` / `H eciesenc` ops, P-224 uses `H seciesdec` /
//	       `H seciesenc` (TinkVerif/Prim/EcP224.lean: curve constants + Tonelli-Shanks).
//
// No hlib.Ask outside the round engine; everything is a function of the seed in both phases.
package main

import (
	"bytes"
	"crypto/elliptic"
	"crypto/hkdf"
	"crypto/sha1"
	"crypto/sha256"
	"crypto/sha512"
	"fmt"
	"math/big"

	"github.com/tink-crypto/tink-go/v2/hybrid/ecies"
	hsubtle "github.com/tink-crypto/tink-go/v2/hybrid/subtle"
	"github.com/tink-crypto/tink-go/v2/internal/verifharness/hlib"
	"github.com/tink-crypto/tink-go/v2/tink"
)

// sCurve: a curve of hybrid/subtle with every name GetCurve admits for it (elliptic_curves.go).
type sCurve struct {
	*curveInfo
	names []string
}

var sCurves = []*sCurve{
	{&curveInfo{"P224", elliptic.P224(), nil, 28}, []string{"secp224r1", "NIST_P224", "P-224"}},
	{curves[0], []string{"secp256r1", "NIST_P256", "P-256", "EllipticCurveType_NIST_P256"}},
	{curves[1], []string{"secp384r1", "NIST_P384", "P-384", "EllipticCurveType_NIST_P384"}},
	{curves[2], []string{"secp521r1", "NIST_P521", "P-521", "EllipticCurveType_NIST_P521"}},
}

type sFmt struct {
	code   string
	subtle string
}

// ---------------------------------------------------------------- references (crypto/elliptic, big.Int)

func sScalar(rng *hlib.Rng, c *sCurve) ([]byte, string) {
	n := c.ell.Params().N
	for {
		b := make([]byte, c.bl)
		kind := "random"
		switch rng.Intn(16) {
		case 0:
			b[c.bl-1] = 1
			kind = "one"
		case 1:
			new(big.Int).Sub(n, big.NewInt(1)).FillBytes(b)
			kind = "n-1"
		case 2:
			copy(b, rng.Bytes(c.bl))
			b[0] = 0
			if c.bl == 66 {
				b[1] = 0
			}
			kind = "leading-zero"
		case 3:
			copy(b[c.bl-2:], rng.Bytes(2))
			kind = "small"
		default:
			copy(b, rng.Bytes(c.bl))
			if c.bl == 66 {
				b[0] &= 1
			}
		}
		v := new(big.Int).SetBytes(b)
		if v.Sign() > 0 && v.Cmp(n) < 0 {
			return b, kind
		}
	}
}

func (c *sCurve) mulBase(d []byte) (x, y *big.Int) { return c.ell.ScalarBaseMult(d) }

// onCurveBig: 0 <= x, y < p and y^2 = x^3 - 3x + b (mod p), with math/big only.
func (c *sCurve) onCurveBig(x, y *big.Int) bool {
	p := c.ell.Params().P
	if x == nil || y == nil || x.Sign() < 0 || y.Sign() < 0 || x.Cmp(p) >= 0 || y.Cmp(p) >= 0 {
		return false
	}
	return new(big.Int).Mod(new(big.Int).Mul(y, y), p).Cmp(c.rhs(x)) == 0
}

func (c *sCurve) rhs(x *big.Int) *big.Int {
	p := c.ell.Params().P
	r := new(big.Int).Mul(x, x)
	r.Mul(r, x)
	r.Sub(r, new(big.Int).Mul(big.NewInt(3), x))
	r.Add(r, c.ell.Params().B)
	return r.Mod(r, p)
}

// refEncode: crypto/elliptic's encoding of an on-curve point in format U / C / L.
func (c *sCurve) refEncode(code string, x, y *big.Int) []byte {
	switch code {
	case "C":
		return elliptic.MarshalCompressed(c.ell, x, y)
	case "L":
		return elliptic.Marshal(c.ell, x, y)[1:]
	}
	return elliptic.Marshal(c.ell, x, y)
}

// refDecode: crypto/elliptic's verdict on an encoding in format U / C / L.
func (c *sCurve) refDecode(code string, e []byte) (x, y *big.Int, ok bool) {
	switch code {
	case "U":
		if len(e) != 2*c.bl+1 || e[0] != 4 {
			return nil, nil, false
		}
		x, y = elliptic.Unmarshal(c.ell, e)
	case "L":
		if len(e) != 2*c.bl {
			return nil, nil, false
		}
		x, y = elliptic.Unmarshal(c.ell, append([]byte{4}, e...))
	case "C":
		if len(e) != c.bl+1 || (e[0] != 2 && e[0] != 3) {
			return nil, nil, false
		}
		x, y = elliptic.UnmarshalCompressed(c.ell, e)
	}
	if x == nil {
		return nil, nil, false
	}
	if !c.onCurveBig(x, y) {
		panic("crypto/elliptic decoded a point that fails the curve equation")
	}
	return x, y, true
}

func (c *sCurve) fixed(v *big.Int) string {
	if v == nil {
		return "nil"
	}
	if v.Sign() < 0 || v.BitLen() > 8*c.bl {
		return "oversize:" + v.Text(16)
	}
	return hlib.Tok(v.FillBytes(make([]byte, c.bl)))
}

func natTok(v *big.Int) string { return hlib.Tok(v.Bytes()) }

type sPoint struct {
	kind string
	x, y *big.Int
}

var sPointCache = map[string][]sPoint{}

// structured returns the structured points of a curve (computed once per curve): small multiples of
// G, (n-1)G, (n-2)G and points whose x / y coordinate is shorter than the field size.
func (c *sCurve) structured(rng *hlib.Rng) []sPoint {
	if ps, ok := sPointCache[c.name]; ok {
		return ps
	}
	n := c.ell.Params().N
	var ps []sPoint
	add := func(kind string, d *big.Int) {
		x, y := c.mulBase(d.FillBytes(make([]byte, c.bl)))
		ps = append(ps, sPoint{kind, x, y})
	}
	add("G", big.NewInt(1))
	add("2G", big.NewInt(2))
	add("3G", big.NewInt(3))
	add("(n-1)G", new(big.Int).Sub(n, big.NewInt(1)))
	add("(n-2)G", new(big.Int).Sub(n, big.NewInt(2)))
	// coordinates with leading zero bytes: P-521 coordinates fill 65 of the 66 bytes half of the time,
	// there "short" means at most 64 bytes
	short := c.bl - 1
	if c.bl == 66 {
		short = 64
	}
	r := hlib.NewRng(rng.U64(), "c06/subtle/short/"+c.name)
	needX, needY := true, true
	for i := 0; i < 6000 && (needX || needY); i++ {
		d := r.Bytes(c.bl)
		if c.bl == 66 {
			d[0] &= 1
		}
		if v := new(big.Int).SetBytes(d); v.Sign() == 0 || v.Cmp(n) >= 0 {
			continue
		}
		x, y := c.mulBase(d)
		if needX && len(x.Bytes()) <= short {
			ps = append(ps, sPoint{"x-leading-zero", x, y})
			needX = false
		} else if needY && len(y.Bytes()) <= short {
			ps = append(ps, sPoint{"y-leading-zero", x, y})
			needY = false
		}
	}
	sPointCache[c.name] = ps
	return ps
}

// ---------------------------------------------------------------- GetCurve

func subtleNames(o *hlib.Out) {
	for _, c := range sCurves {
		for _, nm := range c.names {
			got, err := hsubtle.GetCurve(nm)
			if err != nil || got == nil || got.Params().Name != c.ell.Params().Name || got.Params().P.Cmp(c.ell.Params().P) != 0 {
				o.Violate("subtle.GetCurve(%q) does not return %s: %v", nm, c.ell.Params().Name, err)
			}
			o.Count("subtle/GetCurve/" + c.name)
		}
	}
	for _, nm := range []string{"", "P-225", "p-256", "secp256k1", "X25519", "CURVE25519", "NIST_P192", "EllipticCurveType_NIST_P224",
		"UNKNOWN_CURVE", "P-256 ", "secp224k1"} {
		if got, err := hsubtle.GetCurve(nm); err == nil {
			o.Violate("subtle.GetCurve(%q) admits an unknown name: %v", nm, got.Params().Name)
		}
		o.Count("subtle/GetCurve/rejected-name")
	}
}

// ---------------------------------------------------------------- codec

// checkDecode runs subtle.PointDecode on e and compares with crypto/elliptic, the curve equation and
// the model.
func checkDecode(o *hlib.Out, c *sCurve, f sFmt, curve elliptic.Curve, e []byte, what string) (x, y *big.Int, ok bool) {
	var pt *hsubtle.ECPoint
	var err error
	if p := hlib.Recover(func() { pt, err = hsubtle.PointDecode(curve, f.subtle, e) }); p != "" {
		o.Violate("subtle.PointDecode panicked (%s %s, %s): %s e=%s", c.name, f.subtle, what, p, hlib.Tok(e))
		return nil, nil, false
	}
	rx, ry, rok := c.refDecode(f.code, e)
	res := "reject"
	if err == nil {
		if pt == nil || pt.X == nil || pt.Y == nil {
			o.Violate("subtle.PointDecode returned neither a point nor an error (%s %s, %s) e=%s", c.name, f.subtle, what, hlib.Tok(e))
			return nil, nil, false
		}
		if !c.onCurveBig(pt.X, pt.Y) {
			o.Violate("subtle.PointDecode accepted an encoding (%s) and returned a point that is not on %s (%s): e=%s x=%s y=%s",
				what, c.name, f.subtle, hlib.Tok(e), pt.X.Text(16), pt.Y.Text(16))
		}
		res = "ok " + c.fixed(pt.X) + " " + c.fixed(pt.Y)
		x, y, ok = pt.X, pt.Y, true
	}
	switch {
	case err == nil && !rok:
		o.Violate("subtle.PointDecode accepted an invalid %s %s encoding (%s) that crypto/elliptic rejects: e=%s", c.name, f.subtle, what, hlib.Tok(e))
	case err != nil && rok:
		o.Violate("subtle.PointDecode rejected a valid %s %s encoding (%s): %v e=%s", c.name, f.subtle, what, err, hlib.Tok(e))
	case err == nil && (pt.X.Cmp(rx) != 0 || pt.Y.Cmp(ry) != 0):
		o.Violate("subtle.PointDecode decoded a %s %s encoding (%s) to another point than crypto/elliptic: e=%s got y=%s want y=%s",
			c.name, f.subtle, what, hlib.Tok(e), pt.Y.Text(16), ry.Text(16))
	}
	o.Count("subtle/decode/" + f.code + "/" + what)
	if err == nil {
		o.Count("subtle/decode-verdict/accept")
	} else {
		o.Count("subtle/decode-verdict/reject")
	}
	o.Emit("!H sptdec "+c.name+" "+f.code+" "+hlib.Tok(e), res, true)
	return
}

// checkEncode runs subtle.PointEncode on (x, y) (non-negative) and compares with crypto/elliptic and
// the model.
func checkEncode(o *hlib.Out, c *sCurve, f sFmt, curve elliptic.Curve, x, y *big.Int, what string) []byte {
	var enc []byte
	var err error
	if p := hlib.Recover(func() { enc, err = hsubtle.PointEncode(curve, f.subtle, hsubtle.ECPoint{X: x, Y: y}) }); p != "" {
		o.Violate("subtle.PointEncode panicked (%s %s, %s): %s x=%s y=%s", c.name, f.subtle, what, p, x.Text(16), y.Text(16))
		return nil
	}
	valid := c.onCurveBig(x, y)
	res := "reject"
	if err == nil {
		res = "ok " + hlib.Tok(enc)
	}
	switch {
	case err == nil && !valid:
		o.Violate("subtle.PointEncode encoded a point that is not on %s (%s, %s): x=%s y=%s", c.name, f.subtle, what, x.Text(16), y.Text(16))
	case err != nil && valid:
		o.Violate("subtle.PointEncode rejected a point of %s (%s, %s): %v x=%s y=%s", c.name, f.subtle, what, err, x.Text(16), y.Text(16))
	case err == nil:
		if want := c.refEncode(f.code, x, y); !bytes.Equal(enc, want) {
			o.Violate("subtle.PointEncode(%s, %s) differs from crypto/elliptic's encoding (%s): got %s want %s", c.name, f.subtle, what, hlib.Tok(enc), hlib.Tok(want))
		}
	}
	o.Count("subtle/encode/" + f.code + "/" + what)
	o.Emit("!H sptenc "+c.name+" "+f.code+" "+natTok(x)+" "+natTok(y), res, true)
	if err != nil {
		return nil
	}
	return enc
}

// smallAbscissa returns the least x0 >= from such that x0 is the abscissa of a curve point, with one y.
func (c *sCurve) smallAbscissa(from int64) (*big.Int, *big.Int) {
	p := c.ell.Params().P
	for i := from; ; i++ {
		x := big.NewInt(i)
		if y := new(big.Int).ModSqrt(c.rhs(x), p); y != nil && c.onCurveBig(x, y) {
			return x, y
		}
	}
}

// nonResidueX returns a random x < p for which x^3 - 3x + b has no square root.
func (c *sCurve) nonResidueX(rng *hlib.Rng) *big.Int {
	p := c.ell.Params().P
	for {
		x := new(big.Int).SetBytes(rng.Bytes(c.bl))
		x.Mod(x, p)
		if big.Jacobi(c.rhs(x), p) == -1 {
			return x
		}
	}
}

func (c *sCurve) fits(v *big.Int) bool { return v.Sign() >= 0 && v.BitLen() <= 8*c.bl }

// rawEnc encodes arbitrary (possibly invalid) coordinates that fit the coordinate size.
func (c *sCurve) rawEnc(code string, x, y *big.Int, yOdd bool) []byte {
	xb := x.FillBytes(make([]byte, c.bl))
	switch code {
	case "C":
		t := byte(2)
		if yOdd {
			t = 3
		}
		return append([]byte{t}, xb...)
	case "L":
		return append(xb, y.FillBytes(make([]byte, c.bl))...)
	}
	return append(append([]byte{4}, xb...), y.FillBytes(make([]byte, c.bl))...)
}

// invalidEncodings: candidates that must be rejected (a few of them may be valid by coincidence: the
// references decide). All have to do with the point (x, y).
func (c *sCurve) invalidEncodings(rng *hlib.Rng, code string, x, y *big.Int) []hlib.Mut {
	p := c.ell.Params().P
	good := c.refEncode(code, x, y)
	clone := func() []byte { return append([]byte(nil), good...) }
	var ms []hlib.Mut
	add := func(kind string, b []byte) { ms = append(ms, hlib.Mut{Kind: kind, Data: b}) }
	// lengths
	add("len-empty", []byte{})
	add("len-one", good[:1])
	add("len-minus-1", good[:len(good)-1])
	add("len-drop-first", good[1:])
	add("len-plus-1", append(clone(), 0))
	add("len-zero-prepended", append([]byte{0}, good...))
	for _, oc := range []string{"U", "C", "L"} {
		if oc != code {
			add("other-format-"+oc, c.refEncode(oc, x, y))
		}
	}
	// first byte
	if code != "L" {
		for _, t := range []byte{0, 1, 2, 3, 4, 5, 6, 7, 0x84, 0xff} {
			if t == good[0] || (code == "C" && (t == 2 || t == 3)) {
				continue
			}
			m := clone()
			m[0] = t
			add("first-byte", m)
		}
	}
	one := big.NewInt(1)
	yOdd := y.Bit(0) == 1
	x0, y0 := c.smallAbscissa(0)
	x1, y1 := c.smallAbscissa(x0.Int64() + 1)
	add("valid-small-x", c.rawEnc(code, x0, y0, y0.Bit(0) == 1)) // a genuine point with many leading zeros
	add("valid-small-x", c.rawEnc(code, x1, new(big.Int).Sub(p, y1), y1.Bit(0) == 0))
	// x out of range
	add("x-is-p", c.rawEnc(code, p, y, yOdd))
	if xp := new(big.Int).Add(x0, p); c.fits(xp) {
		add("x-plus-p", c.rawEnc(code, xp, y0, y0.Bit(0) == 1))
	}
	if xp := new(big.Int).Add(x, p); c.fits(xp) {
		add("x-plus-p", c.rawEnc(code, xp, y, yOdd))
	}
	allFF := new(big.Int).Sub(new(big.Int).Lsh(one, uint(8*c.bl)), one)
	add("x-all-ff", c.rawEnc(code, allFF, y, yOdd))
	// x without a square root of x^3-3x+b
	nr := c.nonResidueX(rng)
	add("x-non-residue", c.rawEnc(code, nr, y, false))
	add("x-non-residue", c.rawEnc(code, nr, y, true))
	add("x-zero", c.rawEnc(code, new(big.Int), y, yOdd))
	if code != "C" {
		// points off the curve
		add("y-plus-1", c.rawEnc(code, x, new(big.Int).Mod(new(big.Int).Add(y, one), p), false))
		add("y-bit-flipped", c.rawEnc(code, x, new(big.Int).Xor(y, new(big.Int).Lsh(one, uint(rng.Intn(8*c.bl-8)))), false))
		add("x-bit-flipped", c.rawEnc(code, new(big.Int).Xor(x, new(big.Int).Lsh(one, uint(rng.Intn(8*c.bl-8)))), y, false))
		add("x-y-swapped", c.rawEnc(code, y, x, false))
		add("zero-zero", c.rawEnc(code, new(big.Int), new(big.Int), false))
		add("y-zero", c.rawEnc(code, x, new(big.Int), false))
		add("y-is-p", c.rawEnc(code, x, p, false))
		add("y-all-ff", c.rawEnc(code, x, allFF, false))
		if yp := new(big.Int).Add(y, p); c.fits(yp) {
			add("y-plus-p", c.rawEnc(code, x, yp, false))
		}
		add("x-non-residue-y-random", c.rawEnc(code, nr, new(big.Int).Mod(new(big.Int).SetBytes(rng.Bytes(c.bl)), p), false))
		add("random-coordinates", c.rawEnc(code, new(big.Int).Mod(new(big.Int).SetBytes(rng.Bytes(c.bl)), p),
			new(big.Int).Mod(new(big.Int).SetBytes(rng.Bytes(c.bl)), p), false))
	}
	return ms
}

func subtleCodec(o *hlib.Out, rng *hlib.Rng, c *sCurve, f sFmt, curve elliptic.Curve) {
	p := c.ell.Params().P
	pts := append([]sPoint(nil), c.structured(rng)...)
	for i := hlib.N(6, 60); i > 0; i-- {
		d, kind := sScalar(rng, c)
		x, y := c.mulBase(d)
		pts = append(pts, sPoint{"d-" + kind, x, y})
	}
	for _, pt := range pts {
		for neg := 0; neg < 2; neg++ { // the point and its negative: both parities of y
			x, y := pt.x, pt.y
			if neg == 1 {
				if !(f.code == "C" || pt.kind[0] != 'd') {
					continue
				}
				y = new(big.Int).Sub(p, pt.y)
			}
			what := pt.kind
			ref := c.refEncode(f.code, x, y)
			enc := checkEncode(o, c, f, curve, x, y, what)
			gx, gy, ok := checkDecode(o, c, f, curve, ref, what)
			if ok && (gx.Cmp(x) != 0 || gy.Cmp(y) != 0) {
				o.Violate("PointDecode(%s, %s) of crypto/elliptic's encoding of a point (%s) returns another point: e=%s", c.name, f.subtle, what, hlib.Tok(ref))
			}
			if enc != nil && !bytes.Equal(enc, ref) {
				if gx, gy, ok = checkDecode(o, c, f, curve, enc, what+"/own-encoding"); !ok || gx.Cmp(x) != 0 || gy.Cmp(y) != 0 {
					o.Violate("PointDecode(PointEncode(P)) != P (%s, %s, %s)", c.name, f.subtle, what)
				}
			}
		}
	}
	// invalid encodings around a structured and a random point
	for _, pt := range []sPoint{pts[rng.Intn(5)], pts[len(pts)-1]} {
		for _, mu := range c.invalidEncodings(rng, f.code, pt.x, pt.y) {
			checkDecode(o, c, f, curve, mu.Data, mu.Kind)
		}
	}
	// PointEncode of points that are not on the curve
	pt := pts[len(pts)-1]
	one := big.NewInt(1)
	checkEncode(o, c, f, curve, pt.x, new(big.Int).Add(pt.y, one), "off-curve/y+1")
	checkEncode(o, c, f, curve, pt.y, pt.x, "off-curve/swapped")
	checkEncode(o, c, f, curve, new(big.Int), new(big.Int), "off-curve/zero-zero")
	checkEncode(o, c, f, curve, new(big.Int).Add(pt.x, p), pt.y, "off-curve/x+p")
	checkEncode(o, c, f, curve, pt.x, new(big.Int).Add(pt.y, p), "off-curve/y+p")
	checkEncode(o, c, f, curve, pt.x, new(big.Int), "off-curve/y-zero")
	// negative coordinates and unknown formats: no model line, must be errors
	for _, q := range []hsubtle.ECPoint{{X: new(big.Int).Neg(pt.x), Y: pt.y}, {X: pt.x, Y: new(big.Int).Neg(pt.y)}} {
		var err error
		if pn := hlib.Recover(func() { _, err = hsubtle.PointEncode(curve, f.subtle, q) }); pn != "" {
			o.Violate("subtle.PointEncode panicked on a negative coordinate (%s %s): %s", c.name, f.subtle, pn)
		} else if err == nil {
			o.Violate("subtle.PointEncode encoded a point with a negative coordinate (%s %s)", c.name, f.subtle)
		}
		o.Count("subtle/encode/" + f.code + "/negative-coordinate")
	}
	for _, bad := range []string{"", "compressed", "UNKNOWN_FORMAT", f.subtle + " "} {
		for _, code := range []string{"U", "C", "L"} {
			var err1, err2 error
			if pn := hlib.Recover(func() {
				_, err1 = hsubtle.PointEncode(curve, bad, hsubtle.ECPoint{X: pt.x, Y: pt.y})
				_, err2 = hsubtle.PointDecode(curve, bad, c.refEncode(code, pt.x, pt.y))
			}); pn != "" {
				o.Violate("PointEncode / PointDecode panicked on the unknown point format %q: %s", bad, pn)
			} else if err1 == nil || err2 == nil {
				o.Violate("PointEncode / PointDecode accepted the unknown point format %q (%s)", bad, c.name)
			}
		}
		o.Count("subtle/format/unknown-rejected")
	}
}

// ---------------------------------------------------------------- GetECPrivateKey, GenerateECDHKeyPair, ComputeSharedSecret

func subtleDH(o *hlib.Out, rng *hlib.Rng, c *sCurve, curve elliptic.Curve) {
	n := c.ell.Params().N
	sdh := func(d []byte, priv *hsubtle.ECPrivateKey, qx, qy *big.Int, what string) []byte {
		var ss []byte
		var err error
		if p := hlib.Recover(func() { ss, err = hsubtle.ComputeSharedSecret(&hsubtle.ECPoint{X: qx, Y: qy}, priv) }); p != "" {
			o.Violate("subtle.ComputeSharedSecret panicked (%s, %s): %s", c.name, what, p)
			return nil
		}
		res := "reject"
		if err == nil {
			res = "ok " + hlib.Tok(ss)
		}
		o.Count("subtle/dh/" + what)
		o.Emit("!H sdh "+c.name+" "+hlib.Tok(d)+" "+natTok(qx)+" "+natTok(qy), res, true)
		if err != nil {
			return nil
		}
		return ss
	}
	for i := hlib.N(3, 24); i > 0; i-- {
		d, _ := sScalar(rng, c)
		e, _ := sScalar(rng, c)
		var priv, privE *hsubtle.ECPrivateKey
		if p := hlib.Recover(func() { priv, privE = hsubtle.GetECPrivateKey(curve, d), hsubtle.GetECPrivateKey(curve, e) }); p != "" {
			o.Violate("subtle.GetECPrivateKey panicked (%s): %s", c.name, p)
			continue
		}
		px, py := c.mulBase(d)
		qx, qy := c.mulBase(e)
		if priv.PublicKey.Point.X.Cmp(px) != 0 || priv.PublicKey.Point.Y.Cmp(py) != 0 || priv.D.Cmp(new(big.Int).SetBytes(d)) != 0 {
			o.Violate("subtle.GetECPrivateKey(%s, d): public point is not d*G (d=%s)", c.name, hlib.Tok(d))
		}
		o.Emit("!H spub "+c.name+" "+hlib.Tok(d), "ok "+c.fixed(priv.PublicKey.Point.X)+" "+c.fixed(priv.PublicKey.Point.Y), true)
		ss := sdh(d, priv, qx, qy, "valid")
		sx, _ := c.ell.ScalarMult(qx, qy, d)
		if ss == nil || !bytes.Equal(ss, sx.FillBytes(make([]byte, c.bl))) {
			o.Violate("subtle.ComputeSharedSecret(%s) is not the x coordinate of d*Q (d=%s Qx=%s)", c.name, hlib.Tok(d), qx.Text(16))
		}
		if i%3 == 0 { // the other side (commutativity), one more model DH
			if ss2 := sdh(e, privE, px, py, "valid"); !bytes.Equal(ss, ss2) {
				o.Violate("subtle.ComputeSharedSecret(%s): d*(e*G) != e*(d*G) (d=%s e=%s)", c.name, hlib.Tok(d), hlib.Tok(e))
			}
		}
		// peers that are not on the curve
		bad := [][2]*big.Int{{qx, new(big.Int).Add(qy, big.NewInt(1))}, {qy, qx}, {new(big.Int), new(big.Int)},
			{new(big.Int).Add(qx, c.ell.Params().P), qy}}
		b := bad[rng.Intn(len(bad))]
		if ss := sdh(d, priv, b[0], b[1], "peer-off-curve"); ss != nil {
			o.Violate("subtle.ComputeSharedSecret(%s) accepted a peer point that is not on the curve: x=%s y=%s", c.name, b[0].Text(16), b[1].Text(16))
		}
	}
	// d = 0 and d = n: the product is the point at infinity
	qx, qy := c.mulBase(append(make([]byte, c.bl-1), 5))
	for _, d := range [][]byte{make([]byte, c.bl), n.FillBytes(make([]byte, c.bl))} {
		var priv *hsubtle.ECPrivateKey
		if p := hlib.Recover(func() { priv = hsubtle.GetECPrivateKey(curve, d) }); p != "" {
			o.Count("subtle/dh/GetECPrivateKey-panics-on-d=0-mod-n")
			continue
		}
		if ss := sdh(d, priv, qx, qy, "d-is-0-mod-n"); ss != nil {
			o.Violate("subtle.ComputeSharedSecret(%s) returned a secret for d = 0 mod n: %s", c.name, hlib.Tok(ss))
		}
	}
	// GenerateECDHKeyPair
	for i := hlib.N(2, 8); i > 0; i-- {
		var k *hsubtle.ECPrivateKey
		var err error
		if p := hlib.Recover(func() { k, err = hsubtle.GenerateECDHKeyPair(curve) }); p != "" || err != nil || k == nil {
			o.Violate("subtle.GenerateECDHKeyPair(%s) failed: %s %v", c.name, p, err)
			continue
		}
		if k.D.Sign() <= 0 || k.D.Cmp(n) >= 0 {
			o.Violate("subtle.GenerateECDHKeyPair(%s): d is not in [1, n-1]", c.name)
			continue
		}
		d := k.D.FillBytes(make([]byte, c.bl))
		px, py := c.mulBase(d)
		if k.PublicKey.Point.X.Cmp(px) != 0 || k.PublicKey.Point.Y.Cmp(py) != 0 {
			o.Violate("subtle.GenerateECDHKeyPair(%s): public point is not d*G", c.name)
		}
		o.Count("subtle/dh/generated-key")
		o.Emit("!H spub "+c.name+" "+hlib.Tok(d), "ok "+c.fixed(k.PublicKey.Point.X)+" "+c.fixed(k.PublicKey.Point.Y), true)
	}
}

// ---------------------------------------------------------------- KEM (through a spying DEM helper)

type nullAEAD struct{}

func (nullAEAD) Encrypt(pt, ad []byte) ([]byte, error) { return append([]byte{}, pt...), nil }
func (nullAEAD) Decrypt(ct, ad []byte) ([]byte, error) { return append([]byte{}, ct...), nil }

var _ tink.AEAD = nullAEAD{}

// spyDEM records the symmetric key the KEM hands to the DEM; the DEM itself is the identity.
type spyDEM struct {
	size uint32
	last []byte
}

func (s *spyDEM) GetSymmetricKeySize() uint32 { return s.size }
func (s *spyDEM) GetAEADOrDAEAD(k []byte) (any, error) {
	s.last = append([]byte{}, k...)
	return nullAEAD{}, nil
}

func refHKDF(hname string, secret, salt, info []byte, size int) ([]byte, error) {
	switch hname {
	case "SHA1":
		return hkdf.Key(sha1.New, secret, salt, string(info), size)
	case "SHA224":
		return hkdf.Key(sha256.New224, secret, salt, string(info), size)
	case "SHA256":
		return hkdf.Key(sha256.New, secret, salt, string(info), size)
	case "SHA384":
		return hkdf.Key(sha512.New384, secret, salt, string(info), size)
	}
	return hkdf.Key(sha512.New, secret, salt, string(info), size)
}

func subtleKEM(o *hlib.Out, rng *hlib.Rng, c *sCurve, f sFmt, curve elliptic.Curve) {
	hname := ehashes[rng.Intn(len(ehashes))].name
	salt := rng.Bytes(saltLens[rng.Intn(len(saltLens))])
	if len(salt) == 0 && rng.Bool() {
		salt = nil
	}
	info := pickInfo(rng)
	size := rng.Pick(10, 16, 20, 32, 32, 48, 64, 100)
	d, dKind := sScalar(rng, c)
	eph, _ := sScalar(rng, c)
	body := rng.Bytes(rng.Intn(20))
	bad9 := rng.Chance(34)
	hl := hdrLen(c.curveInfo, f.code)
	qx, qy := c.mulBase(d)
	label := fmt.Sprintf("subtle KEM %s %s %s salt=%s size=%d", c.name, hname, f.subtle, hlib.Tok(salt), size)
	spy := &spyDEM{size: uint32(size)}
	var enc *hsubtle.ECIESAEADHKDFHybridEncrypt
	var dec *hsubtle.ECIESAEADHKDFHybridDecrypt
	var err1, err2 error
	if p := hlib.Recover(func() {
		enc, err1 = hsubtle.NewECIESAEADHKDFHybridEncrypt(&hsubtle.ECPublicKey{Curve: curve, Point: hsubtle.ECPoint{X: qx, Y: qy}}, salt, hname, f.subtle, spy)
		dec, err2 = hsubtle.NewECIESAEADHKDFHybridDecrypt(hsubtle.GetECPrivateKey(curve, d), salt, hname, f.subtle, spy)
	}); p != "" || err1 != nil || err2 != nil {
		o.Violate("subtle ECIES constructors failed (%s): %s %v %v", label, p, err1, err2)
		return
	}
	o.Count("subtle/kem/curve/" + c.name)
	o.Count("subtle/kem/format/" + f.code)
	o.Count("subtle/kem/hash/" + hname)
	o.Count("subtle/kem/d/" + dKind)
	o.Count(fmt.Sprintf("subtle/kem/keysize/%d", size))
	line := func(kem []byte, sz int) string {
		return fmt.Sprintf("!H skem %s %s %s %s %s %s %s %d", c.name, hname, f.code, hlib.Tok(salt), hlib.Tok(d), hlib.Tok(kem), hlib.Tok(info), sz)
	}
	// refKey: the key an independent recipient (crypto/elliptic + crypto/hkdf) derives
	refKey := func(kem []byte) []byte {
		x, y, ok := c.refDecode(f.code, kem)
		if !ok {
			return nil
		}
		sx, _ := c.ell.ScalarMult(x, y, d)
		k, err := refHKDF(hname, append(append([]byte{}, kem...), sx.FillBytes(make([]byte, c.bl))...), salt, info, size)
		if err != nil {
			panic(err)
		}
		return k
	}
	// decap: tink-go decapsulates kem (followed by body) and the derived key is compared
	decap := func(kem, body []byte, what string) []byte {
		spy.last = nil
		var pt []byte
		var err error
		ct := append(append([]byte{}, kem...), body...)
		if p := hlib.Recover(func() { pt, err = dec.Decrypt(ct, info) }); p != "" {
			o.Violate("subtle Decrypt panicked on %s KEM bytes (%s): %s kem=%s", what, label, p, hlib.Tok(kem))
			return nil
		}
		want := refKey(kem)
		res := "reject"
		var key []byte
		if err == nil {
			key = spy.last
			res = "ok " + hlib.Tok(key)
			if !bytes.Equal(pt, body) {
				o.Violate("subtle Decrypt does not hand the bytes after the KEM header to the DEM (%s, %s)", label, what)
			}
		}
		switch {
		case err == nil && want == nil:
			o.Violate("subtle Decrypt accepted invalid KEM bytes (%s, %s): kem=%s", what, label, hlib.Tok(kem))
		case err != nil && want != nil:
			o.Violate("subtle Decrypt rejected valid KEM bytes (%s, %s): %v kem=%s", what, label, err, hlib.Tok(kem))
		case err == nil && !bytes.Equal(key, want):
			o.Violate("subtle KEM derives another key than crypto/elliptic + crypto/hkdf (%s, %s): kem=%s got %s want %s", what, label, hlib.Tok(kem), hlib.Tok(key), hlib.Tok(want))
		}
		o.Count("subtle/kem/" + what)
		o.Emit(line(kem, size), res, true)
		return key
	}
	// (a) tink-go encapsulates, tink-go and the references decapsulate
	var ct []byte
	var err error
	if p := hlib.Recover(func() { ct, err = enc.Encrypt(body, info) }); p != "" || err != nil {
		o.Violate("subtle Encrypt failed (%s): %s %v", label, p, err)
	} else if len(ct) != hl+len(body) || !bytes.Equal(ct[hl:], body) {
		o.Violate("subtle Encrypt: ciphertext is not KEM header (%d bytes) || DEM ciphertext (%s): %s", hl, label, hlib.Tok(ct))
	} else {
		k1 := spy.last
		if k2 := decap(ct[:hl], body, "go-encapsulated"); k2 == nil || !bytes.Equal(k1, k2) {
			o.Violate("subtle KEM: decapsulate(encapsulate) gives another key (%s) kem=%s", label, hlib.Tok(ct[:hl]))
		}
		if len(k1) != size {
			o.Violate("subtle KEM: key of %d bytes instead of %d (%s)", len(k1), size, label)
		}
	}
	// (b) an independent sender, (c) the negated point (same DH x coordinate, other KEM bytes)
	ex, ey := c.mulBase(eph)
	k3 := decap(c.refEncode(f.code, ex, ey), body, "independent-sender")
	k4 := decap(c.refEncode(f.code, ex, new(big.Int).Sub(c.ell.Params().P, ey)), body, "negated-point")
	if k3 != nil && k4 != nil && bytes.Equal(k3, k4) {
		o.Violate("subtle KEM: P and -P give the same key, the KEM bytes are not part of the HKDF input (%s)", label)
	}
	// (d) invalid KEM bytes of the right length, and a ciphertext shorter than the header
	for _, mu := range c.invalidEncodings(rng, f.code, ex, ey) {
		if len(mu.Data) != hl || (!hlib.Thorough() && !rng.Chance(60)) {
			continue
		}
		decap(mu.Data, body, "invalid/"+mu.Kind)
	}
	good := c.refEncode(f.code, ex, ey)
	decap(good[:hl-1], nil, "invalid/short-ciphertext")
	// (e) a key size HKDF refuses
	if bad9 {
		spy9 := &spyDEM{size: 9}
		e9, err1 := hsubtle.NewECIESAEADHKDFHybridEncrypt(&hsubtle.ECPublicKey{Curve: curve, Point: hsubtle.ECPoint{X: qx, Y: qy}}, salt, hname, f.subtle, spy9)
		d9, err2 := hsubtle.NewECIESAEADHKDFHybridDecrypt(hsubtle.GetECPrivateKey(curve, d), salt, hname, f.subtle, spy9)
		if err1 == nil && err2 == nil {
			var erre, errd error
			if p := hlib.Recover(func() {
				_, erre = e9.Encrypt(body, info)
				_, errd = d9.Decrypt(append(append([]byte{}, good...), body...), info)
			}); p != "" {
				o.Violate("subtle ECIES panicked with a 9-byte DEM key (%s): %s", label, p)
			} else {
				if erre == nil {
					o.Violate("subtle Encrypt derived a 9-byte key (HKDF minimum is 10) (%s)", label)
				}
				res := "reject"
				if errd == nil {
					res = "ok " + hlib.Tok(spy9.last)
				}
				o.Count("subtle/kem/key-size-9")
				o.Emit(line(good, 9), res, true)
			}
		}
	}
}

// ---------------------------------------------------------------- full ECIES through the round engine

func subtleECIES(e *env, rng *hlib.Rng, c *sCurve, f sFmt, curve elliptic.Curve, rounds int) {
	o := e.o
	dm := &dems[rng.Intn(len(dems))]
	hname := ehashes[rng.Intn(len(ehashes))].name
	salt := rng.Bytes(saltLens[rng.Intn(len(saltLens))])
	if len(salt) == 0 && rng.Bool() {
		salt = nil
	}
	suite := fmt.Sprintf("%s %s %s %s %s", c.name, hname, f.code, dm.model, hlib.Tok(salt))
	helper, err := ecies.VerifNewDEMHelper(dm.params())
	if err != nil {
		o.Violate("DEM helper (%s): %v", suite, err)
		return
	}
	pubUnc := func(d []byte) []byte {
		x, y := c.mulBase(d)
		return elliptic.Marshal(c.ell, x, y)
	}
	mk := func(d []byte) (tink.HybridEncrypt, tink.HybridDecrypt, error) {
		x, y := c.mulBase(d)
		var en *hsubtle.ECIESAEADHKDFHybridEncrypt
		var de *hsubtle.ECIESAEADHKDFHybridDecrypt
		var err1, err2 error
		if p := hlib.Recover(func() {
			en, err1 = hsubtle.NewECIESAEADHKDFHybridEncrypt(&hsubtle.ECPublicKey{Curve: curve, Point: hsubtle.ECPoint{X: x, Y: y}}, salt, hname, f.subtle, helper)
			de, err2 = hsubtle.NewECIESAEADHKDFHybridDecrypt(hsubtle.GetECPrivateKey(curve, d), salt, hname, f.subtle, helper)
		}); p != "" {
			return nil, nil, fmt.Errorf("panic: %s", p)
		}
		if err1 != nil {
			return nil, nil, err1
		}
		return en, de, err2
	}
	d, dKind := sScalar(rng, c)
	dNeg := negScalar(c.curveInfo, d)
	d2, _ := sScalar(rng, c)
	for bytes.Equal(d2, d) || bytes.Equal(d2, dNeg) {
		d2, _ = sScalar(rng, c)
	}
	enc, dec, err := mk(d)
	if err != nil {
		o.Violate("subtle ECIES constructors failed (%s): %v", suite, err)
		return
	}
	enc2, dec2, err := mk(d2)
	if err != nil {
		o.Violate("subtle ECIES constructors failed (%s, other key): %v", suite, err)
		return
	}
	_, decNeg, err := mk(dNeg)
	if err != nil {
		o.Violate("subtle ECIES constructors failed (%s, n-d): %v", suite, err)
		return
	}
	pub := pubUnc(d)
	o.Count("subtle/ecies/curve/" + c.name)
	o.Count("subtle/ecies/format/" + f.code)
	o.Count("subtle/ecies/hash/" + hname)
	o.Count("subtle/ecies/dem/" + dm.name)
	o.Count("subtle/ecies/d/" + dKind)
	hl := hdrLen(c.curveInfo, f.code)
	cfg := suite + " R 0"
	opDec, opEnc := "H eciesdec ", "H eciesenc "
	if c.name == "P224" { // not a curve of the HPKE / ecies.Parameters ops: Prim/EcP224.lean
		opDec, opEnc = "H seciesdec ", "H seciesenc "
	}
	// toUnc: the KEM header of a genuine ciphertext as an uncompressed point (crypto/elliptic)
	toUnc := func(kem []byte) []byte {
		x, y, ok := c.refDecode(f.code, kem)
		if !ok {
			return nil
		}
		return elliptic.Marshal(c.ell, x, y)
	}
	s := &scheme{fam: "subtle-ecies", label: "subtle ECIES " + cfg, costly: true, enc: enc, dec: dec, dec2: dec2, decNeg: decNeg, negEquivalent: true,
		preLen: 0, hdrLen: hl, ovh: dm.headIV + dm.tagLen,
		bounds: func(n int) []int {
			b := []int{hl + dm.headIV - 1, hl + dm.headIV}
			if dm.tagLen > 0 {
				b = append(b, n-dm.tagLen, n-dm.tagLen-1)
			}
			return b
		},
		decLine: func(who int, ct, info []byte) string {
			x := d
			if who == 1 {
				x = d2
			} else if who == 2 {
				x = dNeg
			}
			return fmt.Sprintf("%s%s %s %s %s", opDec, cfg, hlib.Tok(x), hlib.Tok(ct), hlib.Tok(info))
		},
		askLine: func(rng *hlib.Rng, pt, info []byte) string {
			eph, _ := sScalar(rng, c)
			rnd := rng.Bytes(dm.rndLen)
			return fmt.Sprintf("%s%s %s %s %s %s %s", opEnc, cfg, hlib.Tok(pub), hlib.Tok(eph), hlib.Tok(rnd), hlib.Tok(pt), hlib.Tok(info))
		},
	}
	s.special = func(rng *hlib.Rng, ct, pt, info []byte) []hlib.Mut {
		var ms []hlib.Mut
		eph, _ := sScalar(rng, c)
		m := append([]byte(nil), ct...)
		copy(m[:hl], encodePoint(c.curveInfo, f.code, pubUnc(eph)))
		ms = append(ms, hlib.Mut{Kind: "kem-other-valid", Data: m})
		unc := toUnc(ct[:hl])
		if unc != nil {
			m = append([]byte(nil), ct...)
			copy(m[:hl], encodePoint(c.curveInfo, f.code, negate(c.curveInfo, unc)))
			ms = append(ms, hlib.Mut{Kind: "kem-negated-point", Data: m})
		}
		m = append([]byte(nil), ct...)
		copy(m[:hl], encodePoint(c.curveInfo, f.code, pub))
		ms = append(ms, hlib.Mut{Kind: "kem-is-recipient-key", Data: m})
		if f.code != "L" {
			m = append([]byte(nil), ct...)
			m[0] = byte(rng.Pick(0, 2, 3, 4, 5, 6, 7))
			if m[0] != ct[0] {
				ms = append(ms, hlib.Mut{Kind: "kem-format-byte", Data: m})
			}
		}
		m = append([]byte(nil), ct...)
		xo := hl - c.bl
		if f.code != "C" {
			xo = hl - 2*c.bl
		}
		c.ell.Params().P.FillBytes(m[xo : xo+c.bl])
		ms = append(ms, hlib.Mut{Kind: "kem-x-is-p", Data: m})
		if f.code == "C" {
			m = append([]byte(nil), ct...)
			c.nonResidueX(rng).FillBytes(m[1:hl])
			ms = append(ms, hlib.Mut{Kind: "kem-x-non-residue", Data: m})
		}
		for _, of := range []string{"U", "C", "L"} {
			if of != f.code && unc != nil {
				m = append(append([]byte(nil), encodePoint(c.curveInfo, of, unc)...), ct[hl:]...)
				ms = append(ms, hlib.Mut{Kind: "kem-other-format", Data: m})
			}
		}
		if ct2, err := enc.Encrypt(pt, info); err == nil && len(ct2) == len(ct) {
			m = append([]byte(nil), ct2...)
			copy(m[:hl], ct[:hl])
			ms = append(ms, hlib.Mut{Kind: "payload-other-valid", Data: m})
		}
		if ct3, err := enc2.Encrypt(pt, info); err == nil {
			ms = append(ms, hlib.Mut{Kind: "for-other-recipient", Data: ct3})
		}
		return ms
	}
	for r := 0; r < rounds; r++ {
		e.round(rng, s)
	}
}

// ---------------------------------------------------------------- entry

// runSubtle: every curve subtle.GetCurve admits x every point format. Identical in the pre and the
// main phase (the only hlib.Ask calls are the round engine's, whose inputs depend on the seed only).
func runSubtle(e *env, seed uint64) {
	o := e.o
	tape.next()
	o.Case()
	subtleNames(o)
	combos := 0
	for ci, c := range sCurves {
		for fi, ef := range efmts {
			f := sFmt{ef.code, ef.subtle}
			tape.next()
			o.Case()
			rng := hlib.NewRng(seed, fmt.Sprintf("c06/subtle/%s/%s", c.name, f.code))
			// the curve object comes from GetCurve, cycling through the admitted names
			name := c.names[(ci+fi+int(seed%7))%len(c.names)]
			curve, err := hsubtle.GetCurve(name)
			if err != nil || curve == nil {
				o.Violate("subtle.GetCurve(%q) failed: %v", name, err)
				continue
			}
			o.Count("subtle/curve-name/" + name)
			subtleCodec(o, rng, c, f, curve)
			if fi == 0 || hlib.Thorough() {
				subtleDH(o, rng, c, curve)
			}
			for rep := hlib.N(2, 6); rep > 0; rep-- {
				subtleKEM(o, rng, c, f, curve)
			}
			subtleECIES(e, rng, c, f, curve, hlib.N(2, 5))
			combos++
		}
	}
	o.Hist["subtle/distinct-curve-format-pairs"] = combos
}
