//go:build verif

// Section COLLIDE of harness c06: keysets in which a RAW (NO_PREFIX) key's ciphertext starts with the
// output prefix of another member.
//
// The keyset-level HybridDecrypt looks the first five bytes of a ciphertext up in a prefix map, tries
// the keys stored under that prefix and then the RAW keys. With random key ids and random encapsulated
// keys the two buckets are never both non-empty for one ciphertext (probability 2^-40), so the class is
// built on purpose here. KEMs whose encapsulated key starts with an arbitrary byte: HPKE X25519
// (enc = 32 bytes), ECIES with the legacy uncompressed point format (enc = x || y without the 04 byte;
// for P-521 the first byte is always 00 or 01), X-Wing and ML-KEM (first byte of the ML-KEM ciphertext).
//
//   - Go-made: tink-go encrypts to the RAW public key (deterministic tape) until the ciphertext starts
//     with 00 or 01; model-made: an ephemeral scalar whose public value starts with 00 / 01 is searched
//     here with crypto/ecdh and the Lean model produces the ciphertext (hlib.Ask).
//   - The recipient keyset then gets a CRUNCHY (00) / TINK (01) key whose id is ct[1:5]: same key
//     material as the RAW key, fresh key material with the same parameters, or a key of another family
//     (HPKE P-256 / P-384 / X25519, ECIES in every point format); in front of, between or behind the RAW
//     keys; primary or not; enabled or disabled.
//   - Every probe y (the colliding ciphertexts, flipped, other context info, ciphertexts of the prefixed
//     members, those with the prefix stripped, a member's prefix in front of a RAW ciphertext, cuts) is
//     given to each member's single-key primitive (bits) and to the keyset primitive. Oracles: the keyset
//     accepts iff an ENABLED member accepts and returns that member's plaintext; the colliding
//     ciphertexts decrypt to the plaintext the RAW key alone gives; flipped / other info are rejected.
//     Model: `W keys` + `!W acceptb` (prefix-map selection rule over the measured bits); the RAW key's
//     single-key verdict on the colliding ciphertexts is tied to the HPKE / ECIES model by `!H` lines.
//
// X-Wing / ML-KEM ciphertexts are not reproducible (crypto/mlkem draws from the runtime DRBG): those
// keysets are checked by the Go oracles only and write no lines.
package main

import (
	"bytes"
	"crypto/ecdh"
	"encoding/binary"
	"fmt"
	"strings"

	"github.com/tink-crypto/tink-go/v2/hybrid"
	"github.com/tink-crypto/tink-go/v2/hybrid/ecies"
	"github.com/tink-crypto/tink-go/v2/hybrid/hpke"
	"github.com/tink-crypto/tink-go/v2/internal/internalapi"
	"github.com/tink-crypto/tink-go/v2/internal/verifharness/hlib"
	"github.com/tink-crypto/tink-go/v2/key"
	"github.com/tink-crypto/tink-go/v2/keyset"
	"github.com/tink-crypto/tink-go/v2/tink"
)

// cSpec describes one hybrid private key completely (parameters, variant, id, key material).
type cSpec struct {
	fam        string // family token, see famSpec
	isHPKE     bool
	ki, di, ai int // HPKE: indices into kems / kdfs / haeads
	ci, hi, fi int // ECIES: curves / ehashes / efmts
	mi         int // ECIES: dems
	salt       []byte
	vi         int // 0 TINK, 1 CRUNCHY, 2 RAW
	id         uint32
	sk         []byte
}

// cKey is a built key: the single-key primitives and what the model needs.
type cKey struct {
	spec    cSpec
	label   string
	priv    key.Key
	enc     tink.HybridEncrypt
	dec     tink.HybridDecrypt
	prefix  []byte
	det     bool // ciphertexts are a function of the tape (DH KEMs)
	decLine func(ct, info []byte) string
	encLine func(eph, rnd, pt, info []byte) string
	rndLen  int
}

// famSpec draws the parameters of one family: HX / HP256 / HP384 / XW / MK768 / MK1024 = HPKE KEMs, E<format><curve> =
// ECIES (L legacy uncompressed, U uncompressed, C compressed). The encapsulated key of HX, XW, MK*, EL* starts
// with an arbitrary byte.
func famSpec(rng *hlib.Rng, fam string) cSpec {
	s := cSpec{fam: fam}
	hp := func(ki int) {
		s.isHPKE = true
		s.ki, s.di, s.ai = ki, rng.Intn(len(kdfs)), rng.Intn(len(haeads))
	}
	ec := func(ci, fi int) {
		s.ci, s.fi = ci, fi
		s.hi, s.mi = rng.Intn(len(ehashes)), rng.Intn(len(dems))
		s.salt = rng.Bytes(saltLens[rng.Intn(len(saltLens))])
	}
	switch fam {
	case "HX":
		hp(3)
	case "HP256":
		hp(0)
	case "HP384":
		hp(1)
	case "XW":
		hp(4)
	case "MK768":
		hp(5)
	case "MK1024":
		hp(6)
	case "EL256":
		ec(0, 2)
	case "EL384":
		ec(1, 2)
	case "EL521":
		ec(2, 2)
	case "EU256":
		ec(0, 0)
	case "EC256":
		ec(0, 1)
	case "EC384":
		ec(1, 1)
	default:
		panic("unknown family " + fam)
	}
	return s
}

func (s cSpec) freshSK(rng *hlib.Rng) []byte {
	if s.isHPKE {
		k := &kems[s.ki]
		if k.curve != nil {
			d, _ := scalar(rng, k.curve)
			return d
		}
		return rng.Bytes(k.skLen)
	}
	d, _ := scalar(rng, curves[s.ci])
	return d
}

// with returns the same parameters in another variant / with another id / key material.
func (s cSpec) with(vi int, id uint32, sk []byte) cSpec {
	s.vi, s.id, s.sk = vi, id, sk
	if vi == 2 {
		s.id = 0
	}
	return s
}

func (s cSpec) build() (*cKey, error) {
	preLen := 5
	if s.vi == 2 {
		preLen = 0
	}
	if s.isHPKE {
		k := &kems[s.ki]
		suite := fmt.Sprintf("%s %s %s", k.name, kdfs[s.di].name, haeads[s.ai].name)
		params, err := hpke.NewParameters(hpke.ParametersOpts{KEMID: k.id, KDFID: kdfs[s.di].id, AEADID: haeads[s.ai].id, Variant: hvariants[s.vi]})
		if err != nil {
			return nil, fmt.Errorf("hpke.NewParameters(%s): %v", suite, err)
		}
		priv, err := hpke.NewPrivateKey(hlib.Secret(s.sk), s.id, params)
		if err != nil {
			return nil, fmt.Errorf("hpke.NewPrivateKey(%s): %v", suite, err)
		}
		pk, _ := priv.PublicKey()
		en, err := hpke.NewHybridEncrypt(pk.(*hpke.PublicKey), internalapi.Token{})
		if err != nil {
			return nil, err
		}
		de, err := hpke.NewHybridDecrypt(priv, internalapi.Token{})
		if err != nil {
			return nil, err
		}
		sec, err := newHpkeSecret(k, priv)
		if err != nil {
			return nil, err
		}
		cfg := fmt.Sprintf("%s %s %d", suite, vcodes[s.vi], s.id)
		ck := &cKey{spec: s, label: "HPKE " + cfg, priv: priv, enc: en, dec: de, prefix: priv.OutputPrefix(), det: k.dhKEM(),
			decLine: func(ct, info []byte) string {
				return fmt.Sprintf("H hpkedec %s %s %s %s %s", cfg, hlib.Tok(sec.sk), hlib.Tok(ct), hlib.Tok(info), sec.aux(ct, preLen))
			}}
		if k.dhKEM() {
			ck.encLine = func(eph, rnd, pt, info []byte) string {
				return fmt.Sprintf("H hpkeenc %s %s %s %s %s", cfg, hlib.Tok(sec.pub), hlib.Tok(eph), hlib.Tok(pt), hlib.Tok(info))
			}
		}
		return ck, nil
	}
	c := curves[s.ci]
	dm := &dems[s.mi]
	f := efmts[s.fi]
	suite := fmt.Sprintf("%s %s %s %s %s", c.name, ehashes[s.hi].name, f.code, dm.model, hlib.Tok(s.salt))
	params, err := ecies.NewParameters(ecies.ParametersOpts{CurveType: ecurves[s.ci], HashType: ehashes[s.hi].id, NISTCurvePointFormat: f.id,
		DEMParameters: dm.params(), Salt: s.salt, Variant: evariants[s.vi]})
	if err != nil {
		return nil, fmt.Errorf("ecies.NewParameters(%s): %v", suite, err)
	}
	priv, err := ecies.NewPrivateKey(hlib.Secret(s.sk), s.id, params)
	if err != nil {
		return nil, fmt.Errorf("ecies.NewPrivateKey(%s): %v", suite, err)
	}
	pk, _ := priv.PublicKey()
	en, err := ecies.NewHybridEncrypt(pk.(*ecies.PublicKey), internalapi.Token{})
	if err != nil {
		return nil, err
	}
	de, err := ecies.NewHybridDecrypt(priv, internalapi.Token{})
	if err != nil {
		return nil, err
	}
	pub := pk.(*ecies.PublicKey).PublicKeyBytes()
	cfg := fmt.Sprintf("%s %s %d", suite, vcodes[s.vi], s.id)
	d := append([]byte(nil), s.sk...)
	return &cKey{spec: s, label: "ECIES " + cfg, priv: priv, enc: en, dec: de, prefix: priv.OutputPrefix(), det: true, rndLen: dm.rndLen,
		decLine: func(ct, info []byte) string {
			return fmt.Sprintf("H eciesdec %s %s %s %s", cfg, hlib.Tok(d), hlib.Tok(ct), hlib.Tok(info))
		},
		encLine: func(eph, rnd, pt, info []byte) string {
			return fmt.Sprintf("H eciesenc %s %s %s %s %s %s", cfg, hlib.Tok(pub), hlib.Tok(eph), hlib.Tok(rnd), hlib.Tok(pt), hlib.Tok(info))
		}}, nil
}

// ephFor searches an ephemeral private value whose encapsulated key starts with the byte want and
// returns it with the first five bytes of that encapsulated key (= of the RAW ciphertext).
func (s cSpec) ephFor(rng *hlib.Rng, want byte) (eph, head []byte, tries int) {
	for tries = 1; tries < 1<<20; tries++ {
		var encHead []byte
		if s.isHPKE {
			if kems[s.ki].name != "X25519" {
				panic("ephFor: not a collidable DH family")
			}
			eph = rng.Bytes(32)
			k, err := ecdh.X25519().NewPrivateKey(eph)
			if err != nil {
				continue
			}
			encHead = k.PublicKey().Bytes()
		} else {
			if efmts[s.fi].code != "L" {
				panic("ephFor: not a collidable point format")
			}
			c := curves[s.ci]
			if tries%16 == 0 {
				eph, _ = scalar(rng, c) // the edge scalars now and then
			} else {
				eph = rng.Bytes(c.bl)
				if c.bl == 66 {
					eph[0] &= 1
				}
				if _, err := c.dh.NewPrivateKey(eph); err != nil {
					continue
				}
			}
			encHead = pubOf(c, eph)[1:]
		}
		if encHead[0] == want {
			return eph, append([]byte(nil), encHead[:5]...), tries
		}
	}
	panic("ephFor: no ephemeral value found")
}

// goCollide lets tink-go encrypt to the key until the ciphertext starts with the byte want.
func goCollide(k *cKey, want byte, pt, info []byte) (ct []byte, tries int, err error) {
	for tries = 1; tries < 1<<16; tries++ {
		if p := hlib.Recover(func() { ct, err = k.enc.Encrypt(pt, info) }); p != "" {
			return nil, tries, fmt.Errorf("panic: %s", p)
		}
		if err != nil {
			return nil, tries, err
		}
		if ct[0] == want {
			return ct, tries, nil
		}
	}
	return nil, tries, fmt.Errorf("no ciphertext starting with %02x in %d encryptions", want, tries)
}

// cMember is one keyset entry.
type cMember struct {
	k        *cKey
	role     string // R target RAW key, r other RAW key, G / M prefixed key colliding with the Go- / model-made ciphertext
	kind     string // G / M / r: twin (key material of R), fresh (same parameters), other (another family)
	disabled bool
	primary  bool
	id       uint32 // id in the keyset
}

type cKeyset struct {
	e       *env
	members []*cMember
	ks      tink.HybridDecrypt
	lines   bool
	desc    string
}

func statusLetterOf(m *cMember) string {
	if m.disabled {
		return "D"
	}
	return "E"
}

func (c *cKeyset) keysLine() string {
	parts := make([]string, len(c.members))
	for i, m := range c.members {
		parts[i] = fmt.Sprintf("%d:%s:%s:%s", m.id, statusLetterOf(m), hlib.B01(m.primary), hlib.Tok(m.k.prefix))
	}
	return "W keys " + strings.Join(parts, ";")
}

func (c *cKeyset) describe() string {
	parts := make([]string, len(c.members))
	for i, m := range c.members {
		p := ""
		if m.primary {
			p = " primary"
		}
		parts[i] = fmt.Sprintf("#%d %s/%s id=%d(0x%08x) %s%s [%s sk=%s]", i, m.role, m.kind, m.id, m.id, statusLetterOf(m), p, m.k.label, hlib.Tok(m.k.spec.sk))
	}
	return strings.Join(parts, "; ")
}

// expectation of a probe beyond "the keyset accepts iff an enabled member accepts"
const (
	expByBits = iota
	expReject
	expTarget // the target RAW key decrypts it (when enabled): plaintext wantPT
)

// probe gives y to every member's single-key primitive and to the keyset primitive.
func (c *cKeyset) probe(what string, y, info []byte, exp int, wantPT []byte) {
	o := c.e.o
	bits := make([]byte, len(c.members))
	var accPT [][]byte
	enabledAcc := false
	targetEnabled := false
	for i, m := range c.members {
		var pt []byte
		var err error
		if p := hlib.Recover(func() { pt, err = m.k.dec.Decrypt(y, info) }); p != "" {
			o.Violate("single-key Decrypt panicked (%s) on %s y=%s: %s", m.k.label, what, hlib.Tok(y), p)
			return
		}
		bits[i] = '0'
		if err == nil {
			bits[i] = '1'
			if !m.disabled {
				enabledAcc = true
				accPT = append(accPT, pt)
			}
		}
		if m.role == "R" && !m.disabled {
			targetEnabled = true
		}
	}
	var got []byte
	var gerr error
	if p := hlib.Recover(func() { got, gerr = c.ks.Decrypt(y, info) }); p != "" {
		o.Violate("keyset Decrypt panicked on %s y=%s info=%s keyset {%s}: %s", what, hlib.Tok(y), hlib.Tok(info), c.describe(), p)
		return
	}
	verdict := "reject"
	if gerr == nil {
		verdict = "ok"
	}
	o.Count("collide/probe/" + what + "/" + verdict)
	tail := func() string {
		return fmt.Sprintf("y=%s info=%s single-key verdicts=%s keyset {%s}", hlib.Tok(y), hlib.Tok(info), bits, c.describe())
	}
	reported := (gerr == nil) != enabledAcc
	if reported {
		if enabledAcc {
			o.Violate("keyset HybridDecrypt rejects a ciphertext (%s) that an enabled member's single-key primitive decrypts: %v; %s", what, gerr, tail())
		} else {
			o.Violate("keyset HybridDecrypt accepts a ciphertext (%s) that no enabled member's single-key primitive accepts; %s", what, tail())
		}
	} else if gerr == nil {
		found := false
		for _, p := range accPT {
			found = found || bytes.Equal(p, got)
		}
		if !found {
			o.Violate("keyset HybridDecrypt returns a plaintext (%s) none of the accepting members returns (%s); %s", hlib.Tok(got), what, tail())
		}
	}
	switch exp {
	case expReject:
		if gerr == nil && !reported {
			o.Violate("keyset HybridDecrypt accepted a %s ciphertext; %s", what, tail())
		}
	case expTarget:
		if targetEnabled && !reported && (gerr != nil || !bytes.Equal(got, wantPT)) {
			o.Violate("keyset HybridDecrypt does not decrypt the ciphertext (%s) of its RAW key whose first five bytes are the output prefix of another member (err=%v, want plaintext %s); %s",
				what, gerr, hlib.Tok(wantPT), tail())
		}
	}
	if c.lines {
		n := len(y)
		if n > 5 {
			n = 5
		}
		o.Emit(fmt.Sprintf("!W acceptb %s %d %s", hlib.Tok(y[:n]), len(y), bits), verdict, true)
	}
}

// single emits the single-key model line of member m for y (property-level when the verdict is part of
// the round-trip claim) and returns the primitive's answer.
func (c *cKeyset) single(m *cMember, y, info []byte, plevel bool) ([]byte, error) {
	pt, err := m.k.dec.Decrypt(y, info)
	if c.lines && m.k.det {
		pre := ""
		if plevel {
			pre = "!"
		}
		c.e.o.Emit(pre+m.k.decLine(y, info), rej(pt, err), true)
	}
	return pt, err
}

func flipLast(y []byte, bit uint) []byte {
	m := append([]byte(nil), y...)
	m[len(m)-1] ^= 1 << bit
	return m
}

// collision-partner combinations walked systematically: key material kind x start byte x slot
var cKinds = []string{"twin", "fresh", "other"}
var cOtherFams = []string{"HP256", "HX", "EU256", "EC256", "EL256", "HP384", "EC384"}

// in the keysets that write no lines the neighbour may also be a KEM with irreproducible ciphertexts
var cOtherFamsGoOnly = append(append([]string(nil), cOtherFams...), "XW", "MK768")

type cCombo struct {
	kind string
	want byte // 0 CRUNCHY, 1 TINK
	slot int  // 0 in front of the RAW keys, 1 between, 2 behind
}

var cCombos = func() []cCombo {
	var out []cCombo
	for slot := 0; slot < 3; slot++ {
		for _, k := range cKinds {
			for w := 0; w < 2; w++ {
				out = append(out, cCombo{k, byte(w), slot})
			}
		}
	}
	return out
}()

// partner builds the prefixed key whose output prefix is head (start byte 00 -> CRUNCHY, 01 -> TINK).
func partner(rng *hlib.Rng, target cSpec, cb cCombo, head []byte, others []string) (*cKey, error) {
	vi := 1 - int(head[0]) // 01 -> TINK (0), 00 -> CRUNCHY (1)
	id := binary.BigEndian.Uint32(head[1:5])
	var s cSpec
	switch cb.kind {
	case "twin":
		s = target.with(vi, id, target.sk)
	case "fresh":
		s = target.with(vi, id, target.freshSK(rng))
	default:
		f := others[rng.Intn(len(others))]
		for f == target.fam {
			f = others[rng.Intn(len(others))]
		}
		s = famSpec(rng, f)
		s = s.with(vi, id, s.freshSK(rng))
	}
	k, err := s.build()
	if err != nil {
		return nil, err
	}
	if !bytes.Equal(k.prefix, head) {
		return nil, fmt.Errorf("output prefix %x of the %s key with id %d is not %x", k.prefix, vcodes[vi], id, head)
	}
	return k, nil
}

// collideCase: one keyset around the RAW family fam. n numbers the cases (walks the combinations).
func collideCase(e *env, seed uint64, n int, fam string, lines bool) {
	o := e.o
	if hlib.Pre() && !lines {
		return // no request to the model
	}
	tape.next()
	o.Case()
	rng := hlib.NewRng(seed, fmt.Sprintf("c06/collide/%d/%s", n, fam))
	fail := func(format string, a ...any) { e.viol("collide: "+format, a...) }

	tspec := famSpec(rng, fam)
	tspec = tspec.with(2, 0, tspec.freshSK(rng))
	R, err := tspec.build()
	if err != nil {
		fail("target key: %v", err)
		return
	}
	pt := rng.Bytes(1 + rng.MsgLen(120))
	info := pickInfo(rng)
	cbG := cCombos[n%len(cCombos)]
	cbM := cCombos[(n*7+5)%len(cCombos)]
	flipBit := uint(rng.Intn(8))

	// the Go-made colliding ciphertext
	// (the pre phase only needs the request to the model, which does not depend on it: a stand-in prefix then)
	ctG, triesG := []byte{cbG.want, 0, 0, 0, 1}, 0
	if !hlib.Pre() {
		if ctG, triesG, err = goCollide(R, cbG.want, pt, info); err != nil {
			fail("Encrypt to the RAW key (%s): %v", R.label, err)
			return
		}
	}
	if lines {
		o.Hist["collide/encryptions-until-start-byte"] += triesG
	}
	others := cOtherFams
	if !lines {
		others = cOtherFamsGoOnly
	}
	G, err := partner(rng, tspec, cbG, ctG[:5], others)
	if err != nil {
		fail("colliding key: %v", err)
		return
	}
	// the model-made colliding ciphertext (DH families only)
	var M *cKey
	var ask string
	var headM []byte
	ptM := rng.Bytes(1 + rng.MsgLen(120))
	if lines && R.encLine != nil {
		var eph []byte
		var t int
		eph, headM, t = tspec.ephFor(rng, cbM.want)
		o.Hist["collide/ephemeral-keys-until-start-byte"] += t
		if bytes.Equal(headM, ctG[:5]) {
			fail("the two colliding ciphertexts start with the same bytes")
			return
		}
		if M, err = partner(rng, tspec, cbM, headM, others); err != nil {
			fail("colliding key: %v", err)
			return
		}
		ask = R.encLine(eph, rng.Bytes(R.rndLen), ptM, info)
	}
	ans := ""
	if ask != "" {
		ans = hlib.Ask(ask)
	}
	if hlib.Pre() {
		return // everything the request depends on is drawn above
	}
	// the other RAW key
	var r *cKey
	rKind := "-"
	if rng.Intn(4) != 0 {
		var rs cSpec
		switch rng.Intn(4) {
		case 0:
			rKind = "twin"
			rs = tspec
		case 1:
			rKind = "other"
			f := []string{"HX", "EL256", "HP256", "EC256"}[rng.Intn(4)]
			rs = famSpec(rng, f)
			rs = rs.with(2, 0, rs.freshSK(rng))
		default:
			rKind = "fresh"
			rs = tspec.with(2, 0, tspec.freshSK(rng))
		}
		if r, err = rs.build(); err != nil {
			fail("second RAW key: %v", err)
			return
		}
	}
	// layout: [slot 0] raw [slot 1] raw [slot 2]
	raws := []*cMember{{k: R, role: "R", kind: "target"}}
	if r != nil {
		rm := &cMember{k: r, role: "r", kind: rKind}
		if rng.Bool() {
			raws = append(raws, rm)
		} else {
			raws = []*cMember{rm, raws[0]}
		}
	}
	slots := make([][]*cMember, 3)
	slots[cbG.slot] = append(slots[cbG.slot], &cMember{k: G, role: "G", kind: cbG.kind})
	if M != nil {
		mm := &cMember{k: M, role: "M", kind: cbM.kind}
		if rng.Bool() {
			slots[cbM.slot] = append(slots[cbM.slot], mm)
		} else {
			slots[cbM.slot] = append([]*cMember{mm}, slots[cbM.slot]...)
		}
	}
	var members []*cMember
	members = append(members, slots[0]...)
	members = append(members, raws[0])
	members = append(members, slots[1]...)
	if len(raws) > 1 {
		members = append(members, raws[1])
	}
	members = append(members, slots[2]...)
	// statuses: mostly all enabled; the colliding key / the target disabled now and then
	disabledRole := map[int]string{4: "G", 5: "M", 6: "R"}[n%7]
	for _, m := range members {
		m.disabled = m.role == disabledRole
	}
	pi := (n*5 + 1) % len(members)
	for members[pi].disabled {
		pi = (pi + 1) % len(members)
	}
	members[pi].primary = true
	used := map[uint32]bool{}
	for _, m := range members {
		if len(m.k.prefix) > 0 {
			used[m.k.spec.id] = true
		}
	}
	km := keyset.NewManager()
	for _, m := range members {
		var opts []keyset.KeyOpts
		if m.primary {
			opts = append(opts, keyset.AsPrimary())
		}
		if m.disabled {
			opts = append(opts, keyset.WithStatus(keyset.Disabled))
		}
		if len(m.k.prefix) == 0 {
			id := rng.KeyID()
			for used[id] {
				id = rng.KeyID()
			}
			used[id] = true
			opts = append(opts, keyset.WithFixedID(id))
		}
		if m.id, err = km.AddKeyWithOpts(m.k.priv, internalapi.Token{}, opts...); err != nil {
			fail("keyset.Manager refuses member %s (%s): %v", m.role, m.k.label, err)
			return
		}
	}
	h, err := km.Handle()
	if err != nil {
		fail("keyset.Manager.Handle: %v", err)
		return
	}
	ks, err := hybrid.NewHybridDecrypt(h)
	if err != nil {
		fail("hybrid.NewHybridDecrypt on the keyset: %v", err)
		return
	}
	c := &cKeyset{e: e, members: members, ks: ks, lines: lines}
	for i, m := range members { // the handle is the ground truth of the W keys line
		en, err := h.Entry(i)
		if err != nil || en.KeyID() != m.id || en.IsPrimary() != m.primary || (en.KeyStatus() == keyset.Enabled) == m.disabled {
			fail("handle entry %d differs from what was added (%s)", i, c.describe())
			return
		}
	}
	otherInfo := append(append([]byte(nil), info...), byte(rng.Intn(256)))
	if rng.Bool() && len(info) > 0 {
		otherInfo = append([]byte(nil), info[:len(info)-1]...)
	}
	// further ciphertexts
	ctR, errR := R.enc.Encrypt(pt, info)
	ctForG, errG := G.enc.Encrypt(pt, info)
	var ctForM, ctr []byte
	var errM, errr error
	if M != nil {
		ctForM, errM = M.enc.Encrypt(ptM, info)
	}
	if r != nil {
		ctr, errr = r.enc.Encrypt(pt, info)
	}
	for _, er := range []error{errR, errG, errM, errr} {
		if er != nil {
			fail("Encrypt failed: %v", er)
			return
		}
	}
	o.Count("collide/family/" + fam)
	o.Count(fmt.Sprintf("collide/go-made/%s-%s-slot%d", cbG.kind, vcodes[1-int(cbG.want)], cbG.slot))
	o.Count("collide/second-raw-key/" + rKind)
	o.Count(fmt.Sprintf("collide/keyset-size/%d", len(members)))
	o.Count("collide/primary/" + members[pi].role)
	if disabledRole != "" && (disabledRole != "M" || M != nil) {
		o.Count("collide/disabled/" + disabledRole)
	}
	if G.spec.fam != fam {
		o.Count("collide/partner-family/" + fam + "<" + G.spec.fam)
	}
	if lines {
		o.Emit(c.keysLine(), "ok", true)
	}
	var rm *cMember
	for _, m := range members {
		if m.role == "R" {
			rm = m
		}
	}
	// ---- the Go-made colliding ciphertext
	back, berr := c.single(rm, ctG, info, true)
	if berr != nil || !bytes.Equal(back, pt) {
		o.Violate("the RAW key alone does not decrypt its own ciphertext (%s): %v ct=%s", R.label, berr, hlib.Tok(ctG))
	}
	c.probe("raw-collides-go-made", ctG, info, expTarget, pt)
	fl := flipLast(ctG, flipBit)
	c.single(rm, fl, info, false)
	c.probe("raw-collides-flipped", fl, info, expReject, nil)
	c.single(rm, ctG, otherInfo, false)
	c.probe("raw-collides-other-info", ctG, otherInfo, expReject, nil)
	if len(info) == 0 { // nil and empty context info are interchangeable
		var other []byte
		if info == nil {
			other = []byte{}
		}
		c.probe("raw-collides-go-made", ctG, other, expTarget, pt)
	}
	c.probe("raw-collides-cut-5", ctG[:5], info, expReject, nil)
	c.probe("raw-collides-cut-4", ctG[:4], info, expReject, nil)
	c.probe("raw-collides-cut-last", ctG[:len(ctG)-1], info, expReject, nil)
	// ---- the model-made colliding ciphertext
	if M != nil {
		o.Count(fmt.Sprintf("collide/model-made/%s-%s-slot%d", cbM.kind, vcodes[1-int(cbM.want)], cbM.slot))
		if !strings.HasPrefix(ans, "ok ") {
			o.Violate("the model could not encrypt (%s): %s", R.label, ans)
		} else if mct := hlib.FromTok(ans[3:]); !bytes.HasPrefix(mct, headM) {
			o.Violate("the model's encapsulated key does not start with the bytes crypto/ecdh computes for the ephemeral key (%s): %x vs %x", R.label, mct[:5], headM)
		} else {
			b2, e2 := c.single(rm, mct, info, true)
			if e2 != nil || !bytes.Equal(b2, ptM) {
				o.Violate("the RAW key alone does not decrypt the independent implementation's ciphertext (%s): %v ct=%s", R.label, e2, hlib.Tok(mct))
			}
			c.probe("raw-collides-model-made", mct, info, expTarget, ptM)
			fl := flipLast(mct, flipBit)
			c.single(rm, fl, info, false)
			c.probe("raw-collides-flipped", fl, info, expReject, nil)
			c.probe("raw-collides-other-info", mct, otherInfo, expReject, nil)
			// the Go-made partner's prefix instead of the first five bytes: no RAW key, no member
			sw := append(append([]byte(nil), ctG[:5]...), mct[5:]...)
			c.probe("raw-collides-heads-swapped", sw, info, expReject, nil)
		}
	}
	// ---- converse: the other members' ciphertexts, prefixes stripped and prepended
	c.probe("raw-ordinary", ctR, info, expByBits, nil)
	for _, m := range members {
		switch m.role {
		case "G":
			c.single(m, ctForG, info, true)
			c.probe("prefixed-member", ctForG, info, expByBits, nil)
			c.probe("prefixed-member-flipped", flipLast(ctForG, flipBit), info, expReject, nil)
			c.probe("prefixed-member-stripped", ctForG[5:], info, expByBits, nil)
			c.probe("prefix-of-member+raw", append(append([]byte(nil), G.prefix...), ctR...), info, expByBits, nil)
			c.probe("prefix-of-member+raw-colliding", append(append([]byte(nil), G.prefix...), ctG...), info, expByBits, nil)
			ov := append([]byte(nil), ctForG...)
			ov[0] ^= 1
			c.probe("prefixed-member-other-variant", ov, info, expByBits, nil)
		case "M":
			c.probe("prefixed-member", ctForM, info, expByBits, nil)
			c.probe("prefixed-member-stripped", ctForM[5:], info, expByBits, nil)
			c.probe("prefix-of-member+raw", append(append([]byte(nil), M.prefix...), ctR...), info, expByBits, nil)
		case "r":
			c.probe("raw-ordinary-second", ctr, info, expByBits, nil)
		}
	}
}

// runCollide: section COLLIDE (see the file comment).
func runCollide(e *env, seed uint64) {
	if *hlib.FlagMode == "nocollide" {
		return
	}
	quick := []string{"HX", "EL256", "EL521", "HX", "EL256", "HX", "EL256", "HX", "EL256", "HX"}
	thorough := []string{"HX", "EL256", "EL521", "EL384", "EL256", "HX", "EL521", "EL256", "HX", "EL384"}
	fams := quick
	if hlib.Thorough() {
		fams = thorough
	}
	n := 0
	for i := 0; i < hlib.N(20, 180); i++ {
		collideCase(e, seed, n, fams[i%len(fams)], true)
		n++
	}
	// X-Wing / ML-KEM: Go oracles only (ciphertexts differ from run to run), no lines
	goOnly := []string{"XW", "MK768", "XW", "MK1024", "MK768"}
	for i := 0; i < hlib.N(5, 40); i++ {
		collideCase(e, seed, n, goOnly[i%len(goOnly)], false)
		n++
	}
}
