//go:build verif

package hlib

import (
	"encoding/hex"

	"github.com/tink-crypto/tink-go/v2/mac/subtle"
	"github.com/tink-crypto/tink-go/v2/tink"
)

func hexDecode(s string) ([]byte, error) { return hex.DecodeString(s) }

// SubtleHMAC returns mac/subtle's HMAC as a tink.MAC.
func SubtleHMAC(hash string, key []byte, tagSize int) (tink.MAC, error) {
	return subtle.NewHMAC(hash, key, uint32(tagSize))
}
