//go:build verif

// Package hlib holds what every correspondence harness shares: the seeded PRNG, the
// line-protocol encoders, the op/result writers and the crypto/rand tape.
package hlib

import (
	"bufio"
	"crypto/rand"
	"encoding/hex"
	"encoding/json"
	"flag"
	"fmt"
	"hash/fnv"
	"os"
	"sort"
	"strconv"
	"strings"
)

// ---------- PRNG (splitmix64) ----------

type Rng struct{ s uint64 }

func NewRng(seed uint64, stream string) *Rng {
	h := fnv.New64a()
	h.Write([]byte(stream))
	return &Rng{s: seed*0x9E3779B97F4A7C15 ^ h.Sum64()}
}

func (r *Rng) U64() uint64 {
	r.s += 0x9E3779B97F4A7C15
	z := r.s
	z = (z ^ (z >> 30)) * 0xBF58476D1CE4E5B9
	z = (z ^ (z >> 27)) * 0x94D049BB133111EB
	return z ^ (z >> 31)
}

// Intn returns a value in [0,n).
func (r *Rng) Intn(n int) int {
	if n <= 0 {
		return 0
	}
	return int(r.U64() % uint64(n))
}

func (r *Rng) Bool() bool      { return r.U64()&1 == 1 }
func (r *Rng) Chance(p int) bool { return r.Intn(100) < p }

func (r *Rng) Bytes(n int) []byte {
	b := make([]byte, n)
	for i := 0; i < n; i += 8 {
		v := r.U64()
		for j := 0; j < 8 && i+j < n; j++ {
			b[i+j] = byte(v >> (8 * j))
		}
	}
	return b
}

// Pick returns one of the given ints.
func (r *Rng) Pick(xs ...int) int { return xs[r.Intn(len(xs))] }

// ---------- tokens ----------

// Tok encodes bytes for the line protocol: "-" for empty, lowercase hex otherwise.
func Tok(b []byte) string {
	if len(b) == 0 {
		return "-"
	}
	return hex.EncodeToString(b)
}

func B01(b bool) string {
	if b {
		return "1"
	}
	return "0"
}

func U32List(xs []uint32) string {
	if len(xs) == 0 {
		return "-"
	}
	ss := make([]string, len(xs))
	for i, x := range xs {
		ss[i] = strconv.FormatUint(uint64(x), 10)
	}
	return strings.Join(ss, ",")
}

func SortedU32(xs []uint32) []uint32 {
	ys := append([]uint32(nil), xs...)
	sort.Slice(ys, func(i, j int) bool { return ys[i] < ys[j] })
	return ys
}

// ---------- output ----------

// Out collects the op lines sent to the Lean driver and the implementation's answers.
type Out struct {
	ops, res  *bufio.Writer
	fo, fr    *os.File
	N         int
	NCase     int
	LastOp    string
	Hist      map[string]int // distribution counters, printed into the evidence
	distinct  map[uint64]struct{}
	Samples   []string
	Property  string
	Violation []string // property-oracle failures found by the harness itself
}

var (
	FlagSeed   = flag.Uint64("seed", 1, "VERIF_SEED")
	FlagTier   = flag.String("tier", "quick", "quick|thorough")
	FlagOps    = flag.String("ops", "", "file receiving the op lines for the Lean driver")
	FlagRes    = flag.String("res", "", "file receiving the implementation's result lines")
	FlagStats  = flag.String("stats", "", "file receiving the JSON statistics")
	FlagReplay = flag.String("replay", "", "replay file (op lines) to run instead of generating")
	FlagScale  = flag.Int("scale", 1, "multiplier on case counts")
	FlagPhase  = flag.String("phase", "main", "pre: only collect Ask() requests; main: normal run")
	FlagPreOps = flag.String("preops", "", "pre phase: file receiving the Ask() request lines")
	FlagPreOut = flag.String("preout", "", "main phase: the Lean driver's answers to the Ask() lines")
	FlagMode   = flag.String("mode", "", "harness-specific mode")
)

// ---------- two-phase requests to the model ----------
// Ask lets a harness obtain values computed by the Lean model (e.g. ciphertexts made by the
// independent implementation). The harness is run twice with identical generation: the pre phase
// records the request lines, the check script pipes them through the driver, the main phase gets
// the answers in the same order.
var (
	askW    *bufio.Writer
	askF    *os.File
	answers []string
	askN    int
)

func Ask(line string) string {
	if !flag.Parsed() {
		flag.Parse()
	}
	if *FlagPhase == "pre" {
		if askW == nil {
			f, err := os.Create(*FlagPreOps)
			if err != nil {
				panic(err)
			}
			askF = f
			askW = bufio.NewWriterSize(f, 1<<20)
		}
		askW.WriteString(line + "\n")
		return ""
	}
	if answers == nil {
		b, err := os.ReadFile(*FlagPreOut)
		if err != nil {
			panic(err)
		}
		answers = strings.Split(strings.TrimRight(string(b), "\n"), "\n")
	}
	if askN >= len(answers) {
		panic("hlib.Ask: ran out of model answers (pre and main phase diverged)")
	}
	a := answers[askN]
	askN++
	return a
}

// Pre reports whether this is the request-collecting phase.
func Pre() bool { return *FlagPhase == "pre" }

func closeAsk() {
	if askW != nil {
		askW.Flush()
		askF.Close()
	}
}


func Open(property string) *Out {
	if !flag.Parsed() {
		flag.Parse()
	}
	fo, err := os.Create(*FlagOps)
	if err != nil {
		panic(err)
	}
	fr, err := os.Create(*FlagRes)
	if err != nil {
		panic(err)
	}
	return &Out{ops: bufio.NewWriterSize(fo, 1<<20), res: bufio.NewWriterSize(fr, 1<<20), fo: fo, fr: fr,
		Hist: map[string]int{}, distinct: map[uint64]struct{}{}, Property: property}
}

// Emit writes one op line and the implementation's canonical result for it.
// nontrivial marks the case as counting towards distinct_nontrivial.
func (o *Out) Emit(op, res string, nontrivial bool) {
	if strings.ContainsAny(op, "\n\r") || strings.ContainsAny(res, "\n\r") {
		panic("newline in protocol line")
	}
	o.ops.WriteString(op)
	o.ops.WriteByte('\n')
	o.res.WriteString(res)
	o.res.WriteByte('\n')
	o.N++
	o.LastOp = op
	if nontrivial {
		h := fnv.New64a()
		h.Write([]byte(op))
		o.distinct[h.Sum64()] = struct{}{}
	}
	if len(o.Samples) < 6 && (o.N%97 == 1) {
		s := op + " => " + res
		if len(s) > 400 {
			s = s[:400] + "…"
		}
		o.Samples = append(o.Samples, s)
	}
}

// Case starts a new independent case: a comment line both sides echo; replays are cut here.
func (o *Out) Case() {
	o.NCase++
	l := fmt.Sprintf("# case %d", o.NCase)
	o.ops.WriteString(l + "\n")
	o.res.WriteString(l + "\n")
}

func (o *Out) Count(key string) { o.Hist[key]++ }

// Violate records a property-oracle failure established by the harness on the real code.
func (o *Out) Violate(format string, a ...any) {
	if len(o.Violation) < 20 {
		o.Violation = append(o.Violation, fmt.Sprintf("[case %d] ", o.NCase)+fmt.Sprintf(format, a...))
	}
}

func (o *Out) Close() {
	closeAsk()
	o.ops.Flush()
	o.res.Flush()
	o.fo.Close()
	o.fr.Close()
	if *FlagStats != "" {
		st := map[string]any{
			"property":            o.Property,
			"evaluations":         o.N,
			"distinct_nontrivial": len(o.distinct),
			"hist":                o.Hist,
			"samples":             o.Samples,
			"oracle_violations":   o.Violation,
		}
		b, _ := json.MarshalIndent(st, "", " ")
		os.WriteFile(*FlagStats, b, 0o644)
	}
}

func Thorough() bool { return *FlagTier == "thorough" }

// N scales a quick-tier count for the tier in use.
func N(quick, thorough int) int {
	n := quick
	if Thorough() {
		n = thorough
	}
	return n * *FlagScale
}

// Recover runs f and converts a panic into a string (empty if none).
func Recover(f func()) (p string) {
	defer func() {
		if r := recover(); r != nil {
			p = fmt.Sprint(r)
		}
	}()
	f()
	return ""
}

// ---------- crypto/rand tape ----------

// Tape replaces crypto/rand.Reader: it serves bytes from a seeded stream (or from a forced
// queue) and records every read.
type Tape struct {
	rng    *Rng
	Forced []byte   // served first
	Log    [][]byte // one entry per Read call since the last Reset
}

func InstallTape(seed uint64) *Tape {
	t := &Tape{rng: NewRng(seed, "tape")}
	rand.Reader = t
	return t
}

func (t *Tape) Read(p []byte) (int, error) {
	for i := range p {
		if len(t.Forced) > 0 {
			p[i] = t.Forced[0]
			t.Forced = t.Forced[1:]
		} else {
			p[i] = byte(t.rng.U64())
		}
	}
	t.Log = append(t.Log, append([]byte(nil), p...))
	return len(p), nil
}

func (t *Tape) Reset() { t.Log = nil }

// Drawn returns all bytes read since the last Reset.
func (t *Tape) Drawn() []byte {
	var b []byte
	for _, l := range t.Log {
		b = append(b, l...)
	}
	return b
}

// ForceU32 queues big-endian words to be returned by the next reads.
func (t *Tape) ForceU32(ws ...uint32) {
	for _, w := range ws {
		t.Forced = append(t.Forced, byte(w>>24), byte(w>>16), byte(w>>8), byte(w))
	}
}

// DrawnU32 interprets every 4-byte read since Reset as a big-endian word.
func (t *Tape) DrawnU32() []uint32 {
	var ws []uint32
	for _, l := range t.Log {
		if len(l) == 4 {
			ws = append(ws, uint32(l[0])<<24|uint32(l[1])<<16|uint32(l[2])<<8|uint32(l[3]))
		}
	}
	return ws
}
