//go:build verif

package hlib

import (
	"fmt"

	"github.com/tink-crypto/tink-go/v2/insecuresecretdataaccess"
	"github.com/tink-crypto/tink-go/v2/internal/internalapi"
	"github.com/tink-crypto/tink-go/v2/key"
	"github.com/tink-crypto/tink-go/v2/keyset"
	"github.com/tink-crypto/tink-go/v2/secretdata"
)

// Secret wraps bytes as secretdata.Bytes (a copy is made by the library).
func Secret(b []byte) secretdata.Bytes {
	return secretdata.NewBytesFromData(b, insecuresecretdataaccess.Token{})
}

// HandleOf builds a single-key keyset handle with k as the ENABLED primary.
func HandleOf(k key.Key) (*keyset.Handle, error) {
	km := keyset.NewManager()
	if _, err := km.AddKeyWithOpts(k, internalapi.Token{}, keyset.AsPrimary()); err != nil {
		return nil, err
	}
	return km.Handle()
}

// VariantCode maps 0..3 to the protocol's variant letter.
var VariantCodes = []string{"T", "C", "L", "R"}

// IDs interesting for prefixes.
func (r *Rng) KeyID() uint32 {
	switch r.Intn(6) {
	case 0:
		return 0
	case 1:
		return 0xFFFFFFFF
	case 2:
		return 1
	case 3:
		return 0x01000000
	}
	return uint32(r.U64())
}

// Lens returns message lengths concentrated on block boundaries.
func (r *Rng) MsgLen(max int) int {
	b := []int{0, 1, 15, 16, 17, 31, 32, 33, 47, 48, 49, 55, 56, 63, 64, 65, 111, 112, 127, 128, 129, 255, 256, 257}
	switch r.Intn(4) {
	case 0:
		return b[r.Intn(len(b))]
	case 1:
		return r.Intn(81)
	case 2:
		k := 16 * (1 + r.Intn(max/16+1))
		return k + r.Intn(3) - 1
	}
	return r.Intn(max + 1)
}

func Itoa(n int) string { return fmt.Sprint(n) }

// Mutations of a byte string used by every "only genuine outputs are accepted" stream:
// every kind is labelled so the evidence can report the distribution.
type Mut struct {
	Kind string
	Data []byte
}

func (r *Rng) Mutations(b []byte, n int) []Mut {
	var out []Mut
	clone := func() []byte { return append([]byte(nil), b...) }
	for i := 0; i < n; i++ {
		switch r.Intn(9) {
		case 0, 1, 2:
			if len(b) > 0 {
				c := clone()
				pos := r.Intn(len(c))
				if r.Chance(30) && len(c) > 5 {
					pos = r.Intn(5)
				}
				if r.Chance(30) {
					pos = len(c) - 1 - r.Intn(min(len(c), 16))
				}
				c[pos] ^= 1 << uint(r.Intn(8))
				out = append(out, Mut{"flip", c})
			}
		case 3:
			if len(b) > 0 {
				out = append(out, Mut{"truncate", clone()[:r.Intn(len(b))]})
			}
		case 4:
			out = append(out, Mut{"extend", append(clone(), r.Bytes(1+r.Intn(17))...)})
		case 5:
			if len(b) > 0 {
				out = append(out, Mut{"drop-first", clone()[1:]})
			}
		case 6:
			if len(b) >= 5 {
				c := clone()
				copy(c[:5], r.Bytes(5))
				out = append(out, Mut{"prefix", c})
			}
		case 7:
			out = append(out, Mut{"random", r.Bytes(r.Intn(len(b) + 4))})
		case 8:
			if len(b) >= 5 {
				out = append(out, Mut{"strip-prefix", clone()[5:]})
			}
		}
	}
	return out
}

// FromTok decodes a protocol token.
func FromTok(s string) []byte {
	if s == "-" || s == "" {
		return []byte{}
	}
	b, err := hexDecode(s)
	if err != nil {
		panic("bad token " + s)
	}
	return b
}
