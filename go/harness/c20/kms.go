//go:build verif

package main

import (
	"bytes"
	"context"
	"encoding/binary"
	"fmt"

	"github.com/tink-crypto/tink-go/v2/aead"
	"github.com/tink-crypto/tink-go/v2/aead/aesctrhmac"
	"github.com/tink-crypto/tink-go/v2/aead/aesgcm"
	"github.com/tink-crypto/tink-go/v2/insecuresecretdataaccess"
	"github.com/tink-crypto/tink-go/v2/internal/protoserialization"
	"github.com/tink-crypto/tink-go/v2/internal/verifharness/hlib"
	"github.com/tink-crypto/tink-go/v2/key"
	"github.com/tink-crypto/tink-go/v2/secretdata"
	"github.com/tink-crypto/tink-go/v2/tink"

	tinkpb "github.com/tink-crypto/tink-go/v2/proto/tink_go_proto"
)

func sdata(b secretdata.Bytes) []byte { return b.Data(insecuresecretdataaccess.Token{}) }

// keyMaterial returns the secret byte strings of a key in the order its generator draws them.
func keyMaterial(k key.Key) [][]byte {
	switch kk := k.(type) {
	case *aesctrhmac.Key:
		return [][]byte{sdata(kk.AESKeyBytes()), sdata(kk.HMACKeyBytes())}
	case interface{ PRFKey() key.Key }:
		return keyMaterial(kk.PRFKey())
	case interface{ KeyBytes() secretdata.Bytes }:
		return [][]byte{sdata(kk.KeyBytes())}
	case interface{ PrivateKeyBytes() secretdata.Bytes }:
		return [][]byte{sdata(kk.PrivateKeyBytes())}
	case interface{ PrivateKeyValue() secretdata.Bytes }:
		return [][]byte{sdata(kk.PrivateKeyValue())}
	}
	return nil
}

// spyKEK is the "remote" key-encryption AEAD of the envelope: a local RAW AES-GCM that records the
// DEK it is given.
type spyKEK struct {
	inner tink.AEAD
	deks  [][]byte
}

func (s *spyKEK) Encrypt(pt, ad []byte) ([]byte, error) {
	s.deks = append(s.deks, clone(pt))
	return s.inner.Encrypt(pt, ad)
}
func (s *spyKEK) Decrypt(ct, ad []byte) ([]byte, error) { return s.inner.Decrypt(ct, ad) }
func (s *spyKEK) EncryptWithContext(_ context.Context, pt, ad []byte) ([]byte, error) {
	return s.Encrypt(pt, ad)
}
func (s *spyKEK) DecryptWithContext(_ context.Context, ct, ad []byte) ([]byte, error) {
	return s.Decrypt(ct, ad)
}

type dekTemplate struct {
	name string
	t    *tinkpb.KeyTemplate
	key  []int // key material lengths in draw order
	n    int   // nonce field of the payload
}

// envelope encryptor under either API
type envEnc func(pt, ad []byte) ([]byte, error)

func (e *env) kmsSection() {
	o := e.o
	rng := e.rng("kms")
	tpls := []dekTemplate{
		{"AES128_GCM", aead.AES128GCMKeyTemplate(), []int{16}, 12},
		{"AES256_GCM", aead.AES256GCMKeyTemplate(), []int{32}, 12},
		{"AES256_GCM_RAW", aead.AES256GCMNoPrefixKeyTemplate(), []int{32}, 12},
		{"AES128_GCM_SIV", aead.AES128GCMSIVKeyTemplate(), []int{16}, 12},
		{"AES256_GCM_SIV", aead.AES256GCMSIVKeyTemplate(), []int{32}, 12},
		{"AES128_CTR_HMAC_SHA256", aead.AES128CTRHMACSHA256KeyTemplate(), []int{16, 32}, 16},
		{"AES256_CTR_HMAC_SHA256", aead.AES256CTRHMACSHA256KeyTemplate(), []int{32, 32}, 16},
		{"CHACHA20_POLY1305", aead.ChaCha20Poly1305KeyTemplate(), []int{32}, 12},
		{"XCHACHA20_POLY1305", aead.XChaCha20Poly1305KeyTemplate(), []int{32}, 24},
	}
	kp := must(aesgcm.NewParameters(aesgcm.ParametersOpts{KeySizeInBytes: 32, IVSizeInBytes: 12, TagSizeInBytes: 16, Variant: aesgcm.VariantNoPrefix}))
	kekInner := must(aesgcm.NewAEAD(must(aesgcm.NewKey(hlib.Secret(rng.Bytes(32)), 0, kp))))
	for _, tp := range tpls {
		o.Case()
		kek := &spyKEK{inner: kekInner}
		env2 := aead.NewKMSEnvelopeAEAD2(tp.t, kek)
		envCtx, err := aead.NewKMSEnvelopeAEADWithContext(tp.t, kek)
		if err != nil {
			o.Violate("kms envelope %s: %v", tp.name, err)
			continue
		}
		apis := []struct {
			name string
			enc  envEnc
			dec  envEnc
		}{
			{"NewKMSEnvelopeAEAD2", env2.Encrypt, env2.Decrypt},
			{"WithContext", func(pt, ad []byte) ([]byte, error) { return envCtx.EncryptWithContext(context.Background(), pt, ad) },
				func(ct, ad []byte) ([]byte, error) { return envCtx.DecryptWithContext(context.Background(), ct, ad) }},
		}
		lens := append(append([]int(nil), tp.key...), 12, tp.n)
		want := lensCSV(lens)
		// parts extracts (key material …, KEK iv, payload nonce) from one envelope ciphertext + the DEK the KEK saw
		parts := func(ct, dek []byte) ([][]byte, error) {
			if len(ct) < 4 {
				return nil, fmt.Errorf("short envelope")
			}
			l := int(binary.BigEndian.Uint32(ct))
			if len(ct) < 4+l+tp.n || l < 12 {
				return nil, fmt.Errorf("short envelope")
			}
			ser, err := protoserialization.NewKeySerialization(&tinkpb.KeyData{TypeUrl: tp.t.GetTypeUrl(), Value: dek, KeyMaterialType: tinkpb.KeyData_SYMMETRIC},
				tinkpb.OutputPrefixType_RAW, 0)
			if err != nil {
				return nil, err
			}
			k, err := protoserialization.ParseKey(ser)
			if err != nil {
				return nil, err
			}
			ps := keyMaterial(k)
			if len(ps) != len(tp.key) {
				return nil, fmt.Errorf("DEK has %d secret parts", len(ps))
			}
			return append(ps, ct[4:4+12], ct[4+l:4+l+tp.n]), nil
		}
		for _, api := range apis {
			cat := "kms/" + tp.name
			var prevDEK []byte
			for i := 0; i < hlib.N(4, 16); i++ {
				pt, ad := rng.Bytes(rng.MsgLen(200)), rng.Bytes(rng.Intn(20))
				kek.deks = nil
				var ct []byte
				e.t.Strict = true
				_, drawn := e.t.run(nil, func() { ct, err = api.enc(pt, ad) })
				e.t.Strict = false
				if err != nil || len(kek.deks) != 1 {
					o.Violate("kms envelope %s/%s: Encrypt err=%v, KEK calls=%d", tp.name, api.name, err, len(kek.deks))
					continue
				}
				e.expectPattern(cat, want)
				ps, err := parts(ct, kek.deks[0])
				if err != nil {
					o.Violate("kms envelope %s: cannot take the ciphertext apart: %v", tp.name, err)
					continue
				}
				// DEK key material, KEK iv and payload nonce are three consecutive windows of this call's tape
				o.Emit(fmt.Sprintf("!R hist %s %s", hlib.Tok(drawn), want), toks(ps), true)
				o.Count(cat + "/" + api.name)
				if bytes.Equal(prevDEK, kek.deks[0]) {
					o.Violate("kms envelope %s: the same DEK for two encryptions", tp.name)
				}
				prevDEK = kek.deks[0]
				if back, err := api.dec(ct, ad); err != nil || !bytes.Equal(back, pt) {
					o.Violate("kms envelope %s: own ciphertext does not decrypt", tp.name)
				}
				if i == 0 {
					kek.deks = nil
					var ct2 []byte
					e.t.Strict = true
					e.t.run(drawn, func() { ct2, err = api.enc(pt, ad) })
					e.t.Strict = false
					if err != nil || !bytes.Equal(ct, ct2) {
						o.Violate("kms envelope %s: replaying the tape does not reproduce the ciphertext", tp.name)
					}
					o.Count("kms/replay")
				}
			}
			// history: k envelopes, every DEK a fresh window
			k := 2 + rng.Intn(7)
			kek.deks = nil
			e.t.Reset()
			e.t.Strict = true
			var all [][]byte
			var ls []int
			seen := map[string]bool{}
			ok := true
			for i := 0; i < k && ok; i++ {
				ct, err := api.enc(rng.Bytes(rng.Intn(30)), nil)
				if err != nil || len(kek.deks) != i+1 {
					ok = false
					break
				}
				ps, err := parts(ct, kek.deks[i])
				if err != nil {
					ok = false
					break
				}
				km := string(cat2(ps[:len(tp.key)]))
				if seen[km] {
					o.Violate("kms envelope %s: DEK repeated within %d encryptions", tp.name, k)
				}
				seen[km] = true
				all = append(all, ps...)
				ls = append(ls, lens...)
			}
			drawn := e.t.Drawn()
			e.t.Strict = false
			if !ok {
				o.Violate("kms envelope %s: history failed", tp.name)
				continue
			}
			o.Emit(fmt.Sprintf("!R hist %s %s", hlib.Tok(drawn), lensCSV(ls)), toks(all), true)
			o.Count("kms/history")
		}
	}
}

func cat2(bs [][]byte) []byte { return bytes.Join(bs, nil) }
