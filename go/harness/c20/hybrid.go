//go:build verif

package main

import (
	"bytes"
	"crypto/elliptic"
	"fmt"
	"math/big"

	"github.com/tink-crypto/tink-go/v2/aead/aesctrhmac"
	"github.com/tink-crypto/tink-go/v2/aead/aesgcm"
	"github.com/tink-crypto/tink-go/v2/daead/aessiv"
	"github.com/tink-crypto/tink-go/v2/hybrid"
	"github.com/tink-crypto/tink-go/v2/hybrid/ecies"
	"github.com/tink-crypto/tink-go/v2/hybrid/hpke"
	"github.com/tink-crypto/tink-go/v2/internal/internalapi"
	"github.com/tink-crypto/tink-go/v2/internal/verifharness/hlib"
	"github.com/tink-crypto/tink-go/v2/key"
	"github.com/tink-crypto/tink-go/v2/tink"
)

// How the ephemeral secrets are made (read from the code):
//   HPKE X25519 and the X25519 half of X-Wing: subtle.GeneratePrivateKeyX25519 = rand.Read(32 bytes);
//     the bytes are the private key as they are (clamping happens inside X25519).
//   HPKE P-256/384/521: crypto/ecdh Curve.GenerateKey(rand.Reader): MaybeReadByte, then reads
//     len(N) bytes, key[1] ^= 0x42, for P-521 key[0] &= 1, rejected and redrawn if 0 or ≥ N.
//   ECIES: hybrid/subtle.GenerateECDHKeyPair = crypto/elliptic.GenerateKey(curve, rand.Reader): reads
//     len(N) bytes, masks the excess bits (P-521: priv[0] &= 1), priv[1] ^= 0x42, redraws if ≥ N;
//     after the KEM the DEM draws its own iv (AES-GCM 12, AES-CTR-HMAC 16, AES-SIV none).
//   ML-KEM-768/1024 and the ML-KEM half of X-Wing: crypto/mlkem Encapsulate() — the standard
//     library's internal DRBG, nothing passes through rand.Reader.

type curveT struct {
	name string
	ell  elliptic.Curve
	bl   int
}

var curves = []*curveT{{"P256", elliptic.P256(), 32}, {"P384", elliptic.P384(), 48}, {"P521", elliptic.P521(), 66}}

// stdScalar is what both standard-library generators make of one read of len(N) bytes;
// ok = accepted (in range and non-zero).
func (c *curveT) stdScalar(raw []byte) ([]byte, bool) {
	k := clone(raw)
	if c.bl == 66 {
		k[0] &= 1
	}
	k[1] ^= 0x42
	v := new(big.Int).SetBytes(k)
	return k, v.Sign() > 0 && v.Cmp(c.ell.Params().N) < 0
}

// rejectedRead is a read that the generators must reject (all ones after the mask/xor: ≥ N).
func (c *curveT) rejectedRead() []byte {
	b := bytes.Repeat([]byte{0xff}, c.bl)
	b[1] = 0xbd
	return b
}

// scalar draws a valid private scalar from the harness rng.
func (c *curveT) scalar(rng *hlib.Rng) []byte {
	for {
		k, ok := c.stdScalar(rng.Bytes(c.bl))
		if ok {
			return k
		}
	}
}

// ephemeral interprets the logged reads of one key generation: every read but the last rejected,
// the last accepted; returns the scalar.
func (c *curveT) ephemeral(reads [][]byte) ([]byte, error) {
	if len(reads) == 0 {
		return nil, fmt.Errorf("no read")
	}
	for i, r := range reads {
		if len(r) != c.bl {
			return nil, fmt.Errorf("read %d has %d bytes, want %d", i, len(r), c.bl)
		}
		k, ok := c.stdScalar(r)
		if i < len(reads)-1 {
			if ok {
				return nil, fmt.Errorf("read %d is a valid scalar but another one was drawn", i)
			}
			continue
		}
		if !ok {
			return nil, fmt.Errorf("last read is not a valid scalar")
		}
		return k, nil
	}
	return nil, nil
}

var vcodes = []string{"T", "C", "R"}

type kemT struct {
	name  string
	id    hpke.KEMID
	nEnc  int
	skLen int
	curve *curveT
}

var kems = []kemT{
	{"P256", hpke.DHKEM_P256_HKDF_SHA256, 65, 32, curves[0]},
	{"P384", hpke.DHKEM_P384_HKDF_SHA384, 97, 48, curves[1]},
	{"P521", hpke.DHKEM_P521_HKDF_SHA512, 133, 66, curves[2]},
	{"X25519", hpke.DHKEM_X25519_HKDF_SHA256, 32, 32, nil},
	{"XWING", hpke.X_WING, 1120, 32, nil},
	{"MLKEM768", hpke.ML_KEM768, 1088, 64, nil},
	{"MLKEM1024", hpke.ML_KEM1024, 1568, 64, nil},
}

var kdfs = []struct {
	name string
	id   hpke.KDFID
}{{"SHA256", hpke.HKDFSHA256}, {"SHA384", hpke.HKDFSHA384}, {"SHA512", hpke.HKDFSHA512}}

var haeads = []struct {
	name string
	id   hpke.AEADID
}{{"AES128GCM", hpke.AES128GCM}, {"AES256GCM", hpke.AES256GCM}, {"CHACHA", hpke.ChaCha20Poly1305}}

var hvariants = []hpke.Variant{hpke.VariantTink, hpke.VariantCrunchy, hpke.VariantNoPrefix}

type hybScheme struct {
	label string
	enc   tink.HybridEncrypt
	dec   tink.HybridDecrypt
}

// hybridRoutes: the keyset-level factory and the per-key constructor.
func (e *env) hybridRoutes(label string, priv key.Key, perKey func() (tink.HybridEncrypt, tink.HybridDecrypt, error)) []*hybScheme {
	o := e.o
	var out []*hybScheme
	h, err := hlib.HandleOf(priv)
	if err == nil {
		var ph = must(h.Public())
		en, err1 := hybrid.NewHybridEncrypt(ph)
		de, err2 := hybrid.NewHybridDecrypt(h)
		if err1 != nil || err2 != nil {
			o.Violate("%s: keyset-level primitives: %v %v", label, err1, err2)
		} else {
			out = append(out, &hybScheme{label + "/handle", en, de})
		}
	} else {
		o.Violate("%s: handle: %v", label, err)
	}
	if en, de, err := perKey(); err != nil {
		o.Violate("%s: per-key primitives: %v", label, err)
	} else {
		out = append(out, &hybScheme{label + "/perkey", en, de})
	}
	return out
}

func (e *env) hybEncrypt(s *hybScheme, strict bool, forced, pt, info []byte) (ct []byte, log [][]byte, drawn []byte, err error) {
	e.t.Strict = strict
	log, drawn = e.t.run(forced, func() { ct, err = s.enc.Encrypt(pt, info) })
	e.t.Strict = false
	return
}

func (e *env) hpkeKey(rng *hlib.Rng, k *kemT, di, ai, vi int) (*hpke.PrivateKey, uint32, error) {
	params, err := hpke.NewParameters(hpke.ParametersOpts{KEMID: k.id, KDFID: kdfs[di].id, AEADID: haeads[ai].id, Variant: hvariants[vi]})
	if err != nil {
		return nil, 0, err
	}
	id := rng.KeyID()
	if vi == 2 {
		id = 0
	}
	var sk []byte
	if k.curve != nil {
		sk = k.curve.scalar(rng)
	} else {
		sk = rng.Bytes(k.skLen)
	}
	priv, err := hpke.NewPrivateKey(hlib.Secret(sk), id, params)
	return priv, id, err
}

func hpkePerKey(priv *hpke.PrivateKey) func() (tink.HybridEncrypt, tink.HybridDecrypt, error) {
	return func() (tink.HybridEncrypt, tink.HybridDecrypt, error) {
		pk, _ := priv.PublicKey()
		en, err := hpke.NewHybridEncrypt(pk.(*hpke.PublicKey), internalapi.Token{})
		if err != nil {
			return nil, nil, err
		}
		de, err := hpke.NewHybridDecrypt(priv, internalapi.Token{})
		return en, de, err
	}
}

func (e *env) hybridSection() {
	rng := e.rng("hybrid")
	e.hpkeDH(rng)
	e.eciesSection(rng)
	e.pqSection(rng)
}

// hpkeDH: HPKE with a Diffie-Hellman KEM: the whole ciphertext recomputed by the model from the
// drawn ephemeral.
func (e *env) hpkeDH(rng *hlib.Rng) {
	o := e.o
	type combo struct{ ki, di, ai, vi int }
	var combos []combo
	for ki := 0; ki < 4; ki++ {
		for vi := 0; vi < 3; vi++ {
			n := 1
			if ki == 3 {
				n = hlib.N(2, 9) // X25519 is cheap on the model side
			} else if hlib.Thorough() {
				n = 4
			}
			for r := 0; r < n; r++ {
				combos = append(combos, combo{ki, rng.Intn(3), rng.Intn(3), vi})
			}
		}
	}
	for _, c := range combos {
		o.Case()
		k := &kems[c.ki]
		priv, id, err := e.hpkeKey(rng, k, c.di, c.ai, c.vi)
		if err != nil {
			o.Violate("hpke key %s: %v", k.name, err)
			continue
		}
		pk, _ := priv.PublicKey()
		pkR := pk.(*hpke.PublicKey).PublicKeyBytes()
		suite := fmt.Sprintf("%s %s %s", k.name, kdfs[c.di].name, haeads[c.ai].name)
		pre := 5
		if c.vi == 2 {
			pre = 0
		}
		cat := "hpke/" + k.name
		for _, s := range e.hybridRoutes("hpke "+suite+" "+vcodes[c.vi], priv, hpkePerKey(priv)) {
			rounds := 1
			if k.curve != nil {
				rounds = 2 // the second one with a forced rejection
			}
			for r := 0; r < rounds; r++ {
				pt, info := rng.Bytes(rng.MsgLen(100)), rng.Bytes(rng.Intn(20))
				var forced []byte
				if r == 1 {
					forced = k.curve.rejectedRead()
					if rng.Bool() {
						forced = append(forced, forced...)
					}
				}
				// X25519: tink's own rand.Read, strict; NIST: crypto/ecdh coin-flips a single byte
				ct, log, drawn, err := e.hybEncrypt(s, k.curve == nil, forced, pt, info)
				if err != nil || len(ct) < pre+k.nEnc {
					o.Violate("%s: Encrypt failed: %v", s.label, err)
					continue
				}
				var eph []byte
				if k.curve == nil {
					if !e.expectPattern(cat, "32") {
						continue
					}
					eph = drawn
					// the encapsulation is the public key of the drawn scalar
					o.Emit("!R x25519pub "+hlib.Tok(drawn), hlib.Tok(ct[pre:pre+32]), true)
					o.Count("hpke/x25519pub")
				} else {
					o.Count("pattern/" + cat + "=" + patternOf(log))
					if eph, err = k.curve.ephemeral(log); err != nil {
						o.Violate("%s: reads of crypto/ecdh GenerateKey do not explain themselves: %v", s.label, err)
						continue
					}
					if r == 1 {
						o.Count("hpke/forced-rejection/" + k.name)
					}
				}
				// the model encrypts with this ephemeral: the entire ciphertext is a function of the tape
				o.Emit(fmt.Sprintf("!H hpkeenc %s %s %d %s %s %s %s", suite, vcodes[c.vi], id, hlib.Tok(pkR), hlib.Tok(eph), hlib.Tok(pt), hlib.Tok(info)),
					"ok "+hlib.Tok(ct), true)
				o.Count(cat + "/ciphertext-from-tape/" + s.label[lastSlash(s.label)+1:])
				if back, err := s.dec.Decrypt(ct, info); err != nil || !bytes.Equal(back, pt) {
					o.Violate("%s: own ciphertext does not decrypt", s.label)
				}
				if r == 0 {
					ct2, _, _, err := e.hybEncrypt(s, k.curve == nil, drawn, pt, info)
					if err != nil || !bytes.Equal(ct, ct2) {
						o.Violate("%s: replaying the tape does not reproduce the ciphertext", s.label)
					}
					d3 := clone(drawn)
					d3[2+rng.Intn(len(d3)-2)] ^= 1 << uint(rng.Intn(8))
					ct3, _, _, err := e.hybEncrypt(s, k.curve == nil, d3, pt, info)
					if err != nil || bytes.Equal(ct3[pre:pre+k.nEnc], ct[pre:pre+k.nEnc]) {
						o.Violate("%s: a different tape gives the same encapsulation", s.label)
					}
					o.Count(cat + "/replay+perturb")
				}
			}
		}
	}
}

type demT struct {
	name, model string
	ivLen       int
	params      func() key.Parameters
}

var dems = []demT{
	{"AES128-GCM", "gcm 16", 12, func() key.Parameters {
		return must(aesgcm.NewParameters(aesgcm.ParametersOpts{KeySizeInBytes: 16, IVSizeInBytes: 12, TagSizeInBytes: 16, Variant: aesgcm.VariantNoPrefix}))
	}},
	{"AES256-GCM", "gcm 32", 12, func() key.Parameters {
		return must(aesgcm.NewParameters(aesgcm.ParametersOpts{KeySizeInBytes: 32, IVSizeInBytes: 12, TagSizeInBytes: 16, Variant: aesgcm.VariantNoPrefix}))
	}},
	{"AES128-CTR-HMAC-SHA256", "ctrhmac 16 32 SHA256 16 16", 16, func() key.Parameters {
		return must(aesctrhmac.NewParameters(aesctrhmac.ParametersOpts{AESKeySizeInBytes: 16, HMACKeySizeInBytes: 32, IVSizeInBytes: 16,
			HashType: aesctrhmac.SHA256, TagSizeInBytes: 16, Variant: aesctrhmac.VariantNoPrefix}))
	}},
	{"AES256-CTR-HMAC-SHA256", "ctrhmac 32 32 SHA256 16 32", 16, func() key.Parameters {
		return must(aesctrhmac.NewParameters(aesctrhmac.ParametersOpts{AESKeySizeInBytes: 32, HMACKeySizeInBytes: 32, IVSizeInBytes: 16,
			HashType: aesctrhmac.SHA256, TagSizeInBytes: 32, Variant: aesctrhmac.VariantNoPrefix}))
	}},
	{"AES256-SIV", "siv", 0, func() key.Parameters { return must(aessiv.NewParameters(64, aessiv.VariantNoPrefix)) }},
}

var ehashes = []struct {
	name string
	id   ecies.HashType
}{{"SHA1", ecies.SHA1}, {"SHA224", ecies.SHA224}, {"SHA256", ecies.SHA256}, {"SHA384", ecies.SHA384}, {"SHA512", ecies.SHA512}}

var efmts = []struct {
	code string
	id   ecies.PointFormat
}{{"U", ecies.UncompressedPointFormat}, {"C", ecies.CompressedPointFormat}, {"L", ecies.LegacyUncompressedPointFormat}}

var ecurves = []ecies.CurveType{ecies.NISTP256, ecies.NISTP384, ecies.NISTP521}
var evariants = []ecies.Variant{ecies.VariantTink, ecies.VariantCrunchy, ecies.VariantNoPrefix}

func (c *curveT) hdrLen(f string) int {
	switch f {
	case "C":
		return c.bl + 1
	case "L":
		return 2 * c.bl
	}
	return 2*c.bl + 1
}

func (e *env) eciesSection(rng *hlib.Rng) {
	o := e.o
	n := hlib.N(45, 300)
	for cI := 0; cI < n; cI++ {
		o.Case()
		ci, vi, mi := cI%3, (cI/3)%3, (cI/9+cI)%len(dems)
		hi, fi := rng.Intn(len(ehashes)), rng.Intn(3)
		c, dm, f := curves[ci], &dems[mi], efmts[fi]
		salt := rng.Bytes(rng.Pick(0, 16, 40))
		id := rng.KeyID()
		if vi == 2 {
			id = 0
		}
		suite := fmt.Sprintf("%s %s %s %s %s", c.name, ehashes[hi].name, f.code, dm.model, hlib.Tok(salt))
		params, err := ecies.NewParameters(ecies.ParametersOpts{CurveType: ecurves[ci], HashType: ehashes[hi].id, NISTCurvePointFormat: f.id,
			DEMParameters: dm.params(), Salt: salt, Variant: evariants[vi]})
		if err != nil {
			o.Violate("ecies.NewParameters(%s): %v", suite, err)
			continue
		}
		priv, err := ecies.NewPrivateKey(hlib.Secret(c.scalar(rng)), id, params)
		if err != nil {
			o.Violate("ecies.NewPrivateKey(%s): %v", suite, err)
			continue
		}
		pk, _ := priv.PublicKey()
		pub := pk.(*ecies.PublicKey).PublicKeyBytes()
		pre := 5
		if vi == 2 {
			pre = 0
		}
		perKey := func() (tink.HybridEncrypt, tink.HybridDecrypt, error) {
			en, err := ecies.NewHybridEncrypt(pk.(*ecies.PublicKey), internalapi.Token{})
			if err != nil {
				return nil, nil, err
			}
			de, err := ecies.NewHybridDecrypt(priv, internalapi.Token{})
			return en, de, err
		}
		cat := "ecies/" + c.name
		for _, s := range e.hybridRoutes("ecies "+suite+" "+vcodes[vi], priv, perKey) {
			for r := 0; r < 2; r++ {
				pt, info := rng.Bytes(rng.MsgLen(100)), rng.Bytes(rng.Intn(20))
				var forced []byte
				if r == 1 {
					if cI%2 == 1 {
						break
					}
					forced = c.rejectedRead()
				}
				// crypto/elliptic.GenerateKey does not coin-flip: strict tape
				ct, log, drawn, err := e.hybEncrypt(s, true, forced, pt, info)
				hl := c.hdrLen(f.code)
				if err != nil || len(ct) < pre+hl+dm.ivLen {
					o.Violate("%s: Encrypt failed: %v", s.label, err)
					continue
				}
				o.Count("pattern/" + cat + "/" + dm.name + "=" + patternOf(log))
				kemReads, rnd := log, []byte{}
				if dm.ivLen > 0 {
					if len(log) < 2 || len(log[len(log)-1]) != dm.ivLen {
						o.Violate("%s: the last read is not the DEM's %d-byte iv (pattern %s)", s.label, dm.ivLen, patternOf(log))
						continue
					}
					kemReads, rnd = log[:len(log)-1], log[len(log)-1]
				}
				eph, err := c.ephemeral(kemReads)
				if err != nil {
					o.Violate("%s: reads of crypto/elliptic.GenerateKey do not explain themselves: %v", s.label, err)
					continue
				}
				wantReads := 1 + r
				if len(kemReads) != wantReads {
					o.Violate("%s: %d scalar reads, want %d", s.label, len(kemReads), wantReads)
				}
				if r == 1 {
					o.Count("ecies/forced-rejection/" + c.name)
				}
				// the DEM's iv sits behind the KEM header
				if dm.ivLen > 0 {
					o.Emit(fmt.Sprintf("!R field %d %d %s", pre+hl, dm.ivLen, hlib.Tok(ct)), hlib.Tok(rnd), true)
				}
				o.Emit(fmt.Sprintf("!H eciesenc %s %s %d %s %s %s %s %s", suite, vcodes[vi], id, hlib.Tok(pub), hlib.Tok(eph), hlib.Tok(rnd), hlib.Tok(pt), hlib.Tok(info)),
					"ok "+hlib.Tok(ct), true)
				o.Count(cat + "/ciphertext-from-tape/" + s.label[lastSlash(s.label)+1:])
				o.Count("ecies/dem/" + dm.name)
				o.Count("ecies/format/" + f.code)
				o.Count("ecies/variant/" + vcodes[vi])
				if back, err := s.dec.Decrypt(ct, info); err != nil || !bytes.Equal(back, pt) {
					o.Violate("%s: own ciphertext does not decrypt", s.label)
				}
				if r == 0 {
					ct2, _, _, err := e.hybEncrypt(s, true, drawn, pt, info)
					if err != nil || !bytes.Equal(ct, ct2) {
						o.Violate("%s: replaying the tape does not reproduce the ciphertext", s.label)
					}
					d3 := clone(drawn)
					d3[2+rng.Intn(c.bl-2)] ^= 1 << uint(rng.Intn(8))
					ct3, _, _, err := e.hybEncrypt(s, true, d3, pt, info)
					if err != nil || bytes.Equal(ct3[pre:pre+hl], ct[pre:pre+hl]) {
						o.Violate("%s: a different tape gives the same KEM header", s.label)
					}
					o.Count(cat + "/replay+perturb")
				}
			}
		}
	}
}

// pqSection: ML-KEM and X-Wing. The ML-KEM encapsulation randomness is the standard library's
// internal DRBG: only repetition can be screened. The X25519 half of X-Wing is observable.
func (e *env) pqSection(rng *hlib.Rng) {
	o := e.o
	for ki := 4; ki < 7; ki++ {
		o.Case()
		k := &kems[ki]
		vi := ki % 3
		priv, _, err := e.hpkeKey(rng, k, 0, 1, vi)
		if err != nil {
			o.Violate("hpke key %s: %v", k.name, err)
			continue
		}
		pre := 5
		if vi == 2 {
			pre = 0
		}
		for _, s := range e.hybridRoutes("hpke "+k.name, priv, hpkePerKey(priv)) {
			seen := map[string]bool{}
			N := hlib.N(24, 300)
			pt, info := rng.Bytes(20), rng.Bytes(4)
			for i := 0; i < N; i++ {
				ct, _, drawn, err := e.hybEncrypt(s, true, nil, pt, info)
				if err != nil || len(ct) < pre+k.nEnc {
					o.Violate("%s: Encrypt failed: %v", s.label, err)
					break
				}
				enc := ct[pre : pre+k.nEnc]
				if seen[string(enc)] {
					o.Violate("%s: encapsulation repeated within %d encryptions", s.label, N)
				}
				seen[string(enc)] = true
				if i == 0 {
					if back, err := s.dec.Decrypt(ct, info); err != nil || !bytes.Equal(back, pt) {
						o.Violate("%s: own ciphertext does not decrypt", s.label)
					}
				}
				if k.name == "XWING" {
					e.expectPattern("hpke/XWING", "32")
					if i < hlib.N(4, 40) && len(drawn) == 32 {
						// ct_X, the last 32 bytes of the encapsulation, is the public key of the drawn scalar
						o.Emit("!R x25519pub "+hlib.Tok(drawn), hlib.Tok(enc[1088:1120]), true)
						o.Count("hpke/XWING/x25519-half-from-tape")
					}
					if i == 0 {
						// same tape, the ML-KEM half still differs: its randomness is not the tape's
						ct2, _, _, _ := e.hybEncrypt(s, true, drawn, pt, info)
						if len(ct2) == len(ct) && !bytes.Equal(ct2[pre+1088:pre+1120], enc[1088:1120]) {
							o.Violate("%s: X25519 half differs under a replayed tape", s.label)
						}
						if len(ct2) == len(ct) && bytes.Equal(ct2[pre:pre+1088], enc[:1088]) {
							o.Violate("%s: ML-KEM half identical in two encapsulations", s.label)
						}
					}
				} else {
					e.expectPattern("hpke/"+k.name, "-")
				}
			}
			o.Count("hpke/" + k.name + "/no-repetition-screen")
			o.Count("mlkem-internal-drbg")
		}
	}
}
