//go:build verif

package main

import (
	"bytes"
	"fmt"
	"io"

	"github.com/tink-crypto/tink-go/v2/internal/primitiveregistry"
	"github.com/tink-crypto/tink-go/v2/internal/verifharness/hlib"
	"github.com/tink-crypto/tink-go/v2/key"
	"github.com/tink-crypto/tink-go/v2/streamingaead"
	sctr "github.com/tink-crypto/tink-go/v2/streamingaead/aesctrhmac"
	sgcm "github.com/tink-crypto/tink-go/v2/streamingaead/aesgcmhkdf"
	ssubtle "github.com/tink-crypto/tink-go/v2/streamingaead/subtle"
	"github.com/tink-crypto/tink-go/v2/tink"
)

// Streaming AEAD headers: len ‖ salt(derived key size) ‖ noncePrefix(7).
// Draw order in the code (streamingaead/subtle/aes_gcm_hkdf.go and aes_ctr_hmac.go,
// NewEncryptingWriter): first `salt := random.GetRandomBytes(keySizeInBytes)`, then
// `noncePrefix := random.GetRandomBytes(7)` — two reads, salt first.

type streamScheme struct {
	fam, label string
	derived    int // length of the salt = derived key size
	s          tink.StreamingAEAD
	seg        int
}

func (e *env) streamSchemes(rng *hlib.Rng) []*streamScheme {
	o := e.o
	var out []*streamScheme
	hn := []string{"SHA1", "SHA256", "SHA512"}
	gh := []sgcm.HashType{sgcm.SHA1, sgcm.SHA256, sgcm.SHA512}
	ch := []sctr.HashType{sctr.SHA1, sctr.SHA256, sctr.SHA512}
	tagMax := []int{20, 32, 64}
	routes := func(fam, cfg string, derived, seg int, k key.Key, sub func() (tink.StreamingAEAD, error)) {
		add := func(path string, s tink.StreamingAEAD) {
			out = append(out, &streamScheme{fam: fam, label: cfg + "/" + path, derived: derived, s: s, seg: seg})
		}
		h, err := hlib.HandleOf(k)
		if err != nil {
			o.Violate("%s: handle: %v", cfg, err)
			return
		}
		if s, err := streamingaead.New(h); err != nil {
			o.Violate("%s: streamingaead.New: %v", cfg, err)
		} else {
			add("handle", s)
		}
		if p, err := primitiveregistry.Primitive(k); err == nil {
			if s, ok := p.(tink.StreamingAEAD); ok {
				add("perkey", s)
			}
		} else {
			o.Count("stream/no-primitive-constructor/" + fam)
		}
		if s, err := sub(); err != nil {
			o.Violate("%s: subtle constructor: %v", cfg, err)
		} else {
			add("subtle", s)
		}
	}
	for _, ks := range []int{16, 32} {
		for _, derived := range []int{16, 32} {
			if derived > ks {
				continue
			}
			for rep := 0; rep < hlib.N(1, 3); rep++ {
				hi := rng.Intn(3)
				seg := rng.Pick(derived+24+1+rng.Intn(8), 256, 1024, 4096)
				kb := rng.Bytes(ks)
				p, err := sgcm.NewParameters(sgcm.ParametersOpts{KeySizeInBytes: ks, DerivedKeySizeInBytes: derived, HKDFHashType: gh[hi], SegmentSizeInBytes: int32(seg)})
				if err != nil {
					o.Violate("aesgcmhkdf.NewParameters(%d,%d,%d): %v", ks, derived, seg, err)
					continue
				}
				k, err := sgcm.NewKey(p, hlib.Secret(kb))
				if err != nil {
					o.Violate("aesgcmhkdf.NewKey: %v", err)
					continue
				}
				off := rng.Pick(0, 0, 5)
				cfg := fmt.Sprintf("aesgcmhkdf-k%d-d%d-%s-seg%d", ks, derived, hn[hi], seg)
				routes("aesgcmhkdf", cfg, derived, seg, k, func() (tink.StreamingAEAD, error) {
					if seg <= off+1+derived+7+16 {
						off = 0
					}
					return ssubtle.NewAESGCMHKDF(kb, hn[hi], derived, seg, off)
				})

				hi2, ti := rng.Intn(3), rng.Intn(3)
				tag := 10 + rng.Intn(tagMax[ti]-9)
				seg2 := rng.Pick(derived+8+tag+1+rng.Intn(8), 256, 1024, 4096)
				kb2 := rng.Bytes(ks)
				p2, err := sctr.NewParameters(sctr.ParametersOpts{KeySizeInBytes: ks, DerivedKeySizeInBytes: derived, HkdfHashType: ch[hi2], HmacHashType: ch[ti],
					HmacTagSizeInBytes: tag, SegmentSizeInBytes: int32(seg2)})
				if err != nil {
					o.Violate("streaming aesctrhmac.NewParameters: %v", err)
					continue
				}
				k2, err := sctr.NewKey(p2, hlib.Secret(kb2))
				if err != nil {
					o.Violate("streaming aesctrhmac.NewKey: %v", err)
					continue
				}
				cfg2 := fmt.Sprintf("aesctrhmac-k%d-d%d-%s-%s-tag%d-seg%d", ks, derived, hn[hi2], hn[ti], tag, seg2)
				routes("aesctrhmac-streaming", cfg2, derived, seg2, k2, func() (tink.StreamingAEAD, error) {
					return ssubtle.NewAESCTRHMAC(kb2, hn[hi2], derived, hn[ti], tag, seg2, 0)
				})
			}
		}
	}
	return out
}

// streamEnc encrypts pt with a fresh writer and returns the whole ciphertext.
func streamEnc(s tink.StreamingAEAD, pt, ad []byte, chunk int) ([]byte, error) {
	var buf bytes.Buffer
	w, err := s.NewEncryptingWriter(&buf, ad)
	if err != nil {
		return nil, err
	}
	for len(pt) > 0 {
		n := min(chunk, len(pt))
		if _, err := w.Write(pt[:n]); err != nil {
			return nil, err
		}
		pt = pt[n:]
	}
	if err := w.Close(); err != nil {
		return nil, err
	}
	return buf.Bytes(), nil
}

func (e *env) streamSection() {
	o := e.o
	rng := e.rng("stream")
	for _, s := range e.streamSchemes(rng) {
		o.Case()
		cat := "stream/" + s.fam
		hl := 1 + s.derived + 7
		want := fmt.Sprintf("%d,7", s.derived)
		for i := 0; i < hlib.N(6, 24); i++ {
			pt := rng.Bytes(rng.Pick(0, 1, rng.Intn(100), s.seg, 2*s.seg+rng.Intn(50), rng.Intn(3*s.seg+1)) % 20000)
			ad := rng.Bytes(rng.Intn(24))
			var ct []byte
			var err error
			e.t.Strict = true
			log, drawn := e.t.run(nil, func() { ct, err = streamEnc(s.s, pt, ad, 1+rng.Intn(700)) })
			e.t.Strict = false
			if err != nil || len(ct) < hl {
				o.Violate("%s: encrypting writer failed: %v", s.label, err)
				break
			}
			if !e.expectPattern(cat, want) {
				continue
			}
			// the model's header layout against the two reads in draw order: salt, then nonce prefix
			o.Emit(fmt.Sprintf("!R hdr %d %s", s.derived, hlib.Tok(ct[:hl])), hlib.Tok(log[0])+" "+hlib.Tok(log[1]), true)
			o.Count(cat + "/hdr/" + s.label[lastSlash(s.label)+1:])
			if int(ct[0]) != hl {
				o.Violate("%s: header length byte %d, want %d", s.label, ct[0], hl)
			}
			r, err := s.s.NewDecryptingReader(bytes.NewReader(ct), ad)
			if err == nil {
				var back []byte
				back, err = io.ReadAll(r)
				if err == nil && !bytes.Equal(back, pt) {
					err = fmt.Errorf("plaintext differs")
				}
			}
			if err != nil {
				o.Violate("%s: own ciphertext does not decrypt: %v", s.label, err)
			}
			if i > 0 {
				continue
			}
			var ct2 []byte
			e.t.Strict = true
			e.t.run(drawn, func() { ct2, err = streamEnc(s.s, pt, ad, 64) })
			e.t.Strict = false
			if err != nil || !bytes.Equal(ct, ct2) {
				o.Violate("%s: replaying the tape does not reproduce the ciphertext", s.label)
			}
			o.Count(cat + "/replay")
			j := rng.Intn(len(drawn))
			d3 := clone(drawn)
			d3[j] ^= 1 << uint(rng.Intn(8))
			var ct3 []byte
			e.t.Strict = true
			e.t.run(d3, func() { ct3, err = streamEnc(s.s, pt, ad, 64) })
			e.t.Strict = false
			if err != nil || len(ct3) != len(ct) || !bytes.Equal(ct3[1:hl], d3) || ct3[0] != ct[0] {
				o.Violate("%s: flipping tape byte %d does not flip exactly header byte %d", s.label, j, 1+j)
			} else if bytes.Equal(ct3[hl:], ct[hl:]) {
				o.Violate("%s: segments do not depend on salt / nonce prefix", s.label)
			}
			o.Count(cat + "/perturb")
		}
		// history of k writers
		for hI := 0; hI < hlib.N(2, 6); hI++ {
			k := 2 + rng.Intn(11)
			e.t.Reset()
			e.t.Strict = true
			var fs [][]byte
			var ls []int
			seen := map[string]bool{}
			bad := false
			for i := 0; i < k; i++ {
				ct, err := streamEnc(s.s, rng.Bytes(rng.Intn(60)), nil, 64)
				if err != nil || len(ct) < hl {
					bad = true
					break
				}
				if seen[string(ct[1:hl])] {
					o.Violate("%s: salt ‖ nonce prefix repeated within %d writers", s.label, k)
				}
				seen[string(ct[1:hl])] = true
				fs = append(fs, ct[1:1+s.derived], ct[1+s.derived:hl])
				ls = append(ls, s.derived, 7)
			}
			all := e.t.Drawn()
			e.t.Strict = false
			if bad {
				o.Violate("%s: history failed", s.label)
				continue
			}
			o.Emit(fmt.Sprintf("!R hist %s %s", hlib.Tok(all), lensCSV(ls)), toks(fs), true)
			o.Count(cat + "/history")
		}
	}
}

func lastSlash(s string) int {
	for i := len(s) - 1; i >= 0; i-- {
		if s[i] == '/' {
			return i
		}
	}
	return -1
}
