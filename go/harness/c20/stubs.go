//go:build verif

package main

func (e *env) kmsSection()    {}
func (e *env) streamSection() {}
func (e *env) hybridSection() {}
func (e *env) sigSection()    {}
func (e *env) keygenSection() {}
func (e *env) idSection()     {}
func (e *env) statSection()   {}
