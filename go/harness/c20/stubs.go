//go:build verif

package main

func (e *env) sigSection()    {}
func (e *env) keygenSection() {}
func (e *env) idSection()     {}
func (e *env) statSection()   {}
