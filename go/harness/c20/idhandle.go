//go:build verif

package main

// Key ids of managers that start from an existing handle (keyset.NewManagerFromHandle).
//
// idSection (keygen.go) starts every history from an empty manager and asks the model with the manager's OWN
// unavailable-id set. Here the starting state is a handle holding keys with and without id requirement (TINK,
// CRUNCHY, RAW / no-prefix variants, IgnoredKID), enabled and disabled, passed on directly or through a serialized
// keyset, and the set of ids the model is given is the harness's own bookkeeping: the ids of the handle's entries
// plus every id handed out since. The tape is forced to replay ids of existing entries — RAW ones first of all —
// and the manager must redraw (model: Manager.drawId, theorems drawId_fresh / ids_pairwise_distinct).

import (
	"bytes"
	"encoding/binary"
	"fmt"

	"github.com/tink-crypto/tink-go/v2/aead"
	"github.com/tink-crypto/tink-go/v2/insecurecleartextkeyset"
	"github.com/tink-crypto/tink-go/v2/internal/internalapi"
	"github.com/tink-crypto/tink-go/v2/internal/keygenregistry"
	"github.com/tink-crypto/tink-go/v2/internal/protoserialization"
	"github.com/tink-crypto/tink-go/v2/internal/verifharness/hlib"
	"github.com/tink-crypto/tink-go/v2/jwt"
	"github.com/tink-crypto/tink-go/v2/key"
	"github.com/tink-crypto/tink-go/v2/keyset"
	"github.com/tink-crypto/tink-go/v2/mac"
	"github.com/tink-crypto/tink-go/v2/signature"

	tinkpb "github.com/tink-crypto/tink-go/v2/proto/tink_go_proto"
)

func (e *env) idHandleSection() {
	o := e.o
	rng := e.rng("idhandle")
	rawTpls := []*tinkpb.KeyTemplate{aead.AES256GCMNoPrefixKeyTemplate(), aead.AES256GCMSIVNoPrefixKeyTemplate(), aead.XAES256GCM192BitNonceNoPrefixKeyTemplate(),
		signature.ED25519KeyWithoutPrefixTemplate(), jwt.RawHS256Template()}
	idTpls := []*tinkpb.KeyTemplate{aead.AES128GCMKeyTemplate(), mac.HMACSHA256Tag128KeyTemplate(), aead.ChaCha20Poly1305KeyTemplate(), signature.ED25519KeyTemplate()}
	// families must not be mixed in one keyset for Handle() to be usable; ids do not care, and Manager.Handle()
	// does not look at the primitive class
	pickTpl := func(raw bool) *tinkpb.KeyTemplate {
		if raw {
			return rawTpls[rng.Intn(len(rawTpls))]
		}
		return idTpls[rng.Intn(len(idTpls))]
	}
	boundary := []uint32{0, 1, 0x7fffffff, 0x80000000, 0xffffffff, 0x01000000}
	for c := 0; c < hlib.N(30, 250); c++ {
		o.Case()
		// ---- the starting handle: shape c%5: all RAW · single RAW · mixed · mixed, RAW primary · no RAW (control)
		shape := c % 5
		nKeys := 1
		if shape != 1 {
			nKeys = 2 + rng.Intn(5)
		}
		m0 := keyset.NewManager()
		var known []uint32 // the harness's own record of every id in the keyset
		rawIDs := map[uint32]bool{}
		e.t.Strict = true
		failed := false
		for i := 0; i < nKeys; i++ {
			raw := shape <= 1 || (shape != 4 && (i == 0 || rng.Bool()))
			w := uint32(rng.U64())
			if rng.Chance(25) {
				w = boundary[rng.Intn(len(boundary))]
			}
			for containsU32(known, w) {
				w = uint32(rng.U64())
			}
			var id uint32
			var err error
			e.t.run(be32(w), func() { id, err = m0.Add(pickTpl(raw)) })
			if err != nil || id != w {
				o.Violate("building the starting keyset: Add gave id %d, err %v (forced word %d)", id, err, w)
				failed = true
				break
			}
			known = append(known, id)
			if raw {
				rawIDs[id] = true
			}
			if i > 0 && rng.Chance(25) {
				m0.Disable(id)
			}
		}
		e.t.Strict = false
		if failed {
			continue
		}
		prim := known[0]
		if shape == 2 {
			for _, id := range known {
				if !rawIDs[id] {
					prim = id
				}
			}
		}
		m0.Enable(prim)
		if err := m0.SetPrimary(prim); err != nil {
			o.Violate("building the starting keyset: SetPrimary: %v", err)
			continue
		}
		h, err := m0.Handle()
		if err != nil {
			o.Violate("building the starting keyset: Handle: %v", err)
			continue
		}
		transport := c / 5 % 3
		switch transport {
		case 1, 2:
			// through a serialized keyset (binary / JSON): the entries are parsed keys
			var buf bytes.Buffer
			var w keyset.Writer = keyset.NewBinaryWriter(&buf)
			if transport == 2 {
				w = keyset.NewJSONWriter(&buf)
			}
			if err := insecurecleartextkeyset.Write(h, w); err != nil {
				o.Violate("writing the starting keyset: %v", err)
				continue
			}
			var r keyset.Reader = keyset.NewBinaryReader(&buf)
			if transport == 2 {
				r = keyset.NewJSONReader(&buf)
			}
			if h, err = insecurecleartextkeyset.Read(r); err != nil {
				o.Violate("reading the starting keyset back: %v", err)
				continue
			}
		}
		// the ids as the handle shows them
		var hid []uint32
		for i := 0; i < h.Len(); i++ {
			en, err := h.Entry(i)
			if err != nil {
				break
			}
			hid = append(hid, en.KeyID())
			if _, need := en.Key().IDRequirement(); need == rawIDs[en.KeyID()] {
				o.Violate("starting handle: entry %d (id %d) has id requirement %v, built RAW=%v", i, en.KeyID(), need, rawIDs[en.KeyID()])
			}
		}
		if fmt.Sprint(hid) != fmt.Sprint(known) {
			o.Violate("starting handle shows ids %v, built with %v", hid, known)
			continue
		}
		o.Count(fmt.Sprintf("idhandle/start/shape=%d/transport=%d", shape, transport))
		m := keyset.NewManagerFromHandle(h)
		// ---- a history of additions, every draw forced onto existing ids first
		steps := 3 + rng.Intn(6)
		for st := 0; st < steps; st++ {
			var forced []uint32
			nColl := 1 + rng.Intn(3)
			if st > 0 && rng.Chance(20) {
				nColl = 0
			}
			for ; nColl > 0; nColl-- {
				w := known[rng.Intn(len(known))]
				if len(rawIDs) > 0 && rng.Chance(60) {
					// an id of a key WITHOUT id requirement
					var rs []uint32
					for _, id := range known {
						if rawIDs[id] {
							rs = append(rs, id)
						}
					}
					w = rs[rng.Intn(len(rs))]
				}
				forced = append(forced, w)
				if rng.Chance(25) {
					forced = append(forced, w)
				}
			}
			if rng.Chance(30) {
				forced = append(forced, boundary[rng.Intn(len(boundary))])
			}
			var fb []byte
			for _, w := range forced {
				fb = append(fb, be32(w)...)
			}
			op := rng.Intn(10)
			newRaw := rng.Bool()
			tpl := pickTpl(newRaw)
			var extKey key.Key
			if op >= 8 {
				extKey = must(keygenregistry.CreateKey(must(protoserialization.ParseParameters(aead.AES256GCMNoPrefixKeyTemplate())), 0))
				newRaw = true
			}
			var id uint32
			var err error
			e.t.Strict = true
			log, _ := e.t.run(fb, func() {
				switch {
				case op < 5:
					id, err = m.Add(tpl)
				case op < 8:
					id, err = m.AddNewKeyFromParameters(must(protoserialization.ParseParameters(tpl)))
				default:
					id, err = m.AddKeyWithOpts(extKey, internalapi.Token{})
				}
			})
			e.t.Strict = false
			if err != nil {
				o.Violate("manager from handle: add failed: %v", err)
				break
			}
			var words []uint32
			var accepted []byte
			for _, l := range log {
				if len(l) != 4 {
					break
				}
				words = append(words, binary.BigEndian.Uint32(l))
				accepted = l
			}
			if len(words) == 0 {
				o.Violate("manager from handle: no 4-byte id read (pattern %s)", patternOf(log))
				break
			}
			// the model's draw over the ids the KEYSET holds (not over the manager's own set)
			o.Emit(fmt.Sprintf("!R id %s %s", hlib.U32List(hlib.SortedU32(append([]uint32(nil), known...))), hlib.U32List(words)), fmt.Sprint(id), true)
			o.Emit("!R word "+hlib.Tok(accepted), fmt.Sprint(id), true)
			o.Count(fmt.Sprintf("idhandle/redraws=%d", len(words)-1))
			if containsU32(known, id) {
				raw := ""
				if rawIDs[id] {
					raw = " (a key without id requirement)"
				}
				o.Violate("manager built from a handle handed out id %d, which an existing entry%s already has (drawn words %v)", id, raw, words)
			}
			known = append(known, id)
			if newRaw {
				rawIDs[id] = true
			}
			// a key whose fixed id is the id of an existing entry must be refused, and nothing drawn
			if rng.Chance(40) {
				dup := known[rng.Intn(len(known))]
				fk, err := keygenregistry.CreateKey(must(protoserialization.ParseParameters(aead.AES128GCMKeyTemplate())), dup)
				if err == nil {
					e.t.Strict = true
					log, _ := e.t.run(nil, func() { _, err = m.AddKeyWithOpts(fk, internalapi.Token{}) })
					e.t.Strict = false
					if err == nil {
						o.Violate("manager built from a handle accepted a key with fixed id %d although an entry (RAW=%v) has this id", dup, rawIDs[dup])
						break
					}
					if len(log) != 0 {
						o.Violate("refused AddKey drew randomness (%s)", patternOf(log))
					}
					o.Count("idhandle/fixed-id-duplicate-refused")
				}
			}
		}
		// the final keyset: pairwise distinct ids, and exactly the recorded ones
		es, _ := keyset.VerifManagerDump(m)
		seen := map[uint32]bool{}
		for _, en := range es {
			if seen[en.ID] {
				o.Violate("keyset of a manager built from a handle holds id %d twice", en.ID)
			}
			seen[en.ID] = true
		}
		if len(es) != len(known) {
			o.Violate("manager holds %d entries, %d recorded", len(es), len(known))
		}
		o.Count("idhandle/final-distinct")
	}
}

func containsU32(xs []uint32, x uint32) bool {
	for _, y := range xs {
		if y == x {
			return true
		}
	}
	return false
}
