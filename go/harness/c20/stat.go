//go:build verif

package main

import (
	"crypto/rand"
	"fmt"

	"github.com/tink-crypto/tink-go/v2/aead"
	"github.com/tink-crypto/tink-go/v2/aead/aesctrhmac"
	"github.com/tink-crypto/tink-go/v2/internal/verifharness/hlib"
	"github.com/tink-crypto/tink-go/v2/keyset"
	"github.com/tink-crypto/tink-go/v2/streamingaead"
	"github.com/tink-crypto/tink-go/v2/tink"
)

// Statistical support with the REAL crypto/rand.Reader. Not part of the line protocol (nothing here
// is a function of the seed); the thresholds are so wide that a false alarm has probability far
// below 1e-9 per run:
//   - no random field repeats among N outputs (12-byte fields, N = 2e5: collision probability < 1e-18)
//   - per byte position, chi-square over the 256 values (255 degrees of freedom: mean 255, standard
//     deviation 22.6) must stay below 520 (more than 11 standard deviations)
//   - per bit position, the fraction of ones must lie in [45%, 55%] (N = 2e4: 14 standard deviations)
// A constant, counter-like, truncated or low-entropy field fails all three at once.

type statAcc struct {
	n     int
	width int
	cnt   [][256]int
	seen  map[string]struct{}
	dup   int
}

func newStat(width int) *statAcc {
	return &statAcc{width: width, cnt: make([][256]int, width), seen: map[string]struct{}{}}
}

func (s *statAcc) add(f []byte) {
	if len(f) != s.width {
		s.dup = -1 << 30 // malformed: reported below
		return
	}
	s.n++
	for i, b := range f {
		s.cnt[i][b]++
	}
	if _, ok := s.seen[string(f)]; ok {
		s.dup++
	}
	s.seen[string(f)] = struct{}{}
}

func (s *statAcc) report(e *env, name string, allowDup bool) {
	o := e.o
	if s.dup < 0 {
		o.Violate("stat %s: an output is too short to carry its random field", name)
		return
	}
	if s.dup > 0 && !allowDup {
		o.Violate("stat %s: %d repeated random fields among %d outputs (real crypto/rand.Reader)", name, s.dup, s.n)
	}
	maxChi, minBit, maxBit := 0.0, 1.0, 0.0
	exp := float64(s.n) / 256
	for i := 0; i < s.width; i++ {
		chi := 0.0
		var ones [8]int
		for v := 0; v < 256; v++ {
			d := float64(s.cnt[i][v]) - exp
			chi += d * d / exp
			for b := 0; b < 8; b++ {
				if v>>uint(b)&1 == 1 {
					ones[b] += s.cnt[i][v]
				}
			}
		}
		if chi > maxChi {
			maxChi = chi
		}
		if chi >= 520 {
			o.Violate("stat %s: byte position %d is not uniform: chi-square %.0f over 256 bins, N=%d (real crypto/rand.Reader)", name, i, chi, s.n)
		}
		for b := 0; b < 8; b++ {
			fr := float64(ones[b]) / float64(s.n)
			if fr < minBit {
				minBit = fr
			}
			if fr > maxBit {
				maxBit = fr
			}
			if fr < 0.45 || fr > 0.55 {
				o.Violate("stat %s: bit %d of byte %d is set in %.1f%% of %d outputs (real crypto/rand.Reader)", name, b, i, 100*fr, s.n)
			}
		}
	}
	o.Count("stat/" + name + "/screened")
	// the measured values, for the evidence (not deterministic, not part of any line)
	o.Count(fmt.Sprintf("stat/%s/N=%d,positions=%d,max-chi2=%.0f,bit-fraction=%.3f..%.3f,repeats=%d", name, s.n, s.width, maxChi, minBit, maxBit, s.dup))
}

func (e *env) statSection() {
	o := e.o
	rand.Reader = osReader
	defer func() { rand.Reader = e.t }()
	N := hlib.N(20000, 200000)
	pt, ad := []byte("c20"), []byte{}
	aeadOf := func(name string, a tink.AEAD, err error, pfx, n int) {
		if err != nil {
			o.Violate("stat %s: %v", name, err)
			return
		}
		s := newStat(n)
		for i := 0; i < N; i++ {
			ct, err := a.Encrypt(pt, ad)
			if err != nil {
				o.Violate("stat %s: %v", name, err)
				return
			}
			s.add(field(ct, pfx, n))
		}
		s.report(e, name, false)
	}
	hAEAD := func(h *keyset.Handle, err error) (tink.AEAD, error) {
		if err != nil {
			return nil, err
		}
		return aead.New(h)
	}
	a, err := hAEAD(keyset.NewHandle(aead.AES256GCMKeyTemplate()))
	aeadOf("aesgcm-iv12", a, err, 5, 12)
	a, err = hAEAD(keyset.NewHandle(aead.XChaCha20Poly1305KeyTemplate()))
	aeadOf("xchacha20poly1305-nonce24", a, err, 5, 24)
	a, err = hAEAD(keyset.NewHandle(aead.AES128CTRHMACSHA256KeyTemplate()))
	aeadOf("aesctrhmac-iv16", a, err, 5, 16)
	a, err = hAEAD(keyset.NewHandle(aead.XAES256GCM192BitNonceKeyTemplate()))
	aeadOf("xaesgcm-salt12+iv12", a, err, 5, 24)
	if hlib.Thorough() {
		a, err = hAEAD(keyset.NewHandle(aead.AES256GCMSIVKeyTemplate()))
		aeadOf("aesgcmsiv-nonce12", a, err, 5, 12)
		a, err = hAEAD(keyset.NewHandle(aead.ChaCha20Poly1305KeyTemplate()))
		aeadOf("chacha20poly1305-nonce12", a, err, 5, 12)
		p, perr := aesctrhmac.NewParameters(aesctrhmac.ParametersOpts{AESKeySizeInBytes: 16, HMACKeySizeInBytes: 32, IVSizeInBytes: 12, TagSizeInBytes: 16,
			HashType: aesctrhmac.SHA256, Variant: aesctrhmac.VariantNoPrefix})
		if perr == nil {
			m := keyset.NewManager()
			id, err := m.AddNewKeyFromParameters(p)
			if err == nil {
				err = m.SetPrimary(id)
			}
			if err == nil {
				a, err = hAEAD(m.Handle())
			}
			aeadOf("aesctrhmac-iv12-raw", a, err, 0, 12)
		}
	}
	// streaming header: salt(16) ‖ nonce prefix(7)
	for _, c := range []struct {
		name string
		h    func() (*keyset.Handle, error)
		d    int
	}{
		{"aesgcmhkdf-header", func() (*keyset.Handle, error) { return keyset.NewHandle(streamingaead.AES128GCMHKDF4KBKeyTemplate()) }, 16},
		{"aesctrhmac-streaming-header", func() (*keyset.Handle, error) {
			return keyset.NewHandle(streamingaead.AES256CTRHMACSHA256Segment4KBKeyTemplate())
		}, 32},
	} {
		h, err := c.h()
		if err != nil {
			o.Violate("stat %s: %v", c.name, err)
			continue
		}
		sa, err := streamingaead.New(h)
		if err != nil {
			o.Violate("stat %s: %v", c.name, err)
			continue
		}
		s := newStat(c.d + 7)
		for i := 0; i < N; i++ {
			ct, err := streamEnc(sa, pt, ad, 16)
			if err != nil {
				o.Violate("stat %s: %v", c.name, err)
				break
			}
			s.add(field(ct, 1, c.d+7))
		}
		s.report(e, c.name, false)
	}
	// key ids of ONE manager: pairwise distinct by construction, spread over the 32-bit range
	{
		m := keyset.NewManager()
		s := newStat(4)
		tpl := aead.AES128GCMKeyTemplate()
		for i := 0; i < N; i++ {
			id, err := m.Add(tpl)
			if err != nil {
				o.Violate("stat ids: %v", err)
				break
			}
			s.add(be32(id))
		}
		s.report(e, "manager-ids", false)
		// 32-bit range coverage: the 16 top-nibble buckets all populated within ±25 %
		var bucket [16]int
		for k := range s.seen {
			bucket[k[0]>>4]++
		}
		for b, c := range bucket {
			if f := float64(c) * 16 / float64(s.n); f < 0.75 || f > 1.25 {
				o.Violate("stat ids: ids with top nibble %x are %.2f of the expected share", b, f)
			}
		}
	}
	// ids of fresh single-key handles (a new manager every time): no structure either; repeats are
	// possible in principle (birthday bound N²/2³³) and not an error
	{
		s := newStat(4)
		for i := 0; i < N; i++ {
			h, err := keyset.NewHandle(aead.AES128GCMKeyTemplate())
			if err != nil {
				o.Violate("stat handle ids: %v", err)
				break
			}
			en, _ := h.Primary()
			s.add(be32(en.KeyID()))
		}
		s.report(e, "fresh-handle-ids", true)
	}
}
