//go:build verif

// Harness c20: randomness-consumption discipline of every randomized operation (property C20).
//
// crypto/rand.Reader is replaced by a recording tape (tape.go). For every randomized scheme the
// harness resets the tape, runs ONE call of the real code, and sends the Lean model
// (TinkVerif/Model/Rand.lean, Driver/Rand.lean) the output together with the scheme's field
// geometry taken from the KEY PARAMETERS; the model's answer (the bytes at the field's position)
// must equal the bytes the tape handed out during the call — this checks both that exactly the
// field length was drawn and that the drawn bytes sit verbatim in the output. Histories of calls
// are checked against the model's `fields` (consecutive windows). Where the Lean side has a
// reference implementation (HPKE / ECIES with explicit ephemeral, ML-DSA Sign_internal with explicit
// rnd, SLH-DSA sign with explicit addrnd, X25519, RSA-PSS salt recovery) the whole output is
// recomputed from the tape bytes.
//
// Every line is a deterministic function of (seed, tier): a replay file is reproduced by running
// the same seed again (the lines carry explicit values; the keys they were made with are derived
// from the seed).
package main

import (
	"fmt"
	"os"
	"time"

	"github.com/tink-crypto/tink-go/v2/internal/verifharness/hlib"
)

type env struct {
	o    *hlib.Out
	t    *tapeT
	seed uint64
}

func (e *env) rng(stream string) *hlib.Rng { return hlib.NewRng(e.seed, "c20/"+stream) }

// expectPattern records the read pattern of a call under a category and raises a violation when
// it is not the expected one.
func (e *env) expectPattern(cat, want string) bool {
	got := e.t.Pattern()
	e.o.Count("pattern/" + cat + "=" + got)
	if got != want {
		e.o.Violate("%s: crypto/rand read pattern %s, the scheme's parameters say %s", cat, got, want)
		return false
	}
	return true
}

var t0 = time.Now()

func lap(name string) {
	if os.Getenv("C20_TIMING") != "" {
		fmt.Fprintf(os.Stderr, "c20: %-10s %6.2fs\n", name, time.Since(t0).Seconds())
	}
}

func main() {
	o := hlib.Open("c20")
	defer o.Close()
	if *hlib.FlagReplay != "" {
		// lines are a function of (seed, tier) only; a replay is the same generation again
		o.Count("replay/regenerated-from-seed")
	}
	e := &env{o: o, t: installTape(*hlib.FlagSeed), seed: *hlib.FlagSeed}
	only := os.Getenv("C20_ONLY")
	sections := []struct {
		name string
		f    func()
	}{
		{"stdlib", e.stdlibSection},
		{"aead", e.aeadSection},
		{"kms", e.kmsSection},
		{"stream", e.streamSection},
		{"hybrid", e.hybridSection},
		{"sig", e.sigSection},
		{"keygen", e.keygenSection},
		{"ids", e.idSection},
		{"stat", e.statSection},
		// appended sections (own rng streams; earlier lines do not move)
		{"large", e.largeSection},
		{"idhandle", e.idHandleSection},
	}
	for _, s := range sections {
		if only != "" && only != s.name {
			continue
		}
		e.t.Reset()
		e.t.Strict = false
		s.f()
		lap(s.name)
	}
}
