//go:build verif

package main

import (
	"bytes"
	"crypto/rand"
	"fmt"
	"io"
	"strings"

	"github.com/tink-crypto/tink-go/v2/internal/verifharness/hlib"
)

// tapeT replaces crypto/rand.Reader. It differs from hlib.Tape in one point: Go's standard
// library calls randutil.MaybeReadByte (a coin flip decides whether ONE byte is read from the
// caller's reader) in ecdh/ecdsa/rsa key generation and ECDSA signing precisely to make a
// sequential tape desynchronise. In the default (non-strict) mode single-byte reads are therefore
// served from a separate stream, are not logged and do not consume Forced bytes: what is logged
// is a deterministic function of the seed. In strict mode (AEAD, streaming, key ids, symmetric key
// generation — code that has no business reading single bytes) every read is logged, a 1-byte
// read included.
type tapeT struct {
	rng, single *hlib.Rng
	Forced      []byte   // served first (to logged reads only)
	Log         [][]byte // one entry per logged Read call since the last Reset
	Singles     int      // unlogged 1-byte reads since Reset (a coin flip: never part of a line)
	Strict      bool
}

var osReader io.Reader // the real crypto/rand.Reader, kept for the statistical section

func installTape(seed uint64) *tapeT {
	osReader = rand.Reader
	t := &tapeT{rng: hlib.NewRng(seed, "c20/tape"), single: hlib.NewRng(seed, "c20/tape-single")}
	rand.Reader = t
	return t
}

func (t *tapeT) Read(p []byte) (int, error) {
	if len(p) == 1 && !t.Strict {
		p[0] = byte(t.single.U64())
		t.Singles++
		return 1, nil
	}
	for i := range p {
		if len(t.Forced) > 0 {
			p[i] = t.Forced[0]
			t.Forced = t.Forced[1:]
		} else {
			p[i] = byte(t.rng.U64())
		}
	}
	t.Log = append(t.Log, append([]byte(nil), p...))
	return len(p), nil
}

func (t *tapeT) Reset() { t.Log = nil; t.Singles = 0; t.Forced = nil }

// Drawn returns all logged bytes since the last Reset.
func (t *tapeT) Drawn() []byte {
	var b []byte
	for _, l := range t.Log {
		b = append(b, l...)
	}
	return b
}

// Pattern is the read-length pattern since Reset, e.g. "4,32"; runs of more than three equal
// lengths are written "128*392".
func (t *tapeT) Pattern() string { return patternOf(t.Log) }

func patternOf(log [][]byte) string {
	if len(log) == 0 {
		return "-"
	}
	var ss []string
	for i := 0; i < len(log); {
		j := i
		for j < len(log) && len(log[j]) == len(log[i]) {
			j++
		}
		if j-i > 3 {
			ss = append(ss, fmt.Sprintf("%d*%d", len(log[i]), j-i))
		} else {
			for k := i; k < j; k++ {
				ss = append(ss, fmt.Sprint(len(log[i])))
			}
		}
		i = j
	}
	return strings.Join(ss, ",")
}

func (t *tapeT) ForceU32(ws ...uint32) {
	for _, w := range ws {
		t.Forced = append(t.Forced, byte(w>>24), byte(w>>16), byte(w>>8), byte(w))
	}
}

// run resets the tape, optionally forces bytes, runs f and returns log and drawn bytes.
func (t *tapeT) run(forced []byte, f func()) (log [][]byte, drawn []byte) {
	t.Reset()
	t.Forced = append([]byte(nil), forced...)
	f()
	log, drawn = t.Log, t.Drawn()
	if len(t.Forced) != 0 {
		// fewer bytes were drawn than were forced: leave nothing behind for the next call
		t.Forced = nil
	}
	return
}

// ---------- small helpers ----------

func toks(bs [][]byte) string {
	ss := make([]string, len(bs))
	for i, b := range bs {
		ss[i] = hlib.Tok(b)
	}
	return strings.Join(ss, " ")
}

func lensCSV(ns []int) string {
	if len(ns) == 0 {
		return "-"
	}
	ss := make([]string, len(ns))
	for i, n := range ns {
		ss[i] = fmt.Sprint(n)
	}
	return strings.Join(ss, ",")
}

func cat(bs ...[]byte) []byte { return bytes.Join(bs, nil) }

func clone(b []byte) []byte { return append([]byte(nil), b...) }

// field is the harness's own slicing of a ciphertext: ct[p:p+n] (nil when too short).
func field(ct []byte, p, n int) []byte {
	if len(ct) < p+n {
		return nil
	}
	return ct[p : p+n]
}

func must[T any](v T, err error) T {
	if err != nil {
		panic(err)
	}
	return v
}
