//go:build verif

package main

import (
	"bytes"
	"encoding/binary"
	"fmt"
	"math/big"

	"github.com/tink-crypto/tink-go/v2/aead"
	"github.com/tink-crypto/tink-go/v2/core/registry"
	"github.com/tink-crypto/tink-go/v2/daead"
	"github.com/tink-crypto/tink-go/v2/hybrid"
	"github.com/tink-crypto/tink-go/v2/hybrid/hpke"
	"github.com/tink-crypto/tink-go/v2/internal/internalapi"
	"github.com/tink-crypto/tink-go/v2/internal/keygenregistry"
	"github.com/tink-crypto/tink-go/v2/internal/protoserialization"
	"github.com/tink-crypto/tink-go/v2/internal/verifharness/hlib"
	"github.com/tink-crypto/tink-go/v2/jwt"
	"github.com/tink-crypto/tink-go/v2/key"
	"github.com/tink-crypto/tink-go/v2/keyset"
	"github.com/tink-crypto/tink-go/v2/mac"
	"github.com/tink-crypto/tink-go/v2/prf"
	"github.com/tink-crypto/tink-go/v2/secretdata"
	"github.com/tink-crypto/tink-go/v2/signature"
	pmldsa "github.com/tink-crypto/tink-go/v2/signature/mldsa"
	"github.com/tink-crypto/tink-go/v2/signature/rsassapss"
	pslh "github.com/tink-crypto/tink-go/v2/signature/slhdsa"
	"github.com/tink-crypto/tink-go/v2/streamingaead"
	tsubtle "github.com/tink-crypto/tink-go/v2/subtle"

	tinkpb "github.com/tink-crypto/tink-go/v2/proto/tink_go_proto"
)

// genSpec: one key template and what its generator must draw, written down by hand from the
// template's documentation (not computed from the code under test).
type genSpec struct {
	name string
	tpl  *tinkpb.KeyTemplate
	lens []int   // key-material reads in draw order (verbatim kinds)
	kind string  // verbatim | x25519 | nist | rsa
	cv   *curveT // nist
	// split cuts the key's secret bytes into the parts drawn (default: keyMaterial)
	split func(k key.Key) [][]byte
}

func tplOf(p key.Parameters) *tinkpb.KeyTemplate {
	return must(protoserialization.SerializeParameters(p))
}

func splitN(n, parts int) func(k key.Key) [][]byte {
	return func(k key.Key) [][]byte {
		m := keyMaterial(k)
		if len(m) != 1 || len(m[0]) < n*parts {
			return nil
		}
		var out [][]byte
		for i := 0; i < parts; i++ {
			out = append(out, m[0][i*n:(i+1)*n])
		}
		return out
	}
}

func (e *env) genSpecs() []genSpec {
	v := "verbatim"
	hp := func(k hpke.KEMID, vr hpke.Variant) *tinkpb.KeyTemplate {
		return tplOf(must(hpke.NewParameters(hpke.ParametersOpts{KEMID: k, KDFID: hpke.HKDFSHA256, AEADID: hpke.AES256GCM, Variant: vr})))
	}
	specs := []genSpec{
		{name: "AES128_GCM", tpl: aead.AES128GCMKeyTemplate(), lens: []int{16}, kind: v},
		{name: "AES256_GCM", tpl: aead.AES256GCMKeyTemplate(), lens: []int{32}, kind: v},
		{name: "AES256_GCM_RAW", tpl: aead.AES256GCMNoPrefixKeyTemplate(), lens: []int{32}, kind: v},
		{name: "AES128_GCM_SIV", tpl: aead.AES128GCMSIVKeyTemplate(), lens: []int{16}, kind: v},
		{name: "AES256_GCM_SIV", tpl: aead.AES256GCMSIVKeyTemplate(), lens: []int{32}, kind: v},
		{name: "AES128_CTR_HMAC_SHA256", tpl: aead.AES128CTRHMACSHA256KeyTemplate(), lens: []int{16, 32}, kind: v},
		{name: "AES256_CTR_HMAC_SHA256", tpl: aead.AES256CTRHMACSHA256KeyTemplate(), lens: []int{32, 32}, kind: v},
		{name: "CHACHA20_POLY1305", tpl: aead.ChaCha20Poly1305KeyTemplate(), lens: []int{32}, kind: v},
		{name: "XCHACHA20_POLY1305", tpl: aead.XChaCha20Poly1305KeyTemplate(), lens: []int{32}, kind: v},
		{name: "XAES_256_GCM_192", tpl: aead.XAES256GCM192BitNonceKeyTemplate(), lens: []int{32}, kind: v},
		{name: "XAES_256_GCM_160_RAW", tpl: aead.XAES256GCM160BitNonceNoPrefixKeyTemplate(), lens: []int{32}, kind: v},
		{name: "AES256_SIV", tpl: daead.AESSIVKeyTemplate(), lens: []int{64}, kind: v},
		{name: "HMAC_SHA256_128BITTAG", tpl: mac.HMACSHA256Tag128KeyTemplate(), lens: []int{32}, kind: v},
		{name: "HMAC_SHA512_512BITTAG", tpl: mac.HMACSHA512Tag512KeyTemplate(), lens: []int{64}, kind: v},
		{name: "AES_CMAC", tpl: mac.AESCMACTag128KeyTemplate(), lens: []int{32}, kind: v},
		{name: "HMAC_SHA256_PRF", tpl: prf.HMACSHA256PRFKeyTemplate(), lens: []int{32}, kind: v},
		{name: "HMAC_SHA512_PRF", tpl: prf.HMACSHA512PRFKeyTemplate(), lens: []int{64}, kind: v},
		{name: "HKDF_SHA256_PRF", tpl: prf.HKDFSHA256PRFKeyTemplate(), lens: []int{32}, kind: v},
		{name: "AES_CMAC_PRF", tpl: prf.AESCMACPRFKeyTemplate(), lens: []int{32}, kind: v},
		{name: "AES128_GCM_HKDF_4KB", tpl: streamingaead.AES128GCMHKDF4KBKeyTemplate(), lens: []int{16}, kind: v},
		{name: "AES256_GCM_HKDF_1MB", tpl: streamingaead.AES256GCMHKDF1MBKeyTemplate(), lens: []int{32}, kind: v},
		{name: "AES128_CTR_HMAC_SHA256_4KB", tpl: streamingaead.AES128CTRHMACSHA256Segment4KBKeyTemplate(), lens: []int{16}, kind: v},
		{name: "AES256_CTR_HMAC_SHA256_4KB", tpl: streamingaead.AES256CTRHMACSHA256Segment4KBKeyTemplate(), lens: []int{32}, kind: v},
		{name: "JWT_HS256", tpl: jwt.HS256Template(), lens: []int{32}, kind: v},
		{name: "JWT_HS384_RAW", tpl: jwt.RawHS384Template(), lens: []int{48}, kind: v},
		{name: "JWT_HS512", tpl: jwt.HS512Template(), lens: []int{64}, kind: v},
		// asymmetric keys whose secret is the drawn bytes as they are
		{name: "ED25519", tpl: signature.ED25519KeyTemplate(), lens: []int{32}, kind: v},
		{name: "ED25519_RAW", tpl: signature.ED25519KeyWithoutPrefixTemplate(), lens: []int{32}, kind: v},
		{name: "ML_DSA_44", tpl: tplOf(must(pmldsa.NewParameters(pmldsa.MLDSA44, pmldsa.VariantTink))), lens: []int{32}, kind: v},
		{name: "ML_DSA_65_RAW", tpl: tplOf(must(pmldsa.NewParameters(pmldsa.MLDSA65, pmldsa.VariantNoPrefix))), lens: []int{32}, kind: v},
		{name: "ML_DSA_87", tpl: tplOf(must(pmldsa.NewParameters(pmldsa.MLDSA87, pmldsa.VariantTink))), lens: []int{32}, kind: v},
		// SLH-DSA: SK.seed, SK.prf, PK.seed are three reads of n bytes, the first 3n bytes of the secret key
		{name: "SLH_DSA_SHA2_128F", tpl: tplOf(must(pslh.NewParameters(pslh.SHA2, 64, pslh.FastSigning, pslh.VariantTink))), lens: []int{16, 16, 16}, kind: v, split: splitN(16, 3)},
		{name: "SLH_DSA_SHAKE_128F_RAW", tpl: tplOf(must(pslh.NewParameters(pslh.SHAKE, 64, pslh.FastSigning, pslh.VariantNoPrefix))), lens: []int{16, 16, 16}, kind: v, split: splitN(16, 3)},
		{name: "SLH_DSA_SHA2_128S", tpl: tplOf(must(pslh.NewParameters(pslh.SHA2, 64, pslh.SmallSignature, pslh.VariantTink))), lens: []int{16, 16, 16}, kind: v, split: splitN(16, 3)},
		{name: "HPKE_XWING", tpl: hp(hpke.X_WING, hpke.VariantTink), lens: []int{32}, kind: v},
		{name: "HPKE_MLKEM768", tpl: hp(hpke.ML_KEM768, hpke.VariantTink), lens: []int{64}, kind: v},
		{name: "HPKE_MLKEM1024_RAW", tpl: hp(hpke.ML_KEM1024, hpke.VariantNoPrefix), lens: []int{64}, kind: v},
		// crypto/ecdh X25519: MaybeReadByte, then 32 bytes which are the private key
		{name: "HPKE_X25519", tpl: hybrid.DHKEM_X25519_HKDF_SHA256_HKDF_SHA256_AES_256_GCM_Key_Template(), lens: []int{32}, kind: "x25519"},
		{name: "HPKE_X25519_RAW", tpl: hybrid.DHKEM_X25519_HKDF_SHA256_HKDF_SHA256_CHACHA20_POLY1305_Raw_Key_Template(), lens: []int{32}, kind: "x25519"},
		// NIST curves through crypto/ecdh: the scalar is the read with byte 1 xored, P-521 masked, redrawn when out of range
		{name: "HPKE_P256", tpl: hybrid.DHKEM_P256_HKDF_SHA256_HKDF_SHA256_AES_128_GCM_Key_Template(), kind: "nist", cv: curves[0]},
		{name: "HPKE_P384", tpl: hp(hpke.DHKEM_P384_HKDF_SHA384, hpke.VariantCrunchy), kind: "nist", cv: curves[1]},
		{name: "HPKE_P521_RAW", tpl: hp(hpke.DHKEM_P521_HKDF_SHA512, hpke.VariantNoPrefix), kind: "nist", cv: curves[2]},
		{name: "ECIES_P256_AES128_GCM", tpl: hybrid.ECIESHKDFAES128GCMKeyTemplate(), kind: "nist", cv: curves[0]},
		{name: "ECIES_P256_AES128_CTR_HMAC", tpl: hybrid.ECIESHKDFAES128CTRHMACSHA256KeyTemplate(), kind: "nist", cv: curves[0]},
		{name: "ECDSA_P256", tpl: signature.ECDSAP256KeyTemplate(), kind: "nist", cv: curves[0]},
		{name: "ECDSA_P384_SHA512", tpl: signature.ECDSAP384SHA512KeyTemplate(), kind: "nist", cv: curves[1]},
		{name: "ECDSA_P521_RAW", tpl: signature.ECDSAP521KeyWithoutPrefixTemplate(), kind: "nist", cv: curves[2]},
		{name: "JWT_ES256", tpl: jwt.ES256Template(), kind: "nist", cv: curves[0]},
		{name: "JWT_ES512_RAW", tpl: jwt.RawES512Template(), kind: "nist", cv: curves[2]},
		// RSA: crypto/rsa.GenerateKey — hundreds of reads; only "a function of the tape, and two keys differ"
		{name: "RSA_SSA_PSS_2048", tpl: tplOf(must(rsassapss.NewParameters(rsassapss.ParametersValues{ModulusSizeBits: 2048, SigHashType: rsassapss.SHA256,
			MGF1HashType: rsassapss.SHA256, PublicExponent: 65537, SaltLengthBytes: 32}, rsassapss.VariantTink))), kind: "rsa"},
		{name: "JWT_RS256_2048", tpl: jwt.RS256_2048_F4_Key_Template(), kind: "rsa"},
	}
	return specs
}

func be32(id uint32) []byte { return binary.BigEndian.AppendUint32(nil, id) }

// rsaFingerprint: the secret primes of an RSA private key of either package.
func rsaFingerprint(k key.Key) []byte {
	type pq interface {
		P() secretdata.Bytes
		Q() secretdata.Bytes
	}
	if r, ok := k.(pq); ok {
		return cat(sdata(r.P()), sdata(r.Q()))
	}
	return nil
}

func (e *env) keygenSection() {
	o := e.o
	rng := e.rng("keygen")
	for _, sp := range e.genSpecs() {
		o.Case()
		strict := sp.kind == "verbatim"
		routes := []string{"NewHandle", "Manager.Add", "AddNewKeyFromParameters", "CreateKey", "registry.NewKeyData"}
		if sp.kind == "rsa" {
			routes = routes[:1]
			if hlib.Thorough() {
				routes = []string{"NewHandle", "Manager.Add"}
			}
		}
		params, perr := protoserialization.ParseParameters(sp.tpl)
		raw := sp.tpl.GetOutputPrefixType() == tinkpb.OutputPrefixType_RAW
		mgr := keyset.NewManager()
		seenKeys := map[string]bool{}
		for _, route := range routes {
			reps := hlib.N(2, 6)
			for rep := 0; rep < reps; rep++ {
				withID := true
				// gen runs the route once and returns the new key and its id
				gen := func() (k key.Key, id uint32, err error) {
					switch route {
					case "NewHandle":
						var h *keyset.Handle
						if h, err = keyset.NewHandle(sp.tpl); err == nil {
							var en *keyset.Entry
							if en, err = h.Primary(); err == nil {
								k, id = en.Key(), en.KeyID()
							}
						}
					case "Manager.Add", "AddNewKeyFromParameters":
						if route == "Manager.Add" {
							id, err = mgr.Add(sp.tpl)
						} else if perr != nil {
							err = perr
						} else {
							id, err = mgr.AddNewKeyFromParameters(params)
						}
						if err == nil {
							es, _ := keyset.VerifManagerDump(mgr)
							k = es[len(es)-1].Key
							if es[len(es)-1].ID != id {
								err = fmt.Errorf("last entry has id %d, Add returned %d", es[len(es)-1].ID, id)
							}
						}
					case "CreateKey":
						withID = false
						if perr != nil {
							err = perr
							return
						}
						req := uint32(0)
						if !raw {
							req = 0x01020304
						}
						k, err = keygenregistry.CreateKey(params, req)
					case "registry.NewKeyData":
						withID = false
						var kd *tinkpb.KeyData
						if kd, err = registry.NewKeyData(sp.tpl); err == nil {
							var ser *protoserialization.KeySerialization
							if ser, err = protoserialization.NewKeySerialization(kd, tinkpb.OutputPrefixType_RAW, 0); err == nil {
								k, err = protoserialization.ParseKey(ser)
							}
						}
					}
					return
				}
				var k key.Key
				var id uint32
				var err error
				e.t.Strict = strict
				log, drawn := e.t.run(nil, func() { k, id, err = gen() })
				e.t.Strict = false
				if err != nil {
					if route == "registry.NewKeyData" || route == "CreateKey" {
						o.Count("keygen/route-unavailable/" + route)
						break
					}
					o.Violate("keygen %s via %s: %v", sp.name, route, err)
					break
				}
				cat := "keygen/" + sp.name
				if !withID {
					log = append([][]byte{nil}, log...) // no id read on this route
				}
				if len(log) < 2 || (withID && len(log[0]) != 4) {
					o.Violate("keygen %s via %s: read pattern %s: the first read is not the 4-byte key id", sp.name, route, patternOf(log))
					continue
				}
				if withID {
					if binary.BigEndian.Uint32(log[0]) != id {
						o.Violate("keygen %s via %s: key id %d is not the first drawn word %x", sp.name, route, id, log[0])
					}
					if req, need := k.IDRequirement(); need != !raw || (need && req != id) {
						o.Violate("keygen %s via %s: id requirement (%d,%v) does not match the keyset id %d", sp.name, route, req, need, id)
					}
				}
				matLog := log[1:]
				idPart := ""
				if withID {
					idPart = "4,"
				}
				o.Count("pattern/" + cat + "=" + idPart + patternOf(matLog))
				var fp []byte // what must differ between two generated keys
				switch sp.kind {
				case "verbatim", "x25519":
					want := lensCSV(sp.lens)
					if patternOf(matLog) != want {
						o.Violate("keygen %s via %s: key-material reads %s, the template says %s", sp.name, route, patternOf(matLog), want)
						continue
					}
					split := sp.split
					if split == nil {
						split = keyMaterial
					}
					parts := split(k)
					if len(parts) != len(sp.lens) {
						o.Violate("keygen %s via %s: cannot take the key apart (%T)", sp.name, route, k)
						continue
					}
					fp = cat2(parts)
					// the key's secret bytes are the windows of this call's tape, the id the first word
					if withID {
						o.Emit(fmt.Sprintf("!R hist %s 4,%s", hlib.Tok(drawn), want), hlib.Tok(be32(id))+" "+toks(parts), true)
					} else {
						o.Emit(fmt.Sprintf("!R hist %s %s", hlib.Tok(drawn), want), toks(parts), true)
					}
					if sp.kind == "x25519" {
						pk, _ := k.(interface{ PublicKey() (key.Key, error) }).PublicKey()
						o.Emit("!R x25519pub "+hlib.Tok(matLog[0]), hlib.Tok(pk.(*hpke.PublicKey).PublicKeyBytes()), true)
					}
					o.Count("keygen/material-from-tape/" + sp.name)
					o.Count("keygen/route/" + route)
				case "nist":
					sc, err := sp.cv.ephemeral(matLog)
					if err != nil {
						o.Violate("keygen %s via %s: reads do not explain themselves: %v", sp.name, route, err)
						continue
					}
					m := keyMaterial(k)
					if len(m) != 1 || new(big.Int).SetBytes(m[0]).Cmp(new(big.Int).SetBytes(sc)) != 0 {
						o.Violate("keygen %s via %s: private scalar is not the drawn bytes (byte 1 ^ 0x42, P-521 top bits masked)", sp.name, route)
						continue
					}
					fp = m[0]
					o.Count("keygen/scalar-from-tape/" + sp.name)
					o.Count("keygen/route/" + route)
				case "rsa":
					fp = rsaFingerprint(k)
					if len(fp) == 0 {
						o.Violate("keygen %s: cannot read the primes of %T", sp.name, k)
						continue
					}
					if rep == 0 && route == "NewHandle" {
						var k2 key.Key
						e.t.run(drawn, func() { k2, _, err = gen() })
						if err != nil || !bytes.Equal(rsaFingerprint(k2), fp) {
							o.Violate("keygen %s: replaying the tape gives another RSA key (randomness from elsewhere)", sp.name)
						}
						o.Count(cat + "/function-of-tape")
					}
				}
				if seenKeys[string(fp)] {
					o.Violate("keygen %s: the same key material generated twice", sp.name)
				}
				seenKeys[string(fp)] = true
				if sp.kind != "rsa" && rep == 0 && route == "NewHandle" {
					var k2 key.Key
					var id2 uint32
					e.t.Strict = strict
					e.t.run(drawn, func() { k2, id2, err = gen() })
					e.t.Strict = false
					if err != nil || id2 != id || !k2.Equal(k) {
						o.Violate("keygen %s: replaying the tape gives another key", sp.name)
					}
					o.Count("keygen/replay")
				}
			}
		}
		// a second generation round must not repeat any key of the first (already in seenKeys)
		if sp.kind != "rsa" {
			e.t.Strict = strict
			e.t.Reset()
			for i := 0; i < hlib.N(3, 20); i++ {
				h, err := keyset.NewHandle(sp.tpl)
				if err != nil {
					break
				}
				en, _ := h.Primary()
				m := cat2(keyMaterial(en.Key()))
				if seenKeys[string(m)] {
					o.Violate("keygen %s: the same key material generated twice", sp.name)
				}
				seenKeys[string(m)] = true
			}
			e.t.Strict = false
			o.Count("keygen/keys-differ-screen")
		}
	}
	e.rawGenSection(rng)
}

// rawGenSection: secretdata.NewBytesFromRand and the X25519 helper of tink's subtle package.
func (e *env) rawGenSection(rng *hlib.Rng) {
	o := e.o
	o.Case()
	for _, n := range []int{1, 2, 7, 16, 32, 33, 64, 100, 255, 1024} {
		for rep := 0; rep < hlib.N(2, 6); rep++ {
			var b secretdata.Bytes
			var err error
			e.t.Strict = true
			_, drawn := e.t.run(nil, func() { b, err = secretdata.NewBytesFromRand(uint32(n)) })
			e.t.Strict = false
			if err != nil || b.Len() != n {
				o.Violate("secretdata.NewBytesFromRand(%d): err=%v len=%d", n, err, b.Len())
				continue
			}
			e.expectPattern("secretdata.NewBytesFromRand", fmt.Sprint(n))
			o.Emit(fmt.Sprintf("!R hist %s %d", hlib.Tok(drawn), n), hlib.Tok(sdata(b)), true)
			o.Count("keygen/NewBytesFromRand")
		}
	}
	for rep := 0; rep < hlib.N(4, 24); rep++ {
		var sk []byte
		var err error
		e.t.Strict = true
		_, drawn := e.t.run(nil, func() { sk, err = tsubtle.GeneratePrivateKeyX25519() })
		e.t.Strict = false
		if err != nil {
			o.Violate("subtle.GeneratePrivateKeyX25519: %v", err)
			continue
		}
		e.expectPattern("subtle.GeneratePrivateKeyX25519", "32")
		pub, err := tsubtle.PublicFromPrivateX25519(sk)
		if err != nil {
			o.Violate("subtle.PublicFromPrivateX25519: %v", err)
			continue
		}
		o.Emit(fmt.Sprintf("!R hist %s 32", hlib.Tok(drawn)), hlib.Tok(sk), true)
		o.Emit("!R x25519pub "+hlib.Tok(drawn), hlib.Tok(pub), true)
		o.Count("keygen/subtle-x25519")
	}
	_ = rng
}

// ---------- key ids ----------

func (e *env) idSection() {
	o := e.o
	rng := e.rng("ids")
	tpls := []*tinkpb.KeyTemplate{aead.AES128GCMKeyTemplate(), mac.HMACSHA256Tag128KeyTemplate(), aead.AES256GCMNoPrefixKeyTemplate(), aead.ChaCha20Poly1305KeyTemplate()}
	for mI := 0; mI < hlib.N(20, 150); mI++ {
		o.Case()
		m := keyset.NewManager()
		handed := map[uint32]bool{}
		var live []uint32
		steps := 4 + rng.Intn(12)
		for st := 0; st < steps; st++ {
			_, un := keyset.VerifManagerDump(m)
			un = hlib.SortedU32(un)
			// forced draws: collisions with unavailable ids (the same word several times too), then
			// sometimes an explicit fresh word (boundary values), otherwise whatever the tape has next
			var forced []uint32
			if len(un) > 0 && rng.Chance(70) {
				for c := rng.Intn(4); c > 0; c-- {
					w := un[rng.Intn(len(un))]
					forced = append(forced, w)
					if rng.Chance(30) {
						forced = append(forced, w)
					}
				}
			}
			if rng.Chance(30) {
				forced = append(forced, uint32(rng.Pick(0, 1, 0x7fffffff, 0x80000000, 0xffffffff, 0x01000000)))
			}
			var fb []byte
			for _, w := range forced {
				fb = append(fb, be32(w)...)
			}
			var id uint32
			var err error
			op := rng.Intn(10)
			var extKey key.Key
			if op >= 8 {
				// an existing key object without id requirement: the manager only draws its id
				extKey = must(keygenregistry.CreateKey(must(protoserialization.ParseParameters(aead.AES256GCMNoPrefixKeyTemplate())), 0))
			}
			e.t.Strict = true
			log, _ := e.t.run(fb, func() {
				switch {
				case op < 6:
					id, err = m.Add(tpls[rng.Intn(len(tpls))])
				case op < 8:
					p, _ := protoserialization.ParseParameters(tpls[rng.Intn(len(tpls))])
					id, err = m.AddNewKeyFromParameters(p)
				default:
					id, err = m.AddKeyWithOpts(extKey, internalapi.Token{})
				}
			})
			e.t.Strict = false
			if err != nil {
				o.Violate("manager add failed: %v", err)
				break
			}
			// the words the id loop saw: the leading 4-byte reads
			var words []uint32
			var accepted []byte
			idReads := log
			for _, l := range idReads {
				if len(l) != 4 {
					break
				}
				words = append(words, binary.BigEndian.Uint32(l))
				accepted = l
			}
			if len(words) == 0 {
				o.Violate("manager add: no 4-byte id read (pattern %s)", patternOf(log))
				break
			}
			o.Emit(fmt.Sprintf("!R id %s %s", hlib.U32List(un), hlib.U32List(words)), fmt.Sprint(id), true)
			o.Emit("!R word "+hlib.Tok(accepted), fmt.Sprint(id), true)
			o.Count(fmt.Sprintf("ids/redraws=%d", len(words)-1))
			if handed[id] {
				o.Violate("manager handed out id %d twice", id)
			}
			handed[id] = true
			live = append(live, id)
			// deleted ids stay unavailable: delete now and then (never the only key)
			if len(live) > 2 && rng.Chance(20) {
				i := rng.Intn(len(live))
				if err := m.Delete(live[i]); err == nil {
					live = append(live[:i], live[i+1:]...)
					o.Count("ids/delete")
				}
			}
		}
	}
}
